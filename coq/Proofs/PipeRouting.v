(** C01_routing: invariants that tie the wire, the queue, the reader's loop state and the call records
    together, for servers that follow ServerProto. *)
From Coq Require Import List NArith ZArith Bool Arith Lia String Permutation.
Require Import RV.Model.Base RV.Model.PipeQueue RV.Model.Pipe RV.Model.PipeLts.
Require Import RV.Proofs.PipeLtsBasics RV.Proofs.PipeReaderProofs RV.Proofs.PipeExclusive.
Import ListNotations.
Open Scope N_scope.

Definition wire_of_slot (sl : slot) : list witem := map witem_of (s_cmds sl).

Section Defs.
  Variable g : config.
  Let r2ps := g_r2ps g.
  Let sv := g_srv g.

  (** frames the server may have sent for the wire items [ws], in order, with out-of-band pushes anywhere
      between the (contiguous) answers to single items *)
  Inductive ServedP (P : msg -> bool) : list witem -> list msg -> Prop :=
  | SvNil : ServedP P [] []
  | SvPush p ws fs : P p = true -> ServedP P ws fs -> ServedP P ws (p :: fs)
  | SvItem w ws fs : ServedP P ws fs -> ServedP P (w :: ws) (frames_of sv w ++ fs).

  (** out-of-band pushes: while the pipe is in its synchronous phase only RESP3 push frames occur *)
  Definition push_bg (m : msg) : bool := free_push r2ps m.
  Definition push_sync (m : msg) : bool := free_push r2ps m && N.eqb (m_typ m) t_push.
  Definition Served := ServedP push_bg.
  Definition ServedS := ServedP push_sync.

  Definition reals (c : crec) (k : nat) : list result :=
    map RMsg (map (result_of sv) (firstn k (k_cmds c))).

  (** per-record invariants *)
  Definition rec_wf (c : crec) : Prop :=
    k_pc c <> PIdle -> forallb wf_cmd (k_cmds c) = true /\ k_cmds c <> [] /\ (k_multi c = true \/ List.length (k_cmds c) = 1%nat).
  Definition rec_r1 (c : crec) : Prop := exists k es, k_res c = reals c k ++ map RErr es.
  Definition full (c : crec) : Prop := List.length (k_res c) = List.length (k_cmds c).
  Definition rec_cmp (c : crec) : Prop :=
    (k_comp c = true \/ k_pc c = PGot \/ k_drain c = DGot \/ (exists b, k_pc c = PDecr b) \/ k_pc c = PBgAfter) -> full c.
  Definition rec_r2 (c : crec) : Prop :=
    forall r, k_ret c = Some r -> r = errs_for c ECtx \/ (r = k_res c /\ full c).
  Definition rec_sync (c : crec) : Prop :=
    sync_user c = true -> existsb c_noreply (k_cmds c) = false.
  Definition rec_fresh (c : crec) : Prop :=
    match k_pc c with
    | PIncr | PLoad _ | PBg | PPut | PSyncW | PErr => k_res c = [] /\ k_comp c = false /\ k_ret c = None
    | PSyncR _ => k_comp c = false /\ k_ret c = None
    | _ => True
    end.
  Definition rec_ret (c : crec) : Prop := k_ret c <> None -> k_pc c = PRet.
  Definition rec_ok (c : crec) : Prop :=
    rec_wf c /\ rec_r1 c /\ rec_cmp c /\ rec_r2 c /\ rec_sync c /\ rec_fresh c /\ rec_ret c.

  (** the record of the call that owns a slot which is in the queue or being filled *)
  Definition owner_ok (sl : slot) (c : crec) : Prop :=
    s_multi sl = k_multi c /\ s_cmds sl = k_cmds c /\ k_comp c = false /\
    (k_pc c = PWait \/ (k_pc c = PRet /\ k_ret c = Some (errs_for c ECtx))).

  Definition reading (c : crec) : Prop := exists k, k_pc c = PSyncR k.

  Record InvB (s : pstate) : Prop := mkInvB {
    b_rec : forall t, rec_ok (p_calls s t);
    b_off : p_b s = BOff -> q_wr (p_q s) = [] /\ p_wbuf s = [] /\ p_w s = WOff /\ p_bg s = false;
    b_held : (forall r, p_b s <> BRead r) -> q_held (p_q s) = false;
    b_queue : forall sl, In sl (q_pend (p_q s) ++ q_wr (p_q s)) ->
              owner_ok sl (p_calls s (s_owner sl)) /\ k_res (p_calls s (s_owner sl)) = [];
    b_nodup : NoDup (map s_owner (q_pend (p_q s) ++ q_wr (p_q s)));
    b_cur : forall r, p_b s = BRead r ->
            flags_clear r /\ (0 <= r_skip r)%Z /\ (r_ff r <= List.length (r_multi r))%nat /\
            if Nat.ltb (r_ff r) (List.length (r_multi r)) then
              q_held (p_q s) = true /\
              owner_ok (mkSlot (r_owner r) (r_resps r) (r_multi r)) (p_calls s (r_owner r)) /\
              k_res (p_calls s (r_owner r)) = reals (p_calls s (r_owner r)) (r_ff r) /\
              ~ In (r_owner r) (map s_owner (q_pend (p_q s) ++ q_wr (p_q s)))
            else q_held (p_q s) = false;
    b_coh : forall r, p_b s = BRead r ->
            exists conf rest csd csr,
              p_s2c s = conf ++ rest /\ Z.of_nat (List.length conf) = r_skip r /\
              forallb (sub_confirm r2ps) conf = true /\ Served (map witem_of csd) rest /\
              skipn (r_ff r) (r_multi r) ++ flat_map s_cmds (q_wr (p_q s)) = csd ++ csr /\
              map witem_of csr = p_c2s s ++ p_wbuf s;
    b_sync : p_b s = BOff ->
             ((forall t, ~ reading (p_calls s t)) -> p_c2s s = [] /\ ServedS [] (p_s2c s)) /\
             (forall t k, k_pc (p_calls s t) = PSyncR k ->
                (k <= List.length (k_cmds (p_calls s t)))%nat /\
                k_res (p_calls s t) = reals (p_calls s t) (List.length (k_cmds (p_calls s t)) - k) /\
                exists csd csr,
                  skipn (List.length (k_cmds (p_calls s t)) - k) (k_cmds (p_calls s t)) = csd ++ csr /\
                  map witem_of csr = p_c2s s /\ ServedS (map witem_of csd) (p_s2c s))
  }.

  (** ** Served *)
  Lemma served_snoc_push P ws fs p : ServedP P ws fs -> P p = true -> ServedP P ws (fs ++ [p]).
  Proof.
    induction 1 as [|q ws fs Hq H IH|w ws fs H IH]; intros Hp; cbn.
    - apply SvPush; [assumption|constructor].
    - apply SvPush; auto.
    - rewrite <- app_assoc. apply SvItem. auto.
  Qed.

  Lemma served_snoc_item P ws fs w : ServedP P ws fs -> ServedP P (ws ++ [w]) (fs ++ frames_of sv w).
  Proof.
    induction 1 as [|q ws fs Hq H IH|w' ws fs H IH]; cbn.
    - rewrite <- (app_nil_r (frames_of sv w)). apply (SvItem P w [] []). constructor.
    - apply SvPush; auto.
    - rewrite <- app_assoc. apply SvItem. auto.
  Qed.

  Lemma served_mono (P Q : msg -> bool) ws fs : (forall m, P m = true -> Q m = true) -> ServedP P ws fs -> ServedP Q ws fs.
  Proof. intros HPQ. induction 1; constructor; auto. Qed.

  (** ** what ServerProto says about the answer to one command *)
  Hypothesis Hsrv : forall c, cmd_served_ok r2ps sv c = true.

  Inductive kind_of (c : cmd) : Prop :=
  | KNormal : c_unsub c = false -> c_noreply c = false -> witem_of c = WReply c ->
              is_push_frame r2ps (sv_reply sv c) = false -> result_of sv c = sv_reply sv c -> kind_of c
  | KSub : c_unsub c = false -> c_noreply c = true -> witem_of c = WSub c ->
           forallb (sub_confirm r2ps) (sv_confirm sv c) = true ->
           S (List.length (sv_confirm sv c)) = c_argc c -> (1 <= List.length (sv_confirm sv c))%nat ->
           result_of sv c = empty_msg -> kind_of c
  | KPong : c_unsub c = true -> witem_of c = WPing c ->
            is_push_frame r2ps (sv_pong sv c) = false -> fst (is_unsub_reply (sv_pong sv c)) = true ->
            bytes_eqb (m_str (sv_pong sv c)) (b "QUEUED"%string) = false ->
            result_of sv c = snd (is_unsub_reply (sv_pong sv c)) -> kind_of c.

  Lemma kind_of_cmd c : kind_of c.
  Proof.
    pose proof (Hsrv c) as H. unfold cmd_served_ok in H.
    destruct (c_unsub c) eqn:Eu.
    - apply andb_true_iff in H as [H H3]. apply andb_true_iff in H as [H1 H2].
      apply KPong; auto.
      + unfold witem_of. now rewrite Eu.
      + now apply negb_true_iff.
      + now apply negb_true_iff.
      + unfold result_of. now rewrite Eu.
    - destruct (c_noreply c) eqn:En.
      + apply andb_true_iff in H as [H H3]. apply andb_true_iff in H as [H1 H2].
        apply KSub; auto.
        * unfold witem_of. now rewrite Eu, En.
        * now apply Nat.eqb_eq.
        * apply Nat.eqb_eq in H2. apply Nat.leb_le in H3. lia.
        * unfold result_of. now rewrite Eu, En.
      + apply KNormal; auto.
        * unfold witem_of. now rewrite Eu, En.
        * now apply negb_true_iff.
        * unfold result_of. now rewrite Eu, En.
  Qed.

  Lemma witem_of_inj c c' : witem_of c = witem_of c' -> c = c'.
  Proof.
    unfold witem_of. destruct (c_unsub c), (c_unsub c'), (c_noreply c), (c_noreply c'); intros H; inversion H; reflexivity.
  Qed.

  Lemma frames_nonempty c : frames_of sv (witem_of c) <> [].
  Proof.
    destruct (kind_of_cmd c) as [_ _ E _ _|_ _ E _ _ L _|_ E _ _ _ _]; rewrite E; cbn; try discriminate.
    destruct (sv_confirm sv c); [cbn in L; lia|discriminate].
  Qed.

  Lemma served_inv P cs f rest :
    ServedP P (map witem_of cs) (f :: rest) ->
    (P f = true /\ ServedP P (map witem_of cs) rest) \/
    (exists c cs' tl fs', cs = c :: cs' /\ frames_of sv (witem_of c) = f :: tl /\ rest = tl ++ fs' /\
                          ServedP P (map witem_of cs') fs').
  Proof.
    intros H. remember (map witem_of cs) as ws eqn:Ews. remember (f :: rest) as fs eqn:Efs.
    destruct H as [|p ws fs0 Hp H|w ws fs0 H].
    - discriminate.
    - inversion Efs; subst. left. split; assumption.
    - right. destruct cs as [|c cs']; [discriminate|]. cbn in Ews. inversion Ews; subst.
      pose proof (frames_nonempty c) as Hne.
      destruct (frames_of sv (witem_of c)) as [|f0 tl] eqn:Ef; [contradiction|].
      cbn in Efs. inversion Efs; subst. exists c, cs', tl, fs0. repeat split; auto.
  Qed.

  (** ** effect of the reader's actions *)
  Lemma apply_inert o mu s a : inert a = true -> apply_act o mu s a = s.
  Proof. destruct a; cbn; try discriminate; reflexivity. Qed.

  Lemma fold_inert o mu l : forall s, forallb inert l = true -> fold_left (apply_act o mu) l s = s.
  Proof.
    induction l as [|a l IH]; intros s H; cbn; [reflexivity|].
    apply andb_true_iff in H as [H1 H2]. rewrite apply_inert by assumption. now apply IH.
  Qed.

  (** state after the delivery part [(if mu then [AStore ff m]) ++ (if last then [AComplete m])] *)
  Lemma fold_deliver_spec o mu last ff m s :
    (mu = true \/ last = true) ->
    let s' := fold_left (apply_act o mu) ((if mu then [AStore ff m] else []) ++ (if last then [AComplete m] else [])) s in
    let c := p_calls s o in
    let c1 := with_res c (k_res c ++ [RMsg m]) in
    p_q s' = (if last then q_finish (p_q s) else p_q s) /\
    (forall t, t <> o -> p_calls s' t = p_calls s t) /\
    p_calls s' o = (if last then with_comp c1 true else c1).
  Proof.
    intros H. destruct mu, last; cbn.
    - repeat split; [|now rewrite !upd_same].
      intros t Ht. now rewrite !upd_other by assumption.
    - repeat split; [|now rewrite !upd_same]. intros t Ht. now rewrite upd_other by assumption.
    - repeat split; [|now rewrite !upd_same]. intros t Ht. now rewrite upd_other by assumption.
    - destruct H; discriminate.
  Qed.

  (** ** transfer lemmas *)
  Definition post (b : bpc) : Prop := b <> BOff /\ forall r, b <> BRead r.

  Lemma invb_same s s' :
    InvB s ->
    (p_b s' = p_b s \/ (post (p_b s) /\ post (p_b s'))) ->
    p_q s' = p_q s -> p_wbuf s' = p_wbuf s -> p_c2s s' = p_c2s s -> p_s2c s' = p_s2c s ->
    (forall t, p_calls s' t = p_calls s t) ->
    (p_b s' = BOff -> p_w s' = p_w s /\ p_bg s' = p_bg s) ->
    InvB s'.
  Proof.
    intros I Hb e1 e2 e3 e4 e5 Hwb.
    assert (Hoff : p_b s' = BOff -> p_b s = BOff).
    { intros K. destruct Hb as [Hb|[_ [Hb _]]]; [congruence|contradiction]. }
    assert (Hrd : forall r, p_b s' = BRead r -> p_b s = BRead r).
    { intros r K. destruct Hb as [Hb|[_ [_ Hb]]]; [congruence|]. exfalso. eapply Hb; eauto. }
    assert (Hnr : (forall r, p_b s' <> BRead r) -> (forall r, p_b s <> BRead r)).
    { intros K r Hr. destruct Hb as [Hb|[[_ Hb] _]]; [apply (K r); congruence|]. eapply Hb; eauto. }
    destruct I. constructor; rewrite ?e1, ?e2, ?e3, ?e4; auto.
    - intros t. rewrite e5. auto.
    - intros Ho. destruct (Hwb Ho) as [-> ->]. auto.
    - intros sl Hsl. rewrite e5. auto.
    - intros r Hr. specialize (b_cur0 r (Hrd r Hr)). rewrite e5. exact b_cur0.
    - intros Ho. destruct (b_sync0 (Hoff Ho)) as [A B]. split.
      + intros K. apply A. intros t. rewrite <- e5. apply K.
      + intros t k. rewrite e5. apply B.
  Qed.

  (** a step that rewrites the record of caller t and nothing else InvB reads *)
  Lemma invb_call s s' t c' :
    InvB s ->
    (p_b s' = p_b s \/ (post (p_b s) /\ post (p_b s'))) ->
    p_q s' = p_q s -> p_wbuf s' = p_wbuf s -> p_c2s s' = p_c2s s -> p_s2c s' = p_s2c s ->
    (forall u, p_calls s' u = upd (p_calls s) t c' u) ->
    rec_ok c' ->
    ~ reading c' -> ~ reading (p_calls s t) ->
    (forall sl, owner_ok sl (p_calls s t) ->
                owner_ok sl c' /\ k_res c' = k_res (p_calls s t) /\ k_cmds c' = k_cmds (p_calls s t)) ->
    (p_b s' = BOff -> p_w s' = p_w s /\ p_bg s' = p_bg s) ->
    InvB s'.
  Proof.
    intros I Hb e1 e2 e3 e4 e5 Hrec Hnr' Hnr Hown Hwb.
    assert (Et : p_calls s' t = c') by (rewrite e5; apply upd_same).
    assert (Eo : forall u, u <> t -> p_calls s' u = p_calls s u) by (intros u Hu; rewrite e5; now apply upd_other).
    assert (Hoff : p_b s' = BOff -> p_b s = BOff).
    { intros K. destruct Hb as [Hb|[_ [Hb _]]]; [congruence|contradiction]. }
    assert (Hrd : forall r, p_b s' = BRead r -> p_b s = BRead r).
    { intros r K. destruct Hb as [Hb|[_ [_ Hb]]]; [congruence|]. exfalso. eapply Hb; eauto. }
    assert (Hnrd : (forall r, p_b s' <> BRead r) -> (forall r, p_b s <> BRead r)).
    { intros K r Hr. destruct Hb as [Hb|[[_ Hb] _]]; [apply (K r); congruence|]. eapply Hb; eauto. }
    destruct I. constructor; rewrite ?e1, ?e2, ?e3, ?e4; auto.
    - intros u. destruct (N.eq_dec u t) as [->|Nu]; [now rewrite Et|rewrite Eo by assumption; auto].
    - intros Ho. destruct (Hwb Ho) as [-> ->]. auto.
    - intros sl Hsl. destruct (b_queue0 sl Hsl) as [A B].
      destruct (N.eq_dec (s_owner sl) t) as [E|Nu].
      + rewrite E in *. rewrite Et. destruct (Hown sl A) as (A'&B'&_). split; [assumption|congruence].
      + rewrite Eo by assumption. auto.
    - intros r Hr. specialize (b_cur0 r (Hrd r Hr)). destruct b_cur0 as (F&K1&K2&K3).
      split; [exact F|split; [exact K1|split; [exact K2|]]].
      revert K3. destruct (Nat.ltb (r_ff r) (List.length (r_multi r))); intros K3; [|assumption].
      destruct K3 as (Q1&Q2&Q3&Q4). split; [exact Q1|split; [|split; [|exact Q4]]].
      + destruct (N.eq_dec (r_owner r) t) as [E|Nu]; [|rewrite Eo by assumption; auto].
        rewrite E in *. rewrite Et. apply (Hown _ Q2).
      + destruct (N.eq_dec (r_owner r) t) as [E|Nu]; [|rewrite Eo by assumption; auto].
        rewrite E in *. rewrite Et. destruct (Hown _ Q2) as (_&B'&C'). rewrite B', Q3. unfold reals. now rewrite C'.
    - intros Ho. destruct (b_sync0 (Hoff Ho)) as [A B]. split.
      + intros K. apply A. intros u. destruct (N.eq_dec u t) as [->|Nu]; [assumption|]. rewrite <- Eo by assumption. apply K.
      + intros u k Hk. destruct (N.eq_dec u t) as [->|Nu].
        * exfalso. apply Hnr'. rewrite Et in Hk. now exists k.
        * rewrite Eo in * by assumption. now apply B.
  Qed.

  (** ** caller steps *)
  Ltac unf_rec := unfold rec_ok, rec_wf, rec_r1, rec_cmp, rec_r2, rec_sync, rec_fresh, rec_ret, full, reals, sync_user, reading in *.

  Lemma not_owner_pc sl c : owner_ok sl c -> k_pc c <> PWait -> k_pc c <> PRet -> False.
  Proof. intros (_&_&_&[H|[H _]]) H1 H2; contradiction. Qed.

  Lemma not_owner_comp sl c : owner_ok sl c -> k_comp c = true -> False.
  Proof. intros (_&_&H&_) K. congruence. Qed.

  Ltac call_b s t c' :=
    eapply (invb_call s _ t c');
    [eassumption | left; reflexivity | reflexivity | reflexivity | reflexivity | reflexivity | intros ?; reflexivity | | | | | intros _; split; reflexivity].

  Lemma stepb_LCall s t cmds multi ck s' : InvB s -> InvA s -> pstep g s (LCall t cmds multi ck) = Some s' -> InvB s'.
  Proof.
    intros I IA H. cbn [pstep] in H.
    destruct (fresh s t && negb match cmds with [] => true | _ :: _ => false end &&
              (multi || Nat.eqb (List.length cmds) 1) && forallb wf_cmd cmds) eqn:G; [|discriminate].
    apply andb_true_iff in G as [G G4]. apply andb_true_iff in G as [G G3]. apply andb_true_iff in G as [G1 G2].
    destruct (fresh_notin s t G1) as [Hn1 _].
    destruct (a_idle s IA t Hn1) as [Epc Edr].
    inversion H; subst; clear H.
    call_b s t (mkC cmds multi ck true false false PIncr [] false None DNone).
    - unf_rec; cbn. repeat split; try (intros; discriminate); auto.
      + destruct cmds; [discriminate|discriminate].
      + apply orb_true_iff in G3 as [->|K]; [now left|right; now apply Nat.eqb_eq].
      + exists 0%nat, []. reflexivity.
      + intros [K|[K|[K|[[b K]|K]]]]; discriminate.
      + intros K. contradiction.
    - intros [k K]; discriminate.
    - intros [k K]. rewrite Epc in K. discriminate.
    - intros sl Ho. exfalso. apply (not_owner_pc _ _ Ho); rewrite Epc; discriminate.
  Qed.

  Ltac old_rec I s t := let H := fresh "Hold" in pose proof (b_rec s I t) as H;
    destruct H as (W&R1&Cm&R2&Sy&Fr&Rt).

  Ltac rec7 := split; [|split; [|split; [|split; [|split; [|split]]]]].

  (** the record keeps commands and results; only control fields change *)
  Lemma rec_ok_ctl c c' :
    rec_ok c -> k_pc c <> PIdle ->
    k_cmds c' = k_cmds c -> k_multi c' = k_multi c -> k_res c' = k_res c ->
    ((k_comp c' = true \/ k_pc c' = PGot \/ k_drain c' = DGot \/ (exists b, k_pc c' = PDecr b) \/ k_pc c' = PBgAfter) ->
     (k_comp c = true \/ k_pc c = PGot \/ k_drain c = DGot \/ (exists b, k_pc c = PDecr b) \/ k_pc c = PBgAfter)) ->
    (forall r, k_ret c' = Some r -> k_ret c = Some r \/ r = errs_for c ECtx \/
               (r = k_res c /\ (k_comp c = true \/ k_pc c = PGot \/ k_drain c = DGot \/ (exists b, k_pc c = PDecr b) \/ k_pc c = PBgAfter))) ->
    (sync_user c' = true -> sync_user c = true \/ existsb c_noreply (k_cmds c) = false) ->
    rec_fresh c' -> rec_ret c' ->
    rec_ok c'.
  Proof.
    intros (W&R1&Cm&R2&Sy&Fr&Rt) Hpc e1 e2 e3 Hcmp Hret Hsy Hfr Hrt.
    rec7; auto.
    - unfold rec_wf. rewrite e1, e2. intros _. apply W. assumption.
    - unfold rec_r1, reals. rewrite e1, e3. exact R1.
    - unfold rec_cmp, full. rewrite e1, e3. intros K. apply Cm. auto.
    - unfold rec_r2, full, errs_for. rewrite e1, e3. intros r Hr.
      destruct (Hret r Hr) as [K|[K|[K1 K2]]].
      + apply R2 in K. exact K.
      + left. exact K.
      + right. split; [assumption|]. apply Cm. assumption.
    - unfold rec_sync. rewrite e1. intros K. destruct (Hsy K) as [K'|K']; auto.
  Qed.

  Ltac close_rec :=
    try solve [ intros [K|[K|[K|[[b K]|K]]]]; try discriminate; auto 10
              | intros r K; inversion K; subst; auto 10
              | intros K; discriminate
              | exact Logic.I
              | unfold rec_fresh, rec_ret; cbn; intuition (try discriminate; try congruence) ].

  Lemma stepb_LIncr s t s' : InvB s -> pstep g s (LIncr t) = Some s' -> InvB s'.
  Proof.
    intros I H. cbn [pstep] in H.
    destruct (k_pc (p_calls s t)) eqn:Epc; try discriminate.
    pose proof (b_rec s I t) as Hold.
    assert (Hfr : k_res (p_calls s t) = [] /\ k_comp (p_calls s t) = false /\ k_ret (p_calls s t) = None).
    { destruct Hold as (_&_&_&_&_&Fr&_). unfold rec_fresh in Fr. now rewrite Epc in Fr. }
    destruct Hfr as (F1&F2&F3).
    destruct (k_done (p_calls s t)); inversion H; subst; clear H.
    - call_b s t (mkC (k_cmds (p_calls s t)) (k_multi (p_calls s t)) (k_ctx (p_calls s t)) (k_ctxput (p_calls s t)) true true PRet []
                      false (Some (errs_for (p_calls s t) ECtx)) DNone).
      + apply (rec_ok_ctl (p_calls s t)); cbn; auto; try congruence; close_rec.
      + intros [k K]; discriminate.
      + intros [k K]. rewrite Epc in K. discriminate.
      + intros sl Ho. exfalso. apply (not_owner_pc _ _ Ho); rewrite Epc; discriminate.
    - call_b s t (with_pc (p_calls s t) (PLoad (S (p_waits s)))).
      + apply (rec_ok_ctl (p_calls s t)); cbn; auto; try congruence; close_rec.
        all: unfold rec_fresh, rec_ret; cbn; rewrite ?F3; auto; try (intros K; contradiction).
      + intros [k K]; discriminate.
      + intros [k K]. rewrite Epc in K. discriminate.
      + intros sl Ho. exfalso. apply (not_owner_pc _ _ Ho); rewrite Epc; discriminate.
  Qed.

  Ltac fresh_of Hold Epc :=
    let Fr := fresh "Fr" in
    destruct Hold as (_&_&_&_&_&Fr&_); unfold rec_fresh in Fr; rewrite Epc in Fr; destruct Fr as (F1&F2&F3).

  Lemma stepb_LLoad s t s' : InvB s -> pstep g s (LLoad t) = Some s' -> InvB s'.
  Proof.
    intros I H. cbn [pstep] in H.
    destruct (k_pc (p_calls s t)) as [| |w| | | | | | | | | |] eqn:Epc; try discriminate.
    pose proof (b_rec s I t) as Hold. pose proof Hold as Hold'. fresh_of Hold' Epc.
    assert (K : forall x, x = PPut \/ x = PBg \/ x = PErr \/ (x = PSyncW /\ needs_bg (p_calls s t) = false) ->
                InvB (set_call s t (with_pc (p_calls s t) x))).
    { intros x Hx. call_b s t (with_pc (p_calls s t) x).
      - apply (rec_ok_ctl (p_calls s t)); cbn; auto; try congruence; close_rec.
        all: try solve [intros [K|[K|[K|[[b K]|K]]]]; destruct Hx as [->|[->|[->|[-> _]]]]; try discriminate; auto].
        all: try solve [unfold sync_user; cbn; destruct Hx as [->|[->|[->|[-> Hn]]]]; try discriminate; intros _; right;
                        unfold needs_bg in Hn; apply orb_false_iff in Hn as [Hn _]; apply orb_false_iff in Hn as [Hn _]; exact Hn].
        all: try solve [unfold rec_fresh; cbn; destruct Hx as [->|[->|[->|[-> _]]]]; auto].
        all: try solve [unfold rec_ret; cbn; rewrite F3; intros K; contradiction].
      - intros [k K]. cbn in K. destruct Hx as [->|[->|[->|[-> _]]]]; discriminate.
      - intros [k K]; rewrite Epc in K; discriminate.
      - intros sl Ho; exfalso; apply (not_owner_pc _ _ Ho); rewrite Epc; discriminate. }
    destruct (N.eqb (p_st s) 1); [inversion H; subst; apply K; auto|].
    destruct (N.eqb (p_st s) 0).
    - destruct (negb (Nat.eqb w 1)); [inversion H; subst; apply K; auto|].
      destruct (needs_bg (p_calls s t)) eqn:En; inversion H; subst; apply K; auto.
    - inversion H; subst; apply K; auto.
  Qed.

  Lemma stepb_LErr s t s' : InvB s -> pstep g s (LErr t) = Some s' -> InvB s'.
  Proof.
    intros I H. cbn [pstep] in H.
    destruct (k_pc (p_calls s t)) eqn:Epc; try discriminate.
    pose proof (b_rec s I t) as Hold. pose proof Hold as Hold'. fresh_of Hold' Epc.
    destruct Hold as (W&R1&Cm&R2&Sy&Fr&Rt).
    assert (Hpc : k_pc (p_calls s t) <> PIdle) by congruence.
    inversion H; subst; clear H.
    call_b s t (with_pc (with_res (p_calls s t) (errs_for (p_calls s t) (the_err s))) (PDecr false)).
    - rec7.
      + unfold rec_wf; cbn. intros _. now apply W.
      + unfold rec_r1, reals; cbn. exists 0%nat, (map (fun _ => the_err s) (k_cmds (p_calls s t))). cbn.
        unfold errs_for. now rewrite map_map.
      + unfold rec_cmp, full; cbn. intros _. unfold errs_for. now rewrite map_length.
      + unfold rec_r2; cbn. rewrite F3. intros r K; discriminate.
      + unfold rec_sync, sync_user; cbn. intros K; discriminate.
      + exact Logic.I.
      + unfold rec_ret; cbn. rewrite F3. intros K; contradiction.
    - intros [k K]; discriminate.
    - intros [k K]; rewrite Epc in K; discriminate.
    - intros sl Ho; exfalso; apply (not_owner_pc _ _ Ho); rewrite Epc; discriminate.
  Qed.

  (** InvB does not read the context fields of a record *)
  Definition rec_eqv (c c' : crec) : Prop :=
    k_cmds c' = k_cmds c /\ k_multi c' = k_multi c /\ k_pc c' = k_pc c /\ k_res c' = k_res c /\
    k_comp c' = k_comp c /\ k_ret c' = k_ret c /\ k_drain c' = k_drain c.

  Lemma rec_ok_eqv c c' : rec_eqv c c' -> rec_ok c -> rec_ok c'.
  Proof.
    intros (e1&e2&e3&e4&e5&e6&e7) (W&R1&Cm&R2&Sy&Fr&Rt).
    unfold rec_ok, rec_wf, rec_r1, rec_cmp, rec_r2, rec_sync, rec_fresh, rec_ret, full, reals, sync_user, errs_for in *.
    rewrite e1, e2, e3, e4, e5, e6, e7. rec7; auto.
  Qed.

  Lemma owner_ok_eqv sl c c' : rec_eqv c c' -> owner_ok sl c -> owner_ok sl c'.
  Proof.
    intros (e1&e2&e3&e4&e5&e6&e7). unfold owner_ok, errs_for. rewrite e1, e2, e3, e5, e6. auto.
  Qed.

  Lemma invb_eqv s s' :
    InvB s ->
    p_b s' = p_b s -> p_q s' = p_q s -> p_wbuf s' = p_wbuf s -> p_c2s s' = p_c2s s -> p_s2c s' = p_s2c s ->
    (forall t, rec_eqv (p_calls s t) (p_calls s' t)) ->
    p_w s' = p_w s -> p_bg s' = p_bg s ->
    InvB s'.
  Proof.
    intros I e0 e1 e2 e3 e4 e5 e6 e7.
    assert (Ecm : forall t, k_cmds (p_calls s' t) = k_cmds (p_calls s t)) by (intros t; apply e5).
    assert (Ers : forall t, k_res (p_calls s' t) = k_res (p_calls s t)) by (intros t; apply e5).
    assert (Epc : forall t, k_pc (p_calls s' t) = k_pc (p_calls s t)) by (intros t; apply e5).
    assert (Erl : forall t k, reals (p_calls s' t) k = reals (p_calls s t) k) by (intros t k; unfold reals; now rewrite Ecm).
    destruct I. constructor; rewrite ?e0, ?e1, ?e2, ?e3, ?e4, ?e6, ?e7; auto.
    - intros t. eapply rec_ok_eqv; eauto.
    - intros sl Hsl. destruct (b_queue0 sl Hsl) as [A B]. split; [eapply owner_ok_eqv; eauto|now rewrite Ers].
    - intros r Hr. destruct (b_cur0 r Hr) as (F&K1&K2&K3). split; [exact F|split; [exact K1|split; [exact K2|]]].
      revert K3. destruct (Nat.ltb (r_ff r) (List.length (r_multi r))); intros K3; [|assumption].
      destruct K3 as (Q1&Q2&Q3&Q4). split; [exact Q1|split; [|split; [|exact Q4]]].
      + eapply owner_ok_eqv; eauto.
      + now rewrite Ers, Erl.
    - intros Ho. destruct (b_sync0 Ho) as [A B]. split.
      + intros K. apply A. intros t [k Hk]. apply (K t). exists k. now rewrite Epc.
      + intros t k Hk. rewrite Epc in Hk. rewrite Ecm, Ers, Erl. now apply B.
  Qed.

  Lemma stepb_LCtxDone s t s' : InvB s -> pstep g s (LCtxDone t) = Some s' -> InvB s'.
  Proof.
    intros I H. cbn [pstep] in H.
    assert (K : (if k_done (p_calls s t) then None else Some (set_call s t (with_done (p_calls s t)))) = Some s' -> InvB s').
    { destruct (k_done (p_calls s t)); [discriminate|]. intros H1. inversion H1; subst; clear H1.
      apply (invb_eqv s); auto. intros u. cbn. unfold upd. destruct (N.eqb u t) eqn:E.
      - apply N.eqb_eq in E. subst. unfold rec_eqv; cbn. repeat split; reflexivity.
      - unfold rec_eqv. repeat split; reflexivity. }
    destruct (k_ctx (p_calls s t)); [discriminate| |]; destruct (k_pc (p_calls s t)); try discriminate; auto.
  Qed.

  Lemma stepb_LDecr s t s' : InvB s -> pstep g s (LDecr t) = Some s' -> InvB s'.
  Proof.
    intros I H. cbn [pstep] in H.
    destruct (k_pc (p_calls s t)) as [| | | | | | |st0| | | | |] eqn:Epc; try discriminate.
    pose proof (b_rec s I t) as Hold.
    assert (Hret : k_ret (p_calls s t) = None).
    { destruct Hold as (_&_&_&_&_&_&Rt). unfold rec_ret in Rt. destruct (k_ret (p_calls s t)); [|reflexivity].
      assert (k_pc (p_calls s t) = PRet) by (apply Rt; discriminate). congruence. }
    assert (Hpc : k_pc (p_calls s t) <> PIdle) by congruence.
    destruct (st0 && negb (Nat.eqb (p_waits s) 1)); inversion H; subst; clear H.
    - call_b s t (with_pc (p_calls s t) PBgAfter).
      + apply (rec_ok_ctl (p_calls s t)); cbn; auto; try congruence; close_rec.
        all: try solve [intros _; right; right; right; left; eauto].
        all: try solve [unfold rec_ret; cbn; rewrite Hret; intros K; contradiction].
      + intros [k K]; discriminate.
      + intros [k K]; rewrite Epc in K; discriminate.
      + intros sl Ho; exfalso; apply (not_owner_pc _ _ Ho); rewrite Epc; discriminate.
    - call_b s t (with_ret (p_calls s t) (k_res (p_calls s t))).
      + apply (rec_ok_ctl (p_calls s t)); cbn; auto; try congruence; close_rec.
        all: try solve [intros r K; inversion K; subst; right; right; split; [reflexivity|]; right; right; right; left; eauto].
        all: try solve [unfold rec_ret; cbn; intros _; reflexivity].
      + intros [k K]; discriminate.
      + intros [k K]; rewrite Epc in K; discriminate.
      + intros sl Ho; exfalso; apply (not_owner_pc _ _ Ho); rewrite Epc; discriminate.
  Qed.

  Lemma stepb_LFin s t s' : InvB s -> pstep g s (LFin t) = Some s' -> InvB s'.
  Proof.
    intros I H. cbn [pstep] in H.
    destruct (k_pc (p_calls s t)) eqn:Epc; try discriminate.
    pose proof (b_rec s I t) as Hold.
    assert (Hpc : k_pc (p_calls s t) <> PIdle) by congruence.
    inversion H; subst; clear H.
    call_b s t (with_ret (p_calls s t) (k_res (p_calls s t))).
    - apply (rec_ok_ctl (p_calls s t)); cbn; auto; try congruence; close_rec.
      all: try solve [intros r K; inversion K; subst; right; right; split; [reflexivity|]; right; left; assumption].
      all: try solve [unfold rec_ret; cbn; intros _; reflexivity].
    - intros [k K]; discriminate.
    - intros [k K]; rewrite Epc in K; discriminate.
    - intros sl Ho; exfalso; apply (not_owner_pc _ _ Ho); rewrite Epc; discriminate.
  Qed.

  Lemma stepb_LRecv s t s' : InvB s -> pstep g s (LRecv t) = Some s' -> InvB s'.
  Proof.
    intros I H. cbn [pstep] in H.
    destruct (k_pc (p_calls s t)) eqn:Epc; try discriminate.
    destruct (k_comp (p_calls s t)) eqn:Ec; [|discriminate].
    pose proof (b_rec s I t) as Hold.
    assert (Hret : k_ret (p_calls s t) = None).
    { destruct Hold as (_&_&_&_&_&_&Rt). unfold rec_ret in Rt. destruct (k_ret (p_calls s t)); [|reflexivity].
      assert (k_pc (p_calls s t) = PRet) by (apply Rt; discriminate). congruence. }
    assert (Hpc : k_pc (p_calls s t) <> PIdle) by congruence.
    inversion H; subst; clear H.
    call_b s t (with_pc (with_comp (p_calls s t) false) PGot).
    - apply (rec_ok_ctl (p_calls s t)); cbn; auto; try congruence; close_rec.
      all: try solve [intros _; left; assumption].
      all: try solve [unfold rec_ret; cbn; rewrite Hret; intros K; contradiction].
    - intros [k K]; discriminate.
    - intros [k K]; rewrite Epc in K; discriminate.
    - intros sl Ho. exfalso. apply (not_owner_comp _ _ Ho Ec).
  Qed.

  Lemma stepb_LAbort s t s' : InvB s -> pstep g s (LAbort t) = Some s' -> InvB s'.
  Proof.
    intros I H. cbn [pstep] in H.
    destruct (k_pc (p_calls s t)) eqn:Epc; try discriminate.
    destruct (k_done (p_calls s t)); [|discriminate].
    pose proof (b_rec s I t) as Hold.
    assert (Hpc : k_pc (p_calls s t) <> PIdle) by congruence.
    inversion H; subst; clear H.
    call_b s t (with_drain (with_ret (p_calls s t) (errs_for (p_calls s t) ECtx)) DWait).
    - apply (rec_ok_ctl (p_calls s t)); cbn; auto; try congruence; close_rec.
      all: try solve [unfold rec_ret; cbn; intros _; reflexivity].
    - intros [k K]; discriminate.
    - intros [k K]; rewrite Epc in K; discriminate.
    - intros sl (O1&O2&O3&O4). unfold owner_ok; cbn. repeat split; auto.
  Qed.

  Lemma stepb_LDrainRecv s t s' : InvB s -> InvA s -> pstep g s (LDrainRecv t) = Some s' -> InvB s'.
  Proof.
    intros I IA H. cbn [pstep] in H.
    destruct (k_drain (p_calls s t)) eqn:Ed; try discriminate.
    destruct (k_comp (p_calls s t)) eqn:Ec; [|discriminate].
    assert (Epc : k_pc (p_calls s t) = PRet) by (apply (a_dr s IA); congruence).
    pose proof (b_rec s I t) as Hold.
    assert (Hpc : k_pc (p_calls s t) <> PIdle) by congruence.
    inversion H; subst; clear H.
    call_b s t (with_drain (with_comp (p_calls s t) false) DGot).
    - apply (rec_ok_ctl (p_calls s t)); cbn; auto; try congruence; close_rec.
      all: try solve [intros _; left; assumption].
      all: try solve [unfold rec_fresh; cbn; rewrite Epc; exact Logic.I].
      all: try solve [unfold rec_ret; cbn; intros _; assumption].
    - intros [k K]. cbn in K. rewrite Epc in K. discriminate.
    - intros [k K]; rewrite Epc in K; discriminate.
    - intros sl Ho. exfalso. apply (not_owner_comp _ _ Ho Ec).
  Qed.

  Lemma stepb_LDrainFin s t s' : InvB s -> InvA s -> pstep g s (LDrainFin t) = Some s' -> InvB s'.
  Proof.
    intros I IA H. cbn [pstep] in H.
    destruct (k_drain (p_calls s t)) eqn:Ed; try discriminate.
    assert (Epc : k_pc (p_calls s t) = PRet) by (apply (a_dr s IA); congruence).
    pose proof (b_rec s I t) as Hold.
    assert (Hpc : k_pc (p_calls s t) <> PIdle) by congruence.
    inversion H; subst; clear H.
    call_b s t (with_drain (p_calls s t) DDone).
    - apply (rec_ok_ctl (p_calls s t)); cbn; auto; try congruence; close_rec.
      all: try solve [intros [K|[K|[K|[[b K]|K]]]]; try discriminate; auto].
      all: try solve [unfold rec_fresh; cbn; rewrite Epc; exact Logic.I].
      all: try solve [unfold rec_ret; cbn; intros _; assumption].
    - intros [k K]. cbn in K. rewrite Epc in K. discriminate.
    - intros [k K]; rewrite Epc in K; discriminate.
    - intros sl (O1&O2&O3&O4). unfold owner_ok; cbn. repeat split; auto.
  Qed.

  Lemma stepb_LPutFail s t s' : InvB s -> pstep g s (LPutFail t) = Some s' -> InvB s'.
  Proof.
    intros I H. cbn [pstep] in H.
    destruct (k_pc (p_calls s t)) eqn:Epc; try discriminate.
    destruct (g_kind g); [discriminate|].
    destruct (k_done (p_calls s t) && k_ctxput (p_calls s t)); [|discriminate].
    pose proof (b_rec s I t) as Hold.
    assert (Hpc : k_pc (p_calls s t) <> PIdle) by congruence.
    inversion H; subst; clear H.
    call_b s t (with_ret (p_calls s t) (errs_for (p_calls s t) ECtx)).
    - apply (rec_ok_ctl (p_calls s t)); cbn; auto; try congruence; close_rec.
      all: try solve [unfold rec_ret; cbn; intros _; reflexivity].
    - intros [k K]; discriminate.
    - intros [k K]; rewrite Epc in K; discriminate.
    - intros sl Ho; exfalso; apply (not_owner_pc _ _ Ho); rewrite Epc; discriminate.
  Qed.

  (** ** steps that InvB does not see *)
  Lemma post_of b : match b with BPost | BClean | BWaitClose | BDone => True | _ => False end -> post b.
  Proof. destruct b; try contradiction; intros _; split; try discriminate; intros r; discriminate. Qed.

  Lemma stepb_blind s l s' :
    InvB s -> pstep g s l = Some s' ->
    match l with
    | LWExit | LExtExit | LFail | LClose1 _ | LClose2 _ _ | LCloseJoin _ | LClose5 _ | LCleanSpin | LPostSkip
    | LCleanExit | LFinal => True
    | _ => False
    end -> InvB s'.
  Proof.
    intros I H Hl. destruct l; try contradiction; cbn [pstep] in H.
    - destruct (p_w s) eqn:Ew; try discriminate.
      destruct (negb (p_conn s) && negb match p_wbuf s with [] => true | _ :: _ => false end); [|discriminate].
      inversion H; subst. apply (invb_same s); auto.
      cbn. intros K. destruct (b_off s I K) as (_&_&K'&_). congruence.
    - destruct (p_b s) eqn:Eb; try discriminate. destruct (p_wclosed s); [|discriminate]. inversion H; subst.
      apply (invb_same s); auto; try (right; rewrite Eb; split; apply post_of; exact Logic.I); try (intros K; discriminate K).
    - destruct (p_b s); try discriminate. destruct (negb (Nat.eqb (p_waits s) 0)); [|discriminate]. inversion H; subst. assumption.
    - destruct (p_b s) eqn:Eb; try discriminate. destruct (Nat.eqb (p_waits s) 0); [|discriminate]. inversion H; subst.
      apply (invb_same s); auto; try (right; rewrite Eb; split; apply post_of; exact Logic.I); try (intros K; discriminate K).
    - destruct (p_b s) eqn:Eb; try discriminate. destruct (p_wclosed s); [|discriminate]. inversion H; subst.
      apply (invb_same s); auto; try (right; rewrite Eb; split; apply post_of; exact Logic.I); try (intros K; discriminate K).
    - destruct (p_conn s); [|discriminate]. inversion H; subst. apply (invb_same s); auto.
    - inversion H; subst. apply (invb_same s); auto.
    - destruct (fresh s t); [|discriminate]. inversion H; subst. apply (invb_same s); auto.
    - destruct (p_closers s t); try discriminate. inversion H; subst. apply (invb_same s); auto.
    - destruct (p_closers s t); try discriminate. destruct (k_pc (p_calls s t')); try discriminate.
      inversion H; subst. apply (invb_same s); auto.
    - destruct (p_closers s t); try discriminate. inversion H; subst. apply (invb_same s); auto.
  Qed.

  Lemma rec_ok_ping : rec_ok ping_call.
  Proof.
    rec7.
    - unfold rec_wf; cbn. intros _. repeat split; auto. discriminate.
    - exists 0%nat, []. reflexivity.
    - intros [K|[K|[K|[[b K]|K]]]]; discriminate.
    - intros r K. discriminate.
    - intros K. discriminate.
    - cbn. auto.
    - intros K. cbn in K. contradiction.
  Qed.

  Lemma invb_add_ping s s' t :
    InvB s -> k_pc (p_calls s t) = PIdle ->
    (p_b s' = p_b s \/ (post (p_b s) /\ post (p_b s'))) ->
    p_q s' = p_q s -> p_wbuf s' = p_wbuf s -> p_c2s s' = p_c2s s -> p_s2c s' = p_s2c s ->
    (forall u, p_calls s' u = upd (p_calls s) t ping_call u) ->
    (p_b s' = BOff -> p_w s' = p_w s /\ p_bg s' = p_bg s) ->
    InvB s'.
  Proof.
    intros I Epc Hb e1 e2 e3 e4 e5 Hwb.
    eapply (invb_call s s' t ping_call); eauto.
    - apply rec_ok_ping.
    - intros [k K]; discriminate.
    - intros [k K]; rewrite Epc in K; discriminate.
    - intros sl Ho; exfalso; apply (not_owner_pc _ _ Ho); rewrite Epc; discriminate.
  Qed.

  Lemma stepb_LPostPing s t s' : InvB s -> InvA s -> pstep g s (LPostPing t) = Some s' -> InvB s'.
  Proof.
    intros I IA H. cbn [pstep] in H.
    destruct (p_b s) eqn:Eb; try discriminate.
    destruct (negb (p_wclosed s) && fresh s t) eqn:G; [|discriminate]. apply andb_true_iff in G as [_ G].
    destruct (fresh_notin s t G) as [Hn1 _]. destruct (a_idle s IA t Hn1) as [Epc _].
    inversion H; subst; clear H.
    eapply (invb_add_ping s _ t); eauto; try reflexivity; try (intros K; discriminate K).
    right. rewrite Eb. split; apply post_of; exact Logic.I.
  Qed.

  Lemma stepb_LClose4 s t t' s' : InvB s -> InvA s -> pstep g s (LClose4 t t') = Some s' -> InvB s'.
  Proof.
    intros I IA H. cbn [pstep] in H.
    destruct (p_closers s t) as [| |bg ping| | |]; try discriminate.
    destruct bg; [discriminate|]. destruct ping; [|discriminate].
    destruct (fresh s t') eqn:G; [|discriminate].
    destruct (fresh_notin s t' G) as [Hn1 _]. destruct (a_idle s IA t' Hn1) as [Epc _].
    inversion H; subst; clear H.
    eapply (invb_add_ping s _ t'); eauto; try reflexivity; try (intros _; split; reflexivity).
  Qed.

  (** ** background() *)
  Lemma invb_do_background s :
    InvB s -> (p_bg s = false -> p_b s = BOff) -> (forall t, ~ reading (p_calls s t)) -> InvB (do_background s).
  Proof.
    intros I IA Hnr. unfold do_background. destruct (p_bg s) eqn:Ebg.
    - apply (invb_same s); auto.
    - pose proof (IA eq_refl) as Eb.
      destruct (b_off s I Eb) as (Ewr&Ewb&_&_). destruct (b_sync s I Eb) as [A _]. destruct (A Hnr) as [Ec2s Hsv].
      assert (Hsv' : Served [] (p_s2c s)).
      { eapply served_mono; [|exact Hsv]. intros m Hm. unfold push_sync in Hm. apply andb_true_iff in Hm as [Hm _]. exact Hm. }
      assert (Hh : q_held (p_q s) = false) by (apply (b_held s I); intros r; rewrite Eb; discriminate).
      destruct I. constructor; cbn; auto.
      all: try solve [intros K; discriminate K].
      all: try solve [intros K; exfalso; apply (K r_init); reflexivity].
      all: try solve [intros r Hr; inversion Hr; subst; cbn; repeat split; auto; lia].
      all: try solve [intros r Hr; inversion Hr; subst; exists [], (p_s2c s), [], []; cbn; rewrite Ewr, Ec2s, Ewb; repeat split; auto].
  Qed.

  Lemma reading_sync c : reading c -> sync_user c = true.
  Proof. intros [k K]. unfold sync_user. now rewrite K. Qed.

  Lemma bgoff s : InvA s -> p_bg s = false -> p_b s = BOff.
  Proof. intros IA H. apply (a_bgw s IA H). Qed.

  Lemma calls_do_background s : p_calls (do_background s) = p_calls s.
  Proof. unfold do_background. destruct (p_bg s); reflexivity. Qed.

  Lemma stepb_LBg s t s' : InvB s -> InvA s -> pstep g s (LBg t) = Some s' -> InvB s'.
  Proof.
    intros I IA H. cbn [pstep] in H.
    destruct (k_pc (p_calls s t)) eqn:Epc; try discriminate.
    inversion H; subst; clear H.
    assert (Hns : forall u, sync_user (p_calls s u) = false).
    { apply (tok_no_sync_other s t IA); unfold tokc, sync_user; now rewrite Epc. }
    assert (I1 : InvB (do_background s)).
    { apply invb_do_background; [assumption|apply (bgoff s IA)|]. intros u Hu. apply reading_sync in Hu. rewrite Hns in Hu. discriminate. }
    pose proof (b_rec s I t) as Hold. pose proof Hold as Hold'. fresh_of Hold' Epc.
    assert (Hpc : k_pc (p_calls s t) <> PIdle) by congruence.
    apply (invb_call (do_background s) (set_call (do_background s) t (with_pc (p_calls s t) PPut)) t (with_pc (p_calls s t) PPut) I1 (or_introl eq_refl) eq_refl eq_refl eq_refl eq_refl (fun u => eq_refl)).
    - apply (rec_ok_ctl (p_calls s t)); cbn; auto; try congruence; close_rec.
      all: try solve [unfold rec_fresh; cbn; auto].
      all: try solve [unfold rec_ret; cbn; rewrite F3; intros K; contradiction].
    - intros [k K]; discriminate.
    - rewrite calls_do_background. intros [k K]; rewrite Epc in K; discriminate.
    - rewrite calls_do_background. intros sl Ho; exfalso; apply (not_owner_pc _ _ Ho); rewrite Epc; discriminate.
    - intros _; split; reflexivity.
  Qed.

  Lemma stepb_LBgAfter s t s' : InvB s -> InvA s -> pstep g s (LBgAfter t) = Some s' -> InvB s'.
  Proof.
    intros I IA H. cbn [pstep] in H.
    destruct (k_pc (p_calls s t)) eqn:Epc; try discriminate.
    inversion H; subst; clear H.
    assert (Hns : forall u, sync_user (p_calls s u) = false).
    { apply (tok_no_sync_other s t IA); unfold tokc, sync_user; now rewrite Epc. }
    assert (I1 : InvB (do_background s)).
    { apply invb_do_background; [assumption|apply (bgoff s IA)|]. intros u Hu. apply reading_sync in Hu. rewrite Hns in Hu. discriminate. }
    pose proof (b_rec s I t) as Hold.
    assert (Hret : k_ret (p_calls s t) = None).
    { destruct Hold as (_&_&_&_&_&_&Rt). unfold rec_ret in Rt. destruct (k_ret (p_calls s t)); [|reflexivity].
      assert (k_pc (p_calls s t) = PRet) by (apply Rt; discriminate). congruence. }
    assert (Hpc : k_pc (p_calls s t) <> PIdle) by congruence.
    apply (invb_call (do_background s) (set_call (do_background s) t (with_pc (p_calls s t) (PDecr false))) t (with_pc (p_calls s t) (PDecr false)) I1 (or_introl eq_refl) eq_refl eq_refl eq_refl eq_refl (fun u => eq_refl)).
    - apply (rec_ok_ctl (p_calls s t)); cbn; auto; try congruence; close_rec.
      all: try solve [intros _; right; right; right; left; eauto].
      all: try solve [unfold rec_ret; cbn; rewrite Hret; intros K; contradiction].
    - intros [k K]; discriminate.
    - rewrite calls_do_background. intros [k K]; rewrite Epc in K; discriminate.
    - rewrite calls_do_background. intros sl Ho; exfalso; apply (not_owner_pc _ _ Ho); rewrite Epc; discriminate.
    - intros _; split; reflexivity.
  Qed.

  Lemma stepb_LClose3 s t s' : InvB s -> InvA s -> pstep g s (LClose3 t) = Some s' -> InvB s'.
  Proof.
    intros I IA H. cbn [pstep] in H.
    destruct (p_closers s t) as [| |bg ping| | |] eqn:Ek; try discriminate.
    destruct bg.
    - inversion H; subst; clear H.
      assert (Hns : forall u, sync_user (p_calls s u) = false).
      { intros u. destruct (sync_user (p_calls s u)) eqn:E; [|reflexivity]. apply sync_tok in E.
        exfalso. apply (a_tok3 s IA u t E). now rewrite Ek. }
      assert (I1 : InvB (do_background s)).
      { apply invb_do_background; [assumption|apply (bgoff s IA)|]. intros u Hu. apply reading_sync in Hu. rewrite Hns in Hu. discriminate. }
      apply (invb_same (do_background s)); auto.
    - destruct ping; [discriminate|]. inversion H; subst; clear H. apply (invb_same s); auto.
  Qed.

  (** ** queue steps *)
  Lemma owner_pc s sl : InvB s -> In sl (q_pend (p_q s) ++ q_wr (p_q s)) ->
    k_pc (p_calls s (s_owner sl)) = PWait \/ k_pc (p_calls s (s_owner sl)) = PRet.
  Proof. intros I H. destruct (b_queue s I sl H) as [(_&_&_&[K|[K _]]) _]; auto. Qed.

  Lemma cur_owner_pc s r : InvB s -> p_b s = BRead r -> (r_ff r < List.length (r_multi r))%nat ->
    k_pc (p_calls s (r_owner r)) = PWait \/ k_pc (p_calls s (r_owner r)) = PRet.
  Proof.
    intros I Hb Hlt. destruct (b_cur s I r Hb) as (_&_&_&K).
    assert (E : Nat.ltb (r_ff r) (List.length (r_multi r)) = true) by (apply Nat.ltb_lt; assumption).
    rewrite E in K. destruct K as (_&(_&_&_&[K|[K _]])&_); auto.
  Qed.

  Lemma stepb_LPut s t s' : InvB s -> pstep g s (LPut t) = Some s' -> InvB s'.
  Proof.
    intros I H. cbn [pstep] in H.
    destruct (k_pc (p_calls s t)) eqn:Epc; try discriminate.
    destruct (q_put (p_q s) (slot_of t (p_calls s t))) as [q'|] eqn:Eq; [|discriminate].
    inversion H; subst; clear H.
    unfold q_put in Eq. destruct (q_can_put (p_q s)); [|discriminate]. inversion Eq; subst; clear Eq.
    pose proof (b_rec s I t) as Hold. pose proof Hold as Hold'. fresh_of Hold' Epc.
    assert (Hpc : k_pc (p_calls s t) <> PIdle) by congruence.
    set (c' := with_pc (p_calls s t) PWait).
    assert (Hrec : rec_ok c').
    { apply (rec_ok_ctl (p_calls s t)); cbn; auto; try congruence; close_rec.
      all: try solve [unfold rec_ret; cbn; rewrite F3; intros K; contradiction]. }
    assert (Hnot : forall sl, In sl (q_pend (p_q s) ++ q_wr (p_q s)) -> s_owner sl <> t).
    { intros sl Hsl E. destruct (owner_pc s sl I Hsl) as [K|K]; rewrite E, Epc in K; discriminate. }
    assert (Eo : forall u, u <> t -> upd (p_calls s) t c' u = p_calls s u) by (intros; now apply upd_other).
    destruct I. constructor; cbn [p_calls p_q p_b p_w p_bg p_wbuf p_c2s p_s2c set_call set_calls set_q q_pend q_wr q_held q_cap]; auto.
    - intros u. destruct (N.eq_dec u t) as [->|Nu]; [now rewrite upd_same|rewrite Eo by assumption; auto].
    - intros sl Hsl. rewrite <- app_assoc in Hsl. apply in_app_or in Hsl as [Hsl|Hsl].
      + assert (Hin : In sl (q_pend (p_q s) ++ q_wr (p_q s))) by (apply in_or_app; now left).
        rewrite Eo by (apply Hnot; assumption). auto.
      + cbn in Hsl. destruct Hsl as [<-|Hsl].
        * cbn. rewrite upd_same. unfold owner_ok, c'; cbn. repeat split; auto.
        * assert (Hin : In sl (q_pend (p_q s) ++ q_wr (p_q s))) by (apply in_or_app; now right).
          rewrite Eo by (apply Hnot; assumption). auto.
    - rewrite <- app_assoc. cbn [app].
      assert (P : Permutation (slot_of t (p_calls s t) :: (q_pend (p_q s) ++ q_wr (p_q s)))
                                          (q_pend (p_q s) ++ slot_of t (p_calls s t) :: q_wr (p_q s)))
        by apply Permutation_middle.
      apply (Permutation_NoDup (Permutation_map s_owner P)).
      cbn. constructor; [|assumption].
      intros Hin. apply in_map_iff in Hin as (sl&E&Hsl). apply (Hnot sl Hsl E).
    - intros r Hr. destruct (b_cur0 r Hr) as (F&K1&K2&K3). split; [exact F|split; [exact K1|split; [exact K2|]]].
      revert K3. destruct (Nat.ltb (r_ff r) (List.length (r_multi r))) eqn:El; intros K3; [|assumption].
      destruct K3 as (Q1&Q2&Q3&Q4).
      assert (Hne : r_owner r <> t).
      { intros E. destruct Q2 as (_&_&_&[K|[K _]]); rewrite E, Epc in K; discriminate. }
      rewrite Eo by assumption. split; [exact Q1|split; [exact Q2|split; [exact Q3|]]].
      intros Hin. apply in_map_iff in Hin as (sl&E&Hsl). rewrite <- app_assoc in Hsl.
      apply in_app_or in Hsl as [Hsl|[<-|Hsl]].
      + apply Q4. apply in_map_iff. exists sl. split; [assumption|apply in_or_app; now left].
      + cbn in E. congruence.
      + apply Q4. apply in_map_iff. exists sl. split; [assumption|apply in_or_app; now right].
    - intros Ho. destruct (b_sync0 Ho) as [A B]. split.
      + intros K. apply A. intros u [k Hk]. apply (K u). exists k.
        destruct (N.eq_dec u t) as [->|Nu]; [rewrite Epc in Hk; discriminate|now rewrite Eo].
      + intros u k Hk. destruct (N.eq_dec u t) as [->|Nu]; [rewrite upd_same in Hk; discriminate|].
        rewrite Eo in * by assumption. now apply B.
  Qed.

  Lemma move_perm (x : slot) p w : Permutation ((x :: p) ++ w) (p ++ (w ++ [x])).
  Proof.
    cbn. rewrite app_assoc. apply Permutation_cons_append.
  Qed.

  (** the slots of the queue are re-arranged (pend -> wr) and the wire / buffer change as described;
      call records, reader state untouched *)
  Lemma invb_move s s' x p :
    InvB s -> q_pend (p_q s) = x :: p ->
    p_q s' = mkQueue (q_cap (p_q s)) p (q_wr (p_q s) ++ [x]) (q_held (p_q s)) ->
    p_b s' = p_b s -> p_w s' = p_w s -> p_bg s' = p_bg s -> p_s2c s' = p_s2c s -> p_c2s s' = p_c2s s ->
    p_calls s' = p_calls s ->
    p_b s <> BOff ->
    ((exists r, p_b s = BRead r) -> p_wbuf s' = p_wbuf s ++ map witem_of (s_cmds x)) ->
    InvB s'.
  Proof.
    intros I Ep Eq e1 e2 e3 e4 e5 e6 Hnb Hwb.
    assert (P : Permutation (q_pend (p_q s) ++ q_wr (p_q s)) (p ++ (q_wr (p_q s) ++ [x]))).
    { rewrite Ep. apply move_perm. }
    destruct I. constructor; rewrite ?Eq, ?e1, ?e2, ?e3, ?e4, ?e5, ?e6; cbn [q_pend q_wr q_held q_cap]; auto.
    all: try solve [intros K; contradiction].
    all: try solve [intros sl Hsl; apply b_queue0; eapply Permutation_in; [apply Permutation_sym; exact P|exact Hsl]].
    all: try solve [apply (Permutation_NoDup (Permutation_map s_owner P)); assumption].
    - intros r Hr. destruct (b_cur0 r Hr) as (F&K1&K2&K3). split; [exact F|split; [exact K1|split; [exact K2|]]].
      revert K3. destruct (Nat.ltb (r_ff r) (List.length (r_multi r))); intros K3; [|assumption].
      destruct K3 as (Q1&Q2&Q3&Q4). split; [exact Q1|split; [exact Q2|split; [exact Q3|]]].
      intros Hin. apply Q4. eapply Permutation_in; [apply Permutation_sym; apply (Permutation_map s_owner P)|exact Hin].
    - intros r Hr. destruct (b_coh0 r Hr) as (conf&rest&csd&csr&E1&E2&E3&E4&E5&E6).
      exists conf, rest, csd, (csr ++ s_cmds x). repeat split; auto.
      + rewrite flat_map_app. cbn. rewrite app_nil_r, app_assoc, E5. now rewrite app_assoc.
      + rewrite map_app, E6, (Hwb (ex_intro _ r Hr)). now rewrite app_assoc.
  Qed.

  Lemma stepb_LWNext s s' : InvB s -> pstep g s LWNext = Some s' -> InvB s'.
  Proof.
    intros I H. cbn [pstep] in H.
    destruct (p_w s) eqn:Ew; try discriminate.
    destruct (wnext_blocked g (p_q s)); [discriminate|].
    unfold q_next_write in H. destruct (q_pend (p_q s)) as [|x p] eqn:Ep; [discriminate|].
    inversion H; subst; clear H.
    eapply (invb_move s _ x p); eauto; try reflexivity.
    intros K. destruct (b_off s I K) as (_&_&K'&_). congruence.
  Qed.

  Lemma stepb_LCleanNW s s' : InvB s -> pstep g s LCleanNW = Some s' -> InvB s'.
  Proof.
    intros I H. cbn [pstep] in H.
    destruct (p_b s) eqn:Eb; try discriminate.
    destruct (p_wclosed s && negb (Nat.eqb (p_waits s) 0)); [|discriminate].
    unfold q_next_write in H. destruct (q_pend (p_q s)) as [|x p] eqn:Ep; [discriminate|].
    inversion H; subst; clear H.
    eapply (invb_move s _ x p); eauto; try reflexivity.
    - rewrite Eb. discriminate.
    - intros [r K]. rewrite Eb in K. discriminate.
  Qed.

  Lemma stepb_LWFlush s s' : InvB s -> pstep g s LWFlush = Some s' -> InvB s'.
  Proof.
    intros I H. cbn [pstep] in H.
    destruct (p_w s) eqn:Ew; try discriminate.
    destruct (p_conn s && negb match p_wbuf s with [] => true | _ :: _ => false end); [|discriminate].
    inversion H; subst; clear H.
    assert (Hnb : p_b s <> BOff) by (intros K; destruct (b_off s I K) as (_&_&K'&_); congruence).
    destruct I. constructor; cbn; auto.
    - intros K. contradiction.
    - intros r Hr. destruct (b_coh0 r Hr) as (conf&rest&csd&csr&E1&E2&E3&E4&E5&E6).
      exists conf, rest, csd, csr. repeat split; auto. now rewrite app_nil_r.
    - intros K. contradiction.
  Qed.

  (** ** the server *)
  Lemma map_cons_inv {A B} (f : A -> B) l y ys : map f l = y :: ys -> exists x xs, l = x :: xs /\ f x = y /\ map f xs = ys.
  Proof. destruct l as [|x xs]; cbn; [discriminate|]. intros H. inversion H. eauto. Qed.

  Lemma stepb_LSrv s s' : InvB s -> pstep g s LSrv = Some s' -> InvB s'.
  Proof.
    intros I H. cbn [pstep] in H.
    destruct (p_c2s s) as [|w r0] eqn:Ec; [discriminate|]. destruct (p_conn s); [|discriminate].
    inversion H; subst; clear H.
    destruct I. constructor; cbn [p_calls p_q p_b p_w p_bg p_wbuf p_c2s p_s2c set_wire]; auto.
    - intros r Hr. destruct (b_coh0 r Hr) as (conf&rest&csd&csr&E1&E2&E3&E4&E5&E6).
      rewrite Ec in E6. cbn in E6. apply map_cons_inv in E6 as (c&csr'&->&<-&E6).
      exists conf, (rest ++ frames_of sv (witem_of c)), (csd ++ [c]), csr'. repeat split; auto.
      + now rewrite E1, app_assoc.
      + rewrite map_app. cbn. now apply served_snoc_item.
      + now rewrite <- app_assoc.
    - intros Ho. destruct (b_sync0 Ho) as [A B]. split.
      + intros K. destruct (A K) as [K' _]. rewrite Ec in K'. discriminate.
      + intros t k Hk. destruct (B t k Hk) as (B1&B2&csd&csr&B3&B4&B5).
        split; [exact B1|split; [exact B2|]].
        rewrite Ec in B4. apply map_cons_inv in B4 as (c&csr'&->&<-&B4).
        exists (csd ++ [c]), csr'. repeat split; auto.
        * now rewrite <- app_assoc.
        * rewrite map_app. cbn. now apply served_snoc_item.
  Qed.

  Lemma stepb_LSrvPush s m s' : InvB s -> pstep g s (LSrvPush m) = Some s' -> InvB s'.
  Proof.
    intros I H. cbn [pstep] in H.
    destruct (p_conn s && free_push (g_r2ps g) m && (N.eqb (m_typ m) t_push || p_bg s)) eqn:G; [|discriminate].
    apply andb_true_iff in G as [G G2]. apply andb_true_iff in G as [_ G1].
    inversion H; subst; clear H.
    destruct I. constructor; cbn [p_calls p_q p_b p_w p_bg p_wbuf p_c2s p_s2c set_wire]; auto.
    - intros r Hr. destruct (b_coh0 r Hr) as (conf&rest&csd&csr&E1&E2&E3&E4&E5&E6).
      exists conf, (rest ++ [m]), csd, csr. repeat split; auto.
      + now rewrite E1, app_assoc.
      + apply served_snoc_push; assumption.
    - intros Ho. destruct (b_off0 Ho) as (_&_&_&Hbg). rewrite Hbg, orb_false_r in G2.
      assert (Hps : push_sync m = true) by (unfold push_sync, r2ps; now rewrite G1, G2).
      destruct (b_sync0 Ho) as [A B]. split.
      + intros K. destruct (A K) as [K1 K2]. split; [assumption|]. now apply served_snoc_push.
      + intros t k Hk. destruct (B t k Hk) as (B1&B2&csd&csr&B3&B4&B5).
        split; [exact B1|split; [exact B2|]]. exists csd, csr. repeat split; auto. now apply served_snoc_push.
  Qed.

  (** ** clean-up loop and reader exit *)
  Lemma errs_length c e : List.length (errs_for c e) = List.length (k_cmds c).
  Proof. unfold errs_for. now rewrite map_length. Qed.

  Lemma stepb_LCleanNR s s' : InvB s -> pstep g s LCleanNR = Some s' -> InvB s'.
  Proof.
    intros I H. cbn [pstep] in H.
    destruct (p_b s) eqn:Eb; try discriminate.
    destruct (negb (Nat.eqb (p_waits s) 0)); [|discriminate].
    unfold q_next_result in H. destruct (q_wr (p_q s)) as [|sl wr'] eqn:Ew; [discriminate|].
    inversion H; subst; clear H.
    set (o := s_owner sl). set (c := p_calls s o).
    set (c' := with_comp (with_res c (errs_for c (the_err s))) true).
    assert (Hsl : In sl (q_pend (p_q s) ++ q_wr (p_q s))) by (apply in_or_app; right; rewrite Ew; now left).
    destruct (b_queue s I sl Hsl) as [(O1&O2&O3&O4) Ores]. fold o c in O1, O2, O3, O4, Ores.
    destruct (b_rec s I o) as (W&R1&Cm&R2&Sy&Fr&Rt). fold c in W, R1, Cm, R2, Sy, Fr, Rt.
    assert (Hrec : rec_ok c').
    { rec7.
      - unfold rec_wf; cbn. intros K. apply W. exact K.
      - exists 0%nat, (map (fun _ => the_err s) (k_cmds c)). unfold reals; cbn. unfold errs_for. now rewrite map_map.
      - unfold rec_cmp, full; cbn. intros _. apply errs_length.
      - unfold rec_r2; cbn. intros r Hr. destruct O4 as [K|[K1 K2]].
        + assert (k_pc c = PRet) by (apply Rt; congruence). congruence.
        + left. unfold errs_for in *. cbn. congruence.
      - unfold rec_sync, sync_user; cbn. intros K. destruct O4 as [K'|[K' _]]; rewrite K' in K; discriminate.
      - unfold rec_fresh; cbn. destruct O4 as [K'|[K' _]]; rewrite K'; exact Logic.I.
      - unfold rec_ret; cbn. exact Rt. }
    assert (Hnd : ~ In o (map s_owner (q_pend (p_q s) ++ wr'))).
    { pose proof (b_nodup s I) as Nd. rewrite Ew in Nd. rewrite map_app in Nd. cbn in Nd.
      apply NoDup_remove_2 in Nd. now rewrite map_app. }
    assert (Eo : forall u, u <> o -> upd (p_calls s) o c' u = p_calls s u) by (intros; now apply upd_other).
    destruct I. constructor; cbn [p_calls p_q p_b p_w p_bg p_wbuf p_c2s p_s2c set_call set_calls set_q q_finish q_pend q_wr q_held q_cap]; auto.
    - intros u. destruct (N.eq_dec u o) as [->|Nu]; [now rewrite upd_same|rewrite Eo by assumption; auto].
    - rewrite Eb. discriminate.
    - intros sl' Hsl'. assert (Hne : s_owner sl' <> o).
      { intros E. apply Hnd. rewrite <- E. apply in_map. exact Hsl'. }
      rewrite Eo by assumption. apply b_queue0. rewrite Ew. apply in_app_or in Hsl' as [K|K]; apply in_or_app; [now left|right; now right].
    - pose proof b_nodup0 as Nd. rewrite Ew in Nd. rewrite map_app in Nd. cbn in Nd. apply NoDup_remove_1 in Nd. now rewrite map_app.
    - rewrite Eb. discriminate.
    - rewrite Eb. discriminate.
    - rewrite Eb. discriminate.
  Qed.

  Lemma reals_length c k : (k <= List.length (k_cmds c))%nat -> List.length (reals c k) = k.
  Proof. intros H. unfold reals. rewrite !map_length, firstn_length. lia. Qed.

  Lemma stepb_LRFail s s' : InvB s -> pstep g s LRFail = Some s' -> InvB s'.
  Proof.
    intros I H. cbn [pstep] in H.
    destruct (p_b s) as [|r| | | |] eqn:Eb; try discriminate.
    destruct (b_cur s I r Eb) as (F&K1&K2&K3).
    unfold reader_exit in H.
    destruct (Nat.ltb (r_ff r) (List.length (r_multi r))) eqn:El.
    - (* a slot was being filled: its remaining results are the error *)
      destruct K3 as (Q1&Q2&Q3&Q4). apply Nat.ltb_lt in El.
      inversion H; subst; clear H.
      set (e := match p_err s with Some e => e | None => EConn end).
      set (o := r_owner r). set (c := p_calls s o). fold o c in Q2, Q3, Q4.
      destruct Q2 as (O1&O2&O3&O4). cbn in O1, O2.
      destruct (b_rec s I o) as (W&R1&Cm&R2&Sy&Fr&Rt). fold c in W, R1, Cm, R2, Sy, Fr, Rt.
      assert (Hpc : k_pc c <> PIdle) by (destruct O4 as [K|[K _]]; rewrite K; discriminate).
      destruct (W Hpc) as (W1&W2&W3).
      set (idx := if r_resps r then (if r_resps r then seq (r_ff r) (List.length (r_multi r) - r_ff r) else []) else [0%nat]).
      set (c' := with_comp (with_res c (k_res c ++ map (fun _ => RErr e) idx)) true).
      assert (Hlen : List.length (k_res c ++ map (fun _ : nat => RErr e) idx) = List.length (k_cmds c)).
      { rewrite app_length, map_length, Q3, reals_length by (rewrite <- O2; lia). unfold idx.
        destruct (r_resps r) eqn:Er.
        - rewrite seq_length, <- O2. lia.
        - cbn. destruct W3 as [W3|W3]; [congruence|]. rewrite <- O2 in *. lia. }
      assert (Hrec : rec_ok c').
      { rec7.
        - unfold rec_wf; cbn. intros _. auto.
        - exists (r_ff r), (map (fun _ => e) idx). unfold c'; cbn. rewrite Q3, map_map. reflexivity.
        - unfold rec_cmp, full; cbn. intros _. exact Hlen.
        - unfold rec_r2; cbn. intros x Hx. destruct O4 as [K|[Ka Kb]].
          + assert (k_pc c = PRet) by (apply Rt; congruence). congruence.
          + left. unfold errs_for in *. cbn. congruence.
        - unfold rec_sync, sync_user; cbn. intros K. destruct O4 as [K'|[K' _]]; rewrite K' in K; discriminate.
        - unfold rec_fresh; cbn. destruct O4 as [K'|[K' _]]; rewrite K'; exact Logic.I.
        - unfold rec_ret; cbn. exact Rt. }
      assert (Eo : forall u, u <> o -> upd (p_calls s) o c' u = p_calls s u) by (intros; now apply upd_other).
      destruct I. constructor; cbn [p_calls p_q p_b p_w p_bg p_wbuf p_c2s p_s2c set_call set_calls set_q set_b do_exit q_finish q_pend q_wr q_held q_cap]; auto.
      all: try solve [intros K; discriminate K].
      all: try solve [intros r0 K; discriminate K].
      + intros u. destruct (N.eq_dec u o) as [->|Nu]; [now rewrite upd_same|rewrite Eo by assumption; auto].
      + intros sl Hsl. assert (Hne : s_owner sl <> o).
        { intros E. apply Q4. rewrite <- E. apply in_map. exact Hsl. }
        rewrite Eo by assumption. auto.
    - inversion H; subst; clear H.
      destruct I. constructor; cbn [p_calls p_q p_b p_w p_bg p_wbuf p_c2s p_s2c set_call set_calls set_q set_b do_exit q_finish q_pend q_wr q_held q_cap]; auto.
      all: try solve [intros K; discriminate K].
      all: try solve [intros r0 K; discriminate K].
  Qed.

  (** ** synchronous calls *)
  Lemma sync_off s t : InvA s -> sync_user (p_calls s t) = true -> p_bg s = false /\ p_b s = BOff.
  Proof.
    intros IA Hs. destruct (p_bg s) eqn:E.
    - rewrite (a_e2 s IA E t) in Hs. discriminate.
    - split; [reflexivity|apply (a_bgw s IA E)].
  Qed.

  Lemma only_reader s t u : InvA s -> sync_user (p_calls s t) = true -> reading (p_calls s u) -> u = t.
  Proof.
    intros IA Hs Hu. apply reading_sync in Hu. apply (a_tok1 s IA); now apply sync_tok.
  Qed.

  Lemma stepb_LSyncW s t s' : InvB s -> InvA s -> pstep g s (LSyncW t) = Some s' -> InvB s'.
  Proof.
    intros I IA H. cbn [pstep] in H.
    destruct (k_pc (p_calls s t)) eqn:Epc; try discriminate.
    destruct (p_conn s); [|discriminate]. inversion H; subst; clear H.
    assert (Hsy : sync_user (p_calls s t) = true) by (unfold sync_user; now rewrite Epc).
    destruct (sync_off s t IA Hsy) as [Hbg Hb].
    assert (Hnr : forall u, ~ reading (p_calls s u)).
    { intros u Hu. pose proof (only_reader s t u IA Hsy Hu) as ->. destruct Hu as [k K]. rewrite Epc in K. discriminate. }
    destruct (b_sync s I Hb) as [A _]. destruct (A Hnr) as [Ec Hsv].
    pose proof (b_rec s I t) as Hold. pose proof Hold as Hold'. fresh_of Hold' Epc.
    assert (Hpc : k_pc (p_calls s t) <> PIdle) by congruence.
    set (c' := with_pc (p_calls s t) (PSyncR (List.length (k_cmds (p_calls s t))))).
    assert (Hrec : rec_ok c').
    { apply (rec_ok_ctl (p_calls s t)); cbn; auto; try congruence; close_rec.
      all: try solve [unfold rec_fresh; cbn; auto].
      all: try solve [unfold rec_ret; cbn; rewrite F3; intros K; contradiction]. }
    assert (Eo : forall u, u <> t -> upd (p_calls s) t c' u = p_calls s u) by (intros; now apply upd_other).
    destruct I. constructor; cbn [p_calls p_q p_b p_w p_bg p_wbuf p_c2s p_s2c set_call set_calls set_wire set_sent]; auto.
    - intros u. destruct (N.eq_dec u t) as [->|Nu]; [now rewrite upd_same|rewrite Eo by assumption; auto].
    - intros sl Hsl. assert (Hne : s_owner sl <> t).
      { intros E. destruct (b_queue0 sl Hsl) as [(_&_&_&[K|[K _]]) _]; rewrite E, Epc in K; discriminate. }
      rewrite Eo by assumption. auto.
    - intros r Hr. rewrite Hb in Hr. discriminate.
    - intros r Hr. rewrite Hb in Hr. discriminate.
    - intros _. split.
      + intros K. exfalso. apply (K t). rewrite upd_same. unfold c'. cbn. eexists. reflexivity.
      + intros u k Hk. destruct (N.eq_dec u t) as [->|Nu].
        * rewrite upd_same in *. unfold c' in Hk. cbn in Hk. inversion Hk; subst k. unfold c'. cbn [k_cmds k_res with_pc].
          split; [lia|]. rewrite Nat.sub_diag. split; [now rewrite F1|].
          exists [], (k_cmds (p_calls s t)). cbn. rewrite Ec. repeat split; auto.
        * rewrite Eo in Hk by assumption. exfalso. apply (Hnr u). now exists k.
  Qed.

  Lemma skipn_cons_nth {A} (l : list A) n x rest : skipn n l = x :: rest -> nth_error l n = Some x /\ skipn (S n) l = rest.
  Proof.
    revert n. induction l as [|a l IH]; intros n H.
    - destruct n; discriminate.
    - destruct n as [|n]; cbn in *.
      + inversion H; subst. auto.
      + apply IH. exact H.
  Qed.

  Lemma firstn_S_nth {A} (l : list A) n x : nth_error l n = Some x -> firstn (S n) l = firstn n l ++ [x].
  Proof.
    revert n. induction l as [|a l IH]; intros n H.
    - destruct n; discriminate.
    - destruct n as [|n]; cbn in *.
      + inversion H; subst. reflexivity.
      + f_equal. now apply IH.
  Qed.

  Lemma reals_snoc c n x : nth_error (k_cmds c) n = Some x -> reals c (S n) = reals c n ++ [RMsg (result_of sv x)].
  Proof. intros H. unfold reals. rewrite (firstn_S_nth _ _ _ H), !map_app. reflexivity. Qed.

  Lemma existsb_false_in {A} (f : A -> bool) l x : existsb f l = false -> In x l -> f x = false.
  Proof.
    intros H Hx. destruct (f x) eqn:E; [|reflexivity].
    assert (existsb f l = true) by (apply existsb_exists; eauto). congruence.
  Qed.

  Lemma skipn_in {A} (l : list A) n x rest : skipn n l = x :: rest -> In x l.
  Proof. intros H. apply skipn_cons_nth in H as [H _]. eapply nth_error_In; eauto. Qed.

  Lemma push_frame_typ m : is_push_frame r2ps m = false -> N.eqb (m_typ m) t_push = false.
  Proof. unfold is_push_frame. intros H. apply orb_false_iff in H as [H _]. exact H. Qed.

  Lemma stepb_LSyncR s t s' : InvB s -> InvA s -> pstep g s (LSyncR t) = Some s' -> InvB s'.
  Proof.
    intros I IA H. cbn [pstep] in H.
    destruct (k_pc (p_calls s t)) as [| | | | |k| | | | | | |] eqn:Epc; try discriminate.
    destruct k as [|k]; [discriminate|].
    destruct (p_s2c s) as [|f r] eqn:Es; [discriminate|].
    assert (Hsy : sync_user (p_calls s t) = true) by (unfold sync_user; now rewrite Epc).
    destruct (sync_off s t IA Hsy) as [Hbg Hb].
    destruct (b_sync s I Hb) as [_ B]. destruct (B t (S k) Epc) as (B1&B2&csd&csr&B3&B4&B5).
    rewrite Es in B5.
    pose proof (b_rec s I t) as Hold. destruct Hold as (W&R1&Cm&R2&Sy&Fr&Rt).
    assert (Hpc : k_pc (p_calls s t) <> PIdle) by congruence.
    destruct (W Hpc) as (W1&W2&W3).
    pose proof (Sy Hsy) as Hnr.
    apply served_inv in B5 as [[P1 P2]|(c&csd'&tl&fs'&E1&E2&E3&E4)].
    - (* an out-of-band RESP3 push: skipped *)
      assert (Et : N.eqb (m_typ f) t_push = true).
      { unfold push_sync in P1. apply andb_true_iff in P1 as [_ P1]. exact P1. }
      rewrite Et in H. inversion H; subst; clear H.
      destruct I. constructor; cbn [p_calls p_q p_b p_w p_bg p_wbuf p_c2s p_s2c set_wire]; auto.
      + intros r0 Hr. rewrite Hb in Hr. discriminate.
      + intros _. split.
        * intros K. exfalso. apply (K t). now exists (S k).
        * intros u k' Hk. assert (u = t) by (apply (only_reader s t u IA Hsy); now exists k'). subst u.
          rewrite Epc in Hk. inversion Hk; subst k'.
          split; [exact B1|split; [exact B2|]]. exists csd, csr. repeat split; auto.
    - (* the reply of the next command *)
      subst csd.
      assert (Hin : In c (k_cmds (p_calls s t))).
      { destruct csd'; cbn in B3; eapply skipn_in; eauto. }
      assert (Hn : c_noreply c = false) by (eapply existsb_false_in; eauto).
      assert (Hu : c_unsub c = false).
      { assert (Hw : wf_cmd c = true) by (eapply forallb_forall in W1; eauto).
        unfold wf_cmd in Hw. rewrite Hn in Hw. destruct (c_unsub c); [discriminate|reflexivity]. }
      destruct (kind_of_cmd c) as [_ _ Ew Hp Hr|_ K _ _ _ _ _|K _ _ _ _ _]; try congruence.
      rewrite Ew in E2. cbn in E2. inversion E2; subst f tl. cbn in E3. subst fs'.
      rewrite (push_frame_typ _ Hp) in H.
      cbn [app] in B3. apply skipn_cons_nth in B3 as [Hnth Hsk].
      set (n := (List.length (k_cmds (p_calls s t)) - S k)%nat) in *.
      assert (Hn1 : (S n = List.length (k_cmds (p_calls s t)) - k)%nat) by (unfold n; lia).
      set (c1 := with_res (p_calls s t) (k_res (p_calls s t) ++ [RMsg (sv_reply sv c)])).
      assert (Hres : k_res c1 = reals (p_calls s t) (S n)).
      { unfold c1. cbn [k_res with_res]. rewrite B2, (reals_snoc _ _ _ Hnth), Hr. reflexivity. }
      assert (Hret : k_ret (p_calls s t) = None).
      { destruct (k_ret (p_calls s t)) eqn:E; [|reflexivity]. assert (k_pc (p_calls s t) = PRet) by (apply Rt; congruence). congruence. }
      set (c' := match k with O => with_pc c1 (PDecr true) | S _ => with_pc c1 (PSyncR k) end).
      assert (Hc' : k_cmds c' = k_cmds (p_calls s t) /\ k_res c' = reals (p_calls s t) (S n) /\ k_multi c' = k_multi (p_calls s t) /\
                    k_ret c' = None /\ k_comp c' = k_comp (p_calls s t) /\ k_drain c' = k_drain (p_calls s t) /\
                    k_pc c' = match k with O => PDecr true | S _ => PSyncR k end).
      { unfold c'. destruct k; cbn; repeat split; auto. }
      destruct Hc' as (C1&C2&C3&C4&C5&C6&C7).
      assert (Hrec : rec_ok c').
      { rec7.
        - unfold rec_wf. rewrite C1, C3. intros _. auto.
        - exists (S n), []. unfold reals in *. rewrite C1, C2, app_nil_r. reflexivity.
        - unfold rec_cmp, full. rewrite C1, C2, C5, C6, C7.
          assert (Hcf : k_comp (p_calls s t) = false) by (unfold rec_fresh in Fr; rewrite Epc in Fr; apply Fr).
          intros [K|[K|[K|[[b K]|K]]]].
          + congruence.
          + destruct k; discriminate.
          + assert (k_pc (p_calls s t) = PRet) by (apply (a_dr s IA); congruence). congruence.
          + destruct k; [|discriminate]. rewrite reals_length by lia. lia.
          + destruct k; discriminate.
        - unfold rec_r2. rewrite C4. intros x K; discriminate.
        - unfold rec_sync. rewrite C1. intros _. exact Hnr.
        - unfold rec_fresh. rewrite C7, C4, C5. destruct k; [exact Logic.I|].
          unfold rec_fresh in Fr. rewrite Epc in Fr. split; [apply Fr|reflexivity].
        - unfold rec_ret. rewrite C4. intros K; contradiction. }
      assert (Eo : forall u, u <> t -> upd (p_calls s) t c' u = p_calls s u) by (intros; now apply upd_other).
      inversion H; subst s'; clear H. fold c1. fold c'.
      destruct I. constructor; cbn [p_calls p_q p_b p_w p_bg p_wbuf p_c2s p_s2c set_call set_calls set_wire]; auto.
      + intros u. destruct (N.eq_dec u t) as [->|Nu]; [now rewrite upd_same|rewrite Eo by assumption; auto].
      + intros sl Hsl. assert (Hne : s_owner sl <> t).
        { intros E. destruct (b_queue0 sl Hsl) as [(_&_&_&[K|[K _]]) _]; rewrite E, Epc in K; discriminate. }
        rewrite Eo by assumption. auto.
      + intros r0 Hr0. rewrite Hb in Hr0. discriminate.
      + intros r0 Hr0. rewrite Hb in Hr0. discriminate.
      + intros _. split.
        * intros K. destruct k as [|k].
          -- (* last reply read *)
             assert (Hlen : S n = List.length (k_cmds (p_calls s t))) by lia.
             rewrite Hlen, skipn_all in Hsk. symmetry in Hsk. apply app_eq_nil in Hsk as [-> ->].
             cbn in B4. split; [now rewrite <- B4|exact E4].
          -- exfalso. apply (K t). rewrite upd_same. exists (S k). exact C7.
        * intros u k' Hk. destruct (N.eq_dec u t) as [->|Nu].
          -- rewrite upd_same in *. rewrite C7 in Hk. destruct k as [|k]; [discriminate|]. inversion Hk; subst k'.
             rewrite C1, C2. split; [lia|]. split; [now rewrite Hn1|].
             exists csd', csr. rewrite <- Hn1. repeat split; auto.
          -- rewrite Eo in Hk by assumption. exfalso. apply Nu. apply (only_reader s t u IA Hsy). now exists k'.
  Qed.

  Lemma stepb_LSyncFail s t b s' : InvB s -> InvA s -> pstep g s (LSyncFail t b) = Some s' -> InvB s'.
  Proof.
    intros I IA H. cbn [pstep] in H.
    destruct ((match k_pc (p_calls s t) with PSyncW | PSyncR _ => true | _ => false end) &&
              (if b then match k_ctx (p_calls s t) with CtxDeadline => k_done (p_calls s t) | _ => false end else true)) eqn:G;
      [|discriminate].
    apply andb_true_iff in G as [G1 _].
    assert (Hsy : sync_user (p_calls s t) = true) by exact G1.
    destruct (sync_off s t IA Hsy) as [Hbg Hb].
    inversion H; subst; clear H.
    set (e := if b then ECtx else EConn).
    set (c' := with_pc (with_res (p_calls s t) (errs_for (p_calls s t) e)) (PDecr true)).
    rewrite do_background_set_call.
    set (s1 := set_call (set_wire (latch s e true) [] []) t c').
    destruct (b_rec s I t) as (W&R1&Cm&R2&Sy&Fr&Rt).
    assert (Hpc : k_pc (p_calls s t) <> PIdle) by (destruct (k_pc (p_calls s t)); discriminate).
    assert (Hret : k_ret (p_calls s t) = None).
    { unfold rec_fresh in Fr. destruct (k_pc (p_calls s t)); try discriminate; apply Fr. }
    assert (Hrec : rec_ok c').
    { rec7.
      - unfold rec_wf; cbn. intros _. now apply W.
      - exists 0%nat, (map (fun _ => e) (k_cmds (p_calls s t))). unfold reals; cbn. unfold errs_for. now rewrite map_map.
      - unfold rec_cmp, full; cbn. intros _. apply errs_length.
      - unfold rec_r2; cbn. rewrite Hret. intros x K; discriminate.
      - unfold rec_sync, sync_user; cbn. intros K; discriminate.
      - exact Logic.I.
      - unfold rec_ret; cbn. rewrite Hret. intros K; contradiction. }
    assert (Hnr1 : forall u, ~ reading (p_calls s1 u)).
    { intros u [k Hk]. unfold s1 in Hk. cbn in Hk. unfold upd in Hk. destruct (N.eqb u t) eqn:E.
      - discriminate.
      - apply N.eqb_neq in E. apply E. apply (only_reader s t u IA Hsy). now exists k. }
    assert (Eo : forall u, u <> t -> upd (p_calls s) t c' u = p_calls s u) by (intros; now apply upd_other).
    assert (I1 : InvB s1).
    { destruct I. unfold s1. constructor; cbn [p_calls p_q p_b p_w p_bg p_wbuf p_c2s p_s2c set_call set_calls set_wire latch]; auto.
      - intros u. destruct (N.eq_dec u t) as [->|Nu]; [now rewrite upd_same|rewrite Eo by assumption; auto].
      - intros sl Hsl. assert (Hne : s_owner sl <> t).
        { intros E. destruct (b_queue0 sl Hsl) as [(_&_&_&[K|[K _]]) _]; rewrite E in K; rewrite K in G1; discriminate. }
        rewrite Eo by assumption. auto.
      - intros r0 Hr0. rewrite Hb in Hr0. discriminate.
      - intros r0 Hr0. rewrite Hb in Hr0. discriminate.
      - intros _. split.
        + intros _. split; [reflexivity|constructor].
        + intros u k Hk. exfalso. apply (Hnr1 u). now exists k. }
    apply invb_do_background; auto.
  Qed.

  (** ** the reader *)

  (** delivery of the result of command [c] = multi2[ff2] to the slot the reader holds *)
  Lemma invb_deliver sT r' o mu multi2 ff2 c :
    (forall t, rec_ok (p_calls sT t)) ->
    (forall sl, In sl (q_pend (p_q sT) ++ q_wr (p_q sT)) ->
                owner_ok sl (p_calls sT (s_owner sl)) /\ k_res (p_calls sT (s_owner sl)) = []) ->
    NoDup (map s_owner (q_pend (p_q sT) ++ q_wr (p_q sT))) ->
    q_held (p_q sT) = true ->
    owner_ok (mkSlot o mu multi2) (p_calls sT o) ->
    k_res (p_calls sT o) = reals (p_calls sT o) ff2 ->
    ~ In o (map s_owner (q_pend (p_q sT) ++ q_wr (p_q sT))) ->
    nth_error multi2 ff2 = Some c ->
    r_multi r' = multi2 -> r_owner r' = o -> r_resps r' = mu -> r_ff r' = S ff2 -> flags_clear r' -> (0 <= r_skip r')%Z ->
    (exists conf rest csd csr,
        p_s2c sT = conf ++ rest /\ Z.of_nat (List.length conf) = r_skip r' /\
        forallb (sub_confirm r2ps) conf = true /\ Served (map witem_of csd) rest /\
        skipn (S ff2) multi2 ++ flat_map s_cmds (q_wr (p_q sT)) = csd ++ csr /\
        map witem_of csr = p_c2s sT ++ p_wbuf sT) ->
    let last := Nat.eqb (S ff2) (List.length multi2) in
    let m := result_of sv c in
    InvB (set_b (fold_left (apply_act o mu) ((if mu then [AStore ff2 m] else []) ++ (if last then [AComplete m] else [])) sT) (BRead r')).
  Proof.
    intros Hrec Hq Hnd Hheld Hown Hres Hnotin Hnth e1 e2 e3 e4 Hfl Hsk Hcoh last m.
    assert (Elast : last = Nat.eqb (S ff2) (List.length multi2)) by reflexivity. clearbody last.
    set (cT := p_calls sT o) in *.
    destruct Hown as (O1&O2&O3&O4). cbn in O1, O2.
    destruct (Hrec o) as (W&R1&Cm&R2&Sy&Fr&Rt). fold cT in W, R1, Cm, R2, Sy, Fr, Rt.
    assert (Hpc : k_pc cT <> PIdle) by (destruct O4 as [K|[K _]]; rewrite K; discriminate).
    destruct (W Hpc) as (W1&W2&W3).
    assert (Hlt : (ff2 < List.length multi2)%nat) by (apply nth_error_Some; congruence).
    assert (Hlt' : (ff2 < List.length (k_cmds cT))%nat) by (rewrite <- O2; exact Hlt).
    assert (Hml : mu = true \/ last = true).
    { destruct W3 as [W3|W3]; [left; congruence|right]. rewrite Elast. apply Nat.eqb_eq. rewrite <- O2 in W3. lia. }
    pose proof (fold_deliver_spec o mu last ff2 m sT Hml) as Hspec.
    set (sD := fold_left (apply_act o mu) ((if mu then [AStore ff2 m] else []) ++ (if last then [AComplete m] else [])) sT) in *.
    cbn zeta in Hspec. fold cT in Hspec. destruct Hspec as (Dq&Do&Dt).
    pose proof (fold_apply_same_ctl o mu ((if mu then [AStore ff2 m] else []) ++ (if last then [AComplete m] else [])) sT) as Hctl.
    fold sD in Hctl.
    destruct Hctl as (a1&a2&a3&a4&a5&a6&a7&a8&a9&a10&a11&a12&a13&a14&a15&a16&a17&a18).
    set (c1 := with_res cT (k_res cT ++ [RMsg m])) in *.
    assert (Hnth' : nth_error (k_cmds cT) ff2 = Some c) by (rewrite <- O2; exact Hnth).
    assert (Hres1 : k_res c1 = reals cT (S ff2)).
    { unfold c1. cbn [k_res with_res]. rewrite Hres, (reals_snoc _ _ _ Hnth'). reflexivity. }
    assert (Hretc : k_ret cT = None \/ k_ret cT = Some (errs_for cT ECtx)).
    { destruct O4 as [K|[_ K]]; [|now right]. left. destruct (k_ret cT) eqn:E; [|reflexivity].
      assert (k_pc cT = PRet) by (apply Rt; congruence). congruence. }
    assert (HrecD : rec_ok (p_calls sD o)).
    { rewrite Dt. rec7.
      - unfold rec_wf. destruct last; cbn; intros _; auto.
      - exists (S ff2), []. destruct last; cbn [k_res with_comp k_cmds]; rewrite Hres1; unfold reals; cbn; now rewrite app_nil_r.
      - unfold rec_cmp, full. destruct last eqn:El.
        + cbn [k_res with_comp k_cmds]. intros _. rewrite Hres1, reals_length by lia.
          assert (Hl : S ff2 = List.length multi2) by (apply Nat.eqb_eq; symmetry; exact Elast).
          unfold c1. cbn [k_cmds with_res]. congruence.
        + cbn [k_comp k_pc k_drain c1 with_res]. intros [K|[K|[K|[[b K]|K]]]].
          * congruence.
          * destruct O4 as [K'|[K' _]]; congruence.
          * exfalso. assert (Hf : full cT) by (apply Cm; auto). unfold full in Hf. rewrite Hres, reals_length in Hf by lia. lia.
          * destruct O4 as [K'|[K' _]]; congruence.
          * destruct O4 as [K'|[K' _]]; congruence.
      - unfold rec_r2. destruct last; cbn [k_ret with_comp c1 with_res]; intros x Hx;
          (destruct Hretc as [K|K]; [congruence|left; unfold errs_for in *; cbn; congruence]).
      - unfold rec_sync, sync_user. destruct last; cbn [k_pc with_comp c1 with_res]; intros K;
          destruct O4 as [K'|[K' _]]; rewrite K' in K; discriminate.
      - unfold rec_fresh. destruct last; cbn [k_pc with_comp c1 with_res]; destruct O4 as [K'|[K' _]]; rewrite K'; exact Logic.I.
      - unfold rec_ret. destruct last; cbn [k_pc k_ret with_comp c1 with_res]; exact Rt. }
    constructor; cbn [p_calls p_q p_b p_w p_bg p_wbuf p_c2s p_s2c set_b].
    - intros t. destruct (N.eq_dec t o) as [->|Nt]; [exact HrecD|rewrite Do by assumption; apply Hrec].
    - intros K; discriminate K.
    - intros K. exfalso. apply (K r'). reflexivity.
    - intros sl Hsl.
      assert (Hsl' : In sl (q_pend (p_q sT) ++ q_wr (p_q sT))) by (rewrite Dq in Hsl; destruct last; exact Hsl).
      assert (Hne : s_owner sl <> o) by (intros E; apply Hnotin; rewrite <- E; now apply in_map).
      rewrite Do by assumption. now apply Hq.
    - rewrite Dq. destruct last; exact Hnd.
    - intros r Hr. inversion Hr; subst r. split; [exact Hfl|split; [exact Hsk|]].
      rewrite e1, e4. split; [lia|].
      destruct (Nat.ltb (S ff2) (List.length multi2)) eqn:El.
      + assert (last = false) as Hl by (rewrite Elast; apply Nat.eqb_neq; apply Nat.ltb_lt in El; lia).
        rewrite Hl in Dq, Dt. rewrite e2, e3, Dq, Dt. split; [exact Hheld|split; [|split; [|exact Hnotin]]].
        * unfold owner_ok; cbn. repeat split; auto.
        * rewrite Hres1. reflexivity.
      + assert (last = true) as Hl by (rewrite Elast; apply Nat.eqb_eq; apply Nat.ltb_ge in El; lia).
        rewrite Hl in Dq. rewrite Dq. reflexivity.
    - intros r Hr. inversion Hr; subst r. destruct Hcoh as (conf&rest&csd&csr&E1&E2&E3&E4&E5&E6).
      exists conf, rest, csd, csr. rewrite e1, e4, a10, a9, a6. repeat split; auto.
      rewrite Dq. destruct last; exact E5.
    - intros K; discriminate K.
  Qed.

  Hypothesis Hver : g_ver g <> 6%Z.

  Lemma rd_store_acts st3 a2 m3 :
    rd_store st3 a2 m3 =
    (set_ff st3 (S (r_ff st3)),
     a2 ++ (if r_resps st3 then [AStore (r_ff st3) m3] else []) ++
           (if Nat.eqb (S (r_ff st3)) (List.length (r_multi st3)) then [AComplete m3] else [])).
  Proof.
    unfold rd_store. cbn [r_ff r_multi set_ff].
    destruct (r_resps st3), (Nat.eqb (S (r_ff st3)) (List.length (r_multi st3))); cbn; rewrite ?app_nil_r, <- ?app_assoc; reflexivity.
  Qed.

  Lemma inert_not_bad l : forallb inert l = true -> existsb is_bad l = false.
  Proof.
    induction l as [|a l IH]; cbn; [reflexivity|]. intros H. apply andb_true_iff in H as [H1 H2].
    rewrite (IH H2). destruct a; try discriminate; reflexivity.
  Qed.

  Lemma existsb_app_false {A} (f : A -> bool) l1 l2 : existsb f l1 = false -> existsb f l2 = false -> existsb f (l1 ++ l2) = false.
  Proof. intros H1 H2. rewrite existsb_app, H1, H2. reflexivity. Qed.

  (** only the reader's skip counter and the incoming frames change *)
  Lemma invb_rdr s r r' rest0 :
    InvB s -> p_b s = BRead r ->
    r_multi r' = r_multi r -> r_ff r' = r_ff r -> r_owner r' = r_owner r -> r_resps r' = r_resps r ->
    flags_clear r' -> (0 <= r_skip r')%Z ->
    (exists conf rest csd csr,
        rest0 = conf ++ rest /\ Z.of_nat (List.length conf) = r_skip r' /\
        forallb (sub_confirm r2ps) conf = true /\ Served (map witem_of csd) rest /\
        skipn (r_ff r) (r_multi r) ++ flat_map s_cmds (q_wr (p_q s)) = csd ++ csr /\
        map witem_of csr = p_c2s s ++ p_wbuf s) ->
    InvB (set_b (set_wire s (p_c2s s) rest0) (BRead r')).
  Proof.
    intros I Eb e1 e2 e3 e4 Hfl Hsk Hcoh.
    destruct (b_cur s I r Eb) as (F&K1&K2&K3).
    destruct I. constructor; cbn [p_calls p_q p_b p_w p_bg p_wbuf p_c2s p_s2c set_b set_wire]; auto.
    - intros K; discriminate K.
    - intros K. exfalso. apply (K r'). reflexivity.
    - intros r0 Hr. inversion Hr; subst r0. rewrite e1, e2, e3, e4. split; [exact Hfl|split; [exact Hsk|split; [exact K2|exact K3]]].
    - intros r0 Hr. inversion Hr; subst r0. rewrite e1, e2. exact Hcoh.
    - intros K; discriminate K.
  Qed.

  Lemma flat_map_cons_inv (wr : list slot) c L :
    flat_map s_cmds wr = c :: L -> (forall sl, In sl wr -> s_cmds sl <> []) ->
    exists sl wr' rest, wr = sl :: wr' /\ s_cmds sl = c :: rest /\ L = rest ++ flat_map s_cmds wr'.
  Proof.
    intros H Hne. destruct wr as [|sl wr']; [discriminate|]. cbn in H.
    destruct (s_cmds sl) as [|c0 rest] eqn:E.
    - exfalso. apply (Hne sl); [now left|exact E].
    - cbn in H. inversion H; subst. exists sl, wr', rest. auto.
  Qed.

  (** the frame is the (first) answer to command c: where it lands and what follows in the stream *)
  Lemma reply_lands s r c L :
    InvB s -> p_b s = BRead r ->
    skipn (r_ff r) (r_multi r) ++ flat_map s_cmds (q_wr (p_q s)) = c :: L ->
    exists st2 tk, lands (hd_error (q_wr (p_q s))) r c st2 tk /\
      ((tk = [] /\ st2 = r /\ (r_ff r < List.length (r_multi r))%nat /\
        L = skipn (S (r_ff r)) (r_multi r) ++ flat_map s_cmds (q_wr (p_q s))) \/
       (exists sl wr', tk = [ATakeNext true] /\ st2 = set_slot r (Some sl) /\ q_wr (p_q s) = sl :: wr' /\
                       r_ff r = List.length (r_multi r) /\
                       L = skipn 1 (s_cmds sl) ++ flat_map s_cmds wr')).
  Proof.
    intros I Eb E.
    destruct (b_cur s I r Eb) as (_&_&K2&_).
    destruct (Nat.eq_dec (r_ff r) (List.length (r_multi r))) as [El|Nl].
    - rewrite El, skipn_all in E. cbn in E.
      assert (Hne : forall sl, In sl (q_wr (p_q s)) -> s_cmds sl <> []).
      { intros sl Hsl. assert (Hin : In sl (q_pend (p_q s) ++ q_wr (p_q s))) by (apply in_or_app; now right).
        destruct (b_queue s I sl Hin) as [(O1&O2&O3&O4) _].
        destruct (b_rec s I (s_owner sl)) as (W&_).
        assert (Hpc : k_pc (p_calls s (s_owner sl)) <> PIdle) by (destruct O4 as [K|[K _]]; rewrite K; discriminate).
        destruct (W Hpc) as (_&W2&_). congruence. }
      destruct (flat_map_cons_inv _ _ _ E Hne) as (sl&wr'&rest&Ew&Ec&EL).
      exists (set_slot r (Some sl)), [ATakeNext true]. split.
      + eapply LandNext; eauto. now rewrite Ew.
      + right. exists sl, wr'. repeat split; auto. rewrite Ec. exact EL.
    - assert (Hlt : (r_ff r < List.length (r_multi r))%nat) by lia.
      destruct (skipn (r_ff r) (r_multi r)) as [|c0 rest] eqn:Esk.
      + exfalso. assert (List.length (skipn (r_ff r) (r_multi r)) = 0%nat) by now rewrite Esk. rewrite skipn_length in H. lia.
      + cbn in E. inversion E; subst c0 L.
        apply skipn_cons_nth in Esk as [Hn Hs].
        exists r, []. split; [now apply LandCur|]. left. repeat split; auto. now rewrite Hs.
  Qed.

  Lemma set_skip_id st : set_skip st (r_skip st) = st.
  Proof. destruct st; reflexivity. Qed.

  Lemma slot_eta sl : mkSlot (s_owner sl) (s_multi sl) (s_cmds sl) = sl.
  Proof. destruct sl; reflexivity. Qed.

  (** a frame that carries the result of command c *)
  Lemma stepb_reply s r f rest0 c L st2 tk preA preB skip' s' :
    InvB s -> p_b s = BRead r -> p_s2c s = f :: rest0 ->
    skipn (r_ff r) (r_multi r) ++ flat_map s_cmds (q_wr (p_q s)) = c :: L ->
    lands (hd_error (q_wr (p_q s))) r c st2 tk ->
    forallb inert preA = true -> forallb inert preB = true ->
    reader_step (g_r2ps g) (g_ver g) (hd_error (q_wr (p_q s))) r f =
      rd_store (set_skip st2 skip') (preA ++ tk ++ preB) (result_of sv c) ->
    (0 <= skip')%Z ->
    (exists conf rest csd csr,
        rest0 = conf ++ rest /\ Z.of_nat (List.length conf) = skip' /\
        forallb (sub_confirm r2ps) conf = true /\ Served (map witem_of csd) rest /\
        L = csd ++ csr /\ map witem_of csr = p_c2s s ++ p_wbuf s) ->
    pstep g s LRStep = Some s' -> InvB s'.
  Proof.
    intros I Eb Es EL Hl HA HB Er Hsk Hcoh H.
    cbn [pstep] in H. rewrite Eb, Es, Er, rd_store_acts in H.
    cbn [r_ff r_resps r_multi r_owner set_ff set_skip] in H.
    set (m := result_of sv c) in *.
    set (ff2 := r_ff st2) in *. set (mu := r_resps st2) in *. set (multi2 := r_multi st2) in *. set (o := r_owner st2) in *.
    set (deliv := (if mu then [AStore ff2 m] else []) ++ (if Nat.eqb (S ff2) (List.length multi2) then [AComplete m] else [])) in *.
    assert (Hnb : existsb is_bad ((preA ++ tk ++ preB) ++ deliv) = false).
    { apply existsb_app_false; [apply existsb_app_false; [now apply inert_not_bad|apply existsb_app_false; [|now apply inert_not_bad]]|].
      - destruct Hl; reflexivity.
      - unfold deliv. destruct mu, (Nat.eqb (S ff2) (List.length multi2)); reflexivity. }
    rewrite Hnb in H. inversion H; subst s'; clear H.
    rewrite fold_left_app.
    set (s1 := set_wire s (p_c2s s) rest0).
    destruct (b_cur s I r Eb) as (F&K1&K2&K3).
    destruct (lands_flags _ _ _ _ _ Hl) as (G1&G2&G3&G4).
    pose proof (lands_nth _ _ _ _ _ Hl) as Hnth. fold multi2 ff2 in Hnth.
    destruct (reply_lands s r c L I Eb EL) as (st2'&tk'&Hl'&Hdesc).
    assert (Est : st2' = st2 /\ tk' = tk).
    { destruct Hl as [A1 A2|sl rest A1 A2 A3]; destruct Hl' as [B1 B2|sl' rest' B1 B2 B3]; try lia; auto.
      rewrite A2 in B2. inversion B2; subst sl'. auto. }
    destruct Est as [-> ->].
    destruct Hcoh as (conf&rest&csd&csr&C1&C2&C3&C4&C5&C6).
    destruct Hdesc as [(D1&D2&D3&D4)|(sl&wr'&D1&D2&D3&D4&D5)].
    - (* the slot being filled *)
      subst tk st2. rewrite app_nil_l.
      assert (Hin : forallb inert (preA ++ preB) = true) by (rewrite forallb_app, HA, HB; reflexivity).
      rewrite (fold_inert _ _ _ _ Hin).
      assert (El : Nat.ltb (r_ff r) (List.length (r_multi r)) = true) by (apply Nat.ltb_lt; exact D3).
      rewrite El in K3. destruct K3 as (Q1&Q2&Q3&Q4).
      unfold deliv, m.
      apply (invb_deliver s1 _ o mu multi2 ff2 c); unfold s1; cbn [p_calls p_q p_s2c p_c2s p_wbuf set_wire]; auto.
      all: try solve [apply (b_rec s I) | apply (b_queue s I) | apply (b_nodup s I)].
      all: try solve [destruct F as (F1&F2&F3); repeat split; auto].
      all: try solve [exists conf, rest, csd, csr; repeat split; auto; rewrite <- C5; symmetry; exact D4].
    - (* the next written slot *)
      subst tk st2. cbn [set_slot r_ff r_resps r_multi r_owner] in *.
      rewrite fold_left_app. rewrite (fold_inert _ _ _ _ HA).
      cbn [fold_left app]. rewrite (fold_inert _ _ _ _ HB).
      assert (Ent : apply_act o mu s1 (ATakeNext true) = set_q s1 (mkQueue (q_cap (p_q s)) (q_pend (p_q s)) wr' true)).
      { unfold apply_act, q_next_result, s1. cbn [p_q set_wire]. rewrite D3. reflexivity. }
      rewrite Ent.
      assert (Hsl : In sl (q_pend (p_q s) ++ q_wr (p_q s))) by (apply in_or_app; right; rewrite D3; now left).
      destruct (b_queue s I sl Hsl) as [Hown Hres0].
      pose proof (b_nodup s I) as Nd. rewrite D3, map_app in Nd. cbn [map] in Nd.
      unfold deliv, m.
      apply (invb_deliver (set_q s1 (mkQueue (q_cap (p_q s)) (q_pend (p_q s)) wr' true)) _ o mu multi2 ff2 c);
        unfold s1; cbn [p_calls p_q p_s2c p_c2s p_wbuf set_wire set_q q_pend q_wr q_held]; auto.
      all: try solve [apply (b_rec s I)].
      all: try solve [intros sl' Hsl'; apply (b_queue s I); rewrite D3; apply in_app_or in Hsl' as [K|K]; apply in_or_app; [now left|right; now right]].
      all: try solve [rewrite map_app; eapply NoDup_remove_1; eauto].
      all: try solve [unfold o, mu, multi2; rewrite slot_eta; exact Hown].
      all: try solve [unfold o, ff2; rewrite Hres0; reflexivity].
      all: try solve [unfold o; rewrite map_app; eapply NoDup_remove_2; eauto].
      all: try solve [destruct F as (F1&F2&F3); repeat split; auto].
      all: try solve [exists conf, rest, csd, csr; repeat split; auto; rewrite <- C5; unfold ff2, multi2; symmetry; exact D5].
  Qed.

  Lemma apush_not_bad l : forallb is_apush l = true -> existsb is_bad l = false.
  Proof. intros H. apply inert_not_bad. now apply apush_inert. Qed.

  Lemma free_not_conf m : push_bg m = true -> sub_confirm r2ps m = true -> False.
  Proof.
    unfold push_bg, free_push, sub_confirm. intros H1 H2.
    apply andb_true_iff in H1 as [_ H1]. apply andb_true_iff in H2 as [H2 H3]. apply andb_true_iff in H2 as [_ H2].
    rewrite H2 in H1. cbn in H1. rewrite H1 in H3. discriminate.
  Qed.

  Lemma stepb_LRStep s s' : InvB s -> pstep g s LRStep = Some s' -> InvB s'.
  Proof.
    intros I H.
    destruct (p_b s) as [|r| | | |] eqn:Eb; try (cbn [pstep] in H; rewrite Eb in H; discriminate).
    destruct (p_s2c s) as [|f rest0] eqn:Es; [cbn [pstep] in H; rewrite Eb, Es in H; discriminate|].
    destruct (b_cur s I r Eb) as (F&K1&K2&K3).
    destruct (b_coh s I r Eb) as (conf&rest&csd&csr&E1&E2&E3&E4&E5&E6).
    rewrite Es in E1.
    destruct conf as [|f' conf'].
    - (* no confirmation pending *)
      cbn in E1, E2. subst rest.
      apply served_inv in E4 as [[P1 P2]|(c&csd'&tl&fs'&X1&X2&X3&X4)].
      + (* out-of-band push *)
        destruct (reader_step_free (g_r2ps g) (g_ver g) (hd_error (q_wr (p_q s))) r f P1 F ltac:(lia)) as (pa&Er&Hpa).
        cbn [pstep] in H. rewrite Eb, Es, Er in H. rewrite (apush_not_bad _ Hpa) in H.
        rewrite (fold_inert _ _ _ _ (apush_inert _ Hpa)) in H. inversion H; subst s'.
        apply (invb_rdr s r r rest0); auto.
        exists [], rest0, csd, csr. repeat split; auto.
      + (* the answer to command c *)
        subst csd. cbn [app] in E5.
        assert (Hcoh' : forall skip' conf2 rest2, rest0 = conf2 ++ rest2 -> Z.of_nat (List.length conf2) = skip' ->
                  forallb (sub_confirm r2ps) conf2 = true -> Served (map witem_of csd') rest2 ->
                  exists conf rest csdx csrx, rest0 = conf ++ rest /\ Z.of_nat (List.length conf) = skip' /\
                    forallb (sub_confirm r2ps) conf = true /\ Served (map witem_of csdx) rest /\
                    csd' ++ csr = csdx ++ csrx /\ map witem_of csrx = p_c2s s ++ p_wbuf s).
        { intros skip' conf2 rest2 A1 A2 A3 A4. exists conf2, rest2, csd', csr. repeat split; auto. }
        destruct (reply_lands s r c (csd' ++ csr) I Eb E5) as (st2&tk&Hl&_).
        destruct (kind_of_cmd c) as [Ku Kn Kw Kp Kr|Ku Kn Kw Kc Ka Kl Kr|Ku Kw Kp Ki Kq Kr].
        * (* ordinary reply *)
          rewrite Kw in X2. cbn in X2. inversion X2; subst f tl. cbn in X3. subst fs'.
          destruct (reader_step_normal (g_r2ps g) (g_ver g) Hver _ r _ c st2 tk F Kp Kn Ku Hl) as (pre&Er&Hpre).
          eapply (stepb_reply s r _ rest0 c (csd' ++ csr) st2 tk [] pre 0%Z); eauto.
          all: try lia.
          all: try solve [rewrite Er, Kr; f_equal; destruct (lands_flags _ _ _ _ _ Hl) as (_&_&_&G4);
                          rewrite <- (set_skip_id st2) at 1; f_equal; lia].
          all: try solve [apply (Hcoh' 0%Z [] rest0); auto].
        * (* first confirmation of a subscribe *)
          rewrite Kw in X2. cbn in X2.
          assert (Hf : sub_confirm r2ps f = true /\ forallb (sub_confirm r2ps) tl = true).
          { rewrite X2 in Kc. cbn in Kc. apply andb_true_iff in Kc. exact Kc. }
          destruct Hf as [Hf Htl].
          destruct (reader_step_sub (g_r2ps g) (g_ver g) _ r f c st2 tk F ltac:(lia) Hf Kn Hl) as (pre1&pre2&Er&Hp1&Hp2).
          assert (Hlen : (Z.of_nat (c_argc c) - 2 = Z.of_nat (List.length tl))%Z).
          { rewrite X2 in Ka. cbn in Ka. lia. }
          eapply (stepb_reply s r f rest0 c (csd' ++ csr) st2 tk pre1 pre2 (Z.of_nat (c_argc c) - 2)%Z); eauto.
          all: try lia.
          all: try solve [rewrite Er, Kr; reflexivity].
          all: try solve [apply (Hcoh' _ tl fs'); auto].
        * (* PONG of the PING written after an unsubscribe *)
          rewrite Kw in X2. cbn in X2. inversion X2; subst f tl. cbn in X3. subst fs'.
          destruct (reader_step_pong (g_r2ps g) (g_ver g) Hver _ r _ c st2 tk F Kp Ku Ki Kq Hl) as (pre&Er&Hpre).
          eapply (stepb_reply s r _ rest0 c (csd' ++ csr) st2 tk [] pre 0%Z); eauto.
          all: try lia.
          all: try solve [rewrite Er, Kr; f_equal; destruct (lands_flags _ _ _ _ _ Hl) as (_&_&_&G4);
                          rewrite <- (set_skip_id st2) at 1; f_equal; lia].
          all: try solve [apply (Hcoh' 0%Z [] rest0); auto].
    - (* a further confirmation of the subscribe being answered *)
      cbn [app] in E1. inversion E1; subst f' rest0. cbn [forallb] in E3. apply andb_true_iff in E3 as [Hf Htl].
      cbn [List.length] in E2.
      destruct (reader_step_conf (g_r2ps g) (g_ver g) (hd_error (q_wr (p_q s))) r f Hf F ltac:(lia)) as (pa&Er&Hpa).
      cbn [pstep] in H. rewrite Eb, Es, Er in H. rewrite (apush_not_bad _ Hpa) in H.
      rewrite (fold_inert _ _ _ _ (apush_inert _ Hpa)) in H. inversion H; subst s'.
      destruct F as (F1&F2&F3).
      apply (invb_rdr s r (set_skip r (r_skip r - 1)%Z) (conf' ++ rest)); auto.
      + repeat split; auto.
      + cbn. lia.
      + exists conf', rest, csd, csr. repeat split; auto. cbn. lia.
  Qed.

  (** ** all steps *)
  Lemma rec_ok_idle : rec_ok c_idle.
  Proof.
    rec7.
    - intros K. exfalso. apply K. reflexivity.
    - exists 0%nat, []. reflexivity.
    - intros [K|[K|[K|[[b K]|K]]]]; discriminate.
    - intros r K. discriminate.
    - intros K. discriminate.
    - exact Logic.I.
    - intros K. exfalso. apply K. reflexivity.
  Qed.

  Lemma invb_init : InvB (p_init g).
  Proof.
    constructor; cbn.
    - intros t. apply rec_ok_idle.
    - intros _. repeat split; reflexivity.
    - intros _. reflexivity.
    - intros sl [].
    - constructor.
    - intros r K. discriminate.
    - intros r K. discriminate.
    - intros _. split.
      + intros _. split; [reflexivity|constructor].
      + intros t k K. discriminate.
  Qed.

  Theorem invb_step s l s' : InvA s -> InvB s -> pstep g s l = Some s' -> InvB s'.
  Proof.
    intros IA I H. destruct l.
    - eapply stepb_LCall; eauto.
    - eapply stepb_LIncr; eauto.
    - eapply stepb_LLoad; eauto.
    - eapply stepb_LBg; eauto.
    - eapply stepb_LSyncW; eauto.
    - eapply stepb_LSyncR; eauto.
    - eapply stepb_LSyncFail; eauto.
    - eapply stepb_LErr; eauto.
    - eapply stepb_LDecr; eauto.
    - eapply stepb_LBgAfter; eauto.
    - eapply stepb_LPut; eauto.
    - eapply stepb_LPutFail; eauto.
    - eapply stepb_LRecv; eauto.
    - eapply stepb_LAbort; eauto.
    - eapply stepb_LFin; eauto.
    - eapply stepb_LDrainRecv; eauto.
    - eapply stepb_LDrainFin; eauto.
    - eapply stepb_LCtxDone; eauto.
    - eapply stepb_LWNext; eauto.
    - eapply stepb_LWFlush; eauto.
    - eapply stepb_blind; eauto; constructor.
    - eapply stepb_LSrv; eauto.
    - eapply stepb_LSrvPush; eauto.
    - eapply stepb_LRStep; eauto.
    - eapply stepb_LRFail; eauto.
    - eapply stepb_blind; eauto; constructor.
    - eapply stepb_LPostPing; eauto.
    - eapply stepb_LCleanNW; eauto.
    - eapply stepb_LCleanNR; eauto.
    - eapply stepb_blind; eauto; constructor.
    - eapply stepb_blind; eauto; constructor.
    - eapply stepb_blind; eauto; constructor.
    - eapply stepb_blind; eauto; constructor.
    - eapply stepb_blind; eauto; constructor.
    - eapply stepb_blind; eauto; constructor.
    - eapply stepb_blind; eauto; constructor.
    - eapply stepb_LClose3; eauto.
    - eapply stepb_LClose4; eauto.
    - eapply stepb_blind; eauto; constructor.
    - eapply stepb_blind; eauto; constructor.
  Qed.


  Theorem inv_run sched : forall s s', InvA s -> InvB s -> prun g sched s = Some s' -> InvA s' /\ InvB s'.
  Proof.
    induction sched as [|l r IH]; intros s s' IA IB H; cbn [prun] in H.
    - inversion H; subst; auto.
    - destruct (pstep g s l) as [s1|] eqn:E; [|discriminate]. eapply IH; [| |exact H].
      + eapply inva_step; eauto.
      + eapply invb_step; eauto.
  Qed.

  Theorem inv_reach sched s : prun g sched (p_init g) = Some s -> InvA s /\ InvB s.
  Proof. intros H. eapply inv_run; [apply inva_init|apply invb_init|exact H]. Qed.

  (** * C01_routing *)
  Lemma reals_prefix_all c k : (List.length (k_cmds c) <= k)%nat -> reals c k = map RMsg (map (result_of sv) (k_cmds c)).
  Proof. intros H. unfold reals. now rewrite firstn_all2. Qed.

  Theorem routing sched s t :
    prun g sched (p_init g) = Some s ->
    (exists k es, k_res (p_calls s t) = map RMsg (map (result_of sv) (firstn k (k_cmds (p_calls s t)))) ++ map RErr es) /\
    (forall r, k_ret (p_calls s t) = Some r -> (forall x, In x r -> exists m, x = RMsg m) ->
               k_cmds (p_calls s t) <> [] ->
               r = map RMsg (map (result_of sv) (k_cmds (p_calls s t)))).
  Proof.
    intros H. destruct (inv_reach sched s H) as [IA IB].
    destruct (b_rec s IB t) as (W&R1&Cm&R2&Sy&Fr&Rt). split; [exact R1|].
    intros r Hr Hall Hne. destruct (R2 r Hr) as [K|[K1 K2]].
    - exfalso. subst r. unfold errs_for in Hall. destruct (k_cmds (p_calls s t)) as [|c0 cs]; [contradiction|].
      destruct (Hall (RErr ECtx)) as [m Hm]; [now left|discriminate].
    - subst r. destruct R1 as (k&es&E). unfold full in K2.
      destruct es as [|e es].
      + cbn in E. rewrite app_nil_r in E. rewrite E. rewrite E in K2.
        unfold reals in K2. rewrite !map_length, firstn_length in K2.
        apply (reals_prefix_all (p_calls s t) k). lia.
      + exfalso. destruct (Hall (RErr e)) as [m Hm]; [|discriminate].
        rewrite E. apply in_or_app. right. now left.
  Qed.

  (** ** what one reader step does to the delivery log, the queue and the reader's position *)
  Lemma fold_deliver_dlog o mu last ff m s :
    (mu = true \/ last = true) ->
    p_dlog (fold_left (apply_act o mu) ((if mu then [AStore ff m] else []) ++ (if last then [AComplete m] else [])) s) =
    p_dlog s ++ [(o, (if mu then ff else 0%nat), m)].
  Proof. intros H. destruct mu, last; cbn; try reflexivity. destruct H; discriminate. Qed.

  Definition step_effect (s s' : pstate) (r r' : rstate) : Prop :=
    q_pend (p_q s') = q_pend (p_q s) /\ p_wlog s' = p_wlog s /\
    (forall t, k_pc (p_calls s' t) = k_pc (p_calls s t) /\ k_drain (p_calls s' t) = k_drain (p_calls s t)) /\
    (forall t, k_comp (p_calls s' t) = false -> k_comp (p_calls s t) = false) /\
    ((p_dlog s' = p_dlog s /\ q_wr (p_q s') = q_wr (p_q s) /\ r_owner r' = r_owner r /\ r_multi r' = r_multi r /\ r_ff r' = r_ff r) \/
     (exists c L,
         skipn (r_ff r) (r_multi r) ++ flat_map s_cmds (q_wr (p_q s)) = c :: L /\
         p_dlog s' = p_dlog s ++ [(r_owner r', pred (r_ff r'), result_of sv c)] /\
         skipn (r_ff r') (r_multi r') ++ flat_map s_cmds (q_wr (p_q s')) = L /\
         ((q_wr (p_q s') = q_wr (p_q s) /\ r_owner r' = r_owner r /\ r_multi r' = r_multi r /\ r_ff r' = S (r_ff r) /\
           (r_ff r < List.length (r_multi r))%nat) \/
          (exists sl, q_wr (p_q s) = sl :: q_wr (p_q s') /\ r_owner r' = s_owner sl /\ r_multi r' = s_cmds sl /\ r_ff r' = 1%nat /\
                      r_ff r = List.length (r_multi r))) /\
         (r_ff r' = List.length (r_multi r') -> k_comp (p_calls s' (r_owner r')) = true))).

  Lemma reply_effect s r f rest0 c L st2 tk preA preB skip' s' :
    InvB s -> p_b s = BRead r -> p_s2c s = f :: rest0 ->
    skipn (r_ff r) (r_multi r) ++ flat_map s_cmds (q_wr (p_q s)) = c :: L ->
    lands (hd_error (q_wr (p_q s))) r c st2 tk ->
    forallb inert preA = true -> forallb inert preB = true ->
    reader_step (g_r2ps g) (g_ver g) (hd_error (q_wr (p_q s))) r f =
      rd_store (set_skip st2 skip') (preA ++ tk ++ preB) (result_of sv c) ->
    pstep g s LRStep = Some s' ->
    exists r', p_b s' = BRead r' /\ step_effect s s' r r'.
  Proof.
    intros I Eb Es EL Hl HA HB Er H.
    cbn [pstep] in H. rewrite Eb, Es, Er, rd_store_acts in H.
    cbn [r_ff r_resps r_multi r_owner set_ff set_skip] in H.
    set (m := result_of sv c) in *.
    set (ff2 := r_ff st2) in *. set (mu := r_resps st2) in *. set (multi2 := r_multi st2) in *. set (o := r_owner st2) in *.
    set (last := Nat.eqb (S ff2) (List.length multi2)) in *.
    set (deliv := (if mu then [AStore ff2 m] else []) ++ (if last then [AComplete m] else [])) in *.
    assert (Hnb : existsb is_bad ((preA ++ tk ++ preB) ++ deliv) = false).
    { apply existsb_app_false; [apply existsb_app_false; [now apply inert_not_bad|apply existsb_app_false; [|now apply inert_not_bad]]|].
      - destruct Hl; reflexivity.
      - unfold deliv. destruct mu, last; reflexivity. }
    rewrite Hnb in H. inversion H; subst s'; clear H.
    rewrite fold_left_app.
    set (s1 := set_wire s (p_c2s s) rest0).
    destruct (b_cur s I r Eb) as (F&K1&K2&K3).
    pose proof (lands_nth _ _ _ _ _ Hl) as Hnth. fold multi2 ff2 in Hnth.
    assert (Hlt : (ff2 < List.length multi2)%nat) by (apply nth_error_Some; congruence).
    destruct (reply_lands s r c L I Eb EL) as (st2'&tk'&Hl'&Hdesc).
    assert (Est : st2' = st2 /\ tk' = tk).
    { destruct Hl as [A1 A2|sl rest A1 A2 A3]; destruct Hl' as [B1 B2|sl' rest' B1 B2 B3]; try lia; auto.
      rewrite A2 in B2. inversion B2; subst sl'. auto. }
    destruct Est as [-> ->].
    (* the record of the owner *)
    assert (Hown : exists sT, sT = fold_left (apply_act o mu) (preA ++ tk ++ preB) s1 /\
                     p_calls sT = p_calls s /\ p_dlog sT = p_dlog s /\ q_pend (p_q sT) = q_pend (p_q s) /\
                     p_wlog sT = p_wlog s /\
                     owner_ok (mkSlot o mu multi2) (p_calls s o) /\
                     q_wr (p_q sT) = match tk with [] => q_wr (p_q s) | _ => tl (q_wr (p_q s)) end).
    { destruct Hdesc as [(D1&D2&D3&D4)|(sl&wr'&D1&D2&D3&D4&D5)].
      - subst tk st2. exists s1. rewrite app_nil_l.
        assert (Hin : forallb inert (preA ++ preB) = true) by (rewrite forallb_app, HA, HB; reflexivity).
        rewrite (fold_inert _ _ _ _ Hin).
        assert (El : Nat.ltb (r_ff r) (List.length (r_multi r)) = true) by (apply Nat.ltb_lt; exact D3).
        rewrite El in K3. destruct K3 as (_&Q2&_).
        split; [reflexivity|split; [reflexivity|split; [reflexivity|split; [reflexivity|split; [reflexivity|split; [exact Q2|reflexivity]]]]]].
      - subst tk st2. cbn [set_slot r_ff r_resps r_multi r_owner] in *.
        exists (set_q s1 (mkQueue (q_cap (p_q s)) (q_pend (p_q s)) wr' true)).
        rewrite fold_left_app, (fold_inert _ _ _ _ HA). cbn [fold_left app]. rewrite (fold_inert _ _ _ _ HB).
        assert (Ent : apply_act o mu s1 (ATakeNext true) = set_q s1 (mkQueue (q_cap (p_q s)) (q_pend (p_q s)) wr' true)).
        { unfold apply_act, q_next_result, s1. cbn [p_q set_wire]. rewrite D3. reflexivity. }
        rewrite Ent.
        assert (Hsl : In sl (q_pend (p_q s) ++ q_wr (p_q s))) by (apply in_or_app; right; rewrite D3; now left).
        destruct (b_queue s I sl Hsl) as [Ho _].
        split; [reflexivity|split; [reflexivity|split; [reflexivity|split; [reflexivity|split; [reflexivity|split]]]]].
        + unfold o, mu, multi2. rewrite slot_eta. exact Ho.
        + cbn. now rewrite D3. }
    destruct Hown as (sT&EsT&Tc&Td&Tp&Tw&Ho&Twr).
    rewrite <- EsT.
    destruct Ho as (O1&O2&O3&O4). cbn in O1, O2.
    destruct (b_rec s I o) as (W&_).
    assert (Hpc : k_pc (p_calls s o) <> PIdle) by (destruct O4 as [K|[K _]]; rewrite K; discriminate).
    destruct (W Hpc) as (W1&W2&W3).
    assert (Hml : mu = true \/ last = true).
    { destruct W3 as [W3|W3]; [left; congruence|right]. unfold last. apply Nat.eqb_eq. rewrite <- O2 in W3. lia. }
    pose proof (fold_deliver_spec o mu last ff2 m sT Hml) as Hspec. cbn zeta in Hspec. fold deliv in Hspec.
    destruct Hspec as (Dq&Do&Dt).
    pose proof (fold_deliver_dlog o mu last ff2 m sT Hml) as Hdl. fold deliv in Hdl.
    pose proof (fold_apply_same_ctl o mu deliv sT) as Hctl.
    destruct Hctl as (a1&a2&a3&a4&a5&a6&a7&a8&a9&a10&a11&a12&a13&a14&a15&a16&a17&a18).
    pose proof (fold_apply_same_ctl o mu (preA ++ tk ++ preB) s1) as Hctl1. rewrite <- EsT in Hctl1.
    destruct Hctl1 as (_&_&_&_&_&_&_&_&_&_&_&_&_&_&_&_&_&b18).
    assert (Hidx : (if mu then ff2 else 0%nat) = ff2).
    { destruct mu eqn:Em; [reflexivity|]. destruct W3 as [W3|W3]; [congruence|]. rewrite <- O2 in W3. lia. }
    eexists. split; [reflexivity|].
    unfold step_effect. cbn [p_q p_wlog p_calls p_dlog set_b r_owner r_multi r_ff set_ff set_skip].
    split; [rewrite Dq; destruct last; cbn; exact Tp|].
    split; [rewrite a16; exact Tw|].
    split.
    { intros t. destruct (a18 t) as (c1&c2&_). destruct (b18 t) as (d1&d2&_). cbn in d1, d2. split; congruence. }
    split.
    { intros t Ht. destruct (N.eq_dec t o) as [->|Nt].
      - rewrite <- Tc. rewrite Dt in Ht. destruct last; cbn in Ht; [discriminate|]. rewrite Tc. exact O3.
      - rewrite Do in Ht by assumption. now rewrite <- Tc. }
    right. exists c, L. split; [exact EL|].
    split; [rewrite Hdl, Td, Hidx; reflexivity|].
    assert (Hwr' : q_wr (p_q (fold_left (apply_act o mu) deliv sT)) = q_wr (p_q sT)) by (rewrite Dq; destruct last; reflexivity).
    rewrite Hwr', Twr.
    destruct Hdesc as [(D1&D2&D3&D4)|(sl&wr'&D1&D2&D3&D4&D5)].
    - subst tk st2. split; [symmetry; exact D4|]. split.
      + left. repeat split; auto.
      + intros Hfull. assert (El : last = true) by (unfold last; apply Nat.eqb_eq; exact Hfull).
        rewrite El in Dt. change (k_comp (p_calls (fold_left (apply_act o mu) deliv sT) o) = true). rewrite Dt. reflexivity.
    - subst tk st2. cbn [set_slot r_ff r_resps r_multi r_owner] in *. rewrite D3. cbn [tl].
      split; [symmetry; exact D5|]. split.
      + right. exists sl. repeat split; auto.
      + intros Hfull. assert (El : last = true) by (unfold last; apply Nat.eqb_eq; exact Hfull).
        rewrite El in Dt. change (k_comp (p_calls (fold_left (apply_act o mu) deliv sT) o) = true). rewrite Dt. reflexivity.
  Qed.

  Lemma quiet_effect s r r' rest0 :
    p_b s = BRead r -> r_owner r' = r_owner r -> r_multi r' = r_multi r -> r_ff r' = r_ff r ->
    step_effect s (set_b (set_wire s (p_c2s s) rest0) (BRead r')) r r'.
  Proof.
    intros Eb e1 e2 e3. unfold step_effect; cbn. repeat split; auto. left. repeat split; auto.
  Qed.

  Theorem rstep_effect s s' :
    InvB s -> pstep g s LRStep = Some s' ->
    exists r r', p_b s = BRead r /\ p_b s' = BRead r' /\ step_effect s s' r r'.
  Proof.
    intros I H.
    destruct (p_b s) as [|r| | | |] eqn:Eb; try (cbn [pstep] in H; rewrite Eb in H; discriminate).
    destruct (p_s2c s) as [|f rest0] eqn:Es; [cbn [pstep] in H; rewrite Eb, Es in H; discriminate|].
    destruct (b_cur s I r Eb) as (F&K1&K2&K3).
    destruct (b_coh s I r Eb) as (conf&rest&csd&csr&E1&E2&E3&E4&E5&E6).
    rewrite Es in E1. exists r.
    destruct conf as [|f' conf'].
    - cbn in E1, E2. subst rest.
      apply served_inv in E4 as [[P1 P2]|(c&csd'&tl&fs'&X1&X2&X3&X4)].
      + destruct (reader_step_free (g_r2ps g) (g_ver g) (hd_error (q_wr (p_q s))) r f P1 F ltac:(lia)) as (pa&Er&Hpa).
        cbn [pstep] in H. rewrite Eb, Es, Er in H. rewrite (apush_not_bad _ Hpa) in H.
        rewrite (fold_inert _ _ _ _ (apush_inert _ Hpa)) in H. inversion H; subst s'.
        exists r. split; [reflexivity|split; [reflexivity|]]. apply quiet_effect; auto.
      + subst csd. cbn [app] in E5.
        destruct (reply_lands s r c (csd' ++ csr) I Eb E5) as (st2&tk&Hl&_).
        destruct (kind_of_cmd c) as [Ku Kn Kw Kp Kr|Ku Kn Kw Kc Ka Kl Kr|Ku Kw Kp Ki Kq Kr].
        * rewrite Kw in X2. cbn in X2. inversion X2; subst f tl.
          destruct (reader_step_normal (g_r2ps g) (g_ver g) Hver _ r _ c st2 tk F Kp Kn Ku Hl) as (pre&Er&Hpre).
          destruct (reply_effect s r _ rest0 c (csd' ++ csr) st2 tk [] pre (r_skip st2) s' I Eb Es E5 Hl eq_refl Hpre) as (r'&Hb'&He); auto.
          { rewrite Er, Kr, set_skip_id. reflexivity. }
          exists r'. auto.
        * rewrite Kw in X2. cbn in X2.
          assert (Hf : sub_confirm r2ps f = true).
          { rewrite X2 in Kc. cbn in Kc. apply andb_true_iff in Kc. apply Kc. }
          destruct (reader_step_sub (g_r2ps g) (g_ver g) _ r f c st2 tk F ltac:(lia) Hf Kn Hl) as (pre1&pre2&Er&Hp1&Hp2).
          destruct (reply_effect s r f rest0 c (csd' ++ csr) st2 tk pre1 pre2 (Z.of_nat (c_argc c) - 2)%Z s' I Eb Es E5 Hl Hp1 Hp2) as (r'&Hb'&He); auto.
          { rewrite Er, Kr. reflexivity. }
          exists r'. auto.
        * rewrite Kw in X2. cbn in X2. inversion X2; subst f tl.
          destruct (reader_step_pong (g_r2ps g) (g_ver g) Hver _ r _ c st2 tk F Kp Ku Ki Kq Hl) as (pre&Er&Hpre).
          destruct (reply_effect s r _ rest0 c (csd' ++ csr) st2 tk [] pre (r_skip st2) s' I Eb Es E5 Hl eq_refl Hpre) as (r'&Hb'&He); auto.
          { rewrite Er, Kr, set_skip_id. reflexivity. }
          exists r'. auto.
    - cbn [app] in E1. inversion E1; subst f' rest0. cbn [forallb] in E3. apply andb_true_iff in E3 as [Hf Htl].
      cbn [List.length] in E2.
      destruct (reader_step_conf (g_r2ps g) (g_ver g) (hd_error (q_wr (p_q s))) r f Hf F ltac:(lia)) as (pa&Er&Hpa).
      cbn [pstep] in H. rewrite Eb, Es, Er in H. rewrite (apush_not_bad _ Hpa) in H.
      rewrite (fold_inert _ _ _ _ (apush_inert _ Hpa)) in H. inversion H; subst s'.
      exists (set_skip r (r_skip r - 1)%Z). split; [reflexivity|split; [reflexivity|]]. apply quiet_effect; auto.
  Qed.

  (** * the reader never hits `panic(protocolbug)` *)
  Lemma rstep_some s r f rest0 acts r' :
    p_b s = BRead r -> p_s2c s = f :: rest0 ->
    reader_step (g_r2ps g) (g_ver g) (hd_error (q_wr (p_q s))) r f = (r', acts) ->
    existsb is_bad acts = false -> exists s', pstep g s LRStep = Some s'.
  Proof. intros Eb Es Er Hb. cbn [pstep]. rewrite Eb, Es, Er, Hb. eauto. Qed.

  Lemma reply_acts_ok st3 preA tk preB m c st st2 next :
    lands next st c st2 tk -> forallb inert preA = true -> forallb inert preB = true ->
    existsb is_bad (snd (rd_store st3 (preA ++ tk ++ preB) m)) = false.
  Proof.
    intros Hl HA HB. rewrite rd_store_acts. cbn [snd].
    apply existsb_app_false; [apply existsb_app_false; [now apply inert_not_bad|apply existsb_app_false; [|now apply inert_not_bad]]|].
    - destruct Hl; reflexivity.
    - destruct (r_resps st3), (Nat.eqb (S (r_ff st3)) (List.length (r_multi st3))); reflexivity.
  Qed.

  Theorem rstep_enabled s r : InvB s -> p_b s = BRead r -> p_s2c s <> [] -> exists s', pstep g s LRStep = Some s'.
  Proof.
    intros I Eb Hne.
    destruct (p_s2c s) as [|f rest0] eqn:Es; [contradiction|].
    destruct (b_cur s I r Eb) as (F&K1&K2&K3).
    destruct (b_coh s I r Eb) as (conf&rest&csd&csr&E1&E2&E3&E4&E5&E6).
    rewrite Es in E1.
    destruct conf as [|f' conf'].
    - cbn in E1, E2. subst rest.
      apply served_inv in E4 as [[P1 P2]|(c&csd'&tl&fs'&X1&X2&X3&X4)].
      + destruct (reader_step_free (g_r2ps g) (g_ver g) (hd_error (q_wr (p_q s))) r f P1 F ltac:(lia)) as (pa&Er&Hpa).
        eapply rstep_some; eauto. now apply apush_not_bad.
      + subst csd. cbn [app] in E5.
        destruct (reply_lands s r c (csd' ++ csr) I Eb E5) as (st2&tk&Hl&_).
        destruct (kind_of_cmd c) as [Ku Kn Kw Kp Kr|Ku Kn Kw Kc Ka Kl Kr|Ku Kw Kp Ki Kq Kr].
        * rewrite Kw in X2. cbn in X2. inversion X2; subst f tl.
          destruct (reader_step_normal (g_r2ps g) (g_ver g) Hver _ r _ c st2 tk F Kp Kn Ku Hl) as (pre&Er&Hpre).
          destruct (rd_store st2 (tk ++ pre) (sv_reply sv c)) as [r' acts] eqn:Est.
          eapply rstep_some; eauto.
          pose proof (reply_acts_ok st2 [] tk pre (sv_reply sv c) c r st2 _ Hl eq_refl Hpre) as K. cbn [app] in K. rewrite Est in K. exact K.
        * rewrite Kw in X2. cbn in X2.
          assert (Hf : sub_confirm r2ps f = true).
          { rewrite X2 in Kc. cbn in Kc. apply andb_true_iff in Kc. apply Kc. }
          destruct (reader_step_sub (g_r2ps g) (g_ver g) _ r f c st2 tk F ltac:(lia) Hf Kn Hl) as (pre1&pre2&Er&Hp1&Hp2).
          destruct (rd_store (set_skip st2 (Z.of_nat (c_argc c) - 2)) (pre1 ++ tk ++ pre2) empty_msg) as [r' acts] eqn:Est.
          eapply rstep_some; eauto.
          pose proof (reply_acts_ok (set_skip st2 (Z.of_nat (c_argc c) - 2)) pre1 tk pre2 empty_msg c r st2 _ Hl Hp1 Hp2) as K. rewrite Est in K. exact K.
        * rewrite Kw in X2. cbn in X2. inversion X2; subst f tl.
          destruct (reader_step_pong (g_r2ps g) (g_ver g) Hver _ r _ c st2 tk F Kp Ku Ki Kq Hl) as (pre&Er&Hpre).
          destruct (rd_store st2 (tk ++ pre) (snd (is_unsub_reply (sv_pong sv c)))) as [r' acts] eqn:Est.
          eapply rstep_some; eauto.
          pose proof (reply_acts_ok st2 [] tk pre (snd (is_unsub_reply (sv_pong sv c))) c r st2 _ Hl eq_refl Hpre) as K. cbn [app] in K. rewrite Est in K. exact K.
    - cbn [app] in E1. inversion E1; subst f' rest0. cbn [forallb] in E3. apply andb_true_iff in E3 as [Hf Htl].
      cbn [List.length] in E2.
      destruct (reader_step_conf (g_r2ps g) (g_ver g) (hd_error (q_wr (p_q s))) r f Hf F ltac:(lia)) as (pa&Er&Hpa).
      eapply rstep_some; eauto. now apply apush_not_bad.
  Qed.
End Defs.
