(** Proofs for the lock model (Model/Lock.v): list plumbing, the mutual-exclusion invariant,
    cancel-before-release, loss => cancel, no lost wake-up at the gate. *)
From Coq Require Import List Arith NArith ZArith Bool Lia.
Require Import RV.Model.Base RV.Model.ListUpd RV.Proofs.ListUpdProofs RV.Model.Lock.
Import ListNotations.
Open Scope nat_scope.

Lemma length_repeat_n {A} (x : A) n : length (repeat_n x n) = n.
Proof. induction n; cbn; auto. Qed.

Lemma nth_error_repeat_n {A} (x : A) n i : i < n -> nth_error (repeat_n x n) i = Some x.
Proof. revert i. induction n; intros [|i] H; cbn; try lia; auto. apply IHn. lia. Qed.

(** ---- counting ---- *)

Lemma mon_eqb_eq x y : mon_eqb x y = true <-> x = y.
Proof. destruct x, y; cbn; split; congruence. Qed.

Lemma count_mon_upd z i x l y : nth_error l i = Some y ->
  count_mon z (upd i x l) + (if mon_eqb z y then 1 else 0) = count_mon z l + (if mon_eqb z x then 1 else 0).
Proof.
  revert i. induction l as [|w l IH]; intros [|i] H; cbn [nth_error upd count_mon] in *; try discriminate.
  - injection H as ->. lia.
  - specialize (IH i H). lia.
Qed.

Lemma count_mon_le_length z l : count_mon z l <= length l.
Proof. induction l as [|w l IH]; cbn [count_mon length]; [lia|]. destruct (mon_eqb z w); lia. Qed.

(** monitors that run sit on keys the attempt owns: so it owns at least as many keys as monitors run *)
Lemma count_run_le_owner a : forall mons keys,
  (forall i, nth_error mons i = Some MRun -> exists k, nth_error keys i = Some k /\ is_owner a k = true) ->
  count_mon MRun mons <= count_owner a keys.
Proof.
  induction mons as [|mo mons IH]; intros keys H; cbn [count_mon]; [lia|].
  destruct keys as [|k keys].
  - assert (IH' : count_mon MRun mons <= count_owner a []).
    { apply IH. intros i Hi. destruct (H (S i) Hi) as (k & Hk & _). cbn in Hk. destruct i; discriminate. }
    cbn [count_owner] in *.
    destruct mo; cbn [mon_eqb]; try lia.
    destruct (H 0 eq_refl) as (k & Hk & _). discriminate.
  - cbn [count_owner].
    assert (IH' : count_mon MRun mons <= count_owner a keys).
    { apply IH. intros i Hi. exact (H (S i) Hi). }
    destruct mo; cbn [mon_eqb]; try lia.
    destruct (H 0 eq_refl) as (k0 & Hk & Ho). cbn in Hk. injection Hk as <-. rewrite Ho. lia.
Qed.

(** two different attempts cannot own more keys together than there are *)
Lemma count_owner_disjoint a b keys : a <> b -> count_owner a keys + count_owner b keys <= length keys.
Proof.
  intros N. induction keys as [|k keys IH]; cbn [count_owner length]; [lia|].
  destruct k as [[o e]|]; cbn [is_owner].
  - destruct (Nat.eqb a o) eqn:Ea, (Nat.eqb b o) eqn:Eb; try lia.
    apply Nat.eqb_eq in Ea, Eb. congruence.
  - lia.
Qed.

(** ---- what the bookkeeping functions touch ---- *)

Fixpoint upd_range {A} (i n : nat) (x : A) (l : list A) : list A :=
  match n with O => l | S k => upd_range (S i) k x (upd i x l) end.

Lemma length_upd_range {A} n : forall i (x : A) l, length (upd_range i n x l) = length l.
Proof. induction n; intros; cbn [upd_range]; [reflexivity|]. rewrite IHn, length_upd. reflexivity. Qed.

Lemma nth_error_upd_range {A} n : forall i (x : A) l j,
  nth_error (upd_range i n x l) j =
  if (Nat.leb i j && Nat.ltb j (i + n) && Nat.ltb j (length l))%bool then Some x else nth_error l j.
Proof.
  induction n; intros i x l j; cbn [upd_range].
  - destruct (Nat.leb_spec i j), (Nat.ltb_spec j (i + 0)); cbn; try reflexivity; lia.
  - rewrite IHn, length_upd, nth_error_upd.
    destruct (Nat.leb_spec (S i) j), (Nat.ltb_spec j (S i + n)), (Nat.ltb_spec j (length l)), (Nat.leb_spec i j),
      (Nat.ltb_spec j (i + S n)), (Nat.eqb_spec i j), (Nat.ltb_spec i (length l)); cbn; try reflexivity; try lia.
    all: subst; symmetry; apply nth_error_None; lia.
Qed.

Lemma skip_rest_mon c n : forall t i, a_mon (skip_rest c t i n) = upd_range i n MExit (a_mon t).
Proof. induction n; intros; cbn [skip_rest upd_range]; [reflexivity|]. rewrite IHn. reflexivity. Qed.

Lemma skip_rest_fields c n : forall t i,
  let t' := skip_rest c t i n in
  a_force t' = a_force t /\ a_next t' = a_next t /\ a_acquired t' = a_acquired t /\ a_failures t' = a_failures t /\
  a_loop_done t' = a_loop_done t /\ a_ret t' = a_ret t /\ a_tm t' = a_tm t /\
  a_exiting t' = a_exiting t + n /\ a_released t' = a_released t + n /\
  (a_cancelled t = true -> a_cancelled t' = true).
Proof.
  induction n; intros t i; cbn [skip_rest].
  - cbv zeta. repeat split; auto; lia.
  - specialize (IHn (exit_notlocked c t i) (S i)). cbv zeta in *.
    destruct IHn as (H1 & H2 & H3 & H4 & H5 & H6 & H7 & H8 & H9 & H10).
    rewrite H1, H2, H3, H4, H5, H6, H7, H8, H9.
    unfold exit_notlocked, release, leave, set_mon; cbn.
    repeat split; auto; try lia.
    intros Hc. apply H10. unfold exit_notlocked, release, leave, set_mon; cbn. rewrite Hc. reflexivity.
Qed.

Lemma count_result_fields c t e :
  let t' := count_result c t e in
  a_force t' = a_force t /\ a_next t' = a_next t /\ a_ret t' = a_ret t /\ a_tm t' = a_tm t /\ a_mon t' = a_mon t /\
  a_exiting t' = a_exiting t /\ a_released t' = a_released t /\ a_cancelled t' = a_cancelled t.
Proof. unfold count_result. destruct (a_loop_done t); cbn; repeat split; reflexivity. Qed.

(** the counters of the loop: frozen once the loop is over; [acquired] grows only with a nil result *)
Lemma count_result_acquired c t e :
  a_acquired (count_result c t e) = if a_loop_done t then a_acquired t else
                                    match e with ENone => S (a_acquired t) | _ => a_acquired t end.
Proof. unfold count_result. destruct (a_loop_done t); reflexivity. Qed.

Lemma count_result_loop c t e :
  (a_loop_done t = true -> c_m c <= a_acquired t \/ c_m c <= a_failures t) ->
  a_loop_done (count_result c t e) = true ->
  c_m c <= a_acquired (count_result c t e) \/ c_m c <= a_failures (count_result c t e).
Proof.
  unfold count_result. destruct (a_loop_done t) eqn:L; [auto|].
  cbn. intros _ H. apply orb_true_iff in H. destruct H as [H|H]; apply Nat.leb_le in H; auto.
Qed.

(** ---- the mutual-exclusion invariant ---- *)

Record att_inv (c : cfg) (keys : list (option (nat * Z))) (a : nat) (t : attempt) : Prop := {
  ai_len : length (a_mon t) = nkeys c;
  ai_own : forall i, nth_error (a_mon t) i = Some MRun -> exists e, nth_error keys i = Some (Some (a, e));
  ai_run : a_cancelled t = false -> a_acquired t <= count_mon MRun (a_mon t);
  ai_held : a_ret t = RHeld -> c_m c <= a_acquired t;
  ai_noforce : a_force t = false;
  ai_next : forall j, a_next t <= j -> j < nkeys c -> nth_error (a_mon t) j = Some MNone;
  ai_loop : a_loop_done t = true -> c_m c <= a_acquired t \/ c_m c <= a_failures t }.

Definition inv (c : cfg) (s : state) : Prop :=
  length (s_keys s) = nkeys c /\
  forall a t, nth_error (s_att s) a = Some t -> att_inv c (s_keys s) a t.

Lemma inv_init c now : inv c (init c now).
Proof.
  split; [apply length_repeat_n|]. intros a t H. cbn in H. destruct a; discriminate.
Qed.

Lemma att_inv_new c keys a : att_inv c keys a (new_attempt c false).
Proof.
  constructor; cbn [new_attempt a_mon a_cancelled a_acquired a_ret a_force a_next a_loop_done a_failures].
  - apply length_repeat_n.
  - intros i H. destruct (Nat.ltb_spec i (nkeys c)) as [L|L].
    + rewrite nth_error_repeat_n in H by exact L. discriminate.
    + assert (E : nth_error (repeat_n MNone (nkeys c)) i = None) by (apply nth_error_None; rewrite length_repeat_n; exact L).
      rewrite E in H. discriminate.
  - lia.
  - discriminate.
  - reflexivity.
  - intros j _ L. apply nth_error_repeat_n, L.
  - discriminate.
Qed.

(** other attempts are not disturbed when the acting attempt's step leaves their keys alone *)
Lemma att_inv_frame c keys i k' b t :
  att_inv c keys b t ->
  (forall e, nth_error keys i = Some (Some (b, e)) -> k' = Some (b, e)) ->
  att_inv c (upd i k' keys) b t.
Proof.
  intros [H1 H2 H3 H4 H5 H6 H7] Hk. constructor; auto.
  intros j Hj. destruct (H2 j Hj) as (e & He).
  destruct (Nat.eq_dec i j) as [->|N].
  - exists e. rewrite nth_error_upd_same by (eapply nth_error_lt; eauto). f_equal. apply Hk, He.
  - exists e. rewrite nth_error_upd_other by exact N. exact He.
Qed.

Lemma att_inv_keys_ext c keys keys' a t :
  att_inv c keys a t ->
  (forall i e, nth_error (a_mon t) i = Some MRun -> nth_error keys i = Some (Some (a, e)) -> exists e', nth_error keys' i = Some (Some (a, e'))) ->
  att_inv c keys' a t.
Proof.
  intros [H1 H2 H3 H4 H5 H6 H7] Hk. constructor; auto.
  intros j Hj. destruct (H2 j Hj) as (e & He). eapply Hk; eauto.
Qed.

Lemma inv_update_att c s a t t' :
  inv c s -> nth_error (s_att s) a = Some t -> att_inv c (s_keys s) a t' -> inv c (with_att s a t').
Proof.
  intros [HL HA] Ha Ht'. split; [exact HL|]. cbn [with_att s_att s_keys].
  intros b tb Hb. rewrite nth_error_upd in Hb.
  destruct (Nat.eqb_spec a b) as [->|N].
  - destruct (Nat.ltb b (length (s_att s))); try discriminate; injection Hb as <-; exact Ht'.
  - apply HA, Hb.
Qed.

Lemma inv_update c s a t t' i k' :
  inv c s -> nth_error (s_att s) a = Some t ->
  att_inv c (upd i k' (s_keys s)) a t' ->
  (forall b e, b <> a -> nth_error (s_keys s) i = Some (Some (b, e)) -> k' = Some (b, e)) ->
  inv c (with_key_att s i k' a t').
Proof.
  intros [HL HA] Ha Ht' Hk. split; [cbn; rewrite length_upd; exact HL|]. cbn [with_key_att s_att s_keys].
  intros b tb Hb. rewrite nth_error_upd in Hb.
  destruct (Nat.eqb_spec a b) as [->|N].
  - destruct (Nat.ltb b (length (s_att s))); try discriminate; injection Hb as <-; exact Ht'.
  - apply att_inv_frame; [apply HA, Hb|]. intros e He. apply (Hk b e); [congruence|exact He].
Qed.

(** a step that removes or keeps keys but never changes an owner *)
Lemma inv_update_keys c s keys' :
  inv c s -> length keys' = nkeys c ->
  (forall a t i e, nth_error (s_att s) a = Some t -> nth_error (a_mon t) i = Some MRun ->
                   nth_error (s_keys s) i = Some (Some (a, e)) -> exists e', nth_error keys' i = Some (Some (a, e'))) ->
  inv c {| s_now := s_now s; s_keys := keys'; s_att := s_att s |}.
Proof.
  intros [HL HA] HL' Hk. split; [exact HL'|]. cbn [s_att s_keys].
  intros a t Ha. eapply att_inv_keys_ext; [apply HA, Ha|]. intros i e Hm He. eapply Hk; eauto.
Qed.

(** steps that leave the monitors and the loop counters of the attempt alone *)
Lemma att_inv_same_mon c keys a t t' :
  att_inv c keys a t ->
  a_mon t' = a_mon t -> a_acquired t' = a_acquired t -> a_force t' = a_force t -> a_next t' = a_next t ->
  a_loop_done t' = a_loop_done t -> a_failures t' = a_failures t ->
  (a_cancelled t' = false -> a_cancelled t = false) ->
  (a_ret t' = RHeld -> a_ret t = RHeld \/ c_m c <= a_acquired t) ->
  att_inv c keys a t'.
Proof.
  intros [H1 H2 H3 H4 H5 H6 H7] Em Ea Ef En El Efl Hc Hr.
  constructor; rewrite ?Em, ?Ea, ?Ef, ?En, ?El, ?Efl; auto.
  intros Hh. destruct (Hr Hh); auto.
Qed.

Lemma is_owner_true a k : is_owner a k = true -> exists e, k = Some (a, e).
Proof. destruct k as [[b e]|]; cbn; [|discriminate]. intros H. apply Nat.eqb_eq in H. subst. eauto. Qed.

Lemma is_owner_same a e : is_owner a (Some (a, e)) = true.
Proof. cbn. apply Nat.eqb_refl. Qed.

Lemma put_future now a exp : (now < exp)%Z -> put now a exp = Some (a, exp).
Proof. intros H. unfold put. destruct (exp <=? now)%Z eqn:E; [lia|reflexivity]. Qed.

(** acquire answered nil on key i = a_next: the monitor starts running on a key that now carries a *)
Lemma att_inv_acquire_ok c keys a t exp i :
  att_inv c keys a t -> i = a_next t -> i < nkeys c -> length keys = nkeys c ->
  att_inv c (upd i (Some (a, exp)) keys) a (set_next (set_mon (count_result c t ENone) i MRun) (S i)).
Proof.
  intros [H1 H2 H3 H4 H5 H6 H7] -> Hi HL.
  destruct (count_result_fields c t ENone) as (F1 & F2 & F3 & F4 & F5 & F6 & F7 & F8).
  pose proof (count_result_acquired c t ENone) as FA.
  pose proof (H6 (a_next t) (le_n _) Hi) as Hnone.
  constructor; cbn [set_next set_mon a_mon a_cancelled a_acquired a_ret a_force a_next a_loop_done a_failures]; rewrite ?F5.
  - rewrite length_upd. exact H1.
  - intros j Hj. rewrite nth_error_upd in Hj. rewrite nth_error_upd.
    destruct (Nat.eqb_spec (a_next t) j) as [E|N]; [subst j|].
    + rewrite HL. replace (Nat.ltb (a_next t) (nkeys c)) with true by (symmetry; apply Nat.ltb_lt; exact Hi). eauto.
    + apply H2, Hj.
  - rewrite F8. intros Hc. specialize (H3 Hc). rewrite FA.
    pose proof (count_mon_upd MRun (a_next t) MRun (a_mon t) MNone Hnone) as Hcnt. cbn [mon_eqb] in Hcnt.
    destruct (a_loop_done t); lia.
  - rewrite F3. intros Hh. specialize (H4 Hh). rewrite FA. destruct (a_loop_done t); lia.
  - rewrite F1. exact H5.
  - intros j Hj Hk. rewrite nth_error_upd_other by lia. apply H6; lia.
  - apply count_result_loop. exact H7.
Qed.

(** acquire failed otherwise: the monitor goes straight to its delete script *)
Lemma att_inv_acquire_err c keys a t i :
  att_inv c keys a t -> i = a_next t -> i < nkeys c ->
  att_inv c keys a (set_next (leave c (set_mon (count_result c t EOther) i MDel)) (S i)).
Proof.
  intros [H1 H2 H3 H4 H5 H6 H7] -> Hi.
  destruct (count_result_fields c t EOther) as (F1 & F2 & F3 & F4 & F5 & F6 & F7 & F8).
  pose proof (count_result_acquired c t EOther) as FA.
  pose proof (H6 (a_next t) (le_n _) Hi) as Hnone.
  constructor; cbn [set_next leave set_mon a_mon a_cancelled a_acquired a_ret a_force a_next a_loop_done a_failures]; rewrite ?F5.
  - rewrite length_upd. exact H1.
  - intros j Hj. rewrite nth_error_upd in Hj.
    destruct (Nat.eqb_spec (a_next t) j) as [E|N]; [subst j|].
    + destruct (Nat.ltb (a_next t) (length (a_mon t))); discriminate.
    + apply H2, Hj.
  - rewrite F8. intros Hc. apply orb_false_iff in Hc as [Hc _]. specialize (H3 Hc). rewrite FA.
    pose proof (count_mon_upd MRun (a_next t) MDel (a_mon t) MNone Hnone) as Hcnt. cbn [mon_eqb] in Hcnt.
    destruct (a_loop_done t); lia.
  - rewrite F3. intros Hh. specialize (H4 Hh). rewrite FA. destruct (a_loop_done t); lia.
  - rewrite F1. exact H5.
  - intros j Hj Hk. rewrite nth_error_upd_other by lia. apply H6; lia.
  - apply count_result_loop. exact H7.
Qed.

(** acquire answered "held by others": that monitor and all later ones exit at once *)
Lemma att_inv_acquire_notlocked c keys a t i :
  att_inv c keys a t -> i = a_next t -> i < nkeys c ->
  att_inv c keys a (set_next (skip_rest c (count_result c t ENotLocked) i (nkeys c - i)) (nkeys c)).
Proof.
  intros [H1 H2 H3 H4 H5 H6 H7] -> Hi.
  destruct (count_result_fields c t ENotLocked) as (F1 & F2 & F3 & F4 & F5 & F6 & F7 & F8).
  pose proof (count_result_acquired c t ENotLocked) as FA.
  destruct (skip_rest_fields c (nkeys c - a_next t) (count_result c t ENotLocked) (a_next t))
    as (S1 & S2 & S3 & S4 & S5 & S6 & S7 & S8 & S9 & S10).
  assert (Hmon : forall j, nth_error (a_mon (skip_rest c (count_result c t ENotLocked) (a_next t) (nkeys c - a_next t))) j =
                           if Nat.leb (a_next t) j && Nat.ltb j (nkeys c) then Some MExit else nth_error (a_mon t) j).
  { intros j. rewrite skip_rest_mon, nth_error_upd_range, F5, H1.
    replace (a_next t + (nkeys c - a_next t)) with (nkeys c) by lia.
    destruct (Nat.leb (a_next t) j), (Nat.ltb j (nkeys c)); reflexivity. }
  constructor; cbn [set_next a_mon a_cancelled a_acquired a_ret a_force a_next a_loop_done a_failures].
  - rewrite skip_rest_mon, length_upd_range, F5. exact H1.
  - intros j Hj. rewrite Hmon in Hj.
    destruct (Nat.leb (a_next t) j && Nat.ltb j (nkeys c)); [discriminate|]. apply H2, Hj.
  - intros Hc. rewrite S3, FA.
    assert (Hc0 : a_cancelled t = false).
    { destruct (a_cancelled t) eqn:E; [|reflexivity]. rewrite S10 in Hc; [discriminate|]. exact F8. }
    specialize (H3 Hc0).
    assert (Hcount : count_mon MRun (a_mon t) <= count_mon MRun (a_mon (skip_rest c (count_result c t ENotLocked) (a_next t) (nkeys c - a_next t)))).
    { (* positions a_next .. were MNone, so no running monitor is touched *)
      clear -Hmon H6 H1.
      set (l' := a_mon (skip_rest c (count_result c t ENotLocked) (a_next t) (nkeys c - a_next t))) in *.
      assert (Hlen : length l' = length (a_mon t)).
      { subst l'. rewrite skip_rest_mon, length_upd_range. destruct (count_result_fields c t ENotLocked) as (_ & _ & _ & _ & F5 & _). rewrite F5. reflexivity. }
      assert (Hpt : forall j, nth_error (a_mon t) j = Some MRun -> nth_error l' j = Some MRun).
      { intros j Hj. rewrite Hmon.
        destruct (Nat.leb_spec (a_next t) j), (Nat.ltb_spec j (nkeys c)); cbn [andb]; try exact Hj.
        rewrite H6 in Hj by lia. discriminate. }
      clear Hmon. clearbody l'. revert l' Hlen Hpt. generalize (a_mon t). clear.
      induction l as [|x l IH]; intros [|y l'] Hlen Hpt; cbn [count_mon length] in *; try lia.
      assert (IH' : count_mon MRun l <= count_mon MRun l').
      { apply IH; [lia|]. intros j Hj. exact (Hpt (S j) Hj). }
      destruct x; cbn [mon_eqb]; try lia.
      specialize (Hpt 0 eq_refl). cbn in Hpt. injection Hpt as ->. cbn [mon_eqb]. lia. }
    destruct (a_loop_done t); lia.
  - rewrite S6, F3, S3, FA. intros Hh. specialize (H4 Hh). destruct (a_loop_done t); lia.
  - rewrite S1, F1. exact H5.
  - intros j Hj Hk. lia.
  - rewrite S5, S3, S4. apply count_result_loop. exact H7.
Qed.

(** a monitor that is past its loop (or sees the context done) finishes: MDel / MRun -> MExit *)
Lemma att_inv_mon_exit c keys a t t' i x k' :
  att_inv c keys a t -> nth_error (a_mon t) i = Some x -> x <> MNone -> (x = MRun -> a_cancelled t' = true) ->
  a_mon t' = upd i MExit (a_mon t) -> a_acquired t' = a_acquired t -> a_force t' = a_force t -> a_next t' = a_next t ->
  a_loop_done t' = a_loop_done t -> a_failures t' = a_failures t -> a_ret t' = a_ret t ->
  (a_cancelled t' = false -> a_cancelled t = false) ->
  att_inv c (upd i k' keys) a t'.
Proof.
  intros [H1 H2 H3 H4 H5 H6 H7] Hx Hn Hrun Em Ea Ef En El Efl Er Hc.
  assert (Hi : i < nkeys c) by (rewrite <- H1; eapply nth_error_lt; eauto).
  constructor; rewrite ?Em, ?Ea, ?Ef, ?En, ?El, ?Efl, ?Er; auto.
  - rewrite length_upd. exact H1.
  - intros j Hj. rewrite nth_error_upd in Hj.
    destruct (Nat.eqb_spec i j) as [E|N]; [subst j; destruct (Nat.ltb i (length (a_mon t))); discriminate|].
    rewrite nth_error_upd_other by exact N. apply H2, Hj.
  - intros Hc'. specialize (H3 (Hc Hc')).
    pose proof (count_mon_upd MRun i MExit (a_mon t) x Hx) as Hcnt. cbn [mon_eqb] in Hcnt.
    destruct x; cbn [mon_eqb] in Hcnt; try lia.
    rewrite Hrun in Hc' by reflexivity. discriminate.
  - intros j Hj Hk. destruct (Nat.eq_dec i j) as [->|N].
    + rewrite (H6 j Hj Hk) in Hx. congruence.
    + rewrite nth_error_upd_other by exact N. apply H6; assumption.
Qed.

(** ---- preservation ---- *)

Lemma inv_step c s l s' : inv c s -> good s l -> lstep c s l = Some s' -> inv c s'.
Proof.
  intros HI HG HS. unfold lstep in HS.
  destruct (lstep_r c s l) as [[s1 ob]|] eqn:HR; [|discriminate]. injection HS as ->.
  pose proof HI as [HL HA].
  destruct l as [force|a exp executed replied|a|a|a|a i exp executed replied|a i|a i executed|dt|i];
    cbn [lstep_r good] in HR, HG.
  - (* LStart *)
    injection HR as <- _. subst force. split; [exact HL|]. cbn [s_att s_keys].
    intros b tb Hb.
    destruct (Nat.ltb_spec b (length (s_att s))) as [L|L].
    + rewrite nth_error_app1 in Hb by exact L. apply HA, Hb.
    + rewrite nth_error_app2 in Hb by exact L.
      destruct (b - length (s_att s)) as [|n] eqn:E; cbn in Hb; [|destruct n; discriminate].
      injection Hb as <-. apply att_inv_new.
  - (* LAcquire *)
    destruct (nth_error (s_att s) a) as [t|] eqn:Ha; [|discriminate].
    destruct (nth_error (s_keys s) (a_next t)) as [k|] eqn:Hk; [|discriminate].
    pose proof (HA a t Ha) as AI.
    assert (Hi : a_next t < nkeys c) by (rewrite <- HL; eapply nth_error_lt; eauto).
    assert (Hnf : a_force t = false) by apply AI.
    destruct executed.
    + unfold srv_acquire in HR. rewrite Hnf in HR.
      destruct k as [[o e]|].
      * (* taken: ErrNotLocked or (not replied) another error *)
        cbn [andb] in HR. destruct replied; injection HR as <- _.
        -- eapply inv_update; [exact HI|exact Ha| |intros; congruence].
           apply att_inv_frame; [|intros; congruence].
           apply att_inv_acquire_notlocked; auto.
        -- eapply inv_update; [exact HI|exact Ha| |intros; congruence].
           apply att_inv_frame; [|intros; congruence].
           apply att_inv_acquire_err; auto.
      * rewrite (put_future _ _ _ HG) in HR. cbn [andb] in HR. destruct replied; injection HR as <- _.
        -- eapply inv_update; [exact HI|exact Ha| |intros; congruence].
           apply att_inv_acquire_ok; auto.
        -- eapply inv_update; [exact HI|exact Ha| |intros; congruence].
           apply att_inv_frame; [|intros; congruence].
           apply att_inv_acquire_err; auto.
    + cbn [andb] in HR. injection HR as <- _.
      eapply inv_update; [exact HI|exact Ha| |intros; congruence].
      apply att_inv_frame; [|intros; congruence].
      apply att_inv_acquire_err; auto.
  - (* LReturn *)
    destruct (nth_error (s_att s) a) as [t|] eqn:Ha; [|discriminate].
    pose proof (HA a t Ha) as AI.
    destruct (a_ret t) eqn:Er; try discriminate.
    + destruct (a_loop_done t) eqn:El; [|discriminate]. injection HR as <- _.
      eapply inv_update_att; [exact HI|exact Ha|].
      eapply att_inv_same_mon; [exact AI|reflexivity..| |]; cbn [set_ret a_cancelled a_ret].
      * rewrite orb_false_r. auto.
      * intros Hh. right.
        destruct (a_tm t); cbn [andb] in Hh; try discriminate.
        destruct (Nat.ltb_spec (a_failures t) (c_m c)) as [Lf|Lf]; [|discriminate].
        destruct (ai_loop _ _ _ _ AI El); lia.
    + destruct (Nat.eqb (a_released t) (nkeys c)); [|discriminate]. injection HR as <- _.
      eapply inv_update_att; [exact HI|exact Ha|].
      eapply att_inv_same_mon; [exact AI|reflexivity..| |]; cbn [set_ret a_cancelled a_ret].
      * rewrite orb_true_r. discriminate.
      * discriminate.
  - (* LTimerFire *)
    destruct (nth_error (s_att s) a) as [t|] eqn:Ha; [|discriminate].
    destruct (a_tm t); try discriminate. injection HR as <- _.
    eapply inv_update_att; [exact HI|exact Ha|].
    eapply att_inv_same_mon; [exact (HA a t Ha)|reflexivity..| |]; cbn [set_ret a_cancelled a_ret].
    + rewrite orb_true_r. discriminate.
    + auto.
  - (* LCancel *)
    destruct (nth_error (s_att s) a) as [t|] eqn:Ha; [|discriminate]. injection HR as <- _.
    eapply inv_update_att; [exact HI|exact Ha|].
    eapply att_inv_same_mon; [exact (HA a t Ha)|reflexivity..| |]; cbn [set_cancelled a_cancelled a_ret]; [discriminate|auto].
  - (* LExtend *)
    destruct HG as (-> & -> & Hexp).
    destruct (nth_error (s_att s) a) as [t|] eqn:Ha; [|discriminate].
    destruct (nth_error (s_keys s) i) as [k|] eqn:Hk; [|discriminate].
    destruct (nth_error (a_mon t) i) as [mo|] eqn:Hm; [|discriminate].
    destruct mo; try discriminate.
    pose proof (HA a t Ha) as AI.
    destruct (ai_own _ _ _ _ AI i Hm) as (e & He). rewrite Hk in He. injection He as ->.
    unfold srv_extend in HR. rewrite is_owner_same, (put_future _ _ _ Hexp) in HR. cbn [andb] in HR.
    injection HR as <- _.
    eapply inv_update; [exact HI|exact Ha| |intros b e0 Hb Hk'; rewrite Hk in Hk'; congruence].
    destruct AI as [H1 H2 H3 H4 H5 H6 H7]. constructor; auto.
    intros j Hj. destruct (Nat.eq_dec i j) as [->|N].
    + rewrite nth_error_upd_same by (eapply nth_error_lt; eauto). eauto.
    + rewrite nth_error_upd_other by exact N. apply H2, Hj.
  - (* LClosed *) contradiction.
  - (* LDelkey *)
    destruct (nth_error (s_att s) a) as [t|] eqn:Ha; [|discriminate].
    destruct (nth_error (s_keys s) i) as [k|] eqn:Hk; [|discriminate].
    destruct (nth_error (a_mon t) i) as [mo|] eqn:Hm; [|discriminate].
    pose proof (HA a t Ha) as AI.
    assert (Hothers : forall k' del, (if executed then srv_delete a k else (k, false)) = (k', del) ->
                      forall b e, b <> a -> nth_error (s_keys s) i = Some (Some (b, e)) -> k' = Some (b, e)).
    { intros k' del E b e Hb Hk'. rewrite Hk in Hk'. injection Hk' as ->.
      destruct executed; [|injection E as <- _; reflexivity].
      unfold srv_delete in E. cbn [is_owner] in E.
      destruct (Nat.eqb_spec a b); [congruence|]. injection E as <- _. reflexivity. }
    destruct mo; try discriminate.
    + (* MRun, context done *)
      destruct (a_cancelled t) eqn:Ec; [|discriminate].
      destruct (if executed then srv_delete a k else (k, false)) as [k' del] eqn:E. injection HR as <- _.
      eapply inv_update; [exact HI|exact Ha| |exact (Hothers k' del eq_refl)].
      eapply (att_inv_mon_exit c (s_keys s) a t _ i MRun k' AI Hm); try reflexivity; try discriminate.
      * intros _. cbn [release leave set_mon a_cancelled]. rewrite Ec. reflexivity.
      * cbn [release leave set_mon a_cancelled]. rewrite Ec. discriminate.
    + (* MDel *)
      destruct (if executed then srv_delete a k else (k, false)) as [k' del] eqn:E. injection HR as <- _.
      eapply inv_update; [exact HI|exact Ha| |exact (Hothers k' del eq_refl)].
      eapply (att_inv_mon_exit c (s_keys s) a t _ i MDel k' AI Hm); try reflexivity; try discriminate.
      cbn [release set_mon a_cancelled]. intros Hc. apply orb_false_iff in Hc. tauto.
  - (* LTick *)
    destruct (dt <? 0)%Z; [discriminate|]. injection HR as <- _.
    apply (inv_update_keys c s (expire_keys (s_now s + dt) (s_keys s)) HI).
    + unfold expire_keys. rewrite map_length. exact HL.
    + intros a t i e Ha Hm He. exists e. unfold expire_keys.
      rewrite nth_error_map, He. cbn [option_map].
      specialize (HG i a e t He Ha Hm).
      destruct (e <=? s_now s + dt)%Z eqn:E; [lia|reflexivity].
  - (* LEnvDel *) contradiction.
Qed.

Lemma inv_run c : forall ls s s', inv c s -> run_good c s ls -> run c s ls = Some s' -> inv c s'.
Proof.
  induction ls as [|l ls IH]; intros s s' HI HG HR; cbn [run run_good] in *.
  - injection HR as <-. exact HI.
  - destruct HG as [Hg HG]. destruct (lstep c s l) as [s1|] eqn:E; [|discriminate].
    eapply IH; [eapply inv_step; eauto|exact HG|exact HR].
Qed.

(** a live holder owns a majority *)
Lemma live_owns_majority c s a : inv c s -> live s a = true -> c_m c <= owns s a.
Proof.
  intros [HL HA] Hl. unfold live in Hl.
  destruct (nth_error (s_att s) a) as [t|] eqn:Ha; [|discriminate].
  unfold live_att in Hl. destruct (a_ret t) eqn:Er; try discriminate.
  apply negb_true_iff in Hl.
  pose proof (HA a t Ha) as AI.
  pose proof (ai_held _ _ _ _ AI Er). pose proof (ai_run _ _ _ _ AI Hl).
  assert (count_mon MRun (a_mon t) <= count_owner a (s_keys s)).
  { apply count_run_le_owner. intros i Hi. destruct (ai_own _ _ _ _ AI i Hi) as (e & He).
    eexists; split; [exact He|apply is_owner_same]. }
  unfold owns. lia.
Qed.

Theorem mutex c now ls s : 1 <= c_m c ->
  run c (init c now) ls = Some s -> run_good c (init c now) ls ->
  forall a b, a <> b -> live s a = true -> live s b = true -> False.
Proof.
  intros Hm HR HG a b Hab La Lb.
  pose proof (inv_run c ls _ _ (inv_init c now) HG HR) as HI.
  pose proof (live_owns_majority c s a HI La). pose proof (live_owns_majority c s b HI Lb).
  pose proof (count_owner_disjoint a b (s_keys s) Hab) as Hd.
  destruct HI as [HL _]. unfold owns in *. rewrite HL in Hd. unfold nkeys in Hd. lia.
Qed.

(** ---- cancel before release: an invariant of EVERY schedule (failures, forces, deletions included) ---- *)

Record att_acc (c : cfg) (t : attempt) : Prop := {
  ac_len : length (a_mon t) = nkeys c;
  ac_exiting : a_exiting t = count_mon MDel (a_mon t) + count_mon MExit (a_mon t);
  ac_released : a_released t = count_mon MExit (a_mon t);
  ac_early : c_early c = true -> c_m c <= a_exiting t -> a_cancelled t = true;
  ac_late : c_m c <= a_released t -> a_cancelled t = true;
  ac_next : forall j, a_next t <= j -> j < nkeys c -> nth_error (a_mon t) j = Some MNone;
  ac_next_le : a_next t <= nkeys c;
  ac_spawned : forall j, j < a_next t -> nth_error (a_mon t) j <> Some MNone }.

Definition acc (c : cfg) (s : state) : Prop :=
  length (s_keys s) = nkeys c /\ forall a t, nth_error (s_att s) a = Some t -> att_acc c t.

Lemma count_mon_repeat_none z n : z <> MNone -> count_mon z (repeat_n MNone n) = 0.
Proof. intros H. induction n; cbn [repeat_n count_mon]; [reflexivity|]. destruct z; cbn [mon_eqb]; try exact IHn. congruence. Qed.

Lemma att_acc_new c force : 1 <= c_m c -> att_acc c (new_attempt c force).
Proof.
  intros Hm. constructor; cbn [new_attempt a_mon a_exiting a_released a_cancelled a_next].
  - apply length_repeat_n.
  - rewrite !count_mon_repeat_none by discriminate. reflexivity.
  - rewrite count_mon_repeat_none by discriminate. reflexivity.
  - intros _ H. lia.
  - intros H. lia.
  - intros j _ L. apply nth_error_repeat_n, L.
  - lia.
  - intros j L. lia.
Qed.

(** moving one monitor: the two counters follow *)
Lemma att_acc_move c t t' i x y :
  att_acc c t -> nth_error (a_mon t) i = Some x -> a_mon t' = upd i y (a_mon t) ->
  a_exiting t' + (if mon_eqb MDel x then 1 else 0) + (if mon_eqb MExit x then 1 else 0) =
    a_exiting t + (if mon_eqb MDel y then 1 else 0) + (if mon_eqb MExit y then 1 else 0) ->
  a_released t' + (if mon_eqb MExit x then 1 else 0) = a_released t + (if mon_eqb MExit y then 1 else 0) ->
  (c_early c = true -> c_m c <= a_exiting t' -> a_cancelled t' = true) ->
  (c_m c <= a_released t' -> a_cancelled t' = true) ->
  y <> MNone ->
  (x = MNone -> i = a_next t /\ a_next t' = S i) -> (x <> MNone -> a_next t' = a_next t) ->
  att_acc c t'.
Proof.
  intros [H1 H2 H3 H4 H5 H6 H7 H8] Hx Em Eex Ere He Hl Hy Hn1 Hn2.
  assert (Hi : i < nkeys c) by (rewrite <- H1; eapply nth_error_lt; eauto).
  pose proof (count_mon_upd MDel i y (a_mon t) x Hx) as C1.
  pose proof (count_mon_upd MExit i y (a_mon t) x Hx) as C2.
  constructor; rewrite ?Em; auto.
  - rewrite length_upd. exact H1.
  - lia.
  - lia.
  - intros j Hj Hk. destruct (Nat.eq_dec i j) as [->|N].
    + destruct x; try (rewrite Hn2 in Hj by discriminate; rewrite (H6 j Hj Hk) in Hx; discriminate).
      destruct (Hn1 eq_refl) as [E1 E2]. lia.
    + rewrite nth_error_upd_other by exact N.
      destruct x; try (rewrite Hn2 in Hj by discriminate; apply H6; assumption).
      destruct (Hn1 eq_refl) as [E1 E2]. apply H6; lia.
  - destruct x; try (rewrite Hn2 by discriminate; exact H7). destruct (Hn1 eq_refl) as [E1 E2]. lia.
  - intros j Hj. rewrite nth_error_upd.
    destruct (Nat.eqb_spec i j) as [E|N].
    + destruct (Nat.ltb i (length (a_mon t))); [congruence|discriminate].
    + destruct x; try (rewrite Hn2 in Hj by discriminate; apply H8, Hj).
      destruct (Hn1 eq_refl) as [E1 E2]. apply H8. lia.
Qed.

Definition cancel_ok (c : cfg) (t : attempt) : Prop :=
  (c_early c = true -> c_m c <= a_exiting t -> a_cancelled t = true) /\
  (c_m c <= a_released t -> a_cancelled t = true).

Lemma cancel_ok_leave c t : cancel_ok c t -> cancel_ok c (leave c t).
Proof.
  intros [H1 H2]. split; cbn [leave a_exiting a_released a_cancelled].
  - intros He Hm. rewrite He. cbn [andb]. apply Nat.leb_le in Hm. rewrite Hm. apply orb_true_r.
  - intros Hm. rewrite (H2 Hm). reflexivity.
Qed.

Lemma cancel_ok_release c t : cancel_ok c t -> cancel_ok c (release c t).
Proof.
  intros [H1 H2]. split; cbn [release a_exiting a_released a_cancelled].
  - intros He Hm. rewrite (H1 He Hm). reflexivity.
  - intros Hm. apply Nat.leb_le in Hm. rewrite Hm. apply orb_true_r.
Qed.

Lemma cancel_ok_set_mon c t i x : cancel_ok c t -> cancel_ok c (set_mon t i x).
Proof. intros H. exact H. Qed.

Lemma cancel_ok_skip_rest c n : forall t i, cancel_ok c t -> cancel_ok c (skip_rest c t i n).
Proof.
  induction n; intros t i H; cbn [skip_rest]; [exact H|].
  apply IHn. unfold exit_notlocked. apply cancel_ok_release, cancel_ok_leave, cancel_ok_set_mon, H.
Qed.

Lemma count_mon_upd_range z x n : forall i l, z <> MNone ->
  (forall j, i <= j -> j < i + n -> nth_error l j = Some MNone) ->
  count_mon z (upd_range i n x l) = count_mon z l + (if mon_eqb z x then n else 0).
Proof.
  induction n; intros i l Hz H; cbn [upd_range].
  - destruct (mon_eqb z x); lia.
  - rewrite IHn; [|exact Hz|].
    + pose proof (count_mon_upd z i x l MNone (H i (le_n _) ltac:(lia))) as C.
      replace (mon_eqb z MNone) with false in C by (destruct z; cbn; congruence).
      destruct (mon_eqb z x); lia.
    + intros j Hj Hk. rewrite nth_error_upd_other by lia. apply H; lia.
Qed.

Lemma acc_count_result c t e : att_acc c t -> att_acc c (count_result c t e).
Proof.
  intros [H1 H2 H3 H4 H5 H6 H7 H8].
  destruct (count_result_fields c t e) as (F1 & F2 & F3 & F4 & F5 & F6 & F7 & F8).
  constructor; rewrite ?F2, ?F5, ?F6, ?F7, ?F8; auto.
Qed.

(** LAcquire answered "held by others" *)
Lemma att_acc_notlocked c t i : att_acc c t -> i = a_next t -> i < nkeys c ->
  att_acc c (set_next (skip_rest c t i (nkeys c - i)) (nkeys c)).
Proof.
  intros [H1 H2 H3 H4 H5 H6 H7 H8] -> Hi.
  destruct (skip_rest_fields c (nkeys c - a_next t) t (a_next t)) as (S1 & S2 & S3 & S4 & S5 & S6 & S7 & S8 & S9 & S10).
  assert (Hco : cancel_ok c (skip_rest c t (a_next t) (nkeys c - a_next t))).
  { apply cancel_ok_skip_rest. split; assumption. }
  assert (Hnone : forall j, a_next t <= j -> j < a_next t + (nkeys c - a_next t) -> nth_error (a_mon t) j = Some MNone).
  { intros j Hj Hk. apply H6; lia. }
  constructor; cbn [set_next a_mon a_exiting a_released a_cancelled a_next]; rewrite ?skip_rest_mon.
  - rewrite length_upd_range. exact H1.
  - rewrite S8, !count_mon_upd_range by (try discriminate; exact Hnone). cbn [mon_eqb]. lia.
  - rewrite S9, count_mon_upd_range by (try discriminate; exact Hnone). cbn [mon_eqb]. lia.
  - apply Hco.
  - apply Hco.
  - intros j Hj Hk. lia.
  - lia.
  - intros j Hj. rewrite nth_error_upd_range, H1.
    destruct (Nat.leb_spec (a_next t) j), (Nat.ltb_spec j (a_next t + (nkeys c - a_next t))), (Nat.ltb_spec j (nkeys c));
      cbn [andb]; try discriminate; try lia. apply H8. lia.
Qed.

Lemma att_acc_same c t t' : att_acc c t ->
  a_mon t' = a_mon t -> a_exiting t' = a_exiting t -> a_released t' = a_released t -> a_next t' = a_next t ->
  (a_cancelled t = true -> a_cancelled t' = true) -> att_acc c t'.
Proof.
  intros [H1 H2 H3 H4 H5 H6 H7 H8] Em Ee Er En Hc.
  constructor; rewrite ?Em, ?Ee, ?Er, ?En; auto.
Qed.

Lemma acc_upd_att c s a t' : acc c s -> att_acc c t' -> acc c (with_att s a t').
Proof.
  intros [HL HA] Ht'. split; [exact HL|]. cbn [with_att s_att].
  intros b tb Hb. rewrite nth_error_upd in Hb.
  destruct (Nat.eqb a b); [destruct (Nat.ltb a (length (s_att s))); [injection Hb as <-; exact Ht'|discriminate]|apply (HA b), Hb].
Qed.

Lemma acc_upd_key_att c s i k a t' : acc c s -> att_acc c t' -> acc c (with_key_att s i k a t').
Proof.
  intros [HL HA] Ht'. split; [cbn; rewrite length_upd; exact HL|]. cbn [with_key_att s_att].
  intros b tb Hb. rewrite nth_error_upd in Hb.
  destruct (Nat.eqb a b); [destruct (Nat.ltb a (length (s_att s))); [injection Hb as <-; exact Ht'|discriminate]|apply (HA b), Hb].
Qed.

Lemma acc_step c s l s' : 1 <= c_m c -> acc c s -> lstep c s l = Some s' -> acc c s'.
Proof.
  intros Hm HI HS. unfold lstep in HS.
  destruct (lstep_r c s l) as [[s1 ob]|] eqn:HR; [|discriminate]. injection HS as ->.
  pose proof HI as [HL HA].
  destruct l as [force|a exp executed replied|a|a|a|a i exp executed replied|a i|a i executed|dt|i]; cbn [lstep_r] in HR.
  - injection HR as <- _. split; [exact HL|]. cbn [s_att]. intros b tb Hb.
    destruct (Nat.ltb_spec b (length (s_att s))) as [L|L].
    + rewrite nth_error_app1 in Hb by exact L. apply (HA b), Hb.
    + rewrite nth_error_app2 in Hb by exact L.
      destruct (b - length (s_att s)) as [|n]; cbn in Hb; [|destruct n; discriminate].
      injection Hb as <-. apply att_acc_new, Hm.
  - destruct (nth_error (s_att s) a) as [t|] eqn:Ha; [|discriminate].
    destruct (nth_error (s_keys s) (a_next t)) as [k|] eqn:Hk; [|discriminate].
    pose proof (acc_count_result c t) as HC.
    assert (Hi : a_next t < nkeys c) by (rewrite <- HL; eapply nth_error_lt; eauto).
    destruct (if executed then srv_acquire (s_now s) (a_force t) a exp k else (k, false)) as [k' ok].
    injection HR as <- _. apply acc_upd_key_att; [exact HI|].
    set (e := if executed && replied then if ok then ENone else ENotLocked else EOther).
    specialize (HC e (HA a t Ha)).
    destruct (count_result_fields c t e) as (F1 & F2 & F3 & F4 & F5 & F6 & F7 & F8).
    assert (Hnone : nth_error (a_mon (count_result c t e)) (a_next t) = Some MNone).
    { rewrite F5. apply (ac_next _ _ (HA a t Ha)); lia. }
    destruct e.
    + eapply (att_acc_move c (count_result c t ENone) _ (a_next t) MNone MRun HC Hnone); try reflexivity; try discriminate;
        cbn [set_next set_mon a_exiting a_released a_cancelled a_next mon_eqb]; try lia.
      all: first [solve [apply HC] | solve [intros; congruence] | solve [intros _; rewrite ?F2; auto]].
    + rewrite <- F2. apply att_acc_notlocked; [exact HC|reflexivity|rewrite F2; exact Hi].
    + eapply (att_acc_move c (count_result c t EOther) _ (a_next t) MNone MDel HC Hnone); try reflexivity; try discriminate;
        cbn [set_next leave set_mon a_exiting a_released a_cancelled a_next mon_eqb]; try lia.
      all: first [solve [apply (cancel_ok_leave c (set_mon (count_result c t EOther) (a_next t) MDel)); split; apply HC]
                 | solve [intros; congruence] | solve [intros _; rewrite ?F2; auto]].
  - destruct (nth_error (s_att s) a) as [t|] eqn:Ha; [|discriminate].
    destruct (a_ret t); try discriminate.
    + destruct (a_loop_done t); [|discriminate]. injection HR as <- _.
      apply acc_upd_att; [exact HI|]. eapply att_acc_same; [exact (HA a t Ha)|reflexivity..|].
      cbn [set_ret a_cancelled]. intros ->. reflexivity.
    + destruct (Nat.eqb (a_released t) (nkeys c)); [|discriminate]. injection HR as <- _.
      apply acc_upd_att; [exact HI|]. eapply att_acc_same; [exact (HA a t Ha)|reflexivity..|].
      cbn [set_ret a_cancelled]. intros ->. reflexivity.
  - destruct (nth_error (s_att s) a) as [t|] eqn:Ha; [|discriminate].
    destruct (a_tm t); try discriminate. injection HR as <- _.
    apply acc_upd_att; [exact HI|]. eapply att_acc_same; [exact (HA a t Ha)|reflexivity..|].
    cbn [set_ret a_cancelled]. intros ->. reflexivity.
  - destruct (nth_error (s_att s) a) as [t|] eqn:Ha; [|discriminate]. injection HR as <- _.
    apply acc_upd_att; [exact HI|]. eapply att_acc_same; [exact (HA a t Ha)|reflexivity..|]. reflexivity.
  - destruct (nth_error (s_att s) a) as [t|] eqn:Ha; [|discriminate].
    destruct (nth_error (s_keys s) i) as [k|] eqn:Hk; [|discriminate].
    destruct (nth_error (a_mon t) i) as [mo|] eqn:Hmo; [|discriminate].
    destruct mo; try discriminate.
    destruct (if executed then srv_extend (s_now s) a exp k else (k, false)) as [k' ok].
    injection HR as <- _. apply acc_upd_key_att; [exact HI|].
    pose proof (HA a t Ha) as AC.
    destruct (if executed && replied then if ok then ENone else ENotLocked else EOther).
    + exact AC.
    + eapply (att_acc_move c t _ i MRun MExit AC Hmo); try reflexivity; try discriminate;
        cbn [exit_notlocked release leave set_mon a_exiting a_released a_cancelled a_next mon_eqb]; try lia.
      * apply (cancel_ok_release c (leave c (set_mon t i MExit))), cancel_ok_leave. split; apply AC.
      * apply (cancel_ok_release c (leave c (set_mon t i MExit))), cancel_ok_leave. split; apply AC.
    + eapply (att_acc_move c t _ i MRun MDel AC Hmo); try reflexivity; try discriminate;
        cbn [leave set_mon a_exiting a_released a_cancelled a_next mon_eqb]; try lia.
      * apply (cancel_ok_leave c (set_mon t i MDel)). split; apply AC.
      * apply (cancel_ok_leave c (set_mon t i MDel)). split; apply AC.
  - destruct (nth_error (s_att s) a) as [t|] eqn:Ha; [|discriminate].
    destruct (nth_error (a_mon t) i) as [mo|] eqn:Hmo; [|discriminate].
    destruct mo; try discriminate. injection HR as <- _.
    apply acc_upd_att; [exact HI|]. pose proof (HA a t Ha) as AC.
    eapply (att_acc_move c t _ i MRun MDel AC Hmo); try reflexivity; try discriminate;
      cbn [leave set_mon a_exiting a_released a_cancelled a_next mon_eqb]; try lia.
    + apply (cancel_ok_leave c (set_mon t i MDel)). split; apply AC.
    + apply (cancel_ok_leave c (set_mon t i MDel)). split; apply AC.
  - destruct (nth_error (s_att s) a) as [t|] eqn:Ha; [|discriminate].
    destruct (nth_error (s_keys s) i) as [k|] eqn:Hk; [|discriminate].
    destruct (nth_error (a_mon t) i) as [mo|] eqn:Hmo; [|discriminate].
    pose proof (HA a t Ha) as AC.
    destruct mo; try discriminate.
    + destruct (a_cancelled t) eqn:Ec; [|discriminate].
      destruct (if executed then srv_delete a k else (k, false)) as [k' del]. injection HR as <- _.
      apply acc_upd_key_att; [exact HI|].
      eapply (att_acc_move c t _ i MRun MExit AC Hmo); try reflexivity; try discriminate;
        cbn [release leave set_mon a_exiting a_released a_cancelled a_next mon_eqb]; try lia.
      * intros _ _. rewrite Ec. reflexivity.
      * intros _. rewrite Ec. reflexivity.
    + destruct (if executed then srv_delete a k else (k, false)) as [k' del]. injection HR as <- _.
      apply acc_upd_key_att; [exact HI|].
      eapply (att_acc_move c t _ i MDel MExit AC Hmo); try reflexivity; try discriminate;
        cbn [release set_mon a_exiting a_released a_cancelled a_next mon_eqb]; try lia.
      * apply (cancel_ok_release c (set_mon t i MExit)). split; apply AC.
      * apply (cancel_ok_release c (set_mon t i MExit)). split; apply AC.
  - destruct (dt <? 0)%Z; [discriminate|]. injection HR as <- _.
    split; [cbn; unfold expire_keys; rewrite map_length; exact HL|exact HA].
  - destruct (nth_error (s_keys s) i); [|discriminate]. injection HR as <- _.
    split; [cbn; rewrite length_upd; exact HL|exact HA].
Qed.

Lemma acc_init c now : acc c (init c now).
Proof. split; [apply length_repeat_n|]. intros a t H. cbn in H. destruct a; discriminate. Qed.

Lemma acc_run c : 1 <= c_m c -> forall ls s s', acc c s -> run c s ls = Some s' -> acc c s'.
Proof.
  intros Hm. induction ls as [|l ls IH]; intros s s' HI HR; cbn [run] in HR.
  - injection HR as <-. exact HI.
  - destruct (lstep c s l) as [s1|] eqn:E; [|discriminate]. eapply IH; [eapply acc_step; eauto|exact HR].
Qed.

Lemma count_mon_total l :
  count_mon MNone l + count_mon MRun l + count_mon MDel l + count_mon MExit l = length l.
Proof. induction l as [|x l IH]; cbn [count_mon length]; [reflexivity|]. destruct x; cbn [mon_eqb]; lia. Qed.

Lemma count_mon_none_zero l : (forall j, j < length l -> nth_error l j <> Some MNone) -> count_mon MNone l = 0.
Proof.
  induction l as [|x l IH]; intros H; cbn [count_mon]; [reflexivity|].
  rewrite IH. 2:{ intros j Hj. apply (H (S j)). cbn. lia. }
  destruct x; cbn [mon_eqb]; try reflexivity. exfalso. apply (H 0); [cbn; lia|reflexivity].
Qed.

(** running monitors of an attempt whose every key has been attempted *)
Lemma run_count_spawned c t : att_acc c t -> a_next t = nkeys c ->
  count_mon MRun (a_mon t) + a_exiting t = nkeys c.
Proof.
  intros AC Hn. pose proof (count_mon_total (a_mon t)) as T.
  rewrite (ac_len _ _ AC) in T. rewrite (ac_exiting _ _ AC).
  rewrite count_mon_none_zero in T; [lia|].
  intros j Hj. apply (ac_spawned _ _ AC). rewrite Hn, <- (ac_len _ _ AC). exact Hj.
Qed.

(** THE RELEASE STEP.  In every reachable state of every schedule: when a monitor runs its delete script while
    the lock context is not done, fewer than a majority of the monitors have left their loops — so, once all
    keys have been attempted, a majority of monitors still runs after the release. *)
Theorem done_before_release c now ls s a i executed s' t t' :
  c_early c = true -> 1 <= c_m c ->
  run c (init c now) ls = Some s ->
  lstep c s (LDelkey a i executed) = Some s' ->
  nth_error (s_att s) a = Some t -> nth_error (s_att s') a = Some t' ->
  a_cancelled t = false ->
  a_exiting t' < c_m c /\ a_cancelled t' = false /\
  (a_next t = nkeys c -> c_m c <= count_mon MRun (a_mon t')).
Proof.
  intros He Hm HR HS Ha Ha' Hc.
  pose proof (acc_run c Hm ls _ _ (acc_init c now) HR) as AC.
  pose proof (acc_step c s _ s' Hm AC HS) as AC'.
  destruct AC as [HL HA]. destruct AC' as [HL' HA'].
  pose proof (HA a t Ha) as At. pose proof (HA' a t' Ha') as At'.
  assert (Hex : a_exiting t < c_m c).
  { destruct (Nat.ltb_spec (a_exiting t) (c_m c)); [assumption|]. rewrite (ac_early _ _ At He) in Hc by assumption. discriminate. }
  unfold lstep in HS. cbn [lstep_r] in HS. rewrite Ha in HS.
  destruct (nth_error (s_keys s) i) as [k|] eqn:Hk; [|discriminate].
  destruct (nth_error (a_mon t) i) as [mo|] eqn:Hmo; [|discriminate].
  destruct mo; try discriminate; [rewrite Hc in HS; discriminate|].
  destruct (if executed then srv_delete a k else (k, false)) as [k' del]. injection HS as <-.
  cbn [with_key_att s_att] in Ha'. rewrite nth_error_upd_same in Ha' by (eapply nth_error_lt; eauto).
  injection Ha' as <-. cbn [release set_mon a_exiting a_cancelled a_released a_next a_mon] in *.
  assert (Hrel : S (a_released t) <= a_exiting t).
  { rewrite (ac_exiting _ _ At), (ac_released _ _ At).
    pose proof (count_mon_upd MDel i MDel (a_mon t) MDel Hmo). cbn [mon_eqb] in *.
    assert (1 <= count_mon MDel (a_mon t)).
    { clear -Hmo. revert i Hmo. induction (a_mon t) as [|x l IH]; intros [|i] H; cbn in *; try discriminate.
      - injection H as ->. cbn. lia.
      - specialize (IH i H). destruct (mon_eqb MDel x); lia. }
    lia. }
  split; [exact Hex|]. split.
  - rewrite Hc. cbn [orb]. apply Nat.leb_gt. lia.
  - intros Hn. pose proof (run_count_spawned c _ At' Hn) as T.
    cbn [release set_mon a_exiting a_mon] in T. unfold nkeys in *. lia.
Qed.

(** … in the runs of the mutual-exclusion theorem this reads: a release by a live holder leaves it live and
    owning a majority; a holder that releases its way below the majority was already cancelled *)
Theorem release_keeps_majority c now ls s a i executed s' :
  c_early c = true -> 1 <= c_m c ->
  run c (init c now) ls = Some s -> run_good c (init c now) ls ->
  lstep c s (LDelkey a i executed) = Some s' ->
  live s a = true -> live s' a = true /\ c_m c <= owns s' a.
Proof.
  intros He Hm HR HG HS Hl.
  pose proof (inv_run c ls _ _ (inv_init c now) HG HR) as HI.
  assert (HI' : inv c s') by (apply (inv_step c s (LDelkey a i executed) s' HI I HS)).
  unfold live in Hl. destruct (nth_error (s_att s) a) as [t|] eqn:Ha; [|discriminate].
  assert (Ha' : exists t', nth_error (s_att s') a = Some t' /\ a_ret t' = a_ret t).
  { unfold lstep in HS. cbn [lstep_r] in HS. rewrite Ha in HS.
    destruct (nth_error (s_keys s) i); [|discriminate].
    destruct (nth_error (a_mon t) i) as [mo|]; [|discriminate].
    destruct mo; try discriminate.
    - destruct (a_cancelled t); [|discriminate].
      destruct (if executed then srv_delete a o else (o, false)). injection HS as <-.
      eexists. cbn [with_key_att s_att]. rewrite nth_error_upd_same by (eapply nth_error_lt; eauto). split; reflexivity.
    - destruct (if executed then srv_delete a o else (o, false)). injection HS as <-.
      eexists. cbn [with_key_att s_att]. rewrite nth_error_upd_same by (eapply nth_error_lt; eauto). split; reflexivity. }
  destruct Ha' as (t' & Ha' & Er).
  unfold live_att in Hl. destruct (a_ret t) eqn:Ert; try discriminate. apply negb_true_iff in Hl.
  destruct (done_before_release c now ls s a i executed s' t t' He Hm HR HS Ha Ha' Hl) as (_ & Hc' & _).
  assert (Hl' : live s' a = true).
  { unfold live. rewrite Ha'. unfold live_att. rewrite Er, Hc'. reflexivity. }
  split; [exact Hl'|]. apply live_owns_majority; assumption.
Qed.

(** ---- loss => cancel ---- *)

Lemma lost_or_all_owned a : forall mons keys, length mons = length keys ->
  (exists i k, nth_error mons i = Some MRun /\ nth_error keys i = Some k /\ is_owner a k = false) \/
  (forall i, nth_error mons i = Some MRun -> exists k, nth_error keys i = Some k /\ is_owner a k = true).
Proof.
  induction mons as [|mo mons IH]; intros [|k keys] HL; cbn [length] in HL; try discriminate.
  - right. intros i H. destruct i; discriminate.
  - destruct (IH keys ltac:(lia)) as [(i & k0 & H1 & H2 & H3)|H].
    + left. exists (S i), k0. auto.
    + destruct mo; try (right; intros [|i] Hi; cbn in Hi; [discriminate|exact (H i Hi)]).
      destruct (is_owner a k) eqn:E.
      * right. intros [|i] Hi; cbn in Hi; [exists k; auto|exact (H i Hi)].
      * left. exists 0, k. auto.
Qed.

(** a holder below its majority has a monitor still running on a key it no longer owns *)
Theorem lost_monitor_exists c s a t :
  acc c s -> c_early c = true -> nth_error (s_att s) a = Some t ->
  a_cancelled t = false -> a_next t = nkeys c -> owns s a < c_m c ->
  exists i k, nth_error (a_mon t) i = Some MRun /\ nth_error (s_keys s) i = Some k /\ is_owner a k = false.
Proof.
  intros [HL HA] He Ha Hc Hn Ho. pose proof (HA a t Ha) as At.
  assert (Hex : a_exiting t < c_m c).
  { destruct (Nat.ltb_spec (a_exiting t) (c_m c)); [assumption|]. rewrite (ac_early _ _ At He) in Hc by assumption. discriminate. }
  pose proof (run_count_spawned c t At Hn) as T.
  assert (Hrun : owns s a < count_mon MRun (a_mon t)) by (unfold nkeys in *; lia).
  (* otherwise every running monitor would sit on an owned key *)
  destruct (lost_or_all_owned a (a_mon t) (s_keys s)) as [H|H]; [rewrite HL; apply At| |].
  - exact H.
  - exfalso. pose proof (count_run_le_owner a (a_mon t) (s_keys s) H). unfold owns in *. lia.
Qed.

(** … and the next extension of that monitor (its timer, or the invalidation of the lost key), whatever its
    outcome, makes it leave: one more exit is counted *)
Theorem lost_monitor_leaves c s a t i k exp executed replied :
  nth_error (s_att s) a = Some t -> nth_error (a_mon t) i = Some MRun ->
  nth_error (s_keys s) i = Some k -> is_owner a k = false ->
  exists s' t', lstep c s (LExtend a i exp executed replied) = Some s' /\
                nth_error (s_att s') a = Some t' /\ a_exiting t' = S (a_exiting t) /\
                (a_cancelled t = true -> a_cancelled t' = true) /\ a_next t' = a_next t.
Proof.
  intros Ha Hm Hk Ho. unfold lstep. cbn [lstep_r]. rewrite Ha, Hk, Hm.
  unfold srv_extend. rewrite Ho.
  assert (La : a < length (s_att s)) by (eapply nth_error_lt; eauto).
  destruct executed; cbn [andb]; [destruct replied|].
  - eexists; eexists; split; [reflexivity|]. cbn [with_key_att s_att]. rewrite nth_error_upd_same by exact La.
    split; [reflexivity|]. cbn. repeat split; auto. intros ->. reflexivity.
  - eexists; eexists; split; [reflexivity|]. cbn [with_key_att s_att]. rewrite nth_error_upd_same by exact La.
    split; [reflexivity|]. cbn. repeat split; auto. intros ->. reflexivity.
  - eexists; eexists; split; [reflexivity|]. cbn [with_key_att s_att]. rewrite nth_error_upd_same by exact La.
    split; [reflexivity|]. cbn. repeat split; auto. intros ->. reflexivity.
Qed.

(** once a majority of the monitors has left, the context is done (repaired order: at that very step) *)
Theorem majority_left_cancelled c now ls s a t :
  c_early c = true -> 1 <= c_m c -> run c (init c now) ls = Some s ->
  nth_error (s_att s) a = Some t -> c_m c <= a_exiting t -> a_cancelled t = true.
Proof.
  intros He Hm HR Ha Hx. pose proof (acc_run c Hm ls _ _ (acc_init c now) HR) as [_ HA].
  exact (ac_early _ _ (HA a t Ha) He Hx).
Qed.

(** ---- the gate: no lost wake-up ---- *)

Definition gate_inv (g : gate) : Prop :=
  match g_wait g with
  | WFailed i | WBlocked i => nth_error (g_tracked g) i = Some true \/ In i (g_inflight g) \/ g_token g = true
  | _ => True
  end.

Lemma gate_inv_step g l g' : gate_inv g -> gstep g l = Some g' -> gate_inv g'.
Proof.
  unfold gate_inv. intros HI HS. destruct l as [i|i| | | | |]; cbn [gstep] in HS.
  - destruct (g_wait g); try discriminate. destruct (nth_error (g_tracked g) i) eqn:E; [|discriminate].
    injection HS as <-. cbn. left. apply nth_error_upd_same. eapply nth_error_lt; eauto.
  - destruct (nth_error (g_tracked g) i) as [[|]|] eqn:E; try discriminate; injection HS as <-; [|exact HI].
    cbn [g_wait g_tracked g_inflight g_token]. destruct (g_wait g) as [|j|j|]; auto.
    + destruct HI as [H|[H|H]]; auto. destruct (Nat.eq_dec i j) as [->|N].
      * right. left. apply in_or_app. right. left. reflexivity.
      * left. rewrite nth_error_upd_other by exact N. exact H.
      * right. left. apply in_or_app. auto.
    + destruct HI as [H|[H|H]]; auto. destruct (Nat.eq_dec i j) as [->|N].
      * right. left. apply in_or_app. right. left. reflexivity.
      * left. rewrite nth_error_upd_other by exact N. exact H.
      * right. left. apply in_or_app. auto.
  - destruct (g_inflight g) as [|h r]; [discriminate|]. injection HS as <-.
    cbn [g_wait g_tracked g_inflight g_token]. destruct (g_wait g); auto.
  - injection HS as <-. cbn [g_wait g_tracked g_inflight g_token]. destruct (g_wait g); auto.
  - destruct (g_wait g) eqn:E; try discriminate. injection HS as <-. cbn. exact HI.
  - destruct (g_wait g); try discriminate. destruct (g_token g); [|discriminate]. injection HS as <-. exact I.
  - destruct (g_wait g); try discriminate; injection HS as <-; exact I.
Qed.

Lemma gate_inv_run : forall ls g g', gate_inv g -> grun g ls = Some g' -> gate_inv g'.
Proof.
  induction ls as [|l ls IH]; intros g g' HI HR; cbn [grun] in HR.
  - injection HR as <-. exact HI.
  - destruct (gstep g l) as [g1|] eqn:E; [|discriminate]. eapply IH; [eapply gate_inv_step; eauto|exact HR].
Qed.

Lemma gate_inv_init n : gate_inv (ginit n).
Proof. exact I. Qed.

(** delivering everything that is on its way *)
Fixpoint delivers (n : nat) : list glabel := match n with O => [] | S k => GDeliver :: delivers k end.

Lemma deliver_all : forall n g, length (g_inflight g) = n -> g_wait g <> WGone ->
  exists g', grun g (delivers n) = Some g' /\ g_wait g' = g_wait g /\ g_inflight g' = [] /\
             g_token g' = (g_token g || negb (Nat.eqb n 0))%bool.
Proof.
  induction n; intros g HL HW; cbn [delivers grun].
  - destruct (g_inflight g) eqn:E; [|discriminate]. exists g. rewrite orb_false_r. auto.
  - cbn [gstep]. destruct (g_inflight g) as [|h r] eqn:E; [discriminate|].
    set (g1 := {| g_tracked := g_tracked g; g_inflight := r;
                  g_token := match g_wait g with WGone => g_token g | _ => true end; g_wait := g_wait g |}).
    destruct (IHn g1) as (g' & H1 & H2 & H3 & H4); [cbn in *; lia|exact HW|].
    exists g'. split; [exact H1|]. split; [exact H2|]. split; [exact H3|].
    rewrite H4. cbn [g1 g_token]. destruct (g_wait g); try congruence; rewrite ?orb_true_r; reflexivity.
Qed.

(** NO LOST WAKE-UP.  In every reachable state of the gate: if the waiter is blocked after failing on key i and
    key i has been written since (its tracking entry is gone), then after the invalidations on their way have
    been delivered the gate holds a token, i.e. the waiter's wake-up step is enabled. *)
Theorem waiter_wakeup n ls g i :
  grun (ginit n) ls = Some g -> g_wait g = WBlocked i -> nth_error (g_tracked g) i = Some false ->
  exists g', grun g (delivers (length (g_inflight g))) = Some g' /\ g_wait g' = WBlocked i /\ g_token g' = true /\
             exists g'', gstep g' GWake = Some g'' /\ g_wait g'' = WTrying.
Proof.
  intros HR HW HT. pose proof (gate_inv_run ls _ _ (gate_inv_init n) HR) as HI.
  unfold gate_inv in HI. rewrite HW in HI.
  destruct (deliver_all (length (g_inflight g)) g eq_refl) as (g' & H1 & H2 & H3 & H4); [rewrite HW; discriminate|].
  exists g'. split; [exact H1|]. split; [congruence|].
  assert (Ht : g_token g' = true).
  { rewrite H4. destruct HI as [H|[H|H]].
    - congruence.
    - destruct (g_inflight g); [destruct H|]. cbn. apply orb_true_r.
    - rewrite H. reflexivity. }
  split; [exact Ht|]. cbn [gstep]. rewrite H2, HW, Ht. eexists; split; reflexivity.
Qed.
