(** C04 / C05: life-cycle facts of the pipe LTS (error latch, Close, clean-up loop, cancellation). *)
From Coq Require Import List NArith ZArith Bool Arith Lia.
Require Import RV.Model.Base RV.Model.PipeQueue RV.Model.Pipe RV.Model.PipeLts.
Require Import RV.Proofs.PipeLtsBasics RV.Proofs.PipeExclusive.
Import ListNotations.
Open Scope N_scope.

(** breaks a hypothesis [pstep g s l = Some s'] into its enabled branches *)
Ltac break_step H :=
  repeat match type of H with
         | (if ?x then _ else _) = Some _ =>
           let E := fresh "E" in destruct x eqn:E; try discriminate H
         | (match ?x with _ => _ end) = Some _ =>
           let E := fresh "E" in destruct x eqn:E; try discriminate H
         | (let '(_, _) := ?x in _) = Some _ =>
           let E := fresh "E" in destruct x eqn:E
         end.

Definition closer_past_cas (k : kpc) : Prop := match k with K2 _ _ | KWait _ | K5 | KDone => True | _ => False end.

Record InvC (s : pstate) : Prop := mkInvC {
  c_err : st_closed s -> p_err s <> None;
  c_k1 : forall t, p_closers s t <> KIdle -> p_err s <> None;
  c_cas : forall t, closer_past_cas (p_closers s t) -> st_closed s;
  c_post : match p_b s with BPost | BClean | BWaitClose | BDone => st_closed s /\ p_conn s = false | _ => True end;
  c_wdone : (p_wclosed s = true <-> p_w s = WDone)
}.

Lemma invc_init g : InvC (p_init g).
Proof.
  constructor; cbn.
  - intros [K|K]; discriminate.
  - intros t K. contradiction.
  - intros t [].
  - exact I.
  - split; intros K; discriminate.
Qed.

Lemma st_closed_bg s : st_closed s -> st_closed (do_background s).
Proof. unfold st_closed, do_background. intros [K|K]; destruct (p_bg s); cbn; rewrite K; cbn; auto. Qed.

Lemma st_closed_bg_inv s : st_closed (do_background s) -> st_closed s.
Proof.
  unfold st_closed, do_background. destruct (p_bg s); cbn; destruct (N.eqb (p_st s) 0) eqn:E; auto;
    intros [K|K]; discriminate.
Qed.

Lemma invc_do_background s : InvC s -> (p_bg s = false -> p_w s = WOff) -> InvC (do_background s).
Proof.
  intros [c1 c2 c3 c4 c5] Hw.
  assert (Eerr : p_err (do_background s) = p_err s) by (unfold do_background; destruct (p_bg s); reflexivity).
  assert (Ecl : p_closers (do_background s) = p_closers s) by (unfold do_background; destruct (p_bg s); reflexivity).
  constructor; rewrite ?Eerr, ?Ecl.
  - intros K. apply c1. now apply st_closed_bg_inv.
  - exact c2.
  - intros t K. apply st_closed_bg. eauto.
  - unfold do_background. destruct (p_bg s) eqn:Eb; cbn.
    + destruct (p_b s); auto; destruct c4 as [K1 K2]; split; auto;
        unfold st_closed in *; cbn; destruct K1 as [K|K]; rewrite K; cbn; auto.
    + exact I.
  - unfold do_background. destruct (p_bg s) eqn:Eb; cbn; [exact c5|].
    split; intros K; [|discriminate]. apply c5 in K. rewrite (Hw eq_refl) in K. discriminate.
Qed.

Lemma invc_do_exit s e : InvC s -> InvC (do_exit s e).
Proof.
  intros [c1 c2 c3 c4 c5].
  assert (Hcl : st_closed s -> st_closed (do_exit s e)).
  { unfold st_closed; cbn. intros [K|K]; rewrite K; cbn; auto. }
  constructor; cbn.
  - intros _. destruct (p_err s); discriminate.
  - intros t _. destruct (p_err s); discriminate.
  - intros t K. apply Hcl. eauto.
  - destruct (p_b s); auto; destruct c4 as [K1 K2]; split; auto.
  - exact c5.
Qed.

(** steps that leave everything InvC reads unchanged *)
Lemma invc_same s s' :
  InvC s -> p_st s' = p_st s -> p_err s' = p_err s -> p_closers s' = p_closers s -> p_b s' = p_b s ->
  p_conn s' = p_conn s -> p_wclosed s' = p_wclosed s -> p_w s' = p_w s -> InvC s'.
Proof.
  intros [c1 c2 c3 c4 c5] e1 e2 e3 e4 e5 e6 e7.
  constructor; unfold st_closed in *; rewrite ?e1, ?e2, ?e3, ?e4, ?e5, ?e6, ?e7; auto.
Qed.

Lemma bg_st s : InvA s -> p_b s <> BOff -> p_st s = 1 \/ st_closed s.
Proof.
  intros IA Hb. assert (Hbg : p_bg s = true).
  { destruct (p_bg s) eqn:E; [reflexivity|]. destruct (a_bgw s IA E). contradiction. }
  pose proof (a_bgst s IA Hbg). destruct (a_st s IA) as [K|[K|[K|K]]]; unfold st_closed; auto. contradiction.
Qed.

Lemma invc_step g s l s' : InvA s -> InvC s -> pstep g s l = Some s' -> InvC s'.
Proof.
  intros IA IC H.
  assert (Hw : p_bg s = false -> p_w s = WOff) by (intros K; apply (a_bgw s IA K)).
  destruct l; cbn [pstep] in H.
  - break_step H. inversion H; subst. apply (invc_same s); auto.
  - break_step H; inversion H; subst; apply (invc_same s); auto.
  - break_step H; inversion H; subst; apply (invc_same s); auto.
  - break_step H. inversion H; subst. apply (invc_same (do_background s)); auto. now apply invc_do_background.
  - break_step H. inversion H; subst. apply (invc_same s); auto.
  - break_step H; inversion H; subst; apply (invc_same s); auto.
  - (* LSyncFail *)
    destruct ((match k_pc (p_calls s t) with PSyncW | PSyncR _ => true | _ => false end) &&
              (if ctxerr then match k_ctx (p_calls s t) with CtxDeadline => k_done (p_calls s t) | _ => false end else true)); [|discriminate].
    inversion H; subst; clear H.
    set (e := if ctxerr then ECtx else EConn).
    assert (I0 : InvC (set_wire (latch s e true) [] [])).
    { destruct IC as [c1 c2 c3 c4 c5]. constructor; cbn; auto.
      - intros _. destruct (p_err s); discriminate.
      - intros u _. destruct (p_err s); discriminate.
      - destruct (p_b s); auto; destruct c4; auto. }
    apply (invc_same (do_background (set_wire (latch s e true) [] []))); auto.
    apply invc_do_background; auto.
  - break_step H. inversion H; subst. apply (invc_same s); auto.
  - break_step H; inversion H; subst; apply (invc_same s); auto.
  - break_step H. inversion H; subst. apply (invc_same (do_background s)); auto. now apply invc_do_background.
  - break_step H. inversion H; subst. apply (invc_same s); auto.
  - break_step H. inversion H; subst. apply (invc_same s); auto.
  - break_step H. inversion H; subst. apply (invc_same s); auto.
  - break_step H. inversion H; subst. apply (invc_same s); auto.
  - break_step H. inversion H; subst. apply (invc_same s); auto.
  - break_step H. inversion H; subst. apply (invc_same s); auto.
  - break_step H. inversion H; subst. apply (invc_same s); auto.
  - break_step H; inversion H; subst; apply (invc_same s); auto.
  - break_step H. inversion H; subst. apply (invc_same s); auto.
  - break_step H. inversion H; subst. apply (invc_same s); auto.
  - (* LWExit *)
    break_step H. inversion H; subst; clear H.
    pose proof (invc_do_exit s EConn IC) as [c1 c2 c3 c4 c5]. constructor; cbn in *; auto.
    split; reflexivity.
  - break_step H. inversion H; subst. apply (invc_same s); auto.
  - break_step H. inversion H; subst. apply (invc_same s); auto.
  - (* LRStep *)
    destruct (p_b s) as [|r| | | |] eqn:Eb; try discriminate.
    destruct (p_s2c s) as [|f rest]; [discriminate|].
    destruct (reader_step (g_r2ps g) (g_ver g) (hd_error (q_wr (p_q s))) r f) as [r' acts].
    destruct (existsb is_bad acts); [discriminate|]. inversion H; subst; clear H.
    pose proof (fold_apply_same_ctl (r_owner r') (r_resps r') acts (set_wire s (p_c2s s) rest)) as K.
    destruct K as (a1&a2&a3&a4&a5&a6&a7&a8&a9&a10&a11&a12&a13&a14&a15&a16&a17&a18).
    destruct IC as [c1 c2 c3 c4 c5].
    constructor; unfold st_closed in *; cbn [p_st p_err p_closers p_b p_conn p_wclosed p_w set_b]; rewrite ?a1, ?a4, ?a14, ?a8, ?a7, ?a5; auto.
  - (* LRFail *)
    destruct (p_b s) as [|r| | | |] eqn:Eb; try discriminate.
    destruct (reader_exit r) as [idx complete]. inversion H; subst; clear H.
    destruct (bg_st s IA) as [Hst|Hst]; [rewrite Eb; discriminate| |].
    + destruct IC as [c1 c2 c3 c4 c5]. destruct complete; constructor; unfold st_closed; cbn; rewrite ?Hst; cbn; auto;
        try (intros; destruct (p_err s); discriminate).
    + destruct IC as [c1 c2 c3 c4 c5].
      assert (Hcl : (if N.eqb (p_st s) 1 then 2 else p_st s) = 2 \/ (if N.eqb (p_st s) 1 then 2 else p_st s) = 4).
      { destruct Hst as [K|K]; rewrite K; cbn; auto. }
      destruct complete; constructor; unfold st_closed; cbn; auto;
        try (intros; destruct (p_err s); discriminate).
  - (* LPostSkip *)
    break_step H. inversion H; subst; clear H. destruct IC as [c1 c2 c3 c4 c5]. try rewrite E in c4. constructor; cbn; auto.
  - break_step H. inversion H; subst; clear H. destruct IC as [c1 c2 c3 c4 c5]. try rewrite E in c4. constructor; cbn; auto.
  - break_step H. inversion H; subst. apply (invc_same s); auto.
  - break_step H. inversion H; subst. apply (invc_same s); auto.
  - break_step H. inversion H; subst. assumption.
  - break_step H. inversion H; subst; clear H. destruct IC as [c1 c2 c3 c4 c5]. try rewrite E in c4. constructor; cbn; auto.
  - (* LFinal *)
    break_step H. inversion H; subst; clear H. destruct IC as [c1 c2 c3 c4 c5]. try rewrite E in c4.
    destruct c4 as [K1 K2]. constructor; unfold st_closed; cbn; auto.
  - (* LFail *)
    break_step H. inversion H; subst; clear H. destruct IC as [c1 c2 c3 c4 c5]. constructor; cbn; auto.
    destruct (p_b s); auto; destruct c4; auto.
  - inversion H; subst. now apply invc_do_exit.
  - (* LClose1 *)
    break_step H. inversion H; subst; clear H. destruct IC as [c1 c2 c3 c4 c5]. constructor; cbn; auto.
    + intros _. destruct (p_err s); discriminate.
    + intros u _. destruct (p_err s); discriminate.
    + intros u. unfold upd. destruct (N.eqb u t); [intros []|apply c3].
  - (* LClose2 *)
    destruct (p_closers s t) as [|w| | | |] eqn:Ek; try discriminate. inversion H; subst; clear H.
    destruct IC as [c1 c2 c3 c4 c5].
    assert (Herr : p_err s <> None) by (apply (c2 t); rewrite Ek; discriminate).
    assert (Hcl : forall x, (if N.eqb (p_st s) 0 || N.eqb (p_st s) 1 then 2 else p_st s) = x -> x = 2 \/ x = 4).
    { intros x <-. destruct (a_st s IA) as [K|[K|[K|K]]]; rewrite K; cbn; auto. }
    constructor; unfold st_closed; cbn; auto.
    all: try solve [intros; eapply Hcl; reflexivity].
    all: try solve [destruct (p_b s); auto; destruct c4 as [K1 K2]; split; auto; eapply Hcl; reflexivity].
  - (* LClose3 *)
    destruct (p_closers s t) as [| |bg ping| | |] eqn:Ek; try discriminate.
    assert (Hcl : st_closed s) by (apply (c_cas s IC t); rewrite Ek; exact I).
    assert (Herr : p_err s <> None) by (apply (c_k1 s IC t); rewrite Ek; discriminate).
    destruct bg.
    + inversion H; subst; clear H.
      pose proof (invc_do_background s IC Hw) as [c1 c2 c3 c4 c5].
      assert (Eerr : p_err (do_background s) = p_err s) by (unfold do_background; destruct (p_bg s); reflexivity).
      constructor; cbn; auto.
      all: try solve [intros; rewrite Eerr; exact Herr].
      all: try solve [intros; now apply st_closed_bg].
    + destruct ping; [discriminate|]. inversion H; subst; clear H. destruct IC as [c1 c2 c3 c4 c5]. constructor; cbn; auto.
  - (* LClose4 *)
    destruct (p_closers s t) as [| |bg ping| | |] eqn:Ek; try discriminate.
    assert (Hcl : st_closed s) by (apply (c_cas s IC t); rewrite Ek; exact I).
    assert (Herr : p_err s <> None) by (apply (c_k1 s IC t); rewrite Ek; discriminate).
    break_step H. inversion H; subst; clear H. destruct IC as [c1 c2 c3 c4 c5]. constructor; cbn; auto.
  - (* LCloseJoin *)
    destruct (p_closers s t) as [| | |t'| |] eqn:Ek; try discriminate.
    assert (Hcl : st_closed s) by (apply (c_cas s IC t); rewrite Ek; exact I).
    assert (Herr : p_err s <> None) by (apply (c_k1 s IC t); rewrite Ek; discriminate).
    break_step H. inversion H; subst; clear H. destruct IC as [c1 c2 c3 c4 c5]. constructor; cbn; auto.
  - (* LClose5 *)
    destruct (p_closers s t) eqn:Ek; try discriminate.
    assert (Hcl : st_closed s) by (apply (c_cas s IC t); rewrite Ek; exact I).
    assert (Herr : p_err s <> None) by (apply (c_k1 s IC t); rewrite Ek; discriminate).
    inversion H; subst; clear H. destruct IC as [c1 c2 c3 c4 c5]. constructor; cbn; auto.
    destruct (p_b s); auto; destruct c4; auto.
Qed.

Theorem invc_run g sched : forall s s', InvA s -> InvC s ->
  prun g sched s = Some s' -> InvA s' /\ InvC s'.
Proof.
  induction sched as [|l r IH]; intros s s' IA IC H; cbn [prun] in H.
  - inversion H; subst; auto.
  - destruct (pstep g s l) as [s1|] eqn:E; [|discriminate]. eapply IH; [| |exact H].
    + eapply inva_step; eauto.
    + eapply invc_step; eauto.
Qed.

(** the latched error never changes *)
Lemma err_stable g s l s' e : pstep g s l = Some s' -> p_err s = Some e -> p_err s' = Some e.
Proof.
  intros H He. destruct l; cbn [pstep] in H; break_step H; try (inversion H; subst; clear H; cbn; try rewrite He; try reflexivity; fail).
  all: try (inversion H; subst; clear H; unfold do_background; destruct (p_bg s); cbn; rewrite ?He; reflexivity).
  all: try (inversion H; subst; clear H; unfold do_background; cbn; destruct (p_bg s); cbn; rewrite ?He; reflexivity).
  all: try (inversion H; subst; clear H; cbn;
            match goal with |- p_err (fold_left (apply_act ?o ?m) ?a ?s0) = _ =>
              pose proof (fold_apply_same_ctl o m a s0) as K end;
            destruct K as (_&_&_&K&_); rewrite K; exact He).
  all: try (inversion H; subst; clear H; cbn; destruct b; cbn; rewrite He; reflexivity).

Qed.

(** ** C04_drain: after the clean-up loop has left (waits = 0) nobody waits on this pipe any more *)
Definition quiet_c (c : crec) : Prop :=
  match k_pc c with PIdle | PIncr | PLoad _ | PErr | PDecr false | PRet => True | _ => False end /\
  (k_drain c = DNone \/ k_drain c = DDone).
Definition quiet_k (k : kpc) : Prop :=
  match k with KIdle | K1 _ | K2 false false | K5 | KDone => True | _ => False end.
Definition drained (s : pstate) : Prop := p_b s = BWaitClose \/ p_b s = BDone.

Record InvD (s : pstate) : Prop := mkInvD {
  d_cache : match p_b s with BClean | BWaitClose | BDone => p_cache_closed s = true | _ => True end;
  d_quiet : drained s -> (forall t, quiet_c (p_calls s t)) /\ (forall t, quiet_k (p_closers s t))
}.

Lemma invd_init g : InvD (p_init g).
Proof. constructor; cbn; [exact I|]. intros [K|K]; discriminate. Qed.

Lemma holds0_quiet c : holds c = 0%nat -> quiet_c c.
Proof.
  unfold holds, quiet_c. destruct (k_pc c) as [| | | | | | |b| | | | |]; destruct (k_drain c); cbn; intros H; try lia; auto.
Qed.

Lemma kholds0_quiet k : kholds k = 0%nat -> quiet_k k.
Proof. destruct k; cbn; intros H; try lia; auto. Qed.

(** generic: caller t's record changes, p_b / closers / cache flag do not *)
Lemma invd_call s s' t c' :
  InvD s -> p_b s' = p_b s -> p_closers s' = p_closers s -> p_cache_closed s' = p_cache_closed s ->
  (forall u, p_calls s' u = upd (p_calls s) t c' u) ->
  (drained s -> quiet_c (p_calls s t) -> quiet_c c') ->
  InvD s'.
Proof.
  intros [d1 d2] e1 e2 e3 e4 Hq. constructor; unfold drained; rewrite ?e1, ?e2, ?e3; auto.
  intros Hd. destruct (d2 Hd) as [A B]. split; [|exact B].
  intros u. rewrite e4. unfold upd. destruct (N.eqb u t) eqn:E; [|apply A]. apply Hq; auto.
Qed.

Lemma invd_same s s' :
  InvD s -> p_b s' = p_b s -> p_closers s' = p_closers s -> p_cache_closed s' = p_cache_closed s ->
  (forall u, k_pc (p_calls s' u) = k_pc (p_calls s u) /\ k_drain (p_calls s' u) = k_drain (p_calls s u)) ->
  InvD s'.
Proof.
  intros [d1 d2] e1 e2 e3 e4. constructor; unfold drained; rewrite ?e1, ?e2, ?e3; auto.
  intros Hd. destruct (d2 Hd) as [A B]. split; [|exact B].
  intros u. destruct (e4 u) as [K1 K2]. unfold quiet_c. rewrite K1, K2. apply A.
Qed.

Lemma invd_closer s s' t k' :
  InvD s -> p_b s' = p_b s -> p_cache_closed s' = p_cache_closed s -> p_calls s' = p_calls s ->
  (forall u, p_closers s' u = upd (p_closers s) t k' u) ->
  (drained s -> quiet_k (p_closers s t) -> quiet_k k') ->
  InvD s'.
Proof.
  intros [d1 d2] e1 e3 e2 e4 Hq. constructor; unfold drained; rewrite ?e1, ?e2, ?e3; auto.
  intros Hd. destruct (d2 Hd) as [A B]. split; [exact A|].
  intros u. rewrite e4. unfold upd. destruct (N.eqb u t) eqn:E; [|apply B]. apply Hq; auto.
Qed.

Lemma not_drained_b s b : p_b s = b -> (match b with BWaitClose | BDone => False | _ => True end) -> ~ drained s.
Proof. intros E Hb [K|K]; rewrite E in K; rewrite K in Hb; exact Hb. Qed.

Lemma drained_closed s : InvC s -> drained s -> st_closed s.
Proof. intros IC [K|K]; pose proof (c_post s IC) as P; rewrite K in P; apply P. Qed.

Ltac qsolve Epc :=
  let Hd := fresh "Hd" in let Q1 := fresh "Q1" in let Q2 := fresh "Q2" in
  intros Hd [Q1 Q2]; unfold quiet_c in *; cbn in *; rewrite ?Epc in *; try contradiction; split; cbn; auto.

Lemma invd_step g s l s' : InvA s -> InvC s -> InvD s -> pstep g s l = Some s' -> InvD s'.
Proof.
  intros IA IC ID H. destruct l; cbn [pstep] in H.
  - (* LCall *) break_step H. inversion H; subst; clear H.
    eapply (invd_call s _ t); [exact ID|reflexivity|reflexivity|reflexivity|intros u; reflexivity|]. intros _ _. split; cbn; auto.
  - (* LIncr *) destruct (k_pc (p_calls s t)) eqn:Epc; try discriminate. break_step H; inversion H; subst; clear H.
    + eapply (invd_call s _ t); [exact ID|reflexivity|reflexivity|reflexivity|intros u; reflexivity|]. intros _ _. split; cbn; auto.
    + eapply (invd_call s _ t); [exact ID|reflexivity|reflexivity|reflexivity|intros u; reflexivity|]. qsolve Epc.
  - (* LLoad *) destruct (k_pc (p_calls s t)) eqn:Epc; try discriminate.
    assert (K : drained s -> N.eqb (p_st s) 1 = false /\ N.eqb (p_st s) 0 = false).
    { intros Hd. destruct (drained_closed s IC Hd) as [E|E]; rewrite E; auto. }
    break_step H; inversion H; subst; clear H;
      (eapply (invd_call s _ t); [exact ID|reflexivity|reflexivity|reflexivity|intros u; reflexivity|]);
      try (intros Hd _; destruct (K Hd); congruence).
    qsolve Epc.
  - (* LBg *) destruct (k_pc (p_calls s t)) eqn:Epc; try discriminate. inversion H; subst; clear H.
    assert (Eb : p_b (do_background s) = p_b s \/ p_bg s = false).
    { unfold do_background. destruct (p_bg s); auto. }
    destruct ID as [d1 d2]. constructor.
    + unfold do_background. destruct (p_bg s); cbn; auto.
    + intros Hd. assert (Hd' : drained s).
      { unfold drained, do_background in *. destruct (p_bg s); cbn in *; auto. destruct Hd; discriminate. }
      destruct (d2 Hd') as [A B]. exfalso. destruct (A t) as [Q _]. rewrite Epc in Q. exact Q.
  - (* LSyncW *) destruct (k_pc (p_calls s t)) eqn:Epc; try discriminate. break_step H. inversion H; subst; clear H.
    eapply (invd_call s _ t); [exact ID|reflexivity|reflexivity|reflexivity|intros u; reflexivity|]. qsolve Epc.
  - (* LSyncR *) destruct (k_pc (p_calls s t)) eqn:Epc; try discriminate. break_step H; inversion H; subst; clear H.
    all: first [ solve [eapply (invd_same s); eauto]
               | eapply (invd_call s _ t); [exact ID|reflexivity|reflexivity|reflexivity|intros u; reflexivity|]; qsolve Epc ].
  - (* LSyncFail *)
    destruct ((match k_pc (p_calls s t) with PSyncW | PSyncR _ => true | _ => false end) &&
              (if ctxerr then match k_ctx (p_calls s t) with CtxDeadline => k_done (p_calls s t) | _ => false end else true)) eqn:G; [|discriminate].
    apply andb_true_iff in G as [G _]. inversion H; subst; clear H.
    destruct ID as [d1 d2]. constructor.
    + unfold do_background. cbn. destruct (p_bg s); cbn; auto.
    + intros Hd. assert (Hd' : drained s).
      { unfold drained, do_background in *. cbn in *. destruct (p_bg s); cbn in *; auto. destruct Hd; discriminate. }
      destruct (d2 Hd') as [A B]. exfalso. destruct (A t) as [Q _]. destruct (k_pc (p_calls s t)); try discriminate; exact Q.
  - (* LErr *) destruct (k_pc (p_calls s t)) eqn:Epc; try discriminate. inversion H; subst; clear H.
    eapply (invd_call s _ t); [exact ID|reflexivity|reflexivity|reflexivity|intros u; reflexivity|]. qsolve Epc.
  - (* LDecr *) destruct (k_pc (p_calls s t)) as [| | | | | | |st0| | | | |] eqn:Epc; try discriminate.
    break_step H; inversion H; subst; clear H; (eapply (invd_call s _ t); [exact ID|reflexivity|reflexivity|reflexivity|intros u; reflexivity|]); qsolve Epc.
    destruct st0; [exact Q1|discriminate E].
  - (* LBgAfter *) destruct (k_pc (p_calls s t)) eqn:Epc; try discriminate. inversion H; subst; clear H.
    destruct ID as [d1 d2]. constructor.
    + unfold do_background. destruct (p_bg s); cbn; auto.
    + intros Hd. assert (Hd' : drained s).
      { unfold drained, do_background in *. destruct (p_bg s); cbn in *; auto. destruct Hd; discriminate. }
      destruct (d2 Hd') as [A B]. exfalso. destruct (A t) as [Q _]. rewrite Epc in Q. exact Q.
  - (* LPut *) destruct (k_pc (p_calls s t)) eqn:Epc; try discriminate. break_step H. inversion H; subst; clear H.
    eapply (invd_call s _ t); [exact ID|reflexivity|reflexivity|reflexivity|intros u; reflexivity|]. qsolve Epc.
  - (* LPutFail *) destruct (k_pc (p_calls s t)) eqn:Epc; try discriminate. break_step H. inversion H; subst; clear H.
    eapply (invd_call s _ t); [exact ID|reflexivity|reflexivity|reflexivity|intros u; reflexivity|]. qsolve Epc.
  - (* LRecv *) destruct (k_pc (p_calls s t)) eqn:Epc; try discriminate. break_step H. inversion H; subst; clear H.
    eapply (invd_call s _ t); [exact ID|reflexivity|reflexivity|reflexivity|intros u; reflexivity|]. qsolve Epc.
  - (* LAbort *) destruct (k_pc (p_calls s t)) eqn:Epc; try discriminate. break_step H. inversion H; subst; clear H.
    eapply (invd_call s _ t); [exact ID|reflexivity|reflexivity|reflexivity|intros u; reflexivity|]. qsolve Epc.
  - (* LFin *) destruct (k_pc (p_calls s t)) eqn:Epc; try discriminate. inversion H; subst; clear H.
    eapply (invd_call s _ t); [exact ID|reflexivity|reflexivity|reflexivity|intros u; reflexivity|]. qsolve Epc.
  - (* LDrainRecv *) destruct (k_drain (p_calls s t)) eqn:Ed; try discriminate. break_step H. inversion H; subst; clear H.
    eapply (invd_call s _ t); [exact ID|reflexivity|reflexivity|reflexivity|intros u; reflexivity|].
    intros Hd [Q1 Q2]. rewrite Ed in Q2. destruct Q2; discriminate.
  - (* LDrainFin *) destruct (k_drain (p_calls s t)) eqn:Ed; try discriminate. inversion H; subst; clear H.
    eapply (invd_call s _ t); [exact ID|reflexivity|reflexivity|reflexivity|intros u; reflexivity|].
    intros Hd [Q1 Q2]. rewrite Ed in Q2. destruct Q2; discriminate.
  - (* LCtxDone *)
    assert (K : (if k_done (p_calls s t) then None else Some (set_call s t (with_done (p_calls s t)))) = Some s' -> InvD s').
    { destruct (k_done (p_calls s t)); [discriminate|]. intros H1. inversion H1; subst.
      eapply (invd_same s); eauto. intros u. cbn. unfold upd. destruct (N.eqb u t) eqn:E; [apply N.eqb_eq in E; subst; auto|auto]. }
    destruct (k_ctx (p_calls s t)); [discriminate| |]; destruct (k_pc (p_calls s t)); try discriminate; auto.
  - (* LWNext *) break_step H. inversion H; subst. eapply (invd_same s); eauto.
  - break_step H. inversion H; subst. eapply (invd_same s); eauto.
  - (* LWExit *) break_step H. inversion H; subst. eapply (invd_same s); eauto.
  - break_step H. inversion H; subst. eapply (invd_same s); eauto.
  - break_step H. inversion H; subst. eapply (invd_same s); eauto.
  - (* LRStep *)
    destruct (p_b s) as [|r| | | |] eqn:Eb; try discriminate. break_step H. inversion H; subst; clear H.
    destruct ID as [d1 d2]. constructor; cbn; auto. intros [K|K]; discriminate.
  - (* LRFail *)
    destruct (p_b s) as [|r| | | |] eqn:Eb; try discriminate. break_step H. inversion H; subst; clear H.
    destruct ID as [d1 d2]. constructor; cbn; auto. intros [K|K]; discriminate.
  - (* LPostSkip *)
    break_step H. inversion H; subst; clear H. destruct ID as [d1 d2]. constructor; cbn; auto. intros [K|K]; discriminate.
  - break_step H. inversion H; subst; clear H. destruct ID as [d1 d2]. constructor; cbn; auto. intros [K|K]; discriminate.
  - (* LCleanNW *) break_step H. inversion H; subst. eapply (invd_same s); eauto.
  - (* LCleanNR *)
    destruct (p_b s) eqn:Eb; try discriminate. break_step H. inversion H; subst; clear H.
    destruct ID as [d1 d2]. rewrite Eb in d1. constructor; cbn; rewrite ?Eb; auto. unfold drained; cbn. rewrite Eb. intros [K|K]; discriminate.
  - break_step H. inversion H; subst. assumption.
  - (* LCleanExit: waits = 0 *)
    destruct (p_b s) eqn:Eb; try discriminate. destruct (Nat.eqb (p_waits s) 0) eqn:Ew; [|discriminate]. inversion H; subst; clear H.
    apply Nat.eqb_eq in Ew. rewrite (a_count s IA) in Ew.
    destruct ID as [d1 d2]. rewrite Eb in d1. constructor; cbn; auto.
    intros _. split.
    + intros t. apply holds0_quiet. now apply hsum_zero_c.
    + intros t. apply kholds0_quiet. now apply hsum_zero_k.
  - (* LFinal *)
    destruct (p_b s) eqn:Eb; try discriminate. break_step H. inversion H; subst; clear H.
    destruct ID as [d1 d2]. rewrite Eb in d1. constructor; cbn; auto.
    intros _. apply d2. left. exact Eb.
  - break_step H. inversion H; subst. eapply (invd_same s); eauto.
  - inversion H; subst. eapply (invd_same s); eauto.
  - (* LClose1 *) break_step H. inversion H; subst; clear H.
    eapply (invd_closer s _ t); [exact ID|reflexivity|reflexivity|reflexivity|intros u; reflexivity|]. intros _ _. exact I.
  - (* LClose2 *)
    destruct (p_closers s t) as [|w| | | |] eqn:Ek; try discriminate. inversion H; subst; clear H.
    eapply (invd_closer s _ t); [exact ID|reflexivity|reflexivity|reflexivity|intros u; reflexivity|].
    intros Hd _. destruct (drained_closed s IC Hd) as [E|E]; rewrite E; cbn; rewrite andb_false_r; exact I.
  - (* LClose3 *)
    destruct (p_closers s t) as [| |bg ping| | |] eqn:Ek; try discriminate. destruct bg.
    + inversion H; subst; clear H. destruct ID as [d1 d2]. constructor.
      * unfold do_background. destruct (p_bg s); cbn; auto.
      * intros Hd. assert (Hd' : drained s).
        { unfold drained, do_background in *. destruct (p_bg s); cbn in *; auto. destruct Hd; discriminate. }
        destruct (d2 Hd') as [A B]. exfalso. specialize (B t). rewrite Ek in B. destruct ping; exact B.
    + destruct ping; [discriminate|]. inversion H; subst; clear H.
      eapply (invd_closer s _ t); [exact ID|reflexivity|reflexivity|reflexivity|intros u; reflexivity|]. intros _ _. exact I.
  - (* LClose4 *)
    destruct (p_closers s t) as [| |bg ping| | |] eqn:Ek; try discriminate. break_step H. inversion H; subst; clear H.
    destruct ID as [d1 d2]. constructor; cbn; auto.
    intros Hd. destruct (d2 Hd) as [A B]. exfalso. specialize (B t). rewrite Ek in B. exact B.
  - (* LCloseJoin *)
    destruct (p_closers s t) as [| | |t'| |] eqn:Ek; try discriminate. break_step H. inversion H; subst; clear H.
    eapply (invd_closer s _ t); [exact ID|reflexivity|reflexivity|reflexivity|intros u; reflexivity|]. intros _ _. exact I.
  - (* LClose5 *)
    destruct (p_closers s t) eqn:Ek; try discriminate. inversion H; subst; clear H.
    eapply (invd_closer s _ t); [exact ID|reflexivity|reflexivity|reflexivity|intros u; reflexivity|]. intros _ _. exact I.
Qed.

Section Life.
  Variable g : config.

  Theorem life_run sched : forall s s', InvA s -> InvC s -> InvD s -> prun g sched s = Some s' -> InvA s' /\ InvC s' /\ InvD s'.
  Proof.
    induction sched as [|l r IH]; intros s s' IA IC ID H; cbn [prun] in H.
    - inversion H; subst; auto.
    - destruct (pstep g s l) as [s1|] eqn:E; [|discriminate]. eapply IH; [| | |exact H].
      + eapply inva_step; eauto.
      + eapply invc_step; eauto.
      + eapply invd_step; eauto.
  Qed.

  Theorem life_reach sched s : prun g sched (p_init g) = Some s -> InvA s /\ InvC s /\ InvD s.
  Proof. intros H. eapply life_run; [apply inva_init|apply invc_init|apply invd_init|exact H]. Qed.

  (** C04_drain *)
  Theorem drain sched s :
    prun g sched (p_init g) = Some s -> drained s ->
    (forall t, quiet_c (p_calls s t)) /\ (forall t, quiet_k (p_closers s t)) /\
    p_cache_closed s = true /\ st_closed s /\ p_conn s = false /\ p_err s <> None /\ p_waits s = hsum s.
  Proof.
    intros H Hd. destruct (life_reach sched s H) as (IA&IC&ID).
    destruct (d_quiet s ID Hd) as [A B]. pose proof (d_cache s ID) as Dc. pose proof (c_post s IC) as Cp.
    pose proof (drained_closed s IC Hd) as Hcl.
    assert (Hcc : p_cache_closed s = true) by (destruct Hd as [K|K]; rewrite K in Dc; exact Dc).
    assert (Hconn : p_conn s = false) by (destruct Hd as [K|K]; rewrite K in Cp; apply Cp).
    pose proof (c_err s IC Hcl) as He. pose proof (a_count s IA) as Hc.
    split; [exact A|split; [exact B|split; [exact Hcc|split; [exact Hcl|split; [exact Hconn|split; [exact He|exact Hc]]]]]].
  Qed.

  (** C04_after_close *)
  Theorem after_close sched s k :
    prun g sched (p_init g) = Some s -> closer_past_cas (p_closers s k) ->
    st_closed s /\ p_err s <> None /\
    forall t w s', k_pc (p_calls s t) = PLoad w -> pstep g s (LLoad t) = Some s' -> k_pc (p_calls s' t) = PErr.
  Proof.
    intros H Hk. destruct (life_reach sched s H) as (IA&IC&ID).
    pose proof (c_cas s IC k Hk) as Hcl. split; [exact Hcl|]. split; [apply (c_err s IC Hcl)|].
    intros t w s' Epc Hs. cbn [pstep] in Hs. rewrite Epc in Hs.
    destruct Hcl as [E|E]; rewrite E in Hs; cbn in Hs; inversion Hs; subst; cbn; now rewrite upd_same.
  Qed.
End Life.

(** a call on the error path returns the latched error for every command *)
Lemma err_path_returns g s t s1 s2 :
  k_pc (p_calls s t) = PErr -> pstep g s (LErr t) = Some s1 -> pstep g s1 (LDecr t) = Some s2 ->
  k_ret (p_calls s2 t) = Some (errs_for (p_calls s t) (the_err s)).
Proof.
  intros Epc H1 H2. cbn [pstep] in H1. rewrite Epc in H1. inversion H1; subst; clear H1.
  cbn [pstep] in H2. cbn in H2. rewrite upd_same in H2. cbn in H2. inversion H2; subst; clear H2.
  cbn. rewrite upd_same. cbn. reflexivity.
Qed.

Lemma close_latches g s t s' : p_err s = None -> pstep g s (LClose1 t) = Some s' -> p_err s' = Some EClosing.
Proof. intros He H. cbn [pstep] in H. destruct (fresh s t); [|discriminate]. inversion H; subst. cbn. now rewrite He. Qed.
