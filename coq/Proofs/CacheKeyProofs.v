(** C08: the cache identity is exactly (key token, concatenation of the other tokens); it is therefore
    not injective, and injective on every set of commands whose token lengths are fixed. *)
From Coq Require Import List NArith Bool Arith Lia.
Require Import RV.Model.Base RV.Model.CacheKey RV.Proofs.LruBase.
Import ListNotations.

Lemma cache_key_spec scr s k c :
  cache_key scr s = Ok (k, c) -> k = key_of scr s /\ c = concat (rest_of scr s).
Proof.
  unfold cache_key, key_of, rest_of, key_pos.
  destruct s as [|a [|b [|x r]]].
  - destruct scr; cbn; [discriminate|]. intros [= <- <-]. split; reflexivity.
  - destruct scr; cbn; [discriminate|]. intros [= <- <-]. split; reflexivity.
  - cbn [length Nat.eqb negb andb]. rewrite andb_false_r. cbn. intros [= <- <-]. rewrite app_nil_r. split; reflexivity.
  - cbn [length Nat.eqb negb]. rewrite andb_true_r.
    destruct scr; cbn [nth_error]; [destruct (bytes_eqb x one); [|discriminate]|]; intros [= <- <-]; split; reflexivity.
Qed.

Theorem identity_characterised scr1 s1 scr2 s2 k1 c1 k2 c2 :
  cache_key scr1 s1 = Ok (k1, c1) -> cache_key scr2 s2 = Ok (k2, c2) ->
  ((k1, c1) = (k2, c2) <-> key_of scr1 s1 = key_of scr2 s2 /\ concat (rest_of scr1 s1) = concat (rest_of scr2 s2)) /\
  (k1 ++ c1 = k2 ++ c2 <-> key_of scr1 s1 ++ concat (rest_of scr1 s1) = key_of scr2 s2 ++ concat (rest_of scr2 s2)).
Proof.
  intros H1 H2. apply cache_key_spec in H1, H2. destruct H1 as [-> ->], H2 as [-> ->]. split; [|tauto].
  split; [intros [= -> ->]; split; reflexivity|intros [-> ->]; reflexivity].
Qed.

(** ** injectivity for fixed token lengths *)

Lemma app_eq_len {A : Type} (a c b d : list A) : length a = length c -> a ++ b = c ++ d -> a = c /\ b = d.
Proof.
  revert c. induction a as [|x a IH]; intros [|y c] Hl H; cbn in *; try discriminate; [tauto|].
  injection H as -> H. injection Hl as Hl. destruct (IH c Hl H) as [-> ->]. tauto.
Qed.

Lemma concat_inj_lengths {A : Type} (l1 l2 : list (list A)) :
  map (@length A) l1 = map (@length A) l2 -> concat l1 = concat l2 -> l1 = l2.
Proof.
  revert l2. induction l1 as [|x l1 IH]; intros [|y l2] Hl H; cbn in *; try discriminate; [reflexivity|].
  injection Hl as Hx Hl. destruct (app_eq_len x y _ _ Hx H) as [-> H']. f_equal. apply IH; assumption.
Qed.

Lemma remove_nth_map {A B : Type} (f : A -> B) n (l : list A) : map f (remove_nth n l) = remove_nth n (map f l).
Proof. revert n. induction l as [|x r IH]; intros [|n]; cbn; try reflexivity. f_equal. apply IH. Qed.

Lemma remove_nth_inj {A : Type} (d : A) n : forall l1 l2,
  length l1 = length l2 -> remove_nth n l1 = remove_nth n l2 -> nth n l1 d = nth n l2 d -> l1 = l2.
Proof.
  induction n as [|n IH]; intros [|x l1] [|y l2] Hl Hr Hn; cbn in *; try discriminate; try reflexivity.
  - congruence.
  - injection Hr as -> Hr. injection Hl as Hl. f_equal. apply IH; assumption.
Qed.

Lemma map_length_nth (s1 s2 : tokens) n : map (@length N) s1 = map (@length N) s2 -> length (nth n s1 []) = length (nth n s2 []).
Proof.
  revert s2 n. induction s1 as [|x s1 IH]; intros [|y s2] n H; cbn in *; try discriminate; [reflexivity|].
  injection H as Hx H. destruct n; [exact Hx|apply IH; exact H].
Qed.

Lemma key_pos_len scr s1 s2 : length s1 = length s2 -> key_pos scr s1 = key_pos scr s2.
Proof. unfold key_pos. intros ->. reflexivity. Qed.

Theorem injective_fixed_lengths scr s1 s2 :
  map (@length N) s1 = map (@length N) s2 ->
  (forall id, cache_key scr s1 = Ok id -> cache_key scr s2 = Ok id -> s1 = s2) /\
  (forall id, adapter_id scr s1 = Ok id -> adapter_id scr s2 = Ok id -> s1 = s2).
Proof.
  intro Hl. assert (Hlen : length s1 = length s2) by (rewrite <- (map_length (@length N) s1), Hl; apply map_length).
  pose proof (key_pos_len scr s1 s2 Hlen) as Hkp.
  assert (Hmain : forall k1 c1 k2 c2, cache_key scr s1 = Ok (k1, c1) -> cache_key scr s2 = Ok (k2, c2) -> k1 ++ c1 = k2 ++ c2 -> s1 = s2).
  { intros k1 c1 k2 c2 H1 H2 He. apply cache_key_spec in H1, H2. destruct H1 as [-> ->], H2 as [-> ->].
    unfold key_of, rest_of in *. rewrite <- Hkp in *. set (n := key_pos scr s1) in *.
    destruct (app_eq_len _ _ _ _ (map_length_nth s1 s2 n Hl) He) as [Hk Hc].
    apply (remove_nth_inj [] n); [exact Hlen| |exact Hk].
    apply concat_inj_lengths; [|exact Hc]. rewrite !remove_nth_map, Hl. reflexivity. }
  split.
  - intros [k c] H1 H2. eapply Hmain; [exact H1|exact H2|reflexivity].
  - intros id H1 H2. unfold adapter_id in *.
    destruct (cache_key scr s1) as [[k1 c1]| |] eqn:E1; try discriminate.
    destruct (cache_key scr s2) as [[k2 c2]| |] eqn:E2; try discriminate.
    injection H1 as <-. injection H2 as H2. eapply Hmain; [reflexivity|reflexivity|symmetry; exact H2].
Qed.

(** two-token commands (GET k, TTL k, ...): the built-in store's identity is injective *)
Theorem injective_two_tokens scr1 scr2 a b a' b' :
  cache_key scr1 [a; b] = cache_key scr2 [a'; b'] -> [a; b] = [a'; b'].
Proof. cbn. intros [= -> ->]. reflexivity. Qed.

(** MGET / JSON.MGET entries are stored under the identities of GET / JSON.GET *)
Theorem mget_agrees (m : bytes) (keys : list bytes) i k :
  nth_error keys i = Some k -> hd 0%N m <> 74%N -> m <> [] ->
  mget_cache_cmd (m :: keys) = Ok get /\ mget_cache_key (m :: keys) i = Ok k /\
  cache_key false [get; k] = Ok (k, get).
Proof.
  intros Hk Hm Hne. destruct m as [|b m]; [contradiction|]. cbn in Hm. apply N.eqb_neq in Hm.
  unfold mget_cache_cmd, mget_cache_key. rewrite Hm. cbn [nth_error]. rewrite Hk. repeat split; reflexivity.
Qed.

Theorem json_mget_agrees (m : bytes) (keys : list bytes) (path : bytes) i k :
  nth_error keys i = Some k -> hd 0%N m = 74%N ->
  mget_cache_cmd (m :: keys ++ [path]) = Ok (json_get ++ path) /\ mget_cache_key (m :: keys ++ [path]) i = Ok k /\
  cache_key false [json_get; k; path] = Ok (k, json_get ++ path).
Proof.
  intros Hk Hm. destruct m as [|b m]; [discriminate|]. cbn in Hm. subst b.
  unfold mget_cache_cmd, mget_cache_key. cbn [N.eqb Pos.eqb nth_error]. split; [|split].
  - f_equal. f_equal. change (74%N :: m) with (hd [] ((74%N :: m) :: keys ++ [path])).
    assert (H : forall (x : bytes) l, last (x :: l ++ [path]) [] = path).
    { intros x l. revert x. induction l as [|y l IH]; intro x; [reflexivity|]. cbn [app]. change (last (x :: y :: l ++ [path]) []) with (last (y :: l ++ [path]) []). apply IH. }
    apply H.
  - rewrite nth_error_app1; [rewrite Hk; reflexivity|]. apply nth_error_Some. congruence.
  - cbn. rewrite app_nil_r. reflexivity.
Qed.
