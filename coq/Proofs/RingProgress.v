(** Ring LTS: absence of stuck states.  Whenever a ticket holder has not been answered yet, a step that
    moves the queue forward is enabled (a fill, a dequeue, a completion, a hand-over, an unlock or a
    wake-up) - polling steps that find nothing do not count. *)
From Coq Require Import List NArith ZArith Bool Arith Lia.
Require Import RV.Model.Base RV.Model.Ring RV.Proofs.RingBase RV.Proofs.RingInv RV.Proofs.RingInv2 RV.Proofs.RingTheorems.
Import ListNotations.
Local Open Scope nat_scope.

Ltac rst := cbn [write read1 read2 slots wpc rpc nw n1 n2 wseq rseq recv
                 set_slots set_slot set_counts set_wpc set_rpc add_recv
                 mark payload pm c_one c_multi c_resps slept rlock tk parked1 woken1 bc wt wparked wwoken fillseq
                 sl_lists sl_fill sl_mark sl_clear sl_writer sl_rlock] in *.

Definition progress (st : state) (l : label) (st' : state) : Prop :=
  match l with
  | PutTicket => False
  | PutLock p s _ => length (fillseq (slots st' s)) = S (length (fillseq (slots st s)))
  | PutBcast _ _ => True
  | WNext | WWaitEnter | WWaitRetry => n1 st' = S (n1 st)
  | RNext => n2 st' = S (n2 st)
  | RDeliver _ | RUnlock | RSignal _ => True
  | WNextBusy => False
  end.

Section Progress.
Variable k : nat.
Variable start : N.
Notation sof := (sof k start).
Notation cntpos := (cntpos k start).

Lemma fill_enabled : forall st s p m, mark (slots st s) = 0 -> rlock (slots st s) = false ->
  (memb p (tk (slots st s)) = true \/ memb p (woken1 (slots st s)) = true) ->
  exists st', lstep k st (PutLock p s m) = Some st' /\ progress st (PutLock p s m) st'.
Proof.
  intros st s p m Hm Hr Hp. cbn [lstep]. rewrite Hr. cbn [negb andb].
  assert (G : memb p (tk (slots st s)) || memb p (woken1 (slots st s)) = true) by (apply orb_true_iff; exact Hp).
  rewrite G. set (x := slots st s) in *.
  remember (if memb p (tk x) then sl_lists x (remove1 p (tk x)) (parked1 x) (woken1 x) (bc x) (wt x)
            else sl_lists x (tk x) (parked1 x) (remove1 p (woken1 x)) (bc x) (wt x)) as x1 eqn:Ex1.
  assert (M : mark x1 = 0 /\ fillseq x1 = fillseq x) by (subst x1; destruct (memb p (tk x)); rst; auto).
  destruct M as [M1 M2]. clear Ex1. rewrite M1. cbn [Nat.eqb]. eexists. split; [reflexivity|].
  unfold progress. rst. rewrite upd_same. destruct (slept x1); rst; rewrite M2, app_length; cbn [length]; subst x; lia.
Qed.

Lemma hd_memb : forall l, l <> [] -> exists p, memb p l = true.
Proof. intros [|p r] H; [congruence|]. exists p. apply memb_head. Qed.

Theorem ring_not_stuck : forall st, reachable k start st -> (n2 st < nw st \/ rpc st <> RIdle) ->
  exists l st', lstep k st l = Some st' /\ progress st l st'.
Proof.
  intros st Hr Hwork. destruct (inv_reachable _ _ _ Hr) as [A T W].
  destruct (rpc st) as [|s it|s] eqn:Hrp.
  2:{ (* the reader holds a slot *)
      destruct it as [i|].
      - pose proof (a_hold _ _ _ A s i Hrp) as Hm.
        assert (Hu : und st s = Some i) by (unfold und; rewrite Hm, Hrp; cbn [Nat.eqb]; rewrite Nat.eqb_refl; reflexivity).
        destruct (so_single _ _ st s i A Hu) as [[B Wt]|[B Wt]].
        + exists (PutBcast i s). cbn [lstep]. rewrite B. rewrite memb_head. eexists. split; [reflexivity|exact I].
        + exists (RDeliver i). cbn [lstep]. rewrite Hrp, Wt, memb_head. eexists. split; [reflexivity|exact I].
      - exists RUnlock. cbn [lstep]. rewrite Hrp. eexists. split; [reflexivity|exact I]. }
  2:{ (* the reader still has to signal *)
      destruct (parked1 (slots st s)) as [|p r] eqn:Hp.
      - exists (RSignal None). cbn [lstep]. rewrite Hrp, Hp. cbn [is_nil]. eexists. split; [reflexivity|exact I].
      - exists (RSignal (Some p)). cbn [lstep]. rewrite Hrp, Hp, memb_head. eexists. split; [reflexivity|exact I]. }
  (* the reader is idle: no slot is locked *)
  destruct Hwork as [Hwork|Hwork]; [|congruence].
  pose proof (rlock_free_idle _ _ st A Hrp) as Hfree.
  pose proof (a_le _ _ _ A) as Hle.
  destruct (Nat.eq_dec (n2 st) (n1 st)) as [Heq|Hne].
  2:{ (* a written command waits for its reply *)
      set (s := sof (S (n2 st))).
      assert (Hm : mark (slots st s) = 2).
      { pose proof (a_ci _ _ _ A s) as Hci. unfold CI in Hci. cbv zeta in Hci.
        assert (Hlt : cntpos (n2 st) s < cntpos (n1 st) s).
        { assert (H := cntpos_mono k start (S (n2 st)) (n1 st) s ltac:(lia)). unfold s in H at 1. rewrite cntpos_succ_same in H. fold s in H. lia. }
        destruct Hci as [(C1 & _ & _ & C4)|[(C1 & _ & _ & C4)|(C1 & _)]]; [lia|lia|exact C1]. }
      exists RNext. cbn [lstep]. rewrite Hrp. rewrite (a_read2 _ _ _ A), u32_succ.
      change (idx k (u32 (start + N.of_nat (S (n2 st))))) with s. rewrite (Hfree s), Hm. cbn [Nat.eqb].
      eexists. split; [reflexivity|]. unfold progress. rst. reflexivity. }
  (* everything written has been answered; position n1+1 has a ticket *)
  set (s := sof (S (n1 st))).
  pose proof (a_ci _ _ _ A s) as Hci. unfold CI in Hci. cbv zeta in Hci.
  destruct Hci as [(C1 & C2 & C3 & C4)|[(C1 & C2 & C3 & C4)|(C1 & C2 & C3 & C4)]]; [| |rewrite Heq in C4; lia].
  - (* the slot is free: a ticket holder is pending on it *)
    assert (Hpend : 1 <= length (tk (slots st s)) + length (parked1 (slots st s)) + length (woken1 (slots st s))).
    { pose proof (t_tk _ _ _ T s) as Htk. unfold pend in Htk.
      assert (H := cntpos_mono k start (S (n1 st)) (nw st) s ltac:(lia)). unfold s in H at 1. rewrite cntpos_succ_same in H. fold s in H. lia. }
    destruct (tk (slots st s)) as [|p r] eqn:Htk.
    + destruct (woken1 (slots st s)) as [|p r] eqn:Hwk.
      * exfalso. cbn [length] in Hpend.
        assert (Hp : parked1 (slots st s) <> []) by (destruct (parked1 (slots st s)); [cbn [length] in Hpend; lia|discriminate]).
        destruct (w_l1 _ W s Hp) as [X|[X|[X|X]]]; try congruence; try (rewrite (Hfree s) in X; discriminate).
      * exists (PutLock p s false). apply fill_enabled; [exact C1|apply Hfree|]. right. rewrite Hwk. apply memb_head.
    + exists (PutLock p s false). apply fill_enabled; [exact C1|apply Hfree|]. left. rewrite Htk. apply memb_head.
  - (* the command of position n1+1 is there: the writer takes it (or is being woken) *)
    destruct (wpc st) as [|s'] eqn:Hw.
    + exists WNext. cbn [lstep]. rewrite Hw. destruct (next_read1 _ _ st A Hw) as [R1 R2]. rewrite R1.
      change (idx k (u32 (start + N.of_nat (S (n1 st))))) with s. rewrite (Hfree s).
      unfold writer_take. rewrite C1. cbn [Nat.eqb]. eexists. split; [reflexivity|]. unfold progress. rst. reflexivity.
    + pose proof (a_wwait _ _ _ A s' Hw) as Hs'. fold s in Hs'. subst s'.
      destruct (w_w2 _ W s Hw) as [[P1 P2]|[P1 P2]].
      * destruct (w_l2 _ W s P1) as [_ [X|X]]; [congruence|].
        destruct (hd_memb _ X) as [p Hp]. exists (PutBcast p s). cbn [lstep]. rewrite Hp. eexists. split; [reflexivity|exact I].
      * exists WWaitRetry. cbn [lstep]. rewrite Hw, P2, (Hfree s). cbn [negb andb].
        unfold writer_take. rst. rewrite upd_same. rst. rewrite C1. cbn [Nat.eqb].
        eexists. split; [reflexivity|]. unfold progress. rst. reflexivity.
Qed.

End Progress.
