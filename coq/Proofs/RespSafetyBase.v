(** C13, part 1: what every reader operation and every scalar reader does to the stream and to the
    allocation meter, on ARBITRARY input.  Potential form: [al + K * |remaining|] never grows by more than
    an additive constant, so allocation is bounded by K * consumed + constant. *)
From Coq Require Import List Arith NArith ZArith Bool Lia ZifyN ZifyNat ZifyBool.
Require Import RV.Model.Base RV.Model.RespWrite RV.Model.Resp.
Require Import RV.Proofs.RespIOProofs RV.Proofs.RespBaseProofs RV.Proofs.RespMsgProofs.
Import ListNotations.
Open Scope N_scope.

(** inputs are shorter than 2^40 bytes (a terabyte): beyond that the Go runtime's 2^48-byte allocation
    limit could be hit by the doubling buffers before memory is *)
Definition input_bound : N := 1099511627776.

Lemma blen_firstn_skipn (s : bytes) n : blen (firstn n s) + blen (skipn n s) = blen s.
Proof. unfold blen. rewrite <- (firstn_skipn n s) at 3. rewrite app_length. lia. Qed.

Lemma blen_skipn_le (s : bytes) n : blen (skipn n s) <= blen s.
Proof. pose proof (blen_firstn_skipn s n). lia. Qed.

Lemma blen_nil : blen (@nil N) = 0.
Proof. reflexivity. Qed.

Lemma ok_pair_inv {A C} (a c : A) (b d : C) : (@Ok A a, b) = (Ok c, d) -> a = c /\ b = d.
Proof. intros H. inversion H. auto. Qed.

(** ** one operation *)
Lemma step_shrink B o s : blen (snd (flat_step B o s)) <= blen s.
Proof.
  destruct o; cbn [flat_step].
  - destruct s; cbn [snd]; unfold blen; cbn [length]; lia.
  - cbn. lia.
  - destruct (n <? 0)%Z; [cbn; lia|]. destruct (Z.to_N n <=? blen s); cbn [snd]; [apply blen_skipn_le|rewrite blen_nil; lia].
  - destruct (find_lf (firstn B s)); cbn [snd]; [apply blen_skipn_le|].
    destruct (B <=? length s)%nat; cbn [snd]; [apply blen_skipn_le|rewrite blen_nil; lia].
  - destruct (find_lf s); cbn [snd]; [apply blen_skipn_le|rewrite blen_nil; lia].
  - destruct (n =? 0); [cbn; lia|]. destruct (n <=? blen s); cbn [snd]; [apply blen_skipn_le|].
    destruct s; cbn [snd]; rewrite blen_nil; lia.
  - destruct (n <=? blen s); cbn [snd]; [apply blen_skipn_le|rewrite blen_nil; lia].
  - cbn. lia.
  - destruct (n <=? blen s); cbn [snd]; [apply blen_skipn_le|rewrite blen_nil; lia].
  - cbn. lia.
  - cbn. lia.
Qed.

Lemma step_no_panic B o s : fst (flat_step B o s) <> Panic.
Proof.
  destruct o; cbn [flat_step]; try discriminate.
  - destruct s; discriminate.
  - destruct (n <? 0)%Z; [discriminate|]. destruct (Z.to_N n <=? blen s); discriminate.
  - destruct (find_lf (firstn B s)); [discriminate|]. destruct (B <=? length s)%nat; discriminate.
  - destruct (find_lf s); discriminate.
  - destruct (n =? 0); [discriminate|]. destruct (n <=? blen s); [discriminate|]. destruct s; discriminate.
  - destruct (n <=? blen s); discriminate.
  - destruct (n <=? blen s); discriminate.
Qed.

Lemma step_read_byte_ok B s d s' : flat_step B OReadByte s = (Ok d, s') -> blen s' + 1 = blen s.
Proof. destruct s; cbn; intros Heq; [discriminate|]. injection Heq; intros; subst. unfold blen. cbn [length]. lia. Qed.

Lemma step_discard_ok B k s d s' : flat_step B (ODiscard k) s = (Ok d, s') -> (0 <= k)%Z /\ blen s' + Z.to_N k = blen s.
Proof.
  cbn [flat_step]. destruct (Z.ltb_spec k 0); [discriminate|].
  destruct (N.leb_spec (Z.to_N k) (blen s)); [|discriminate]. intros Heq; apply ok_pair_inv in Heq as [Hd Hs']; subst d s'. split; [lia|].
  pose proof (blen_firstn_skipn s (Z.to_nat k)). unfold blen in *. rewrite firstn_length in *. lia.
Qed.

Lemma find_lf_some_len a i : find_lf a = Some i -> (i < length a)%nat.
Proof. apply find_lf_lt. Qed.

Lemma step_read_slice_ok B s d s' : flat_step B OReadSlice s = (Ok d, s') -> blen s' + blen d = blen s /\ 1 <= blen d.
Proof.
  cbn [flat_step]. destruct (find_lf (firstn B s)) as [i|] eqn:E.
  - intros Heq; apply ok_pair_inv in Heq as [Hd Hs']; subst d s'. apply find_lf_some_len in E. rewrite firstn_length in E.
    pose proof (blen_firstn_skipn s (S i)). split; [lia|]. unfold blen. rewrite firstn_length. lia.
  - destruct (B <=? length s)%nat; discriminate.
Qed.

Lemma step_read_bytes_ok B s d s' : flat_step B OReadBytes s = (Ok d, s') -> blen s' + blen d = blen s /\ 1 <= blen d.
Proof.
  cbn [flat_step]. destruct (find_lf s) as [i|] eqn:E; [|discriminate].
  intros Heq; apply ok_pair_inv in Heq as [Hd Hs']; subst d s'. apply find_lf_some_len in E.
  pose proof (blen_firstn_skipn s (S i)). split; [lia|]. unfold blen. rewrite firstn_length. lia.
Qed.

Lemma step_read_full_ok B n s d s' : flat_step B (OReadFull n) s = (Ok d, s') -> blen d = n /\ blen s' + n = blen s.
Proof.
  cbn [flat_step]. destruct (N.eqb_spec n 0) as [->|Hn].
  - intros Heq; apply ok_pair_inv in Heq as [Hd Hs']; subst d s'. rewrite blen_nil. lia.
  - destruct (N.leb_spec n (blen s)) as [Hle|]; [|destruct s; discriminate].
    intros Heq; apply ok_pair_inv in Heq as [Hd Hs']; subst d s'. pose proof (blen_firstn_skipn s (N.to_nat n)).
    assert (blen (firstn (N.to_nat n) s) = n) by (unfold blen in *; rewrite firstn_length; lia). lia.
Qed.

Lemma step_copy_n_ok B n s d s' : flat_step B (OCopyN n) s = (Ok d, s') -> blen d = n /\ blen s' + n = blen s.
Proof.
  cbn [flat_step]. destruct (N.leb_spec n (blen s)) as [Hle|]; [|discriminate].
  intros Heq; apply ok_pair_inv in Heq as [Hd Hs']; subst d s'. pose proof (blen_firstn_skipn s (N.to_nat n)).
  assert (blen (firstn (N.to_nat n) s) = n) by (unfold blen in *; rewrite firstn_length; lia). lia.
Qed.

(** ** running one operation *)
Lemma run_op_inv B o s al r s' al' : run B (do_op o) s al = (r, s', al') ->
  flat_step B o s = (r, s') /\ al' = meter o al.
Proof. rewrite run_do_op. destruct (flat_step B o s). cbn. intros Heq; inversion Heq; auto. Qed.

(** ** readI: no allocation; a success has consumed a line of at least three bytes *)
Lemma parse_int_no_panic bs : parse_int_line bs <> Panic.
Proof.
  unfold parse_int_line. destruct (length bs <? 3)%nat; [discriminate|]. destruct (hd 0 bs =? 63); [discriminate|].
  set (ds := firstn _ _). generalize 0%Z. induction ds as [|c r IH]; intros v; cbn [digits_loop]; [discriminate|].
  destruct (is_dig c); [apply IH|discriminate].
Qed.

Lemma parse_int_ok_len bs v : parse_int_line bs = Ok v -> 3 <= blen bs.
Proof.
  unfold parse_int_line. destruct (Nat.ltb_spec (length bs) 3); [discriminate|]. intros _. unfold blen. lia.
Qed.

Lemma parse_int_range bs v : parse_int_line bs = Ok v -> in_i64 v.
Proof.
  unfold parse_int_line. destruct (length bs <? 3)%nat; [discriminate|]. destruct (hd 0 bs =? 63); [discriminate|].
  destruct (digits_loop _ 0%Z); try discriminate. intros Heq; inversion Heq. apply wrap64_range.
Qed.

Lemma read_i_spec B s al r s' al' : run B read_i s al = (r, s', al') ->
  r <> Panic /\ al' = al /\ blen s' <= blen s /\ (forall v, r = Ok v -> blen s' + 3 <= blen s /\ in_i64 v).
Proof.
  unfold read_i, bindr. rewrite run_bind. destruct (run B (do_op OReadSlice) s al) as [[r0 s0] al0] eqn:E.
  apply run_op_inv in E as [E ->]. cbn [meter].
  pose proof (step_shrink B OReadSlice s) as Hs. rewrite E in Hs. cbn [snd] in Hs.
  pose proof (step_no_panic B OReadSlice s) as Hp. rewrite E in Hp. cbn [fst] in Hp.
  destruct r0 as [bs|e|]; cbn [run]; intros Heq; injection Heq; intros; subst; try congruence.
  - split; [apply parse_int_no_panic|]. split; [reflexivity|]. split; [assumption|].
    intros v Hv. apply step_read_slice_ok in E as [E1 E2]. split; [apply parse_int_ok_len in Hv; lia|now apply parse_int_range in Hv].
  - repeat split; try assumption; discriminate.
Qed.

(** ** readS: allocates the line it returns *)
Lemma read_s_spec B s al r s' al' : run B read_s s al = (r, s', al') ->
  r <> Panic /\ blen s' <= blen s /\ al' + blen s' <= al + blen s /\ (forall v, r = Ok v -> blen s' + 2 <= blen s).
Proof.
  unfold read_s.
  assert (Hslow : forall s al r s' al',
    run B (bindr (do_op OReadBytes) (fun bs => bind (alloc (blen bs)) (fun _ =>
             if (length bs <? 2)%nat then Ret (Err eNoCRLF) else Ret (Ok (firstn (length bs - 2) bs))))) s al = (r, s', al') ->
    r <> Panic /\ blen s' <= blen s /\ al' + blen s' <= al + blen s /\ (forall v, r = Ok v -> blen s' + 2 <= blen s)).
  { clear. intros s al r s' al'. unfold bindr. rewrite run_bind.
    destruct (run B (do_op OReadBytes) s al) as [[r0 s0] al0] eqn:E.
    apply run_op_inv in E as [E ->]. cbn [meter].
    pose proof (step_shrink B OReadBytes s) as Hs. rewrite E in Hs. cbn [snd] in Hs.
    pose proof (step_no_panic B OReadBytes s) as Hp. rewrite E in Hp. cbn [fst] in Hp.
    destruct r0 as [bs|e|]; [|cbn [run]; intros Heq; injection Heq; intros; subst; repeat split; try assumption; try discriminate; lia|congruence].
    apply step_read_bytes_ok in E as [E1 E2].
    rewrite run_bind, run_alloc.
    destruct (Nat.ltb_spec (length bs) 2); cbn [run]; intros Heq; injection Heq; intros; subst; repeat split; try discriminate; try lia.
    intros v _. unfold blen in *. lia. }
  rewrite run_bind, run_do_op. cbn [flat_step fst snd meter is_ok].
  destruct (bytes_eqb OKs (firstn 2 s)) eqn:B2; [|apply Hslow].
  rewrite run_bind, run_do_op. cbn [flat_step fst snd meter is_ok].
  destruct (bytes_eqb OKrn (firstn 4 s)) eqn:B4; [|apply Hslow].
  rewrite run_bind. destruct (run B (do_op (ODiscard 4)) s al) as [[r0 s0] al0] eqn:E.
  apply run_op_inv in E as [E ->]. cbn [meter run].
  (* four bytes were peeked, so the discard succeeds *)
  assert (Hlen : 4 <= blen s).
  { apply RespMsgProofs.list_eqb_bytes_true in B4. unfold blen.
    assert (length (firstn 4 s) = 4%nat) by (rewrite <- B4; reflexivity). rewrite firstn_length in H. lia. }
  cbn [flat_step] in E. change (4 <? 0)%Z with false in E. cbv iota in E.
  destruct (N.leb_spec (Z.to_N 4) (blen s)) as [_|Hx]; [|cbn in Hx; lia].
  pose proof (f_equal fst E) as E1. pose proof (f_equal snd E) as E2. cbn [fst snd] in E1, E2. subst r0 s0.
  intros Heq. pose proof (f_equal (fun x => fst (fst x)) Heq) as Hr. pose proof (f_equal (fun x => snd (fst x)) Heq) as Hs.
  pose proof (f_equal snd Heq) as Ha. cbn [fst snd] in Hr, Hs, Ha. subst r s' al'.
  change (Z.to_nat 4) with 4%nat.
  pose proof (blen_firstn_skipn s 4). assert (blen (firstn 4 s) = 4) by (unfold blen in *; rewrite firstn_length; lia).
  repeat split; try discriminate; lia.
Qed.
