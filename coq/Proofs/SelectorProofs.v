(** Proofs about the read-node selectors (C22). *)
From Coq Require Import List NArith ZArith Bool Lia Arith Permutation ZifyN ZifyNat ZifyBool.
Require Import RV.Model.Base RV.Model.Selector.
Import ListNotations.
Open Scope N_scope.

(** ---- byte string equality ---- *)
Lemma list_eqb_N_eq : forall a b : bytes, bytes_eqb a b = true <-> a = b.
Proof.
  unfold bytes_eqb. induction a as [|x a IH]; destruct b as [|y b]; cbn [list_eqb]; split; intro H; try reflexivity; try discriminate.
  - apply andb_true_iff in H. destruct H as [H1 H2]. apply N.eqb_eq in H1. apply IH in H2. now subst.
  - injection H as -> ->. apply andb_true_iff. split; [apply N.eqb_refl|now apply IH].
Qed.

(** ---- specification vocabulary ---- *)

(** indices [j] in [i, limit) with [l[j-i] = client], in increasing order *)
Fixpoint fidx (client : bytes) (l : list bytes) (i limit : nat) : list nat :=
  match l with
  | [] => []
  | az :: r =>
    if (limit <=? i)%nat then []
    else if bytes_eqb az client then i :: fidx client r (S i) limit
    else fidx client r (S i) limit
  end.

(** the window pickAZ looks at *)
Definition window (azs : list bytes) : nat := Nat.min (length azs) 255.

(** all same-AZ nodes with index in [start, window) *)
Definition same_az (client : bytes) (azs : list bytes) (start : nat) : list nat :=
  fidx client (skipn start azs) start (window azs).

(** the equally ranked candidates pickAZ rotates over: the first 8 of them (the cap is the code's) *)
Definition cands (client : bytes) (azs : list bytes) (start : nat) : list nat :=
  firstn 8 (same_az client azs start).

Lemma collect_fidx client limit : forall l i room, (0 < room)%nat ->
  collect client l i limit room = map u8_of_nat (firstn room (fidx client l i limit)).
Proof.
  induction l as [|az r IH]; intros i room Hr; cbn [collect fidx].
  - now destruct room.
  - destruct (limit <=? i)%nat; [now destruct room|].
    destruct (bytes_eqb az client).
    + destruct room as [|[|room']]; [lia| |].
      * cbn [firstn map]. reflexivity.
      * cbn [firstn map]. f_equal. apply IH. lia.
    + apply IH. exact Hr.
Qed.

Lemma fidx_in client limit : forall l i j,
  In j (fidx client l i limit) <->
  (i <= j < limit)%nat /\ nth_error l (j - i) = Some client.
Proof.
  induction l as [|az r IH]; intros i j; cbn [fidx].
  - split; [intros []|]. intros [_ H]. now destruct (j - i)%nat.
  - destruct (Nat.leb_spec limit i) as [Hl|Hl].
    + split; [intros []|]. lia.
    + destruct (bytes_eqb az client) eqn:E.
      * apply list_eqb_N_eq in E. subst az. cbn [In]. rewrite IH. split.
        -- intros [->|[H1 H2]].
           ++ rewrite Nat.sub_diag. cbn. split; [lia|reflexivity].
           ++ split; [lia|]. replace (j - i)%nat with (S (j - S i)) by lia. exact H2.
        -- intros [H1 H2]. destruct (Nat.eq_dec i j) as [->|Hn]; [now left|right].
           split; [lia|]. replace (j - i)%nat with (S (j - S i)) in H2 by lia. exact H2.
      * rewrite IH. split.
        -- intros [H1 H2]. split; [lia|]. replace (j - i)%nat with (S (j - S i)) by lia. exact H2.
        -- intros [H1 H2]. destruct (Nat.eq_dec i j) as [->|Hn].
           ++ rewrite Nat.sub_diag in H2. cbn in H2. injection H2 as ->.
              assert (bytes_eqb client client = true) by now apply list_eqb_N_eq. congruence.
           ++ split; [lia|]. replace (j - i)%nat with (S (j - S i)) in H2 by lia. exact H2.
Qed.

Lemma fidx_lb client limit : forall l i, Forall (fun j => (i <= j)%nat) (fidx client l i limit).
Proof. intros l i. apply Forall_forall. intros j H. apply fidx_in in H. lia. Qed.

Lemma fidx_nodup client limit : forall l i, NoDup (fidx client l i limit).
Proof.
  induction l as [|az r IH]; intros i; cbn [fidx]; [constructor|].
  destruct (limit <=? i)%nat; [constructor|].
  destruct (bytes_eqb az client); [|apply IH].
  constructor; [|apply IH]. intro H. apply fidx_in in H. lia.
Qed.

Lemma nth_error_skipn {A} (l : list A) : forall (s k : nat), nth_error (skipn s l) k = nth_error l (s + k)%nat.
Proof. induction l as [|x l IH]; intros [|s] k; cbn; try reflexivity; [now destruct k|apply IH]. Qed.

Lemma same_az_in client azs start j :
  In j (same_az client azs start) <-> (start <= j < window azs)%nat /\ nth_error azs j = Some client.
Proof.
  unfold same_az. rewrite fidx_in, nth_error_skipn. split; intros [H1 H2]; split; try lia.
  - now replace (start + (j - start))%nat with j in H2 by lia.
  - now replace (start + (j - start))%nat with j by lia.
Qed.

Lemma firstn_In {A} (l : list A) n x : In x (firstn n l) -> In x l.
Proof.
  revert n. induction l as [|y l IH]; intros [|n]; cbn [firstn In]; try tauto.
  intros [->|H]; [now left|right; eauto].
Qed.

Lemma firstn_NoDup {A} (l : list A) n : NoDup l -> NoDup (firstn n l).
Proof.
  revert n. induction l as [|y l IH]; intros [|n] H; cbn; try constructor.
  - inversion H; subst. intro Hin. apply firstn_In in Hin. contradiction.
  - inversion H; subst. now apply IH.
Qed.

Lemma cands_in client azs start j :
  In j (cands client azs start) -> (start <= j < window azs)%nat /\ nth_error azs j = Some client.
Proof. intro H. apply firstn_In in H. now apply same_az_in. Qed.

Lemma cands_nodup client azs start : NoDup (cands client azs start).
Proof. apply firstn_NoDup, fidx_nodup. Qed.

Lemma cands_length client azs start : (length (cands client azs start) <= 8)%nat.
Proof. unfold cands. rewrite firstn_length. lia. Qed.

Lemma cands_nil client azs start :
  cands client azs start = [] <-> (forall j, (start <= j < window azs)%nat -> nth_error azs j <> Some client).
Proof.
  unfold cands. split.
  - intros H j Hj Hn. assert (Hin : In j (same_az client azs start)) by (apply same_az_in; auto).
    destruct (same_az client azs start); [contradiction|discriminate].
  - intros H. destruct (same_az client azs start) as [|j r] eqn:E; [reflexivity|].
    exfalso. assert (Hin : In j (same_az client azs start)) by (rewrite E; now left).
    apply same_az_in in Hin. destruct Hin as [H1 H2]. exact (H j H1 H2).
Qed.

Lemma u8_small j : (j < 256)%nat -> u8_of_nat j = N.of_nat j.
Proof. intro H. unfold u8_of_nat. apply N.mod_small. lia. Qed.

(** ---- pickAZ ---- *)
Theorem pick_az_spec client azs start c :
  pick_az client azs start c =
  match cands client azs start with
  | [] => (c, (-1)%Z)
  | cs => let c' := incr32 c in (c', Z.of_nat (nth (N.to_nat (c' mod N.of_nat (length cs))) cs O))
  end.
Proof.
  unfold pick_az. destruct (Nat.leb_spec (length azs) start) as [Hn|Hn].
  - unfold cands, same_az. rewrite skipn_all2 by lia. reflexivity.
  - rewrite collect_fidx by lia. fold (window azs). fold (same_az client azs start). fold (cands client azs start).
    rewrite map_length.
    destruct (cands client azs start) as [|j0 r] eqn:E; [reflexivity|].
    rewrite <- E.
    assert (Hlen : (0 < length (cands client azs start))%nat) by (rewrite E; cbn; lia).
    destruct (N.eqb_spec (N.of_nat (length (cands client azs start))) 0) as [H0|H0]; [lia|].
    cbv zeta. f_equal.
    set (k := N.to_nat (incr32 c mod N.of_nat (length (cands client azs start)))).
    assert (Hk : (k < length (cands client azs start))%nat).
    { subst k. pose proof (N.mod_lt (incr32 c) _ H0). lia. }
    change 0 with (u8_of_nat O). rewrite map_nth.
    assert (Hin : In (nth k (cands client azs start) O) (cands client azs start)) by now apply nth_In.
    apply cands_in in Hin. unfold window in Hin.
    rewrite u8_small by lia. lia.
Qed.

Lemma pick_az_cases client azs start c :
  (cands client azs start = [] /\ pick_az client azs start c = (c, (-1)%Z)) \/
  (exists j, In j (cands client azs start) /\ pick_az client azs start c = (incr32 c, Z.of_nat j)).
Proof.
  rewrite pick_az_spec. destruct (cands client azs start) as [|j0 r] eqn:E; [now left|right].
  rewrite <- E. eexists. split; [|reflexivity]. apply nth_In.
  assert (N.of_nat (length (cands client azs start)) <> 0) by (rewrite E; cbn; lia).
  pose proof (N.mod_lt (incr32 c) _ H). lia.
Qed.

(** ---- arithmetic of the conversions ---- *)
Lemma u32_len (n : nat) : (N.of_nat n < two32) -> u32_of_int (Z.of_nat n) = N.of_nat n.
Proof. intro H. unfold u32_of_int. unfold two32 in *. rewrite Z.mod_small by lia. lia. Qed.

Lemma u32_sub (n s : nat) : (s <= n)%nat -> (N.of_nat n < two32) ->
  u32_of_int (Z.of_nat n - Z.of_nat s) = N.of_nat (n - s).
Proof. intros H1 H2. unfold u32_of_int. unfold two32 in *. rewrite Z.mod_small by lia. lia. Qed.

Lemma incr32_lt c : incr32 c < two32.
Proof. unfold incr32. apply N.mod_lt. discriminate. Qed.

Lemma incr32_small c : c + 1 < two32 -> incr32 c = c + 1.
Proof. intro H. unfold incr32. now apply N.mod_small. Qed.

(** ---- any replica: round robin over nodes[1:] ---- *)
Lemma any_replica_range n32 c : 1 < n32 ->
  (1 <= snd (any_replica n32 c) < Z.of_N n32)%Z.
Proof.
  intro H. unfold any_replica. cbn [snd].
  pose proof (N.mod_lt (incr32 c) (n32 - 1) ltac:(lia)). lia.
Qed.

(** ---- range ---- *)
Definition in_range (azs : list bytes) (r : Z) : Prop := r = (-1)%Z \/ (0 <= r < Z.of_nat (length azs))%Z.

Lemma cand_in_range client azs start j : In j (cands client azs start) -> in_range azs (Z.of_nat j).
Proof. intro H. apply cands_in in H. unfold window in H. right. lia. Qed.

Theorem select_range k client azs c : N.of_nat (length azs) < two32 ->
  exists c' r, select k client azs c = Ok (c', r) /\ in_range azs r /\ (c' = c \/ c' = incr32 c).
Proof.
  intros Hlen. destruct k; cbn [select].
  - (* prefer *)
    unfold prefer_replica. rewrite u32_len by exact Hlen.
    destruct (N.ltb_spec 1 (N.of_nat (length azs))) as [H|H].
    + eexists _, _. split; [reflexivity|]. split; [|right; reflexivity].
      pose proof (any_replica_range (N.of_nat (length azs)) c H). right. cbn [snd] in *. lia.
    + eexists _, _. split; [reflexivity|]. split; [now left|now left].
  - (* az *)
    unfold az_affinity, az_selector.
    destruct (pick_az_cases client azs 1 c) as [[Hc ->]|(j & Hj & ->)].
    + cbn [Z.eqb negb]. destruct (Nat.ltb_spec 1 (length azs)) as [H|H].
      * eexists _, _. split; [reflexivity|]. split; [|right; reflexivity].
        rewrite u32_sub by (lia || exact Hlen).
        pose proof (N.mod_lt (incr32 c) (N.of_nat (length azs - 1)) ltac:(lia)). right. lia.
      * eexists _, _. split; [reflexivity|]. split; [now left|now left].
    + replace (negb (Z.of_nat j =? -1)%Z) with true by (symmetry; apply negb_true_iff, Z.eqb_neq; lia).
      eexists _, _. split; [reflexivity|]. split; [now apply (cand_in_range client azs 1)|now right].
  - (* az replicas and primary *)
    unfold az_replicas_and_primary.
    destruct (pick_az_cases client azs 1 c) as [[Hc ->]|(j & Hj & ->)].
    + cbn [Z.eqb negb]. rewrite u32_len by exact Hlen.
      destruct azs as [|az0 rest].
      * cbn. eexists _, _. split; [reflexivity|]. split; [now left|now left].
      * replace (0 <? N.of_nat (length (az0 :: rest))) with true by (symmetry; apply N.ltb_lt; cbn [length]; lia).
        destruct (bytes_eqb az0 client).
        -- eexists _, _. split; [reflexivity|]. split; [|now left]. right. cbn [length]. lia.
        -- destruct (N.ltb_spec 1 (N.of_nat (length (az0 :: rest)))) as [H|H].
           ++ eexists _, _. split; [reflexivity|]. split; [|right; reflexivity].
              pose proof (any_replica_range _ c H). right. cbn [snd] in *. lia.
           ++ eexists _, _. split; [reflexivity|]. split; [now left|now left].
    + replace (negb (Z.of_nat j =? -1)%Z) with true by (symmetry; apply negb_true_iff, Z.eqb_neq; lia).
      eexists _, _. split; [reflexivity|]. split; [now apply (cand_in_range client azs 1)|now right].
Qed.

(** any sequence of calls on one closure: no panic, every answer in range *)
Theorem run_calls_range k client : forall calls c,
  Forall (fun azs => N.of_nat (length azs) < two32) calls ->
  exists rs, run_calls k client calls c = Ok rs /\ Forall2 in_range calls rs.
Proof.
  induction calls as [|azs rest IH]; intros c Hf.
  - exists []. split; [reflexivity|constructor].
  - inversion Hf as [|? ? Ha Hr]; subst.
    destruct (select_range k client azs c Ha) as (c' & r & H1 & H2 & _).
    destruct (IH c' Hr) as (rs & H3 & H4).
    exists (r :: rs). cbn [run_calls]. rewrite H1, H3. split; [reflexivity|now constructor].
Qed.

(** ---- priorities ---- *)

(** there is a same-AZ replica among the first 255 nodes *)
Definition has_same_az_replica (client : bytes) (azs : list bytes) : Prop :=
  exists i, (1 <= i < window azs)%nat /\ nth_error azs i = Some client.

Lemma has_cands client azs : has_same_az_replica client azs <-> cands client azs 1 <> [].
Proof.
  split.
  - intros (i & H1 & H2) E. rewrite cands_nil in E. exact (E i H1 H2).
  - intros H. destruct (cands client azs 1) as [|j r] eqn:E; [contradiction|].
    assert (Hin : In j (cands client azs 1)) by (rewrite E; now left).
    apply cands_in in Hin. exists j. exact Hin.
Qed.

Theorem same_az_replica_chosen k client azs c : k <> KPrefer ->
  has_same_az_replica client azs ->
  exists j, select k client azs c = Ok (incr32 c, Z.of_nat j) /\
            In j (cands client azs 1) /\ (1 <= j < window azs)%nat /\ nth_error azs j = Some client.
Proof.
  intros Hk Hs. apply has_cands in Hs.
  destruct (pick_az_cases client azs 1 c) as [[Hc _]|(j & Hj & Hp)]; [contradiction|].
  exists j. pose proof (cands_in _ _ _ _ Hj) as [H1 H2].
  assert (Hneg : negb (Z.of_nat j =? -1)%Z = true) by (apply negb_true_iff, Z.eqb_neq; lia).
  destruct k; [contradiction| |]; cbn [select]; unfold az_affinity, az_selector, az_replicas_and_primary;
    rewrite Hp, Hneg; auto.
Qed.

(** fallbacks when no same-AZ replica is in the window *)
Theorem az_affinity_fallback client azs c : N.of_nat (length azs) < two32 ->
  ~ has_same_az_replica client azs ->
  az_affinity client azs c =
  if (1 <? length azs)%nat then (incr32 c, (Z.of_N (incr32 c mod N.of_nat (length azs - 1)) + 1)%Z)
  else (c, (-1)%Z).
Proof.
  intros Hlen Hn. rewrite has_cands in Hn.
  unfold az_affinity, az_selector. rewrite pick_az_spec.
  destruct (cands client azs 1); [|exfalso; apply Hn; discriminate].
  cbn [Z.eqb negb]. destruct (Nat.ltb_spec 1 (length azs)); [|reflexivity].
  rewrite u32_sub by (lia || exact Hlen). reflexivity.
Qed.

Theorem az_rp_fallback client azs c : N.of_nat (length azs) < two32 ->
  ~ has_same_az_replica client azs ->
  az_replicas_and_primary client azs c =
  match azs with
  | [] => Ok (c, (-1)%Z)
  | az0 :: _ =>
    if bytes_eqb az0 client then Ok (c, 0%Z)                             (* same-AZ primary *)
    else if (1 <? length azs)%nat then
      Ok (incr32 c, (Z.of_N (incr32 c mod N.of_nat (length azs - 1)) + 1)%Z)  (* any replica *)
    else Ok (c, (-1)%Z)                                                   (* primary *)
  end.
Proof.
  intros Hlen Hn. rewrite has_cands in Hn.
  unfold az_replicas_and_primary. rewrite pick_az_spec.
  destruct (cands client azs 1); [|exfalso; apply Hn; discriminate].
  cbn [Z.eqb negb]. rewrite u32_len by exact Hlen.
  destruct azs as [|az0 rest]; [reflexivity|].
  replace (0 <? N.of_nat (length (az0 :: rest))) with true by (symmetry; apply N.ltb_lt; cbn [length]; lia).
  destruct (bytes_eqb az0 client); [reflexivity|].
  destruct (N.ltb_spec 1 (N.of_nat (length (az0 :: rest)))) as [H|H];
    destruct (Nat.ltb_spec 1 (length (az0 :: rest))) as [H'|H']; try lia; [|reflexivity].
  unfold any_replica. replace (N.of_nat (length (az0 :: rest)) - 1) with (N.of_nat (length (az0 :: rest) - 1)) by lia. reflexivity.
Qed.

Theorem prefer_replica_spec azs c : N.of_nat (length azs) < two32 ->
  prefer_replica azs c =
  if (1 <? length azs)%nat then (incr32 c, (Z.of_N (incr32 c mod N.of_nat (length azs - 1)) + 1)%Z)
  else (c, (-1)%Z).
Proof.
  intros Hlen. unfold prefer_replica. rewrite u32_len by exact Hlen.
  destruct (N.ltb_spec 1 (N.of_nat (length azs))) as [H|H];
    destruct (Nat.ltb_spec 1 (length azs)) as [H'|H']; try lia; [|reflexivity].
  unfold any_replica. replace (N.of_nat (length azs) - 1) with (N.of_nat (length azs - 1)) by lia. reflexivity.
Qed.

(** ---- rotation ---- *)

Lemma nth_skipn' {A} (d : A) : forall (l : list A) (r j : nat), nth j (skipn r l) d = nth (r + j) l d.
Proof. induction l as [|x l IH]; intros [|r] j; cbn [skipn nth Nat.add]; try reflexivity; [now destruct j|apply IH]. Qed.

Lemma nth_firstn' {A} (d : A) : forall (l : list A) (r j : nat), (j < r)%nat -> nth j (firstn r l) d = nth j l d.
Proof.
  induction l as [|x l IH]; intros [|r] j H; cbn [firstn nth]; try reflexivity; try lia.
  destruct j; [reflexivity|]. apply IH. lia.
Qed.

(** reading a list cyclically from offset [a] visits every element exactly once *)
Lemma rotation_perm {A} (l : list A) (d : A) (a : nat) : l <> [] ->
  Permutation (map (fun j => nth ((a + j) mod length l) l d) (seq 0 (length l))) l.
Proof.
  intro Hne. set (n := length l). assert (Hn : (0 < n)%nat) by (subst n; destruct l; [contradiction|cbn; lia]).
  set (r := (a mod n)%nat). assert (Hr : (r < n)%nat) by (apply Nat.mod_upper_bound; lia).
  assert (E : map (fun j => nth ((a + j) mod n) l d) (seq 0 n) = skipn r l ++ firstn r l).
  { apply (nth_ext _ _ d d).
    - rewrite map_length, seq_length, app_length, skipn_length, firstn_length. fold n. lia.
    - intros j Hj. rewrite map_length, seq_length in Hj.
      rewrite (nth_indep _ d (nth ((a + 0) mod n) l d)) by (rewrite map_length, seq_length; exact Hj).
      rewrite (map_nth (fun j => nth ((a + j) mod n) l d) (seq 0 n) 0%nat j).
      rewrite seq_nth by exact Hj. cbn [Nat.add].
      assert (Hm : ((a + j) mod n = if (r + j <? n)%nat then r + j else r + j - n)%nat).
      { rewrite Nat.add_mod by lia. fold r. rewrite (Nat.mod_small j n) by exact Hj.
        destruct (Nat.ltb_spec (r + j) n).
        - apply Nat.mod_small. lia.
        - replace (r + j)%nat with ((r + j - n) + 1 * n)%nat at 1 by lia.
          rewrite Nat.mod_add by lia. apply Nat.mod_small. lia. }
      rewrite Hm. destruct (Nat.ltb_spec (r + j) n).
      + rewrite app_nth1 by (rewrite skipn_length; fold n; lia).
        rewrite nth_skipn'. reflexivity.
      + rewrite app_nth2 by (rewrite skipn_length; fold n; lia).
        rewrite skipn_length. fold n. rewrite nth_firstn' by lia. f_equal. lia. }
  rewrite E. rewrite Permutation_app_comm. now rewrite firstn_skipn.
Qed.

(** the counter values of [n] consecutive calls starting from counter value [c0] (no wrap in the window) *)
Lemma incr32_iter c0 j : c0 + N.of_nat j + 1 < two32 -> incr32 (c0 + N.of_nat j) = c0 + N.of_nat j + 1.
Proof. apply incr32_small. Qed.

(** pickAZ over [length cands] consecutive calls returns each candidate exactly once *)
Theorem pick_az_rotation client azs start c0 :
  let cs := cands client azs start in
  cs <> [] -> c0 + N.of_nat (length cs) < two32 ->
  Permutation (map (fun j => snd (pick_az client azs start (c0 + N.of_nat j))) (seq 0 (length cs)))
              (map Z.of_nat cs).
Proof.
  intros cs Hne Hw.
  assert (E : map (fun j => snd (pick_az client azs start (c0 + N.of_nat j))) (seq 0 (length cs)) =
              map Z.of_nat (map (fun j => nth ((N.to_nat (c0 + 1) + j) mod length cs) cs O) (seq 0 (length cs)))).
  { rewrite map_map. apply map_ext_in. intros j Hj. apply in_seq in Hj.
    rewrite pick_az_spec. fold cs. destruct cs as [|x r] eqn:Ecs; [contradiction|]. rewrite <- Ecs in *.
    cbv zeta. cbn [snd]. rewrite incr32_small by lia. f_equal. f_equal.
    rewrite N2Nat.inj_mod, Nat2N.id. f_equal. lia. }
  rewrite E. apply Permutation_map. apply rotation_perm. exact Hne.
Qed.

(** the round robin over all replicas (fallback / PreferReplica): [len-1] consecutive calls visit
    every replica index 1 .. len-1 exactly once *)
Theorem any_replica_rotation n c0 : (1 < n)%nat -> c0 + N.of_nat (n - 1) < two32 -> N.of_nat n < two32 ->
  Permutation (map (fun j => snd (any_replica (N.of_nat n) (c0 + N.of_nat j))) (seq 0 (n - 1)))
              (map Z.of_nat (seq 1 (n - 1))).
Proof.
  intros Hn Hw Hlen.
  set (l := seq 1 (n - 1)). assert (Hl : length l = (n - 1)%nat) by apply seq_length.
  assert (E : map (fun j => snd (any_replica (N.of_nat n) (c0 + N.of_nat j))) (seq 0 (n - 1)) =
              map Z.of_nat (map (fun j => nth ((N.to_nat (c0 + 1) + j) mod length l) l O) (seq 0 (length l)))).
  { rewrite Hl, map_map. apply map_ext_in. intros j Hj. apply in_seq in Hj.
    unfold any_replica. cbn [snd]. rewrite incr32_small by lia.
    subst l. rewrite seq_nth by (apply Nat.mod_upper_bound; lia).
    replace (N.of_nat n - 1) with (N.of_nat (n - 1)) by lia.
    replace (c0 + N.of_nat j + 1) with (N.of_nat (N.to_nat (c0 + 1) + j)) by lia.
    rewrite <- Nat2N.inj_mod. lia. }
  rewrite E. apply Permutation_map. apply rotation_perm. subst l. destruct n as [|[|n]]; cbn; [lia|lia|discriminate].
Qed.

(** at the wrap-around of the uint32 counter the rotation over 3 candidates repeats a candidate:
    counter values 2^32-2, 2^32-1 give c = 2^32-1, 0 and (2^32-1) mod 3 = 0 mod 3 = 0 *)
Lemma wrap_glitch :
  let azs := [[]; [1]; [1]; [1]] in
  snd (pick_az [1] azs 1 (two32 - 2)) = snd (pick_az [1] azs 1 (two32 - 1)).
Proof. vm_compute. reflexivity. Qed.

(** for 1, 2, 4 or 8 candidates the rotation survives the wrap (2^32 is a multiple of the count) *)
Lemma incr32_mod_pow2 c n : c < two32 -> (n = 1 \/ n = 2 \/ n = 4 \/ n = 8) -> incr32 c mod n = (c + 1) mod n.
Proof.
  intros Hc Hn. unfold incr32, two32 in *.
  assert (D : exists q, 4294967296 = q * n) by (destruct Hn as [Hn|[Hn|[Hn|Hn]]]; subst n; [exists 4294967296|exists 2147483648|exists 1073741824|exists 536870912]; reflexivity).
  destruct D as (q & D). assert (Hn0 : n <> 0) by lia.
  destruct (N.ltb_spec (c + 1) 4294967296) as [H1|H1].
  - rewrite (N.mod_small (c + 1) 4294967296) by exact H1. reflexivity.
  - assert (E : c + 1 = 4294967296) by lia. rewrite E. rewrite N.mod_same by discriminate.
    rewrite N.mod_0_l by exact Hn0. rewrite D. rewrite N.mod_mul by exact Hn0. reflexivity.
Qed.

(** ---- the defect that was repaired ---- *)
Lemma before_fix_out_of_range :
  az_selector_before_fix 1 [97] [] 0 = (1, 2%Z) /\ az_selector_before_fix 1 [97] [] 1 = (2, 3%Z).
Proof. vm_compute. split; reflexivity. Qed.

Lemma before_fix_same_elsewhere client azs c : (1 <= length azs)%nat -> N.of_nat (length azs) < two32 ->
  az_selector_before_fix 1 client azs c = az_selector 1 client azs c.
Proof.
  intros H1 H2. unfold az_selector_before_fix, az_selector.
  destruct (pick_az client azs 1 c) as [c1 idx]. destruct (negb (idx =? -1)%Z); [reflexivity|].
  rewrite u32_sub by (lia || exact H2).
  destruct (N.ltb_spec 0 (N.of_nat (length azs - 1))); destruct (Nat.ltb_spec 1 (length azs)); try lia; reflexivity.
Qed.

(** ---- rotation at the level of the selector closures ---- *)

Lemma run_calls_repeat k client azs : forall n c0 (f : nat -> Z),
  (forall j, (j < n)%nat -> select k client azs (c0 + N.of_nat j) = Ok (c0 + N.of_nat j + 1, f j)) ->
  run_calls k client (repeat azs n) c0 = Ok (map f (seq 0 n)).
Proof.
  induction n as [|n IH]; intros c0 f H; [reflexivity|].
  cbn [repeat run_calls]. pose proof (H O ltac:(lia)) as H0. cbn [N.of_nat] in H0. rewrite N.add_0_r in H0.
  rewrite H0. rewrite (IH (c0 + 1) (fun j => f (S j))).
  - cbn [seq map]. now rewrite <- seq_shift, map_map.
  - intros j Hj. specialize (H (S j) ltac:(lia)).
    replace (c0 + 1 + N.of_nat j) with (c0 + N.of_nat (S j)) by lia. exact H.
Qed.

Lemma select_is_pick k client azs c : k <> KPrefer -> cands client azs 1 <> [] ->
  select k client azs c = Ok (pick_az client azs 1 c).
Proof.
  intros Hk Hc. destruct (pick_az_cases client azs 1 c) as [[Hn _]|(j & Hj & Hp)]; [contradiction|].
  pose proof (cands_in _ _ _ _ Hj) as [H1 H2].
  assert (Hneg : negb (Z.of_nat j =? -1)%Z = true) by (apply negb_true_iff, Z.eqb_neq; lia).
  destruct k; [contradiction| |]; cbn [select]; unfold az_affinity, az_selector, az_replicas_and_primary;
    rewrite Hp, Hneg; reflexivity.
Qed.

Theorem same_az_rotation k client azs c0 : k <> KPrefer ->
  let cs := cands client azs 1 in
  cs <> [] -> c0 + N.of_nat (length cs) < two32 ->
  exists rs, run_calls k client (repeat azs (length cs)) c0 = Ok rs /\ Permutation rs (map Z.of_nat cs).
Proof.
  intros Hk cs Hne Hw.
  exists (map (fun j => snd (pick_az client azs 1 (c0 + N.of_nat j))) (seq 0 (length cs))).
  split; [|now apply pick_az_rotation].
  apply run_calls_repeat. intros j Hj. rewrite select_is_pick by assumption.
  destruct (pick_az_cases client azs 1 (c0 + N.of_nat j)) as [[Hn _]|(i & Hi & Hp)]; [contradiction|].
  rewrite Hp. cbn [snd]. rewrite incr32_small by lia. reflexivity.
Qed.

(** all replicas are equally ranked (PreferReplica, or an AZ selector without a same-AZ node) *)
Theorem replica_rotation k client azs c0 :
  (k = KPrefer \/ (~ has_same_az_replica client azs /\ (k = KAz \/ nth_error azs 0 <> Some client))) ->
  (1 < length azs)%nat -> c0 + N.of_nat (length azs - 1) < two32 -> N.of_nat (length azs) < two32 ->
  exists rs, run_calls k client (repeat azs (length azs - 1)) c0 = Ok rs /\
             Permutation rs (map Z.of_nat (seq 1 (length azs - 1))).
Proof.
  intros Hk Hn Hw Hlen.
  exists (map (fun j => snd (any_replica (N.of_nat (length azs)) (c0 + N.of_nat j))) (seq 0 (length azs - 1))).
  split; [|now apply any_replica_rotation].
  apply run_calls_repeat. intros j Hj.
  assert (Hlt : (1 <? length azs)%nat = true) by (apply Nat.ltb_lt; exact Hn).
  assert (E : forall c, c + 1 < two32 -> (incr32 c, (Z.of_N (incr32 c mod N.of_nat (length azs - 1)) + 1)%Z) =
              (c + 1, snd (any_replica (N.of_nat (length azs)) c))).
  { intros c Hc. unfold any_replica. cbn [snd]. rewrite incr32_small by exact Hc.
    replace (N.of_nat (length azs) - 1) with (N.of_nat (length azs - 1)) by lia. reflexivity. }
  destruct Hk as [->|[Hno [->|Hp]]].
  - cbn [select]. rewrite prefer_replica_spec, Hlt by exact Hlen. rewrite E by lia. reflexivity.
  - cbn [select]. rewrite az_affinity_fallback, Hlt by assumption. rewrite E by lia. reflexivity.
  - destruct k.
    + cbn [select]. rewrite prefer_replica_spec, Hlt by exact Hlen. rewrite E by lia. reflexivity.
    + cbn [select]. rewrite az_affinity_fallback, Hlt by assumption. rewrite E by lia. reflexivity.
    + cbn [select]. rewrite az_rp_fallback by assumption. destruct azs as [|az0 rest]; [cbn in Hn; lia|].
      destruct (bytes_eqb az0 client) eqn:Eb.
      * apply list_eqb_N_eq in Eb. subst. exfalso. apply Hp. reflexivity.
      * rewrite Hlt. rewrite E by lia. reflexivity.
Qed.
