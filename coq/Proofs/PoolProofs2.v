(** Pool LTS: exclusivity of wires, after-Close behaviour, and the lost-wake-up invariant. *)
From Coq Require Import List NArith ZArith Bool Arith Lia.
Require Import RV.Model.Base RV.Model.Pool RV.Proofs.PoolBase RV.Proofs.PoolProofs.
Import ListNotations.
Open Scope Z_scope.

Ltac st := cbn [size idle down timer_on tarmed mutex parked woken making exiting entered cancellable armed
                ctxdone bpend held broken nostop used sigs cbc dstores
                upd_threads upd_wires upd_misc set_eval hand_out set_mutex add_making] in *.

Notation cnt := (count_occ Nat.eq_dec).

(** ---- exclusivity: a connection is in at most one of idle / one holder ---- *)

Definition occ (s : state) (id : nat) : nat := (cnt (idle s) id + cnt (real_ids (held s)) id)%nat.

Definition Inv2 (s : state) : Prop := forall id, (occ s id <= 1)%nat /\ ((1 <= occ s id)%nat -> In id (used s)).

Lemma cnt_real_ids_remove_le : forall w l x, (cnt (real_ids (wremove1 w l)) x <= cnt (real_ids l) x)%nat.
Proof.
  intros w l x. induction l as [|y r IH]; cbn [wremove1 real_ids]; [lia|].
  destruct (wire_eqb w y).
  - destruct y; cbn [real_ids count_occ]; try lia. destruct (Nat.eq_dec id x); lia.
  - destruct y; cbn [real_ids count_occ]; try exact IH. destruct (Nat.eq_dec id x); lia.
Qed.

Lemma cnt_real_ids_remove_real : forall id l x, wmemb (Real id) l = true ->
  (cnt (real_ids (wremove1 (Real id) l)) x + (if Nat.eq_dec id x then 1 else 0) = cnt (real_ids l) x)%nat.
Proof.
  intros id l x. induction l as [|y r IH]; cbn [wmemb wremove1 real_ids]; [discriminate|].
  intro H. destruct (wire_eqb (Real id) y) eqn:E.
  - apply wire_eqb_eq in E. subst y. cbn [real_ids count_occ]. destruct (Nat.eq_dec id x); lia.
  - cbn [orb] in H. specialize (IH H). destruct y; cbn [real_ids count_occ]; try exact IH.
    destruct (Nat.eq_dec id0 x); lia.
Qed.

Lemma cnt_skipn_le : forall n (l : list nat) x, (cnt (skipn n l) x <= cnt l x)%nat.
Proof.
  intros n l x. rewrite <- (firstn_skipn n l) at 2. rewrite count_occ_app. lia.
Qed.

Lemma inv2_init : Inv2 init.
Proof. intro id. unfold occ. cbn. split; lia. Qed.

Lemma cnt_ogot : forall o x, cnt (ogot o) x = match o with OGot j => if Nat.eq_dec j x then 1%nat else 0%nat | _ => 0%nat end.
Proof. intros o x. destruct o; reflexivity. Qed.

Lemma inv2_acquire_eval : forall cfg t s, Inv2 s -> Inv2 (acquire_eval cfg t s).
Proof.
  intros cfg t s I id. specialize (I id). unfold occ in *. unfold acquire_eval.
  destruct (eval cfg (down s) (memb t (ctxdone s)) (broken s) (nostop s) (idle s) (size s)) as [[[o l'] sz'] cl] eqn:E.
  apply eval_spec in E. destruct E as (E1 & _).
  assert (Hc : cnt (idle s) id = (cnt cl id + cnt (ogot o) id + cnt l' id)%nat).
  { rewrite E1 at 1. rewrite !count_occ_app. lia. }
  rewrite cnt_ogot in Hc.
  destruct o; st; cbn [real_ids count_occ]; try (split; [lia|intro H; apply I; lia]).
  destruct (Nat.eq_dec id0 id); split; try lia; intro H; apply I; lia.
Qed.

Lemma inv2_step : forall cfg s l s', Inv2 s -> lstep cfg s l = Some s' -> Inv2 s'.
Proof.
  intros cfg s l s' I Hl. destruct l; cbn [lstep] in Hl.
  - destruct (mutex_free s && negb (memb t (entered s)) && (c || negb (memb t (ctxdone s)))); [|discriminate].
    inversion Hl; subst s'. apply inv2_acquire_eval. intro id. specialize (I id). unfold occ in *. st. exact I.
  - destruct (mutex s) as [u|]; [|discriminate]. destruct (Nat.eqb t u); [|discriminate].
    inversion Hl; subst s'. intro id. specialize (I id). unfold occ in *. st. exact I.
  - destruct (mutex_free s && memb t (woken s)); [|discriminate].
    inversion Hl; subst s'. apply inv2_acquire_eval. intro id. specialize (I id). unfold occ in *. st. exact I.
  - destruct (memb t (making s)); [|discriminate]. destruct id as [id|].
    + destruct (memb id (used s)) eqn:U; [discriminate|]. inversion Hl; subst s'.
      apply memb_false_In in U. intro x. pose proof (I x) as [I1 I2]. unfold occ in *. st. cbn [real_ids count_occ In].
      destruct (Nat.eq_dec id x) as [Hx|Hx].
      * subst x. assert (Hz : (cnt (idle s) id + cnt (real_ids (held s)) id = 0)%nat).
        { destruct (cnt (idle s) id + cnt (real_ids (held s)) id)%nat eqn:Z; [reflexivity|]. exfalso. apply U. apply I2. lia. }
        split; [lia|intros _; left; reflexivity].
      * split; [lia|intro H; right; apply I2; lia].
    + inversion Hl; subst s'. intro x. specialize (I x). unfold occ in *. st. cbn [real_ids]. exact I.
  - destruct (mutex_free s && memb t (making s) && negb (memb id (used s))); [|discriminate].
    inversion Hl; subst s'. apply inv2_acquire_eval. intro x. specialize (I x). unfold occ in *. st.
    cbn [In]. split; [apply I|intro H; right; apply I; exact H].
  - destruct (memb t (exiting s)); [|discriminate]. inversion Hl; subst s'.
    intro id. specialize (I id). unfold occ in *. st. exact I.
  - destruct (negb (memb t (ctxdone s)) && (negb (memb t (entered s)) || memb t (cancellable s))); [|discriminate].
    inversion Hl; subst s'. intro id. specialize (I id). unfold occ in *. st. exact I.
  - destruct (memb t (bpend s) && (negb (locked_bcast cfg) || mutex_free s)); [|discriminate].
    inversion Hl; subst s'. intro id. specialize (I id). unfold occ in *. st. exact I.
  - destruct (wmemb w (held s) && mutex_free s) eqn:G; [|discriminate]. apply andb_true_iff in G. destruct G as [G1 G2].
    destruct (if down s then None else is_real_ok s w) as [id|] eqn:E.
    + destruct (down s); [discriminate|]. unfold is_real_ok in E. destruct w as [j| | |]; try discriminate.
      destruct (memb j (broken s)); [discriminate|]. inversion E; subst j. inversion Hl; subst s'.
      intro x. pose proof (I x) as [I1 I2]. pose proof (cnt_real_ids_remove_real id _ x G1) as Hc.
      unfold occ in *. st. cbn [count_occ]. destruct (Nat.eq_dec id x); split; try lia; intro H; apply I2; lia.
    + inversion Hl; subst s'. intro x. pose proof (I x) as [I1 I2]. pose proof (cnt_real_ids_remove_le w (held s) x) as Hc.
      unfold occ in *. st. split; [lia|intro H; apply I2; lia].
  - destruct (sigs s) as [|k]; [discriminate|]. destruct o as [u|].
    + destruct (memb u (parked s)); [|discriminate]. inversion Hl; subst s'.
      intro id. specialize (I id). unfold occ in *. st. exact I.
    + destruct (is_nil (parked s)); [|discriminate]. inversion Hl; subst s'.
      intro id. specialize (I id). unfold occ in *. st. exact I.
  - destruct (mutex_free s); [|discriminate]. inversion Hl; subst s'.
    intro id. specialize (I id). unfold occ in *. st. exact I.
  - destruct (cbc s) as [|k]; [discriminate|]. inversion Hl; subst s'.
    intro id. specialize (I id). unfold occ in *. st. exact I.
  - destruct (mutex_free s && tarmed s); [|discriminate]. inversion Hl; subst s'.
    intro x. pose proof (I x) as [I1 I2].
    pose proof (cnt_skipn_le (length (idle s) - Nat.min (min_idle cfg) (length (idle s))) (idle s) x) as Hc.
    unfold occ in *. st. split; [lia|intro H; apply I2; lia].
  - destruct (memb id (used s)); [|discriminate]. inversion Hl; subst s'.
    intro x. specialize (I x). unfold occ in *. st. exact I.
  - destruct (memb id (used s)); [|discriminate]. inversion Hl; subst s'.
    intro x. specialize (I x). unfold occ in *. st. exact I.
Qed.

Theorem inv2_reachable : forall cfg s, reachable cfg s -> Inv2 s.
Proof.
  intros cfg s Hr. eapply reachable_ind; [apply inv2_init| |exact Hr].
  intros s0 l s1 I Hl. eapply inv2_step; eassumption.
Qed.

Lemma inv2_nodup : forall s, Inv2 s -> NoDup (idle s ++ real_ids (held s)).
Proof.
  intros s I. apply (NoDup_count_occ Nat.eq_dec). intro x. rewrite count_occ_app. apply (I x).
Qed.

(** ---- after Close ---- *)

(** idle wires are all closed once the pool is down *)
Definition InvC (s : state) : Prop := down s = true -> forall id, In id (idle s) -> In id (broken s).

Lemma invC_acquire_eval : forall cfg t s, InvC s -> InvC (acquire_eval cfg t s).
Proof.
  intros cfg t s I. unfold acquire_eval.
  destruct (eval cfg (down s) (memb t (ctxdone s)) (broken s) (nostop s) (idle s) (size s)) as [[[o l'] sz'] cl] eqn:E.
  apply eval_spec in E. destruct E as (E1 & _).
  assert (Hin : forall id, In id l' -> In id (idle s)).
  { intros id H. rewrite E1. apply in_or_app. right. apply in_or_app. right. exact H. }
  unfold InvC in *. destruct o; st; intros Hd x Hi; apply in_or_app; right; apply I; auto.
Qed.

Lemma invC_step : forall cfg s l s', InvC s -> lstep cfg s l = Some s' -> InvC s'.
Proof.
  intros cfg s l s' I Hl. destruct l; cbn [lstep] in Hl.
  - destruct (mutex_free s && negb (memb t (entered s)) && (c || negb (memb t (ctxdone s)))); [|discriminate].
    inversion Hl; subst s'. apply invC_acquire_eval. unfold InvC in *. st. exact I.
  - destruct (mutex s) as [u|]; [|discriminate]. destruct (Nat.eqb t u); [|discriminate].
    inversion Hl; subst s'. unfold InvC in *. st. exact I.
  - destruct (mutex_free s && memb t (woken s)); [|discriminate].
    inversion Hl; subst s'. apply invC_acquire_eval. unfold InvC in *. st. exact I.
  - destruct (memb t (making s)); [|discriminate]. destruct id as [id|].
    + destruct (memb id (used s)); [discriminate|]. inversion Hl; subst s'. unfold InvC in *. st.
      intros Hd x Hx. destruct brk; [right|]; apply I; assumption.
    + inversion Hl; subst s'. unfold InvC in *. st. exact I.
  - destruct (mutex_free s && memb t (making s) && negb (memb id (used s))); [|discriminate].
    inversion Hl; subst s'. apply invC_acquire_eval. unfold InvC in *. st. intros Hd x Hx. right. apply I; assumption.
  - destruct (memb t (exiting s)); [|discriminate]. inversion Hl; subst s'. unfold InvC in *. st. exact I.
  - destruct (negb (memb t (ctxdone s)) && (negb (memb t (entered s)) || memb t (cancellable s))); [|discriminate].
    inversion Hl; subst s'. unfold InvC in *. st. exact I.
  - destruct (memb t (bpend s) && (negb (locked_bcast cfg) || mutex_free s)); [|discriminate].
    inversion Hl; subst s'. unfold InvC in *. st. exact I.
  - destruct (wmemb w (held s) && mutex_free s); [|discriminate].
    destruct (if down s then None else is_real_ok s w) as [id|] eqn:E.
    + destruct (down s) eqn:Hd; [discriminate|]. inversion Hl; subst s'. unfold InvC. st. rewrite Hd. discriminate.
    + inversion Hl; subst s'. unfold InvC in *. st. intros Hd x Hx. destruct w; try (apply I; assumption).
      right. apply I; assumption.
  - destruct (sigs s) as [|k]; [discriminate|]. destruct o as [u|].
    + destruct (memb u (parked s)); [|discriminate]. inversion Hl; subst s'. unfold InvC in *. st. exact I.
    + destruct (is_nil (parked s)); [|discriminate]. inversion Hl; subst s'. unfold InvC in *. st. exact I.
  - destruct (mutex_free s); [|discriminate]. inversion Hl; subst s'. unfold InvC. st.
    intros _ x Hx. apply in_or_app. left. exact Hx.
  - destruct (cbc s) as [|k]; [discriminate|]. inversion Hl; subst s'. unfold InvC in *. st. exact I.
  - destruct (mutex_free s && tarmed s); [|discriminate]. inversion Hl; subst s'. unfold InvC in *. st.
    intros Hd x Hx. apply in_or_app. right. apply I; [exact Hd|].
    rewrite <- (firstn_skipn (length (idle s) - Nat.min (min_idle cfg) (length (idle s))) (idle s)).
    apply in_or_app. right. exact Hx.
  - destruct (memb id (used s)); [|discriminate]. inversion Hl; subst s'. unfold InvC in *. st.
    intros Hd x Hx. right. apply I; assumption.
  - destruct (memb id (used s)); [|discriminate]. inversion Hl; subst s'. unfold InvC in *. st.
    intros Hd x Hx. right. apply I; assumption.
Qed.

Theorem invC_reachable : forall cfg s, reachable cfg s -> InvC s.
Proof.
  intros cfg s Hr. eapply reachable_ind; [| |exact Hr].
  - unfold InvC. cbn. discriminate.
  - intros s0 l s1 I Hl. eapply invC_step; eassumption.
Qed.

(** [down] is stable *)
Lemma down_acquire_eval : forall cfg t s, down (acquire_eval cfg t s) = down s.
Proof.
  intros cfg t s. unfold acquire_eval.
  destruct (eval cfg (down s) (memb t (ctxdone s)) (broken s) (nostop s) (idle s) (size s)) as [[[o l'] sz'] cl].
  destruct o; reflexivity.
Qed.

Lemma down_stable : forall cfg s l s', lstep cfg s l = Some s' -> down s = true -> down s' = true.
Proof.
  intros cfg s l s' Hl Hd. destruct l; cbn [lstep] in Hl;
    repeat match type of Hl with
           | (if ?c then _ else _) = Some _ => destruct c; [|try discriminate]
           | match ?c with _ => _ end = Some _ => destruct c; try discriminate
           end; try (inversion Hl; subst s'; try rewrite down_acquire_eval; st; try assumption; reflexivity).
Qed.

(** what an evaluation of [Acquire] hands out when the pool is down *)
Lemma acquire_eval_down : forall cfg t s, down s = true ->
  exists w, (w = CtxDead \/ w = DeadDown) /\ held (acquire_eval cfg t s) = w :: held s /\
            In t (exiting (acquire_eval cfg t s)) /\ idle (acquire_eval cfg t s) = idle s /\ size (acquire_eval cfg t s) = size s.
Proof.
  intros cfg t s Hd. unfold acquire_eval.
  destruct (eval cfg (down s) (memb t (ctxdone s)) (broken s) (nostop s) (idle s) (size s)) as [[[o l'] sz'] cl] eqn:E.
  apply eval_spec in E. destruct E as (E1 & E2 & E3 & E4).
  destruct o.
  - destruct E4 as (_ & _ & F & _). congruence.
  - exists CtxDead. rewrite (E3 (or_introl Hd)) in *. cbn [app ogot length] in *. st.
    repeat split; auto; try (left; reflexivity); try lia.
  - exists DeadDown. rewrite (E3 (or_introl Hd)) in *. cbn [app ogot length] in *. st.
    repeat split; auto; try (left; reflexivity); try lia.
  - destruct E4 as (_ & F & _). congruence.
  - destruct E4 as (F & _). congruence.
Qed.
