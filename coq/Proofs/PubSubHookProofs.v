(** Proofs about the hook-channel life cycle and the invalidation callbacks of Model/PubSub.v (C26_hook_chan, C27). *)
From Coq Require Import String List Arith NArith ZArith Bool Lia.
Require Import RV.Model.Base RV.Model.PsBase RV.Model.PubSub.
Import ListNotations.
Open Scope N_scope.
Open Scope list_scope.

(** * reachability *)
Lemma run_app : forall pm ls1 ls2 s, run pm s (ls1 ++ ls2) =
  match run pm s ls1 with Some s' => run pm s' ls2 | None => None end.
Proof.
  induction ls1 as [|l ls1 IH]; intros ls2 s; [reflexivity|].
  cbn [app run]. destruct (step pm s l); [apply IH|reflexivity].
Qed.

(** an invariant that holds initially and is preserved by every enabled step holds after every schedule *)
Lemma run_invariant : forall pm (P : state -> Prop),
  (forall s l s', P s -> step pm s l = Some s' -> P s') ->
  forall ls s s', P s -> run pm s ls = Some s' -> P s'.
Proof.
  intros pm P Hstep. induction ls as [|l ls IH]; intros s s' HP H.
  - cbn in H. injection H as <-. exact HP.
  - cbn in H. destruct (step pm s l) as [s1|] eqn:E; [|discriminate].
    apply (IH s1 s'); [exact (Hstep s l s1 HP E)|exact H].
Qed.

(** * hooks *)
Lemma find_hook_in : forall id l h, find_hook id l = Some h -> In h l /\ hk_id h = id.
Proof.
  induction l as [|x l IH]; intros h H; [discriminate|]. cbn in H.
  destruct (N.eqb (hk_id x) id) eqn:E.
  - inversion H; subst. split; [left; reflexivity|apply N.eqb_eq; exact E].
  - destruct (IH h H) as [A B]. split; [right; exact A|exact B].
Qed.

Lemma find_hook_none : forall id l, find_hook id l = None -> forall h, In h l -> hk_id h <> id.
Proof.
  induction l as [|x l IH]; intros H h Hin; [contradiction|]. cbn in H.
  destruct (N.eqb (hk_id x) id) eqn:E; [discriminate|]. destruct Hin as [<-|Hin].
  - apply N.eqb_neq. exact E.
  - apply IH; assumption.
Qed.

Lemma find_hook_some : forall id l h, NoDup (map hk_id l) -> In h l -> hk_id h = id -> find_hook id l = Some h.
Proof.
  induction l as [|x l IH]; intros h Hnd Hin Hid; [contradiction|]. cbn.
  inversion Hnd as [|? ? Hx Hnd']; subst. destruct Hin as [<-|Hin].
  - rewrite N.eqb_refl. reflexivity.
  - destruct (N.eqb (hk_id x) (hk_id h)) eqn:E.
    + apply N.eqb_eq in E. exfalso. apply Hx. rewrite E. apply in_map. exact Hin.
    + apply IH; auto.
Qed.

Lemma upd_hook_ids : forall f id l, (forall h, hk_id (f h) = hk_id h) -> map hk_id (upd_hook f id l) = map hk_id l.
Proof.
  intros f id l Hf. unfold upd_hook. rewrite map_map. apply map_ext. intros h.
  destruct (N.eqb (hk_id h) id); [apply Hf|reflexivity].
Qed.

Lemma in_upd_hook : forall f id l h', In h' (upd_hook f id l) ->
  exists h, In h l /\ h' = (if N.eqb (hk_id h) id then f h else h).
Proof. intros f id l h' H. unfold upd_hook in H. apply in_map_iff in H. destruct H as [h [A B]]. eauto. Qed.

(** the invariant of the hook machinery; [ex] = a hook that has just been swapped out and is about to be closed *)
Record hinv' (ex : option N) (s : state) : Prop := {
  hi_nodup : NoDup (map hk_id (st_hooks s));
  hi_cur : forall id, st_cur s = Some id ->
             exists h, In h (st_hooks s) /\ hk_id h = id /\ hk_closed h = 0%nat /\ hk_err h = [] /\ hk_to h = None;
  hi_ex : forall id, ex = Some id -> st_cur s <> Some id /\
             exists h, In h (st_hooks s) /\ hk_id h = id /\ hk_closed h = 0%nat /\ hk_err h = [] /\ hk_to h = None;
  hi_old : forall h, In h (st_hooks s) -> st_cur s <> Some (hk_id h) -> ex <> Some (hk_id h) ->
             hk_closed h = 1%nat /\ (length (hk_err h) <= 1)%nat /\ hk_to h <> None;
  hi_panic : st_panic s = false;
  hi_cleaned : st_cleaned s = true -> st_perr s <> None;
  hi_pending : st_cleaned s = true -> st_cur s <> None -> st_check s <> [];
  hi_from : forall h, In h (st_hooks s) -> (hk_from h <= length (st_handled s))%nat;
  hi_to : forall h t c, In h (st_hooks s) -> hk_to h = Some (t, c) -> (hk_from h <= t <= length (st_handled s))%nat;
  hi_cleanup_to : forall h t, In h (st_hooks s) -> hk_to h = Some (t, true) -> st_cleaned s = true
}.

Definition hinv := hinv' None.

Lemma hinv_init : forall b, hinv (init b).
Proof.
  intros b. constructor; cbn; try (intros; contradiction); try (intros; discriminate); try constructor; auto.
Qed.

(** closing the swapped-out hook: no panic, and it is now closed exactly once with at most one error *)
Lemma retire_inv : forall send cleanup old s,
  hinv' (Some old) s -> (cleanup = true -> st_cleaned s = true) ->
  hinv (retire send cleanup old s).
Proof.
  intros send cleanup old s H Hcl. destruct H as [Hnd Hcur Hex Hold Hp Hc Hpe Hf Ht Hct].
  destruct (Hex old eq_refl) as [Hne [ho [Hin [Hid [Hc0 [He0 Ht0]]]]]].
  assert (Hfind : find_hook old (st_hooks s) = Some ho) by (apply find_hook_some; auto).
  unfold retire. rewrite Hfind, Hc0. cbn [Nat.eqb negb]. rewrite orb_false_r.
  constructor; cbn.
  - rewrite upd_hook_ids; [exact Hnd|]. intros h. destruct send; reflexivity.
  - intros id Hid'. destruct (Hcur id Hid') as [h [A [B [C [D E]]]]].
    exists h. split; [|auto]. unfold upd_hook. apply in_map_iff. exists h. split; [|exact A].
    destruct (N.eqb (hk_id h) old) eqn:Eq; [|reflexivity]. apply N.eqb_eq in Eq. congruence.
  - intros id Hx. discriminate.
  - intros h' Hin' Hnc _. apply in_upd_hook in Hin'. destruct Hin' as [h [A B]].
    destruct (N.eqb (hk_id h) old) eqn:Eq.
    + apply N.eqb_eq in Eq.
      assert (h = ho).
      { assert (F : find_hook old (st_hooks s) = Some h) by (apply find_hook_some; auto). congruence. }
      subst h h'. destruct send; cbn; rewrite Hc0, He0; repeat split; auto; discriminate.
    + subst h'. apply Hold; auto. apply N.eqb_neq in Eq. congruence.
  - exact Hp.
  - exact Hc.
  - exact Hpe.
  - intros h' Hin'. apply in_upd_hook in Hin'. destruct Hin' as [h [A B]].
    destruct (N.eqb (hk_id h) old); subst h'; [destruct send; cbn|]; auto.
  - intros h' t c Hin' Hto. apply in_upd_hook in Hin'. destruct Hin' as [h [A B]].
    destruct (N.eqb (hk_id h) old); subst h'.
    + assert (t = length (st_handled s)) by (destruct send; cbn in Hto; congruence). subst t.
      specialize (Hf h A). destruct send; cbn; lia.
    + eapply Ht; eauto.
  - intros h' t Hin' Hto. apply in_upd_hook in Hin'. destruct Hin' as [h [A B]].
    destruct (N.eqb (hk_id h) old); subst h'.
    + apply Hcl. destruct send; cbn in Hto; congruence.
    + eapply Hct; eauto.
Qed.

Lemma NoDup_app_one : forall {A} (l : list A) x, NoDup l -> ~ In x l -> NoDup (l ++ [x]).
Proof.
  induction l as [|a l IH]; intros x Hnd Hx; cbn; [constructor; [intros []|constructor]|].
  inversion Hnd; subst. constructor.
  - intros Hin. apply in_app_or in Hin. destruct Hin as [Hin|[<-|[]]]; [contradiction|]. apply Hx. left. reflexivity.
  - apply IH; auto. intros Hin. apply Hx. right. exact Hin.
Qed.

(** steps that leave the hook machinery alone *)
Lemma hinv_frame : forall ex s s',
  st_hooks s' = st_hooks s -> st_cur s' = st_cur s -> st_panic s' = st_panic s -> st_cleaned s' = st_cleaned s ->
  (st_perr s <> None -> st_perr s' <> None) -> st_check s' = st_check s ->
  (length (st_handled s) <= length (st_handled s'))%nat ->
  hinv' ex s -> hinv' ex s'.
Proof.
  intros ex s s' Hh Hc Hp Hcl Hpe Hck Hlen [Hnd Hcur Hex Hold Hpa Hcle Hpen Hf Ht Hct].
  constructor; rewrite ?Hh, ?Hc, ?Hp, ?Hcl, ?Hck; auto.
  - intros h Hin. specialize (Hf h Hin). lia.
  - intros h t c Hin Hto. specialize (Ht h t c Hin Hto). lia.
Qed.

Lemma handle_push_hooks : forall s f,
  st_hooks (handle_push s f) = st_hooks s /\ st_cur (handle_push s f) = st_cur s /\
  st_panic (handle_push s f) = st_panic s /\ st_cleaned (handle_push s f) = st_cleaned s /\
  st_perr (handle_push s f) = st_perr s /\ st_check (handle_push s f) = st_check s /\
  st_handled (handle_push s f) = st_handled s ++ [f] /\ st_oninval (handle_push s f) = st_oninval s.
Proof.
  intros s f. unfold handle_push. destruct f as [k m|k c [r|]|k c|keys]; cbn; repeat split; reflexivity.
Qed.

Ltac step_inv H :=
  match type of H with
  | Some _ = Some _ => injection H as <-
  | None = Some _ => discriminate H
  | (match ?x with _ => _ end) = Some _ => let E := fresh "E" in destruct x eqn:E; step_inv H
  | (if ?x then _ else _) = Some _ => let E := fresh "E" in destruct x eqn:E; step_inv H
  | _ => idtac
  end.

Ltac hook_goals :=
  try solve [ assumption | discriminate | congruence | auto
            | intros; discriminate
            | intros; congruence
            | match goal with
              | Hcur : (forall id, st_cur ?s = Some id -> _), Ec : st_cur ?s = Some ?old |- _ =>
                let i := fresh in let Hi := fresh in intros i Hi; injection Hi as <-; split; [discriminate|]; apply Hcur; exact Ec
              end
            | match goal with
              | Hold : (forall h, In h (st_hooks ?s) -> _) |- _ => let x := fresh in let Hx := fresh in intros x Hx; intros; apply Hold; auto; congruence
              end ].

Lemma hinv_step : forall pm s l s', hinv s -> step pm s l = Some s' -> hinv s'.
Proof.
  intros pm s l s' HI H. unfold hinv in *.
  destruct l; cbn [step] in H.
  - (* LSubscribe *) step_inv H; (eapply hinv_frame; [..|exact HI]; auto).
  - (* LCmdErr *) step_inv H; (eapply hinv_frame; [..|exact HI]; auto).
  - (* LRecv *) step_inv H; (eapply hinv_frame; [..|exact HI]; auto).
  - (* LEnd *) step_inv H; (eapply hinv_frame; [..|exact HI]; auto).
  - (* LCtx *) step_inv H; (eapply hinv_frame; [..|exact HI]; auto).
  - (* LRemove *) step_inv H; (eapply hinv_frame; [..|exact HI]; auto).
  - (* LPush *) step_inv H.
    match goal with |- hinv' None (handle_push ?s0 ?f) => destruct (handle_push_hooks s0 f) as [A [B [C [D [E' [F G]]]]]] end.
    destruct G as [G _]. cbn in A, B, C, D, E', F, G.
    eapply hinv_frame; [exact A|exact B|exact C|rewrite D; auto|rewrite E'; auto|exact F| |exact HI].
    rewrite G, app_length. cbn. lia.
  - (* LSend *) step_inv H; (eapply hinv_frame; [..|exact HI]; auto).
  - (* LSetErr *) step_inv H. eapply hinv_frame; [..|exact HI]; auto. cbn. destruct (st_perr s); intros; congruence.
  - (* LCleanup *) step_inv H. destruct (st_cur s) as [old|] eqn:Ec.
    + (* a hook is installed: it is closed with the error *)
      apply retire_inv; [|reflexivity]. destruct HI as [Hnd Hcur Hex Hold Hpa Hcle Hpen Hf Ht Hct].
      constructor; cbn; hook_goals.
    + destruct HI as [Hnd Hcur Hex Hold Hpa Hcle Hpen Hf Ht Hct].
      constructor; cbn; hook_goals.
  - (* LSetHooks *) step_inv H. pose proof (find_hook_none _ _ E) as Hfresh.
    destruct (st_cur s) as [old|] eqn:Ec.
    + (* an older hook is swapped out and closed *)
      apply retire_inv; [|discriminate]. destruct HI as [Hnd Hcur Hex Hold Hpa Hcle Hpen Hf Ht Hct].
      constructor; cbn.
      * rewrite map_app. cbn. apply NoDup_app_one; [exact Hnd|]. intros Hin. apply in_map_iff in Hin.
        destruct Hin as [x [A B]]. apply (Hfresh x B). exact A.
      * intros id Hid. injection Hid as <-. eexists. split; [apply in_or_app; right; left; reflexivity|]. cbn. auto.
      * intros id Hid. injection Hid as <-.
        destruct (Hcur old Ec) as [ho [A [B [C [D F]]]]].
        split. { intros Hx. injection Hx as Hx. apply (Hfresh ho A). congruence. }
        exists ho. split; [apply in_or_app; left; exact A|auto].
      * intros x Hin Hnc Hne. apply in_app_or in Hin. destruct Hin as [Hin|[<-|[]]].
        -- apply Hold; auto; congruence.
        -- cbn in Hnc. congruence.
      * exact Hpa.
      * exact Hcle.
      * intros _ _. destruct (st_check s); discriminate.
      * intros x Hin. apply in_app_or in Hin. destruct Hin as [Hin|[<-|[]]]; [auto|cbn; lia].
      * intros x t c Hin Hto. apply in_app_or in Hin. destruct Hin as [Hin|[<-|[]]]; [eauto|discriminate].
      * intros x t Hin Hto. apply in_app_or in Hin. destruct Hin as [Hin|[<-|[]]]; [eauto|discriminate].
    + destruct HI as [Hnd Hcur Hex Hold Hpa Hcle Hpen Hf Ht Hct].
      constructor; cbn.
      * rewrite map_app. cbn. apply NoDup_app_one; [exact Hnd|]. intros Hin. apply in_map_iff in Hin.
        destruct Hin as [x [A B]]. apply (Hfresh x B). exact A.
      * intros id Hid. injection Hid as <-. eexists. split; [apply in_or_app; right; left; reflexivity|]. cbn. auto.
      * intros id Hid. discriminate.
      * intros x Hin Hnc _. apply in_app_or in Hin. destruct Hin as [Hin|[<-|[]]].
        -- apply Hold; auto; congruence.
        -- cbn in Hnc. congruence.
      * exact Hpa.
      * exact Hcle.
      * intros _ _. destruct (st_check s); discriminate.
      * intros x Hin. apply in_app_or in Hin. destruct Hin as [Hin|[<-|[]]]; [auto|cbn; lia].
      * intros x t c Hin Hto. apply in_app_or in Hin. destruct Hin as [Hin|[<-|[]]]; [eauto|discriminate].
      * intros x t Hin Hto. apply in_app_or in Hin. destruct Hin as [Hin|[<-|[]]]; [eauto|discriminate].
  - (* LClearHooks *) step_inv H. destruct (st_cur s) as [old|] eqn:Ec; [|exact HI].
    apply retire_inv; [|discriminate]. destruct HI as [Hnd Hcur Hex Hold Hpa Hcle Hpen Hf Ht Hct].
    constructor; cbn; hook_goals.
  - (* LCheckHooks *) step_inv H; cbn in *.
    + destruct (st_cur s) as [old|] eqn:Ec.
      * apply retire_inv; [|discriminate]. destruct HI as [Hnd Hcur Hex Hold Hpa Hcle Hpen Hf Ht Hct].
        constructor; cbn; hook_goals.
      * destruct HI as [Hnd Hcur Hex Hold Hpa Hcle Hpen Hf Ht Hct].
        constructor; cbn; rewrite ?Ec; hook_goals.
    + (* no error latched: the clean-up has not run *)
      destruct HI as [Hnd Hcur Hex Hold Hpa Hcle Hpen Hf Ht Hct].
      constructor; cbn; hook_goals. intros Hcl. exfalso. apply (Hcle Hcl). assumption.
  - (* LSrvSub *) step_inv H; (eapply hinv_frame; [..|exact HI]; auto).
  - (* LSrvUnsub *) step_inv H; (eapply hinv_frame; [..|exact HI]; auto).
  - (* LSrvPublish *) step_inv H; (eapply hinv_frame; [..|exact HI]; auto).
  - (* LSrvInval *) step_inv H; (eapply hinv_frame; [..|exact HI]; auto).
Qed.

(** * invalidation callbacks *)
Lemma slice_app_old : forall {A} (l : list A) x from t, (t <= length l)%nat -> slice (l ++ [x]) from t = slice l from t.
Proof.
  intros A l x from t Ht. unfold slice.
  destruct (Nat.le_gt_cases from (length l)) as [Hf|Hf].
  - rewrite skipn_app. replace (from - length l)%nat with 0%nat by lia. cbn [skipn].
    rewrite firstn_app. rewrite skipn_length. replace (t - from - (length l - from))%nat with 0%nat by lia.
    cbn [firstn]. apply app_nil_r.
  - replace (t - from)%nat with 0%nat by lia. reflexivity.
Qed.

Lemma slice_app_cur : forall {A} (l : list A) x from, (from <= length l)%nat ->
  slice (l ++ [x]) from (length (l ++ [x])) = slice l from (length l) ++ [x].
Proof.
  intros A l x from Hf. unfold slice. rewrite app_length. cbn [length].
  rewrite skipn_app. replace (from - length l)%nat with 0%nat by lia. cbn [skipn].
  rewrite !firstn_all2; [reflexivity| |].
  - rewrite skipn_length. lia.
  - rewrite app_length, skipn_length. cbn. lia.
Qed.

Lemma invals_app : forall a b, invals (a ++ b) = invals a ++ invals b.
Proof. intros. unfold invals. apply flat_map_app. Qed.

Lemma msgs_of_app : forall a b, msgs_of (a ++ b) = msgs_of a ++ msgs_of b.
Proof. intros. unfold msgs_of. apply flat_map_app. Qed.

Record cinv (s : state) : Prop := {
  ci_cb : st_cb s = cb_spec s;
  ci_hooks : forall h, In h (st_hooks s) -> hook_inval_log s (hk_id h) = hook_inval_spec s h;
  ci_ids : forall x, In x (st_hinval s) -> exists h, In h (st_hooks s) /\ hk_id h = fst x;
  ci_hist : st_hist s = msgs_of (st_handled s);
  ci_clean_push : st_cleaned s = true -> True
}.

Lemma cinv_init : forall b, cinv (init b).
Proof. intros b. constructor; cbn; auto; try (intros; contradiction). unfold cb_spec. cbn. destruct b; reflexivity. Qed.

(** steps that touch neither the callbacks nor the handled frames *)
Lemma cinv_frame : forall s s',
  st_cb s' = st_cb s -> st_oninval s' = st_oninval s -> st_handled s' = st_handled s -> st_cleaned s' = st_cleaned s ->
  st_hinval s' = st_hinval s -> st_hooks s' = st_hooks s -> st_hist s' = st_hist s ->
  cinv s -> cinv s'.
Proof.
  intros s s' A B C D E F G [H1 H2 H3 H4 _]. constructor; auto.
  - unfold cb_spec. rewrite A, B, C, D. exact H1.
  - intros h Hin. rewrite F in Hin. unfold hook_inval_log, hook_inval_spec. rewrite E, C. apply H2. exact Hin.
  - intros x Hin. rewrite E in Hin. rewrite F. apply H3. exact Hin.
  - rewrite G, C. exact H4.
Qed.

Lemma hook_log_app : forall s id x,
  map snd (filter (fun y : N * option (list bytes) => N.eqb (fst y) id) (st_hinval s ++ [x])) =
  hook_inval_log s id ++ (if N.eqb (fst x) id then [snd x] else []).
Proof.
  intros s id x. unfold hook_inval_log. rewrite filter_app, map_app. cbn. destruct (N.eqb (fst x) id); reflexivity.
Qed.

Lemma spec_handled_app : forall s s' h f,
  st_handled s' = st_handled s ++ [f] ->
  (hk_from h <= length (st_handled s))%nat ->
  (forall t c, hk_to h = Some (t, c) -> (t <= length (st_handled s))%nat) ->
  hook_inval_spec s' h =
    hook_inval_spec s h ++
    (if hk_inval h then match hk_to h with None => invals [f] | Some _ => [] end else []).
Proof.
  intros s s' h f Hh Hf Ht. unfold hook_inval_spec. rewrite Hh. destruct (hk_inval h); [|reflexivity].
  destruct (hk_to h) as [[t c]|].
  - rewrite slice_app_old by (eapply Ht; eauto). rewrite app_nil_r. reflexivity.
  - rewrite slice_app_cur by exact Hf. rewrite invals_app. reflexivity.
Qed.

(** the current hook, when there is one *)
Lemma cur_hook_spec : forall s id, hinv s -> st_cur s = Some id ->
  exists h, cur_hook s = Some h /\ In h (st_hooks s) /\ hk_id h = id /\ hk_to h = None.
Proof.
  intros s id HI Hc. destruct (hi_cur _ _ HI id Hc) as [h [A [B [_ [_ D]]]]].
  exists h. unfold cur_hook. rewrite Hc. rewrite (find_hook_some id _ h (hi_nodup _ _ HI) A B). auto.
Qed.

Lemma cinv_push : forall s f, hinv s -> cinv s -> st_cleaned s = false -> cinv (handle_push s f).
Proof.
  intros s f HI [H1 H2 H3 H4 _] Hcl.
  destruct (handle_push_hooks s f) as [A [B [C [D [E [F [G Ho]]]]]]].
  assert (Hspec : forall h, In h (st_hooks s) ->
            hook_inval_spec (handle_push s f) h =
            hook_inval_spec s h ++ (if hk_inval h then match hk_to h with None => invals [f] | Some _ => [] end else [])).
  { intros h Hin. apply spec_handled_app; [exact G|eapply hi_from; eauto|].
    intros t c Hto. destruct (hi_to _ _ HI h t c Hin Hto). lia. }
  constructor; auto.
  - (* option-level callback *)
    unfold cb_spec. rewrite Ho, G, D, Hcl, invals_app, !app_nil_r.
    unfold cb_spec in H1. rewrite Hcl, app_nil_r in H1.
    unfold handle_push. destruct f as [k m|k c [r|]|k c|keys]; cbn; rewrite ?H1; destruct (st_oninval s); cbn; rewrite ?app_nil_r; reflexivity.
  - (* hook callbacks *)
    intros h Hin. rewrite A in Hin. rewrite (Hspec h Hin), <- (H2 h Hin).
    unfold handle_push. destruct f as [k m|k c [r|]|k c|keys]; cbn [invals flat_map app];
      try (unfold hook_inval_log; cbn; destruct (hk_inval h); [destruct (hk_to h)|]; rewrite app_nil_r; reflexivity).
    (* an invalidation *)
    unfold hook_inval_log at 1. cbn [st_hinval].
    destruct (st_cur s) as [cid|] eqn:Ec.
    + destruct (cur_hook_spec s cid HI Ec) as [hc [Hch [Hcin [Hcid Hcto]]]].
      unfold cur_hook in *. cbn [st_cur st_hooks]. rewrite Ec in *. rewrite Hch.
      destruct (N.eq_dec (hk_id h) cid) as [Heq|Hne].
      * assert (h = hc).
        { assert (F1 : find_hook cid (st_hooks s) = Some h) by (apply find_hook_some; auto; apply (hi_nodup _ _ HI)). congruence. }
        subst hc. rewrite Hcto. destruct (hk_inval h) eqn:Ei.
        -- rewrite hook_log_app. cbn. rewrite Hcid, N.eqb_refl. reflexivity.
        -- rewrite app_nil_r. reflexivity.
      * assert (Hto : hk_to h <> None).
        { destruct (hi_old _ _ HI h Hin) as [_ [_ X]]; [congruence|discriminate|exact X]. }
        destruct (hk_to h) as [[t c]|] eqn:Et; [|congruence].
        replace (if hk_inval h then [] else []) with (@nil (option (list bytes))) by (destruct (hk_inval h); reflexivity).
        rewrite app_nil_r. destruct (hk_inval hc).
        -- rewrite hook_log_app. cbn. destruct (N.eqb (hk_id hc) (hk_id h)) eqn:Eq; [|apply app_nil_r].
           apply N.eqb_eq in Eq. congruence.
        -- reflexivity.
    + unfold cur_hook. cbn [st_cur]. rewrite ?Ec.
      assert (Hto : hk_to h <> None).
      { destruct (hi_old _ _ HI h Hin) as [_ [_ X]]; [congruence|discriminate|exact X]. }
      destruct (hk_to h) as [[t c]|] eqn:Et; [|congruence].
      replace (if hk_inval h then [] else []) with (@nil (option (list bytes))) by (destruct (hk_inval h); reflexivity).
      rewrite app_nil_r. reflexivity.
  - (* ids *)
    intros x Hin. rewrite A.
    unfold handle_push in Hin. destruct f as [k m|k c [r|]|k c|keys]; cbn in Hin; try (apply H3; exact Hin).
    unfold cur_hook in Hin. cbn [st_cur st_hooks] in Hin.
    destruct (st_cur s) as [cid|]; [|apply H3; exact Hin].
    destruct (find_hook cid (st_hooks s)) as [hc|] eqn:Ech; [|apply H3; exact Hin].
    destruct (hk_inval hc); [|apply H3; exact Hin].
    apply in_app_or in Hin. destruct Hin as [Hin|[<-|[]]]; [apply H3; exact Hin|].
    apply find_hook_in in Ech. exists hc. cbn. tauto.
  - (* hist *)
    rewrite G, msgs_of_app, <- H4.
    unfold handle_push. destruct f as [k m|k c [r|]|k c|keys]; cbn; rewrite ?app_nil_r; reflexivity.
Qed.

Lemma retire_fields : forall send cl old s,
  st_cb (retire send cl old s) = st_cb s /\ st_oninval (retire send cl old s) = st_oninval s /\
  st_handled (retire send cl old s) = st_handled s /\ st_cleaned (retire send cl old s) = st_cleaned s /\
  st_hinval (retire send cl old s) = st_hinval s /\ st_hist (retire send cl old s) = st_hist s /\
  st_hooks (retire send cl old s) =
    upd_hook (fun h => hook_close (length (st_handled s)) cl (match send with Some e => hook_send e h | None => h end)) old (st_hooks s).
Proof. intros. unfold retire. cbn. repeat split; reflexivity. Qed.

Lemma cinv_retire : forall send (cl : bool) old s ho,
  NoDup (map hk_id (st_hooks s)) -> In ho (st_hooks s) -> hk_id ho = old -> hk_to ho = None ->
  st_cb s = cb_spec s ->
  (forall h, In h (st_hooks s) -> hk_id h <> old -> hook_inval_log s (hk_id h) = hook_inval_spec s h) ->
  hook_inval_log s old =
    (if hk_inval ho then invals (slice (st_handled s) (hk_from ho) (length (st_handled s))) ++ (if cl then [@None (list bytes)] else @nil (option (list bytes))) else @nil (option (list bytes))) ->
  (forall x, In x (st_hinval s) -> exists h, In h (st_hooks s) /\ hk_id h = fst x) ->
  st_hist s = msgs_of (st_handled s) ->
  cinv (retire send cl old s).
Proof.
  intros send cl old s ho Hnd Hin Hid Hto H1 H2 H2' H3 H4.
  destruct (retire_fields send cl old s) as [A [B [C [D [E [F G]]]]]].
  constructor; [| | | |exact (fun _ => I)].
  - unfold cb_spec. rewrite A, B, C, D. exact H1.
  - intros h' Hin'. rewrite G in Hin'. apply in_upd_hook in Hin'. destruct Hin' as [h [Hh Heq]].
    unfold hook_inval_log, hook_inval_spec. rewrite E, C.
    destruct (N.eqb (hk_id h) old) eqn:Eq.
    + apply N.eqb_eq in Eq.
      assert (h = ho).
      { assert (F1 : find_hook old (st_hooks s) = Some h) by (apply find_hook_some; auto).
        assert (F2 : find_hook old (st_hooks s) = Some ho) by (apply find_hook_some; auto). congruence. }
      subst h h'. replace (hk_id (hook_close _ _ _)) with old by (destruct send; cbn; congruence).
      fold (hook_inval_log s old). rewrite H2'. destruct send; cbn; reflexivity.
    + subst h'. apply N.eqb_neq in Eq. apply (H2 h Hh Eq).
  - intros x Hx. rewrite E in Hx. destruct (H3 x Hx) as [h [Hh Hi]].
    rewrite G. exists (if N.eqb (hk_id h) old then hook_close (length (st_handled s)) cl (match send with Some e => hook_send e h | None => h end) else h).
    split.
    + unfold upd_hook. apply in_map_iff. exists h. split; [reflexivity|exact Hh].
    + destruct (N.eqb (hk_id h) old); [destruct send; cbn; exact Hi|exact Hi].
  - rewrite F, C. exact H4.
Qed.

(** the log of the current hook before it is retired *)
Lemma cur_log : forall s ho, cinv s -> In ho (st_hooks s) -> hk_to ho = None ->
  hook_inval_log s (hk_id ho) =
    (if hk_inval ho then invals (slice (st_handled s) (hk_from ho) (length (st_handled s))) else []).
Proof.
  intros s ho [_ H2 _ _ _] Hin Hto. rewrite (H2 ho Hin). unfold hook_inval_spec. rewrite Hto. reflexivity.
Qed.

Lemma log_fresh : forall (l : list (N * option (list bytes))) id,
  (forall x, In x l -> fst x <> id) -> map snd (filter (fun x => N.eqb (fst x) id) l) = [].
Proof.
  induction l as [|x l IH]; intros id H; [reflexivity|]. cbn.
  destruct (N.eqb (fst x) id) eqn:Eq.
  - apply N.eqb_eq in Eq. exfalso. apply (H x); [left; reflexivity|exact Eq].
  - apply IH. intros y Hy. apply H. right. exact Hy.
Qed.

Lemma cinv_step : forall pm s l s', hinv s -> cinv s -> step pm s l = Some s' -> cinv s'.
Proof.
  intros pm s l s' HI HC H.
  destruct l; cbn [step] in H.
  - step_inv H; (eapply cinv_frame; [..|exact HC]; auto).
  - step_inv H; (eapply cinv_frame; [..|exact HC]; auto).
  - step_inv H; (eapply cinv_frame; [..|exact HC]; auto).
  - step_inv H; (eapply cinv_frame; [..|exact HC]; auto).
  - step_inv H; (eapply cinv_frame; [..|exact HC]; auto).
  - step_inv H; (eapply cinv_frame; [..|exact HC]; auto).
  - (* LPush *) step_inv H. apply cinv_push; auto.
    + eapply hinv_frame; [..|exact HI]; auto.
    + eapply cinv_frame; [..|exact HC]; auto.
  - step_inv H; (eapply cinv_frame; [..|exact HC]; auto).
  - step_inv H; (eapply cinv_frame; [..|exact HC]; auto).
  - (* LCleanup *) step_inv H. pose proof HC as [H1 H2 H3 H4 _].
    destruct (st_cur s) as [old|] eqn:Ec.
    + destruct (cur_hook_spec s old HI Ec) as [ho [Hch [Hin [Hid Hto]]]]. rewrite Hch.
      eapply (cinv_retire _ _ old _ ho); cbn; auto.
      * apply (hi_nodup _ _ HI).
      * unfold cb_spec in *. cbn. rewrite E1 in H1. rewrite H1. destruct (st_oninval s); rewrite ?app_nil_r; reflexivity.
      * intros h Hh Hne.
        assert (Es : forall s0, st_handled s0 = st_handled s -> hook_inval_spec s0 h = hook_inval_spec s h)
          by (intros s0 E0'; unfold hook_inval_spec; rewrite E0'; reflexivity).
        rewrite Es by reflexivity. rewrite <- (H2 h Hh). unfold hook_inval_log. cbn [st_hinval].
        destruct (hk_inval ho); [|reflexivity]. rewrite filter_app, map_app. cbn.
        destruct (N.eqb (hk_id ho) (hk_id h)) eqn:Eq; [apply N.eqb_eq in Eq; congruence|apply app_nil_r].
      * unfold hook_inval_log. cbn. pose proof (cur_log s ho HC Hin Hto) as L. rewrite Hid in L.
        destruct (hk_inval ho).
        -- rewrite filter_app, map_app. cbn. rewrite Hid, N.eqb_refl. cbn. fold (hook_inval_log s old). rewrite L. reflexivity.
        -- exact L.
      * intros x Hx. destruct (hk_inval ho); [|apply H3; exact Hx].
        apply in_app_or in Hx. destruct Hx as [Hx|[<-|[]]]; [apply H3; exact Hx|]. exists ho. cbn. auto.
    + unfold cur_hook. rewrite Ec. constructor; cbn; auto.
      * unfold cb_spec in *. cbn. rewrite E1 in H1. rewrite H1. destruct (st_oninval s); rewrite ?app_nil_r; reflexivity.
  - (* LSetHooks *) step_inv H. pose proof HC as [H1 H2 H3 H4 _]. pose proof (find_hook_none _ _ E) as Hfresh.
    assert (Hlogfresh : forall s0, st_hinval s0 = st_hinval s -> hook_inval_log s0 h = []).
    { intros s0 Hs0. unfold hook_inval_log. rewrite Hs0. apply log_fresh.
      intros x Hx Heq. destruct (H3 x Hx) as [h0 [A B]]. apply (Hfresh h0 A). congruence. }
    assert (Hnew : forall s0, st_handled s0 = st_handled s ->
               hook_inval_spec s0 (mkHook h inval [] 0 (length (st_handled s)) None) = []).
    { intros s0 Hs0. unfold hook_inval_spec. cbn. rewrite Hs0. unfold slice. rewrite Nat.sub_diag. cbn.
      destruct inval; reflexivity. }
    assert (Hsame : forall s0 x, st_handled s0 = st_handled s -> st_hinval s0 = st_hinval s -> In x (st_hooks s) ->
               hook_inval_log s0 (hk_id x) = hook_inval_spec s0 x).
    { intros s0 x Ea Eb Hx. unfold hook_inval_log, hook_inval_spec. rewrite Ea, Eb. apply (H2 x Hx). }
    match goal with
    | |- cinv (match st_cur s with Some old => retire None false old ?x | None => _ end) => set (s1 := x)
    end.
    assert (Eh : st_handled s1 = st_handled s) by reflexivity.
    assert (Ei : st_hinval s1 = st_hinval s) by reflexivity.
    assert (Ek : st_hooks s1 = st_hooks s ++ [mkHook h inval [] 0 (length (st_handled s)) None]) by reflexivity.
    assert (Ecb : st_cb s1 = cb_spec s1) by (unfold cb_spec; cbn; exact H1).
    assert (Ehist : st_hist s1 = msgs_of (st_handled s1)) by (cbn; exact H4).
    assert (Hall : forall x, In x (st_hooks s1) -> hook_inval_log s1 (hk_id x) = hook_inval_spec s1 x).
    { intros x Hx. rewrite Ek in Hx. apply in_app_or in Hx. destruct Hx as [Hx|[<-|[]]].
      - apply Hsame; auto.
      - cbn [hk_id]. rewrite (Hlogfresh s1 Ei). symmetry. apply Hnew. exact Eh. }
    assert (Hids : forall x, In x (st_hinval s1) -> exists h0, In h0 (st_hooks s1) /\ hk_id h0 = fst x).
    { intros x Hx. rewrite Ei in Hx. destruct (H3 x Hx) as [h0 [A B]]. exists h0. rewrite Ek. split; [apply in_or_app; left; exact A|exact B]. }
    assert (Hnd1 : NoDup (map hk_id (st_hooks s1))).
    { rewrite Ek, map_app. cbn. apply NoDup_app_one; [apply (hi_nodup _ _ HI)|]. intros Hx. apply in_map_iff in Hx.
      destruct Hx as [x [A B]]. apply (Hfresh x B). exact A. }
    destruct (st_cur s) as [old|] eqn:Ec.
    + destruct (cur_hook_spec s old HI Ec) as [ho [Hch [Hin [Hid Hto]]]].
      apply (cinv_retire None false old s1 ho); auto.
      * rewrite Ek. apply in_or_app. left. exact Hin.
      * rewrite <- Hid. rewrite (Hall ho) by (rewrite Ek; apply in_or_app; left; exact Hin).
        unfold hook_inval_spec. rewrite Hto, app_nil_r. reflexivity.
    + constructor; auto.
  - (* LClearHooks *) step_inv H. destruct (st_cur s) as [old|] eqn:Ec; [|exact HC].
    pose proof HC as [H1 H2 H3 H4 _].
    destruct (cur_hook_spec s old HI Ec) as [ho [Hch [Hin [Hid Hto]]]].
    apply (cinv_retire None false old (set_cur None s) ho); auto.
    + apply (hi_nodup _ _ HI).
    + intros x Hx _. apply (H2 x Hx).
    + rewrite <- Hid. change (hook_inval_log (set_cur None s) (hk_id ho)) with (hook_inval_log s (hk_id ho)).
      rewrite (H2 ho Hin). unfold hook_inval_spec. rewrite Hto, app_nil_r. reflexivity.
  - (* LCheckHooks *) step_inv H.
    + cbn [st_cur]. destruct (st_cur s) as [old|] eqn:Ec; [|eapply cinv_frame; [..|exact HC]; auto].
      pose proof HC as [H1 H2 H3 H4 _].
      destruct (cur_hook_spec s old HI Ec) as [ho [Hch [Hin [Hid Hto]]]].
      eapply (cinv_retire (Some p) false old _ ho).
      * apply (hi_nodup _ _ HI).
      * exact Hin.
      * exact Hid.
      * exact Hto.
      * exact H1.
      * intros x Hx _. apply (H2 x Hx).
      * rewrite <- Hid.
        match goal with |- hook_inval_log ?x _ = _ => change (hook_inval_log x (hk_id ho)) with (hook_inval_log s (hk_id ho)) end.
        rewrite (H2 ho Hin). unfold hook_inval_spec. rewrite Hto, app_nil_r. reflexivity.
      * exact H3.
      * exact H4.
    + eapply cinv_frame; [..|exact HC]; auto.
  - step_inv H; (eapply cinv_frame; [..|exact HC]; auto).
  - step_inv H; (eapply cinv_frame; [..|exact HC]; auto).
  - step_inv H; (eapply cinv_frame; [..|exact HC]; auto).
  - step_inv H; (eapply cinv_frame; [..|exact HC]; auto).
Qed.

Lemma option_eq_dec_N : forall a b : option N, {a = b} + {a <> b}.
Proof. decide equality. apply N.eq_dec. Qed.

(** * reachable states *)
Theorem hook_reach : forall pm b ls s, run pm (init b) ls = Some s -> hinv s /\ cinv s.
Proof.
  intros pm b ls s H.
  apply (run_invariant pm (fun s => hinv s /\ cinv s)) with (ls := ls) (s := init b); auto.
  - intros s0 l s1 [A B] Hs. split; [eapply hinv_step; eauto|eapply cinv_step; eauto].
  - split; [apply hinv_init|apply cinv_init].
Qed.

(** the channel returned by SetPubSubHooks: closed at most once — exactly once as soon as its hooks are no longer
    the installed ones — with at most one error, sent before the close; no panic (double close / send on closed) *)
Theorem hook_chan : forall pm b ls s, run pm (init b) ls = Some s ->
  st_panic s = false /\
  forall h, In h (st_hooks s) ->
    (hk_closed h <= 1)%nat /\ (length (hk_err h) <= 1)%nat /\
    (hk_closed h = 0%nat <-> st_cur s = Some (hk_id h)) /\
    (hk_closed h = 0%nat -> hk_err h = []) /\
    (st_cleaned s = true -> st_check s = [] -> hk_closed h = 1%nat).
Proof.
  intros pm b ls s H. destruct (hook_reach pm b ls s H) as [HI _].
  split; [apply (hi_panic _ _ HI)|]. intros h Hin.
  destruct (option_eq_dec_N (st_cur s) (Some (hk_id h))) as [Hc|Hc].
  - destruct (hi_cur _ _ HI _ Hc) as [h' [A [B [C [D E]]]]].
    assert (h' = h).
    { assert (F1 : find_hook (hk_id h) (st_hooks s) = Some h') by (apply find_hook_some; auto; apply (hi_nodup _ _ HI)).
      assert (F2 : find_hook (hk_id h) (st_hooks s) = Some h) by (apply find_hook_some; auto; apply (hi_nodup _ _ HI)). congruence. }
    subst h'. rewrite C, D. cbn. repeat split; auto; try lia.
    intros Hcl Hck. exfalso. apply (hi_pending _ _ HI Hcl); [congruence|exact Hck].
  - destruct (hi_old _ _ HI h Hin Hc) as [A [B C]]; [discriminate|].
    rewrite A. repeat split; auto; try lia; try discriminate. intros Hx. congruence.
Qed.
