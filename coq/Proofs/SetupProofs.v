(** Proofs about Model/Setup.v (C47). *)
From Coq Require Import String List Arith NArith ZArith Bool Lia.
Require Import RV.Model.Base RV.Model.PsBase RV.Model.Setup.
Import ListNotations.
Open Scope N_scope.
Open Scope string_scope.
Open Scope list_scope.

(** * Contents of the command lists *)

Lemma filter_opt_cmd : forall (f : argv -> bool) b c,
  filter f (opt_cmd b c) = if b && f c then [c] else [].
Proof. intros f b c. destruct b; cbn; [destruct (f c)|]; reflexivity. Qed.

Lemma is_empty_spec : forall b, is_empty b = true <-> b = [].
Proof. destruct b; cbn; split; congruence. Qed.

(** the family tests on the commands of the lists, by computation on the literal heads *)
Ltac fam := cbv [is_cmd is_client head_is hello_cmd tracking_cmd app]; cbn; try reflexivity.

Lemma setinfo_shape : forall o,
  (setinfo_cmds o = [] /\ add_setinfo o = false) \/
  (exists n v, setinfo_cmds o = [[bs "CLIENT"; bs "SETINFO"; bs "LIB-NAME"; n]; [bs "CLIENT"; bs "SETINFO"; bs "LIB-VER"; v]]
               /\ add_setinfo o = true).
Proof.
  intros o. unfold setinfo_cmds, add_setinfo. destruct (o_setinfo o) as [l|].
  - destruct l as [|a [|b [|c l]]]; [left|left|right|left]; auto. exists a, b. auto.
  - right. exists (o_libname o), (o_libver o). auto.
Qed.

Lemma filter_setinfo : forall (f : argv -> bool) o,
  (forall n v, f [bs "CLIENT"; bs "SETINFO"; bs "LIB-NAME"; n] = f [bs "CLIENT"; bs "SETINFO"; bs "LIB-VER"; v]) ->
  (forall n, f [bs "CLIENT"; bs "SETINFO"; bs "LIB-NAME"; n] = f [bs "CLIENT"; bs "SETINFO"; bs "LIB-NAME"; []]) ->
  filter f (setinfo_cmds o) = if f [bs "CLIENT"; bs "SETINFO"; bs "LIB-NAME"; []] then setinfo_cmds o else [].
Proof.
  intros f o H1 H2. destruct (setinfo_shape o) as [[E _]|[n [v [E _]]]]; rewrite E.
  - destruct (f _); reflexivity.
  - cbn [filter]. rewrite <- (H1 n v), (H2 n). destruct (f _); reflexivity.
Qed.

(** the shared tail *)
Lemma filter_tail : forall (f : argv -> bool) o,
  (forall n v, f [bs "CLIENT"; bs "SETINFO"; bs "LIB-NAME"; n] = f [bs "CLIENT"; bs "SETINFO"; bs "LIB-VER"; v]) ->
  (forall n, f [bs "CLIENT"; bs "SETINFO"; bs "LIB-NAME"; n] = f [bs "CLIENT"; bs "SETINFO"; bs "LIB-NAME"; []]) ->
  filter f (tail_cmds o) =
    (if negb (o_db o =? 0)%Z && f [bs "SELECT"; itoa (o_db o)] then [[bs "SELECT"; itoa (o_db o)]] else []) ++
    (if (o_replica o && negb (o_sentinel o)) && f [bs "READONLY"] then [[bs "READONLY"]] else []) ++
    (if o_notouch o && f [bs "CLIENT"; bs "NO-TOUCH"; bs "ON"] then [[bs "CLIENT"; bs "NO-TOUCH"; bs "ON"]] else []) ++
    (if o_noevict o && f [bs "CLIENT"; bs "NO-EVICT"; bs "ON"] then [[bs "CLIENT"; bs "NO-EVICT"; bs "ON"]] else []) ++
    (if o_redirect o && f [bs "CLIENT"; bs "CAPA"; bs "redirect"] then [[bs "CLIENT"; bs "CAPA"; bs "redirect"]] else []) ++
    (if f [bs "CLIENT"; bs "SETINFO"; bs "LIB-NAME"; []] then setinfo_cmds o else []).
Proof.
  intros f o H1 H2. unfold tail_cmds. rewrite !filter_app, !filter_opt_cmd, (filter_setinfo f o H1 H2). reflexivity.
Qed.

Ltac tail_fam :=
  rewrite filter_tail by (intros; reflexivity);
  cbv [is_cmd is_client head_is]; cbn;
  rewrite ?andb_false_r, ?andb_true_r, ?app_nil_r; cbn.

Section Contents.
  Variable o : opts.
  Variables u p : bytes.
  Hypothesis Hc : creds o = Some (u, p).

  Lemma init3_eq : init3 o = init3_with o u p.
  Proof. unfold init3. rewrite Hc. reflexivity. Qed.
  Lemma init2_eq : init2 o = init2_with o u p.
  Proof. unfold init2. rewrite Hc. reflexivity. Qed.

  (** every family occurs exactly as configured, at most once *)
  Lemma init3_hello : filter (is_cmd "HELLO") (init3 o) = [hello_cmd u p (o_name o)].
  Proof.
    rewrite init3_eq. unfold init3_with, tracking_cmd. rewrite !filter_app, !filter_opt_cmd. tail_fam.
    destruct (o_track o); cbn; rewrite ?andb_false_r, ?andb_true_r; cbn; reflexivity.
  Qed.

  Lemma init3_select :
    filter (is_cmd "SELECT") (init3 o) = if (o_db o =? 0)%Z then [] else [[bs "SELECT"; itoa (o_db o)]].
  Proof.
    rewrite init3_eq. unfold init3_with, tracking_cmd. rewrite !filter_app, !filter_opt_cmd. tail_fam.
    destruct (o_track o); cbn; rewrite ?andb_false_r, ?andb_true_r; cbn; cbn; destruct (o_db o =? 0)%Z; reflexivity.
  Qed.

  Lemma init3_info :
    filter (is_cmd "INFO") (init3 o) = if o_az o then [[bs "INFO"; bs "SERVER"]] else [].
  Proof.
    rewrite init3_eq. unfold init3_with, tracking_cmd. rewrite !filter_app, !filter_opt_cmd. tail_fam.
    destruct (o_track o); cbn; rewrite ?andb_false_r, ?andb_true_r; cbn; cbn; destruct (o_az o); reflexivity.
  Qed.

  Lemma init3_readonly :
    filter (is_cmd "READONLY") (init3 o) = if o_replica o && negb (o_sentinel o) then [[bs "READONLY"]] else [].
  Proof.
    rewrite init3_eq. unfold init3_with, tracking_cmd. rewrite !filter_app, !filter_opt_cmd. tail_fam.
    destruct (o_track o); cbn; rewrite ?andb_false_r, ?andb_true_r; cbn; cbn; destruct (o_replica o && negb (o_sentinel o)); reflexivity.
  Qed.

  Lemma init3_auth : filter (is_cmd "AUTH") (init3 o) = [].
  Proof.
    rewrite init3_eq. unfold init3_with, tracking_cmd. rewrite !filter_app, !filter_opt_cmd. tail_fam.
    destruct (o_track o); cbn; rewrite ?andb_false_r, ?andb_true_r; cbn; reflexivity.
  Qed.

  Lemma init3_tracking :
    filter (is_client "TRACKING") (init3 o) = if o_nocache o then [] else [tracking_cmd o].
  Proof.
    rewrite init3_eq. unfold init3_with, tracking_cmd. rewrite !filter_app, !filter_opt_cmd. tail_fam.
    destruct (o_track o); cbn; rewrite ?andb_false_r, ?andb_true_r; cbn; destruct (o_nocache o); reflexivity.
  Qed.

  Lemma init3_notouch :
    filter (is_client "NO-TOUCH") (init3 o) = if o_notouch o then [[bs "CLIENT"; bs "NO-TOUCH"; bs "ON"]] else [].
  Proof.
    rewrite init3_eq. unfold init3_with, tracking_cmd. rewrite !filter_app, !filter_opt_cmd. tail_fam.
    destruct (o_track o); cbn; rewrite ?andb_false_r, ?andb_true_r; cbn; cbn; destruct (o_notouch o); reflexivity.
  Qed.

  Lemma init3_noevict :
    filter (is_client "NO-EVICT") (init3 o) = if o_noevict o then [[bs "CLIENT"; bs "NO-EVICT"; bs "ON"]] else [].
  Proof.
    rewrite init3_eq. unfold init3_with, tracking_cmd. rewrite !filter_app, !filter_opt_cmd. tail_fam.
    destruct (o_track o); cbn; rewrite ?andb_false_r, ?andb_true_r; cbn; cbn; destruct (o_noevict o); reflexivity.
  Qed.

  Lemma init3_capa :
    filter (is_client "CAPA") (init3 o) = if o_redirect o then [[bs "CLIENT"; bs "CAPA"; bs "redirect"]] else [].
  Proof.
    rewrite init3_eq. unfold init3_with, tracking_cmd. rewrite !filter_app, !filter_opt_cmd. tail_fam.
    destruct (o_track o); cbn; rewrite ?andb_false_r, ?andb_true_r; cbn; cbn; destruct (o_redirect o); reflexivity.
  Qed.

  Lemma init3_setinfo : filter (is_client "SETINFO") (init3 o) = setinfo_cmds o.
  Proof.
    rewrite init3_eq. unfold init3_with, tracking_cmd. rewrite !filter_app, !filter_opt_cmd. tail_fam.
    destruct (o_track o); cbn; rewrite ?andb_false_r, ?andb_true_r; cbn; reflexivity.
  Qed.

  Lemma init3_setname : filter (is_client "SETNAME") (init3 o) = [].
  Proof.
    rewrite init3_eq. unfold init3_with, tracking_cmd. rewrite !filter_app, !filter_opt_cmd. tail_fam.
    destruct (o_track o); cbn; rewrite ?andb_false_r, ?andb_true_r; cbn; reflexivity.
  Qed.

  (** RESP2 list *)
  Lemma auth2_fam : forall (f : argv -> bool), (forall a, f (bs "AUTH" :: a) = true) -> filter f (auth2_cmds u p) = auth2_cmds u p.
  Proof.
    intros f H. unfold auth2_cmds. destruct (negb (is_empty p) && is_empty u); [cbn; rewrite H; reflexivity|].
    destruct (negb (is_empty u)); cbn; rewrite ?H; reflexivity.
  Qed.
  Lemma auth2_nofam : forall (f : argv -> bool), (forall a, f (bs "AUTH" :: a) = false) -> filter f (auth2_cmds u p) = [].
  Proof.
    intros f H. unfold auth2_cmds. destruct (negb (is_empty p) && is_empty u); [cbn; rewrite H; reflexivity|].
    destruct (negb (is_empty u)); cbn; rewrite ?H; reflexivity.
  Qed.

  Lemma init2_auth : filter (is_cmd "AUTH") (init2 o) = auth2_cmds u p.
  Proof.
    rewrite init2_eq. unfold init2_with. rewrite !filter_app, !filter_opt_cmd.
    rewrite auth2_fam by (intros; reflexivity). tail_fam. rewrite ?andb_false_r, ?app_nil_r. cbn. rewrite ?app_nil_r. reflexivity.
  Qed.

  Lemma init2_hello : filter (is_cmd "HELLO") (init2 o) = [[bs "HELLO"; bs "2"]].
  Proof.
    rewrite init2_eq. unfold init2_with. rewrite !filter_app, !filter_opt_cmd.
    rewrite auth2_nofam by (intros; reflexivity). tail_fam. rewrite ?andb_false_r. reflexivity.
  Qed.

  Lemma init2_select :
    filter (is_cmd "SELECT") (init2 o) = if (o_db o =? 0)%Z then [] else [[bs "SELECT"; itoa (o_db o)]].
  Proof.
    rewrite init2_eq. unfold init2_with. rewrite !filter_app, !filter_opt_cmd.
    rewrite auth2_nofam by (intros; reflexivity). tail_fam. rewrite ?andb_false_r. cbn.
    destruct (o_db o =? 0)%Z; reflexivity.
  Qed.

  Lemma init2_readonly :
    filter (is_cmd "READONLY") (init2 o) = if o_replica o && negb (o_sentinel o) then [[bs "READONLY"]] else [].
  Proof.
    rewrite init2_eq. unfold init2_with. rewrite !filter_app, !filter_opt_cmd.
    rewrite auth2_nofam by (intros; reflexivity). tail_fam. rewrite ?andb_false_r. cbn.
    destruct (o_replica o && negb (o_sentinel o)); reflexivity.
  Qed.

  Lemma init2_setname :
    filter (is_client "SETNAME") (init2 o) = if is_empty (o_name o) then [] else [[bs "CLIENT"; bs "SETNAME"; o_name o]].
  Proof.
    rewrite init2_eq. unfold init2_with. rewrite !filter_app, !filter_opt_cmd.
    rewrite auth2_nofam by (intros [|? [|? ?]]; reflexivity). tail_fam. rewrite ?andb_true_r. cbn.
    destruct (is_empty (o_name o)); reflexivity.
  Qed.

  Lemma init2_tracking : filter (is_client "TRACKING") (init2 o) = [].
  Proof.
    rewrite init2_eq. unfold init2_with. rewrite !filter_app, !filter_opt_cmd.
    rewrite auth2_nofam by (intros [|? [|? ?]]; reflexivity). tail_fam. rewrite ?andb_false_r. reflexivity.
  Qed.

  Lemma init2_notouch :
    filter (is_client "NO-TOUCH") (init2 o) = if o_notouch o then [[bs "CLIENT"; bs "NO-TOUCH"; bs "ON"]] else [].
  Proof.
    rewrite init2_eq. unfold init2_with. rewrite !filter_app, !filter_opt_cmd.
    rewrite auth2_nofam by (intros [|? [|? ?]]; reflexivity). tail_fam. rewrite ?andb_false_r. cbn.
    destruct (o_notouch o); reflexivity.
  Qed.

  Lemma init2_noevict :
    filter (is_client "NO-EVICT") (init2 o) = if o_noevict o then [[bs "CLIENT"; bs "NO-EVICT"; bs "ON"]] else [].
  Proof.
    rewrite init2_eq. unfold init2_with. rewrite !filter_app, !filter_opt_cmd.
    rewrite auth2_nofam by (intros [|? [|? ?]]; reflexivity). tail_fam. rewrite ?andb_false_r. cbn.
    destruct (o_noevict o); reflexivity.
  Qed.

  Lemma init2_capa :
    filter (is_client "CAPA") (init2 o) = if o_redirect o then [[bs "CLIENT"; bs "CAPA"; bs "redirect"]] else [].
  Proof.
    rewrite init2_eq. unfold init2_with. rewrite !filter_app, !filter_opt_cmd.
    rewrite auth2_nofam by (intros [|? [|? ?]]; reflexivity). tail_fam. rewrite ?andb_false_r. cbn.
    destruct (o_redirect o); reflexivity.
  Qed.

  Lemma init2_setinfo : filter (is_client "SETINFO") (init2 o) = setinfo_cmds o.
  Proof.
    rewrite init2_eq. unfold init2_with. rewrite !filter_app, !filter_opt_cmd.
    rewrite auth2_nofam by (intros [|? [|? ?]]; reflexivity). tail_fam. rewrite ?andb_false_r. reflexivity.
  Qed.
End Contents.

(** credentials inside HELLO / as AUTH *)
Lemma auth_args_spec : forall u p,
  auth_args u p =
    match u, p with
    | [], [] => []
    | [], _ => [bs "AUTH"; bs "default"; p]
    | _, _ => [bs "AUTH"; u; p]
    end.
Proof. intros [|a u] [|b p]; reflexivity. Qed.

Lemma auth2_cmds_spec : forall u p,
  auth2_cmds u p =
    match u, p with
    | [], [] => []
    | [], _ => [[bs "AUTH"; p]]
    | _, _ => [[bs "AUTH"; u; p]]
    end.
Proof. intros [|a u] [|b p]; reflexivity. Qed.

(** * The examination loops *)

Lemma cut_prefix : forall rs, exists t, rs = cut rs ++ t.
Proof.
  induction rs as [|r rs [t IH]]; [exists []; reflexivity|].
  cbn [cut]. destruct (is_rio r); [exists (r :: rs); reflexivity|].
  exists t. cbn. rewrite <- IH. reflexivity.
Qed.

Lemma cut_no_rio : forall rs r, In r (cut rs) -> is_rio r = false.
Proof.
  induction rs as [|x rs IH]; cbn [cut]; intros r H; [contradiction|].
  destruct (is_rio x) eqn:E; [contradiction|]. destruct H as [<-|H]; auto.
Qed.

Lemma cut_nth : forall rs k r, nth_error (cut rs) k = Some r -> nth k rs RIO = r.
Proof.
  intros rs k r H. destruct (cut_prefix rs) as [t E]. rewrite E at 1.
  rewrite app_nth1 by (apply nth_error_Some; congruence).
  apply nth_error_nth. exact H.
Qed.

Lemma norm_complete : forall n rs, complete n rs = true -> norm n rs = firstn n (cut rs).
Proof. intros n rs H. unfold norm. rewrite H. reflexivity. Qed.

Lemma norm_incomplete : forall n rs, complete n rs = false -> norm n rs = repeat_n RIO n.
Proof. intros n rs H. unfold norm. rewrite H. reflexivity. Qed.

Lemma repeat_n_length : forall {A} (x : A) n, length (repeat_n x n) = n.
Proof. induction n; cbn; congruence. Qed.

Lemma norm_length : forall n rs, length (norm n rs) = n.
Proof.
  intros n rs. unfold norm. destruct (complete n rs) eqn:E.
  - unfold complete in E. apply Nat.leb_le in E. rewrite firstn_length. lia.
  - apply repeat_n_length.
Qed.

Lemma nth_error_firstn : forall {A} (l : list A) n k, (k < n)%nat -> nth_error (firstn n l) k = nth_error l k.
Proof.
  induction l as [|x l IH]; intros n k H; destruct n, k; cbn; try reflexivity; try lia.
  apply IH. lia.
Qed.

Lemma loop3_inr : forall az cs rs i r2 proto r2' proto',
  loop3 az i cs rs r2 proto = inr (r2', proto') ->
  (r2 = true -> r2' = true) /\
  (r2' = false ->
     forall k c r, nth_error cs k = Some c -> nth_error rs k = Some r ->
       head_is (bs "READONLY") c = false -> exam az (i + k) r = ENone).
Proof.
  intros az cs. induction cs as [|c cs IH]; intros rs i r2 proto r2' proto' H.
  - cbn in H. inversion H; subst. split; [auto|]. intros _ k c r Hc. destruct k; discriminate.
  - destruct rs as [|r rs].
    + cbn in H. inversion H; subst. split; [auto|]. intros _ k c0 r _ Hr. destruct k; discriminate.
    + cbn [loop3] in H.
      assert (Hk : forall r2a pa,
                loop3 az (S i) cs rs r2a pa = inr (r2', proto') ->
                (r2 = true -> r2a = true) ->
                (r2' = false -> head_is (bs "READONLY") c = false -> exam az i r = ENone) ->
                (r2 = true -> r2' = true) /\
                (r2' = false -> forall k c0 r0, nth_error (c :: cs) k = Some c0 -> nth_error (r :: rs) k = Some r0 ->
                     head_is (bs "READONLY") c0 = false -> exam az (i + k) r0 = ENone)).
      { intros r2a pa Hl Hmono Hhead. destruct (IH _ _ _ _ _ _ Hl) as [I1 I2]. split; [auto|].
        intros Hf k c0 r0 Hc Hr Hro. destruct k as [|k].
        - cbn in Hc, Hr. inversion Hc; inversion Hr; subst. rewrite Nat.add_0_r. auto.
        - cbn in Hc, Hr. replace (i + S k)%nat with (S i + k)%nat by lia. eapply I2; eauto. }
      destruct (exam az i r) as [|nh|] eqn:E.
      * eapply Hk; eauto.
      * destruct (head_is (bs "READONLY") c) eqn:Ero.
        { eapply Hk; eauto. intros _ Hx; discriminate. }
        destruct (negb r2 && nh) eqn:Enh.
        { destruct (IH _ _ _ _ _ _ H) as [I1 _]. specialize (I1 eq_refl).
          eapply Hk; eauto. intros Hf; congruence. }
        destruct (head_is (bs "CLIENT") c); [discriminate|].
        destruct r2 eqn:Er2; [|discriminate].
        destruct (IH _ _ _ _ _ _ H) as [I1 _]. specialize (I1 eq_refl).
        eapply Hk; eauto. intros Hf; congruence.
      * destruct (head_is (bs "READONLY") c) eqn:Ero; [|discriminate].
        eapply Hk; eauto. intros _ Hx; discriminate.
Qed.

(** when the loop ends with the fallback flag although it started without: some examined reply was an
    error naming HELLO as unknown *)
Lemma loop3_flag : forall az cs rs i proto r2' proto',
  loop3 az i cs rs false proto = inr (r2', proto') -> r2' = true ->
  exists k c r, nth_error cs k = Some c /\ nth_error rs k = Some r /\ exam az (i + k) r = ERedis true.
Proof.
  intros az cs. induction cs as [|c cs IH]; intros rs i proto r2' proto' H Ht.
  - cbn in H. inversion H; congruence.
  - destruct rs as [|r rs]; [cbn in H; inversion H; congruence|].
    cbn [loop3] in H.
    assert (Hk : forall pa, loop3 az (S i) cs rs false pa = inr (r2', proto') ->
              exists k c0 r0, nth_error (c :: cs) k = Some c0 /\ nth_error (r :: rs) k = Some r0 /\ exam az (i + k) r0 = ERedis true).
    { intros pa Hl. destruct (IH _ _ _ _ _ Hl Ht) as [k [c0 [r0 [A [B C]]]]].
      exists (S k), c0, r0. cbn. replace (i + S k)%nat with (S i + k)%nat by lia. auto. }
    destruct (exam az i r) as [|nh|] eqn:E.
    + eapply Hk; eauto.
    + destruct (head_is (bs "READONLY") c); [eapply Hk; eauto|].
      destruct nh; cbn [negb andb] in H.
      * exists O, c, r. rewrite Nat.add_0_r. auto.
      * destruct (head_is (bs "CLIENT") c); discriminate.
    + destruct (head_is (bs "READONLY") c); [eapply Hk; eauto|discriminate].
Qed.

(** the first examined error that is not tolerated makes the loop fail *)
Lemma loop3_first_error : forall az cs rs i r2 proto k c r,
  (forall j cj rj, (j < k)%nat -> nth_error cs j = Some cj -> nth_error rs j = Some rj -> exam az (i + j) rj = ENone) ->
  nth_error cs k = Some c -> nth_error rs k = Some r ->
  head_is (bs "READONLY") c = false ->
  r2 = false ->
  exam az (i + k) r <> ENone -> exam az (i + k) r <> ERedis true ->
  exists f, loop3 az i cs rs r2 proto = inl f.
Proof.
  intros az cs. induction cs as [|c0 cs IH]; intros rs i r2 proto k c r Hpre Hc Hr Hro Hr2 Hne Hnh.
  - destruct k; discriminate.
  - destruct rs as [|r0 rs]; [destruct k; discriminate|].
    destruct k as [|k].
    + cbn in Hc, Hr. inversion Hc; inversion Hr; subst. rewrite Nat.add_0_r in *.
      cbn [loop3]. destruct (exam az i r) as [|nh|]; [congruence| |].
      * rewrite Hro. destruct nh; [congruence|]. cbn [negb andb]. destruct (head_is (bs "CLIENT") c); eauto.
      * rewrite Hro. eauto.
    + cbn in Hc, Hr. cbn [loop3].
      assert (E0 : exam az i r0 = ENone).
      { specialize (Hpre O c0 r0). rewrite Nat.add_0_r in Hpre. apply Hpre; [lia|reflexivity|reflexivity]. }
      rewrite E0. eapply IH; eauto.
      * intros j cj rj Hj A B. replace (S i + j)%nat with (i + S j)%nat by lia. apply (Hpre (S j) cj rj); [lia|exact A|exact B].
      * replace (S i + k)%nat with (i + S k)%nat by lia. exact Hne.
      * replace (S i + k)%nat with (i + S k)%nat by lia. exact Hnh.
Qed.

Lemma loop2_none : forall cs rs,
  loop2 cs rs = None ->
  forall k c r, nth_error cs k = Some c -> nth_error rs k = Some r ->
    head_is (bs "READONLY") c = false -> err_of r = ENone \/ err_of r = ERedis true.
Proof.
  induction cs as [|c cs IH]; intros rs H k c0 r Hc Hr Hro; [destruct k; discriminate|].
  destruct rs as [|r0 rs]; [destruct k; discriminate|].
  cbn [loop2] in H. destruct k as [|k]; cbn in Hc, Hr.
  - inversion Hc; inversion Hr; subst. rewrite Hro in H.
    destruct (err_of r) as [|nh|]; [auto| |discriminate]. destruct nh; [auto|discriminate].
  - destruct (head_is (bs "READONLY") c); [eapply IH; eauto|].
    destruct (err_of r0) as [|nh|]; [eapply IH; eauto| |discriminate].
    destruct nh; [eapply IH; eauto|discriminate].
Qed.

Lemma loop2_first_error : forall cs rs k c r,
  (forall j cj rj, (j < k)%nat -> nth_error cs j = Some cj -> nth_error rs j = Some rj -> err_of rj = ENone) ->
  nth_error cs k = Some c -> nth_error rs k = Some r ->
  head_is (bs "READONLY") c = false ->
  err_of r <> ENone -> err_of r <> ERedis true ->
  exists f, loop2 cs rs = Some f.
Proof.
  induction cs as [|c0 cs IH]; intros rs k c r Hpre Hc Hr Hro Hne Hnh; [destruct k; discriminate|].
  destruct rs as [|r0 rs]; [destruct k; discriminate|].
  destruct k as [|k]; cbn in Hc, Hr; cbn [loop2].
  - inversion Hc; inversion Hr; subst. rewrite Hro.
    destruct (err_of r) as [|nh|]; [congruence| |eauto]. destruct nh; [congruence|eauto].
  - assert (E0 : err_of r0 = ENone) by (apply (Hpre O c0 r0); [lia|reflexivity|reflexivity]).
    rewrite E0. destruct (head_is (bs "READONLY") c0); eapply IH; eauto;
      intros j cj rj Hj A B; apply (Hpre (S j) cj rj); auto; lia.
Qed.

(** * The two stages *)

Lemma loop3_proto_S : forall az cs rs i r2 proto r2' proto',
  (0 < i)%nat -> loop3 az i cs rs r2 proto = inr (r2', proto') -> proto' = proto.
Proof.
  intros az cs. induction cs as [|c cs IH]; intros rs i r2 proto r2' proto' Hi H.
  - cbn in H. congruence.
  - destruct rs as [|r rs]; [cbn in H; congruence|].
    cbn [loop3] in H. destruct i as [|i]; [lia|]. cbn [Nat.eqb] in H.
    destruct (exam az (S i) r) as [|nh|].
    + eapply IH in H; [auto|lia].
    + destruct (head_is (bs "READONLY") c); [eapply IH in H; [auto|lia]|].
      destruct (negb r2 && nh); [eapply IH in H; [auto|lia]|].
      destruct (head_is (bs "CLIENT") c); [discriminate|].
      destruct r2; [eapply IH in H; [auto|lia]|discriminate].
    + destruct (head_is (bs "READONLY") c); [eapply IH in H; [auto|lia]|discriminate].
Qed.

Lemma length_tail : forall o, exists k, length (tail_cmds o) = (k + length (setinfo_cmds o))%nat.
Proof.
  intros o. unfold tail_cmds. rewrite !app_length.
  eexists. rewrite !Nat.add_assoc. reflexivity.
Qed.

Lemma length_setinfo : forall o, length (setinfo_cmds o) = if add_setinfo o then 2%nat else 0%nat.
Proof.
  intros o. destruct (setinfo_shape o) as [[E A]|[n [v [E A]]]]; rewrite E, A; reflexivity.
Qed.

Lemma count3_pos : forall o u p, creds o = Some (u, p) ->
  exists rest, init3 o = hello_cmd u p (o_name o) :: rest /\ (1 <= count_of o (init3 o))%nat
               /\ (count_of o (init3 o) <= length (init3 o))%nat.
Proof.
  intros o u p Hc. rewrite (init3_eq o u p Hc). unfold init3_with. cbn [app].
  eexists. split; [reflexivity|]. unfold count_of. cbn [length]. rewrite !app_length.
  destruct (length_tail o) as [k Hk]. rewrite Hk, length_setinfo. destruct (add_setinfo o); lia.
Qed.

Lemma hello_not_readonly : forall u p n, head_is (bs "READONLY") (hello_cmd u p n) = false.
Proof. reflexivity. Qed.

Lemma count2_pos : forall o u p, creds o = Some (u, p) ->
  exists c rest, init2 o = c :: rest /\ head_is (bs "READONLY") c = false /\ (1 <= count_of o (init2 o))%nat
               /\ (count_of o (init2 o) <= length (init2 o))%nat.
Proof.
  intros o u p Hc. rewrite (init2_eq o u p Hc). unfold init2_with.
  assert (L : forall pre, (1 <= count_of o (pre ++ [[bs "HELLO"; bs "2"]] ++ opt_cmd (o_az o) [bs "INFO"; bs "SERVER"] ++
                      opt_cmd (negb (is_empty (o_name o))) [bs "CLIENT"; bs "SETNAME"; o_name o] ++ tail_cmds o)
                   <= length (pre ++ [[bs "HELLO"; bs "2"]] ++ opt_cmd (o_az o) [bs "INFO"; bs "SERVER"] ++
                      opt_cmd (negb (is_empty (o_name o))) [bs "CLIENT"; bs "SETNAME"; o_name o] ++ tail_cmds o))%nat).
  { intros pre. unfold count_of. rewrite !app_length. cbn [length].
    destruct (length_tail o) as [k Hk]. rewrite Hk, length_setinfo. destruct (add_setinfo o); lia. }
  rewrite auth2_cmds_spec. destruct u as [|a u]; destruct p as [|b p]; cbn [app];
    eexists; eexists; (split; [reflexivity|]); (split; [reflexivity|]).
  - apply (L []).
  - apply (L [[bs "AUTH"; b :: p]]).
  - apply (L [[bs "AUTH"; a :: u; []]]).
  - apply (L [[bs "AUTH"; a :: u; b :: p]]).
Qed.

Lemma repeat_n_nth : forall {A} (x : A) n k, (k < n)%nat -> nth_error (repeat_n x n) k = Some x.
Proof. induction n; intros k H; [lia|]. destruct k; cbn; [reflexivity|apply IHn; lia]. Qed.

Section Stage1.
  Variable o : opts.
  Variables u p : bytes.
  Hypothesis Hc : creds o = Some (u, p).
  Hypothesis Hr3 : o_resp2 o = false.

  Let n := count_of o (init3 o).

  (** an incomplete first pipeline fails the connection *)
  Lemma eval3_incomplete : forall r3, complete (length (init3 o)) r3 = false -> eval3 o r3 = S1Fail FOther.
  Proof.
    intros r3 Hi. unfold eval3. rewrite Hr3, (norm_incomplete _ _ Hi).
    destruct (count3_pos o u p Hc) as [rest [E [Hn1 Hn2]]]. fold n in Hn1, Hn2 |- *.
    rewrite E in *. destruct n as [|m]; [lia|]. cbn [length repeat_n firstn loop3].
    cbn [exam Nat.eqb as_map_err]. rewrite hello_not_readonly. reflexivity.
  Qed.

  Lemma nth_norm_complete : forall r3 k r, complete (length (init3 o)) r3 = true -> (k < n)%nat ->
    nth_error (firstn n (norm (length (init3 o)) r3)) k = Some r -> nth k r3 RIO = r.
  Proof.
    intros r3 k r Hcm Hk H. rewrite (norm_complete _ _ Hcm) in H.
    rewrite nth_error_firstn in H by exact Hk.
    destruct (count3_pos o u p Hc) as [rest [E [Hn1 Hn2]]]. fold n in Hn1, Hn2.
    rewrite nth_error_firstn in H by lia. apply cut_nth. exact H.
  Qed.

  Lemma nth_norm_some : forall r3 k, complete (length (init3 o)) r3 = true -> (k < n)%nat ->
    nth_error (firstn n (norm (length (init3 o)) r3)) k = Some (nth k r3 RIO).
  Proof.
    intros r3 k Hcm Hk.
    destruct (nth_error (firstn n (norm (length (init3 o)) r3)) k) as [r|] eqn:E.
    - f_equal. symmetry. eapply nth_norm_complete; eauto.
    - apply nth_error_None in E. rewrite firstn_length, norm_length in E.
      destruct (count3_pos o u p Hc) as [rest [_ [Hn1 Hn2]]]. fold n in Hn1, Hn2. lia.
  Qed.

  Theorem eval3_ok : forall r3, eval3 o r3 = S1Ok ->
    complete (length (init3 o)) r3 = true /\
    (forall k c, (k < n)%nat -> nth_error (init3 o) k = Some c -> head_is (bs "READONLY") c = false ->
        exam (o_az o) k (nth k r3 RIO) = ENone) /\
    (exists pr, nth 0 r3 RIO = RMapP pr /\ (3 <= pr)%Z).
  Proof.
    intros r3 H.
    destruct (complete (length (init3 o)) r3) eqn:Hcm; [|rewrite (eval3_incomplete _ Hcm) in H; discriminate].
    split; [reflexivity|].
    unfold eval3 in H. rewrite Hr3 in H. fold n in H.
    destruct (loop3 (o_az o) 0 (firstn n (init3 o)) (firstn n (norm (length (init3 o)) r3)) false 0%Z) as [f|[r2' proto']] eqn:L;
      [discriminate|].
    destruct r2'; [discriminate|]. cbn [orb] in H.
    destruct (proto' <? 3)%Z eqn:Hp; [discriminate|].
    destruct (loop3_inr _ _ _ _ _ _ _ _ L) as [_ I2]. specialize (I2 eq_refl).
    assert (A : forall k c, (k < n)%nat -> nth_error (init3 o) k = Some c -> head_is (bs "READONLY") c = false ->
                exam (o_az o) k (nth k r3 RIO) = ENone).
    { intros k c Hk Hck Hro. apply (I2 k c (nth k r3 RIO)); auto.
      - rewrite nth_error_firstn by exact Hk. exact Hck.
      - apply nth_norm_some; auto. }
    split; [exact A|].
    destruct (count3_pos o u p Hc) as [rest [E [Hn1 Hn2]]]. fold n in Hn1, Hn2.
    specialize (A O (hello_cmd u p (o_name o))). rewrite E in A. specialize (A ltac:(lia) eq_refl eq_refl).
    pose proof (nth_norm_some r3 O Hcm ltac:(lia)) as N0.
    rewrite E in L. destruct n as [|m] eqn:En; [lia|]. rewrite firstn_cons in L.
    destruct (firstn (S m) (norm (length (hello_cmd u p (o_name o) :: rest)) r3)) as [|r0 rs0] eqn:F;
      [rewrite E in N0; rewrite F in N0; discriminate|].
    rewrite E in N0. rewrite F in N0. cbn in N0. inversion N0; subst r0.
    cbn [loop3] in L. rewrite A in L. cbn [Nat.eqb] in L.
    apply loop3_proto_S in L; [|lia]. subst proto'.
    unfold exam in A. cbn [Nat.eqb] in A. destruct (nth 0 r3 RIO); try discriminate.
    eexists. split; [reflexivity|]. apply Z.ltb_ge in Hp. exact Hp.
  Qed.

  (** the fallback happens only because a reply names HELLO as an unknown command, or HELLO answered with proto < 3 *)
  Theorem eval3_fallback : forall r3, eval3 o r3 = S1Fallback ->
    complete (length (init3 o)) r3 = true /\
    ((exists k, (k < n)%nat /\ exam (o_az o) k (nth k r3 RIO) = ERedis true) \/
     (exists pr, nth 0 r3 RIO = RMapP pr /\ (pr < 3)%Z)).
  Proof.
    intros r3 H.
    destruct (complete (length (init3 o)) r3) eqn:Hcm; [|rewrite (eval3_incomplete _ Hcm) in H; discriminate].
    split; [reflexivity|].
    unfold eval3 in H. rewrite Hr3 in H. fold n in H.
    destruct (loop3 (o_az o) 0 (firstn n (init3 o)) (firstn n (norm (length (init3 o)) r3)) false 0%Z) as [f|[r2' proto']] eqn:L;
      [discriminate|].
    destruct r2' eqn:Er.
    - left. destruct (loop3_flag _ _ _ _ _ _ _ L eq_refl) as [k [c [r [A [B C]]]]].
      assert (Hk : (k < n)%nat).
      { assert (nth_error (firstn n (init3 o)) k <> None) by congruence.
        apply nth_error_Some in H0. rewrite firstn_length in H0. lia. }
      exists k. split; [exact Hk|]. rewrite (nth_norm_some r3 k Hcm Hk) in B. inversion B; subst r. exact C.
    - cbn [orb] in H. destruct (proto' <? 3)%Z eqn:Hp; [|discriminate].
      (* every examined reply was clean, so the flag stayed off and proto is HELLO's *)
      destruct (loop3_inr _ _ _ _ _ _ _ _ L) as [_ I2]. specialize (I2 eq_refl).
      destruct (count3_pos o u p Hc) as [rest [E [Hn1 Hn2]]]. fold n in Hn1, Hn2.
      pose proof (nth_norm_some r3 O Hcm ltac:(lia)) as N0.
      assert (A0 : exam (o_az o) 0 (nth 0 r3 RIO) = ENone).
      { apply (I2 O (hello_cmd u p (o_name o)) (nth 0 r3 RIO)); auto.
        rewrite nth_error_firstn by lia. rewrite E. reflexivity. }
      right. rewrite E in L. destruct n as [|m] eqn:En; [lia|]. rewrite firstn_cons in L.
      destruct (firstn (S m) (norm (length (hello_cmd u p (o_name o) :: rest)) r3)) as [|r0 rs0] eqn:F;
        [rewrite E in N0; rewrite F in N0; discriminate|].
      rewrite E in N0. rewrite F in N0. cbn in N0. inversion N0; subst r0.
      cbn [loop3] in L. rewrite A0 in L. cbn [Nat.eqb] in L.
      apply loop3_proto_S in L; [|lia]. subst proto'.
      unfold exam in A0. cbn [Nat.eqb] in A0. destruct (nth 0 r3 RIO); try discriminate.
      eexists. split; [reflexivity|]. apply Z.ltb_lt in Hp. exact Hp.
  Qed.

  (** the first examined error fails the connection, unless it is READONLY's or names HELLO as unknown *)
  Theorem eval3_first_error : forall r3 k c,
    complete (length (init3 o)) r3 = true ->
    (k < n)%nat -> nth_error (init3 o) k = Some c -> head_is (bs "READONLY") c = false ->
    (forall j, (j < k)%nat -> exam (o_az o) j (nth j r3 RIO) = ENone) ->
    exam (o_az o) k (nth k r3 RIO) <> ENone -> exam (o_az o) k (nth k r3 RIO) <> ERedis true ->
    exists f, eval3 o r3 = S1Fail f.
  Proof.
    intros r3 k c Hcm Hk Hck Hro Hpre Hne Hnh.
    unfold eval3. rewrite Hr3. fold n.
    destruct (loop3_first_error (o_az o) (firstn n (init3 o)) (firstn n (norm (length (init3 o)) r3)) 0 false 0%Z
                k c (nth k r3 RIO)) as [f Hf]; auto.
    - intros j cj rj Hj A B. rewrite (nth_norm_some r3 j Hcm ltac:(lia)) in B. inversion B; subst rj. apply Hpre. exact Hj.
    - rewrite nth_error_firstn by exact Hk. exact Hck.
    - apply nth_norm_some; auto.
    - rewrite Hf. eauto.
  Qed.
End Stage1.

Section Stage2.
  Variable o : opts.
  Variables u p : bytes.
  Hypothesis Hc : creds o = Some (u, p).

  Let n := count_of o (init2 o).

  Lemma eval2_incomplete : forall r, complete (length (init2 o)) r = false -> eval2 o r = Some FOther.
  Proof.
    intros r Hi. unfold eval2. rewrite (norm_incomplete _ _ Hi).
    destruct (count2_pos o u p Hc) as [c [rest [E [Hro [Hn1 Hn2]]]]]. fold n in Hn1, Hn2 |- *.
    rewrite E in *. destruct n as [|m]; [lia|]. cbn [length repeat_n firstn loop2].
    rewrite Hro. reflexivity.
  Qed.

  Lemma nth_norm2_some : forall r k, complete (length (init2 o)) r = true -> (k < n)%nat ->
    nth_error (firstn n (norm (length (init2 o)) r)) k = Some (nth k r RIO).
  Proof.
    intros r k Hcm Hk.
    destruct (count2_pos o u p Hc) as [c [rest [_ [_ [Hn1 Hn2]]]]]. fold n in Hn1, Hn2.
    destruct (nth_error (firstn n (norm (length (init2 o)) r)) k) as [x|] eqn:E.
    - f_equal. rewrite (norm_complete _ _ Hcm) in E. rewrite !nth_error_firstn in E by lia.
      symmetry. apply cut_nth. exact E.
    - apply nth_error_None in E. rewrite firstn_length, norm_length in E. lia.
  Qed.

  Theorem eval2_none : forall r, eval2 o r = None ->
    complete (length (init2 o)) r = true /\
    (forall k c, (k < n)%nat -> nth_error (init2 o) k = Some c -> head_is (bs "READONLY") c = false ->
        err_of (nth k r RIO) = ENone \/ err_of (nth k r RIO) = ERedis true).
  Proof.
    intros r H.
    destruct (complete (length (init2 o)) r) eqn:Hcm; [|rewrite (eval2_incomplete _ Hcm) in H; discriminate].
    split; [reflexivity|]. intros k c Hk Hck Hro.
    unfold eval2 in H. fold n in H.
    apply (loop2_none _ _ H k c (nth k r RIO)); auto.
    - rewrite nth_error_firstn by exact Hk. exact Hck.
    - apply nth_norm2_some; auto.
  Qed.

  Theorem eval2_first_error : forall r k c,
    complete (length (init2 o)) r = true ->
    (k < n)%nat -> nth_error (init2 o) k = Some c -> head_is (bs "READONLY") c = false ->
    (forall j, (j < k)%nat -> err_of (nth j r RIO) = ENone) ->
    err_of (nth k r RIO) <> ENone -> err_of (nth k r RIO) <> ERedis true ->
    exists f, eval2 o r = Some f.
  Proof.
    intros r k c Hcm Hk Hck Hro Hpre Hne Hnh. unfold eval2. fold n.
    apply (loop2_first_error (firstn n (init2 o)) (firstn n (norm (length (init2 o)) r)) k c (nth k r RIO)); auto.
    - intros j cj rj Hj A B. rewrite (nth_norm2_some r j Hcm ltac:(lia)) in B. inversion B; subst rj. apply Hpre. exact Hj.
    - rewrite nth_error_firstn by exact Hk. exact Hck.
    - apply nth_norm2_some; auto.
  Qed.
End Stage2.

(** * The whole setup *)

Lemma eval_setup_ok3 : forall o r3 r2, eval_setup o r3 r2 = SetupOk true ->
  exists u p, creds o = Some (u, p) /\ o_resp2 o = false /\ eval3 o r3 = S1Ok.
Proof.
  intros o r3 r2 H. unfold eval_setup in H. destruct (creds o) as [[u p]|] eqn:Hc; [|discriminate].
  exists u, p. split; [reflexivity|].
  destruct (eval3 o r3) eqn:E3; try discriminate.
  - split; [|reflexivity]. unfold eval3 in E3. destruct (o_resp2 o); [discriminate|reflexivity].
  - destruct (negb (o_nocache o)); [discriminate|]. destruct (eval2 o (r2_eff o r3 r2)); discriminate.
Qed.

Lemma eval_setup_ok2 : forall o r3 r2, eval_setup o r3 r2 = SetupOk false ->
  exists u p, creds o = Some (u, p) /\ o_nocache o = true /\ eval3 o r3 = S1Fallback /\
              eval2 o (r2_eff o r3 r2) = None.
Proof.
  intros o r3 r2 H. unfold eval_setup in H. destruct (creds o) as [[u p]|] eqn:Hc; [|discriminate].
  exists u, p. split; [reflexivity|].
  destruct (eval3 o r3) eqn:E3; try discriminate.
  destruct (o_nocache o); cbn [negb] in H; [|discriminate].
  destruct (eval2 o (r2_eff o r3 r2)) eqn:E2; [discriminate|]. auto.
Qed.

(** no user command is ever written on a connection whose setup failed, and on a good one only after the setup *)
Lemma conn_log_ok : forall o r3 r2 user b, eval_setup o r3 r2 = SetupOk b ->
  conn_log o r3 r2 user = setup_cmds o r3 ++ user.
Proof. intros o r3 r2 user b H. unfold conn_log. rewrite H. reflexivity. Qed.

Lemma conn_log_fail : forall o r3 r2 user f, eval_setup o r3 r2 = SetupFail f ->
  conn_log o r3 r2 user = setup_cmds o r3.
Proof. intros o r3 r2 user f H. unfold conn_log. rewrite H. apply app_nil_r. Qed.

Lemma setup_cmds_ok3 : forall o r3 r2, eval_setup o r3 r2 = SetupOk true -> setup_cmds o r3 = init3 o.
Proof.
  intros o r3 r2 H. destruct (eval_setup_ok3 _ _ _ H) as [u [p [Hc [Hr E3]]]].
  unfold setup_cmds, runs_stage2. rewrite Hr, Hc, E3. apply app_nil_r.
Qed.

Lemma setup_cmds_ok2 : forall o r3 r2, eval_setup o r3 r2 = SetupOk false ->
  setup_cmds o r3 = (if o_resp2 o then [] else init3 o) ++ init2 o.
Proof.
  intros o r3 r2 H. destruct (eval_setup_ok2 _ _ _ H) as [u [p [Hc [Hn [E3 _]]]]].
  unfold setup_cmds, runs_stage2. rewrite Hc, E3, Hn. reflexivity.
Qed.

Lemma r2_eff_complete : forall o r3 r2 n, complete n (r2_eff o r3 r2) = true -> (0 < n)%nat ->
  r2_eff o r3 r2 = r2 /\ stage1_io o r3 = false.
Proof.
  intros o r3 r2 n H Hn. unfold r2_eff in *. destruct (stage1_io o r3); [|auto].
  unfold complete in H. cbn in H. apply Nat.leb_le in H. lia.
Qed.

(** * The session the server ends up with *)

Lemma exam_none_accepted : forall az k r, exam az k r = ENone -> accepted r = true.
Proof.
  intros az k r. unfold exam. destruct (k =? 0)%nat; [|destruct ((k =? 1)%nat && az)]; destruct r; cbn; congruence.
Qed.

Lemma err_none_accepted : forall r, err_of r = ENone -> accepted r = true.
Proof. destruct r; cbn; congruence. Qed.

Section Field.
  Context {A : Type} (f : session -> A) (fam : argv -> bool).
  Hypothesis pres : forall s a, fam a = false -> f (apply_cmd s a) = f s.

  Lemma serve_nofam : forall cs rs s, filter fam cs = [] -> f (serve s cs rs) = f s.
  Proof.
    induction cs as [|c cs IH]; intros rs s H; [reflexivity|].
    destruct rs as [|r rs]; [reflexivity|]. cbn [serve]. cbn [filter] in H.
    destruct (fam c) eqn:E; [discriminate|]. rewrite IH by exact H.
    destruct (accepted r); [apply pres; exact E|reflexivity].
  Qed.

  Lemma serve_onefam : forall cs rs s c,
    filter fam cs = [c] ->
    (forall k, nth_error cs k = Some c -> exists r, nth_error rs k = Some r /\ accepted r = true) ->
    (forall s1 s2, f s1 = f s2 -> f (apply_cmd s1 c) = f (apply_cmd s2 c)) ->
    f (serve s cs rs) = f (apply_cmd s c).
  Proof.
    induction cs as [|a cs IH]; intros rs s c H Hacc Hind; [discriminate|].
    cbn [filter] in H. destruct (fam a) eqn:E.
    - inversion H; subst a. destruct (Hacc O eq_refl) as [r [Hr Ha]].
      destruct rs as [|r0 rs]; [discriminate|]. cbn in Hr. inversion Hr; subst r0.
      cbn [serve]. rewrite Ha. apply serve_nofam. assumption.
    - assert (Hin : In c cs).
      { assert (In c (filter fam cs)) by (rewrite H; left; reflexivity). apply filter_In in H0. tauto. }
      destruct (In_nth_error _ _ Hin) as [k Hk].
      destruct (Hacc (S k) Hk) as [r [Hr _]].
      destruct rs as [|r0 rs]; [discriminate|]. cbn [serve].
      rewrite (IH rs _ c H).
      + apply Hind. destruct (accepted r0); [apply pres; exact E|reflexivity].
      + intros j Hj. apply (Hacc (S j)). exact Hj.
      + exact Hind.
  Qed.
End Field.

Lemma filter_orb_nil : forall (f g : argv -> bool) l, filter g l = [] -> filter (fun a => f a || g a) l = filter f l.
Proof.
  induction l as [|a l IH]; intros H; [reflexivity|]. cbn [filter] in *.
  destruct (g a) eqn:G; [discriminate|]. rewrite orb_false_r. rewrite IH by exact H. reflexivity.
Qed.

(** what each command family can change *)
Ltac crush_apply :=
  intros s a H; destruct a as [|c rest]; [reflexivity|];
  unfold is_cmd, is_client, head_is in H; cbn [apply_cmd];
  repeat match goal with
         | H : context [bytes_eqb ?x ?y] |- context [bytes_eqb ?x ?y] => destruct (bytes_eqb x y) eqn:?; cbn in H; try discriminate
         | |- context [if bytes_eqb ?x ?y then _ else _] => destruct (bytes_eqb x y) eqn:?
         | |- context [match ?l with [] => _ | _ :: _ => _ end] => destruct l
         end; try reflexivity; try discriminate.

Lemma hello_opts_pres : forall {A} (f : session -> A),
  (forall s v, f (set_auth s v) = f s) -> (forall s v, f (set_name s v) = f s) ->
  forall fuel s a, f (hello_opts fuel s a) = f s.
Proof.
  intros A f Ha Hn. induction fuel as [|fuel IH]; intros s a; [reflexivity|].
  cbn [hello_opts]. destruct a as [|k [|x [|y rest]]]; try reflexivity.
  - destruct (bytes_eqb k (bs "SETNAME")); [apply Hn|reflexivity].
  - destruct (bytes_eqb k (bs "AUTH")); [rewrite IH; apply Ha|].
    destruct (bytes_eqb k (bs "SETNAME")); [rewrite IH; apply Hn|reflexivity].
Qed.

Lemma pres_db : forall s a, is_cmd "SELECT" a = false -> s_db (apply_cmd s a) = s_db s.
Proof.
  intros s a H. destruct a as [|c rest]; [reflexivity|]. unfold is_cmd, head_is in H. cbn [apply_cmd].
  destruct (bytes_eqb c (bs "HELLO")).
  { destruct rest as [|v optsl]; [reflexivity|].
    assert (E : s_db (hello_opts (S (length optsl)) s optsl) = s_db s) by (apply hello_opts_pres; reflexivity).
    destruct (bytes_eqb v (bs "3")); [exact E|]. destruct (bytes_eqb v (bs "2")); exact E. }
  destruct (bytes_eqb c (bs "AUTH")). { destruct rest as [|? [|? [|? ?]]]; reflexivity. }
  rewrite H.
  destruct (bytes_eqb c (bs "READONLY")); [reflexivity|].
  destruct (bytes_eqb c (bs "CLIENT")); [|reflexivity].
  destruct rest as [|sub args]; [reflexivity|].
  repeat match goal with
         | |- context [if bytes_eqb ?x ?y then _ else _] => destruct (bytes_eqb x y)
         | |- context [match ?l with [] => _ | _ :: _ => _ end] => destruct l
         end; reflexivity.
Qed.

(** generic: a field that HELLO / AUTH / SELECT / READONLY do not touch is only changed by its CLIENT sub-command *)
Lemma pres_client : forall {A} (f : session -> A) (sub : string),
  (forall s v, f (set_auth s v) = f s) -> (forall s v, f (set_name s v) = f s) ->
  (forall s v, f (set_proto s v) = f s) -> (forall s v, f (set_db s v) = f s) ->
  (forall s v, f (set_readonly s v) = f s) ->
  (forall s sb args, bytes_eqb sb (bs sub) = false ->
     f (apply_cmd s (bs "CLIENT" :: sb :: args)) = f s) ->
  forall s a, is_client sub a = false -> f (apply_cmd s a) = f s.
Proof.
  intros A f sub Ha Hn Hp Hd Hr Hc s a H.
  destruct a as [|c rest]; [reflexivity|]. cbn [apply_cmd].
  destruct (bytes_eqb c (bs "HELLO")) eqn:E1.
  { destruct rest as [|v optsl]; [reflexivity|].
    assert (E : f (hello_opts (S (length optsl)) s optsl) = f s) by (apply hello_opts_pres; assumption).
    destruct (bytes_eqb v (bs "3")); [rewrite Hp; exact E|]. destruct (bytes_eqb v (bs "2")); [rewrite Hp|]; exact E. }
  destruct (bytes_eqb c (bs "AUTH")) eqn:E2. { destruct rest as [|? [|? [|? ?]]]; try reflexivity; apply Ha. }
  destruct (bytes_eqb c (bs "SELECT")) eqn:E3. { destruct rest as [|? [|? ?]]; try reflexivity; apply Hd. }
  destruct (bytes_eqb c (bs "READONLY")) eqn:E4; [apply Hr|].
  destruct (bytes_eqb c (bs "CLIENT")) eqn:E5; [|reflexivity].
  destruct rest as [|sb args]; [reflexivity|].
  unfold is_client in H. rewrite E5 in H. cbn [andb] in H.
  assert (Ec : c = bs "CLIENT").
  { clear - E5. revert E5. generalize (bs "CLIENT"). induction c as [|x c IH]; intros [|y l] E; cbn in E; try discriminate; [reflexivity|].
    apply andb_prop in E. destruct E as [E1 E2]. apply N.eqb_eq in E1. subst. f_equal. apply IH. exact E2. }
  subst c. pose proof (Hc s sb args H) as Hc'. cbn [apply_cmd] in Hc'.
  exact Hc'.
Qed.

Lemma setinfo_in : forall o c, In c (setinfo_cmds o) -> is_client "SETINFO" c = true.
Proof.
  intros o c H. destruct (setinfo_shape o) as [[E _]|[n [v [E _]]]]; rewrite E in H; [contradiction|].
  destruct H as [<-|[<-|[]]]; reflexivity.
Qed.

Lemma split_count : forall o body, count_of o (body ++ setinfo_cmds o) = length body.
Proof.
  intros o body. unfold count_of. rewrite app_length, length_setinfo. destruct (add_setinfo o); lia.
Qed.

Lemma init3_split : forall o u p, creds o = Some (u, p) ->
  exists body, init3 o = body ++ setinfo_cmds o /\ count_of o (init3 o) = length body.
Proof.
  intros o u p Hc. rewrite (init3_eq o u p Hc). unfold init3_with, tail_cmds.
  exists ([hello_cmd u p (o_name o)] ++ opt_cmd (o_az o) [bs "INFO"; bs "SERVER"] ++ opt_cmd (negb (o_nocache o)) (tracking_cmd o) ++
          opt_cmd (negb (o_db o =? 0)%Z) [bs "SELECT"; itoa (o_db o)] ++ opt_cmd (o_replica o && negb (o_sentinel o)) [bs "READONLY"] ++
          opt_cmd (o_notouch o) [bs "CLIENT"; bs "NO-TOUCH"; bs "ON"] ++ opt_cmd (o_noevict o) [bs "CLIENT"; bs "NO-EVICT"; bs "ON"] ++
          opt_cmd (o_redirect o) [bs "CLIENT"; bs "CAPA"; bs "redirect"]).
  assert (E : forall X, [hello_cmd u p (o_name o)] ++ opt_cmd (o_az o) [bs "INFO"; bs "SERVER"] ++ opt_cmd (negb (o_nocache o)) (tracking_cmd o) ++
          opt_cmd (negb (o_db o =? 0)%Z) [bs "SELECT"; itoa (o_db o)] ++ opt_cmd (o_replica o && negb (o_sentinel o)) [bs "READONLY"] ++
          opt_cmd (o_notouch o) [bs "CLIENT"; bs "NO-TOUCH"; bs "ON"] ++ opt_cmd (o_noevict o) [bs "CLIENT"; bs "NO-EVICT"; bs "ON"] ++
          opt_cmd (o_redirect o) [bs "CLIENT"; bs "CAPA"; bs "redirect"] ++ X =
          ([hello_cmd u p (o_name o)] ++ opt_cmd (o_az o) [bs "INFO"; bs "SERVER"] ++ opt_cmd (negb (o_nocache o)) (tracking_cmd o) ++
          opt_cmd (negb (o_db o =? 0)%Z) [bs "SELECT"; itoa (o_db o)] ++ opt_cmd (o_replica o && negb (o_sentinel o)) [bs "READONLY"] ++
          opt_cmd (o_notouch o) [bs "CLIENT"; bs "NO-TOUCH"; bs "ON"] ++ opt_cmd (o_noevict o) [bs "CLIENT"; bs "NO-EVICT"; bs "ON"] ++
          opt_cmd (o_redirect o) [bs "CLIENT"; bs "CAPA"; bs "redirect"]) ++ X).
  { intros X. rewrite <- !app_assoc. reflexivity. }
  rewrite E. split; [reflexivity|apply split_count].
Qed.

Lemma init2_split : forall o u p, creds o = Some (u, p) ->
  exists body, init2 o = body ++ setinfo_cmds o /\ count_of o (init2 o) = length body.
Proof.
  intros o u p Hc. rewrite (init2_eq o u p Hc). unfold init2_with, tail_cmds.
  exists (auth2_cmds u p ++ [[bs "HELLO"; bs "2"]] ++ opt_cmd (o_az o) [bs "INFO"; bs "SERVER"] ++
          opt_cmd (negb (is_empty (o_name o))) [bs "CLIENT"; bs "SETNAME"; o_name o] ++
          opt_cmd (negb (o_db o =? 0)%Z) [bs "SELECT"; itoa (o_db o)] ++ opt_cmd (o_replica o && negb (o_sentinel o)) [bs "READONLY"] ++
          opt_cmd (o_notouch o) [bs "CLIENT"; bs "NO-TOUCH"; bs "ON"] ++ opt_cmd (o_noevict o) [bs "CLIENT"; bs "NO-EVICT"; bs "ON"] ++
          opt_cmd (o_redirect o) [bs "CLIENT"; bs "CAPA"; bs "redirect"]).
  rewrite <- !app_assoc. split; [reflexivity|].
  match goal with |- count_of o ?l = _ => 
    replace l with ((auth2_cmds u p ++ [[bs "HELLO"; bs "2"]] ++ opt_cmd (o_az o) [bs "INFO"; bs "SERVER"] ++
          opt_cmd (negb (is_empty (o_name o))) [bs "CLIENT"; bs "SETNAME"; o_name o] ++
          opt_cmd (negb (o_db o =? 0)%Z) [bs "SELECT"; itoa (o_db o)] ++ opt_cmd (o_replica o && negb (o_sentinel o)) [bs "READONLY"] ++
          opt_cmd (o_notouch o) [bs "CLIENT"; bs "NO-TOUCH"; bs "ON"] ++ opt_cmd (o_noevict o) [bs "CLIENT"; bs "NO-EVICT"; bs "ON"] ++
          opt_cmd (o_redirect o) [bs "CLIENT"; bs "CAPA"; bs "redirect"]) ++ setinfo_cmds o) by (rewrite <- !app_assoc; reflexivity)
  end.
  rewrite split_count. rewrite <- ?app_assoc. reflexivity.
Qed.

Lemma index_lt_count : forall o l body k c,
  l = body ++ setinfo_cmds o -> nth_error l k = Some c -> is_client "SETINFO" c = false -> (k < length body)%nat.
Proof.
  intros o l body k c E H Hs. subst l. destruct (Nat.lt_ge_cases k (length body)) as [|Hge]; [assumption|].
  rewrite nth_error_app2 in H by exact Hge. apply nth_error_In in H. apply setinfo_in in H. congruence.
Qed.

(** a field with a single writer in the first pipeline, under a successful RESP3 setup *)
Lemma stage1_field : forall {A} (f : session -> A) (fam : argv -> bool) o u p r3 c,
  creds o = Some (u, p) -> o_resp2 o = false -> eval3 o r3 = S1Ok ->
  (forall s a, fam a = false -> f (apply_cmd s a) = f s) ->
  filter fam (init3 o) = [c] ->
  is_client "SETINFO" c = false -> head_is (bs "READONLY") c = false ->
  (forall s1 s2, f s1 = f s2 -> f (apply_cmd s1 c) = f (apply_cmd s2 c)) ->
  f (serve session0 (init3 o) (cut r3)) = f (apply_cmd session0 c).
Proof.
  intros A f fam o u p r3 c Hc Hr H3 pres Hf Hs Hro Hind.
  destruct (eval3_ok o u p Hc Hr r3 H3) as [Hcm [Hclean _]].
  destruct (init3_split o u p Hc) as [body [Eb Ecount]].
  apply (serve_onefam f fam pres); auto.
  intros k Hk.
  assert (Hlt : (k < count_of o (init3 o))%nat) by (rewrite Ecount; eapply index_lt_count; eauto).
  assert (Hlen : (k < length (cut r3))%nat).
  { unfold complete in Hcm. apply Nat.leb_le in Hcm.
    assert (k < length (init3 o))%nat by (apply nth_error_Some; congruence). lia. }
  destruct (nth_error (cut r3) k) as [r|] eqn:E; [|apply nth_error_None in E; lia].
  exists r. split; [reflexivity|]. pose proof (cut_nth _ _ _ E) as En.
  specialize (Hclean k c Hlt Hk Hro). rewrite En in Hclean. eapply exam_none_accepted; eauto.
Qed.

Lemma stage1_nofield : forall {A} (f : session -> A) (fam : argv -> bool) o r3,
  (forall s a, fam a = false -> f (apply_cmd s a) = f s) ->
  filter fam (init3 o) = [] ->
  f (serve session0 (init3 o) (cut r3)) = f session0.
Proof. intros. apply (serve_nofam f fam); assumption. Qed.

(** instances of [pres_client] *)
Ltac client_other :=
  intros s sb args Hsb; cbn [apply_cmd];
  change (bytes_eqb (bs "CLIENT") (bs "HELLO")) with false;
  change (bytes_eqb (bs "CLIENT") (bs "AUTH")) with false;
  change (bytes_eqb (bs "CLIENT") (bs "SELECT")) with false;
  change (bytes_eqb (bs "CLIENT") (bs "READONLY")) with false;
  change (bytes_eqb (bs "CLIENT") (bs "CLIENT")) with true;
  cbv iota; rewrite ?Hsb;
  repeat match goal with
         | |- context [if bytes_eqb ?x ?y then _ else _] => destruct (bytes_eqb x y)
         | |- context [match ?l with [] => _ | _ :: _ => _ end] => destruct l
         end; reflexivity.

Lemma pres_track : forall s a, is_client "TRACKING" a = false -> s_track (apply_cmd s a) = s_track s.
Proof. apply pres_client; try reflexivity. client_other. Qed.
Lemma pres_notouch : forall s a, is_client "NO-TOUCH" a = false -> s_notouch (apply_cmd s a) = s_notouch s.
Proof. apply pres_client; try reflexivity. client_other. Qed.
Lemma pres_noevict : forall s a, is_client "NO-EVICT" a = false -> s_noevict (apply_cmd s a) = s_noevict s.
Proof. apply pres_client; try reflexivity. client_other. Qed.
Lemma pres_redirect : forall s a, is_client "CAPA" a = false -> s_redirect (apply_cmd s a) = s_redirect s.
Proof. apply pres_client; try reflexivity. client_other. Qed.

Lemma pres_readonly : forall s a, is_cmd "READONLY" a = false -> s_readonly (apply_cmd s a) = s_readonly s.
Proof.
  intros s a H. destruct a as [|c rest]; [reflexivity|]. unfold is_cmd, head_is in H. cbn [apply_cmd].
  destruct (bytes_eqb c (bs "HELLO")).
  { destruct rest as [|v optsl]; [reflexivity|].
    assert (E : s_readonly (hello_opts (S (length optsl)) s optsl) = s_readonly s) by (apply hello_opts_pres; reflexivity).
    destruct (bytes_eqb v (bs "3")); [exact E|]. destruct (bytes_eqb v (bs "2")); exact E. }
  destruct (bytes_eqb c (bs "AUTH")). { destruct rest as [|? [|? [|? ?]]]; reflexivity. }
  destruct (bytes_eqb c (bs "SELECT")). { destruct rest as [|? [|? ?]]; reflexivity. }
  rewrite H.
  destruct (bytes_eqb c (bs "CLIENT")); [|reflexivity].
  destruct rest as [|sub args]; [reflexivity|].
  repeat match goal with
         | |- context [if bytes_eqb ?x ?y then _ else _] => destruct (bytes_eqb x y)
         | |- context [match ?l with [] => _ | _ :: _ => _ end] => destruct l
         end; reflexivity.
Qed.

(** the fields HELLO writes: protocol, and (with AUTH / CLIENT SETNAME as the other writers) credentials and name *)
Lemma pres_proto : forall s a, is_cmd "HELLO" a = false -> s_proto (apply_cmd s a) = s_proto s.
Proof.
  intros s a H. destruct a as [|c rest]; [reflexivity|]. unfold is_cmd, head_is in H. cbn [apply_cmd]. rewrite H.
  destruct (bytes_eqb c (bs "AUTH")). { destruct rest as [|? [|? [|? ?]]]; reflexivity. }
  destruct (bytes_eqb c (bs "SELECT")). { destruct rest as [|? [|? ?]]; reflexivity. }
  destruct (bytes_eqb c (bs "READONLY")); [reflexivity|].
  destruct (bytes_eqb c (bs "CLIENT")); [|reflexivity].
  destruct rest as [|sub args]; [reflexivity|].
  repeat match goal with
         | |- context [if bytes_eqb ?x ?y then _ else _] => destruct (bytes_eqb x y)
         | |- context [match ?l with [] => _ | _ :: _ => _ end] => destruct l
         end; reflexivity.
Qed.

Lemma pres_auth : forall s a, is_cmd "HELLO" a || is_cmd "AUTH" a = false -> s_auth (apply_cmd s a) = s_auth s.
Proof.
  intros s a H. apply orb_false_elim in H. destruct H as [H1 H2].
  destruct a as [|c rest]; [reflexivity|]. unfold is_cmd, head_is in H1, H2. cbn [apply_cmd]. rewrite H1, H2.
  destruct (bytes_eqb c (bs "SELECT")). { destruct rest as [|? [|? ?]]; reflexivity. }
  destruct (bytes_eqb c (bs "READONLY")); [reflexivity|].
  destruct (bytes_eqb c (bs "CLIENT")); [|reflexivity].
  destruct rest as [|sub args]; [reflexivity|].
  repeat match goal with
         | |- context [if bytes_eqb ?x ?y then _ else _] => destruct (bytes_eqb x y)
         | |- context [match ?l with [] => _ | _ :: _ => _ end] => destruct l
         end; reflexivity.
Qed.

Lemma pres_name : forall s a, is_cmd "HELLO" a || is_client "SETNAME" a = false -> s_name (apply_cmd s a) = s_name s.
Proof.
  intros s a H. apply orb_false_elim in H. destruct H as [H1 H2].
  destruct a as [|c rest]; [reflexivity|]. unfold is_cmd, head_is in H1. cbn [apply_cmd]. rewrite H1.
  destruct (bytes_eqb c (bs "AUTH")). { destruct rest as [|? [|? [|? ?]]]; reflexivity. }
  destruct (bytes_eqb c (bs "SELECT")). { destruct rest as [|? [|? ?]]; reflexivity. }
  destruct (bytes_eqb c (bs "READONLY")); [reflexivity|].
  destruct (bytes_eqb c (bs "CLIENT")) eqn:Ec; [|reflexivity].
  destruct rest as [|sub args]; [reflexivity|].
  unfold is_client in H2. rewrite Ec in H2. cbn [andb] in H2. rewrite H2.
  repeat match goal with
         | |- context [if bytes_eqb ?x ?y then _ else _] => destruct (bytes_eqb x y)
         | |- context [match ?l with [] => _ | _ :: _ => _ end] => destruct l
         end; reflexivity.
Qed.

(** what HELLO 3 [AUTH …] [SETNAME …] does to a session *)
Lemma hello_effect : forall s u p n,
  let s' := apply_cmd s (hello_cmd u p n) in
  s_proto s' = 3 /\
  s_name s' = (if is_empty n then s_name s else n) /\
  s_auth s' = match u, p with
              | [], [] => s_auth s
              | [], _ => Some (bs "default", p)
              | _, _ => Some (u, p)
              end.
Proof. intros s [|a u] [|b p] [|c n]; cbn; auto. Qed.

(** the configured tracking arguments *)
Definition track_args (o : opts) : list bytes :=
  match o_track o with None => [bs "OPTIN"] | Some l => l end.

Theorem setup_session3 : forall o u p r3 r2,
  creds o = Some (u, p) -> eval_setup o r3 r2 = SetupOk true ->
  let s := final_session o r3 r2 in
  s_proto s = 3 /\
  s_name s = o_name o /\
  s_auth s = match u, p with
             | [], [] => None
             | [], _ => Some (bs "default", p)
             | _, _ => Some (u, p)
             end /\
  s_db s = (if (o_db o =? 0)%Z then bs "0" else itoa (o_db o)) /\
  s_track s = (if o_nocache o then None else Some (track_args o)) /\
  s_notouch s = o_notouch o /\ s_noevict s = o_noevict o /\ s_redirect s = o_redirect o /\
  (s_readonly s = true -> o_replica o && negb (o_sentinel o) = true).
Proof.
  intros o u p r3 r2 Hc H.
  destruct (eval_setup_ok3 _ _ _ H) as [u' [p' [Hc' [Hr E3]]]]. rewrite Hc in Hc'. inversion Hc'; subst u' p'.
  assert (Efs : final_session o r3 r2 = serve session0 (init3 o) (cut r3)).
  { unfold final_session, runs_stage2. rewrite Hr, Hc, E3. reflexivity. }
  cbv zeta. rewrite Efs. clear Efs.
  pose proof (hello_effect session0 u p (o_name o)) as [Hp [Hn Ha]].
  repeat split.
  - rewrite (stage1_field s_proto (is_cmd "HELLO") o u p r3 (hello_cmd u p (o_name o))); auto using pres_proto, init3_hello.
  - rewrite (stage1_field s_name (fun a => is_cmd "HELLO" a || is_client "SETNAME" a) o u p r3 (hello_cmd u p (o_name o))).
    all: auto using pres_name.
    all: try (rewrite filter_orb_nil by (eapply init3_setname; eauto); eapply init3_hello; eauto).
    all: try (intros s1 s2 E; pose proof (hello_effect s1 u p (o_name o)) as [_ [X _]];
              pose proof (hello_effect s2 u p (o_name o)) as [_ [Y _]]; cbv zeta in X, Y; rewrite X, Y, E; reflexivity).
    all: try (cbv zeta in Hn; rewrite Hn; destruct (o_name o); reflexivity).
  - rewrite (stage1_field s_auth (fun a => is_cmd "HELLO" a || is_cmd "AUTH" a) o u p r3 (hello_cmd u p (o_name o))).
    all: auto using pres_auth.
    all: try (rewrite filter_orb_nil by (eapply init3_auth; eauto); eapply init3_hello; eauto).
    all: try (intros s1 s2 E; pose proof (hello_effect s1 u p (o_name o)) as [_ [_ X]];
              pose proof (hello_effect s2 u p (o_name o)) as [_ [_ Y]]; cbv zeta in X, Y; rewrite X, Y, E; reflexivity).
    all: try (cbv zeta in Ha; exact Ha).
  - pose proof (init3_select o u p Hc) as F. destruct (o_db o =? 0)%Z.
    + rewrite (stage1_nofield s_db (is_cmd "SELECT")); auto using pres_db.
    + rewrite (stage1_field s_db (is_cmd "SELECT") o u p r3 _ Hc Hr E3 pres_db F); reflexivity.
  - pose proof (init3_tracking o u p Hc) as F. destruct (o_nocache o).
    + rewrite (stage1_nofield s_track (is_client "TRACKING")); auto using pres_track.
    + rewrite (stage1_field s_track (is_client "TRACKING") o u p r3 _ Hc Hr E3 pres_track F); try reflexivity;
        unfold tracking_cmd, track_args; destruct (o_track o); reflexivity.
  - pose proof (init3_notouch o u p Hc) as F. destruct (o_notouch o).
    + rewrite (stage1_field s_notouch (is_client "NO-TOUCH") o u p r3 _ Hc Hr E3 pres_notouch F); reflexivity.
    + rewrite (stage1_nofield s_notouch (is_client "NO-TOUCH")); auto using pres_notouch.
  - pose proof (init3_noevict o u p Hc) as F. destruct (o_noevict o).
    + rewrite (stage1_field s_noevict (is_client "NO-EVICT") o u p r3 _ Hc Hr E3 pres_noevict F); reflexivity.
    + rewrite (stage1_nofield s_noevict (is_client "NO-EVICT")); auto using pres_noevict.
  - pose proof (init3_capa o u p Hc) as F. destruct (o_redirect o).
    + rewrite (stage1_field s_redirect (is_client "CAPA") o u p r3 _ Hc Hr E3 pres_redirect F); reflexivity.
    + rewrite (stage1_nofield s_redirect (is_client "CAPA")); auto using pres_redirect.
  - pose proof (init3_readonly o u p Hc) as F. destruct (o_replica o && negb (o_sentinel o)); [auto|].
    rewrite (stage1_nofield s_readonly (is_cmd "READONLY")); auto using pres_readonly; try discriminate.
Qed.

(** ** the RESP2 path *)

(** no reply other than HELLO's names HELLO as an unknown command (what every real server satisfies) *)
Definition honest2 (o : opts) (r : list reply) : Prop :=
  forall k c, nth_error (init2 o) k = Some c -> is_cmd "HELLO" c = false -> err_of (nth k r RIO) <> ERedis true.

Lemma stage2_field : forall {A} (f : session -> A) (fam : argv -> bool) o u p r c s1,
  creds o = Some (u, p) -> eval2 o r = None -> honest2 o r ->
  (forall s a, fam a = false -> f (apply_cmd s a) = f s) ->
  filter fam (init2 o) = [c] ->
  is_client "SETINFO" c = false -> head_is (bs "READONLY") c = false -> is_cmd "HELLO" c = false ->
  (forall s1 s2, f s1 = f s2 -> f (apply_cmd s1 c) = f (apply_cmd s2 c)) ->
  f (serve s1 (init2 o) (cut r)) = f (apply_cmd s1 c).
Proof.
  intros A f fam o u p r c s1 Hc H2 Hh pres Hf Hs Hro Hhe Hind.
  destruct (eval2_none o u p Hc r H2) as [Hcm Hclean].
  destruct (init2_split o u p Hc) as [body [Eb Ecount]].
  apply (serve_onefam f fam pres); auto.
  intros k Hk.
  assert (Hlt : (k < count_of o (init2 o))%nat) by (rewrite Ecount; eapply index_lt_count; eauto).
  assert (Hlen : (k < length (cut r))%nat).
  { unfold complete in Hcm. apply Nat.leb_le in Hcm.
    assert (k < length (init2 o))%nat by (apply nth_error_Some; congruence). lia. }
  destruct (nth_error (cut r) k) as [x|] eqn:E; [|apply nth_error_None in E; lia].
  exists x. split; [reflexivity|]. pose proof (cut_nth _ _ _ E) as En.
  destruct (Hclean k c Hlt Hk Hro) as [Hn|Hn]; rewrite En in Hn.
  - apply err_none_accepted. exact Hn.
  - exfalso. apply (Hh k c Hk Hhe). rewrite En. exact Hn.
Qed.

Theorem setup_session2 : forall o u p r3 r2,
  creds o = Some (u, p) -> eval_setup o r3 r2 = SetupOk false -> honest2 o r2 ->
  let s := final_session o r3 r2 in
  s_db s = (if (o_db o =? 0)%Z then bs "0" else itoa (o_db o)) /\
  s_track s = None /\
  s_notouch s = o_notouch o /\ s_noevict s = o_noevict o /\ s_redirect s = o_redirect o /\
  (is_empty (o_name o) = false -> s_name s = o_name o) /\
  (s_readonly s = true -> o_replica o && negb (o_sentinel o) = true).
Proof.
  intros o u p r3 r2 Hc H Hh.
  destruct (eval_setup_ok2 _ _ _ H) as [u' [p' [Hc' [Hn [E3 E2]]]]]. rewrite Hc in Hc'. inversion Hc'; subst u' p'.
  destruct (eval2_none o u p Hc _ E2) as [Hcm _].
  destruct (count2_pos o u p Hc) as [c0 [rest0 [E0 [_ [Hp1 Hp2]]]]].
  destruct (r2_eff_complete o r3 r2 _ Hcm ltac:(lia)) as [Er2 _]. rewrite Er2 in E2.
  assert (Efs : exists s1, final_session o r3 r2 = serve s1 (init2 o) (cut r2) /\
                           s1 = (if o_resp2 o then session0 else serve session0 (init3 o) (cut r3))).
  { eexists. split; [|reflexivity]. unfold final_session, runs_stage2. rewrite Hc, E3, Hn, Er2. reflexivity. }
  destruct Efs as [s1 [Efs Es1]]. cbv zeta. rewrite Efs. clear Efs.
  assert (S1 : forall {A} (f : session -> A) fam, (forall s a, fam a = false -> f (apply_cmd s a) = f s) ->
               filter fam (init3 o) = [] -> f s1 = f session0).
  { intros A f fam pres F. rewrite Es1. destruct (o_resp2 o); [reflexivity|]. apply (serve_nofam f fam); assumption. }
  repeat split.
  - pose proof (init2_select o u p Hc) as F. pose proof (init3_select o u p Hc) as F3. destruct (o_db o =? 0)%Z.
    + rewrite (serve_nofam s_db (is_cmd "SELECT") pres_db _ _ _ F). apply (S1 _ s_db (is_cmd "SELECT")); auto using pres_db.
    + rewrite (stage2_field s_db (is_cmd "SELECT") o u p r2 _ s1 Hc E2 Hh pres_db F); reflexivity.
  - rewrite (serve_nofam s_track (is_client "TRACKING") pres_track _ _ _ (init2_tracking o u p Hc)).
    apply (S1 _ s_track (is_client "TRACKING")); auto using pres_track.
    rewrite (init3_tracking o u p Hc), Hn. reflexivity.
  - pose proof (init2_notouch o u p Hc) as F. pose proof (init3_notouch o u p Hc) as F3. destruct (o_notouch o).
    + rewrite (stage2_field s_notouch (is_client "NO-TOUCH") o u p r2 _ s1 Hc E2 Hh pres_notouch F); reflexivity.
    + rewrite (serve_nofam s_notouch (is_client "NO-TOUCH") pres_notouch _ _ _ F).
      apply (S1 _ s_notouch (is_client "NO-TOUCH")); auto using pres_notouch.
  - pose proof (init2_noevict o u p Hc) as F. pose proof (init3_noevict o u p Hc) as F3. destruct (o_noevict o).
    + rewrite (stage2_field s_noevict (is_client "NO-EVICT") o u p r2 _ s1 Hc E2 Hh pres_noevict F); reflexivity.
    + rewrite (serve_nofam s_noevict (is_client "NO-EVICT") pres_noevict _ _ _ F).
      apply (S1 _ s_noevict (is_client "NO-EVICT")); auto using pres_noevict.
  - pose proof (init2_capa o u p Hc) as F. pose proof (init3_capa o u p Hc) as F3. destruct (o_redirect o).
    + rewrite (stage2_field s_redirect (is_client "CAPA") o u p r2 _ s1 Hc E2 Hh pres_redirect F); reflexivity.
    + rewrite (serve_nofam s_redirect (is_client "CAPA") pres_redirect _ _ _ F).
      apply (S1 _ s_redirect (is_client "CAPA")); auto using pres_redirect.
  - intros Hne. pose proof (init2_setname o u p Hc) as F. rewrite Hne in F.
    (* CLIENT SETNAME comes after HELLO 2 (which carries no SETNAME): use the SETNAME family alone, HELLO 2 preserves the name *)
    assert (pres2 : forall s a, is_client "SETNAME" a = false ->
                      (is_cmd "HELLO" a = true -> a = [bs "HELLO"; bs "2"]) -> s_name (apply_cmd s a) = s_name s).
    { intros s a Hsn Hhello. destruct (is_cmd "HELLO" a) eqn:Eh.
      - rewrite (Hhello eq_refl). reflexivity.
      - apply pres_name. rewrite Eh, Hsn. reflexivity. }
    (* a direct induction restricted to the commands of init2 *)
    assert (G : forall cs rs s,
               (forall a, In a cs -> is_cmd "HELLO" a = true -> a = [bs "HELLO"; bs "2"]) ->
               filter (is_client "SETNAME") cs = [[bs "CLIENT"; bs "SETNAME"; o_name o]] ->
               (forall k, nth_error cs k = Some [bs "CLIENT"; bs "SETNAME"; o_name o] ->
                          exists x, nth_error rs k = Some x /\ accepted x = true) ->
               s_name (serve s cs rs) = o_name o).
    { induction cs as [|a cs IH]; intros rs s Hhel Hfil Hacc; [discriminate|].
      cbn [filter] in Hfil. destruct (is_client "SETNAME" a) eqn:Ea.
      - inversion Hfil; subst a. destruct (Hacc O eq_refl) as [x [Hx Hax]].
        destruct rs as [|x0 rs]; [discriminate|]. cbn in Hx. inversion Hx; subst x0. cbn [serve]. rewrite Hax.
        assert (Hnf : forall cs' rs' s', (forall a, In a cs' -> is_cmd "HELLO" a = true -> a = [bs "HELLO"; bs "2"]) ->
                        filter (is_client "SETNAME") cs' = [] -> s_name (serve s' cs' rs') = s_name s').
        { induction cs' as [|b cs' IH']; intros rs' s' Hh' Hf'; [reflexivity|]. destruct rs' as [|y rs']; [reflexivity|].
          cbn [serve]. cbn [filter] in Hf'. destruct (is_client "SETNAME" b) eqn:Eb; [discriminate|].
          rewrite IH'; [|intros; apply Hh'; [right|]; assumption|assumption].
          destruct (accepted y); [|reflexivity]. apply pres2; auto.
          intros Hb. apply Hh'; [left; reflexivity|exact Hb]. }
        rewrite Hnf; [reflexivity| |assumption]. intros; apply Hhel; [right|]; assumption.
      - assert (Hin : In [bs "CLIENT"; bs "SETNAME"; o_name o] cs).
        { assert (In [bs "CLIENT"; bs "SETNAME"; o_name o] (filter (is_client "SETNAME") cs)) by (rewrite Hfil; left; reflexivity).
          apply filter_In in H0. tauto. }
        destruct (In_nth_error _ _ Hin) as [k Hk]. destruct (Hacc (S k) Hk) as [x [Hx _]].
        destruct rs as [|x0 rs]; [discriminate|]. cbn [serve]. apply IH.
        + intros; apply Hhel; [right|]; assumption.
        + exact Hfil.
        + intros j Hj. apply (Hacc (S j)). exact Hj. }
    apply G.
    + intros a Hin Ha. pose proof (init2_hello o u p Hc) as Fh.
      assert (In a (filter (is_cmd "HELLO") (init2 o))) by (apply filter_In; auto).
      rewrite Fh in H0. destruct H0 as [<-|[]]. reflexivity.
    + exact F.
    + intros k Hk.
      destruct (eval2_none o u p Hc r2 E2) as [Hcm2 Hclean].
      destruct (init2_split o u p Hc) as [body [Eb Ecount]].
      assert (Hlt : (k < count_of o (init2 o))%nat) by (rewrite Ecount; eapply index_lt_count; eauto).
      assert (Hlen : (k < length (cut r2))%nat).
      { unfold complete in Hcm2. apply Nat.leb_le in Hcm2.
        assert (k < length (init2 o))%nat by (apply nth_error_Some; congruence). lia. }
      destruct (nth_error (cut r2) k) as [x|] eqn:E; [|apply nth_error_None in E; lia].
      exists x. split; [reflexivity|]. pose proof (cut_nth _ _ _ E) as En.
      destruct (Hclean k _ Hlt Hk eq_refl) as [Hq|Hq]; rewrite En in Hq.
      * apply err_none_accepted. exact Hq.
      * exfalso. apply (Hh k _ Hk eq_refl). rewrite En. exact Hq.
  - pose proof (init2_readonly o u p Hc) as F. pose proof (init3_readonly o u p Hc) as F3.
    destruct (o_replica o && negb (o_sentinel o)); [auto|].
    rewrite (serve_nofam s_readonly (is_cmd "READONLY") pres_readonly _ _ _ F).
    rewrite (S1 _ s_readonly (is_cmd "READONLY")); auto using pres_readonly.
Qed.

(** * Statements at the level of [eval_setup] *)

(** a non-tolerated error at an examined step of the first pipeline fails the connection *)
Theorem step_failure3 : forall o u p r3 r2 k c,
  creds o = Some (u, p) -> o_resp2 o = false ->
  (k < count_of o (init3 o))%nat -> nth_error (init3 o) k = Some c -> head_is (bs "READONLY") c = false ->
  (forall j, (j < k)%nat -> exam (o_az o) j (nth j r3 RIO) = ENone) ->
  exam (o_az o) k (nth k r3 RIO) <> ENone -> exam (o_az o) k (nth k r3 RIO) <> ERedis true ->
  exists f, eval_setup o r3 r2 = SetupFail f.
Proof.
  intros o u p r3 r2 k c Hc Hr Hk Hck Hro Hpre Hne Hnh. unfold eval_setup. rewrite Hc.
  destruct (complete (length (init3 o)) r3) eqn:Hcm.
  - destruct (eval3_first_error o u p Hc Hr r3 k c Hcm Hk Hck Hro Hpre Hne Hnh) as [f Hf]. rewrite Hf. eauto.
  - rewrite (eval3_incomplete o u p Hc Hr r3 Hcm). eauto.
Qed.

(** … and of the second pipeline *)
Theorem step_failure2 : forall o u p r3 r2 k c,
  creds o = Some (u, p) -> eval3 o r3 = S1Fallback ->
  (k < count_of o (init2 o))%nat -> nth_error (init2 o) k = Some c -> head_is (bs "READONLY") c = false ->
  (forall j, (j < k)%nat -> err_of (nth j (r2_eff o r3 r2) RIO) = ENone) ->
  err_of (nth k (r2_eff o r3 r2) RIO) <> ENone -> err_of (nth k (r2_eff o r3 r2) RIO) <> ERedis true ->
  exists f, eval_setup o r3 r2 = SetupFail f.
Proof.
  intros o u p r3 r2 k c Hc H3 Hk Hck Hro Hpre Hne Hnh. unfold eval_setup. rewrite Hc, H3.
  destruct (negb (o_nocache o)); [eauto|].
  destruct (complete (length (init2 o)) (r2_eff o r3 r2)) eqn:Hcm.
  - destruct (eval2_first_error o u p Hc _ k c Hcm Hk Hck Hro Hpre Hne Hnh) as [f Hf]. rewrite Hf. eauto.
  - rewrite (eval2_incomplete o u p Hc _ Hcm). eauto.
Qed.

(** a pipeline whose replies did not all arrive fails the connection *)
Theorem incomplete_fails : forall o u p r3 r2,
  creds o = Some (u, p) -> o_resp2 o = false -> complete (length (init3 o)) r3 = false ->
  eval_setup o r3 r2 = SetupFail FOther.
Proof.
  intros o u p r3 r2 Hc Hr Hcm. unfold eval_setup. rewrite Hc, (eval3_incomplete o u p Hc Hr r3 Hcm). reflexivity.
Qed.

(** success means: every reply arrived and every examined reply was clean (READONLY's aside) *)
Theorem ok3_clean : forall o r3 r2, eval_setup o r3 r2 = SetupOk true ->
  o_resp2 o = false /\ complete (length (init3 o)) r3 = true /\
  (forall k c, (k < count_of o (init3 o))%nat -> nth_error (init3 o) k = Some c -> head_is (bs "READONLY") c = false ->
      exam (o_az o) k (nth k r3 RIO) = ENone) /\
  (exists pr, nth 0 r3 RIO = RMapP pr /\ (3 <= pr)%Z).
Proof.
  intros o r3 r2 H. destruct (eval_setup_ok3 _ _ _ H) as [u [p [Hc [Hr E3]]]].
  split; [exact Hr|]. exact (eval3_ok o u p Hc Hr r3 E3).
Qed.

Theorem ok2_clean : forall o r3 r2, eval_setup o r3 r2 = SetupOk false ->
  o_nocache o = true /\
  (o_resp2 o = false -> complete (length (init3 o)) r3 = true) /\
  complete (length (init2 o)) r2 = true /\
  (forall k c, (k < count_of o (init2 o))%nat -> nth_error (init2 o) k = Some c -> head_is (bs "READONLY") c = false ->
      err_of (nth k r2 RIO) = ENone \/ err_of (nth k r2 RIO) = ERedis true).
Proof.
  intros o r3 r2 H. destruct (eval_setup_ok2 _ _ _ H) as [u [p [Hc [Hn [E3 E2]]]]].
  destruct (eval2_none o u p Hc _ E2) as [Hcm Hclean].
  destruct (count2_pos o u p Hc) as [c0 [rest0 [_ [_ [Hp1 Hp2]]]]].
  destruct (r2_eff_complete o r3 r2 _ Hcm ltac:(lia)) as [Er2 Hio]. rewrite Er2 in *.
  repeat split; auto.
  intros Hr. unfold stage1_io in Hio. rewrite Hr in Hio. cbn in Hio. apply negb_false_iff in Hio. exact Hio.
Qed.

(** RESP2 is spoken only if it was asked for, or a reply named HELLO as an unknown command, or HELLO answered proto < 3 *)
Theorem fallback_only_hello : forall o r3 r2, eval_setup o r3 r2 = SetupOk false ->
  o_resp2 o = true \/
  (exists k, (k < count_of o (init3 o))%nat /\ exam (o_az o) k (nth k r3 RIO) = ERedis true) \/
  (exists pr, nth 0 r3 RIO = RMapP pr /\ (pr < 3)%Z).
Proof.
  intros o r3 r2 H. destruct (eval_setup_ok2 _ _ _ H) as [u [p [Hc [Hn [E3 E2]]]]].
  destruct (o_resp2 o) eqn:Hr; [left; reflexivity|right].
  destruct (eval3_fallback o u p Hc Hr r3 E3) as [_ X]. exact X.
Qed.

(** with the cache enabled there is no RESP2 session at all *)
Theorem cache_needs_resp3 : forall o r3 r2 b, eval_setup o r3 r2 = SetupOk b -> o_nocache o = false -> b = true.
Proof.
  intros o r3 r2 [|] H Hn; [reflexivity|]. destruct (eval_setup_ok2 _ _ _ H) as [u [p [_ [Hn' _]]]]. congruence.
Qed.

(** a failing credentials provider: nothing is written *)
Theorem cred_failure : forall o r3 r2 user, creds o = None ->
  eval_setup o r3 r2 = SetupFail FCred /\ conn_log o r3 r2 user = [].
Proof.
  intros o r3 r2 user Hc. unfold conn_log, setup_cmds, runs_stage2, eval_setup, init3. rewrite Hc.
  split; [reflexivity|]. destruct (o_resp2 o); reflexivity.
Qed.
