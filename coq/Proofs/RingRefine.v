(** The ring LTS refines the abstract queue of positions ([RV.Model.QueueSpec]): every concrete step is a
    specification step with the same output, or a stutter. *)
From Coq Require Import List NArith ZArith Bool Arith Lia.
Require Import RV.Model.Base RV.Model.Ring RV.Model.QueueSpec.
Require Import RV.Proofs.RingBase RV.Proofs.RingInv RV.Proofs.RingInv2 RV.Proofs.RingTheorems.
Import ListNotations.
Local Open Scope nat_scope.

Ltac rst := cbn [write read1 read2 slots wpc rpc nw n1 n2 wseq rseq recv
                 set_slots set_slot set_counts set_wpc set_rpc add_recv
                 mark payload pm c_one c_multi c_resps slept rlock tk parked1 woken1 bc wt wparked wwoken fillseq
                 sl_lists sl_fill sl_mark sl_clear sl_writer sl_rlock] in *.
Ltac slot_cases s' s E := destruct (Nat.eq_dec s' s) as [E|E]; [subst s'; rewrite ?upd_same|rewrite ?upd_other by exact E].

Definition abs (st : state) : qstate :=
  {| q_fill := fun s => fillseq (slots st s); q_w := nw st; q_1 := n1 st; q_2 := n2 st |}.

Section Refine.
Variable k : nat.
Variable start : N.
Notation sof := (sof k start).
Notation cntpos := (cntpos k start).

Lemma cntp_cntpos : forall n s, cntp sof n s = cntpos n s.
Proof. intros n s. induction n as [|n IH]; [reflexivity|]. cbn [cntp RingBase.cntpos]. rewrite IH. reflexivity. Qed.

(** what a concrete step shows to the outside: the item handed to the writer / completed by the reader *)
Definition out_of (st st' : state) : option nat * option nat :=
  ((if Nat.eqb (n1 st') (S (n1 st)) then Some (last (wseq st') 0) else None),
   (if Nat.eqb (n2 st') (S (n2 st)) then Some (last (rseq st') 0) else None)).

Definition refines_step (st st' : state) : Prop :=
  qeq (abs st) (abs st') \/
  exists ql q' o, qstep sof (abs st) ql = Some (q', o) /\ qeq q' (abs st') /\
    match ql with
    | QDeq => wseq st' = wseq st ++ match o with Some x => [x] | None => [] end /\ o <> None
    | QComp => rseq st' = rseq st ++ match o with Some x => [x] | None => [] end /\ o <> None
    | _ => wseq st' = wseq st /\ rseq st' = rseq st
    end.

Lemma stutter : forall st st', (forall s, fillseq (slots st' s) = fillseq (slots st s)) ->
  nw st' = nw st -> n1 st' = n1 st -> n2 st' = n2 st -> refines_step st st'.
Proof. intros st st' H A B C. left. unfold qeq, abs. cbn. repeat split; auto. Qed.

Lemma take_refines : forall st s r1' st1, InvA k start st -> s = sof (S (n1 st)) ->
  writer_take st s r1' = Some st1 ->
  exists q' o, qstep sof (abs st) QDeq = Some (q', o) /\
    (forall s', q_fill q' s' = fillseq (slots st1 s')) /\ q_w q' = nw st1 /\ q_1 q' = n1 st1 /\ q_2 q' = n2 st1 /\
    wseq st1 = wseq st ++ match o with Some x => [x] | None => [] end /\ o <> None.
Proof.
  intros st s r1' st1 A Hs T. apply writer_take_some in T. destruct T as [Hm T]. subst st1.
  pose proof (a_ci _ _ _ A s) as Hci. unfold CI in Hci. cbv zeta in Hci.
  destruct Hci as [(C1 & _)|[(C1 & C2 & C3 & C4)|(C1 & _)]]; try congruence.
  destruct C2 as (pre & i & Cf & Cp).
  cbn [qstep abs q_fill q_1 q_2 q_w]. rewrite <- Hs. rewrite cntp_cntpos.
  assert (L : (cntpos (n1 st) s <? length (fillseq (slots st s))) = true) by (apply Nat.ltb_lt; lia).
  rewrite L. eexists. eexists. split; [reflexivity|]. cbn [q_fill q_w q_1 q_2]. rst.
  split; [intro s'; slot_cases s' s E; reflexivity|]. repeat split; try reflexivity; [|discriminate].
  f_equal. rewrite Cp. cbn [opt_list]. f_equal. unfold qitem. cbn [abs q_fill]. rewrite <- Hs.
  replace (S (n1 st) - 1) with (n1 st) by lia. rewrite cntp_cntpos. rewrite Cf, app_length in C3. cbn [length] in C3.
  rewrite Cf, app_nth2 by lia. replace (cntpos (n1 st) s - length pre) with 0 by lia. reflexivity.
Qed.

Theorem ring_refines : forall st l st', reachable k start st -> lstep k st l = Some st' -> refines_step st st'.
Proof.
  intros st l st' Hr Hl. destruct (inv_reachable _ _ _ Hr) as [A _ _]. destruct l; cbn [lstep] in Hl.
  - (* PutTicket *)
    apply some_inj in Hl. subst st'. right. exists QTicket. eexists. eexists. split; [reflexivity|].
    split; [|rst; auto]. unfold qeq, abs. cbn [q_fill q_w q_1 q_2]. rst. split; [|auto].
    intro s'. match goal with |- context [upd _ ?s _ s'] => slot_cases s' s E; reflexivity end.
  - (* PutLock *)
    destruct (negb (rlock (slots st s)) && (memb p (tk (slots st s)) || memb p (woken1 (slots st s)))) eqn:G; [|discriminate].
    apply andb_true_iff in G. destruct G as [G1 _]. apply negb_true_iff in G1.
    set (x := slots st s) in *.
    remember (if memb p (tk x) then sl_lists x (remove1 p (tk x)) (parked1 x) (woken1 x) (bc x) (wt x)
              else sl_lists x (tk x) (parked1 x) (remove1 p (woken1 x)) (bc x) (wt x)) as x1 eqn:Ex1.
    assert (X1 : mark x1 = mark x /\ fillseq x1 = fillseq x) by (subst x1; destruct (memb p (tk x)); split; reflexivity).
    destruct X1 as [M1 M2]. clear Ex1.
    destruct (Nat.eqb (mark x1) 0) eqn:Hm.
    + apply Nat.eqb_eq in Hm. rewrite M1 in Hm. apply some_inj in Hl. subst st'.
      pose proof (a_ci _ _ _ A s) as Hci. unfold CI in Hci. cbv zeta in Hci. fold x in Hci.
      destruct Hci as [(C1 & C2 & C3 & C4)|[(C1 & _)|(C1 & _)]]; try congruence.
      right. exists (QFill s p). cbn [qstep abs q_fill q_2]. fold x. rewrite cntp_cntpos.
      assert (E : (length (fillseq x) =? cntpos (n2 st) s) = true) by (apply Nat.eqb_eq; lia). rewrite E.
      eexists. eexists. split; [reflexivity|]. split; [|rst; auto]. unfold qeq, abs. cbn [q_fill q_w q_1 q_2]. rst. split; [|auto].
      intro s'. destruct (Nat.eqb s' s) eqn:E2.
      * apply Nat.eqb_eq in E2. subst s'. rewrite upd_same. destruct (slept x1); rst; rewrite M2; reflexivity.
      * apply Nat.eqb_neq in E2. rewrite upd_other by exact E2. reflexivity.
    + apply some_inj in Hl. subst st'. apply stutter; rst; try reflexivity.
      intro s'. slot_cases s' s E; rst; [exact M2|reflexivity].
  - (* PutBcast *)
    destruct (memb p (bc (slots st s))); [|discriminate]. apply some_inj in Hl. subst st'.
    apply stutter; rst; try reflexivity. intro s'. slot_cases s' s E; [|reflexivity].
    destruct (wparked (slots st s)); reflexivity.
  - (* WNext *)
    destruct (wpc st) eqn:Hw; [|discriminate]. destruct (next_read1 _ _ st A Hw) as [R1 R2]. rewrite R1 in Hl.
    change (idx k (u32 (start + N.of_nat (S (n1 st))))) with (sof (S (n1 st))) in Hl. set (s := sof (S (n1 st))) in *.
    destruct (rlock (slots st s)); [discriminate|].
    destruct (writer_take st s (u32 (start + N.of_nat (S (n1 st))))) as [st1|] eqn:T; apply some_inj in Hl; subst st'.
    + destruct (take_refines st s _ st1 A eq_refl T) as (q' & o & Q1 & Q2 & Q3 & Q4 & Q5 & Q6 & Q7).
      right. exists QDeq, q', o. split; [exact Q1|]. split; [unfold qeq, abs; cbn [q_fill q_w q_1 q_2]; auto|auto].
    + left. unfold qeq. auto.
  - (* WWaitEnter *)
    destruct (wpc st) eqn:Hw; [|discriminate]. destruct (next_read1 _ _ st A Hw) as [R1 R2]. rewrite R1 in Hl.
    change (idx k (u32 (start + N.of_nat (S (n1 st))))) with (sof (S (n1 st))) in Hl. set (s := sof (S (n1 st))) in *.
    destruct (rlock (slots st s)); [discriminate|].
    destruct (writer_take st s (u32 (start + N.of_nat (S (n1 st))))) as [st1|] eqn:T; apply some_inj in Hl; subst st'.
    + destruct (take_refines st s _ st1 A eq_refl T) as (q' & o & Q1 & Q2 & Q3 & Q4 & Q5 & Q6 & Q7).
      right. exists QDeq, q', o. split; [exact Q1|]. split; [unfold qeq, abs; cbn [q_fill q_w q_1 q_2]; auto|auto].
    + apply stutter; rst; try reflexivity. intro s'. slot_cases s' s E; reflexivity.
  - (* WWaitRetry *)
    destruct (wpc st) as [|s] eqn:Hw; [discriminate|]. pose proof (a_wwait _ _ _ A s Hw) as Hs.
    destruct (wwoken (slots st s) && negb (rlock (slots st s))); [|discriminate].
    match type of Hl with context [writer_take ?a ?b ?c] => destruct (writer_take a b c) as [st1|] eqn:T end;
      apply some_inj in Hl; subst st'.
    + (* the intermediate state differs from st only in the writer flags of slot s *)
      apply writer_take_some in T. destruct T as [Tm T]. rst. rewrite upd_same in Tm, T. rst.
      assert (T0 : writer_take st s (read1 st) = Some (set_counts (set_slot st s (sl_mark (slots st s) 2 (payload (slots st s))))
                     (write st) (read1 st) (read2 st) (nw st) (S (n1 st)) (n2 st) (wseq st ++ opt_list (payload (slots st s))) (rseq st))).
      { unfold writer_take. rewrite Tm. cbn [Nat.eqb]. reflexivity. }
      destruct (take_refines st s _ _ A Hs T0) as (q' & o & Q1 & Q2 & Q3 & Q4 & Q5 & Q6 & Q7).
      right. exists QDeq, q', o. split; [exact Q1|]. subst st1. rst.
      split; [|split; [exact Q6|exact Q7]].
      unfold qeq, abs. cbn [q_fill q_w q_1 q_2]. rst. split; [|auto].
      intro s'. rewrite Q2. rst. slot_cases s' s E; reflexivity.
    + apply stutter; rst; try reflexivity. intro s'. slot_cases s' s E; rst; reflexivity.
  - (* RNext *)
    destruct (rpc st) eqn:Hrp; try discriminate.
    pose proof (a_read2 _ _ _ A) as Hr2. rewrite Hr2, u32_succ in Hl.
    change (idx k (u32 (start + N.of_nat (S (n2 st))))) with (sof (S (n2 st))) in Hl. set (s := sof (S (n2 st))) in *.
    rewrite (rlock_free_idle _ _ st A Hrp s) in Hl.
    destruct (Nat.eqb (mark (slots st s)) 2) eqn:Hm; apply some_inj in Hl; subst st'.
    + apply Nat.eqb_eq in Hm. pose proof (a_ci _ _ _ A s) as Hci. unfold CI in Hci. cbv zeta in Hci.
      destruct Hci as [(C1 & _)|[(C1 & _)|(C1 & C2 & C3 & C4)]]; try congruence.
      destruct C2 as (pre & i & Cf & Cp).
      assert (Hlt : n2 st < n1 st) by (apply (cntpos_lt_n k start _ _ s); lia).
      right. exists QComp. cbn [qstep abs q_fill q_1 q_2 q_w].
      assert (L : (n2 st <? n1 st) = true) by (apply Nat.ltb_lt; exact Hlt). rewrite L.
      eexists. eexists. split; [reflexivity|]. unfold qeq, abs. cbn [q_fill q_w q_1 q_2]. rst.
      split; [split; [|auto]|].
      * intro s'. slot_cases s' s E; reflexivity.
      * split; [|discriminate]. rewrite Cp. cbn [opt_list]. f_equal. f_equal. unfold qitem. cbn [q_fill]. fold s.
        replace (S (n2 st) - 1) with (n2 st) by lia. rewrite cntp_cntpos. rewrite Cf, app_length in C3. cbn [length] in C3.
        rewrite Cf, app_nth2 by lia. replace (cntpos (n2 st) s - length pre) with 0 by lia. reflexivity.
    + apply stutter; rst; try reflexivity. intro s'. slot_cases s' s E; reflexivity.
  - (* RDeliver *)
    destruct (rpc st) as [|s [i|]|]; try discriminate. destruct (memb p (wt (slots st s))); [|discriminate].
    apply some_inj in Hl. subst st'. apply stutter; rst; try reflexivity. intro s'. slot_cases s' s E; reflexivity.
  - (* RUnlock *)
    destruct (rpc st) as [|s [i|]|]; try discriminate. apply some_inj in Hl. subst st'.
    apply stutter; rst; try reflexivity. intro s'. slot_cases s' s E; reflexivity.
  - (* RSignal *)
    destruct (rpc st) as [| |s]; try discriminate. destruct o as [p|].
    + destruct (memb p (parked1 (slots st s))); [|discriminate]. apply some_inj in Hl. subst st'.
      apply stutter; rst; try reflexivity. intro s'. slot_cases s' s E; reflexivity.
    + destruct (is_nil (parked1 (slots st s))); [|discriminate]. apply some_inj in Hl. subst st'.
      apply stutter; rst; reflexivity.
  - (* WNextBusy *)
    destruct (wpc st); [|discriminate]. apply some_inj in Hl. subst st'. apply stutter; reflexivity.
Qed.

End Refine.
