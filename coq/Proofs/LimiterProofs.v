(** Proofs about Model/Limiter.v (C38). *)
From Coq Require Import List NArith ZArith Bool Lia ZifyBool.
Require Import RV.Model.Base RV.Model.Limiter.
Import ListNotations.
Open Scope Z_scope.

(** ---- sums over traces ---- *)

Lemma requested_app : forall a b R, requested (a ++ b) R = requested a R + requested b R.
Proof.
  induction a as [|[c o] t IH]; intros b R; cbn [app requested]; [lia|].
  destruct o as [r| |]; rewrite IH; lia.
Qed.

Lemma admitted_app : forall a b R, admitted (a ++ b) R = admitted a R + admitted b R.
Proof.
  induction a as [|[c o] t IH]; intros b R; cbn [app admitted]; [lia|].
  destruct o as [r| |]; rewrite IH; lia.
Qed.

(** every successful call of the trace has a non-negative n and a ResetAtMs of at most [R] *)
Definition bounded_by (tr : list (lcall * result lres)) (R : Z) : Prop :=
  forall c r, In (c, Ok r) tr -> reset r <= R.

Definition nonneg_n (tr : list (lcall * result lres)) : Prop :=
  forall c r, In (c, Ok r) tr -> 0 <= n c.

Lemma requested_beyond : forall tr R R', bounded_by tr R -> R < R' -> requested tr R' = 0.
Proof.
  induction tr as [|[c o] t IH]; intros R R' Hb Hlt; cbn [requested]; [reflexivity|].
  assert (Ht : bounded_by t R) by (intros c' r' Hin; apply (Hb c' r'); right; exact Hin).
  destruct o as [r| |]; try (apply (IH R R' Ht Hlt)).
  assert (reset r <= R) by (apply (Hb c r); left; reflexivity).
  assert (reset r =? R' = false) as -> by lia. rewrite (IH R R' Ht Hlt). lia.
Qed.

Lemma admitted_le_requested : forall tr R, nonneg_n tr -> admitted tr R <= requested tr R.
Proof.
  induction tr as [|[c o] t IH]; intros R Hn; cbn [admitted requested]; [lia|].
  assert (Ht : nonneg_n t) by (intros c' r' Hin; apply (Hn c' r'); right; exact Hin).
  specialize (IH R Ht). destruct o as [r| |]; try exact IH.
  assert (0 <= n c) by (apply (Hn c r); left; reflexivity).
  destruct (reset r =? R); cbn [andb]; [|lia].
  destruct (allowed r && (0 <? n c)); lia.
Qed.

Lemma admitted_nonneg : forall tr R, nonneg_n tr -> 0 <= admitted tr R.
Proof.
  induction tr as [|[c o] t IH]; intros R Hn; cbn [admitted]; [lia|].
  assert (Ht : nonneg_n t) by (intros c' r' Hin; apply (Hn c' r'); right; exact Hin).
  specialize (IH R Ht). destruct o as [r| |]; try exact IH.
  assert (0 <= n c) by (apply (Hn c r); left; reflexivity).
  destruct ((reset r =? R) && allowed r && (0 <? n c)); lia.
Qed.

(** ---- the invariant of one identifier ---- *)

(** either nothing was ever counted, or both keys exist with the same expiry (1000 ms past the window's
    end [R]), the counter holds everything requested in window [R], and no call was counted in a later window *)
Definition Jinv (s : lstate) (tr : list (lcall * result lres)) : Prop :=
  nonneg_n tr /\
  ((cnt s = None /\ ex s = None /\ forall c r, ~ In (c, Ok r) tr) \/
   (exists v R, cnt s = Some (v, Some (R + 1000)) /\ ex s = Some (R, Some (R + 1000)) /\
                v = requested tr R /\ bounded_by tr R)).

Lemma Jinv_empty : Jinv lempty [].
Proof. split; [intros c r []|]. left. repeat split. intros c r []. Qed.

(** the two behaviours of the script *)
Lemma script_fresh : forall s inc next nowc nows,
  (live (ex s) nows = None \/ exists e p, live (ex s) nows = Some (e, p) /\ e < nowc) ->
  nows < next + 1000 ->
  script s inc next nowc nows =
  ({| cnt := Some (inc, Some (next + 1000)); ex := Some (next, Some (next + 1000)) |}, (inc, next)).
Proof.
  intros s inc next nowc nows H Hlt. unfold script.
  assert (Hf : (match (match live (ex s) nows with Some (v, _) => Some v | None => None end) with
                | None => true | Some e => e <? nowc end) = true).
  { destruct H as [->|[e [p [-> He]]]]; [reflexivity|lia]. }
  rewrite Hf. cbn [cnt ex]. unfold incrby. cbn [live].
  assert (nows <? next + 1000 = true) as -> by lia. cbn [Z.add]. reflexivity.
Qed.

Lemma script_same : forall s inc next nowc nows e p v pv,
  live (ex s) nows = Some (e, p) -> nowc <= e -> live (cnt s) nows = Some (v, pv) ->
  script s inc next nowc nows = ({| cnt := Some (v + inc, pv); ex := ex s |}, (v + inc, e)).
Proof.
  intros s inc next nowc nows e p v pv He Hle Hc. unfold script. rewrite He.
  assert (e <? nowc = false) as -> by lia. unfold incrby. rewrite Hc. reflexivity.
Qed.

(** what one call does *)
Lemma step_spec : forall s tr c, Jinv s tr -> good c ->
  let '(s', o) := allow_n s c in
  Jinv s' (tr ++ [(c, o)]) /\
  match o with
  | Ok r =>
    0 <= n c /\
    current r = requested (tr ++ [(c, o)]) (reset r) /\
    remaining r = Z.max (limit c - requested (tr ++ [(c, o)]) (reset r)) 0 /\
    allowed r = ((current r <=? limit c) && ((0 <? n c) || (current r <? limit c))) /\
    (forall c' r', In (c', Ok r') tr -> reset r' <= reset r)
  | Err _ => n c < 0 /\ s' = s
  | Panic => False
  end.
Proof.
  intros s tr c [Hnn HJ] [Hw Hskew]. unfold allow_n.
  destruct (n c <? 0) eqn:En.
  - (* ErrInvalidTokens *)
    split; [|split; [lia|reflexivity]].
    split.
    + intros c' r' Hin. apply in_app_or in Hin. destruct Hin as [Hin|[Heq|[]]]; [apply (Hnn c' r' Hin)|discriminate].
    + destruct HJ as [[Hc [He Hno]]|[v [R [Hc [He [Hv Hb]]]]]].
      * left. repeat split; try assumption. intros c' r' Hin. apply in_app_or in Hin.
        destruct Hin as [Hin|[Heq|[]]]; [exact (Hno c' r' Hin)|discriminate].
      * right. exists v, R. repeat split; try assumption.
        -- rewrite requested_app. cbn [requested]. lia.
        -- intros c' r' Hin. apply in_app_or in Hin. destruct Hin as [Hin|[Heq|[]]]; [exact (Hb c' r' Hin)|discriminate].
  - assert (Hn0 : 0 <= n c) by lia.
    set (next := now_c c + window c).
    (* the effect of a fresh window *)
    assert (Hfresh : (live (ex s) (now_s c) = None \/ exists e p, live (ex s) (now_s c) = Some (e, p) /\ e < now_c c) ->
              (forall c' r', In (c', Ok r') tr -> reset r' < next) ->
              let '(s', (cur, e)) := script s (n c) next (now_c c) (now_s c) in
              let o := Ok {| allowed := (cur <=? limit c) && ((0 <? n c) || (cur <? limit c));
                             remaining := Z.max (limit c - cur) 0; reset := e; current := cur |} in
              Jinv s' (tr ++ [(c, o)]) /\
              (0 <= n c /\ cur = requested (tr ++ [(c, o)]) e /\
               Z.max (limit c - cur) 0 = Z.max (limit c - requested (tr ++ [(c, o)]) e) 0 /\
               (cur <=? limit c) && ((0 <? n c) || (cur <? limit c)) = ((cur <=? limit c) && ((0 <? n c) || (cur <? limit c))) /\
               (forall c' r', In (c', Ok r') tr -> reset r' <= e))).
    { intros Hcase Hlt. rewrite (script_fresh s (n c) next (now_c c) (now_s c) Hcase) by (unfold next; lia).
      set (r := {| allowed := (n c <=? limit c) && ((0 <? n c) || (n c <? limit c));
                   remaining := Z.max (limit c - n c) 0; reset := next; current := n c |}).
      assert (Hreq0 : requested tr next = 0).
      { clear - Hlt. induction tr as [|[c0 o0] t IH]; cbn [requested]; [reflexivity|].
        assert (Ht : forall c' r', In (c', Ok r') t -> reset r' < next) by (intros c' r' Hin; apply (Hlt c' r'); right; exact Hin).
        destruct o0 as [r0| |]; try (apply IH; exact Ht).
        assert (reset r0 < next) by (apply (Hlt c0 r0); left; reflexivity).
        assert (reset r0 =? next = false) as -> by lia. rewrite (IH Ht). lia. }
      assert (Hreq : requested (tr ++ [(c, Ok r)]) next = n c).
      { rewrite requested_app. cbn [requested reset r]. rewrite Z.eqb_refl, Hreq0. lia. }
      cbv zeta. fold r. rewrite Hreq.
      split; [|repeat split; try lia; intros c' r' Hin; specialize (Hlt c' r' Hin); lia].
      split.
      - intros c' r' Hin. apply in_app_or in Hin. destruct Hin as [Hin|[Heq|[]]]; [apply (Hnn c' r' Hin)|].
        inversion Heq; subst. exact Hn0.
      - right. exists (n c), next. cbn [cnt ex]. repeat split.
        + symmetry. exact Hreq.
        + intros c' r' Hin. apply in_app_or in Hin. destruct Hin as [Hin|[Heq|[]]].
          * specialize (Hlt c' r' Hin). lia.
          * inversion Heq; subst. cbn [reset r]. lia. }
    fold next.
    destruct HJ as [[Hc [He Hno]]|[v [R [Hc [He [Hv Hb]]]]]].
    + (* no key yet *)
      assert (H1 : live (ex s) (now_s c) = None) by (rewrite He; reflexivity).
      specialize (Hfresh (or_introl H1)).
      destruct (script s (n c) next (now_c c) (now_s c)) as [s' [cur e]].
      apply Hfresh. intros c' r' Hin. exfalso. exact (Hno c' r' Hin).
    + destruct (now_s c <? R + 1000) eqn:Ealive.
      * assert (H1 : live (ex s) (now_s c) = Some (R, Some (R + 1000))) by (rewrite He; cbn [live]; rewrite Ealive; reflexivity).
        destruct (R <? now_c c) eqn:Eold.
        -- (* the window is over by the caller's clock *)
           assert (H2 : exists e p, live (ex s) (now_s c) = Some (e, p) /\ e < now_c c) by (exists R, (Some (R + 1000)); split; [exact H1|lia]).
           specialize (Hfresh (or_intror H2)).
           destruct (script s (n c) next (now_c c) (now_s c)) as [s' [cur e]].
           apply Hfresh. intros c' r' Hin. specialize (Hb c' r' Hin). unfold next. lia.
        -- (* same window *)
           assert (H3 : live (cnt s) (now_s c) = Some (v, Some (R + 1000))) by (rewrite Hc; cbn [live]; rewrite Ealive; reflexivity).
           rewrite (script_same s (n c) next (now_c c) (now_s c) R _ v _ H1 ltac:(lia) H3).
           set (r := {| allowed := (v + n c <=? limit c) && ((0 <? n c) || (v + n c <? limit c));
                        remaining := Z.max (limit c - (v + n c)) 0; reset := R; current := v + n c |}).
           assert (Hreq : requested (tr ++ [(c, Ok r)]) R = v + n c).
           { rewrite requested_app. cbn [requested reset r]. rewrite Z.eqb_refl. lia. }
           split; [|cbn [current remaining reset allowed r]; rewrite Hreq; repeat split; try lia; exact Hb].
           split.
           ++ intros c' r' Hin. apply in_app_or in Hin. destruct Hin as [Hin|[Heq|[]]]; [apply (Hnn c' r' Hin)|].
              inversion Heq; subst. exact Hn0.
           ++ right. exists (v + n c), R. cbn [cnt ex]. repeat split; try assumption.
              ** symmetry. exact Hreq.
              ** intros c' r' Hin. apply in_app_or in Hin. destruct Hin as [Hin|[Heq|[]]]; [exact (Hb c' r' Hin)|].
                 inversion Heq; subst. cbn [reset r]. lia.
      * (* both keys expired on the server: by the clock hypothesis the window is over for the caller too *)
        assert (H1 : live (ex s) (now_s c) = None) by (rewrite He; cbn [live]; rewrite Ealive; reflexivity).
        specialize (Hfresh (or_introl H1)).
        destruct (script s (n c) next (now_c c) (now_s c)) as [s' [cur e]].
        apply Hfresh. intros c' r' Hin. specialize (Hb c' r' Hin). unfold next. lia.
Qed.

(** ---- histories of one identifier ---- *)

Definition all_good (calls : list lcall) : Prop := Forall good calls.

(** every position of the final trace satisfies the per-call statement, for the trace up to that position *)
Definition call_ok (pre : list (lcall * result lres)) (c : lcall) (o : result lres) : Prop :=
  match o with
  | Ok r =>
    remaining r = Z.max (limit c - requested (pre ++ [(c, o)]) (reset r)) 0 /\
    current r = requested (pre ++ [(c, o)]) (reset r) /\
    (allowed r = true -> 0 < n c -> admitted (pre ++ [(c, o)]) (reset r) <= limit c) /\
    (forall c' r', In (c', Ok r') pre -> reset r' <= reset r)
  | _ => True
  end.

Lemma lrun_spec : forall calls s tr, Jinv s tr -> all_good calls ->
  let '(s', tr') := lrun s tr calls in
  Jinv s' tr' /\ exists suffix, tr' = tr ++ suffix /\
    forall pre c o post, suffix = pre ++ (c, o) :: post -> call_ok (tr ++ pre) c o.
Proof.
  induction calls as [|c r IH]; intros s tr HJ Hg; cbn [lrun].
  - split; [exact HJ|]. exists []. split; [rewrite app_nil_r; reflexivity|].
    intros pre c o post H. destruct pre; discriminate.
  - pose proof (Forall_inv Hg) as Hc. pose proof (Forall_inv_tail Hg) as Hr.
    pose proof (step_spec s tr c HJ Hc) as Hs.
    destruct (allow_n s c) as [s1 o1]. destruct Hs as [HJ1 Hres].
    specialize (IH s1 (tr ++ [(c, o1)]) HJ1 Hr).
    destruct (lrun s1 (tr ++ [(c, o1)]) r) as [s' tr']. destruct IH as [HJ' [suf [Htr Hall]]].
    split; [exact HJ'|]. exists ((c, o1) :: suf). split; [rewrite Htr, <- app_assoc; reflexivity|].
    intros pre c0 o0 post Heq. destruct pre as [|p pre'].
    + cbn [app] in Heq. inversion Heq; subst. rewrite app_nil_r.
      unfold call_ok. destruct o0 as [r0| |]; try exact I.
      destruct Hres as [Hn0 [Hcur [Hrem [Hal Hmono]]]].
      split; [exact Hrem|]. split; [exact Hcur|]. split; [|exact Hmono].
      intros Ha Hpos. destruct HJ1 as [Hnn1 _].
      pose proof (admitted_le_requested (tr ++ [(c0, Ok r0)]) (reset r0) Hnn1) as Hle.
      rewrite Hal in Ha. rewrite <- Hcur in Hle. lia.
    + cbn [app] in Heq. inversion Heq; subst.
      specialize (Hall pre' c0 o0 post eq_refl). rewrite <- app_assoc in Hall. exact Hall.
Qed.

(** the bound over a whole history when every call of the identifier uses the same limit *)
Lemma admitted_bound : forall calls s tr L, Jinv s tr -> all_good calls ->
  (forall c, In c calls -> limit c = L) ->
  (forall R, admitted tr R <= Z.max L 0) ->
  forall R, admitted (snd (lrun s tr calls)) R <= Z.max L 0.
Proof.
  induction calls as [|c r IH]; intros s tr L HJ Hg HL Hb R; cbn [lrun snd]; [apply Hb|].
  pose proof (Forall_inv Hg) as Hc. pose proof (Forall_inv_tail Hg) as Hr.
  pose proof (step_spec s tr c HJ Hc) as Hs.
  destruct (allow_n s c) as [s1 o1]. destruct Hs as [HJ1 Hres].
  apply IH; try assumption.
  - intros c' Hin. apply HL. right. exact Hin.
  - intros R'. rewrite admitted_app. cbn [admitted]. destruct o1 as [r1| |]; try (specialize (Hb R'); lia).
    destruct Hres as [Hn0 [Hcur [Hrem [Hal Hmono]]]].
    destruct ((reset r1 =? R') && allowed r1 && (0 <? n c)) eqn:E; [|specialize (Hb R'); lia].
    apply andb_prop in E. destruct E as [E E3]. apply andb_prop in E. destruct E as [E1 E2].
    assert (reset r1 = R') by lia. subst R'.
    destruct HJ as [Hnn _]. destruct HJ1 as [Hnn1 _].
    pose proof (admitted_le_requested tr (reset r1) Hnn) as Hle.
    rewrite requested_app in Hcur. cbn [requested] in Hcur. rewrite Z.eqb_refl in Hcur.
    rewrite Hal in E2. assert (limit c = L) by (apply HL; left; reflexivity). lia.
Qed.

(** ---- Check (n = 0) ---- *)

(** the units counted in the window that is current for a caller with clocks (now_c, now_s) *)
Definition counted (s : lstate) (nowc nows : Z) : Z :=
  match live (ex s) nows with
  | Some (e, _) => if e <? nowc then 0 else match live (cnt s) nows with Some (v, _) => v | None => 0 end
  | None => 0
  end.

Definition window_live (s : lstate) (nowc nows : Z) : bool :=
  match live (ex s) nows, live (cnt s) nows with
  | Some (e, _), Some _ => negb (e <? nowc)
  | _, _ => false
  end.

Lemma check_pure : forall s c, n c = 0 -> good c ->
  let '(s', o) := allow_n s c in
  (window_live s (now_c c) (now_s c) = true -> s' = s) /\
  counted s' (now_c c) (now_s c) = counted s (now_c c) (now_s c) /\
  exists r, o = Ok r /\ current r = counted s (now_c c) (now_s c) /\
            remaining r = Z.max (limit c - counted s (now_c c) (now_s c)) 0 /\
            allowed r = (counted s (now_c c) (now_s c) <? limit c).
Proof.
  intros s c Hn [Hw Hskew]. unfold allow_n. rewrite Hn. cbn [Z.ltb Z.compare].
  unfold script, window_live, counted.
  destruct (live (ex s) (now_s c)) as [[e pe]|] eqn:Ee.
  - destruct (e <? now_c c) eqn:Eold.
    + (* new window opened by the Check itself: nothing counted before, nothing after *)
      cbn [cnt ex]. unfold incrby. cbn [live].
      assert (now_s c <? now_c c + window c + 1000 = true) as -> by lia.
      split; [destruct (live (cnt s) (now_s c)); cbn [negb]; discriminate|].
      cbn [ex cnt live]. assert (now_s c <? now_c c + window c + 1000 = true) as -> by lia.
      assert (now_c c + window c <? now_c c = false) as -> by lia.
      split; [lia|]. eexists. split; [reflexivity|]. cbn [current remaining allowed].
      split; [lia|]. split; [f_equal; lia|]. destruct (0 <? limit c) eqn:E; lia.
    + cbn [cnt ex]. unfold incrby.
      destruct (live (cnt s) (now_s c)) as [[v pv]|] eqn:Ec.
      * split.
        -- intros _. destruct s as [sc se]. cbn [cnt ex] in *. f_equal.
           unfold live in Ec. destruct sc as [[v0 [p0|]]|]; try discriminate.
           ++ destruct (now_s c <? p0); inversion Ec; subst. f_equal. f_equal. lia.
           ++ inversion Ec; subst. f_equal. f_equal. lia.
        -- cbn [ex cnt]. rewrite Ee, Eold.
           assert (Hl : live (Some (v + 0, pv)) (now_s c) = Some (v + 0, pv)).
           { unfold live in *. destruct (cnt s) as [[v0 [p0|]]|]; try discriminate.
             - destruct (now_s c <? p0) eqn:E0; inversion Ec; subst. rewrite E0. reflexivity.
             - inversion Ec; subst. reflexivity. }
           rewrite Hl. split; [lia|]. eexists. split; [reflexivity|]. cbn [current remaining allowed].
           split; [lia|]. split; [f_equal; lia|]. destruct (v + 0 <? limit c) eqn:E; lia.
      * split; [discriminate|]. cbn [ex cnt live]. rewrite Ee, Eold. split; [reflexivity|].
        eexists. split; [reflexivity|]. cbn [current remaining allowed].
        split; [reflexivity|]. split; [reflexivity|]. destruct (0 <? limit c) eqn:E; lia.
  - cbn [cnt ex]. unfold incrby. cbn [live].
    assert (now_s c <? now_c c + window c + 1000 = true) as -> by lia.
    split; [discriminate|]. cbn [ex cnt live].
    assert (now_s c <? now_c c + window c + 1000 = true) as -> by lia.
    assert (now_c c + window c <? now_c c = false) as -> by lia.
    split; [lia|]. eexists. split; [reflexivity|]. cbn [current remaining allowed].
    split; [lia|]. split; [f_equal; lia|]. destruct (0 <? limit c) eqn:E; lia.
Qed.

(** ---- several identifiers: the history of one identifier is its projection ---- *)

Fixpoint calls_of (id : N) (calls : list call) : list lcall :=
  match calls with
  | [] => []
  | c :: r => if N.eqb (cid c) id then body c :: calls_of id r else calls_of id r
  end.

Lemma proj_app : forall id a b, proj id (a ++ b) = proj id a ++ proj id b.
Proof.
  induction a as [|[c o] t IH]; intros b; cbn [app proj]; [reflexivity|].
  destruct (N.eqb (cid c) id); cbn [app]; rewrite IH; reflexivity.
Qed.

Lemma run_proj : forall calls st tr id,
  let '(st', tr') := run st tr calls in
  lrun (st id) (proj id tr) (calls_of id calls) = (st' id, proj id tr').
Proof.
  induction calls as [|c r IH]; intros st tr id; cbn [run calls_of lrun]; [reflexivity|].
  destruct (allow_n (st (cid c)) (body c)) as [s' o] eqn:Ea.
  specialize (IH (upd st (cid c) s') (tr ++ [(c, o)]) id).
  destruct (run (upd st (cid c) s') (tr ++ [(c, o)]) r) as [st' tr'].
  rewrite proj_app in IH. cbn [proj] in IH. unfold upd in IH.
  destruct (N.eqb (cid c) id) eqn:E.
  - apply N.eqb_eq in E. subst id. rewrite N.eqb_refl in IH. cbn [lrun]. rewrite Ea. exact IH.
  - rewrite N.eqb_sym in E. rewrite E in IH. rewrite app_nil_r in IH. exact IH.
Qed.

Lemma calls_of_good : forall id calls, Forall (fun c => good (body c)) calls -> all_good (calls_of id calls).
Proof.
  induction calls as [|c r IH]; intros H; cbn [calls_of]; [constructor|].
  pose proof (Forall_inv H) as Hc. pose proof (Forall_inv_tail H) as Hr.
  destruct (N.eqb (cid c) id); [constructor; [exact Hc|apply IH; exact Hr]|apply IH; exact Hr].
Qed.

Lemma calls_of_In : forall id calls c, In c (calls_of id calls) -> exists c0, In c0 calls /\ cid c0 = id /\ body c0 = c.
Proof.
  induction calls as [|c0 r IH]; intros c Hin; cbn [calls_of] in Hin; [contradiction|].
  destruct (N.eqb (cid c0) id) eqn:E.
  - destruct Hin as [<-|Hin].
    + exists c0. split; [left; reflexivity|]. split; [apply N.eqb_eq; exact E|reflexivity].
    + destruct (IH c Hin) as [c1 [H1 [H2 H3]]]. exists c1. split; [right; exact H1|split; assumption].
  - destruct (IH c Hin) as [c1 [H1 [H2 H3]]]. exists c1. split; [right; exact H1|split; assumption].
Qed.
