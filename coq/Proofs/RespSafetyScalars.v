(** C13, part 2: readN (doubling buffer), readB, the chunk loop, readBlobString, readBoolean, readNull
    on arbitrary input: no panic, and the allocation potential. *)
From Coq Require Import List Arith NArith ZArith Bool Lia ZifyN ZifyNat ZifyBool.
Require Import RV.Model.Base RV.Model.RespWrite RV.Model.Resp.
Require Import RV.Proofs.RespIOProofs RV.Proofs.RespBaseProofs RV.Proofs.RespSafetyBase.
Import ListNotations.
Open Scope N_scope.

Lemma triple_inv {A C D} (a a' : A) (b b' : C) (c c' : D) : (a, b, c) = (a', b', c') -> a = a' /\ b = b' /\ c = c'.
Proof. intros H. inversion H. auto. Qed.

Ltac fin Heq := apply triple_inv in Heq as (<- & <- & <-).

Definition K0 : N := 196608.   (* 3 * maxPreallocBytes *)

(** ** make / Grow *)
Lemma alloc_make_spec B sz n s al r s' al' : run B (alloc_make sz n) s al = (r, s', al') ->
  s' = s /\ ((r = Panic /\ make_ok sz n = false /\ al' = al) \/ (r = Ok tt /\ make_ok sz n = true /\ al' = al + Z.to_N (n * sz))).
Proof. unfold alloc_make. destruct (make_ok sz n); cbn; intros Heq; fin Heq; auto. Qed.

Lemma grow_spec B n s al r s' al' : run B (grow n) s al = (r, s', al') ->
  s' = s /\ ((r = Panic /\ (n < 0)%Z /\ al' = al) \/ (r = Ok tt /\ (0 <= n)%Z /\ al' = al + Z.to_N n)).
Proof. unfold grow. destruct (Z.ltb_spec n 0); cbn; intros Heq; fin Heq; auto. Qed.

(** ** readN *)
Definition slackN (n cap : Z) : N := Z.to_N (Z.max 0 (2 * cap - 4 * n)).

Lemma read_n_loop_spec B : forall fuel L n cap acc s al r s' al',
  (0 <= n <= cap)%Z -> (cap <= L)%Z -> (cap = L \/ 2 * n <= cap)%Z -> blen s < input_bound ->
  run B (read_n_loop fuel L n cap acc) s al = (r, s', al') ->
  r <> Panic /\ blen s' <= blen s /\ al' + 4 * blen s' <= al + 4 * blen s + slackN n cap /\
  (forall x, r = Ok x -> Z.of_N (blen s') + (L - n) = Z.of_N (blen s))%Z.
Proof.
  induction fuel as [|f IH]; intros L n cap acc s al r s' al' Hn Hcap Hinv Hb.
  - cbn. intros Heq; fin Heq. repeat split; try discriminate; lia.
  - cbn [read_n_loop]. rewrite run_bind.
    destruct (run B (do_op (OReadFull (Z.to_N (cap - n)))) s al) as [[r0 s0] al0] eqn:E.
    apply run_op_inv in E as [E ->]. cbn [meter].
    pose proof (step_shrink B (OReadFull (Z.to_N (cap - n))) s) as Hs. rewrite E in Hs. cbn [snd] in Hs.
    pose proof (step_no_panic B (OReadFull (Z.to_N (cap - n))) s) as Hp. rewrite E in Hp. cbn [fst] in Hp.
    destruct r0 as [d|e|]; [|cbn [run]; intros Heq; fin Heq; repeat split; try discriminate; lia|congruence].
    apply step_read_full_ok in E as [Ed Es0].
    destruct (Z.eqb_spec cap L) as [->|Hne].
    + cbn [run]. intros Heq; fin Heq. repeat split; try discriminate; try lia. all: intros; lia.
    + destruct Hinv as [Hx|Hinv]; [congruence|].
      unfold bindr. rewrite run_bind.
      destruct (run B (alloc_make 1 (Z.min L (cap * 2))) s0 al) as [[r1 s1] al1] eqn:E1.
      apply alloc_make_spec in E1 as [-> [(-> & Hm & ->)|(-> & Hm & ->)]].
      * (* make cannot fail: the buffer is at most twice what has already been received *)
        exfalso. unfold make_ok, max_alloc, input_bound in *. lia.
      * intros Hrun. apply IH in Hrun; try lia.
        destruct Hrun as (H1 & H2 & H3 & H4). split; [assumption|]. split; [lia|]. split.
        -- unfold slackN in *. lia.
        -- intros x Hx. specialize (H4 x Hx). lia.
Qed.

Lemma read_n_spec B L s al r s' al' : blen s < input_bound ->
  run B (read_n L) s al = (r, s', al') ->
  r <> Panic /\ blen s' <= blen s /\ al' + 4 * blen s' <= al + 4 * blen s + K0 /\
  (forall x, r = Ok x -> (0 <= L)%Z /\ blen s' + Z.to_N L = blen s /\ al' <= al + 7 * Z.to_N L).
Proof.
  intros Hb. unfold read_n. destruct (Z.ltb_spec L 0) as [Hneg|Hpos].
  - cbn. intros Heq; fin Heq. repeat split; try discriminate; unfold K0; lia.
  - unfold bindr. rewrite run_bind.
    destruct (run B (alloc_make 1 (Z.min L max_prealloc_bytes)) s al) as [[r1 s1] al1] eqn:E1.
    apply alloc_make_spec in E1 as [-> [(-> & Hm & ->)|(-> & Hm & ->)]].
    + exfalso. unfold make_ok, max_alloc, max_prealloc_bytes in *. lia.
    + intros Hrun. apply read_n_loop_spec in Hrun; unfold max_prealloc_bytes in *; try lia.
      destruct Hrun as (H1 & H2 & H3 & H4). unfold slackN, K0 in *.
      split; [assumption|]. split; [assumption|]. split; [lia|].
      intros x Hx. specialize (H4 x Hx). lia.
Qed.

(** ** readB *)
Lemma read_b_spec B s al r s' al' : blen s < input_bound ->
  run B read_b s al = (r, s', al') ->
  r <> Panic /\ blen s' <= blen s /\ al' + 4 * blen s' <= al + 4 * blen s + K0 /\
  (forall x, r = Ok x -> blen s' + 3 <= blen s /\ al' + 7 * blen s' <= al + 7 * blen s).
Proof.
  intros Hb. unfold read_b, bindr. rewrite run_bind.
  destruct (run B read_i s al) as [[r0 s0] al0] eqn:E0.
  apply read_i_spec in E0 as (Hp0 & -> & Hs0 & Hok0).
  destruct r0 as [L|e|]; [|cbn [run]; intros Heq; fin Heq; repeat split; try discriminate; unfold K0; lia|congruence].
  destruct (Hok0 L eq_refl) as [Hc0 _].
  destruct (L =? -1)%Z; [cbn [run]; intros Heq; fin Heq; repeat split; try discriminate; unfold K0; lia|].
  rewrite run_bind. destruct (run B (read_n L) s0 al) as [[r1 s1] al1] eqn:E1.
  apply read_n_spec in E1; [|lia]. destruct E1 as (Hp1 & Hs1 & Ha1 & Hok1).
  destruct r1 as [bs|e|]; [|cbn [run]; intros Heq; fin Heq; repeat split; try discriminate; lia|congruence].
  destruct (Hok1 bs eq_refl) as (HL & HsL & HaL).
  rewrite run_bind. destruct (run B (do_op (ODiscard 2)) s1 al1) as [[r2 s2] al2] eqn:E2.
  apply run_op_inv in E2 as [E2 ->]. cbn [meter].
  pose proof (step_shrink B (ODiscard 2) s1) as Hs2. rewrite E2 in Hs2. cbn [snd] in Hs2.
  pose proof (step_no_panic B (ODiscard 2) s1) as Hp2. rewrite E2 in Hp2. cbn [fst] in Hp2.
  destruct r2 as [d|e|]; [|cbn [run]; intros Heq; fin Heq; repeat split; try discriminate; lia|congruence].
  cbn [run]. intros Heq; fin Heq. repeat split; try discriminate; lia.
Qed.

(** ** the chunk loop *)
Lemma chunk_loop_spec B : forall fuel acc s al r s' al', blen s < input_bound ->
  run B (chunk_loop fuel acc) s al = (r, s', al') ->
  r <> Panic /\ blen s' <= blen s /\ al' + 4 * blen s' <= al + 4 * blen s + K0 /\
  (forall x, r = Ok x -> al' + 4 * blen s' <= al + 4 * blen s).
Proof.
  induction fuel as [|f IH]; intros acc s al r s' al' Hb.
  - cbn. intros Heq; fin Heq. repeat split; try discriminate; unfold K0; lia.
  - cbn [chunk_loop]. unfold bindr. rewrite run_bind.
    destruct (run B (do_op (ODiscard 1)) s al) as [[r0 s0] al0] eqn:E0.
    apply run_op_inv in E0 as [E0 ->]. cbn [meter].
    pose proof (step_shrink B (ODiscard 1) s) as Hs0. rewrite E0 in Hs0. cbn [snd] in Hs0.
    pose proof (step_no_panic B (ODiscard 1) s) as Hp0. rewrite E0 in Hp0. cbn [fst] in Hp0.
    destruct r0 as [d0|e|]; [|cbn [run]; intros Heq; fin Heq; repeat split; try discriminate; unfold K0; lia|congruence].
    rewrite run_bind. destruct (run B read_i s0 al) as [[r1 s1] al1] eqn:E1.
    apply read_i_spec in E1 as (Hp1 & -> & Hs1 & Hok1).
    destruct r1 as [L|e|]; [|cbn [run]; intros Heq; fin Heq; repeat split; try discriminate; unfold K0; lia|congruence].
    destruct (Z.eqb_spec L 0); [cbn [run]; intros Heq; fin Heq; repeat split; try discriminate; unfold K0; lia|].
    destruct (Z.ltb_spec L 0); [cbn [run]; intros Heq; fin Heq; repeat split; try discriminate; unfold K0; lia|].
    rewrite run_bind. destruct (run B (grow (Z.min L max_prealloc_bytes)) s1 al) as [[r2 s2] al2] eqn:E2.
    apply grow_spec in E2 as [-> [(-> & Hg & ->)|(-> & Hg & ->)]]; [unfold max_prealloc_bytes in Hg; lia|].
    rewrite run_bind. destruct (run B (do_op (OCopyN (Z.to_N L))) s1 (al + Z.to_N (Z.min L max_prealloc_bytes))) as [[r3 s3] al3] eqn:E3.
    apply run_op_inv in E3 as [E3 ->]. cbn [meter].
    pose proof (step_shrink B (OCopyN (Z.to_N L)) s1) as Hs3. rewrite E3 in Hs3. cbn [snd] in Hs3.
    pose proof (step_no_panic B (OCopyN (Z.to_N L)) s1) as Hp3. rewrite E3 in Hp3. cbn [fst] in Hp3.
    unfold max_prealloc_bytes in *.
    destruct r3 as [d|e|]; [|cbn [run]; intros Heq; fin Heq; repeat split; try discriminate; unfold K0; lia|congruence].
    apply step_copy_n_ok in E3 as [Ed Es3].
    rewrite run_bind, run_alloc. rewrite run_bind.
    destruct (run B (do_op (ODiscard 2)) s3 (al + Z.to_N (Z.min L 65536) + blen d)) as [[r4 s4] al4] eqn:E4.
    apply run_op_inv in E4 as [E4 ->]. cbn [meter].
    pose proof (step_shrink B (ODiscard 2) s3) as Hs4. rewrite E4 in Hs4. cbn [snd] in Hs4.
    pose proof (step_no_panic B (ODiscard 2) s3) as Hp4. rewrite E4 in Hp4. cbn [fst] in Hp4.
    destruct r4 as [d4|e|]; [|cbn [run]; intros Heq; fin Heq; repeat split; try discriminate; unfold K0; lia|congruence].
    intros Hrun. apply IH in Hrun; [|lia]. destruct Hrun as (H1 & H2 & H3 & H4).
    split; [assumption|]. split; [lia|]. split; [lia|]. intros x Hx. specialize (H4 x Hx). lia.
Qed.

(** ** readBlobString *)
Lemma read_blob_string_spec B cf s al r s' al' : blen s < input_bound ->
  run B (read_blob_string cf) s al = (r, s', al') ->
  r <> Panic /\ blen s' <= blen s /\ al' + 7 * blen s' <= al + 7 * blen s + 2 * K0.
Proof.
  intros Hb. unfold read_blob_string. rewrite run_bind.
  destruct (run B read_b s al) as [[r0 s0] al0] eqn:E0.
  apply read_b_spec in E0; [|assumption]. destruct E0 as (Hp0 & Hs0 & Ha0 & Hok0).
  destruct r0 as [x|e|]; [| |congruence].
  - cbn [run]. intros Heq; fin Heq. destruct (Hok0 x eq_refl). repeat split; try discriminate; lia.
  - destruct (e =? eChunked).
    + intros Hrun. apply chunk_loop_spec in Hrun; [|lia]. destruct Hrun as (H1 & H2 & H3 & H4).
      split; [assumption|]. split; lia.
    + cbn [run]. intros Heq; fin Heq. repeat split; try discriminate; lia.
Qed.

Lemma read_boolean_spec B s al r s' al' : run B read_boolean s al = (r, s', al') ->
  r <> Panic /\ blen s' <= blen s /\ al' = al.
Proof.
  unfold read_boolean, bindr. rewrite run_bind.
  destruct (run B (do_op OReadByte) s al) as [[r0 s0] al0] eqn:E0.
  apply run_op_inv in E0 as [E0 ->]. cbn [meter].
  pose proof (step_shrink B OReadByte s) as Hs0. rewrite E0 in Hs0. cbn [snd] in Hs0.
  pose proof (step_no_panic B OReadByte s) as Hp0. rewrite E0 in Hp0. cbn [fst] in Hp0.
  destruct r0 as [d0|e|]; [|cbn [run]; intros Heq; fin Heq; repeat split; try discriminate; lia|congruence].
  rewrite run_bind. destruct (run B (do_op (ODiscard 2)) s0 al) as [[r1 s1] al1] eqn:E1.
  apply run_op_inv in E1 as [E1 ->]. cbn [meter].
  pose proof (step_shrink B (ODiscard 2) s0) as Hs1. rewrite E1 in Hs1. cbn [snd] in Hs1.
  pose proof (step_no_panic B (ODiscard 2) s0) as Hp1. rewrite E1 in Hp1. cbn [fst] in Hp1.
  destruct r1 as [d1|e|]; [|cbn [run]; intros Heq; fin Heq; repeat split; try discriminate; lia|congruence].
  cbn [run]. intros Heq; fin Heq. repeat split; try discriminate; lia.
Qed.

Lemma read_null_spec B s al r s' al' : run B read_null s al = (r, s', al') ->
  r <> Panic /\ blen s' <= blen s /\ al' = al.
Proof.
  unfold read_null, bindr. rewrite run_bind.
  destruct (run B (do_op (ODiscard 2)) s al) as [[r1 s1] al1] eqn:E1.
  apply run_op_inv in E1 as [E1 ->]. cbn [meter].
  pose proof (step_shrink B (ODiscard 2) s) as Hs1. rewrite E1 in Hs1. cbn [snd] in Hs1.
  pose proof (step_no_panic B (ODiscard 2) s) as Hp1. rewrite E1 in Hp1. cbn [fst] in Hp1.
  destruct r1 as [d1|e|]; [|cbn [run]; intros Heq; fin Heq; repeat split; try discriminate; lia|congruence].
  cbn [run]. intros Heq; fin Heq. repeat split; try discriminate; lia.
Qed.
