(** C10: accounted size = sum of the retained completed entries <= max, over all histories;
    eviction takes a minimal prefix of the completed entries in list order; in-flight entries stay. *)
From Coq Require Import List NArith ZArith Bool Lia Permutation.
Require Import RV.Model.Base RV.Model.Lru RV.Proofs.LruBase RV.Proofs.LruSteps.
Import ListNotations.
Open Scope Z_scope.

Definition done (e : entry) : bool := negb (pending e).
Definition sum_done (l : list entry) : Z := sum_sizes (filter done l).

(** ** sizes are non-negative *)

Lemma approx_nonneg mss : 0 <= mss -> forall m, 0 <= approx mss m.
Proof.
  intro H. fix IH 1. intros [t i s vs x k]. cbn [approx].
  assert (Hvs : 0 <= (fix go (l : list msg) : Z := match l with [] => 0 | x :: r => approx mss x + go r end) vs).
  { clear -IH. revert vs. fix IHl 1. intros [|v r]; [lia|]. pose proof (IH v). pose proof (IHl r). lia. }
  lia.
Qed.

Lemma entry_size_nonneg g k c v : 0 <= cbase g -> 0 <= cmss g -> 0 <= entry_size g k c v.
Proof. intros Hb Hm. unfold entry_size. pose proof (approx_nonneg (cmss g) Hm v). lia. Qed.

Definition nonneg (s : state) : Prop := forall e, In e (order s) -> 0 <= esize e.

Lemma nonneg_step g s o :
  0 <= cbase g -> 0 <= cmss g -> inv s -> nonneg s -> nonneg (fst (step g s o)).
Proof.
  intros Hb Hm Hi Hn e' He'. destruct (step_prov g s o e' Hi He') as [H|[H|[e [v [_ [_ [_ ->]]]]]]].
  - apply Hn. exact H.
  - assert (esize e' = 0); [|lia].
    destruct o; cbn [creates] in H; try contradiction.
    + apply H. + destruct H as [it [_ H]]. apply H. + apply H. + destruct H as [it [_ H]]. apply H.
  - unfold completed. cbn [esize]. apply entry_size_nonneg; assumption.
Qed.

Lemma sum_nonneg l : (forall e, In e l -> 0 <= esize e) -> 0 <= sum_sizes l.
Proof.
  induction l as [|e r IH]; intro H; [cbn; lia|]. rewrite sum_cons.
  pose proof (H e (or_introl eq_refl)). assert (0 <= sum_sizes r) by (apply IH; intros x Hx; apply H; right; exact Hx). lia.
Qed.

(** ** size accounting *)

Lemma sum_done_eq l : (forall e, In e l -> pending e = true -> esize e = 0) -> sum_done l = sum_sizes l.
Proof.
  intro H. unfold sum_done. rewrite (sum_filter_split done l).
  assert (E : sum_sizes (filter (fun e => negb (done e)) l) = 0); [|lia].
  induction l as [|e r IH]; [reflexivity|]. cbn [filter].
  assert (Hr : forall x, In x r -> pending x = true -> esize x = 0) by (intros x Hx; apply H; right; exact Hx).
  unfold done at 1. rewrite negb_involutive. destruct (pending e) eqn:Ep.
  - rewrite sum_cons, (H e (or_introl eq_refl) Ep), (IH Hr). reflexivity.
  - apply IH. exact Hr.
Qed.

(** ** the bound *)

Definition bounded (g : cfg) (s : state) : Prop := closed s = false -> size s <= cmax g.

Lemma slow_one_size s k c ttl now : inv s -> nonneg s -> size (fst (slow_one s k c ttl now)) <= size s.
Proof.
  intros Hi Hn. unfold slow_one. destruct (lookup k c (order s)) as [e|] eqn:El.
  - destruct (live (eval e) now); cbn; [lia|]. apply lookup_some in El. pose proof (Hn e (proj1 El)). lia.
  - cbn. lia.
Qed.

Lemma slow_one_nonneg s k c ttl now : inv s -> nonneg s -> nonneg (fst (slow_one s k c ttl now)).
Proof.
  intros Hi Hn e' He'. destruct (slow_one_prov s k c ttl now e' Hi He') as [H|H]; [apply Hn; exact H|].
  destruct H as [_ [_ [H _]]]. lia.
Qed.

Lemma flights_slow_open_size now items : forall s,
  inv s -> closed s = false -> nonneg s -> size (fst (flights_slow_open s now items)) <= size s.
Proof.
  induction items as [|[k c t] r IH]; intros s Hi Hc Hn; [cbn; lia|].
  cbn [flights_slow_open].
  pose proof (inv_slow_one s k c t now Hi Hc) as [Hi1 Hc1].
  pose proof (slow_one_size s k c t now Hi Hn) as Hs. pose proof (slow_one_nonneg s k c t now Hi Hn) as Hn1.
  destruct (slow_one s k c t now) as [s1 x]. cbn [fst] in *.
  specialize (IH s1 Hi1 Hc1 Hn1). destruct (flights_slow_open s1 now r) as [s2 rs]. cbn [fst] in *. lia.
Qed.

Lemma flight_slow_size s k c ttl now : inv s -> nonneg s -> size (fst (flight_slow s k c ttl now)) <= size s.
Proof.
  intros Hi Hn. unfold flight_slow. destruct (closed s); [cbn; lia|].
  pose proof (slow_one_size s k c ttl now Hi Hn) as H. destruct (slow_one s k c ttl now) as [s1 r]. exact H.
Qed.

Lemma flights_slow_size s now items : inv s -> nonneg s -> size (fst (flights_slow s now items)) <= size s.
Proof.
  intros Hi Hn. unfold flights_slow. destruct (closed s) eqn:Hc; [cbn; lia|].
  apply flights_slow_open_size; assumption.
Qed.

Lemma nonneg_perm s s' : Permutation (order s') (order s) -> nonneg s -> nonneg s'.
Proof. intros Hp Hn e He. apply Hn. eapply Permutation_in; eassumption. Qed.

Lemma after_evict_bounded g s1 : 0 <= cmax g -> inv s1 -> inv (after_evict g s1) -> bounded g (after_evict g s1).
Proof.
  intros Hmax Hi1 Hi' Hc. pose proof (inv_size _ Hi' Hc) as Hsz. pose proof (inv_pend0 _ Hi') as Hp0.
  unfold after_evict in *. destruct (evict (cmax g) (size s1) (order s1)) as [[z keep] ev] eqn:Ee.
  cbn [size order closed] in *.
  destruct (evict_spec _ _ _ _ _ _ Ee) as [_ [_ [_ [D|D]]]]; [exact D|].
  rewrite Hsz. assert (E : sum_sizes keep = 0); [|lia].
  clear -D Hp0. induction keep as [|e r IH]; [reflexivity|]. rewrite sum_cons.
  rewrite (Hp0 e (or_introl eq_refl) (D e (or_introl eq_refl))).
  rewrite IH; [reflexivity| |]; intros x Hx; [intro Hpx; apply Hp0; [right; exact Hx|exact Hpx]|apply D; right; exact Hx].
Qed.

Lemma update_eq g s k c v :
  fst (update g s k c v) =
  match lookup k c (order s) with
  | Some e => after_evict g (if pending e then commit g s k c v e else s)
  | None => s
  end.
Proof.
  destruct (lookup k c (order s)) as [e|] eqn:El.
  - rewrite (update_some g s k c v e El). destruct (pending e); reflexivity.
  - rewrite (update_none g s k c v El). reflexivity.
Qed.

Lemma inv_commit g s k c v e :
  wf_msg v -> inv s -> lookup k c (order s) = Some e -> pending e = true -> inv (commit g s k c v e).
Proof.
  intros Hv Hi El Ep.
  assert (Hv' : is_pending_msg (set_xat v (min_xat (m_xat (eval e)) (m_xat v))) = false).
  { unfold is_pending_msg. destruct v. cbn. apply N.eqb_neq. exact Hv. }
  destruct Hi as [I1 I2 I3 I4 I5 I6]. unfold commit. constructor; cbn [order size closed next_id].
  - rewrite upd_kc_map_kc; [exact I1|reflexivity].
  - intros x Hx. apply upd_kc_in in Hx. destruct Hx as [y [Hy [[_ ->]|[_ ->]]]]; cbn; apply I2; exact Hy.
  - rewrite upd_kc_map_id; [exact I3|reflexivity].
  - intros x Hx Hp. apply upd_kc_in in Hx. destruct Hx as [y [Hy [[_ ->]|[_ ->]]]].
    + unfold pending in Hp. cbn in Hp. congruence.
    + apply I4; assumption.
  - intro H. rewrite (upd_kc_sum k c _ _ e I1 El). cbn [esize]. rewrite (I5 H).
    apply lookup_some in El. rewrite (I4 e (proj1 El) Ep). lia.
  - intro H. rewrite (I6 H) in El. discriminate.
Qed.

Lemma bounded_step g s o :
  0 <= cmax g -> wf_op o -> inv s -> nonneg s -> bounded g s -> bounded g (fst (step g s o)).
Proof.
  intros Hmax Hw Hi Hn Hb.
  assert (Hmono : forall s', closed s' = closed s -> size s' <= size s -> bounded g s').
  { intros s' Hc Hs Hc'. rewrite Hc in Hc'. specialize (Hb Hc'). lia. }
  destruct o; cbn [step fst].
  - (* Flight *)
    unfold flight. pose proof (flight_fast_core s k c now) as [A [B [C D]]].
    pose proof (inv_flight_fast s k c now Hi) as Hi1.
    destruct (flight_fast s k c now) as [s1 x]. cbn [fst] in *.
    assert (Hn1 : nonneg s1) by (intros e He; apply Hn; rewrite <- A; exact He).
    assert (Hslow : bounded g (fst (flight_slow s1 k c ttl now))).
    { intro Hc'. pose proof (flight_slow_size s1 k c ttl now Hi1 Hn1) as Hs.
      assert (Hcs : closed s1 = false).
      { unfold flight_slow in Hc'. destruct (closed s1) eqn:E; [cbn in Hc'; congruence|reflexivity]. }
      rewrite C in Hcs. specialize (Hb Hcs). lia. }
    destruct x as [| [[id v]|] mv | | | | | | |]; try exact Hslow.
    destruct mv; cbn [fst].
    + pose proof (touch_core s1 [id]) as [T1 [T2 T3]]. apply Hmono; [congruence|lia].
    + apply Hmono; [exact C|lia].
  - (* Flights *)
    rewrite flights_unfold. cbv zeta.
    pose proof (flights_mid_spec s now items Hi) as [Hi2 [Hp [Hc [_ Hs]]]].
    assert (Hn2 : nonneg (flights_mid s now items)) by (eapply nonneg_perm; eassumption).
    set (rs := snd (fst (flights_fast s now items))).
    destruct (missed_items items rs) as [|m mi]; cbn [fst].
    + apply Hmono; [exact Hc|lia].
    + pose proof (flights_slow_size (flights_mid s now items) now (m :: mi) Hi2 Hn2) as Hsz.
      assert (Hcl : closed (fst (flights_slow (flights_mid s now items) now (m :: mi))) = closed (flights_mid s now items)).
      { unfold flights_slow. destruct (closed (flights_mid s now items)) eqn:E; [exact E|].
        clear -E. revert E. generalize (flights_mid s now items). induction (m :: mi) as [|[k c t] r IH]; intros s0 E; [exact E|].
        cbn [flights_slow_open]. pose proof (slow_one_closed s0 k c t now) as H.
        destruct (slow_one s0 k c t now) as [s1 x]. cbn [fst] in H. specialize (IH s1).
        destruct (flights_slow_open s1 now r) as [s2 rs2]. cbn [fst] in *. rewrite IH; congruence. }
      destruct (flights_slow (flights_mid s now items) now (m :: mi)) as [s3 rs2]. cbn [fst] in *.
      apply Hmono; [congruence|lia].
  - (* Update *)
    rewrite update_eq. destruct (lookup k c (order s)) as [e|] eqn:El; [|exact Hb].
    pose proof (inv_update g s k c v Hw Hi) as Hi'. rewrite update_eq, El in Hi'.
    apply after_evict_bounded; [exact Hmax| |exact Hi'].
    destruct (pending e) eqn:Ep; [apply inv_commit; assumption|exact Hi].
  - (* Cancel *)
    rewrite cancel_spec. destruct (lookup k c (order s)) as [e|]; [|exact Hb].
    destruct (pending e); [|exact Hb]. cbn [fst]. apply Hmono; cbn; [reflexivity|lia].
  - (* Delete *)
    unfold delete. assert (Hp : forall p, bounded g (purge_if p s)).
    { intro p. apply Hmono; [reflexivity|]. unfold purge_if. cbn [size].
      assert (0 <= sum_sizes (filter (fun e => p e && negb (pending e)) (order s))); [|lia].
      apply sum_nonneg. intros e He. apply filter_In in He. apply Hn. apply He. }
    destruct keys; apply Hp.
  - intro H. discriminate.
  - exact Hb.
  - pose proof (flight_fast_core s k c now) as [A [B [C D]]]. apply Hmono; [exact C|lia].
  - pose proof (touch_core s ids) as [T1 [T2 T3]]. apply Hmono; [exact T2|lia].
  - intro Hc'. pose proof (flight_slow_size s k c ttl now Hi Hn) as Hs.
    assert (Hcs : closed s = false).
    { unfold flight_slow in Hc'. destruct (closed s) eqn:E; [cbn in Hc'; congruence|reflexivity]. }
    specialize (Hb Hcs). lia.
  - pose proof (flights_fast_core now items s) as [A [B [C D]]].
    destruct (flights_fast s now items) as [[s1 rs] mv]. cbn [fst] in *. apply Hmono; [exact C|lia].
  - pose proof (flights_slow_size s now items Hi Hn) as Hsz.
    assert (Hcl : closed (fst (flights_slow s now items)) = closed s).
    { unfold flights_slow. destruct (closed s) eqn:E; [exact E|].
      clear -E. revert E. generalize s. induction items as [|[k c t] r IH]; intros s0 E; [exact E|].
      cbn [flights_slow_open]. pose proof (slow_one_closed s0 k c t now) as H.
      destruct (slow_one s0 k c t now) as [s1 x]. cbn [fst] in H. specialize (IH s1).
      destruct (flights_slow_open s1 now r) as [s2 rs2]. cbn [fst] in *. rewrite IH; congruence. }
    destruct (flights_slow s now items) as [s1 rs]. cbn [fst] in *. apply Hmono; [exact Hcl|lia].
Qed.

(** all three invariants along a history *)
Lemma all_run g ops : 0 <= cmax g -> 0 <= cbase g -> 0 <= cmss g ->
  forall s, Forall wf_op ops -> inv s -> nonneg s -> bounded g s ->
  inv (run g ops s) /\ nonneg (run g ops s) /\ bounded g (run g ops s).
Proof.
  intros Hmax Hb Hm. induction ops as [|o r IH]; intros s Hw Hi Hn Hbd; [tauto|].
  inversion Hw; subst. rewrite run_cons. apply IH; [assumption| | |].
  - apply inv_step; assumption.
  - apply nonneg_step; assumption.
  - apply bounded_step; assumption.
Qed.

Lemma all_init g : 0 <= cmax g -> inv init /\ nonneg init /\ bounded g init.
Proof. intro H. split; [apply inv_init|]. split; [intros e []|intro; exact H]. Qed.

Theorem size_invariant g ops :
  0 <= cmax g -> 0 <= cbase g -> 0 <= cmss g -> Forall wf_op ops ->
  let s := run g ops init in
  (closed s = false -> size s = sum_done (order s)) /\ sum_done (order s) <= cmax g.
Proof.
  intros Hmax Hb Hm Hw s. destruct (all_init g Hmax) as [I0 [N0 B0]].
  destruct (all_run g ops Hmax Hb Hm init Hw I0 N0 B0) as [Hi [Hn Hbd]]. fold s in Hi, Hn, Hbd.
  pose proof (sum_done_eq (order s) (inv_pend0 s Hi)) as Hd. split.
  - intro Hc. rewrite Hd. apply (inv_size s Hi Hc).
  - destruct (closed s) eqn:Hc.
    + rewrite (inv_closed s Hi Hc). cbn. exact Hmax.
    + rewrite Hd, <- (inv_size s Hi Hc). apply Hbd. exact Hc.
Qed.

(** ** eviction order *)

(** [evict] walks a prefix [l1] of the list while the size is above the limit, removes exactly the
    completed entries of that prefix, and stops as soon as the size fits (or the list ends) *)
Lemma evict_lru_first max : forall l sz z keep ev,
  evict max sz l = (z, keep, ev) ->
  exists l1 l2, l = l1 ++ l2 /\ ev = filter done l1 /\ keep = filter pending l1 ++ l2 /\
    z = sz - sum_sizes ev /\
    (forall a e b, l1 = a ++ e :: b -> max < sz - sum_sizes (filter done a)) /\
    (z <= max \/ l2 = []).
Proof.
  induction l as [|e r IH]; intros sz z keep ev H; cbn [evict] in H.
  - injection H as <- <- <-. exists [], []. cbn [app filter]. rewrite sum_nil.
    split; [reflexivity|]. split; [reflexivity|]. split; [reflexivity|]. split; [lia|]. split.
    + intros a e b Hab. destruct a; discriminate.
    + right. reflexivity.
  - destruct (max <? sz) eqn:Em.
    + apply Z.ltb_lt in Em. destruct (pending e) eqn:Ep.
      * destruct (evict max sz r) as [[z1 k1] e1] eqn:Er. injection H as <- <- <-.
        destruct (IH _ _ _ _ Er) as [l1 [l2 [A [B [C [D [E F]]]]]]]. exists (e :: l1), l2.
        cbn [app filter]. unfold done at 1. rewrite Ep. cbn [negb app].
        split; [congruence|]. split; [exact B|]. split; [congruence|]. split; [exact D|]. split; [|exact F].
        intros a x b Hab. destruct a as [|y a]; cbn [app filter] in *; [cbn; lia|].
        injection Hab as <- Hab. unfold done at 1. rewrite Ep. cbn [negb]. eapply E. exact Hab.
      * destruct (evict max (sz - esize e) r) as [[z1 k1] e1] eqn:Er. injection H as <- <- <-.
        destruct (IH _ _ _ _ Er) as [l1 [l2 [A [B [C [D [E F]]]]]]]. exists (e :: l1), l2.
        cbn [app filter]. unfold done at 1. rewrite Ep. cbn [negb app].
        split; [congruence|]. split; [congruence|]. split; [exact C|]. split; [rewrite sum_cons; lia|]. split; [|exact F].
        intros a x b Hab. destruct a as [|y a]; cbn [app filter] in *; [cbn; lia|].
        injection Hab as <- Hab. unfold done at 1. rewrite Ep. cbn [negb]. rewrite sum_cons.
        pose proof (E a x b Hab). lia.
    + injection H as <- <- <-. exists [], (e :: r). cbn [app filter]. rewrite sum_nil.
      split; [reflexivity|]. split; [reflexivity|]. split; [reflexivity|]. split; [lia|]. split.
      * intros a x b Hab. destruct a; discriminate.
      * left. apply Z.ltb_ge in Em. exact Em.
Qed.

(** the store as Update leaves it before the eviction walk *)
Definition pre_evict (g : cfg) (s : state) (k c : bytes) (v : msg) : option state :=
  match lookup k c (order s) with
  | Some e => Some (if pending e then commit g s k c v e else s)
  | None => None
  end.

Theorem update_lru_first g s k c v s1 :
  pre_evict g s k c v = Some s1 ->
  exists l1 l2, order s1 = l1 ++ l2 /\
    order (fst (update g s k c v)) = filter pending l1 ++ l2 /\
    size (fst (update g s k c v)) = size s1 - sum_sizes (filter done l1) /\
    (forall a e b, l1 = a ++ e :: b -> cmax g < size s1 - sum_sizes (filter done a)) /\
    (size (fst (update g s k c v)) <= cmax g \/ l2 = []).
Proof.
  unfold pre_evict. intro H. rewrite update_eq. destruct (lookup k c (order s)) as [e|]; [|discriminate].
  injection H as <-. set (s1 := if pending e then commit g s k c v e else s).
  unfold after_evict. destruct (evict (cmax g) (size s1) (order s1)) as [[z keep] ev] eqn:Ee.
  destruct (evict_lru_first _ _ _ _ _ _ Ee) as [l1 [l2 [A [B [C [D [E F]]]]]]].
  exists l1, l2. cbn [order size]. subst ev. repeat split; assumption.
Qed.
