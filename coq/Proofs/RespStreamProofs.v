(** streamTo (C29, byte level; last clause of C12): the writer receives exactly the payload a normal read
    returns, nil / error replies become errors, pushes are skipped, and the reply is consumed exactly
    -- also when the writer fails at an arbitrary byte. *)
From Coq Require Import List Arith NArith ZArith Bool Lia ZifyN ZifyNat ZifyBool.
Require Import RV.Model.Base RV.Model.RespWrite RV.Model.RespStream.
Require Import RV.Proofs.BinaryProofs RV.Proofs.RespWriteProofs RV.Proofs.RespIOProofs RV.Proofs.RespBaseProofs
               RV.Proofs.RespScalarProofs RV.Proofs.RespRoundtrip.
Import ListNotations.
Open Scope N_scope.

(** * programs with a writer compose; programs without writer operations leave the writer alone *)
Lemma runw_bind {A C} B (p : prog A) (f : A -> prog C) : forall s w,
  runw B (bind p f) s w = let '(a, s', w') := runw B p s w in runw B (f a) s' w'.
Proof.
  induction p as [a|o k IH]; intros s w; cbn [bind runw]; [reflexivity|].
  destruct (flatw_step B o s w) as [[r s'] w']. apply IH.
Qed.

Lemma runw_bind_eq {A C} B (p : prog A) (f : A -> prog C) s w a s' w' :
  runw B p s w = (a, s', w') -> runw B (bind p f) s w = runw B (f a) s' w'.
Proof. intros H. rewrite runw_bind, H. reflexivity. Qed.

Definition reader_op (o : op) : bool :=
  match o with OCopyOut _ | OWrite _ | OWriterErr => false | _ => true end.

Inductive reader_only {A} : prog A -> Prop :=
| ro_ret a : reader_only (Ret a)
| ro_op o k : reader_op o = true -> (forall r, reader_only (k r)) -> reader_only (Op o k).

Lemma runw_reader {A} B (p : prog A) : reader_only p -> forall s w al,
  runw B p s w = (fst (fst (run B p s al)), snd (fst (run B p s al)), w).
Proof.
  induction 1 as [a|o k Ho Hk IH]; intros s w al; cbn [runw run]; [reflexivity|].
  assert (E : flatw_step B o s w = (fst (flat_step B o s), snd (flat_step B o s), w)).
  { destruct o; try discriminate Ho; cbn [flatw_step]; destruct (flat_step B _ s); reflexivity. }
  rewrite E. destruct (flat_step B o s) as [r s']. cbn [fst snd]. apply IH.
Qed.

Lemma runw_reader_eq {A} B (p : prog A) s w al a s' al' : reader_only p ->
  run B p s al = (a, s', al') -> runw B p s w = (a, s', w).
Proof. intros Hp H. rewrite (runw_reader B p Hp s w al), H. reflexivity. Qed.

Lemma ro_bind {A C} (p : prog A) (f : A -> prog C) :
  reader_only p -> (forall a, reader_only (f a)) -> reader_only (bind p f).
Proof.
  induction 1 as [a|o k Ho Hk IH]; intros Hf; cbn [bind]; [apply Hf|].
  constructor; [assumption|]. intros r. now apply IH.
Qed.

Lemma ro_bindr {A C} (p : prog (result A)) (f : A -> prog (result C)) :
  reader_only p -> (forall a, reader_only (f a)) -> reader_only (bindr p f).
Proof. intros Hp Hf. apply ro_bind; [assumption|]. intros [a|e|]; [apply Hf|constructor|constructor]. Qed.

Lemma ro_do_op o : reader_op o = true -> reader_only (do_op o).
Proof. intros H. constructor; [assumption|]. intros r. constructor. Qed.

Lemma ro_alloc n : reader_only (alloc n).
Proof. constructor; [reflexivity|]. intros r. constructor. Qed.

Ltac ro :=
  repeat first
    [ apply ro_ret
    | apply ro_alloc
    | apply ro_do_op; reflexivity
    | apply ro_bindr; [|intros ?]
    | apply ro_bind; [|intros ?]
    | match goal with |- reader_only (if ?b then _ else _) => destruct b end
    | match goal with |- reader_only (match ?r with Ok _ => _ | Err _ => _ | Panic => _ end) => destruct r end ].

Lemma ro_alloc_make sz n : reader_only (alloc_make sz n).
Proof. unfold alloc_make. ro. Qed.

Lemma ro_grow n : reader_only (grow n).
Proof. unfold grow. ro. Qed.

Lemma ro_read_i : reader_only read_i.
Proof. unfold read_i. ro. Qed.

Lemma ro_read_s : reader_only read_s.
Proof. unfold read_s. ro. Qed.

Lemma ro_read_n_loop : forall fuel length n cap acc, reader_only (read_n_loop fuel length n cap acc).
Proof.
  induction fuel as [|f IH]; intros; cbn [read_n_loop]; [constructor|].
  apply ro_bind; [apply ro_do_op; reflexivity|]. intros [d|e|]; try constructor.
  destruct (cap =? length)%Z; [constructor|]. apply ro_bindr; [apply ro_alloc_make|]. intros _. apply IH.
Qed.

Lemma ro_read_n length : reader_only (read_n length).
Proof. unfold read_n. destruct (length <? 0)%Z; [constructor|]. apply ro_bindr; [apply ro_alloc_make|]. intros _. apply ro_read_n_loop. Qed.

Lemma ro_read_b : reader_only read_b.
Proof.
  unfold read_b. apply ro_bindr; [apply ro_read_i|]. intros length.
  destruct (length =? -1)%Z; [constructor|]. apply ro_bindr; [apply ro_read_n|]. intros bs. ro.
Qed.

Lemma ro_chunk_loop : forall fuel acc, reader_only (chunk_loop fuel acc).
Proof.
  induction fuel as [|f IH]; intros acc; cbn [chunk_loop]; [constructor|].
  apply ro_bindr; [apply ro_do_op; reflexivity|]. intros _.
  apply ro_bindr; [apply ro_read_i|]. intros length.
  destruct (length =? 0)%Z; [constructor|]. destruct (length <? 0)%Z; [constructor|].
  apply ro_bindr; [apply ro_grow|]. intros _.
  apply ro_bindr; [apply ro_do_op; reflexivity|]. intros d.
  apply ro_bind; [apply ro_alloc|]. intros _.
  apply ro_bindr; [apply ro_do_op; reflexivity|]. intros _. apply IH.
Qed.

Lemma ro_read_blob_string cf : reader_only (read_blob_string cf).
Proof.
  unfold read_blob_string. apply ro_bind; [apply ro_read_b|]. intros [bs|e|]; try constructor.
  destruct (e =? eChunked); [apply ro_chunk_loop|constructor].
Qed.

Lemma ro_read_boolean : reader_only read_boolean.
Proof. unfold read_boolean. ro. Qed.

Lemma ro_read_null : reader_only read_null.
Proof. unfold read_null. ro. Qed.

Lemma ro_fin_msg typ rn attrs r : (forall a, reader_only (rn a)) -> reader_only (fin_msg typ rn attrs r).
Proof.
  intros Hrn. unfold fin_msg. destruct r as [m|e|]; [|destruct (e =? eOldNull); constructor|constructor].
  destruct (typ =? tAttribute); [apply Hrn|constructor].
Qed.

Lemma ro_dispatch typ rn ral rel cf attrs :
  (forall a, reader_only (rn a)) -> (forall l n c acc, reader_only (ral l n c acc)) -> (forall acc, reader_only (rel acc)) ->
  reader_only (dispatch typ rn ral rel cf attrs).
Proof.
  intros Hrn Hral Hrel. unfold dispatch.
  assert (Hfin : forall r, reader_only (fin_msg typ rn attrs r)) by (intros r; now apply ro_fin_msg).
  assert (Hra : forall length, reader_only (read_a ral length)).
  { intros length. unfold read_a. destruct (length <? 0)%Z; [constructor|].
    apply ro_bindr; [apply ro_alloc_make|]. intros _. apply ro_bindr; [apply Hral|]. intros l. constructor. }
  assert (Hre : reader_only (read_e rel)).
  { unfold read_e. apply ro_bindr; [apply Hrel|]. intros l. constructor. }
  destruct (k_blob typ); [apply ro_bind; [apply ro_read_blob_string|intros r; apply Hfin]|].
  destruct (k_line typ); [apply ro_bind; [apply ro_read_s|intros r; apply Hfin]|].
  destruct (typ =? tInteger); [apply ro_bind; [apply ro_read_i|intros r; apply Hfin]|].
  destruct (k_null typ); [apply ro_bind; [apply ro_read_null|intros r; apply Hfin]|].
  destruct (typ =? tBool); [apply ro_bind; [apply ro_read_boolean|intros r; apply Hfin]|].
  destruct (k_array typ).
  { apply ro_bind; [apply ro_read_i|]. intros [length|e|]; [|destruct (e =? eChunked)|constructor].
    - destruct (length =? -1)%Z; [apply Hfin|]. apply ro_bind; [apply Hra|intros r; apply Hfin].
    - apply ro_bind; [apply Hre|intros r; apply Hfin].
    - apply Hfin. }
  destruct (k_map typ); [|constructor].
  apply ro_bind; [apply ro_read_i|]. intros [length|e|]; [|destruct (e =? eChunked)|constructor].
  - apply ro_bind; [apply Hra|intros r; apply Hfin].
  - apply ro_bind; [apply Hre|intros r; apply Hfin].
  - apply Hfin.
Qed.

Lemma ro_read_next : forall fuel,
  (forall a, reader_only (read_next fuel a)) /\
  (forall l n c acc, reader_only (read_a_loop fuel l n c acc)) /\
  (forall acc, reader_only (read_e_loop fuel acc)).
Proof.
  induction fuel as [|f (IH1 & IH2 & IH3)]; [repeat split; intros; constructor|].
  repeat split.
  - intros a. rewrite read_next_S. unfold read_next_body.
    apply ro_bindr; [apply ro_do_op; reflexivity|]. intros tb. now apply ro_dispatch.
  - intros l n c acc. rewrite read_a_loop_S.
    destruct (n =? l)%Z; [constructor|]. cbv zeta.
    assert (Hn : forall c', reader_only (bind (read_next f None) (fun r =>
               if (n <? c')%Z then match r with Ok m => read_a_loop f l (n + 1) c' (acc ++ [m]) | Err e => Ret (Err e) | Panic => Ret Panic end
               else Ret Panic))).
    { intros c'. apply ro_bind; [apply IH1|]. intros r. destruct (n <? c')%Z; [|constructor].
      destruct r; [apply IH2|constructor|constructor]. }
    destruct (n =? c)%Z; [|apply Hn]. apply ro_bindr; [apply ro_alloc_make|]. intros _. apply Hn.
  - intros acc. rewrite read_e_loop_S. apply ro_bindr; [apply IH1|]. intros m.
    destruct (m_typ m =? tEnd); [constructor|]. apply ro_bind; [apply ro_alloc|]. intros _. apply IH3.
Qed.

Lemma ro_dispatch_f typ f attrs :
  reader_only (dispatch typ (read_next f) (read_a_loop f) (read_e_loop f) f attrs).
Proof. destruct (ro_read_next f) as (H1 & H2 & H3). now apply ro_dispatch. Qed.

(** * unfolding streamTo *)
Lemma stream_to_S f : stream_to (S f) =
    bind (do_op OReadByte) (fun tb =>
      match tb with
      | Err e => Ret (0%Z, SErr e, false)
      | Panic => Ret (0%Z, SPanic, false)
      | Ok tb =>
        let typ := hd 0 tb in
        if k_stream_blob typ then
          bind read_i (fun r =>
            match r with
            | Ok n => stream_blob typ n
            | Err e =>
              if e =? eChunked then
                bind (stream_to f) (fun o => let '(nn, err, clean) := o in stream_chunks f 0%Z nn err clean)
              else Ret (0%Z, SErr e, false)
            | Panic => Ret (0%Z, SPanic, false)
            end)
        else
          bind (dispatch typ (read_next f) (read_a_loop f) (read_e_loop f) f None) (stream_msg (stream_to f))
      end).
Proof. reflexivity. Qed.

Lemma stream_chunks_S f n nn err clean : stream_chunks (S f) n nn err clean =
    let n := (n + nn)%Z in
    if negb (nn =? 0)%Z && clean && match err with SNone => true | _ => false end then
      bind (stream_to f) (fun o => let '(nn', err', clean') := o in stream_chunks f n nn' err' clean')
    else Ret (n, err, clean && match err with SNone => true | _ => false end).
Proof. reflexivity. Qed.

Lemma runw_stream_cons_blob B f t s w : k_stream_blob t = true ->
  runw B (stream_to (S f)) (t :: s) w =
  runw B (bind read_i (fun r =>
            match r with
            | Ok n => stream_blob t n
            | Err e =>
              if e =? eChunked then
                bind (stream_to f) (fun o => let '(nn, err, clean) := o in stream_chunks f 0%Z nn err clean)
              else Ret (0%Z, SErr e, false)
            | Panic => Ret (0%Z, SPanic, false)
            end)) s w.
Proof. intros H. rewrite stream_to_S. cbn [bind do_op runw flatw_step flat_step hd]. rewrite H. reflexivity. Qed.

Lemma runw_stream_cons_msg B f t s w : k_stream_blob t = false ->
  runw B (stream_to (S f)) (t :: s) w =
  runw B (bind (dispatch t (read_next f) (read_a_loop f) (read_e_loop f) f None) (stream_msg (stream_to f))) s w.
Proof. intros H. rewrite stream_to_S. cbn [bind do_op runw flatw_step flat_step hd]. rewrite H. reflexivity. Qed.

(** * the writer *)
Definition accepted (w : wstate) (d : bytes) : bytes := fst (w_write w d).

Lemma runw_write_out B d s w :
  runw B (write_out d) s w =
  ((zlen (accepted w d), (if w_failed (snd (w_write w d)) then SErr eWriter else SNone), true), s, snd (w_write w d)).
Proof.
  unfold write_out, accepted. cbn [bind do_op runw flatw_step].
  destruct (w_write w d) as [d' w']. cbn [fst snd runw flatw_step werr].
  destruct (w_failed w'); reflexivity.
Qed.

(** a writer with budget b on d: accepts min(b, |d|) bytes *)
Lemma w_write_spec b out fl d :
  let w := {| w_budget := b; w_out := out; w_failed := fl |} in
  let k := match b with None => length d | Some k => Nat.min (N.to_nat k) (length d) end in
  fst (w_write w d) = firstn k d /\
  w_out (snd (w_write w d)) = out ++ firstn k d /\
  w_failed (snd (w_write w d)) = match b with None => false | Some kk => (kk <? blen d) end.
Proof.
  cbv zeta. unfold w_write. cbn [w_budget w_out]. destruct b as [k|].
  - destruct (N.leb_spec (blen d) k) as [H|H]; cbn [fst snd w_out w_failed].
    + unfold blen in H. rewrite Nat.min_r by lia. rewrite firstn_all. repeat split.
      destruct (N.ltb_spec k (blen d)); [unfold blen in *; lia|reflexivity].
    + unfold blen in H. rewrite Nat.min_l by lia. repeat split.
      destruct (N.ltb_spec k (blen d)); [reflexivity|unfold blen in *; lia].
  - cbn [fst snd w_out w_failed]. rewrite firstn_all. repeat split.
Qed.

(** * reader steps inside streamTo *)
Lemma runw_read_i_nat B n rest w : (32 <= B)%nat -> (Z.of_N n < two63)%Z ->
  runw B read_i (dec n ++ crlf ++ rest) w = (Ok (Z.of_N n), rest, w).
Proof. intros HB Hn. apply (runw_reader_eq B read_i _ w 0 _ _ 0 ro_read_i). now apply run_read_i_nat. Qed.

Lemma runw_read_i_chunked B rest w : (32 <= B)%nat ->
  runw B read_i ([63] ++ crlf ++ rest) w = (Err eChunked, rest, w).
Proof. intros HB. apply (runw_reader_eq B read_i _ w 0 _ _ 0 ro_read_i). now apply run_read_i_chunked. Qed.

Lemma runw_read_i_minus1 B rest w : (32 <= B)%nat ->
  runw B read_i ([45; 49] ++ crlf ++ rest) w = (Ok (-1)%Z, rest, w).
Proof. intros HB. apply (runw_reader_eq B read_i _ w 0 _ _ 0 ro_read_i). now apply run_read_i_minus1. Qed.

Lemma runw_discard B k (pre rest : bytes) w : Z.of_nat (length pre) = k ->
  runw B (do_op (ODiscard k)) (pre ++ rest) w = (Ok [], rest, w).
Proof.
  intros H. apply (runw_reader_eq B _ _ w 0 _ _ 0); [apply ro_do_op; reflexivity|]. now apply run_discard.
Qed.

Lemma enc_cons v : exists t s, enc v = t :: s.
Proof.
  destruct v; cbn [enc app]; eauto.
  - destruct (t =? tNull); cbn [app]; eauto.
  - unfold agg_header. destruct streamed; cbn [app]; eauto.
  - unfold agg_header. destruct streamed; cbn [app]; eauto.
Qed.

(** the default branch: readNextMessage decodes the reply, then [stream_msg] *)
Lemma runw_stream_default B (HB : (32 <= B)%nat) f v t s rest w :
  wf v = true -> (cost v <= S f)%nat -> enc v = t :: s -> k_stream_blob t = false ->
  runw B (stream_to (S f)) (enc v ++ rest) w = runw B (stream_msg (stream_to f) (Ok (abs v))) rest w.
Proof.
  intros Hwf Hf He Hk.
  destruct (read_next_roundtrip B HB v Hwf (S f) None rest 0 Hf) as [al' E].
  rewrite read_next_S, He in E. cbn [app] in E. rewrite run_body_cons in E. rewrite abs_with_none in E.
  rewrite He. cbn [app]. rewrite runw_stream_cons_msg by assumption.
  rewrite (runw_bind_eq B _ _ _ _ _ _ _ (runw_reader_eq B _ _ w 0 _ _ _ (ro_dispatch_f t f None) E)).
  reflexivity.
Qed.

