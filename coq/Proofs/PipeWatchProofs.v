(** The blocking-command signal is exact, and the keep-alive watchdog can fail a silent connection. *)
From Coq Require Import List NArith ZArith Bool Arith Lia.
Require Import RV.Model.Base RV.Model.PipeQueue RV.Model.Pipe RV.Model.PipeLts RV.Model.PipeWatch.
Require Import RV.Proofs.PipeLtsBasics RV.Proofs.PipeExclusive RV.Proofs.PipeLifecycle RV.Proofs.PipeCtx.
Import ListNotations.
Open Scope N_scope.

Lemma bsum_sumf s : bsum s = sumf (fun t => bholds (p_calls s t)) (p_tids s).
Proof. unfold bsum. induction (p_tids s) as [|a l IH]; cbn; [reflexivity|]. now rewrite IH. Qed.

Lemma bsum_same s s' :
  p_tids s' = p_tids s -> (forall u, bholds (p_calls s' u) = bholds (p_calls s u)) -> bsum s' = bsum s.
Proof. intros e1 e2. rewrite !bsum_sumf, e1. apply sumf_ext. intros x _. apply e2. Qed.

Lemma bsum_upd s s' t c' :
  InvA s -> In t (p_tids s) -> p_tids s' = p_tids s -> (forall u, p_calls s' u = upd (p_calls s) t c' u) ->
  (bsum s' + bholds (p_calls s t) = bsum s + bholds c')%nat.
Proof.
  intros I Hin e1 e2. rewrite !bsum_sumf, e1.
  rewrite (sumf_ext (fun u => bholds (p_calls s' u)) (fun u => bholds (upd (p_calls s) t c' u))) by (intros; now rewrite e2).
  apply (sumf_upd_in bholds (p_calls s) t c' (p_tids s) (a_nodup s I) Hin).
Qed.

Lemma bsum_add s s' t c' :
  ~ In t (p_tids s) -> p_tids s' = t :: p_tids s -> (forall u, p_calls s' u = upd (p_calls s) t c' u) ->
  bholds c' = 0%nat -> bsum s' = bsum s.
Proof.
  intros Hn e1 e2 e3. rewrite !bsum_sumf, e1. cbn [sumf]. rewrite e2, upd_same, e3. cbn.
  rewrite (sumf_ext (fun u => bholds (p_calls s' u)) (fun u => bholds (upd (p_calls s) t c' u))) by (intros; now rewrite e2).
  apply sumf_upd_notin. exact Hn.
Qed.

(** bholds only looks at these *)
Lemma bholds_core c c' :
  k_cmds c' = k_cmds c -> k_donestart c' = k_donestart c -> pcl (k_pc c') = pcl (k_pc c) -> k_ret c' = k_ret c ->
  bholds c' = bholds c.
Proof. intros e1 e2 e3 e4. unfold bholds, blocking. now rewrite e1, e2, e3, e4. Qed.

Lemma blocking_errs c e : blocking c = true -> all_replies (errs_for c e) = false.
Proof.
  unfold blocking, errs_for, all_replies. destruct (k_cmds c) as [|x r]; [discriminate|]. reflexivity.
Qed.

Lemma bsum_same_ctl s s' : same_ctl s s' -> bsum s' = bsum s.
Proof.
  intros H. unfold same_ctl in H. destruct H as (_&_&_&_&_&_&_&_&_&_&_&_&Et&_&_&_&_&Hc).
  apply bsum_same; [exact Et|]. intros u. destruct (Hc u) as (a&_&b&_&_&_&c&_&d). apply bholds_core; auto. now rewrite a.
Qed.

Lemma calls_dobg s : p_calls (do_background s) = p_calls s.
Proof. unfold do_background. destruct (p_bg s); reflexivity. Qed.
Lemma tids_dobg s : p_tids (do_background s) = p_tids s.
Proof. unfold do_background. destruct (p_bg s); reflexivity. Qed.

(** pointwise: the record of one caller is replaced by one with the same core *)
Lemma bsum_set_same s s' t c' :
  p_tids s' = p_tids s -> (forall u, p_calls s' u = upd (p_calls s) t c' u) -> bholds c' = bholds (p_calls s t) ->
  bsum s' = bsum s.
Proof.
  intros e1 e2 e3. apply bsum_same; [exact e1|]. intros u. rewrite e2. unfold upd.
  destruct (N.eqb u t) eqn:E; [apply N.eqb_eq in E; subst; exact e3|reflexivity].
Qed.

Lemma bsum_ext s s' : p_tids s' = p_tids s -> p_calls s' = p_calls s -> bsum s' = bsum s.
Proof. intros e1 e2. apply bsum_same; [exact e1|]. intros u. now rewrite e2. Qed.

(** the record of caller t is replaced in a state that has the calls and thread ids of s *)
Lemma bsum_set0 s s0 t c' :
  p_tids s0 = p_tids s -> p_calls s0 = p_calls s -> bholds c' = bholds (p_calls s t) -> bsum (set_call s0 t c') = bsum s.
Proof.
  intros e1 e2 e3. apply (bsum_set_same s _ t c'); [exact e1| |exact e3]. intros u. cbn. now rewrite e2.
Qed.

Lemma bsum_set0_upd s s0 t c' :
  InvA s -> In t (p_tids s) -> p_tids s0 = p_tids s -> p_calls s0 = p_calls s ->
  (bsum (set_call s0 t c') + bholds (p_calls s t) = bsum s + bholds c')%nat.
Proof.
  intros I Hin e1 e2. apply (bsum_upd s _ t c' I Hin); [exact e1|]. intros u. cbn. now rewrite e2.
Qed.

Ltac rw_pc := repeat match goal with H : k_pc (p_calls _ _) = _ |- _ => rewrite H end.
Ltac core_same := apply bholds_core; cbn; rw_pc; reflexivity.
Ltac dobg := rewrite ?tids_dobg, ?calls_dobg; cbn; rewrite ?tids_dobg, ?calls_dobg; reflexivity.

(** a call that is in flight counts iff it is blocking *)
Lemma bholds_inflight c : pcl (k_pc c) = InFlight -> k_donestart c = false ->
  bholds c = if blocking c then 1%nat else 0%nat.
Proof. intros e1 e3. unfold bholds. rewrite e1, e3. destruct (blocking c); reflexivity. Qed.

Lemma bholds_ret c r : k_donestart c = false ->
  bholds (with_ret c r) = if blocking c && negb (all_replies r) then 1%nat else 0%nat.
Proof. intros e. unfold bholds, blocking. cbn. rewrite e. destruct (existsb c_block (k_cmds c)); cbn; reflexivity. Qed.

Lemma nds s t : InvS s -> k_pc (p_calls s t) <> PRet -> k_donestart (p_calls s t) = false.
Proof. intros IS H. destruct (k_donestart (p_calls s t)) eqn:E; [|reflexivity]. exfalso. apply H. apply (s_start s IS t E). Qed.

Lemma bsum_step g s l s' : InvA s -> InvS s -> pstep g s l = Some s' -> bsum s' = blk_after s l (bsum s) s'.
Proof.
  intros I IS H. destruct l; cbn [pstep] in H; cbn [blk_after].
  all: try (break_step H; inversion H; subst; clear H).
  all: try reflexivity.
  all: try solve [apply bsum_same; [reflexivity|intros u; reflexivity]].
  all: try solve [apply bsum_ext; dobg].
  all: try solve [apply bsum_set0; [dobg|dobg|core_same]].
  all: try solve [destruct n; (apply bsum_set0; [dobg|dobg|core_same])].
  - (* LCall *)
    apply andb_true_iff in E as [E _]. apply andb_true_iff in E as [E _]. apply andb_true_iff in E as [E _].
    destruct (fresh_notin _ _ E) as [Hn _].
    eapply bsum_add; [exact Hn|reflexivity|intros u; reflexivity|unfold bholds; cbn; now rewrite andb_false_r].
  - (* LIncr, context already done *)
    rewrite andb_false_r. apply bsum_set0; [reflexivity|reflexivity|].
    unfold bholds, blocking; cbn; rw_pc; cbn.
    destruct (existsb c_block (k_cmds (p_calls s t))); destruct (k_donestart (p_calls s t)); reflexivity.
  - (* LIncr *)
    assert (Hin : In t (p_tids s)) by (apply in_tids_pc; [assumption|congruence]).
    assert (Hd : k_donestart (p_calls s t) = false) by (apply nds; [assumption|congruence]).
    pose proof (bsum_set0_upd s (set_waits s (S (p_waits s))) t (with_pc (p_calls s t) (PLoad (S (p_waits s)))) I Hin eq_refl eq_refl) as K.
    assert (K0 : bholds (p_calls s t) = 0%nat).
    { unfold bholds. rw_pc. cbn. now rewrite andb_false_r. }
    rewrite K0, (bholds_inflight (with_pc (p_calls s t) (PLoad (S (p_waits s))))) in K by (cbn; auto).
    change (blocking (with_pc (p_calls s t) (PLoad (S (p_waits s))))) with (blocking (p_calls s t)) in K.
    rewrite andb_true_r. destruct (blocking (p_calls s t)); lia.
  - (* LSyncFail *)
    apply bsum_set0; [dobg|dobg|]. apply bholds_core; cbn; try reflexivity.
    apply andb_true_iff in E as [E _]. destruct (k_pc (p_calls s t)); try discriminate; reflexivity.
  - (* LDecr: background() comes first *)
    cbn. rewrite upd_same. cbn. apply bsum_set0; [reflexivity|reflexivity|core_same].
  - (* LDecr: returns *)
    cbn [p_calls set_call set_calls]. rewrite upd_same. cbn [k_pc k_ret with_ret].
    assert (Hin : In t (p_tids s)) by (apply in_tids_pc; [assumption|congruence]).
    assert (Hd : k_donestart (p_calls s t) = false) by (apply nds; [assumption|congruence]).
    pose proof (bsum_set0_upd s (set_waits s (pred (p_waits s))) t (with_ret (p_calls s t) (k_res (p_calls s t))) I Hin eq_refl eq_refl) as K.
    rewrite (bholds_ret _ _ Hd), (bholds_inflight (p_calls s t)) in K by (rw_pc; auto).
    destruct (blocking (p_calls s t)); destruct (all_replies (k_res (p_calls s t))); cbn in *; lia.
  - (* LPutFail *)
    assert (Hd : k_donestart (p_calls s t) = false) by (apply nds; [assumption|congruence]).
    apply bsum_set0; [reflexivity|reflexivity|].
    rewrite (bholds_ret _ _ Hd), (bholds_inflight (p_calls s t)) by (rw_pc; auto).
    destruct (blocking (p_calls s t)) eqn:B; [rewrite (blocking_errs _ _ B)|]; reflexivity.
  - (* LAbort *)
    assert (Hd : k_donestart (p_calls s t) = false) by (apply nds; [assumption|congruence]).
    apply bsum_set0; [reflexivity|reflexivity|].
    transitivity (bholds (with_ret (p_calls s t) (errs_for (p_calls s t) ECtx))); [apply bholds_core; reflexivity|].
    rewrite (bholds_ret _ _ Hd), (bholds_inflight (p_calls s t)) by (rw_pc; auto).
    destruct (blocking (p_calls s t)) eqn:B; [rewrite (blocking_errs _ _ B)|]; reflexivity.
  - (* LFin *)
    cbn [p_calls set_call set_calls]. rewrite upd_same. cbn [k_pc k_ret with_ret].
    assert (Hin : In t (p_tids s)) by (apply in_tids_pc; [assumption|congruence]).
    assert (Hd : k_donestart (p_calls s t) = false) by (apply nds; [assumption|congruence]).
    pose proof (bsum_set0_upd s (set_waits s (pred (p_waits s))) t (with_ret (p_calls s t) (k_res (p_calls s t))) I Hin eq_refl eq_refl) as K.
    rewrite (bholds_ret _ _ Hd), (bholds_inflight (p_calls s t)) in K by (rw_pc; auto).
    destruct (blocking (p_calls s t)); destruct (all_replies (k_res (p_calls s t))); cbn in *; lia.
  - (* LRStep *)
    transitivity (bsum (fold_left (apply_act (r_owner r0) (r_resps r0)) l0 (set_wire s (p_c2s s) l))); [apply bsum_ext; reflexivity|].
    rewrite (bsum_same_ctl _ _ (fold_apply_same_ctl _ _ _ _)). apply bsum_ext; reflexivity.
  - (* LRFail *)
    destruct b.
    + transitivity (bsum (set_call s (r_owner r) (with_comp (with_res (p_calls s (r_owner r))
          (k_res (p_calls s (r_owner r)) ++ map (fun _ : nat => RErr match p_err s with Some e => e | None => EConn end)
             (if r_resps r then l else [0%nat]))) true))); [apply bsum_ext; reflexivity|].
      apply bsum_set0; [reflexivity|reflexivity|apply bholds_core; reflexivity].
    + apply bsum_ext; reflexivity.
  - (* LPostPing *)
    apply andb_true_iff in E0 as [_ E0]. destruct (fresh_notin _ _ E0) as [Hn _].
    eapply bsum_add; [exact Hn|reflexivity|intros u; reflexivity|reflexivity].
  - (* LClose4 *)
    destruct (fresh_notin _ _ E2) as [Hn _].
    eapply bsum_add; [exact Hn|reflexivity|intros u; reflexivity|reflexivity].
Qed.

(** ** the extended LTS *)
Record InvK (ws : wstate) : Prop := mkInvK {
  k_a : InvA (w_p ws);
  k_s : InvS (w_p ws);
  k_blk : w_blk ws = bsum (w_p ws)
}.

Lemma invk_init g : InvK (w_init g).
Proof. constructor; cbn; [apply inva_init|apply invs_init|reflexivity]. Qed.

Lemma invk_step g ws wl ws' : InvK ws -> wstep g ws wl = Some ws' -> InvK ws'.
Proof.
  intros [IA IS Hb] H. destruct wl; cbn [wstep] in H.
  - destruct (pstep g (w_p ws) l) as [s'|] eqn:E; [|discriminate]. inversion H; subst; clear H. constructor; cbn.
    + eapply inva_step; eauto.
    + eapply invs_step; eauto.
    + rewrite Hb. symmetry. apply (bsum_step g); assumption.
  - break_step H. inversion H; subst; clear H. constructor; cbn; assumption.
  - break_step H. inversion H; subst; clear H. constructor; cbn; assumption.
  - destruct (w_wd ws); [|discriminate]. destruct (Nat.eqb (w_blk ws) 0).
    + destruct (pstep g (w_p ws) LExtExit) as [s'|] eqn:E; [|discriminate]. inversion H; subst; clear H. constructor; cbn.
      * eapply inva_step; eauto.
      * eapply invs_step; eauto.
      * rewrite Hb. pose proof (bsum_step g _ _ _ IA IS E) as K. cbn [blk_after] in K. now rewrite K.
    + inversion H; subst; clear H. constructor; cbn; assumption.
Qed.

Theorem invk_run g sched : forall ws ws', InvK ws -> wrun g sched ws = Some ws' -> InvK ws'.
Proof.
  induction sched as [|l r IH]; intros ws ws' I H; cbn [wrun] in H.
  - inversion H; subst; assumption.
  - destruct (wstep g ws l) as [ws1|] eqn:E; [|discriminate]. eapply IH; [|exact H]. eapply invk_step; eauto.
Qed.

(** every state of the extended LTS is a state of the pipe LTS (the watchdog's _exit is [LExtExit]) *)
Lemma wstep_base g ws wl ws' : wstep g ws wl = Some ws' ->
  w_p ws' = w_p ws \/ exists l, pstep g (w_p ws) l = Some (w_p ws').
Proof.
  intros H. destruct wl; cbn [wstep] in H.
  - destruct (pstep g (w_p ws) l) as [s'|] eqn:E; [|discriminate]. inversion H; subst. right. exists l. exact E.
  - break_step H. inversion H; subst. now left.
  - break_step H. inversion H; subst. now left.
  - destruct (w_wd ws); [|discriminate]. destruct (Nat.eqb (w_blk ws) 0).
    + destruct (pstep g (w_p ws) LExtExit) as [s'|] eqn:E; [|discriminate]. inversion H; subst. right. exists LExtExit. exact E.
    + inversion H; subst. now left.
Qed.

Lemma prun_app g a : forall b s s1 s2, prun g a s = Some s1 -> prun g b s1 = Some s2 -> prun g (a ++ b) s = Some s2.
Proof.
  induction a as [|l r IH]; intros b s s1 s2 H1 H2; cbn in *.
  - inversion H1; subst. exact H2.
  - destruct (pstep g s l); [|discriminate]. eapply IH; eauto.
Qed.

Theorem wrun_base g sched : forall ws ws' base, prun g base (p_init g) = Some (w_p ws) -> wrun g sched ws = Some ws' ->
  exists base', prun g base' (p_init g) = Some (w_p ws').
Proof.
  induction sched as [|l r IH]; intros ws ws' base Hb H; cbn [wrun] in H.
  - inversion H; subst. eauto.
  - destruct (wstep g ws l) as [ws1|] eqn:E; [|discriminate].
    destruct (wstep_base g ws l ws1 E) as [K|[l0 K]].
    + eapply (IH ws1 ws' base); [rewrite K; exact Hb|exact H].
    + eapply (IH ws1 ws' (base ++ [l0])); [|exact H]. eapply prun_app; [exact Hb|]. cbn. now rewrite K.
Qed.

(** blcksig is exact; it is 0 as soon as no blocking call is in flight and none was abandoned on this pipe *)
Theorem blcksig_exact g sched ws : wrun g sched (w_init g) = Some ws -> w_blk ws = bsum (w_p ws).
Proof. intros H. apply (k_blk ws). eapply invk_run; [apply invk_init|exact H]. Qed.

Lemma bsum_zero s : (forall t, In t (p_tids s) -> bholds (p_calls s t) = 0%nat) -> bsum s = 0%nat.
Proof.
  intros H. rewrite bsum_sumf. induction (p_tids s) as [|a l IH]; [reflexivity|]. cbn.
  rewrite (H a (or_introl eq_refl)), IH; [reflexivity|]. intros t Ht. apply H. now right.
Qed.

Lemma bholds_01 c : bholds c = 0%nat \/ bholds c = 1%nat.
Proof. unfold bholds. destruct (_ && _ && _); auto. Qed.

Theorem blcksig_zero g sched ws : wrun g sched (w_init g) = Some ws -> ~ blocked_or_aborted (w_p ws) -> w_blk ws = 0%nat.
Proof.
  intros H Hn. rewrite (blcksig_exact g sched ws H). apply bsum_zero. intros t Ht.
  destruct (bholds_01 (p_calls (w_p ws) t)) as [K|K]; [exact K|]. exfalso. apply Hn. exists t. auto.
Qed.

(** the watchdog can fail a connection that is pipelining (or idle) and has no error yet, whenever no blocking call is
    in flight: its tick is enabled, and if the PING is not answered in time the connection is closed and the error
    latched, which hands the pending calls over to the drain of C04 *)
Theorem watchdog_enabled g sched ws :
  wrun g sched (w_init g) = Some ws -> ~ blocked_or_aborted (w_p ws) ->
  p_err (w_p ws) = None -> (p_st (w_p ws) = 0 -> p_waits (w_p ws) = 0%nat) ->
  exists path ws', (path = [WTick; WTimeout] \/ path = [WTimeout]) /\ wrun g path ws = Some ws' /\
                   p_err (w_p ws') = Some EWatchdog /\ p_conn (w_p ws') = false /\ p_st (w_p ws') <> 1 /\
                   p_calls (w_p ws') = p_calls (w_p ws) /\ p_q (w_p ws') = p_q (w_p ws) /\ p_waits (w_p ws') = p_waits (w_p ws).
Proof.
  intros H Hn He Hst. pose proof (blcksig_zero g sched ws H Hn) as Hb.
  assert (Hg : negb (N.eqb (p_st (w_p ws)) 0 && negb (Nat.eqb (p_waits (w_p ws)) 0)) = true).
  { destruct (N.eqb (p_st (w_p ws)) 0) eqn:E0; [|reflexivity]. apply N.eqb_eq in E0. rewrite (Hst E0). reflexivity. }
  assert (Hx : forall ws0, w_p ws0 = w_p ws -> w_blk ws0 = 0%nat -> w_wd ws0 = true ->
               exists ws', wstep g ws0 WTimeout = Some ws' /\
                   p_err (w_p ws') = Some EWatchdog /\ p_conn (w_p ws') = false /\ p_st (w_p ws') <> 1 /\
                   p_calls (w_p ws') = p_calls (w_p ws) /\ p_q (w_p ws') = p_q (w_p ws) /\ p_waits (w_p ws') = p_waits (w_p ws)).
  { intros ws0 e1 e2 e3. cbn [wstep]. rewrite e3, e2. cbn. eexists. split; [reflexivity|]. cbn. rewrite e1, He.
    repeat split; auto. destruct (N.eqb (p_st (w_p ws)) 1) eqn:E1; [discriminate|]. now apply N.eqb_neq in E1. }
  destruct (w_wd ws) eqn:Ew.
  - destruct (Hx ws eq_refl Hb Ew) as (ws'&K&R). exists [WTimeout], ws'. split; [now right|]. split; [|exact R].
    cbn [wrun]. now rewrite K.
  - destruct (Hx (mkW (w_p ws) (w_blk ws) true) eq_refl Hb eq_refl) as (ws'&K&R).
    exists [WTick; WTimeout], ws'. split; [now left|]. split; [|exact R].
    cbn [wrun]. assert (T : wstep g ws WTick = Some (mkW (w_p ws) (w_blk ws) true)).
    { cbn [wstep]. rewrite Ew, Hb, Hg, He. reflexivity. }
    rewrite T, K. reflexivity.
Qed.
