(** Decimal printing and parsing are inverse: parse_int10 (print_Z z) = Some z, parse_uint10 (print_N n) = Some n. *)
From Coq Require Import String List NArith ZArith Bool Lia Arith ZifyN ZifyNat ZifyBool.
Require Import RV.Model.Base RV.Model.AccBase.
Import ListNotations.
Open Scope N_scope.

Lemma digits_val_app s1 : forall s2 a,
  digits_val a (s1 ++ s2) = match digits_val a s1 with Some x => digits_val x s2 | None => None end.
Proof.
  induction s1 as [|c r IH]; intros s2 a; cbn [app digits_val]; [reflexivity|].
  destruct (is_digit c); [apply IH|reflexivity].
Qed.

Lemma print_fuel_app : forall f n acc, print_nat_fuel f n acc = print_nat_fuel f n [] ++ acc.
Proof.
  induction f as [|f IH]; intros n acc; cbn [print_nat_fuel]; [reflexivity|].
  destruct (n <? 10); [reflexivity|].
  rewrite IH, (IH _ [_]). now rewrite <- app_assoc.
Qed.

Lemma is_digit_48 d : d < 10 -> is_digit (48 + d) = true.
Proof. intro H. unfold is_digit. apply andb_true_iff. split; apply N.leb_le; lia. Qed.

Lemma print_fuel_val : forall f n, n < 10 ^ N.of_nat f -> (0 < f)%nat ->
  digits_val 0 (print_nat_fuel f n []) = Some n /\
  print_nat_fuel f n [] <> [] /\ Forall (fun c => is_digit c = true) (print_nat_fuel f n []).
Proof.
  induction f as [|f IH]; intros n Hn Hf; [lia|].
  cbn [print_nat_fuel]. destruct (N.ltb_spec n 10) as [H|H].
  - rewrite N.mod_small by exact H. cbn [digits_val]. rewrite is_digit_48 by exact H.
    repeat split; [f_equal; lia|discriminate|]. constructor; [now apply is_digit_48|constructor].
  - rewrite print_fuel_app.
    assert (Hq : n / 10 < 10 ^ N.of_nat f).
    { rewrite Nat2N.inj_succ, N.pow_succ_r' in Hn. apply N.div_lt_upper_bound; lia. }
    assert (Hf' : (0 < f)%nat).
    { destruct f; [|lia]. cbn in Hq. assert (1 <= n / 10) by (apply N.div_le_lower_bound; lia). lia. }
    destruct (IH (n / 10) Hq Hf') as (V & NE & D).
    assert (Hd : n mod 10 < 10) by (apply N.mod_lt; lia).
    repeat split.
    + rewrite digits_val_app, V. cbn [digits_val]. rewrite is_digit_48 by exact Hd.
      f_equal. pose proof (N.div_mod n 10 ltac:(lia)). lia.
    + intro E. apply app_eq_nil in E. destruct E as [_ E]. discriminate.
    + apply Forall_app. split; [exact D|]. constructor; [now apply is_digit_48|constructor].
Qed.

Lemma pow10_log2 n : n < 10 ^ N.of_nat (S (N.to_nat (N.log2 n))).
Proof.
  destruct (N.eq_dec n 0) as [->|Hn]; [cbn; lia|].
  pose proof (N.log2_spec n ltac:(lia)) as [_ H].
  eapply N.lt_le_trans; [exact H|].
  rewrite <- N.add_1_r.
  replace (N.of_nat (S (N.to_nat (N.log2 n)))) with (N.log2 n + 1) by lia.
  apply N.pow_le_mono_l. lia.
Qed.

Theorem print_N_spec n :
  digits_val 0 (print_N n) = Some n /\ print_N n <> [] /\ Forall (fun c => is_digit c = true) (print_N n).
Proof. unfold print_N. apply print_fuel_val; [apply pow10_log2|lia]. Qed.

Theorem parse_print_uint n : n <= uint64_max -> parse_uint10 (print_N n) = Some n.
Proof.
  intro H. destruct (print_N_spec n) as (V & NE & _). unfold parse_uint10.
  destruct (print_N n) as [|c r] eqn:E; [contradiction|]. rewrite V.
  destruct (N.leb_spec n uint64_max); [reflexivity|lia].
Qed.

Lemma digit_not_sign c : is_digit c = true -> (c =? 45) = false /\ (c =? 43) = false.
Proof. unfold is_digit. intro H. apply andb_true_iff in H. destruct H as [H1 H2]. apply N.leb_le in H1. split; apply N.eqb_neq; lia. Qed.

Theorem parse_print_int z : (int64_min <= z <= int64_max)%Z -> parse_int10 (print_Z z) = Some z.
Proof.
  intro H. unfold parse_int10, print_Z. destruct z as [|p|p].
  - reflexivity.
  - destruct (print_N_spec (Z.to_N (Z.pos p))) as (V & NE & D).
    destruct (print_N (Z.to_N (Z.pos p))) as [|c r] eqn:E; [contradiction|].
    inversion D as [|? ? Dc _]; subst. destruct (digit_not_sign c Dc) as [-> ->].
    rewrite V. cbn [Z.to_N]. unfold int64_min, int64_max in *.
    replace ((-9223372036854775808 <=? Z.of_N (N.pos p))%Z && (Z.of_N (N.pos p) <=? 9223372036854775807)%Z) with true; [reflexivity|].
    symmetry. apply andb_true_iff. split; apply Z.leb_le; lia.
  - cbn [N.eqb Pos.eqb]. destruct (print_N_spec (N.pos p)) as (V & NE & D).
    destruct (print_N (N.pos p)) as [|c r] eqn:E; [contradiction|]. rewrite V.
    unfold int64_min, int64_max in *.
    replace ((-9223372036854775808 <=? - Z.of_N (N.pos p))%Z && (- Z.of_N (N.pos p) <=? 9223372036854775807)%Z) with true; [reflexivity|].
    symmetry. apply andb_true_iff. split; apply Z.leb_le; lia.
Qed.

Lemma print_Z_nonempty z : print_Z z <> [].
Proof.
  unfold print_Z. destruct z; try discriminate; apply print_N_spec.
Qed.
