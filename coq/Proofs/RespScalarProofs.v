(** Readers of lines, integers, length-prefixed payloads: what they return on the bytes the
    specification's encoder writes. *)
From Coq Require Import List Arith NArith ZArith Bool Lia ZifyN ZifyNat ZifyBool.
Require Import RV.Model.Base RV.Model.RespWrite RV.Model.Resp.
Require Import RV.Proofs.BinaryProofs RV.Proofs.RespWriteProofs RV.Proofs.RespIOProofs RV.Proofs.RespBaseProofs RV.Proofs.RespMsgProofs.
Import ListNotations.
Open Scope N_scope.

(** * lines *)

Lemma find_lf_nolf_app a r : no_lf a = true -> find_lf (a ++ 10 :: r) = Some (length a).
Proof.
  induction a as [|x a IH]; intros H; cbn [app find_lf length].
  - reflexivity.
  - cbn [no_lf forallb] in H. apply andb_true_iff in H as [Hx Ha].
    unfold LFb. destruct (N.eqb_spec x 10) as [->|_]; [discriminate|].
    fold (no_lf a) in Ha. now rewrite (IH Ha).
Qed.

Lemma no_lf_app a b : no_lf (a ++ b) = no_lf a && no_lf b.
Proof. unfold no_lf. apply forallb_app. Qed.

Lemma find_lf_line ds rest : no_lf ds = true -> find_lf (ds ++ crlf ++ rest) = Some (S (length ds)).
Proof.
  intros H. unfold crlf, CR, LF. cbn [app].
  replace (ds ++ 13 :: 10 :: rest) with ((ds ++ [13]) ++ 10 :: rest) by (now rewrite <- app_assoc).
  rewrite find_lf_nolf_app; [rewrite app_length; cbn; f_equal; lia|].
  rewrite no_lf_app, H. reflexivity.
Qed.

Lemma firstn_line ds rest : firstn (S (S (length ds))) (ds ++ crlf ++ rest) = ds ++ crlf.
Proof.
  rewrite app_assoc. replace (S (S (length ds))) with (length (ds ++ crlf)) by (rewrite app_length; cbn; lia).
  apply firstn_app_exact.
Qed.

Lemma skipn_line ds rest : skipn (S (S (length ds))) (ds ++ crlf ++ rest) = rest.
Proof.
  rewrite app_assoc. replace (S (S (length ds))) with (length (ds ++ crlf)) by (rewrite app_length; cbn; lia).
  apply skipn_app_exact.
Qed.

Lemma step_read_slice_line B ds rest : no_lf ds = true -> (length ds + 2 <= B)%nat ->
  flat_step B OReadSlice (ds ++ crlf ++ rest) = (Ok (ds ++ crlf), rest).
Proof.
  intros Hn HB. cbn [flat_step].
  assert (E : find_lf (firstn B (ds ++ crlf ++ rest)) = Some (S (length ds))).
  { rewrite app_assoc. rewrite firstn_app.
    apply find_lf_app_some. rewrite firstn_all2 by (rewrite app_length; cbn; lia).
    rewrite <- (app_nil_r (ds ++ crlf)), <- app_assoc. now apply find_lf_line. }
  rewrite E. now rewrite firstn_line, skipn_line.
Qed.

Lemma step_read_bytes_line B ds rest : no_lf ds = true ->
  flat_step B OReadBytes (ds ++ crlf ++ rest) = (Ok (ds ++ crlf), rest).
Proof. intros Hn. cbn [flat_step]. rewrite find_lf_line by assumption. now rewrite firstn_line, skipn_line. Qed.

(** * decimal numerals *)

Lemma is_dig_digit c : is_dig c = is_digit c.
Proof. reflexivity. Qed.

Lemma dval_ge ds : forall a, a <= dval ds a.
Proof. induction ds as [|d r IH]; intros a; cbn [dval]; [lia|]. specialize (IH (a * 10 + (d - 48))). lia. Qed.

Lemma digits_loop_dval : forall ds v,
  Forall (fun d => is_digit d = true) ds -> (0 <= v)%Z ->
  (Z.of_N (dval ds (Z.to_N v)) < two63)%Z ->
  digits_loop ds v = Ok (Z.of_N (dval ds (Z.to_N v))).
Proof.
  induction ds as [|d r IH]; intros v Hd Hv Hb.
  - cbn. f_equal. lia.
  - inversion Hd as [|? ? Hd1 Hd2]; subst. cbn [digits_loop dval].
    rewrite is_dig_digit, Hd1.
    apply is_digit_spec in Hd1.
    cbn [dval] in Hb.
    pose proof (dval_ge r (Z.to_N v * 10 + (d - 48))) as Hge.
    assert (E : wrap64 (v * 10 + Z.of_N (d - 48)) = (v * 10 + Z.of_N (d - 48))%Z).
    { apply wrap64_small_z. unfold two63 in *. lia. }
    rewrite E. rewrite IH; try assumption; try lia.
    + do 2 f_equal. f_equal. lia.
    + replace (Z.to_N (v * 10 + Z.of_N (d - 48))) with (Z.to_N v * 10 + (d - 48)) by lia. exact Hb.
Qed.

Lemma no_lf_digits ds : Forall (fun d => is_digit d = true) ds -> no_lf ds = true.
Proof.
  induction 1 as [|d r Hd Hr IH]; [reflexivity|]. cbn [no_lf forallb]. fold (no_lf r). rewrite IH.
  apply is_digit_spec in Hd. destruct (N.eqb_spec d 10); [lia|reflexivity].
Qed.

(** number of digits *)
Lemma dec_aux_len : forall fuel n acc k, n < 10 ^ N.of_nat (S k) ->
  (length (dec_aux fuel n acc) <= S k + length acc)%nat.
Proof.
  induction fuel as [|f IH]; intros n acc k Hn; cbn [dec_aux]; [lia|].
  destruct (N.eqb_spec (n / 10) 0) as [Hz|Hnz]; [cbn [length]; lia|].
  destruct k as [|k].
  - cbn in Hn. assert (n / 10 = 0) by (apply N.div_small; lia). contradiction.
  - specialize (IH (n / 10) ((48 + n mod 10) :: acc) k). cbn [length] in IH.
    assert (n / 10 < 10 ^ N.of_nat (S k)).
    { rewrite (Nat2N.inj_succ (S k)), N.pow_succ_r' in Hn. apply N.div_lt_upper_bound; lia. }
    specialize (IH H). lia.
Qed.

Lemma dec_len_i64 n : (Z.of_N n <= two63)%Z -> (length (dec n) <= 19)%nat.
Proof.
  intros H. unfold dec. pose proof (dec_aux_len (S (N.size_nat n)) n [] 18) as L. cbn [length] in L.
  assert (n < 10 ^ N.of_nat 19) by (change (10 ^ N.of_nat 19) with 10000000000000000000; unfold two63 in H; lia).
  specialize (L H0). lia.
Qed.

Lemma dec_hd_digit n : exists d r, dec n = d :: r /\ 48 <= d <= 57.
Proof.
  pose proof (dec_nonempty n) as Hne. pose proof (dec_digits n) as Hd.
  destruct (dec n) as [|d r]; [congruence|]. inversion Hd; subst. exists d, r. split; [reflexivity|].
  now apply is_digit_spec.
Qed.

Lemma firstn_drop2 (l : bytes) : firstn (length (l ++ crlf) - 2) (l ++ crlf) = l.
Proof.
  replace (length (l ++ crlf) - 2)%nat with (length l) by (rewrite app_length; cbn; lia).
  apply firstn_app_exact.
Qed.

Lemma parse_int_nat n : (Z.of_N n < two63)%Z -> parse_int_line (dec n ++ crlf) = Ok (Z.of_N n).
Proof.
  intros Hn. unfold parse_int_line.
  pose proof (dec_digits n) as Hdig. pose proof (dec_val n) as Hval.
  destruct (dec_hd_digit n) as (d & r & E & Hd).
  destruct (Nat.ltb_spec (length (dec n ++ crlf)) 3) as [Hx|_].
  { rewrite E, app_length in Hx. cbn in Hx. lia. }
  assert (Hh : hd 0 (dec n ++ crlf) = d) by (rewrite E; reflexivity).
  rewrite Hh.
  destruct (N.eqb_spec d 63) as [->|_]; [lia|]. destruct (N.eqb_spec d 45) as [->|_]; [lia|].
  rewrite firstn_drop2.
  rewrite digits_loop_dval; [|assumption|lia|change (Z.to_N 0) with 0; rewrite Hval; assumption].
  change (Z.to_N 0) with 0. rewrite Hval. f_equal. rewrite Z.mul_1_r. apply wrap64_small_z. unfold two63 in *. lia.
Qed.

Lemma decZ_nonneg n : decZ (Z.of_N n) = dec n.
Proof. destruct n; reflexivity. Qed.

Lemma parse_int_decZ i : in_i64 i -> parse_int_line (decZ i ++ crlf) = Ok i.
Proof.
  intros [Hlo Hhi]. destruct i as [|p|p].
  - reflexivity.
  - change (decZ (Z.pos p)) with (dec (N.pos p)). rewrite parse_int_nat; [reflexivity|exact Hhi].
  - cbn [decZ]. destruct (Z.eq_dec (Z.neg p) (- two63)) as [E|Hne].
    + unfold two63 in E. inversion E. subst p. vm_compute. reflexivity.
    + assert (Hp : (Z.of_N (N.pos p) < two63)%Z) by (unfold two63 in *; lia).
      unfold parse_int_line. cbn [app length].
      destruct (Nat.ltb_spec (S (length (dec (N.pos p) ++ crlf))) 3) as [Hx|_].
      { rewrite app_length in Hx. cbn in Hx. pose proof (dec_nonempty (N.pos p)). destruct (dec (N.pos p)); [congruence|cbn in Hx; lia]. }
      cbn [hd tl]. change (45 =? 63) with false. change (45 =? 45) with true. cbv iota.
      rewrite firstn_drop2.
      rewrite digits_loop_dval; [|apply dec_digits|lia|change (Z.to_N 0) with 0; rewrite dec_val; assumption].
      change (Z.to_N 0) with 0. rewrite dec_val. f_equal.
      unfold wrap64, two63, two64 in *.
      replace (Z.of_N (N.pos p) * -1)%Z with (Z.neg p) by lia.
      assert (Em : (Z.neg p mod 18446744073709551616 = Z.neg p + 18446744073709551616)%Z).
      { symmetry. apply (Z.mod_unique _ _ (-1)); lia. }
      rewrite Em. destruct (Z.ltb_spec (Z.neg p + 18446744073709551616) 9223372036854775808); lia.
Qed.

Lemma decZ_digits_or_minus i : no_lf (decZ i) = true.
Proof.
  destruct i; cbn [decZ]; try (apply no_lf_digits, dec_digits).
  cbn [no_lf forallb]. fold (no_lf (dec (N.pos p))). now rewrite (no_lf_digits _ (dec_digits _)).
Qed.

Lemma decZ_len i : in_i64 i -> (length (decZ i) <= 20)%nat.
Proof.
  intros [Hlo Hhi]. destruct i as [|p|p].
  - cbn. lia.
  - change (decZ (Z.pos p)) with (dec (N.pos p)).
    pose proof (dec_len_i64 (N.pos p) ltac:(unfold two63 in *; lia)). lia.
  - cbn [decZ length].
    pose proof (dec_len_i64 (N.pos p) ltac:(unfold two63 in *; lia)). lia.
Qed.

(** readI on a numeral line *)
Lemma run_read_i B i rest al : (32 <= B)%nat -> in_i64 i ->
  run B read_i (decZ i ++ crlf ++ rest) al = (Ok i, rest, al).
Proof.
  intros HB Hi. unfold read_i.
  erewrite run_bindr_ok.
  2:{ rewrite run_do_op, step_read_slice_line; [reflexivity|apply decZ_digits_or_minus|].
      pose proof (decZ_len i Hi). lia. }
  cbn [run meter]. now rewrite parse_int_decZ.
Qed.

Lemma run_read_i_nat B n rest al : (32 <= B)%nat -> (Z.of_N n < two63)%Z ->
  run B read_i (dec n ++ crlf ++ rest) al = (Ok (Z.of_N n), rest, al).
Proof.
  intros HB Hn. rewrite <- decZ_nonneg. apply run_read_i; [assumption|].
  unfold in_i64, two63 in *. lia.
Qed.

(** readI on "?\r\n" and on "-1\r\n" *)
Lemma run_read_i_chunked B rest al : (32 <= B)%nat ->
  run B read_i ([63] ++ crlf ++ rest) al = (Err eChunked, rest, al).
Proof.
  intros HB. unfold read_i. erewrite run_bindr_ok.
  2:{ rewrite run_do_op, step_read_slice_line; [reflexivity|reflexivity|cbn; lia]. }
  reflexivity.
Qed.

Lemma run_read_i_minus1 B rest al : (32 <= B)%nat ->
  run B read_i ([45; 49] ++ crlf ++ rest) al = (Ok (-1)%Z, rest, al).
Proof. intros HB. apply (run_read_i B (-1)%Z rest al HB). unfold in_i64, two63. lia. Qed.

Lemma step_discard B k (pre rest : bytes) : Z.of_nat (length pre) = k ->
  flat_step B (ODiscard k) (pre ++ rest) = (Ok [], rest).
Proof.
  intros H. cbn [flat_step]. destruct (Z.ltb_spec k 0) as [Hx|_]; [lia|].
  destruct (N.leb_spec (Z.to_N k) (blen (pre ++ rest))) as [_|Hx].
  - replace (Z.to_nat k) with (length pre) by lia. now rewrite skipn_app_exact.
  - unfold blen in Hx. rewrite app_length in Hx. lia.
Qed.

(** * readS *)

Lemma run_read_s B s rest al : no_lf s = true ->
  exists al', run B read_s (s ++ crlf ++ rest) al = (Ok s, rest, al').
Proof.
  intros Hn. unfold read_s.
  set (slow := bindr (do_op OReadBytes) _).
  assert (Hslow : exists al', run B slow (s ++ crlf ++ rest) al = (Ok s, rest, al')).
  { unfold slow. eexists. erewrite run_bindr_ok.
    2:{ rewrite run_do_op, step_read_bytes_line by assumption. reflexivity. }
    rewrite run_bind, run_alloc. rewrite app_length. cbn [crlf length].
    destruct (Nat.ltb_spec (length s + 2) 2) as [Hx|_]; [lia|].
    replace (length s + 2 - 2)%nat with (length s) by lia. rewrite firstn_app_exact. reflexivity. }
  rewrite run_bind, run_do_op. cbn [flat_step fst snd meter is_ok].
  destruct (bytes_eqb OKs (firstn 2 (s ++ crlf ++ rest))) eqn:E2; [|exact Hslow].
  rewrite run_bind, run_do_op. cbn [flat_step fst snd meter is_ok].
  destruct (bytes_eqb OKrn (firstn 4 (s ++ crlf ++ rest))) eqn:E4; [|exact Hslow].
  (* the fast path: the line is exactly "OK" *)
  assert (Hs : s = OKs).
  { apply list_eqb_bytes_true in E4. unfold OKrn, crlf, CR, LF in E4.
    destruct s as [|a [|b [|c [|d s']]]]; cbn [app firstn] in E4; inversion E4; subst; try reflexivity.
    exfalso. cbn [no_lf forallb] in Hn. rewrite !andb_true_iff in Hn. destruct Hn as (_ & _ & _ & H10 & _).
    discriminate H10. }
  subst s. eexists. rewrite run_bind, run_do_op.
  change (OKs ++ crlf ++ rest) with (OKrn ++ rest). rewrite (step_discard B 4 OKrn rest eq_refl). reflexivity.
Qed.

Lemma skipn_skipn' {A} (a b : nat) (l : list A) : skipn a (skipn b l) = skipn (b + a) l.
Proof.
  revert l; induction b as [|b IH]; intros l; [reflexivity|].
  destruct l as [|x l]; cbn [skipn plus]; [now rewrite skipn_nil|apply IH].
Qed.

(** * readN *)

Lemma wf_make1 n : (0 <= n <= max_alloc)%Z -> make_ok 1 n = true.
Proof. unfold make_ok. intros H. rewrite Z.mul_1_r. lia. Qed.

Lemma run_alloc_make_ok B sz n s al : make_ok sz n = true ->
  run B (alloc_make sz n) s al = (Ok tt, s, al + Z.to_N (n * sz)).
Proof. intros H. unfold alloc_make. rewrite H. reflexivity. Qed.

Lemma step_read_full B n s : n <= blen s ->
  flat_step B (OReadFull n) s = (Ok (firstn (N.to_nat n) s), skipn (N.to_nat n) s).
Proof.
  intros H. cbn [flat_step]. destruct (N.eqb_spec n 0) as [->|_]; [reflexivity|].
  destruct (N.leb_spec n (blen s)); [reflexivity|lia].
Qed.

(** the loop: [n] bytes of the payload are in [acc], [cap] is the current buffer length *)
Lemma run_read_n_loop B (s rest : bytes) : forall fuel n cap al,
  (0 <= n <= cap)%Z -> (cap <= zlen s)%Z -> (zlen s <= max_alloc)%Z ->
  (0 < cap \/ zlen s = 0)%Z ->
  (zlen s <= cap * 2 ^ (Z.of_nat fuel - 1))%Z -> (1 <= fuel)%nat ->
  exists al',
    run B (read_n_loop fuel (zlen s) n cap (firstn (Z.to_nat n) s)) (skipn (Z.to_nat n) s ++ rest) al = (Ok s, rest, al').
Proof.
  induction fuel as [|f IH]; intros n cap al Hn Hcap Hmax Hpos Hf H1; [lia|].
  cbn [read_n_loop]. rewrite run_bind, run_do_op.
  assert (Hlen : Z.to_N (cap - n) <= blen (skipn (Z.to_nat n) s ++ rest)).
  { unfold blen, zlen in *. rewrite app_length, skipn_length. lia. }
  rewrite step_read_full by exact Hlen. cbn [fst snd meter].
  assert (Hacc : firstn (Z.to_nat n) s ++ firstn (N.to_nat (Z.to_N (cap - n))) (skipn (Z.to_nat n) s ++ rest) = firstn (Z.to_nat cap) s).
  { rewrite firstn_app_short by (rewrite skipn_length; unfold zlen in *; lia).
    replace (N.to_nat (Z.to_N (cap - n))) with (Z.to_nat cap - Z.to_nat n)%nat by lia.
    rewrite <- (firstn_skipn (Z.to_nat n) (firstn (Z.to_nat cap) s)).
    f_equal.
    - rewrite firstn_firstn. f_equal. lia.
    - rewrite skipn_firstn_comm. reflexivity. }
  assert (Hrest : skipn (N.to_nat (Z.to_N (cap - n))) (skipn (Z.to_nat n) s ++ rest) = skipn (Z.to_nat cap) s ++ rest).
  { rewrite skipn_app_short by (rewrite skipn_length; unfold zlen in *; lia).
    rewrite skipn_skipn'. f_equal. f_equal. lia. }
  rewrite Hacc, Hrest.
  destruct (Z.eqb_spec cap (zlen s)) as [E|Hne].
  - eexists. cbn [run]. rewrite E. unfold zlen. rewrite Nat2Z.id, firstn_all, skipn_all. reflexivity.
  - assert (Hc0 : (0 < cap)%Z) by lia.
    erewrite run_bindr_ok.
    2:{ apply run_alloc_make_ok. apply wf_make1. lia. }
    assert (Hf2 : (1 <= f)%nat).
    { destruct f; [|lia]. cbn in Hf. lia. }
    replace (Z.of_nat (S f) - 1)%Z with (Z.succ (Z.of_nat f - 1)) in Hf by lia.
    rewrite Z.pow_succ_r in Hf by lia.
    pose proof (Z.pow_pos_nonneg 2 (Z.of_nat f - 1) ltac:(lia) ltac:(lia)) as Hp.
    destruct (Z.min_spec (zlen s) (cap * 2)) as [[Hm ->]|[Hm ->]]; apply IH; try lia; nia.
Qed.

Lemma run_read_n B s rest al : (zlen s <= max_alloc)%Z ->
  exists al', run B (read_n (zlen s)) (s ++ rest) al = (Ok s, rest, al').
Proof.
  intros Hmax. unfold read_n.
  destruct (Z.ltb_spec (zlen s) 0) as [Hx|_]; [unfold zlen in Hx; lia|].
  pose proof (Zle_0_nat (length s)) as H0. fold (zlen s) in H0.
  erewrite run_bindr_ok.
  2:{ apply run_alloc_make_ok. apply wf_make1. unfold max_prealloc_bytes. lia. }
  apply (run_read_n_loop B s rest 64 0 (Z.min (zlen s) max_prealloc_bytes)); unfold max_prealloc_bytes; try lia.
  destruct (Z.min_spec (zlen s) 65536) as [[_ ->]|[_ ->]].
  - change (2 ^ (Z.of_nat 64 - 1))%Z with 9223372036854775808%Z. lia.
  - unfold max_alloc in Hmax. change (2 ^ (Z.of_nat 64 - 1))%Z with 9223372036854775808%Z. lia.
Qed.

(** * readB on a length-prefixed payload *)

Lemma step_discard2 B rest : flat_step B (ODiscard 2) (crlf ++ rest) = (Ok [], rest).
Proof. apply (step_discard B 2 crlf rest eq_refl). Qed.

Lemma run_read_b B s rest al : (32 <= B)%nat -> (zlen s <= max_alloc)%Z ->
  exists al', run B read_b (dec (blen s) ++ crlf ++ s ++ crlf ++ rest) al = (Ok s, rest, al').
Proof.
  intros HB Hmax. unfold read_b.
  assert (Hlt : (Z.of_N (blen s) < two63)%Z) by (unfold blen, zlen, max_alloc, two63 in *; lia).
  erewrite run_bindr_ok by (apply run_read_i_nat; assumption).
  replace (Z.of_N (blen s)) with (zlen s) by (unfold blen, zlen; lia).
  destruct (Z.eqb_spec (zlen s) (-1)) as [Hx|_]; [unfold zlen in Hx; lia|].
  destruct (run_read_n B s (crlf ++ rest) al Hmax) as [al' E].
  erewrite run_bindr_ok by exact E.
  eexists. erewrite run_bindr_ok by (rewrite run_do_op, step_discard2; reflexivity).
  reflexivity.
Qed.

(** * single operations as runs *)
Lemma run_discard B k (pre rest : bytes) al : Z.of_nat (length pre) = k ->
  run B (do_op (ODiscard k)) (pre ++ rest) al = (Ok [], rest, al).
Proof. intros H. rewrite run_do_op, (step_discard B k pre rest H). reflexivity. Qed.

Lemma run_read_byte B b rest al : run B (do_op OReadByte) (b :: rest) al = (Ok [b], rest, al).
Proof. reflexivity. Qed.

Lemma run_copy_n B (c rest : bytes) al :
  run B (do_op (OCopyN (blen c))) (c ++ rest) al = (Ok c, rest, al).
Proof.
  rewrite run_do_op. cbn [flat_step].
  destruct (N.leb_spec (blen c) (blen (c ++ rest))) as [_|Hx].
  - unfold blen. rewrite Nat2N.id, firstn_app_exact, skipn_app_exact. reflexivity.
  - unfold blen in Hx. rewrite app_length in Hx. lia.
Qed.
