From Coq Require Import List NArith Bool Lia Arith.
Require Import RV.Model.Base RV.Model.Binary.
Import ListNotations.
Open Scope N_scope.

Lemma le_bytes_length k w : length (le_bytes k w) = k.
Proof. revert w; induction k as [|k IH]; intros w; cbn [le_bytes length]; [reflexivity|]. now rewrite IH. Qed.

Lemma of_le_le_bytes k : forall w, w < 256 ^ N.of_nat k -> of_le (le_bytes k w) = w.
Proof.
  induction k as [|k IH]; intros w Hw.
  - cbn in *. lia.
  - cbn [le_bytes of_le].
    rewrite IH.
    + pose proof (N.div_mod w 256 ltac:(lia)). lia.
    + rewrite Nat2N.inj_succ, N.pow_succ_r' in Hw.
      apply N.div_lt_upper_bound; lia.
Qed.

Lemma le_bytes_bytes k : forall w, Forall (fun b => b < 256) (le_bytes k w).
Proof.
  induction k as [|k IH]; intros w; cbn [le_bytes]; constructor.
  - apply N.mod_lt; lia.
  - apply IH.
Qed.

Lemma firstn_app_exact {A} (l1 l2 : list A) : firstn (length l1) (l1 ++ l2) = l1.
Proof. induction l1 as [|x l1 IH]; cbn; [now destruct l2|now rewrite IH]. Qed.

Lemma skipn_app_exact {A} (l1 l2 : list A) : skipn (length l1) (l1 ++ l2) = l2.
Proof. induction l1 as [|x l1 IH]; cbn; [reflexivity|exact IH]. Qed.

Lemma vector_string_length k ws : length (vector_string k ws) = (k * length ws)%nat.
Proof.
  unfold vector_string. induction ws as [|w ws IH]; cbn [flat_map length]; [lia|].
  rewrite app_length, le_bytes_length, IH. lia.
Qed.

Lemma to_vector_roundtrip k (Hk : (0 < k)%nat) :
  forall ws fuel, Forall (fun w => w < 256 ^ N.of_nat k) ws ->
    (length ws < fuel)%nat ->
    to_vector fuel k (vector_string k ws) = Ok ws.
Proof.
  induction ws as [|w ws IH]; intros fuel Hws Hf.
  - destruct fuel; reflexivity.
  - destruct fuel as [|f]; [cbn in Hf; lia|].
    inversion Hws as [|? ? Hw Hr]; subst.
    unfold vector_string. cbn [flat_map]. fold (vector_string k ws).
    remember (le_bytes k w ++ vector_string k ws) as l eqn:El.
    assert (Hlen : (k <= length l)%nat) by (subst l; rewrite app_length, le_bytes_length; lia).
    destruct l as [|b l']; [cbn in Hlen; lia|].
    cbn [to_vector].
    destruct (Nat.ltb_spec (length (b :: l')) k) as [Hlt|_]; [lia|].
    rewrite El.
    assert (Hs : skipn k (le_bytes k w ++ vector_string k ws) = vector_string k ws).
    { rewrite <- (le_bytes_length k w) at 1. apply skipn_app_exact. }
    assert (Hfst : firstn k (le_bytes k w ++ vector_string k ws) = le_bytes k w).
    { rewrite <- (le_bytes_length k w) at 1. apply firstn_app_exact. }
    rewrite Hs, Hfst.
    rewrite IH by (auto; cbn in Hf; lia).
    now rewrite of_le_le_bytes.
Qed.

Lemma to_vector_top_roundtrip k ws :
  (0 < k)%nat -> Forall (fun w => w < 256 ^ N.of_nat k) ws ->
  to_vector_top k (vector_string k ws) = Ok ws.
Proof.
  intros Hk Hws. unfold to_vector_top. apply to_vector_roundtrip; auto.
  rewrite vector_string_length. nia.
Qed.

(** the decoder never reports an error value; it panics exactly on ragged input *)
Lemma to_vector_ragged k : forall fuel bs, (0 < k)%nat -> (length bs < fuel)%nat ->
  (length bs mod k <> 0)%nat -> to_vector fuel k bs = Panic.
Proof.
  induction fuel as [|f IH]; intros bs Hk Hf Hm; [lia|].
  destruct bs as [|b l]; [cbn in Hm; rewrite Nat.mod_0_l in Hm; lia|].
  cbn [to_vector].
  destruct (Nat.ltb_spec (length (b :: l)) k) as [Hlt|Hge]; [reflexivity|].
  rewrite IH; auto.
  - rewrite skipn_length. cbn [length] in *. lia.
  - rewrite skipn_length. intro E. apply Hm.
    set (n := length (b :: l)) in *.
    replace n with ((n - k) + 1 * k)%nat by lia.
    rewrite Nat.mod_add by lia. exact E.
Qed.
