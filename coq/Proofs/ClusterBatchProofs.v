(** Proofs about Model/ClusterBatch.v: results are positional (C20_order). *)
From Coq Require Import List Arith NArith ZArith Bool Lia Permutation.
Require Import RV.Model.Base RV.Model.ClusterTopo RV.Model.Retry RV.Model.ClusterDo RV.Model.ClusterBatch.
Require Import RV.Proofs.ClusterTopoProofs.
Import ListNotations.
Open Scope Z_scope.

Section Order.
Variable multi : list bcmd.        (* the batch handed to DoMulti *)
Variable srv : servers.

(** an (index, command) pair is in step with the batch *)
Definition pair_ok (p : ipair) : Prop := nth_error multi (fst p) = Some (snd p).
Definition group_ok (g : rgroup) : Prop := Forall pair_ok (rg_cmds g) /\ Forall pair_ok (rg_asks g).
Definition rmap_ok (m : rmap) : Prop := Forall (fun ag => group_ok (snd ag)) m.
Definition act_ok (a : action) : Prop := Forall pair_ok (a_ps a).

(** an assignment results.s[i] = r is the reply of some node to the command multi[i] *)
Definition asg_ok (ir : nat * reply) : Prop :=
  exists cm a k, nth_error multi (fst ir) = Some cm /\ snd ir = srv cm a k.

Lemma rmap_add_ok a ask ps m : Forall pair_ok ps -> rmap_ok m -> rmap_ok (rmap_add a ask ps m).
Proof.
  intros Hp. induction m as [|[k g] r IH]; intro Hm; cbn [rmap_add].
  - constructor; [|constructor]. cbn [snd]. destruct ask; split; cbn; auto.
  - inversion Hm as [|? ? Hg Hr]; subst. cbn [snd] in Hg. destruct (addr_eqb a k).
    + constructor; [|exact Hr]. cbn [snd]. destruct Hg as [H1 H2]. destruct ask; split; cbn [rg_cmds rg_asks]; auto; apply Forall_app; auto.
    + constructor; [exact Hg|]. now apply IH.
Qed.

Lemma apply_actions_ok acts : Forall act_ok acts -> rmap_ok (apply_actions acts).
Proof.
  unfold apply_actions. intro H.
  assert (G : forall m, rmap_ok m -> rmap_ok (fold_left (fun m a => rmap_add (a_to a) (a_ask a) (a_ps a) m) acts m)).
  { induction H as [|a r Ha Hr IH]; intros m Hm; cbn [fold_left]; [exact Hm|]. apply IH. now apply rmap_add_ok. }
  apply G. constructor.
Qed.

(** the replies of one exchange are the node's replies to the commands, position by position *)
Lemma exchange_on_spec a : forall ps cn rs cn',
  exchange_on srv a cn ps = (rs, cn') ->
  length rs = length ps /\
  forall i p r, nth_error ps i = Some p -> nth_error rs i = Some r -> exists k, r = srv (snd p) a k.
Proof.
  induction ps as [|[j c] ps IH]; intros cn rs cn' H; cbn [exchange_on] in H.
  - inversion H; subst. split; [reflexivity|]. intros i p r Hp. destruct i; discriminate.
  - destruct (exchange_on srv a (cnt_inc cn (b_id c) a) ps) as [rs0 cn0] eqn:E. inversion H; subst.
    destruct (IH _ _ _ E) as [L S]. split; [cbn; now rewrite L|].
    intros i p r Hp Hr. destruct i as [|i]; cbn in Hp, Hr.
    + inversion Hp; inversion Hr; subst. cbn [snd]. eauto.
    + eauto.
Qed.

Lemma In_firstn {A} (l : list A) n x : In x (firstn n l) -> In x l.
Proof. revert l. induction n as [|n IH]; intros [|y l]; cbn; try tauto. intros [H|H]; auto. Qed.
Lemma In_skipn {A} (l : list A) n x : In x (skipn n l) -> In x l.
Proof. revert l. induction n as [|n IH]; intros [|y l]; cbn; try tauto. intro H. right. auto. Qed.

Lemma block_ok ps lo hi : Forall pair_ok ps -> Forall pair_ok (block ps lo hi).
Proof.
  intro H. apply Forall_forall. intros p Hp. unfold block in Hp.
  apply In_firstn in Hp. apply In_skipn in Hp. rewrite Forall_forall in H. auto.
Qed.

Record drs_ok (d : drs) : Prop := {
  do_acts : Forall act_ok (d_acts d);
  do_res : Forall asg_ok (d_results d);
}.

Lemma dstep_ok pol cc hasinit attempts fl ps resps d i :
  Forall pair_ok ps ->
  (forall j p r, nth_error ps j = Some p -> nth_error resps j = Some r -> exists k, r = srv (snd p) cc k) ->
  drs_ok d -> drs_ok (dstep pol cc hasinit attempts fl ps resps d i).
Proof.
  intros Hps Hrs [Ha Hr]. unfold dstep.
  destruct (nth_error ps i) as [[ii cm]|] eqn:Ep; [|split; assumption].
  destruct (nth_error resps i) as [r|] eqn:Er; [|split; assumption].
  assert (Hpair : pair_ok (ii, cm)).
  { rewrite Forall_forall in Hps. apply Hps. eapply nth_error_In; eauto. }
  assert (Hres : Forall asg_ok (d_results d ++ [(ii, r)])).
  { apply Forall_app. split; [exact Hr|]. constructor; [|constructor].
    destruct (Hrs i _ _ Ep Er) as [k Hk]. exists cm, cc, k. cbn [fst snd] in *. split; [exact Hpair|exact Hk]. }
  assert (Hone : forall nc ask, Forall act_ok (d_acts d ++ [mkAct nc ask [(ii, cm)]])).
  { intros. apply Forall_app. split; [exact Ha|]. constructor; [|constructor]. unfold act_ok. cbn. constructor; auto. }
  assert (Hblk : forall nc ask lo hi, Forall act_ok (d_acts d ++ [mkAct nc ask (block ps lo hi)])).
  { intros. apply Forall_app. split; [exact Ha|]. constructor; [|constructor]. unfold act_ok. cbn. now apply block_ok. }
  destruct (classify r (rf_ctx fl) (rf_closed fl)); cbn [d_acts d_results d_mi d_ei d_redirects d_delay];
    try (split; cbn; assumption);
    repeat match goal with
           | |- drs_ok (if ?b then _ else _) => destruct b
           | |- drs_ok (let _ := _ in _) => cbv zeta
           end;
    try (split; cbn [d_acts d_results]; auto).
Qed.

Lemma doresultfn_ok pol cc hasinit attempts fl ps resps acts redirects delay results :
  Forall pair_ok ps ->
  (forall j p r, nth_error ps j = Some p -> nth_error resps j = Some r -> exists k, r = srv (snd p) cc k) ->
  Forall act_ok acts -> Forall asg_ok results ->
  drs_ok (doresultfn pol cc hasinit attempts fl ps resps acts redirects delay results).
Proof.
  intros Hps Hrs Ha Hr. unfold doresultfn.
  assert (G : forall l d, drs_ok d -> drs_ok (fold_left (dstep pol cc hasinit attempts fl ps resps) l d)).
  { induction l as [|i l IH]; intros d Hd; cbn [fold_left]; [exact Hd|]. apply IH. now apply dstep_ok. }
  apply G. split; assumption.
Qed.

Record rstate_ok (s : rstate) : Prop := {
  ro_acts : Forall act_ok (r_acts s);
  ro_res : Forall asg_ok (r_results s);
}.

Lemma do_group_ok pol hasinit attempts fl st ag :
  group_ok (snd ag) -> rstate_ok st -> rstate_ok (do_group pol srv hasinit attempts fl st ag).
Proof.
  destruct ag as [a g]. cbn [snd]. intros [Hc Hk] [Ha Hr]. unfold do_group.
  set (st1 := match rg_cmds g with [] => st | _ => _ end).
  assert (H1 : rstate_ok st1).
  { unfold st1. destruct (rg_cmds g) as [|p ps] eqn:Eg; [split; assumption|].
    destruct (exchange_on srv a (r_cnt st) (p :: ps)) as [rs cn] eqn:E.
    destruct (exchange_on_spec a _ _ _ _ E) as [_ S].
    pose proof (doresultfn_ok pol a hasinit attempts fl (p :: ps) rs (r_acts st) (r_redirects st) (r_delay st) (r_results st) Hc S Ha Hr) as [D1 D2].
    split; cbn; assumption. }
  destruct (rg_asks g) as [|p ps] eqn:Eg; [exact H1|].
  destruct (exchange_on srv a (r_cnt st1) (p :: ps)) as [rs cn] eqn:E.
  destruct (exchange_on_spec a _ _ _ _ E) as [_ S]. destruct H1 as [Ha1 Hr1].
  pose proof (doresultfn_ok pol a hasinit attempts fl (p :: ps) rs (r_acts st1) (r_redirects st1) (r_delay st1) (r_results st1) Hk S Ha1 Hr1) as [D1 D2].
  split; cbn; assumption.
Qed.

Lemma fold_groups_ok pol hasinit attempts fl : forall m st,
  rmap_ok m -> rstate_ok st -> rstate_ok (fold_left (do_group pol srv hasinit attempts fl) m st).
Proof.
  induction m as [|ag m IH]; intros st Hm Hs; cbn [fold_left]; [exact Hs|].
  inversion Hm; subst. apply IH; [assumption|]. now apply do_group_ok.
Qed.

(** every round keeps the assignments honest, whatever order the appends hit the mutex in *)
Lemma rounds_ok (c : bcfg) hasinit :
  (forall k l, Permutation (bc_perm c k l) l) ->
  forall fuel k m attempts redirects asg cn sends asg' sends' out,
  rmap_ok m -> Forall asg_ok asg ->
  rounds fuel c srv hasinit k m attempts redirects asg cn sends = (asg', sends', out) ->
  Forall asg_ok asg'.
Proof.
  intros Hperm. induction fuel as [|f IH]; intros k m attempts redirects asg cn sends asg' sends' out Hm Ha H.
  - cbn in H. inversion H; subst. exact Ha.
  - cbn [rounds] in H.
    set (st := fold_left (do_group (bc_policy c) srv hasinit attempts (bc_flags c k)) m (mkRstate [] 0 (-1) asg cn [])) in *.
    assert (Hst : rstate_ok st).
    { apply fold_groups_ok; [exact Hm|]. split; cbn; [constructor|exact Ha]. }
    destruct Hst as [Hacts Hres].
    assert (Hm' : rmap_ok (apply_actions (bc_perm c k (r_acts st)))).
    { apply apply_actions_ok. apply Forall_forall. intros a Hin.
      apply (Permutation_in _ (Hperm k (r_acts st))) in Hin. rewrite Forall_forall in Hacts. auto. }
    destruct (apply_actions (bc_perm c k (r_acts st))) as [|x m'] eqn:Em.
    + inversion H; subst. exact Hres.
    + destruct (0 <? r_redirects st)%nat.
      * destruct ((0 <? bc_max c) && (bc_max c <? redirects + 1)).
        -- inversion H; subst. exact Hres.
        -- eapply IH; [exact Hm'|exact Hres|exact H].
      * destruct (0 <=? r_delay st).
        -- eapply IH; [exact Hm'|exact Hres|exact H].
        -- inversion H; subst. exact Hres.
Qed.

Lemma result_at_In asg i r : result_at asg i = Some r -> In (i, r) asg.
Proof.
  induction asg as [|[j x] rest IH]; cbn [result_at]; [discriminate|].
  destruct (result_at rest i) eqn:E.
  - intro H; inversion H; subst. right. auto.
  - destruct (Nat.eqb_spec j i); [|discriminate]. intro H; inversion H; subst. now left.
Qed.

Lemma result_at_some asg i : (exists r, In (i, r) asg) -> exists r, result_at asg i = Some r.
Proof.
  induction asg as [|[j x] rest IH]; intros [r H]; [destruct H|].
  cbn [result_at]. destruct (result_at rest i) eqn:E; [eauto|].
  destruct H as [H|H].
  - inversion H; subst. rewrite Nat.eqb_refl. eauto.
  - destruct (IH (ex_intro _ r H)) as [r' Hr']. congruence.
Qed.

(** ---- every index of the batch gets a result ---- *)
Definition covered (m : rmap) (i : nat) : Prop :=
  exists a g c, In (a, g) m /\ (In (i, c) (rg_cmds g) \/ In (i, c) (rg_asks g)).

Lemma covered_rmap_add a ask ps m i :
  covered m i \/ (exists c, In (i, c) ps) -> covered (rmap_add a ask ps m) i.
Proof.
  induction m as [|[k g] r IH]; cbn [rmap_add].
  - intros [[a0 [g0 [c0 [[] _]]]]|[c Hc]]. exists a, (if ask then mkRg [] ps else mkRg ps []), c.
    split; [now left|]. destruct ask; cbn; auto.
  - intros H. destruct (addr_eqb a k) eqn:E.
    + destruct H as [[a0 [g0 [c0 [[Hin|Hin] Hc]]]]|[c Hc]].
      * inversion Hin; subst a0 g0. eexists _, _, c0. split; [left; reflexivity|].
        destruct ask; cbn [rg_cmds rg_asks]; destruct Hc as [Hc|Hc]; auto; [right|left]; apply in_or_app; auto.
      * exists a0, g0, c0. split; [now right|exact Hc].
      * eexists _, _, c. split; [left; reflexivity|]. destruct ask; cbn [rg_cmds rg_asks]; [right|left]; apply in_or_app; auto.
    + assert (X : covered (rmap_add a ask ps r) i \/ (exists a0 c0, a0 = k /\ (In (i, c0) (rg_cmds g) \/ In (i, c0) (rg_asks g)))).
      { destruct H as [[a0 [g0 [c0 [[Hin|Hin] Hc]]]]|[c Hc]].
        - inversion Hin; subst a0 g0. right. eauto.
        - left. apply IH. left. exists a0, g0, c0. auto.
        - left. apply IH. right. eauto. }
      destruct X as [[a0 [g0 [c0 [Hin Hc]]]]|[a0 [c0 [-> Hc]]]].
      * exists a0, g0, c0. split; [now right|exact Hc].
      * exists k, g, c0. split; [now left|exact Hc].
Qed.

Lemma pick_multi_plain_spec t deflt : forall cs pre acc m,
  multi = pre ++ cs -> rmap_ok acc -> (forall j, (j < length pre)%nat -> covered acc j) ->
  pick_multi_plain t deflt (length pre) cs acc = Some m ->
  rmap_ok m /\ forall j, (j < length multi)%nat -> covered m j.
Proof.
  induction cs as [|c r IH]; intros pre acc m Em Hok Hcov H; cbn [pick_multi_plain] in H.
  - inversion H; subst m. split; [exact Hok|]. intros j Hj. apply Hcov. rewrite Em, app_nil_r in Hj. exact Hj.
  - destruct (match b_slot c with Some s => tb_w t s | None => deflt end) as [a|]; [|discriminate].
    assert (Hp : pair_ok (length pre, c)).
    { unfold pair_ok. cbn [fst snd]. rewrite Em. rewrite nth_error_app2 by lia. now rewrite Nat.sub_diag. }
    apply (IH (pre ++ [c]) (rmap_add a false [(length pre, c)] acc) m).
    + now rewrite <- app_assoc.
    + apply rmap_add_ok; [constructor; [exact Hp|constructor]|exact Hok].
    + intros j Hj. rewrite app_length in Hj. cbn in Hj. apply covered_rmap_add.
      destruct (Nat.eq_dec j (length pre)) as [->|Hne]; [right; exists c; now left|left; apply Hcov; lia].
    + rewrite app_length. cbn [length]. rewrite Nat.add_1_r. exact H.
Qed.

Lemma pick_multi_repl_spec t nsel : forall cs pre acc m,
  multi = pre ++ cs -> rmap_ok acc -> (forall j, (j < length pre)%nat -> covered acc j) ->
  pick_multi_repl t nsel (length pre) cs acc = Some m ->
  rmap_ok m /\ forall j, (j < length multi)%nat -> covered m j.
Proof.
  induction cs as [|c r IH]; intros pre acc m Em Hok Hcov H; cbn [pick_multi_repl] in H.
  - inversion H; subst m. split; [exact Hok|]. intros j Hj. apply Hcov. rewrite Em, app_nil_r in Hj. exact Hj.
  - destruct (b_slot c) as [sl|]; [|discriminate].
    destruct (pick_slot t sl (b_replica c) (nsel (length pre))) as [a|]; [|discriminate].
    assert (Hp : pair_ok (length pre, c)).
    { unfold pair_ok. cbn [fst snd]. rewrite Em. rewrite nth_error_app2 by lia. now rewrite Nat.sub_diag. }
    apply (IH (pre ++ [c]) (rmap_add a false [(length pre, c)] acc) m).
    + now rewrite <- app_assoc.
    + apply rmap_add_ok; [constructor; [exact Hp|constructor]|exact Hok].
    + intros j Hj. rewrite app_length in Hj. cbn in Hj. apply covered_rmap_add.
      destruct (Nat.eq_dec j (length pre)) as [->|Hne]; [right; exists c; now left|left; apply Hcov; lia].
    + rewrite app_length. cbn [length]. rewrite Nat.add_1_r. exact H.
Qed.

Lemma pick_multi_spec t str nsel fc m init :
  pick_multi t str nsel fc multi = PickOk m init ->
  rmap_ok m /\ forall j, (j < length multi)%nat -> covered m j.
Proof.
  unfold pick_multi.
  destruct (negb (has_init multi) && tb_rinit t && str).
  - destruct (pick_multi_repl t nsel 0 multi []) as [m0|] eqn:E; [|discriminate].
    intro H; inversion H; subst m init. apply (pick_multi_repl_spec t nsel multi [] [] m0 eq_refl); [constructor| |exact E].
    intros j Hj. cbn in Hj. lia.
  - destruct (scan_plain t (has_init multi) multi None) as [last| |]; try discriminate.
    destruct (match last with Some l => tb_w t l | None => fc end) as [d|] eqn:Ed; [|discriminate].
    destruct (pick_multi_plain t (Some d) 0 multi []) as [m0|] eqn:E; [|discriminate].
    intro H; inversion H; subst m init. apply (pick_multi_plain_spec t (Some d) multi [] [] m0 eq_refl); [constructor| |exact E].
    intros j Hj. cbn in Hj. lia.
Qed.

(** results only grow, and one pass over a sub-batch assigns every one of its indices *)
Lemma dstep_grows pol cc hasinit attempts fl ps resps d i :
  incl (d_results d) (d_results (dstep pol cc hasinit attempts fl ps resps d i)) /\
  (forall ii cm r, nth_error ps i = Some (ii, cm) -> nth_error resps i = Some r ->
     In (ii, r) (d_results (dstep pol cc hasinit attempts fl ps resps d i))).
Proof.
  unfold dstep.
  destruct (nth_error ps i) as [[ii cm]|] eqn:Ep; [|split; [apply incl_refl|intros; discriminate]].
  destruct (nth_error resps i) as [r|] eqn:Er; [|split; [apply incl_refl|intros; discriminate]].
  assert (A : incl (d_results d) (d_results d ++ [(ii, r)])) by (apply incl_appl, incl_refl).
  assert (B : In (ii, r) (d_results d ++ [(ii, r)])) by (apply in_or_app; right; now left).
  destruct (classify r (rf_ctx fl) (rf_closed fl)); cbn [d_results];
    repeat match goal with
           | |- context [if ?b then _ else _] => destruct b
           end; cbn [d_results]; (split; [exact A|intros ii0 cm0 r0 E1 E2; inversion E1; inversion E2; subst; exact B]).
Qed.

Lemma doresultfn_assigns pol cc hasinit attempts fl ps resps acts redirects delay results :
  length resps = length ps ->
  let d := doresultfn pol cc hasinit attempts fl ps resps acts redirects delay results in
  incl results (d_results d) /\ forall ii cm, In (ii, cm) ps -> exists r, In (ii, r) (d_results d).
Proof.
  intros L d. subst d. unfold doresultfn.
  set (F := dstep pol cc hasinit attempts fl ps resps).
  assert (G : forall l d0, incl (d_results d0) (d_results (fold_left F l d0)) /\
                           forall i ii cm r, In i l -> nth_error ps i = Some (ii, cm) -> nth_error resps i = Some r ->
                                             In (ii, r) (d_results (fold_left F l d0))).
  { induction l as [|i l IH]; intros d0; cbn [fold_left]; [split; [apply incl_refl|intros ? ? ? ? []]|].
    destruct (IH (F d0 i)) as [I1 I2]. destruct (dstep_grows pol cc hasinit attempts fl ps resps d0 i) as [S1 S2].
    split; [eapply incl_tran; eauto|].
    intros j ii cm r [<-|Hin] Hp Hr; [apply I1; eapply S2; eauto|eauto]. }
  destruct (G (seq 0 (length resps)) (mkDrs (-1) (-1) acts redirects delay results)) as [G1 G2].
  split; [exact G1|]. intros ii cm Hin. apply In_nth_error in Hin. destruct Hin as [i Hi].
  assert (Hl : (i < length ps)%nat) by (apply nth_error_Some; rewrite Hi; discriminate).
  destruct (nth_error resps i) as [r|] eqn:Er; [|apply nth_error_None in Er; lia].
  exists r. eapply G2; eauto. apply in_seq. lia.
Qed.

Lemma do_group_assigns pol hasinit attempts fl st a g :
  let st' := do_group pol srv hasinit attempts fl st (a, g) in
  incl (r_results st) (r_results st') /\
  forall ii cm, In (ii, cm) (rg_cmds g) \/ In (ii, cm) (rg_asks g) -> exists r, In (ii, r) (r_results st').
Proof.
  unfold do_group.
  set (st1 := match rg_cmds g with [] => st | _ => _ end).
  assert (H1 : incl (r_results st) (r_results st1) /\ forall ii cm, In (ii, cm) (rg_cmds g) -> exists r, In (ii, r) (r_results st1)).
  { unfold st1. destruct (rg_cmds g) as [|p ps] eqn:Eg; [split; [apply incl_refl|intros ? ? []]|].
    destruct (exchange_on srv a (r_cnt st) (p :: ps)) as [rs cn] eqn:E.
    destruct (exchange_on_spec a _ _ _ _ E) as [L _].
    destruct (doresultfn_assigns pol a hasinit attempts fl (p :: ps) rs (r_acts st) (r_redirects st) (r_delay st) (r_results st) L) as [D1 D2].
    cbn [r_results]. split; assumption. }
  destruct H1 as [I1 A1].
  destruct (rg_asks g) as [|p ps] eqn:Eg.
  - split; [exact I1|]. intros ii cm [H|[]]. eauto.
  - destruct (exchange_on srv a (r_cnt st1) (p :: ps)) as [rs cn] eqn:E.
    destruct (exchange_on_spec a _ _ _ _ E) as [L _].
    destruct (doresultfn_assigns pol a hasinit attempts fl (p :: ps) rs (r_acts st1) (r_redirects st1) (r_delay st1) (r_results st1) L) as [D1 D2].
    cbn [r_results]. split; [eapply incl_tran; eauto|].
    intros ii cm [H|H]; [destruct (A1 ii cm H) as [r Hr]; exists r; now apply D1|eauto].
Qed.

Lemma fold_groups_assigns pol hasinit attempts fl : forall m st,
  let st' := fold_left (do_group pol srv hasinit attempts fl) m st in
  incl (r_results st) (r_results st') /\ forall i, covered m i -> exists r, In (i, r) (r_results st').
Proof.
  induction m as [|[a g] m IH]; intros st; cbn [fold_left].
  - split; [apply incl_refl|]. intros i [a0 [g0 [c0 [[] _]]]].
  - destruct (IH (do_group pol srv hasinit attempts fl st (a, g))) as [I1 I2].
    destruct (do_group_assigns pol hasinit attempts fl st a g) as [J1 J2].
    split; [eapply incl_tran; eauto|].
    intros i [a0 [g0 [c0 [[Hin|Hin] Hc]]]].
    + inversion Hin; subst. destruct (J2 i c0 Hc) as [r Hr]. exists r. now apply I1.
    + apply I2. exists a0, g0, c0. auto.
Qed.

Lemma rounds_grows (c : bcfg) hasinit : forall fuel k m attempts redirects asg cn sends asg' sends' out,
  rounds fuel c srv hasinit k m attempts redirects asg cn sends = (asg', sends', out) ->
  incl asg asg' /\ ((0 < fuel)%nat -> forall i, covered m i -> exists r, In (i, r) asg').
Proof.
  induction fuel as [|f IH]; intros k m attempts redirects asg cn sends asg' sends' out H.
  - cbn in H. inversion H; subst. split; [apply incl_refl|intro; lia].
  - cbn [rounds] in H.
    set (st := fold_left (do_group (bc_policy c) srv hasinit attempts (bc_flags c k)) m (mkRstate [] 0 (-1) asg cn [])) in *.
    destruct (fold_groups_assigns (bc_policy c) hasinit attempts (bc_flags c k) m (mkRstate [] 0 (-1) asg cn [])) as [I1 I2].
    fold st in I1, I2. cbn [r_results] in I1.
    assert (Hdone : (r_results st, sends ++ map (fun w => (k, w)) (r_sends st), BDone) = (asg', sends', out) ->
                    incl asg asg' /\ ((0 < S f)%nat -> forall i, covered m i -> exists r, In (i, r) asg')).
    { intro E; inversion E; subst. split; [exact I1|]. intros _ i Hc. now apply I2. }
    assert (Hgo : forall m' a' rd',
               rounds f c srv hasinit (S k) m' a' rd' (r_results st) (r_cnt st) (sends ++ map (fun w => (k, w)) (r_sends st)) = (asg', sends', out) ->
               incl asg asg' /\ ((0 < S f)%nat -> forall i, covered m i -> exists r, In (i, r) asg')).
    { intros m' a' rd' E. destruct (IH _ _ _ _ _ _ _ _ _ _ E) as [K1 _].
      split; [eapply incl_tran; eauto|]. intros _ i Hc. destruct (I2 i Hc) as [r Hr]. exists r. now apply K1. }
    destruct (apply_actions (bc_perm c k (r_acts st))) as [|x m'] eqn:Em; [now apply Hdone|].
    destruct (0 <? r_redirects st)%nat.
    + destruct ((0 <? bc_max c) && (bc_max c <? redirects + 1)); [now apply Hdone|eapply Hgo; exact H].
    + destruct (0 <=? r_delay st); [eapply Hgo; exact H|now apply Hdone].
Qed.

(** C20_order: with one unit of fuel or more, every position of the batch holds a reply that some
    node gave to the command at that position *)
Theorem domulti_positional (c : bcfg) t str nsel fc m init fuel asg sends out :
  (forall k l, Permutation (bc_perm c k l) l) ->
  pick_multi t str nsel fc multi = PickOk m init ->
  cluster_domulti (S fuel) c srv init m = (asg, sends, out) ->
  forall i cmd, nth_error multi i = Some cmd ->
    exists r a k, result_at asg i = Some r /\ r = srv cmd a k.
Proof.
  intros Hperm Hp H i cmd Hi. unfold cluster_domulti in H.
  destruct (pick_multi_spec _ _ _ _ _ _ Hp) as [Hok Hcov].
  pose proof (rounds_ok c init Hperm _ _ _ _ _ _ _ _ _ _ _ Hok (Forall_nil _) H) as Hall.
  destruct (rounds_grows c init _ _ _ _ _ _ _ _ _ _ _ H) as [_ Hc].
  assert (Hlt : (i < length multi)%nat) by (apply nth_error_Some; congruence).
  destruct (Hc ltac:(lia) i (Hcov i Hlt)) as [r0 Hr0].
  destruct (result_at_some asg i (ex_intro _ r0 Hr0)) as [r Hr].
  exists r. apply result_at_In in Hr as Hin. rewrite Forall_forall in Hall. destruct (Hall _ Hin) as [cm [a [k0 [Hn Hs]]]].
  cbn [fst snd] in *. rewrite Hi in Hn. inversion Hn; subst cm. exists a, k0. auto.
Qed.

End Order.

(** C28 for batches: a member that failed with a retry-class reply is queued again only if retries
    are enabled, the member is retryable and RetryDelay answered a non-negative delay *)
Lemma dstep_retry_gate pol cc hasinit attempts fl ps resps d i ii cm r :
  nth_error ps i = Some (ii, cm) -> nth_error resps i = Some r ->
  classify r (rf_ctx fl) (rf_closed fl) = ModeRetry ->
  d_acts (dstep pol cc hasinit attempts fl ps resps d i) <> d_acts d ->
  p_retry pol = true /\ b_retryable cm = true /\ 0 <= p_delay pol attempts r.
Proof.
  intros Ep Er CL Hne. unfold dstep in Hne. rewrite Ep, Er, CL in Hne. cbv zeta in Hne.
  destruct (true && (negb (p_retry pol && b_retryable cm) || (p_delay pol attempts r <? 0))) eqn:G.
  - exfalso. apply Hne. reflexivity.
  - cbn [andb] in G. apply orb_false_iff in G. destruct G as [G1 G2].
    apply negb_false_iff, andb_true_iff in G1. apply Z.ltb_ge in G2. tauto.
Qed.

(** … and the retried members make the loop wait: the round's delay is at least theirs *)
Lemma dstep_none_keeps pol cc hasinit attempts fl ps resps d i ii cm r :
  nth_error ps i = Some (ii, cm) -> nth_error resps i = Some r ->
  classify r (rf_ctx fl) (rf_closed fl) = ModeNone ->
  d_acts (dstep pol cc hasinit attempts fl ps resps d i) = d_acts d.
Proof. intros Ep Er CL. unfold dstep. rewrite Ep, Er, CL. reflexivity. Qed.

(** ---- the policy's bound is a bound on rounds (C28) ----
    Every round starts with its redirect count at 0 and its delay at -1 ([rounds]); a round without redirect that
    queued a retry waits and increments [attempts]; a round that saw a redirect does neither.  When the policy
    declines at [attempts] the round's delay stays -1, whatever the servers answer. *)
Lemma dstep_delay_declined pol cc hasinit attempts fl ps resps d i :
  (forall r, p_delay pol attempts r < 0) ->
  d_delay (dstep pol cc hasinit attempts fl ps resps d i) = d_delay d.
Proof.
  intros Hd. unfold dstep. destruct (nth_error ps i) as [[ii cm]|]; [|reflexivity].
  destruct (nth_error resps i) as [r|]; [|reflexivity]. cbv zeta.
  assert (E : (p_delay pol attempts r <? 0) = true) by (apply Z.ltb_lt; apply Hd).
  destruct (classify r (rf_ctx fl) (rf_closed fl)); cbn [andb d_delay].
  - reflexivity.
  - repeat match goal with |- context [if ?b then _ else _] => destruct b end; reflexivity.
  - repeat match goal with |- context [if ?b then _ else _] => destruct b end; reflexivity.
  - rewrite E, orb_true_r. reflexivity.
Qed.

Lemma doresultfn_delay_declined pol cc hasinit attempts fl ps resps acts redirects delay results :
  (forall r, p_delay pol attempts r < 0) ->
  d_delay (doresultfn pol cc hasinit attempts fl ps resps acts redirects delay results) = delay.
Proof.
  intros Hd. unfold doresultfn.
  assert (G : forall l st, d_delay (fold_left (dstep pol cc hasinit attempts fl ps resps) l st) = d_delay st).
  { induction l as [|x l IH]; intros st; cbn [fold_left]; [reflexivity|]. rewrite IH. now apply dstep_delay_declined. }
  now rewrite G.
Qed.

Lemma do_group_delay_declined pol srv hasinit attempts fl st ag :
  (forall r, p_delay pol attempts r < 0) -> r_delay (do_group pol srv hasinit attempts fl st ag) = r_delay st.
Proof.
  intros Hd. destruct ag as [a g]. unfold do_group.
  set (st1 := match rg_cmds g with [] => st | _ => _ end).
  assert (E1 : r_delay st1 = r_delay st).
  { unfold st1. destruct (rg_cmds g) as [|p ps]; [reflexivity|].
    destruct (exchange_on srv a (r_cnt st) (p :: ps)) as [rs cn]. cbn [r_delay]. now apply doresultfn_delay_declined. }
  destruct (rg_asks g) as [|p ps]; [exact E1|].
  destruct (exchange_on srv a (r_cnt st1) (p :: ps)) as [rs cn]. cbn [r_delay]. rewrite <- E1. now apply doresultfn_delay_declined.
Qed.

Lemma fold_groups_delay_declined pol srv hasinit attempts fl : forall m st,
  (forall r, p_delay pol attempts r < 0) ->
  r_delay (fold_left (do_group pol srv hasinit attempts fl) m st) = r_delay st.
Proof.
  induction m as [|ag m IH]; intros st Hd; cbn [fold_left]; [reflexivity|].
  rewrite IH by exact Hd. now apply do_group_delay_declined.
Qed.

(** a round run at an attempt number the policy declines ends the call unless a redirect was seen in it *)
Lemma rounds_declined_round_ends (c : bcfg) srv hasinit f k m attempts redirects asg cn sends :
  (forall r, p_delay (bc_policy c) attempts r < 0) ->
  let st := fold_left (do_group (bc_policy c) srv hasinit attempts (bc_flags c k)) m (mkRstate [] 0 (-1) asg cn []) in
  r_delay st = -1 /\
  (r_redirects st = 0%nat ->
   rounds (S f) c srv hasinit k m attempts redirects asg cn sends
   = (r_results st, sends ++ map (fun w => (k, w)) (r_sends st), BDone)).
Proof.
  intros Hd st. assert (E : r_delay st = -1).
  { unfold st. rewrite fold_groups_delay_declined by exact Hd. reflexivity. }
  split; [exact E|]. intro R0. cbn [rounds]. fold st. rewrite R0, E. cbn.
  destruct (apply_actions (bc_perm c k (r_acts st))); reflexivity.
Qed.

(** with a redirect limit: the round index of every write is at most (B - 1) + MaxMovedRedirections, where B is
    an attempt number from which the policy declines — the call makes at most B + MaxMovedRedirections rounds *)
Lemma rounds_tag_bound (c : bcfg) srv hasinit B :
  (forall a r, (B <= a)%nat -> p_delay (bc_policy c) a r < 0) -> 0 < bc_max c ->
  forall fuel k m attempts redirects asg cn sends asg' sends' out,
  rounds fuel c srv hasinit k m attempts redirects asg cn sends = (asg', sends', out) ->
  (attempts <= B)%nat -> redirects <= bc_max c ->
  Z.of_nat k = Z.of_nat attempts - 1 + redirects ->
  (forall k' w, In (k', w) sends -> Z.of_nat k' <= Z.of_nat B - 1 + bc_max c) ->
  forall k' w, In (k', w) sends' -> Z.of_nat k' <= Z.of_nat B - 1 + bc_max c.
Proof.
  intros Hd Hmax. induction fuel as [|f IH]; intros k m attempts redirects asg cn sends asg' sends' out H Ha Hr Hk Hs.
  - cbn in H. inversion H; subst. exact Hs.
  - cbn [rounds] in H.
    set (st := fold_left (do_group (bc_policy c) srv hasinit attempts (bc_flags c k)) m (mkRstate [] 0 (-1) asg cn [])) in *.
    assert (Hs' : forall k' w, In (k', w) (sends ++ map (fun w => (k, w)) (r_sends st)) -> Z.of_nat k' <= Z.of_nat B - 1 + bc_max c).
    { intros k' w Hin. apply in_app_or in Hin. destruct Hin as [Hin|Hin]; [eapply Hs; eauto|].
      apply in_map_iff in Hin. destruct Hin as [w0 [E _]]. inversion E; subst. lia. }
    destruct (apply_actions (bc_perm c k (r_acts st))) as [|x m'] eqn:Em.
    { inversion H; subst. exact Hs'. }
    destruct (0 <? r_redirects st)%nat.
    + destruct ((0 <? bc_max c) && (bc_max c <? redirects + 1)) eqn:G.
      * inversion H; subst. exact Hs'.
      * eapply IH; [exact H|exact Ha| | |exact Hs'].
        -- apply andb_false_iff in G. destruct G as [G|G]; [apply Z.ltb_ge in G; lia|apply Z.ltb_ge in G; lia].
        -- lia.
    + destruct (0 <=? r_delay st) eqn:G.
      * apply Z.leb_le in G.
        assert (Hlt : (attempts < B)%nat).
        { destruct (le_lt_dec B attempts) as [Hge|Hlt]; [|exact Hlt]. exfalso.
          assert (E : r_delay st = -1).
          { unfold st. rewrite fold_groups_delay_declined; [reflexivity|]. intro r. now apply Hd. }
          lia. }
        eapply IH; [exact H|lia|exact Hr| |exact Hs']. lia.
      * inversion H; subst. exact Hs'.
Qed.

Theorem domulti_rounds_bounded (c : bcfg) srv hasinit m fuel B asg sends out :
  (1 <= B)%nat -> (forall a r, (B <= a)%nat -> p_delay (bc_policy c) a r < 0) -> 0 < bc_max c ->
  cluster_domulti fuel c srv hasinit m = (asg, sends, out) ->
  forall k w, In (k, w) sends -> Z.of_nat k <= Z.of_nat B - 1 + bc_max c.
Proof.
  intros HB Hd Hmax H. unfold cluster_domulti in H.
  eapply (rounds_tag_bound c srv hasinit B Hd Hmax); [exact H|exact HB|lia|reflexivity|].
  intros k' w [].
Qed.

(** without a redirect limit the attempt counter is still bounded: a retry round is entered only below B *)
Lemma rounds_retry_round_below_bound (c : bcfg) srv hasinit B k m attempts asg cn :
  (forall a r, (B <= a)%nat -> p_delay (bc_policy c) a r < 0) ->
  let st := fold_left (do_group (bc_policy c) srv hasinit attempts (bc_flags c k)) m (mkRstate [] 0 (-1) asg cn []) in
  0 <= r_delay st -> (attempts < B)%nat.
Proof.
  intros Hd st G. destruct (le_lt_dec B attempts) as [Hge|Hlt]; [|exact Hlt]. exfalso.
  assert (E : r_delay st = -1).
  { unfold st. rewrite fold_groups_delay_declined; [reflexivity|]. intro r. now apply Hd. }
  lia.
Qed.
