(** C13, part 2b: a failed readB that reports "chunked" has not allocated; success of readBlobString
    carries no additive constant. *)
From Coq Require Import List Arith NArith ZArith Bool Lia ZifyN ZifyNat ZifyBool.
Require Import RV.Model.Base RV.Model.RespWrite RV.Model.Resp.
Require Import RV.Proofs.RespIOProofs RV.Proofs.RespBaseProofs RV.Proofs.RespSafetyBase RV.Proofs.RespSafetyScalars.
Import ListNotations.
Open Scope N_scope.

Lemma step_err_code B o s e : fst (flat_step B o s) = Err e -> e <> eChunked.
Proof.
  destruct o; cbn [flat_step]; try discriminate.
  - destruct s; cbn; intros H; inversion H; discriminate.
  - destruct (n <? 0)%Z; [cbn; intros H; inversion H; discriminate|].
    destruct (Z.to_N n <=? blen s); cbn; intros H; inversion H; discriminate.
  - destruct (find_lf (firstn B s)); [discriminate|]. destruct (B <=? length s)%nat; cbn; intros H; inversion H; discriminate.
  - destruct (find_lf s); cbn; intros H; inversion H; discriminate.
  - destruct (n =? 0); [discriminate|]. destruct (n <=? blen s); [discriminate|]. destruct s; cbn; intros H; inversion H; discriminate.
  - destruct (n <=? blen s); cbn; intros H; inversion H; discriminate.
  - destruct (n <=? blen s); discriminate.
Qed.

Lemma read_n_loop_not_chunked B : forall fuel L n cap acc s al s' al',
  run B (read_n_loop fuel L n cap acc) s al = (Err eChunked, s', al') -> False.
Proof.
  induction fuel as [|f IH]; intros L n cap acc s al s' al'.
  - cbn. intros Heq; inversion Heq.
  - cbn [read_n_loop]. rewrite run_bind.
    destruct (run B (do_op (OReadFull (Z.to_N (cap - n)))) s al) as [[r0 s0] al0] eqn:E.
    apply run_op_inv in E as [E ->].
    destruct r0 as [d|e|]; [| |cbn; intros Heq; inversion Heq].
    + destruct (cap =? L)%Z; [cbn; intros Heq; inversion Heq|].
      unfold bindr. rewrite run_bind.
      destruct (run B (alloc_make 1 (Z.min L (cap * 2))) s0 (meter (OReadFull (Z.to_N (cap - n))) al)) as [[r1 s1] al1] eqn:E1.
      apply alloc_make_spec in E1 as [-> [(-> & _)|(-> & _)]]; [cbn; intros Heq; inversion Heq|]. apply IH.
    + cbn [run]. pose proof (step_err_code B (OReadFull (Z.to_N (cap - n))) s e) as Hc. rewrite E in Hc. specialize (Hc eq_refl).
      intros Heq. inversion Heq as [Hx].
      destruct ((e =? eEOF) && (0 <? n)%Z); [discriminate Hx|congruence].
Qed.

Lemma read_b_chunked B s al s' al' : run B read_b s al = (Err eChunked, s', al') -> al' = al.
Proof.
  unfold read_b, bindr. rewrite run_bind.
  destruct (run B read_i s al) as [[r0 s0] al0] eqn:E0.
  apply read_i_spec in E0 as (_ & -> & _ & _).
  destruct r0 as [L|e|]; [|cbn [run]; intros Heq; inversion Heq; reflexivity|cbn; intros Heq; inversion Heq].
  destruct (L =? -1)%Z; [cbn; intros Heq; inversion Heq|].
  rewrite run_bind. destruct (run B (read_n L) s0 al) as [[r1 s1] al1] eqn:E1.
  destruct r1 as [bs|e|]; [| |cbn; intros Heq; inversion Heq].
  - rewrite run_bind. destruct (run B (do_op (ODiscard 2)) s1 al1) as [[r2 s2] al2] eqn:E2.
    apply run_op_inv in E2 as [E2 ->].
    destruct r2 as [d|e|]; cbn [run]; intros Heq; inversion Heq; subst.
    pose proof (step_err_code B (ODiscard 2) s1 eChunked) as Hc. rewrite E2 in Hc. now specialize (Hc eq_refl).
  - cbn [run]. intros Heq; inversion Heq; subst. exfalso.
    unfold read_n in E1. destruct (L <? 0)%Z; [cbn in E1; inversion E1|].
    unfold bindr in E1. rewrite run_bind in E1.
    destruct (run B (alloc_make 1 (Z.min L max_prealloc_bytes)) s0 al) as [[r2 s2] al2] eqn:E2.
    apply alloc_make_spec in E2 as [-> [(-> & _)|(-> & _)]]; [cbn in E1; inversion E1|].
    now apply read_n_loop_not_chunked in E1.
Qed.

Lemma read_blob_string_ok B cf s al x s' al' : blen s < input_bound ->
  run B (read_blob_string cf) s al = (Ok x, s', al') -> al' + 7 * blen s' <= al + 7 * blen s.
Proof.
  intros Hb. unfold read_blob_string. rewrite run_bind.
  destruct (run B read_b s al) as [[r0 s0] al0] eqn:E0.
  pose proof E0 as E0'. apply read_b_spec in E0; [|assumption]. destruct E0 as (Hp0 & Hs0 & Ha0 & Hok0).
  destruct r0 as [y|e|]; [| |congruence].
  - cbn [run]. intros Heq. apply triple_inv in Heq as (Hx & <- & <-). destruct (Hok0 y eq_refl). lia.
  - destruct (N.eqb_spec e eChunked) as [->|_].
    + apply read_b_chunked in E0'. subst al0.
      intros Hrun. apply chunk_loop_spec in Hrun; [|lia]. destruct Hrun as (H1 & H2 & H3 & H4).
      specialize (H4 x eq_refl). lia.
    + cbn [run]. intros Heq; inversion Heq.
Qed.
