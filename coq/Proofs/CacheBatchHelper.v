(** helper.go doMultiCache: the key -> reply map built from positional results. *)
From Coq Require Import String Ascii.
From Coq Require Import List Arith NArith ZArith Bool Lia.
Require Import RV.Model.Base RV.Model.CacheBatch RV.Proofs.CacheBatchBase.
Import ListNotations.
Open Scope nat_scope.

Lemma kv_get_set_same {B} k (v : B) m : kv_get k (kv_set k v m) = Some v.
Proof.
  induction m as [|[k' v'] m IH]; cbn [kv_set kv_get]; [now rewrite bytes_eqb_refl|].
  destruct (bytes_eqb k k') eqn:E; cbn [kv_get]; [now rewrite bytes_eqb_refl|]. now rewrite E.
Qed.

Lemma kv_get_set_other {B} k k' (v : B) m : k <> k' -> kv_get k' (kv_set k v m) = kv_get k' m.
Proof.
  intro Hne. induction m as [|[k2 v2] m IH]; cbn [kv_set kv_get].
  - destruct (bytes_eqb k' k) eqn:E; [apply list_eqb_N_eq in E; congruence|reflexivity].
  - destruct (bytes_eqb k k2) eqn:E; cbn [kv_get].
    + apply list_eqb_N_eq in E. subst k2.
      destruct (bytes_eqb k' k) eqn:E2; [apply list_eqb_N_eq in E2; congruence|reflexivity].
    + destruct (bytes_eqb k' k2); [reflexivity|exact IH].
Qed.

(** [f k] is the value every position of key [k] carries (positional results: the same command gets the
    same reply): the map then has exactly the input keys, each bound to its value. *)
Lemma helper_do_multi_cache_spec (f : key -> msg) : forall keys resps ret,
  Forall2 (fun k r => r_err r = None /\ r_val r = f k) keys resps ->
  exists m, helper_do_multi_cache keys resps ret = Ok (inl m) /\
    (forall k, In k keys -> kv_get k m = Some (f k)) /\
    (forall k, ~ In k keys -> kv_get k m = kv_get k ret).
Proof.
  intros keys resps ret H. revert ret. induction H as [|k r keys resps [He Hv] _ IH]; intro ret.
  - exists ret. cbn. split; [reflexivity|]. split; [intros k []|auto].
  - cbn [helper_do_multi_cache]. rewrite He.
    destruct (IH (kv_set k (r_val r) ret)) as (m & Hm & Hin & Hout).
    exists m. split; [assumption|]. split.
    + intros k' [<-|Hk']; [|now apply Hin].
      destruct (in_dec (list_eq_dec N.eq_dec) k keys) as [Hi|Hni]; [now apply Hin|].
      rewrite Hout by assumption. now rewrite kv_get_set_same, Hv.
    + intros k' Hn. rewrite Hout by (intro; apply Hn; now right).
      apply kv_get_set_other. intro; subst; apply Hn; now left.
Qed.

(** a transport-level error in any position makes the helper return that error and no map *)
Lemma helper_do_multi_cache_error : forall keys resps ret i r e,
  length keys = length resps -> nth_error resps i = Some r -> r_err r = Some e ->
  exists e', helper_do_multi_cache keys resps ret = Ok (inr e').
Proof.
  induction keys as [|k keys IH]; intros [|r0 resps] ret i r e Hl Hn He; try discriminate.
  - destruct i; discriminate.
  - cbn [helper_do_multi_cache]. destruct (r_err r0) as [e0|] eqn:E0; [eauto|].
    destruct i as [|i]; [cbn in Hn; injection Hn as ->; congruence|].
    cbn in Hn. eapply IH; eauto.
Qed.
