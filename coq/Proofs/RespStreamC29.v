(** C29 (byte level) glue: the statements over [payload] and the top-level [stream]. *)
From Coq Require Import List Arith NArith ZArith Bool Lia ZifyN ZifyNat ZifyBool.
Require Import RV.Model.Base RV.Model.RespWrite RV.Model.RespStream.
Require Import RV.Proofs.RespIOProofs RV.Proofs.RespScalarProofs RV.Proofs.RespRoundtrip RV.Proofs.RespStreamProofs
               RV.Proofs.RespStreamCounted RV.Proofs.RespStreamValues RV.Proofs.RespStreamChunks.
Import ListNotations.
Open Scope N_scope.

(** what streamTo writes is what a normal read returns: the string of the message, or the numeral of its integer *)
Lemma payload_is_read v p : payload v = Some p ->
  (m_typ (abs v) <> tInteger /\ m_typ (abs v) <> tBool /\ p = m_str (abs v)) \/
  ((m_typ (abs v) = tInteger \/ m_typ (abs v) = tBool) /\ p = decZ (m_ival (abs v))).
Proof.
  destruct v as [t s|t cs|t s|i|b|t|t st l|kvs st x]; cbn [payload abs m_typ m_str m_ival]; try discriminate.
  - destruct ((t =? tBlobString) || (t =? tVerbatim)) eqn:E; [|discriminate]. intros H; inversion H; subst. left.
    apply orb_true_iff in E as [E|E]; apply N.eqb_eq in E; subst; repeat split; discriminate.
  - destruct ((t =? tBlobString) || (t =? tVerbatim)) eqn:E; [|discriminate]. intros H; inversion H; subst. left.
    apply orb_true_iff in E as [E|E]; apply N.eqb_eq in E; subst; repeat split; discriminate.
  - destruct ((t =? tSimpleString) || (t =? tFloat) || (t =? tBigNumber)) eqn:E; [|discriminate]. intros H; inversion H; subst. left.
    repeat (apply orb_true_iff in E; destruct E as [E|E]); apply N.eqb_eq in E; subst; repeat split; discriminate.
  - intros H; inversion H; subst. right. auto.
  - intros H; inversion H; subst. right. split; [auto|]. destruct b; reflexivity.
Qed.

Section C29.
Variable B : nat.
Hypothesis HB : (32 <= B)%nat.

(** every streamable reply, with a writer that does not fail: exactly the payload is written, the
    reply is consumed exactly *)
Theorem stream_payload v p f rest w :
  wf v = true -> payload v = Some p -> unlimited w -> (cost v <= S f)%nat ->
  exists w', runw B (stream_to (S f)) (enc v ++ rest) w = ((zlen p, SNone, true), rest, w') /\ w_out w' = w_out w ++ p.
Proof.
  intros Hwf Hp Hw Hf.
  destruct v as [t s|t cs|t s|i|b|t|t st l|kvs st x]; cbn [payload] in Hp; try discriminate.
  - destruct ((t =? tBlobString) || (t =? tVerbatim)) eqn:E; [|discriminate]. inversion Hp; subst p.
    assert (Ht : t = tBlobString \/ t = tVerbatim) by (apply orb_true_iff in E as [E|E]; apply N.eqb_eq in E; auto).
    cbn [wf] in Hwf. apply andb_true_iff in Hwf as [_ Hs].
    assert (Hl : (zlen s + 2 < two63)%Z).
    { apply blob_ok_spec in Hs. unfold max_alloc, two63 in *. lia. }
    destruct (runw_stream_counted B HB f t s rest w Ht Hl) as (w' & E1 & E2).
    destruct (unlimited_write w s Hw) as (Ea & Ef & _ & _). rewrite Ea, Ef in E1. rewrite Ea in E2. eauto.
  - destruct ((t =? tBlobString) || (t =? tVerbatim)) eqn:E; [|discriminate]. inversion Hp; subst p.
    assert (Ht : t = tBlobString \/ t = tVerbatim) by (apply orb_true_iff in E as [E|E]; apply N.eqb_eq in E; auto).
    cbn [wf] in Hwf. apply andb_true_iff in Hwf as [_ Hcs].
    change (cost (VBlobStream t cs)) with (length cs + 2)%nat in Hf.
    apply (stream_streamed B HB f t cs rest w Ht Hcs Hw). lia.
  - destruct ((t =? tSimpleString) || (t =? tFloat) || (t =? tBigNumber)) eqn:E; [|discriminate]. inversion Hp; subst p.
    assert (Ht : t = tSimpleString \/ t = tFloat \/ t = tBigNumber).
    { repeat (apply orb_true_iff in E; destruct E as [E|E]); apply N.eqb_eq in E; auto. }
    cbn [wf] in Hwf. apply andb_true_iff in Hwf as [_ Hs].
    rewrite (stream_line B HB f t s rest w Ht Hs). unfold wres.
    destruct (unlimited_write w s Hw) as (Ea & Ef & _ & Eo). rewrite Ea, Ef. eauto.
  - inversion Hp; subst p. cbn [wf] in Hwf.
    assert (Hi : in_i64 i) by (unfold in_i64b, in_i64 in *; lia).
    rewrite (stream_int B HB f i rest w Hi). unfold wres.
    destruct (unlimited_write w (decZ i) Hw) as (Ea & Ef & _ & Eo). rewrite Ea, Ef. eauto.
  - inversion Hp; subst p.
    rewrite (stream_bool B HB f b rest w). unfold wres.
    destruct b.
    + destruct (unlimited_write w [49] Hw) as (Ea & Ef & _ & Eo). rewrite Ea, Ef. eauto.
    + destruct (unlimited_write w [48] Hw) as (Ea & Ef & _ & Eo). rewrite Ea, Ef. eauto.
Qed.

(** the same at the entry point [stream] (fuel computed from the input) *)
Theorem stream_payload_top v p rest : wf v = true -> payload v = Some p ->
  stream B None (enc v ++ rest) = ((zlen p, SNone, true), rest, p).
Proof.
  intros Hwf Hp. unfold stream.
  assert (Hfuel : exists f, fuel_for (length (enc v ++ rest)) = S f /\ (cost v <= S f)%nat).
  { unfold fuel_for. rewrite app_length. pose proof (cost_le_enc v).
    exists (2 * (length (enc v) + length rest) + 3)%nat. split; lia. }
  destruct Hfuel as (f & -> & Hf).
  destruct (stream_payload v p f rest (w_init None) Hwf Hp eq_refl Hf) as (w' & E & Eo).
  rewrite E. cbn [w_init w_out app] in Eo. now rewrite Eo.
Qed.

(** a writer that fails after k bytes, for the replies that are copied with a single Write / io.Copy:
    the first k payload bytes are written, the writer's error is returned, and the reply is still
    consumed exactly (clean) *)
Definition single_copy (v : rv) : bool :=
  match v with VBlobStream _ _ => false | _ => true end.

Theorem stream_writer_fails v p f rest (k : N) out :
  wf v = true -> payload v = Some p -> single_copy v = true -> (cost v <= S f)%nat ->
  let w := {| w_budget := Some k; w_out := out; w_failed := false |} in
  let d := firstn (Nat.min (N.to_nat k) (length p)) p in
  exists w',
    runw B (stream_to (S f)) (enc v ++ rest) w =
      ((zlen d, (if k <? blen p then SErr eWriter else SNone), true), rest, w') /\
    w_out w' = out ++ d.
Proof.
  intros Hwf Hp Hsc Hf w d.
  assert (Hwr : forall x, accepted w x = firstn (Nat.min (N.to_nat k) (length x)) x /\
                          w_failed (snd (w_write w x)) = (k <? blen x) /\
                          w_out (snd (w_write w x)) = out ++ firstn (Nat.min (N.to_nat k) (length x)) x).
  { intros x. pose proof (w_write_spec (Some k) out false x) as (H1 & H2 & H3). cbv zeta in *. unfold accepted. auto. }
  destruct v as [t s|t cs|t s|i|b|t|t st l|kvs st x]; cbn [payload] in Hp; try discriminate.
  - destruct ((t =? tBlobString) || (t =? tVerbatim)) eqn:E; [|discriminate]. inversion Hp; subst p.
    assert (Ht : t = tBlobString \/ t = tVerbatim) by (apply orb_true_iff in E as [E|E]; apply N.eqb_eq in E; auto).
    cbn [wf] in Hwf. apply andb_true_iff in Hwf as [_ Hs].
    assert (Hl : (zlen s + 2 < two63)%Z).
    { apply blob_ok_spec in Hs. unfold max_alloc, two63 in *. lia. }
    destruct (runw_stream_counted B HB f t s rest w Ht Hl) as (w' & E1 & E2).
    destruct (Hwr s) as (Ea & Ef & _). rewrite Ea, Ef in E1. rewrite Ea in E2. exists w'. split; [exact E1|exact E2].
  - destruct ((t =? tSimpleString) || (t =? tFloat) || (t =? tBigNumber)) eqn:E; [|discriminate]. inversion Hp; subst p.
    assert (Ht : t = tSimpleString \/ t = tFloat \/ t = tBigNumber).
    { repeat (apply orb_true_iff in E; destruct E as [E|E]); apply N.eqb_eq in E; auto. }
    cbn [wf] in Hwf. apply andb_true_iff in Hwf as [_ Hs].
    rewrite (stream_line B HB f t s rest w Ht Hs). unfold wres.
    destruct (Hwr s) as (Ea & Ef & Eo). rewrite Ea, Ef. eauto.
  - inversion Hp; subst p. cbn [wf] in Hwf.
    assert (Hi : in_i64 i) by (unfold in_i64b, in_i64 in *; lia).
    rewrite (stream_int B HB f i rest w Hi). unfold wres.
    destruct (Hwr (decZ i)) as (Ea & Ef & Eo). rewrite Ea, Ef. eauto.
  - inversion Hp; subst p.
    rewrite (stream_bool B HB f b rest w). unfold wres. subst d.
    destruct b.
    + destruct (Hwr [49]) as (Ea & Ef & Eo). rewrite Ea, Ef. eauto.
    + destruct (Hwr [48]) as (Ea & Ef & Eo). rewrite Ea, Ef. eauto.
Qed.

End C29.
