(** Proofs about Model/Dedicated.v (C25, C27_tracking_off). *)
From Coq Require Import String List Arith NArith ZArith Bool Lia.
Require Import RV.Model.Base RV.Model.PsBase RV.Model.Dedicated.
Import ListNotations.
Open Scope N_scope.
Open Scope list_scope.

(** * replaying the log against the "set of holders" specification *)
Fixpoint replay (hs : list (N * holder)) (l : list ev) : option (list (N * holder)) :=
  match l with
  | [] => Some hs
  | EvAcq w h :: r => match holder_of w hs with Some _ => None | None => replay ((w, h) :: hs) r end
  | EvCmd w h _ :: r => match holder_of w hs with Some h' => if holder_eqb h h' then replay hs r else None | None => None end
  | EvRel w h _ :: r => match holder_of w hs with Some h' => if holder_eqb h h' then replay (drop_holder w hs) r else None | None => None end
  end.

Lemma log_ok_replay : forall l hs, log_ok hs l = true <-> exists hs', replay hs l = Some hs'.
Proof.
  induction l as [|e l IH]; intros hs; cbn.
  - split; eauto.
  - destruct e as [w h|w h c|w h i]; destruct (holder_of w hs) as [h'|]; try (split; [discriminate|intros [x Hx]; discriminate]).
    + apply IH.
    + destruct (holder_eqb h h'); cbn; [apply IH|split; [discriminate|intros [x Hx]; discriminate]].
    + destruct (holder_eqb h h'); cbn; [apply IH|split; [discriminate|intros [x Hx]; discriminate]].
Qed.

Lemma replay_app : forall l1 l2 hs, replay hs (l1 ++ l2) = match replay hs l1 with Some hs' => replay hs' l2 | None => None end.
Proof.
  induction l1 as [|e l1 IH]; intros l2 hs; [reflexivity|]. cbn.
  destruct e as [w h|w h c|w h i]; destruct (holder_of w hs) as [h'|]; auto; destruct (holder_eqb h h'); auto.
Qed.

Lemma holder_eqb_refl : forall h, holder_eqb h h = true.
Proof. destruct h; cbn; apply N.eqb_refl. Qed.

Lemma holder_of_drop_same : forall w hs, holder_of w (drop_holder w hs) = None.
Proof.
  induction hs as [|[w' h] hs IH]; [reflexivity|]. cbn. destruct (N.eqb w' w) eqn:E; [exact IH|]. cbn. rewrite E. exact IH.
Qed.

Lemma holder_of_drop_other : forall w w' hs, w' <> w -> holder_of w' (drop_holder w hs) = holder_of w' hs.
Proof.
  intros w w' hs Hne. induction hs as [|[w0 h] hs IH]; [reflexivity|]. cbn.
  destruct (N.eqb w0 w) eqn:E.
  - apply N.eqb_eq in E. subst w0. assert (N.eqb w w' = false) by (apply N.eqb_neq; congruence). rewrite H. exact IH.
  - cbn. destruct (N.eqb w0 w'); [reflexivity|exact IH].
Qed.

(** * wires *)
Lemma find_upd_wire : forall f w w0 l, (forall x, w_id (f x) = w_id x) ->
  find_wire w (upd_wire f w0 l) = if N.eqb w w0 then option_map f (find_wire w l) else find_wire w l.
Proof.
  intros f w w0 l Hf. induction l as [|x l IH]; [destruct (N.eqb w w0); reflexivity|]. cbn.
  destruct (N.eqb (w_id x) w0) eqn:E0.
  - rewrite Hf. destruct (N.eqb (w_id x) w) eqn:E.
    + apply N.eqb_eq in E0, E. assert (N.eqb w w0 = true) by (apply N.eqb_eq; congruence). rewrite H. reflexivity.
    + exact IH.
  - destruct (N.eqb (w_id x) w) eqn:E.
    + apply N.eqb_eq in E. apply N.eqb_neq in E0. assert (N.eqb w w0 = false) by (apply N.eqb_neq; congruence). rewrite H. reflexivity.
    + exact IH.
Qed.

Lemma find_wire_app : forall w l1 l2, find_wire w (l1 ++ l2) = match find_wire w l1 with Some x => Some x | None => find_wire w l2 end.
Proof. induction l1 as [|x l1 IH]; intros l2; [reflexivity|]. cbn. destruct (N.eqb (w_id x) w); [reflexivity|apply IH]. Qed.

Lemma find_wire_in : forall w l x, find_wire w l = Some x -> In x l /\ w_id x = w.
Proof.
  induction l as [|y l IH]; intros x H; [discriminate|]. cbn in H. destruct (N.eqb (w_id y) w) eqn:E.
  - injection H as <-. split; [left; reflexivity|apply N.eqb_eq; exact E].
  - destruct (IH x H). split; [right|]; assumption.
Qed.

Lemma find_wire_none_lt : forall w l, (forall x, In x l -> w_id x < w) -> find_wire w l = None.
Proof.
  induction l as [|y l IH]; intros H; [reflexivity|]. cbn.
  destruct (N.eqb (w_id y) w) eqn:E.
  - apply N.eqb_eq in E. specialize (H y (or_introl eq_refl)). lia.
  - apply IH. intros x Hx. apply H. right. exact Hx.
Qed.

Definition held (s : dstate) (w : N) : option holder :=
  match find_wire w (d_wires s) with Some x => w_holder x | None => None end.

Lemma find_dc_in : forall d l c, find_dc d l = Some c -> In c l /\ dc_id c = d.
Proof.
  induction l as [|y l IH]; intros c H; [discriminate|]. cbn in H. destruct (N.eqb (dc_id y) d) eqn:E.
  - injection H as <-. split; [left; reflexivity|apply N.eqb_eq; exact E].
  - destruct (IH c H). split; [right|]; assumption.
Qed.

Lemma find_dc_none : forall d l, find_dc d l = None -> forall c, In c l -> dc_id c <> d.
Proof.
  induction l as [|y l IH]; intros H c Hin; [contradiction|]. cbn in H.
  destruct (N.eqb (dc_id y) d) eqn:E; [discriminate|]. destruct Hin as [<-|Hin]; [apply N.eqb_neq; exact E|apply IH; assumption].
Qed.

(** * the invariant *)
Record dinv (s : dstate) : Prop := {
  di_replay : exists hs, replay [] (d_log s) = Some hs /\ forall w, holder_of w hs = held s w;
  di_lt : forall x, In x (d_wires s) -> w_id x < d_next s;
  di_idle : forall w, In w (d_idle s) -> exists x, find_wire w (d_wires s) = Some x /\ w_holder x = None /\ w_dead x = false;
  di_clients : forall c, In c (d_clients s) -> dc_mark c = false ->
                 exists x, find_wire (dc_wire c) (d_wires s) = Some x /\ w_holder x = Some (HDed (dc_id c));
  di_cl_nodup : NoDup (map dc_id (d_clients s));
  di_idle_nodup : NoDup (d_idle s)
}.

Lemma dinv_init : forall f v, dinv (dinit f v).
Proof.
  intros f v. constructor; cbn; try (intros; contradiction); try constructor.
  exists []. split; [reflexivity|]. intros w. reflexivity.
Qed.

(** appending events issued by the current holder of a wire that stays held *)
Lemma replay_cmds : forall hs w h cs,
  holder_of w hs = Some h -> replay hs (map (fun c => EvCmd w h c) cs) = Some hs.
Proof.
  intros hs w h cs H. induction cs as [|c cs IH]; [reflexivity|]. cbn. rewrite H, holder_eqb_refl. exact IH.
Qed.

Lemma held_upd : forall s f w0 w, (forall x, w_id (f x) = w_id x) ->
  match find_wire w (upd_wire f w0 (d_wires s)) with Some x => w_holder x | None => None end =
  if N.eqb w w0 then match find_wire w (d_wires s) with Some x => w_holder (f x) | None => None end else held s w.
Proof.
  intros s f w0 w Hf. rewrite find_upd_wire by exact Hf. unfold held.
  destruct (N.eqb w w0); [destruct (find_wire w (d_wires s)); reflexivity|reflexivity].
Qed.

(** T1: pool.Acquire *)
Lemma acquire_inv : forall s h s1 w, dinv s -> pool_acquire s h = (s1, w) ->
  dinv s1 /\ held s1 w = Some h /\ d_clients s1 = d_clients s /\ d_res s1 = d_res s /\ d_shared s1 = d_shared s /\
  d_log s1 = d_log s ++ [EvAcq w h] /\ held s w = None /\ ~ In w (d_idle s1) /\
  (forall w', w' <> w -> held s1 w' = held s w').
Proof.
  intros s h s1 w [Hrep Hlt Hidle Hcl Hnd Hind] Hacq. unfold pool_acquire in Hacq.
  destruct Hrep as [hs [Hr Hh]].
  destruct (d_idle s) as [|w0 rest] eqn:Ei.
  - (* a new connection *)
    injection Hacq as <- <-.
    assert (Hnone : find_wire (d_next s) (d_wires s) = None) by (apply find_wire_none_lt; exact Hlt).
    assert (Hheld : forall w', held {| d_wires := d_wires s ++ [mkWire (d_next s) (Some h) false false false false (d_v7 s) false false];
                         d_idle := []; d_next := d_next s + 1; d_clients := d_clients s; d_log := d_log s ++ [EvAcq (d_next s) h];
                         d_res := d_res s; d_shared := d_shared s; d_v7 := d_v7 s |} w' =
                     if N.eqb w' (d_next s) then Some h else held s w').
    { intros w'. unfold held. cbn [d_wires]. rewrite find_wire_app. cbn [find_wire w_id].
      destruct (N.eqb w' (d_next s)) eqn:E.
      - apply N.eqb_eq in E. subst w'. rewrite Hnone, N.eqb_refl. reflexivity.
      - destruct (find_wire w' (d_wires s)); [reflexivity|]. rewrite N.eqb_sym, E. reflexivity. }
    split; [constructor; cbn [d_wires d_idle d_next d_clients d_log]|].
    + exists ((d_next s, h) :: hs). split.
      * rewrite replay_app, Hr. cbn. rewrite Hh. unfold held. rewrite Hnone. reflexivity.
      * intros w'. rewrite Hheld. cbn. rewrite N.eqb_sym. destruct (N.eqb w' (d_next s)); [reflexivity|apply Hh].
    + intros x Hx. apply in_app_or in Hx. destruct Hx as [Hx|[<-|[]]]; [specialize (Hlt x Hx); lia|cbn; lia].
    + intros w' [].
    + intros c Hc Hm. destruct (Hcl c Hc Hm) as [x [A B]]. exists x. split; [|exact B]. rewrite find_wire_app, A. reflexivity.
    + exact Hnd.
    + constructor.
    + split; [rewrite Hheld, N.eqb_refl; reflexivity|]. repeat split; auto.
      * unfold held. rewrite Hnone. reflexivity.
      * intros w' Hne. rewrite Hheld. apply N.eqb_neq in Hne. rewrite Hne. reflexivity.
  - (* an idle wire *)
    injection Hacq as <- <-.
    destruct (Hidle w0 (or_introl eq_refl)) as [x0 [F0 [H0 D0]]].
    set (f := fun x => mkWire (w_id x) (Some h) (w_hooks x) (w_inval x) (w_bg x) (w_blocked x) (w_v7 x) (w_tracking x) (w_dead x)).
    assert (Hfid : forall x, w_id (f x) = w_id x) by reflexivity.
    assert (Hheld : forall w', held {| d_wires := upd_wire f w0 (d_wires s); d_idle := rest; d_next := d_next s; d_clients := d_clients s;
                         d_log := d_log s ++ [EvAcq w0 h]; d_res := d_res s; d_shared := d_shared s; d_v7 := d_v7 s |} w' =
                     if N.eqb w' w0 then Some h else held s w').
    { intros w'. unfold held at 1. cbn [d_wires]. rewrite (held_upd s f w0 w' Hfid).
      destruct (N.eqb w' w0) eqn:E; [|reflexivity]. apply N.eqb_eq in E. subst w'. rewrite F0. reflexivity. }
    inversion Hind as [|? ? Hnotin Hind']; subst.
    split; [constructor; cbn [d_wires d_idle d_next d_clients d_log]|].
    + exists ((w0, h) :: hs). split.
      * rewrite replay_app, Hr. cbn. rewrite Hh. unfold held. rewrite F0, H0. reflexivity.
      * intros w'. rewrite Hheld. cbn. rewrite N.eqb_sym. destruct (N.eqb w' w0); [reflexivity|apply Hh].
    + intros x Hx. unfold upd_wire in Hx. apply in_map_iff in Hx. destruct Hx as [y [<- Hy]].
      destruct (N.eqb (w_id y) w0); [cbn|]; apply Hlt; exact Hy.
    + intros w' Hw'. destruct (Hidle w' (or_intror Hw')) as [x [A [B C]]].
      assert (Hne : N.eqb w' w0 = false) by (apply N.eqb_neq; intros ->; contradiction).
      rewrite find_upd_wire by exact Hfid. rewrite Hne. eauto.
    + intros c Hc Hm. destruct (Hcl c Hc Hm) as [x [A B]]. rewrite find_upd_wire by exact Hfid.
      destruct (N.eqb (dc_wire c) w0) eqn:E.
      * apply N.eqb_eq in E. rewrite E in A. rewrite A in F0. injection F0 as <-. congruence.
      * eauto.
    + exact Hnd.
    + exact Hind'.
    + split; [rewrite Hheld, N.eqb_refl; reflexivity|]. repeat split; auto.
      * unfold held. rewrite F0. exact H0.
      * intros w' Hne. rewrite Hheld. apply N.eqb_neq in Hne. rewrite Hne. reflexivity.
Qed.

Lemma held_not_idle : forall s w h, dinv s -> held s w = Some h -> ~ In w (d_idle s).
Proof.
  intros s w h I Hh Hin. destruct (di_idle _ I w Hin) as [x [A [B _]]]. unfold held in Hh. rewrite A in Hh. congruence.
Qed.

(** T2: a command (or a state change) of the holder on its wire *)
Lemma cmd_inv : forall s w h cs (f : wire -> wire),
  dinv s -> held s w = Some h ->
  (forall x, w_id (f x) = w_id x /\ w_holder (f x) = w_holder x) ->
  dinv (mkD (upd_wire f w (d_wires s)) (d_idle s) (d_next s) (d_clients s) (d_log s ++ map (fun c => EvCmd w h c) cs)
            (d_res s) (d_shared s) (d_v7 s)).
Proof.
  intros s w h cs f I Hh Hf. pose proof (held_not_idle s w h I Hh) as Hni.
  destruct I as [[hs [Hr Hhs]] Hlt Hidle Hcl Hnd Hind].
  assert (Hfid : forall x, w_id (f x) = w_id x) by (intros x; apply Hf).
  assert (Hheld' : forall w', held (mkD (upd_wire f w (d_wires s)) (d_idle s) (d_next s) (d_clients s) (d_log s ++ map (fun c => EvCmd w h c) cs)
            (d_res s) (d_shared s) (d_v7 s)) w' = held s w').
  { intros w'. unfold held at 1. cbn [d_wires]. rewrite (held_upd s f w w' Hfid). unfold held.
    destruct (N.eqb w' w); [|reflexivity]. destruct (find_wire w' (d_wires s)); [apply Hf|reflexivity]. }
  constructor; cbn [d_wires d_idle d_next d_clients d_log].
  - exists hs. split.
    + rewrite replay_app, Hr. apply replay_cmds. rewrite Hhs. exact Hh.
    + intros w'. rewrite Hheld'. apply Hhs.
  - intros x Hx. unfold upd_wire in Hx. apply in_map_iff in Hx. destruct Hx as [y [<- Hy]].
    destruct (N.eqb (w_id y) w); [rewrite Hfid|]; apply Hlt; exact Hy.
  - intros w' Hw'. destruct (Hidle w' Hw') as [x [A [B C]]].
    rewrite find_upd_wire by exact Hfid.
    destruct (N.eqb w' w) eqn:E; [apply N.eqb_eq in E; subst w'; contradiction|eauto].
  - intros c Hc Hm. destruct (Hcl c Hc Hm) as [x [A B]]. rewrite find_upd_wire by exact Hfid.
    destruct (N.eqb (dc_wire c) w); [rewrite A; cbn; eexists; split; [reflexivity|]; destruct (Hf x) as [_ X]; rewrite X; exact B|eauto].
  - exact Hnd.
  - exact Hind.
Qed.

(** T3: giving a wire back: the holder's last commands, the release marker, the wire idle again unless it is dead *)
Lemma release_inv : forall s w h x cs (g : wire -> wire) idle',
  dinv s -> find_wire w (d_wires s) = Some x -> w_holder x = Some h ->
  (forall y, w_id (g y) = w_id y /\ w_holder (g y) = None) ->
  (forall c, In c (d_clients s) -> dc_mark c = false -> dc_wire c <> w) ->
  dinv (mkD (upd_wire g w (d_wires s)) (if w_dead (g x) then d_idle s else w :: d_idle s) (d_next s) (d_clients s)
            (d_log s ++ map (fun c => EvCmd w h c) cs ++ [EvRel w h idle']) (d_res s) (d_shared s) (d_v7 s)).
Proof.
  intros s w h x cs g idle' I Fw Hx Hg Hcw.
  assert (Hh : held s w = Some h) by (unfold held; rewrite Fw; exact Hx).
  pose proof (held_not_idle s w h I Hh) as Hni.
  destruct I as [[hs [Hr Hhs]] Hlt Hidle Hcl Hnd Hind].
  assert (Hgid : forall y, w_id (g y) = w_id y) by (intros y; apply Hg).
  assert (Hheld' : forall w', held (mkD (upd_wire g w (d_wires s)) (if w_dead (g x) then d_idle s else w :: d_idle s) (d_next s) (d_clients s)
            (d_log s ++ map (fun c => EvCmd w h c) cs ++ [EvRel w h idle']) (d_res s) (d_shared s) (d_v7 s)) w' =
            if N.eqb w' w then None else held s w').
  { intros w'. unfold held at 1. cbn [d_wires]. rewrite (held_upd s g w w' Hgid).
    destruct (N.eqb w' w) eqn:E; [|reflexivity]. apply N.eqb_eq in E. subst w'. rewrite Fw. apply Hg. }
  constructor; cbn [d_wires d_idle d_next d_clients d_log].
  - exists (drop_holder w hs). split.
    + rewrite replay_app, Hr, replay_app, replay_cmds by (rewrite Hhs; exact Hh). cbn. rewrite Hhs, Hh, holder_eqb_refl. reflexivity.
    + intros w'. rewrite Hheld'. destruct (N.eqb w' w) eqn:E.
      * apply N.eqb_eq in E. subst w'. apply holder_of_drop_same.
      * apply N.eqb_neq in E. rewrite holder_of_drop_other by exact E. apply Hhs.
  - intros y Hy. unfold upd_wire in Hy. apply in_map_iff in Hy. destruct Hy as [z [<- Hz]].
    destruct (N.eqb (w_id z) w); [rewrite Hgid|]; apply Hlt; exact Hz.
  - intros w' Hw'.
    assert (Hold : In w' (d_idle s) -> exists y, find_wire w' (upd_wire g w (d_wires s)) = Some y /\ w_holder y = None /\ w_dead y = false).
    { intros Hin. destruct (Hidle w' Hin) as [y [A [B C]]]. rewrite find_upd_wire by exact Hgid.
      destruct (N.eqb w' w) eqn:E; [apply N.eqb_eq in E; subst w'; contradiction|eauto]. }
    destruct (w_dead (g x)) eqn:Ed; [apply Hold; exact Hw'|].
    destruct Hw' as [<-|Hw']; [|apply Hold; exact Hw'].
    rewrite find_upd_wire by exact Hgid. rewrite N.eqb_refl, Fw. cbn. eexists. split; [reflexivity|]. split; [apply Hg|exact Ed].
  - intros c Hc Hm. destruct (Hcl c Hc Hm) as [y [A B]]. rewrite find_upd_wire by exact Hgid.
    specialize (Hcw c Hc Hm). apply N.eqb_neq in Hcw. rewrite Hcw. eauto.
  - exact Hnd.
  - destruct (w_dead (g x)); [exact Hind|]. constructor; assumption.
Qed.

Lemma store_events_shape : forall x h, exists cs b,
  store_events x h = map (fun c => EvCmd (w_id x) h c) cs ++ [EvRel (w_id x) h b].
Proof.
  intros x h. unfold store_events.
  destruct (w_dead x), (w_blocked x), (w_bg x), (w_inval x); cbn;
    first [ exists []; eexists; reflexivity
          | eexists [_]; eexists; reflexivity
          | eexists [_; _]; eexists; reflexivity ].
Qed.

Lemma store_inv : forall s w h x,
  dinv s -> find_wire w (d_wires s) = Some x -> w_holder x = Some h ->
  (forall c, In c (d_clients s) -> dc_mark c = false -> dc_wire c <> w) ->
  dinv (mux_store s w h).
Proof.
  intros s w h x I Fw Hx Hcw. unfold mux_store. rewrite Fw.
  destruct (store_events_shape x h) as [cs [b E]]. rewrite E.
  destruct (find_wire_in _ _ _ Fw) as [_ Hid]. rewrite Hid.
  apply (release_inv s w h x cs stored_wire b I Fw Hx); auto.
Qed.

(** * the step lemma *)
Lemma dinv_frame : forall s s',
  d_wires s' = d_wires s -> d_idle s' = d_idle s -> d_next s' = d_next s -> d_clients s' = d_clients s -> d_log s' = d_log s ->
  dinv s -> dinv s'.
Proof.
  intros s s' A B C D E [Hr Hlt Hidle Hcl Hnd Hind].
  constructor; unfold held in *; rewrite ?A, ?B, ?C, ?D, ?E; auto.
Qed.

(** marking a client recycled only weakens what the invariant asks of the clients *)
Lemma dinv_mark : forall s d, dinv s ->
  dinv (set_clients s (upd_dc (fun c => mkDC (dc_id c) (dc_wire c) true) d (d_clients s))).
Proof.
  intros s d [Hr Hlt Hidle Hcl Hnd Hind]. constructor; cbn; auto.
  - intros c Hc Hm. unfold upd_dc in Hc. apply in_map_iff in Hc. destruct Hc as [c0 [<- Hc0]].
    destruct (N.eqb (dc_id c0) d); [discriminate|]. apply Hcl; assumption.
  - unfold upd_dc. rewrite map_map. erewrite map_ext; [exact Hnd|]. intros c. destruct (N.eqb (dc_id c) d); reflexivity.
Qed.

(** two live dedicated clients never share a wire *)
Lemma live_wire_unique : forall s c1 c2, dinv s -> In c1 (d_clients s) -> In c2 (d_clients s) ->
  dc_mark c1 = false -> dc_mark c2 = false -> dc_wire c1 = dc_wire c2 -> dc_id c1 = dc_id c2.
Proof.
  intros s c1 c2 I H1 H2 M1 M2 E. destruct (di_clients _ I c1 H1 M1) as [x1 [A1 B1]]. destruct (di_clients _ I c2 H2 M2) as [x2 [A2 B2]].
  rewrite E in A1. rewrite A1 in A2. injection A2 as <-. congruence.
Qed.

Lemma in_upd_dc_other : forall d c l, In c (upd_dc (fun c => mkDC (dc_id c) (dc_wire c) true) d l) -> dc_mark c = false ->
  In c l /\ dc_id c <> d.
Proof.
  intros d c l H Hm. unfold upd_dc in H. apply in_map_iff in H. destruct H as [c0 [E Hc0]].
  destruct (N.eqb (dc_id c0) d) eqn:Eq; subst c; [discriminate|]. split; [exact Hc0|apply N.eqb_neq; exact Eq].
Qed.

Lemma user_cmd_inv : forall s w h a f, dinv s -> held s w = Some h ->
  (forall x, w_id (f x) = w_id x /\ w_holder (f x) = w_holder x) -> dinv (user_cmd s w h a f).
Proof.
  intros s w h a f I Hh Hf. unfold user_cmd. destruct (wire_dead s w); [exact I|].
  unfold log_cmd. apply (cmd_inv s w h [WUser a] f I Hh Hf).
Qed.

Lemma user_cmd_fields : forall s w h a f,
  d_clients (user_cmd s w h a f) = d_clients s /\ (forall w', (forall x, w_id (f x) = w_id x /\ w_holder (f x) = w_holder x) -> held (user_cmd s w h a f) w' = held s w').
Proof.
  intros s w h a f. unfold user_cmd. destruct (wire_dead s w); [split; auto|]. split; [reflexivity|].
  intros w' Hf. unfold held, log_cmd. cbn [d_wires]. rewrite find_upd_wire by (intros x; apply Hf).
  destruct (N.eqb w' w); [|reflexivity]. destruct (find_wire w' (d_wires s)); [cbn; apply Hf|reflexivity].
Qed.

Lemma add_res_inv : forall s d r, dinv s -> dinv (add_res s d r).
Proof. intros s d r I. eapply dinv_frame; [..|exact I]; reflexivity. Qed.

Lemma client_holds : forall s d c, dinv s -> find_dc d (d_clients s) = Some c -> dc_mark c = false ->
  held s (dc_wire c) = Some (HDed d) /\ exists x, find_wire (dc_wire c) (d_wires s) = Some x /\ w_holder x = Some (HDed d).
Proof.
  intros s d c I F M. destruct (find_dc_in _ _ _ F) as [Hin Hid]. destruct (di_clients _ I c Hin M) as [x [A B]].
  rewrite Hid in B. split; [unfold held; rewrite A; exact B|eauto].
Qed.

Lemma dinv_step : forall s l s', dinv s -> dstep s l = Some s' -> dinv s'.
Proof.
  intros s l s' I H. destruct l; cbn [dstep] in H.
  - (* DAcquire *)
    destruct (find_dc d (d_clients s)) eqn:F; [discriminate|].
    destruct (pool_acquire s (HDed d)) as [s1 w] eqn:A. injection H as <-.
    destruct (acquire_inv s (HDed d) s1 w I A) as [I1 [Hh [Hc [_ [_ [_ [_ [_ _]]]]]]]].
    destruct I1 as [Hr Hlt Hidle Hcl Hnd Hind]. constructor; cbn; auto.
    + intros c Hin Hm. apply in_app_or in Hin. destruct Hin as [Hin|[<-|[]]]; [apply Hcl; assumption|].
      cbn. unfold held in Hh. destruct (find_wire w (d_wires s1)) as [x|]; [|discriminate]. eauto.
    + rewrite map_app. cbn. rewrite Hc in *. clear - Hnd F.
      assert (Hf : ~ In d (map dc_id (d_clients s))).
      { intros Hin. apply in_map_iff in Hin. destruct Hin as [c [A B]]. apply (find_dc_none _ _ F c B A). }
      revert Hnd Hf. generalize (map dc_id (d_clients s)). induction l as [|a l IH]; intros Hnd Hf; cbn; [constructor; [intros []|constructor]|].
      inversion Hnd; subst. constructor.
      * intros Hin. apply in_app_or in Hin. destruct Hin as [Hin|[<-|[]]]; [contradiction|]. apply Hf. left. reflexivity.
      * apply IH; auto. intros Hin. apply Hf. right. exact Hin.
  - (* DDo *)
    unfold entry in H. destruct (find_dc d (d_clients s)) as [c|] eqn:F; [|discriminate].
    destruct (dc_mark c) eqn:M; injection H as <-; apply add_res_inv; [exact I|].
    destruct (client_holds s d c I F M) as [Hh _]. apply user_cmd_inv; auto.
  - (* DSubscribe *)
    unfold entry in H. destruct (find_dc d (d_clients s)) as [c|] eqn:F; [|discriminate].
    destruct (dc_mark c) eqn:M; injection H as <-; apply add_res_inv; [exact I|].
    destruct (client_holds s d c I F M) as [Hh _]. apply user_cmd_inv; auto.
  - (* DBlockFail *)
    unfold entry in H. destruct (find_dc d (d_clients s)) as [c|] eqn:F; [|discriminate].
    destruct (dc_mark c) eqn:M; injection H as <-; apply add_res_inv; [exact I|].
    destruct (client_holds s d c I F M) as [Hh _].
    assert (I1 : dinv (user_cmd s (dc_wire c) (HDed d) a (fun x => x))) by (apply user_cmd_inv; auto).
    destruct (wire_dead s (dc_wire c)); [exact I1|].
    destruct (user_cmd_fields s (dc_wire c) (HDed d) a (fun x => x)) as [Ecl Hheld].
    assert (Hh1 : held (user_cmd s (dc_wire c) (HDed d) a (fun x => x)) (dc_wire c) = Some (HDed d)) by (rewrite Hheld; auto).
    destruct (find_wire (dc_wire c) (d_wires (user_cmd s (dc_wire c) (HDed d) a (fun x => x)))) as [x|]; [|exact I1].
    destruct (w_bg x).
    + pose proof (cmd_inv _ (dc_wire c) (HDed d) []
        (fun x => mkWire (w_id x) (w_holder x) (w_hooks x) (w_inval x) (w_bg x) true (w_v7 x) (w_tracking x) (w_dead x)) I1 Hh1) as I2.
      cbn [map] in I2. rewrite app_nil_r in I2. apply I2. auto.
    + unfold log_cmd. apply (cmd_inv _ (dc_wire c) (HDed d) [WCloseConn] _ I1 Hh1). auto.
  - (* DTrackingOn *)
    unfold entry in H. destruct (find_dc d (d_clients s)) as [c|] eqn:F; [|discriminate].
    destruct (dc_mark c) eqn:M; injection H as <-; apply add_res_inv; [exact I|].
    destruct (client_holds s d c I F M) as [Hh _]. apply user_cmd_inv; auto.
  - (* DSetHooks *)
    unfold entry in H. destruct (find_dc d (d_clients s)) as [c|] eqn:F; [|discriminate].
    destruct (dc_mark c) eqn:M; injection H as <-; apply add_res_inv; [exact I|].
    destruct (client_holds s d c I F M) as [Hh _].
    pose proof (cmd_inv s (dc_wire c) (HDed d) []
      (fun x => mkWire (w_id x) (w_holder x) (negb zero) (negb zero && inval) (w_bg x || negb zero) (w_blocked x) (w_v7 x) (w_tracking x) (w_dead x))
      I Hh) as I2.
    cbn [map] in I2. rewrite app_nil_r in I2. apply I2. auto.
  - (* DRelease *)
    destruct (find_dc d (d_clients s)) as [c|] eqn:F; [|discriminate].
    destruct (dc_mark c) eqn:M; injection H as <-; [exact I|].
    destruct (client_holds s d c I F M) as [Hh [x [Fx Hx]]].
    pose proof (dinv_mark s d I) as I1.
    apply (store_inv _ (dc_wire c) (HDed d) x I1 Fx Hx).
    intros c' Hc' Hm' Ew. cbn in Hc'. destruct (in_upd_dc_other _ _ _ Hc' Hm') as [Hin Hne].
    destruct (find_dc_in _ _ _ F) as [Hcin Hcid].
    apply Hne. rewrite <- Hcid. apply (live_wire_unique s c' c I Hin Hcin Hm' M Ew).
  - (* DClose *)
    destruct (find_dc d (d_clients s)) as [c|] eqn:F; [|discriminate].
    destruct (dc_mark c) eqn:M; injection H as <-; [exact I|].
    destruct (client_holds s d c I F M) as [Hh [x [Fx Hx]]].
    pose proof (dinv_mark s d I) as I1.
    set (s0 := set_clients s (upd_dc (fun c => mkDC (dc_id c) (dc_wire c) true) d (d_clients s))) in *.
    assert (Hother : forall c', In c' (d_clients s0) -> dc_mark c' = false -> dc_wire c' <> dc_wire c).
    { intros c' Hc' Hm' Ew. cbn in Hc'. destruct (in_upd_dc_other _ _ _ Hc' Hm') as [Hin Hne].
      destruct (find_dc_in _ _ _ F) as [Hcin Hcid].
      apply Hne. rewrite <- Hcid. apply (live_wire_unique s c' c I Hin Hcin Hm' M Ew). }
    destruct (wire_dead s0 (dc_wire c)).
    + apply (store_inv _ (dc_wire c) (HDed d) x I1 Fx Hx Hother).
    + assert (Hh0 : held s0 (dc_wire c) = Some (HDed d)) by exact Hh.
      set (f := fun x => mkWire (w_id x) (w_holder x) (w_hooks x) (w_inval x) (w_bg x) (w_blocked x) (w_v7 x) (w_tracking x) true).
      pose proof (cmd_inv s0 (dc_wire c) (HDed d) [WCloseConn] f I1 Hh0 ltac:(auto)) as I2.
      apply (store_inv _ (dc_wire c) (HDed d) (f x) I2); auto.
      * unfold log_cmd. cbn [d_wires]. rewrite find_upd_wire by reflexivity. rewrite N.eqb_refl.
        change (d_wires s0) with (d_wires s). rewrite Fx. reflexivity.
  - (* BDo *)
    destruct (pool_acquire s (HBlock b)) as [s1 w] eqn:A. cbv beta iota zeta in H.
    destruct (acquire_inv s (HBlock b) s1 w I A) as [I1 [Hh [Hc [_ [_ [_ [Hfree [_ Hoth]]]]]]]].
    pose proof (cmd_inv s1 w (HBlock b) [WUser a] (fun x => x) I1 Hh ltac:(auto)) as I2.
    set (s2 := log_cmd s1 w (HBlock b) (WUser a) (fun x => x)) in *.
    assert (Hh2 : held s2 w = Some (HBlock b)).
    { unfold held, s2, log_cmd. cbn [d_wires]. rewrite find_upd_wire by reflexivity. rewrite N.eqb_refl.
      unfold held in Hh. destruct (find_wire w (d_wires s1)); [exact Hh|discriminate]. }
    match type of H with context [find_wire w (d_wires ?t)] => set (s3 := t) in * end.
    set (fd := fun x => mkWire (w_id x) (w_holder x) (w_hooks x) (w_inval x) (w_bg x) (w_blocked x) (w_v7 x) (w_tracking x) true).
    assert (I3 : dinv s3 /\ held s3 w = Some (HBlock b) /\ d_clients s3 = d_clients s).
    { unfold s3. destruct fail.
      - split; [apply (cmd_inv s2 w (HBlock b) [WCloseConn] fd I2 Hh2); auto|]. split; [|exact Hc].
        unfold held, log_cmd. cbn [d_wires]. rewrite find_upd_wire by reflexivity. rewrite N.eqb_refl.
        unfold held in Hh2. destruct (find_wire w (d_wires s2)); [exact Hh2|discriminate].
      - split; [exact I2|]. split; [exact Hh2|exact Hc]. }
    destruct I3 as [I3 [Hh3 Hc3]].
    destruct (find_wire w (d_wires s3)) as [x|] eqn:Fx; [|discriminate]. injection H as <-.
    assert (Hx : w_holder x = Some (HBlock b)) by (unfold held in Hh3; rewrite Fx in Hh3; exact Hh3).
    pose proof (release_inv s3 w (HBlock b) x []
                  (fun y => mkWire (w_id y) None (w_hooks y) (w_inval y) (w_bg y) (w_blocked y) (w_v7 y) (w_tracking y) (w_dead y))
                  (negb (w_dead x)) I3 Fx Hx ltac:(auto)) as R.
    cbn [map app w_dead] in R. apply R.
    intros c Hcin Hm Ew. rewrite Hc3 in Hcin.
    (* a live dedicated client's wire was held by it before the acquire, so it is not the wire just acquired *)
    destruct (di_clients _ I c Hcin Hm) as [y [Fy Hy]]. unfold held in Hfree. rewrite <- Ew, Fy in Hfree. congruence.
  - (* SDo *) injection H as <-. eapply dinv_frame; [..|exact I]; reflexivity.
  - (* DTry *)
    destruct (find_dc d (d_clients s)) as [c|] eqn:F; [|discriminate].
    destruct (dc_mark c) eqn:M; [discriminate|]. injection H as <-.
    destruct (client_holds s d c I F M) as [Hh _]. apply user_cmd_inv; auto.
Qed.

Theorem dinv_reach : forall f v ls s, drun (dinit f v) ls = Some s -> dinv s.
Proof.
  intros f v ls. assert (G : forall s0 s, dinv s0 -> drun s0 ls = Some s -> dinv s).
  { induction ls as [|l ls IH]; intros s0 s I H; cbn in H; [injection H as <-; exact I|].
    destruct (dstep s0 l) as [s1|] eqn:E; [|discriminate]. eapply IH; [eapply dinv_step; eauto|exact H]. }
  intros s H. eapply G; [apply dinv_init|exact H].
Qed.

(** * C25 *)
Theorem exclusive : forall f v ls s, drun (dinit f v) ls = Some s -> log_ok [] (d_log s) = true.
Proof.
  intros f v ls s H. destruct (di_replay _ (dinv_reach f v ls s H)) as [hs [Hr _]].
  apply log_ok_replay. eauto.
Qed.

(** shared (auto-pipelined) traffic never appears on a pool connection *)
Lemma shared_not_in_log : forall s a s', dstep s (SDo a) = Some s' -> d_log s' = d_log s /\ d_wires s' = d_wires s.
Proof. intros s a s' H. cbn in H. injection H as <-. split; reflexivity. Qed.

(** events and results of one dedicated client *)
Definition ev_of (d : N) (e : ev) : bool :=
  match e with
  | EvAcq _ h | EvCmd _ h _ | EvRel _ h _ => holder_eqb h (HDed d)
  end.

Lemma find_dc_upd : forall f d0 d l, (forall c, dc_id (f c) = dc_id c) ->
  find_dc d (upd_dc f d0 l) = if N.eqb d d0 then option_map f (find_dc d l) else find_dc d l.
Proof.
  intros f d0 d l Hf. induction l as [|c l IH]; [destruct (N.eqb d d0); reflexivity|]. cbn.
  destruct (N.eqb (dc_id c) d0) eqn:E0.
  - rewrite Hf. destruct (N.eqb (dc_id c) d) eqn:E.
    + apply N.eqb_eq in E0, E. assert (N.eqb d d0 = true) by (apply N.eqb_eq; congruence). rewrite H. reflexivity.
    + exact IH.
  - destruct (N.eqb (dc_id c) d) eqn:E.
    + apply N.eqb_eq in E. apply N.eqb_neq in E0. assert (N.eqb d d0 = false) by (apply N.eqb_neq; congruence). rewrite H. reflexivity.
    + exact IH.
Qed.

Lemma find_dc_app : forall d l1 l2, find_dc d (l1 ++ l2) = match find_dc d l1 with Some c => Some c | None => find_dc d l2 end.
Proof. induction l1 as [|c l1 IH]; intros l2; [reflexivity|]. cbn. destruct (N.eqb (dc_id c) d); [reflexivity|apply IH]. Qed.

Definition recycled (s : dstate) (d : N) : Prop := exists c, find_dc d (d_clients s) = Some c /\ dc_mark c = true.

Lemma acquire_log : forall s h s1 w, pool_acquire s h = (s1, w) ->
  d_log s1 = d_log s ++ [EvAcq w h] /\ d_clients s1 = d_clients s /\ d_res s1 = d_res s.
Proof.
  intros s h s1 w H. unfold pool_acquire in H. destruct (d_idle s); injection H as <- <-; repeat split; reflexivity.
Qed.

(** every entry point of a recycled client: ErrDedicatedClientRecycled, nothing is written, nothing changes *)
Theorem recycled_rejects : forall s d, recycled s d ->
  (forall a, dstep s (DDo d a) = Some (add_res s d RRecycled)) /\
  (forall a, dstep s (DSubscribe d a) = Some (add_res s d RRecycled)) /\
  (forall a, dstep s (DBlockFail d a) = Some (add_res s d RRecycled)) /\
  (forall a, dstep s (DTrackingOn d a) = Some (add_res s d RRecycled)) /\
  (forall z i, dstep s (DSetHooks d z i) = Some (add_res s d RRecycled)) /\
  dstep s (DRelease d) = Some s /\ dstep s (DClose d) = Some s /\
  (forall a, dstep s (DTry d a) = None).
Proof.
  intros s d [c [F M]]. repeat split; intros; cbn [dstep]; unfold entry; rewrite F, M; reflexivity.
Qed.

Lemma mux_store_clients : forall s w h, d_clients (mux_store s w h) = d_clients s.
Proof. intros. unfold mux_store. destruct (find_wire w (d_wires s)); reflexivity. Qed.

Lemma user_cmd_clients : forall s w h a f, d_clients (user_cmd s w h a f) = d_clients s.
Proof. intros. unfold user_cmd. destruct (wire_dead s w); reflexivity. Qed.

(** release and Close mark the client *)
Theorem release_marks : forall s d s', (dstep s (DRelease d) = Some s' \/ dstep s (DClose d) = Some s') -> recycled s' d.
Proof.
  intros s d s' [H|H]; cbn [dstep] in H; destruct (find_dc d (d_clients s)) as [c|] eqn:F; try discriminate;
    destruct (dc_mark c) eqn:M; injection H as <-.
  - exists c. auto.
  - unfold recycled. rewrite mux_store_clients. cbn [set_clients d_clients].
    rewrite find_dc_upd by reflexivity. rewrite N.eqb_refl, F. cbn. eauto.
  - exists c. auto.
  - unfold recycled. rewrite mux_store_clients.
    match goal with |- context [if ?b then _ else _] => destruct b end; cbn [set_clients log_cmd d_clients];
      rewrite find_dc_upd by reflexivity; rewrite N.eqb_refl, F; cbn; eauto.
Qed.

(** … for good *)
Theorem recycled_sticky : forall s l s' d, recycled s d -> dstep s l = Some s' -> recycled s' d.
Proof.
  intros s l s' d [c [F M]] H. unfold recycled.
  assert (Hentry : forall d0 k, (forall c0, d_clients (k c0) = d_clients s) -> entry s d0 k = Some s' ->
            exists c', find_dc d (d_clients s') = Some c' /\ dc_mark c' = true).
  { intros d0 k Hk He. unfold entry in He. destruct (find_dc d0 (d_clients s)) as [c0|]; [|discriminate].
    destruct (dc_mark c0); injection He as <-; cbn [add_res d_clients]; rewrite ?Hk; eauto. }
  destruct l; cbn [dstep] in H.
  - destruct (find_dc d0 (d_clients s)) eqn:F0; [discriminate|].
    destruct (pool_acquire s (HDed d0)) as [s1 w] eqn:A. injection H as <-.
    destruct (acquire_log _ _ _ _ A) as [_ [Ec _]]. cbn [set_clients d_clients]. rewrite find_dc_app, Ec, F. eauto.
  - refine (Hentry d0 _ _ H). intros. apply user_cmd_clients.
  - refine (Hentry d0 _ _ H). intros. apply user_cmd_clients.
  - refine (Hentry d0 _ _ H). intros c0. cbv zeta.
    destruct (wire_dead s (dc_wire c0)); [apply user_cmd_clients|].
    match goal with |- context [match find_wire ?w ?l with _ => _ end] => destruct (find_wire w l) as [x|] end; [|apply user_cmd_clients].
    destruct (w_bg x); cbn [d_clients log_cmd]; apply user_cmd_clients.
  - refine (Hentry d0 _ _ H). intros. apply user_cmd_clients.
  - refine (Hentry d0 _ _ H). intros. reflexivity.
  - destruct (find_dc d0 (d_clients s)) as [c0|] eqn:F0; [|discriminate].
    destruct (dc_mark c0); injection H as <-; [eauto|].
    rewrite mux_store_clients. cbn [set_clients d_clients]. rewrite find_dc_upd by reflexivity.
    destruct (N.eqb d d0); rewrite F; cbn; eauto.
  - destruct (find_dc d0 (d_clients s)) as [c0|] eqn:F0; [|discriminate].
    destruct (dc_mark c0); injection H as <-; [eauto|].
    rewrite mux_store_clients.
    match goal with |- context [if ?b then _ else _] => destruct b end; cbn [set_clients log_cmd d_clients];
      rewrite find_dc_upd by reflexivity; destruct (N.eqb d d0); rewrite F; cbn; eauto.
  - destruct (pool_acquire s (HBlock b)) as [s1 w] eqn:A. cbv beta iota zeta in H.
    destruct (acquire_log _ _ _ _ A) as [_ [Ec _]].
    match type of H with context [find_wire w (d_wires ?t)] => destruct (find_wire w (d_wires t)) end; [|discriminate].
    injection H as <-. cbn [d_clients]. destruct fail; cbn [log_cmd d_clients]; rewrite Ec, F; eauto.
  - injection H as <-. cbn. eauto.
  - destruct (find_dc d0 (d_clients s)) as [c0|]; [|discriminate].
    destruct (dc_mark c0); [discriminate|]. injection H as <-. rewrite user_cmd_clients. eauto.
Qed.

(** ** the clean-up of release (mux.Store) *)
Theorem cleanup : forall s d c x,
  find_dc d (d_clients s) = Some c -> dc_mark c = false -> find_wire (dc_wire c) (d_wires s) = Some x ->
  exists s', dstep s (DRelease d) = Some s' /\
    d_log s' = d_log s ++ store_events x (HDed d) /\
    find_wire (dc_wire c) (d_wires s') = Some (stored_wire x) /\
    (In (dc_wire c) (d_idle s') <-> (w_dead x || w_blocked x = false \/ In (dc_wire c) (d_idle s))).
Proof.
  intros s d c x F M Fx. eexists. cbn [dstep]. rewrite F, M. split; [reflexivity|].
  unfold mux_store. cbn [set_clients d_wires]. rewrite Fx. cbn [d_log d_wires d_idle].
  split; [reflexivity|]. split.
  - rewrite find_upd_wire by reflexivity. rewrite N.eqb_refl, Fx. reflexivity.
  - cbn [stored_wire w_dead]. destruct (w_dead x || w_blocked x); cbn; intuition congruence.
Qed.

(** what Store does, spelled out: hooks gone; the pending blocking command closes the connection; otherwise the
    subscriptions are dropped if the pipe was pipelining and CLIENT TRACKING OFF is sent iff an invalidation hook was
    installed — all by the releasing holder, before the release marker, after which (only) the wire is idle again *)
Theorem cleanup_spelled : forall x h,
  w_hooks (stored_wire x) = false /\ w_inval (stored_wire x) = false /\ w_holder (stored_wire x) = None /\
  (w_dead x = false -> w_blocked x = false ->
     store_events x h =
       (if w_bg x then [EvCmd (w_id x) h (WUnsub (w_v7 x))] else []) ++
       (if w_inval x then [EvCmd (w_id x) h WTrackingOff] else []) ++ [EvRel (w_id x) h true] /\
     w_dead (stored_wire x) = false /\
     (w_inval x = true -> w_tracking (stored_wire x) = false)) /\
  (w_dead x = false -> w_blocked x = true ->
     store_events x h = [EvCmd (w_id x) h WCloseConn; EvRel (w_id x) h false] /\ w_dead (stored_wire x) = true) /\
  (w_dead x = true -> store_events x h = [EvRel (w_id x) h false] /\ w_dead (stored_wire x) = true).
Proof.
  intros x h. unfold stored_wire, store_events. cbn.
  repeat split; intros; try rewrite H; try rewrite H0; try rewrite H1; cbn; try reflexivity;
    destruct (w_bg x), (w_inval x), (w_blocked x); cbn; try reflexivity; try discriminate.
Qed.

(** ** nothing of a recycled client reaches the server any more: whatever step is taken from a state in which client
    [d] is marked, the events it adds to the log belong to other holders.  In particular the retry loop of Do / DoMulti
    — which re-checks the mark before every attempt — cannot send again once the client was released or closed during
    its back-off. *)
Definition ev_holder (e : ev) : holder := match e with EvAcq _ h | EvCmd _ h _ | EvRel _ h _ => h end.
Definition all_by (h : holder) (evs : list ev) : Prop := forall e, In e evs -> ev_holder e = h.

Lemma all_by_app : forall h a b, all_by h a -> all_by h b -> all_by h (a ++ b).
Proof. intros h a b A B e Hin. apply in_app_or in Hin. destruct Hin; auto. Qed.

Lemma all_by_one : forall h e, ev_holder e = h -> all_by h [e].
Proof. intros h e E x [<-|[]]. exact E. Qed.

Lemma all_by_nil : forall h, all_by h [].
Proof. intros h e []. Qed.

Lemma store_events_by : forall x h, all_by h (store_events x h).
Proof.
  intros x h. unfold store_events. repeat apply all_by_app.
  - destruct (w_dead x); [apply all_by_nil|]. destruct (w_blocked x); [apply all_by_one; reflexivity|].
    destruct (w_bg x); [apply all_by_one; reflexivity|apply all_by_nil].
  - destruct (w_inval x && negb (w_dead x || w_blocked x)); [apply all_by_one; reflexivity|apply all_by_nil].
  - apply all_by_one. reflexivity.
Qed.

Lemma mux_store_log : forall s w h, exists evs, d_log (mux_store s w h) = d_log s ++ evs /\ all_by h evs.
Proof.
  intros. unfold mux_store. destruct (find_wire w (d_wires s)) as [x|].
  - exists (store_events x h). split; [reflexivity|apply store_events_by].
  - exists []. split; [symmetry; apply app_nil_r|apply all_by_nil].
Qed.

Lemma user_cmd_log : forall s w h a f, exists evs, d_log (user_cmd s w h a f) = d_log s ++ evs /\ all_by h evs.
Proof.
  intros. unfold user_cmd. destruct (wire_dead s w).
  - exists []. split; [symmetry; apply app_nil_r|apply all_by_nil].
  - exists [EvCmd w h (WUser a)]. split; [reflexivity|apply all_by_one; reflexivity].
Qed.

Theorem no_send_after_release : forall s l s' d, recycled s d -> dstep s l = Some s' ->
  exists evs, d_log s' = d_log s ++ evs /\ forall e, In e evs -> ev_holder e <> HDed d.
Proof.
  intros s l s' d [c [F M]] H.
  assert (Hnil : forall t, d_log t = d_log s ->
            exists evs, d_log t = d_log s ++ evs /\ forall e, In e evs -> ev_holder e <> HDed d).
  { intros t E. exists []. rewrite app_nil_r. split; [exact E|intros e []]. }
  assert (Hby : forall t h evs, h <> HDed d -> d_log t = d_log s ++ evs -> all_by h evs ->
            exists evs, d_log t = d_log s ++ evs /\ forall e, In e evs -> ev_holder e <> HDed d).
  { intros t h evs Hne E B. exists evs. split; [exact E|]. intros e Hin. rewrite (B e Hin). exact Hne. }
  assert (Hne : forall d0 c0, find_dc d0 (d_clients s) = Some c0 -> dc_mark c0 = false -> HDed d0 <> HDed d).
  { intros d0 c0 F0 M0 E. injection E as ->. rewrite F in F0. injection F0 as <-. congruence. }
  assert (Hentry : forall d0 k, (forall c0, exists evs, d_log (k c0) = d_log s ++ evs /\ all_by (HDed d0) evs) ->
            entry s d0 k = Some s' ->
            exists evs, d_log s' = d_log s ++ evs /\ forall e, In e evs -> ev_holder e <> HDed d).
  { intros d0 k Hk He. unfold entry in He. destruct (find_dc d0 (d_clients s)) as [c0|] eqn:F0; [|discriminate].
    destruct (dc_mark c0) eqn:M0; injection He as <-; cbn [add_res d_log]; [apply Hnil; reflexivity|].
    destruct (Hk c0) as [evs [E B]]. apply (Hby _ (HDed d0) evs); eauto. }
  destruct l; cbn [dstep] in H.
  - (* DAcquire *)
    destruct (find_dc d0 (d_clients s)) eqn:F0; [discriminate|].
    destruct (pool_acquire s (HDed d0)) as [s1 w] eqn:A. injection H as <-.
    destruct (acquire_log _ _ _ _ A) as [El _]. cbn [set_clients d_log].
    apply (Hby _ (HDed d0) [EvAcq w (HDed d0)]); [|exact El|apply all_by_one; reflexivity].
    intros E. injection E as ->. congruence.
  - (* DDo *) refine (Hentry d0 _ _ H). intros c0. apply user_cmd_log.
  - (* DSubscribe *) refine (Hentry d0 _ _ H). intros c0. apply user_cmd_log.
  - (* DBlockFail *)
    refine (Hentry d0 _ _ H). intros c0. cbv zeta.
    destruct (user_cmd_log s (dc_wire c0) (HDed d0) a (fun x => x)) as [evs [E B]].
    destruct (wire_dead s (dc_wire c0)); [eauto|].
    match goal with |- context [match find_wire ?w ?l with _ => _ end] => destruct (find_wire w l) as [x|] end; [|eauto].
    destruct (w_bg x); cbn [d_log log_cmd]; [eauto|].
    exists (evs ++ [EvCmd (dc_wire c0) (HDed d0) WCloseConn]). rewrite E, app_assoc. split; [reflexivity|].
    apply all_by_app; [exact B|apply all_by_one; reflexivity].
  - (* DTrackingOn *) refine (Hentry d0 _ _ H). intros c0. apply user_cmd_log.
  - (* DSetHooks *)
    refine (Hentry d0 _ _ H). intros c0. exists []. cbn [d_log]. split; [symmetry; apply app_nil_r|apply all_by_nil].
  - (* DRelease *)
    destruct (find_dc d0 (d_clients s)) as [c0|] eqn:F0; [|discriminate].
    destruct (dc_mark c0) eqn:M0; injection H as <-; [apply Hnil; reflexivity|].
    match goal with |- context [mux_store ?t ?w ?h] => destruct (mux_store_log t w h) as [evs [E B]] end.
    apply (Hby _ (HDed d0) evs); eauto.
  - (* DClose *)
    destruct (find_dc d0 (d_clients s)) as [c0|] eqn:F0; [|discriminate].
    destruct (dc_mark c0) eqn:M0; injection H as <-; [apply Hnil; reflexivity|].
    match goal with |- context [mux_store ?t ?w ?h] => destruct (mux_store_log t w h) as [evs [E B]] end.
    match type of E with context [if ?b then _ else _] => destruct b end; cbn [log_cmd set_clients d_log] in E.
    + apply (Hby _ (HDed d0) evs); eauto.
    + rewrite <- app_assoc in E. apply (Hby _ (HDed d0) _ (Hne _ _ F0 M0) E).
      apply all_by_app; [apply all_by_one; reflexivity|exact B].
  - (* BDo *)
    destruct (pool_acquire s (HBlock b)) as [s1 w] eqn:A. cbv beta iota zeta in H.
    destruct (acquire_log _ _ _ _ A) as [El _].
    match type of H with context [find_wire w (d_wires ?t)] => destruct (find_wire w (d_wires t)) end; [|discriminate].
    injection H as <-. cbn [d_log].
    assert (Hb : HBlock b <> HDed d) by discriminate.
    destruct fail; cbn [log_cmd d_log]; rewrite El; rewrite <- !app_assoc;
      (eexists; split; [reflexivity|]); intros e Hin; cbn in Hin;
      repeat (destruct Hin as [<-|Hin]; [cbn; discriminate|]); destruct Hin.
  - (* SDo *) injection H as <-. apply Hnil. reflexivity.
  - (* DTry *)
    destruct (find_dc d0 (d_clients s)) as [c0|] eqn:F0; [|discriminate].
    destruct (dc_mark c0) eqn:M0; [discriminate|]. injection H as <-.
    destruct (user_cmd_log s (dc_wire c0) (HDed d0) a (fun x => x)) as [evs [E B]].
    apply (Hby _ (HDed d0) evs); eauto.
Qed.

(** … over any continuation of the program *)
Theorem no_send_after_release_run : forall ls s s' d, recycled s d -> drun s ls = Some s' ->
  exists evs, d_log s' = d_log s ++ evs /\ forall e, In e evs -> ev_holder e <> HDed d.
Proof.
  induction ls as [|l ls IH]; intros s s' d R H; cbn in H.
  - injection H as <-. exists []. rewrite app_nil_r. split; [reflexivity|intros e []].
  - destruct (dstep s l) as [s1|] eqn:S; [|discriminate].
    destruct (no_send_after_release s l s1 d R S) as [e1 [E1 B1]].
    destruct (IH s1 s' d (recycled_sticky s l s1 d R S) H) as [e2 [E2 B2]].
    exists (e1 ++ e2). rewrite E2, E1, app_assoc. split; [reflexivity|].
    intros e Hin. apply in_app_or in Hin. destruct Hin; auto.
Qed.
