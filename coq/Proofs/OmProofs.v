(** Proofs for the object-mapping model (Model/Om.v): decimal round trip, hash algebra,
    field round trip, optimistic locking over all save histories. *)
From Coq Require Import List Arith NArith ZArith Bool Lia ZifyN ZifyNat ZifyBool.
From Coq Require Decimal DecimalN DecimalPos.
Require Import RV.Model.Base RV.Proofs.BytesProofs RV.Model.Binary RV.Proofs.BinaryProofs RV.Model.Om.
Import ListNotations.
Open Scope N_scope.

(** ---- decimal numerals ---- *)

Lemma uint_of_bytes_of_uint u : uint_of_bytes (bytes_of_uint u) = Some u.
Proof. induction u; cbn [bytes_of_uint uint_of_bytes]; try reflexivity; rewrite IHu; reflexivity. Qed.

Lemma N_to_uint_nonnil n : N.to_uint n <> Decimal.Nil.
Proof. destruct n; cbn; [discriminate|apply DecimalPos.Unsigned.to_uint_nonnil]. Qed.

Lemma bytes_of_uint_nonnil u : u <> Decimal.Nil -> bytes_of_uint u <> [].
Proof. destruct u; cbn; congruence. Qed.

Lemma parse_print_N n : parse_N (print_N n) = Some n.
Proof.
  unfold parse_N, print_N.
  destruct (bytes_of_uint (N.to_uint n)) eqn:E.
  - exfalso. eapply bytes_of_uint_nonnil; [apply N_to_uint_nonnil|exact E].
  - rewrite <- E, uint_of_bytes_of_uint, DecimalN.Unsigned.of_to. reflexivity.
Qed.

(** the first byte of a printed natural is a digit, hence neither '-' nor '+' *)
Lemma print_N_head n : exists d r, print_N n = d :: r /\ 48 <= d <= 57.
Proof.
  unfold print_N. pose proof (N_to_uint_nonnil n) as H.
  destruct (N.to_uint n); [congruence| | | | | | | | | |]; cbn [bytes_of_uint]; eexists; eexists; (split; [reflexivity|lia]).
Qed.

Lemma parse_print_Z z : int64_ok z = true -> parse_int64 (print_Z z) = Some z.
Proof.
  unfold int64_ok, print_Z, parse_int64. intros H.
  destruct (z <? 0)%Z eqn:Hz.
  - rewrite parse_print_N.
    destruct (Z.abs_N z <=? 2 ^ 63) eqn:E; [f_equal; lia|lia].
  - destruct (print_N_head (Z.to_N z)) as (d & r & E & Hd).
    pose proof (parse_print_N (Z.to_N z)) as P. rewrite E in *.
    destruct d as [|p]; [lia|].
    assert (Hp : N.pos p <> 45 /\ N.pos p <> 43) by lia.
    destruct Hp as [H45 H43].
    destruct (N.eq_dec (N.pos p) 45); [contradiction|].
    destruct (N.eq_dec (N.pos p) 43); [contradiction|].
    assert (G : match parse_N (N.pos p :: r) with
                | Some n => if n <? 2 ^ 63 then Some (Z.of_N n) else None
                | None => None end = Some z).
    { rewrite P. destruct (Z.to_N z <? 2 ^ 63) eqn:E2; [f_equal; lia|lia]. }
    revert G. clear -H45 H43.
    do 6 (destruct p as [p|p|]; try (intros; assumption)); try (exfalso; lia); intros; assumption.
Qed.

Lemma print_Z_inj a b : int64_ok a = true -> int64_ok b = true -> print_Z a = print_Z b -> a = b.
Proof.
  intros Ha Hb E. apply parse_print_Z in Ha. apply parse_print_Z in Hb. rewrite E in Ha. congruence.
Qed.

Lemma lua_ver_ok_int64 z : lua_ver_ok z = true -> int64_ok z = true /\ int64_ok (z + 1) = true.
Proof. unfold lua_ver_ok, int64_ok. lia. Qed.

Lemma lua_incr_print z : lua_ver_ok z = true -> lua_incr (print_Z z) = Some (print_Z (z + 1)).
Proof.
  intros H. unfold lua_incr. destruct (lua_ver_ok_int64 z H) as [H1 _].
  rewrite (parse_print_Z z H1), H. reflexivity.
Qed.

(** ---- hash algebra ---- *)

Lemma hget_hset_same h k v : hget (hset h k v) k = Some v.
Proof.
  induction h as [|[k' v'] h IH]; cbn [hset hget].
  - rewrite bytes_eqb_refl. reflexivity.
  - destruct (bytes_eqb k' k) eqn:E; cbn [hget]; [rewrite bytes_eqb_refl; reflexivity|rewrite E; exact IH].
Qed.

Lemma hget_hset_other h k v k2 : k <> k2 -> hget (hset h k v) k2 = hget h k2.
Proof.
  intros N. induction h as [|[k' v'] h IH]; cbn [hset hget].
  - apply bytes_eqb_neq in N. rewrite N. reflexivity.
  - destruct (bytes_eqb k' k) eqn:E; cbn [hget].
    + apply bytes_eqb_eq in E. subst k'. apply bytes_eqb_neq in N. rewrite N. reflexivity.
    + rewrite IH. reflexivity.
Qed.

Lemma hget_hdel_same h k : hget (hdel h k) k = None.
Proof.
  induction h as [|[k' v'] h IH]; cbn [hdel hget]; [reflexivity|].
  destruct (bytes_eqb k' k) eqn:E; [exact IH|cbn [hget]; rewrite E; exact IH].
Qed.

Lemma hget_hdel_other h k k2 : k <> k2 -> hget (hdel h k) k2 = hget h k2.
Proof.
  intros N. induction h as [|[k' v'] h IH]; cbn [hdel hget]; [reflexivity|].
  destruct (bytes_eqb k' k) eqn:E.
  - apply bytes_eqb_eq in E. subst k'. apply bytes_eqb_neq in N. rewrite N. exact IH.
  - cbn [hget]. rewrite IH. reflexivity.
Qed.

Lemma hget_hdel_all h ks k :
  hget (hdel_all h ks) k = if mem_bytes k ks then None else hget h k.
Proof.
  unfold hdel_all. revert h. induction ks as [|x ks IH]; intros h; cbn [fold_left mem_bytes]; [reflexivity|].
  rewrite IH. destruct (mem_bytes k ks); cbn [orb]; [rewrite orb_true_r; reflexivity|].
  rewrite orb_false_r. destruct (bytes_eqb k x) eqn:E.
  - apply bytes_eqb_eq in E. subst. apply hget_hdel_same.
  - apply bytes_eqb_neq in E. apply hget_hdel_other. congruence.
Qed.

(** keys of a flat [k; v; k; v; …] list *)
Fixpoint pair_keys (l : list bytes) : list bytes :=
  match l with
  | k :: _ :: r => k :: pair_keys r
  | _ => []
  end.

Fixpoint pair_lookup (l : list bytes) (k : bytes) : option bytes :=
  match l with
  | k' :: v :: r => match pair_lookup r k with
                    | Some x => Some x          (* the last occurrence wins *)
                    | None => if bytes_eqb k' k then Some v else None
                    end
  | _ => None
  end.

Lemma list_pair_ind {A} (P : list A -> Prop) :
  P [] -> (forall x, P [x]) -> (forall x y r, P r -> P (x :: y :: r)) -> forall l, P l.
Proof. intros H0 H1 H2. fix F 1. intros [|x [|y r]]; [exact H0|apply H1|apply H2, F]. Qed.

Lemma hset_pairs_even l : forall h, Nat.even (length l) = true -> exists h', hset_pairs h l = Some h'.
Proof.
  induction l as [|x|k v r IH] using list_pair_ind; intros h E.
  - eexists; reflexivity.
  - cbn in E. discriminate.
  - cbn [hset_pairs]. apply IH. cbn [length] in E. exact E.
Qed.

Lemma hget_hset_pairs l : forall h h' k, hset_pairs h l = Some h' ->
  hget h' k = match pair_lookup l k with Some v => Some v | None => hget h k end.
Proof.
  induction l as [|x|k1 v r IH] using list_pair_ind; intros h h' k E.
  - cbn in E. injection E as <-. reflexivity.
  - cbn in E. discriminate.
  - cbn [hset_pairs] in E. cbn [pair_lookup].
    rewrite (IH _ _ k E).
    destruct (pair_lookup r k); [reflexivity|].
    destruct (bytes_eqb k1 k) eqn:E1.
    + apply bytes_eqb_eq in E1. subst. apply hget_hset_same.
    + apply bytes_eqb_neq in E1. apply hget_hset_other. exact E1.
Qed.

Lemma mem_bytes_in x l : mem_bytes x l = true <-> In x l.
Proof.
  induction l as [|y l IH]; cbn [mem_bytes In]; [split; [discriminate|tauto]|].
  rewrite orb_true_iff, IH, bytes_eqb_eq. split; intros [H|H]; auto.
Qed.

Lemma mem_bytes_rev x l : mem_bytes x (List.rev l) = mem_bytes x l.
Proof.
  destruct (mem_bytes x l) eqn:E.
  - apply mem_bytes_in. apply -> in_rev. apply mem_bytes_in. exact E.
  - destruct (mem_bytes x (List.rev l)) eqn:E2; [|reflexivity].
    apply mem_bytes_in in E2. apply in_rev in E2. apply mem_bytes_in in E2. congruence.
Qed.


Lemma split_dels_app body dels :
  split_dels (body ++ dels ++ [print_N (N.of_nat (length dels))]) = Some (body, rev dels).
Proof.
  unfold split_dels. rewrite app_assoc, rev_app_distr. cbn [rev app].
  rewrite parse_print_N, Nat2N.id, rev_app_distr.
  replace (length (rev dels ++ rev body) <? length dels)%nat with false.
  2:{ symmetry. apply Nat.ltb_ge. rewrite app_length, rev_length. lia. }
  rewrite <- (rev_length dels) at 1 2.
  rewrite skipn_app_exact, firstn_app_exact, rev_involutive. reflexivity.
Qed.

Lemma split_exat_even l : Nat.even (length l) = true -> split_exat l = (l, None).
Proof. intros E. unfold split_exat. rewrite <- Nat.negb_even, E. reflexivity. Qed.

Lemma split_exat_odd l x : Nat.even (length l) = true -> split_exat (l ++ [x]) = (l, Some x).
Proof.
  intros E. unfold split_exat. rewrite app_length. cbn [length].
  replace (length l + 1)%nat with (S (length l)) by lia.
  rewrite Nat.odd_succ, E, removelast_last, last_last. reflexivity.
Qed.

Section ConvProofs.
  Variable J : Type.
  Variable jprint : J -> bytes.

  Notation fval := (fval J).
  Notation entity := (entity J).
  Notation to_string := (to_string J jprint).
  Notation field_pairs := (field_pairs J jprint).
  Notation field_dels := (field_dels J jprint).
  Notation exec_args := (exec_args J jprint).
  Notation save := (save J jprint).
  Notation wf := (wf J).
  Notation val_ok := (val_ok J).

  Lemma field_pairs_even fs : Nat.even (length (field_pairs fs)) = true.
  Proof.
    induction fs as [|[n v] fs IH]; cbn [Om.field_pairs]; [reflexivity|].
    destruct (to_string v); [cbn [length]; exact IH|exact IH].
  Qed.

  (** lookups in the pair list sent to HSET *)
  Lemma pair_lookup_field_pairs_notin fs n : ~ In n (map fst fs) -> pair_lookup (field_pairs fs) n = None.
  Proof.
    induction fs as [|[n' v] fs IH]; cbn [Om.field_pairs map fst In]; intros H; [reflexivity|].
    destruct (to_string v); [|apply IH; tauto].
    cbn [pair_lookup]. rewrite IH by tauto.
    destruct (bytes_eqb n' n) eqn:E; [apply bytes_eqb_eq in E; subst; tauto|reflexivity].
  Qed.

  Lemma pair_lookup_field_pairs fs : NoDup (map fst fs) -> forall n v, In (n, v) fs ->
    pair_lookup (field_pairs fs) n = to_string v.
  Proof.
    induction fs as [|[n' v'] fs IH]; cbn [map fst]; intros ND n v HIn; [destruct HIn|].
    inversion ND as [|? ? Hnotin ND']; subst.
    destruct HIn as [E|HIn].
    - injection E as -> ->. cbn [Om.field_pairs].
      destruct (to_string v) eqn:Ev.
      + cbn [pair_lookup]. rewrite pair_lookup_field_pairs_notin by exact Hnotin.
        rewrite bytes_eqb_refl. reflexivity.
      + apply pair_lookup_field_pairs_notin. exact Hnotin.
    - cbn [Om.field_pairs]. destruct (to_string v') eqn:Ev'.
      + cbn [pair_lookup]. rewrite (IH ND' n v HIn).
        destruct (to_string v); [reflexivity|].
        destruct (bytes_eqb n' n) eqn:E; [|reflexivity].
        apply bytes_eqb_eq in E. subst. exfalso. apply Hnotin. apply (in_map fst) in HIn. exact HIn.
      + apply (IH ND' n v HIn).
  Qed.

  Lemma field_dels_subset fs n : In n (field_dels fs) -> In n (map fst fs).
  Proof.
    induction fs as [|[n' v] fs IH]; cbn [Om.field_dels map fst In]; [tauto|].
    destruct (to_string v); cbn [In]; intuition.
  Qed.

  Lemma field_dels_spec fs : NoDup (map fst fs) -> forall n v, In (n, v) fs ->
    mem_bytes n (field_dels fs) = match to_string v with Some _ => false | None => true end.
  Proof.
    induction fs as [|[n' v'] fs IH]; cbn [map fst]; intros ND n v HIn; [destruct HIn|].
    inversion ND as [|? ? Hnotin ND']; subst.
    destruct HIn as [E|HIn].
    - injection E as -> ->. cbn [Om.field_dels]. destruct (to_string v) eqn:Ev.
      + destruct (mem_bytes n (field_dels fs)) eqn:M; [|reflexivity].
        apply mem_bytes_in, field_dels_subset in M. contradiction.
      + cbn [mem_bytes]. rewrite bytes_eqb_refl. reflexivity.
    - cbn [Om.field_dels]. destruct (to_string v') eqn:Ev'.
      + apply (IH ND' n v HIn).
      + cbn [mem_bytes]. rewrite (IH ND' n v HIn).
        destruct (bytes_eqb n n') eqn:E; [|reflexivity].
        apply bytes_eqb_eq in E. subst. exfalso. apply Hnotin. apply (in_map fst) in HIn. exact HIn.
  Qed.

  (** ---- the script on the arguments Go sends ---- *)

  Definition old_fields (st : option hrec) : hash := match st with Some r => h_fields r | None => [] end.
  Definition old_px (st : option hrec) : Z := match st with Some r => h_pxat r | None => 0%Z end.

  (** fields after HSET pairs + HDEL dels *)
  Definition new_hash (st : option hrec) (pairs dels : list bytes) : hash :=
    hdel_all (match hset_pairs (old_fields st) pairs with Some h => h | None => [] end) dels.

  Lemma hget_new_hash st pairs dels k : Nat.even (length pairs) = true ->
    hget (new_hash st pairs dels) k =
    if mem_bytes k dels then None
    else match pair_lookup pairs k with Some v => Some v | None => hget (old_fields st) k end.
  Proof.
    intros E. unfold new_hash. rewrite hget_hdel_all.
    destruct (hset_pairs_even pairs (old_fields st) E) as [h' Hh]. rewrite Hh.
    rewrite (hget_hset_pairs pairs _ _ k Hh). reflexivity.
  Qed.

  Definition after_write (now : Z) (st : option hrec) (pairs dels : list bytes) (ext : Z) : option hrec :=
    if (ext =? 0)%Z then Some {| h_fields := new_hash st pairs dels; h_pxat := old_px st |}
    else if (ext <=? now)%Z then None
    else Some {| h_fields := new_hash st pairs dels; h_pxat := ext |}.

  Lemma write_tail_spec now st pairs dels ext :
    Nat.even (length pairs) = true -> pairs <> [] -> new_hash st pairs dels <> [] -> int64_ok ext = true ->
    write_tail now st pairs dels (if (ext =? 0)%Z then None else Some (print_Z ext)) =
    Some (after_write now st pairs dels ext).
  Proof.
    intros E NE NH Hext. unfold write_tail, do_hset, after_write.
    destruct (hset_pairs_even pairs (old_fields st) E) as [h' Hh].
    assert (Hst : (let '(h, px) := match st with Some r => (h_fields r, h_pxat r) | None => ([], 0%Z) end in
                   match pairs with [] => None | _ => match hset_pairs h pairs with
                     | Some h'0 => Some (Some {| h_fields := h'0; h_pxat := px |}) | None => None end end)
                  = Some (Some {| h_fields := h'; h_pxat := old_px st |})).
    { unfold old_fields, old_px in *. destruct st as [r|]; destruct pairs; try congruence; rewrite Hh; reflexivity. }
    rewrite Hst. clear Hst.
    assert (Hnew : new_hash st pairs dels = hdel_all h' dels) by (unfold new_hash; rewrite Hh; reflexivity).
    assert (Hst2 : match dels with [] => Some {| h_fields := h'; h_pxat := old_px st |}
                   | _ => do_hdel (Some {| h_fields := h'; h_pxat := old_px st |}) dels end
                   = Some {| h_fields := new_hash st pairs dels; h_pxat := old_px st |}).
    { destruct dels as [|d dels].
      - rewrite Hnew. reflexivity.
      - unfold do_hdel. cbn [h_fields h_pxat]. rewrite <- Hnew.
        destruct (new_hash st pairs (d :: dels)); [congruence|reflexivity]. }
    rewrite Hst2. clear Hst2.
    destruct (ext =? 0)%Z; [reflexivity|].
    unfold do_pexpireat. rewrite (parse_print_Z ext Hext). cbn [h_fields h_pxat].
    destruct (ext <=? now)%Z; reflexivity.
  Qed.

  Section OneSchema.
    Variable sc : schema.

    Definition pairs_of_entity (e : entity) (vv : bytes) : list bytes :=
      ver_name sc :: vv :: s_key sc :: e_key J e :: field_pairs (e_fields J e).

    Lemma pairs_of_entity_even e vv : Nat.even (length (pairs_of_entity e vv)) = true.
    Proof. unfold pairs_of_entity. cbn [length]. apply field_pairs_even. Qed.

    Lemma exec_args_shape e :
      exec_args sc e =
      (pairs_of_entity e (match s_ver sc with Some _ => print_Z (e_ver J e) | None => [] end)
         ++ (if (e_ext J e =? 0)%Z then [] else [print_Z (e_ext J e)]))
      ++ field_dels (e_fields J e) ++ [print_N (N.of_nat (length (field_dels (e_fields J e))))].
    Proof.
      unfold Om.exec_args, pairs_of_entity. cbn [app]. rewrite <- !app_assoc. reflexivity.
    Qed.

    Lemma split_exat_entity e vv :
      split_exat (pairs_of_entity e vv ++ (if (e_ext J e =? 0)%Z then [] else [print_Z (e_ext J e)])) =
      (pairs_of_entity e vv, if (e_ext J e =? 0)%Z then None else Some (print_Z (e_ext J e))).
    Proof.
      destruct (e_ext J e =? 0)%Z.
      - rewrite app_nil_r. apply split_exat_even, pairs_of_entity_even.
      - apply split_exat_odd, pairs_of_entity_even.
    Qed.

    (** lookups in the hash written for a well-formed entity *)
    Lemma new_hash_key e vv st : wf sc e ->
      hget (new_hash st (pairs_of_entity e vv) (rev (field_dels (e_fields J e)))) (s_key sc) = Some (e_key J e).
    Proof.
      intros W. rewrite hget_new_hash by apply pairs_of_entity_even.
      pose proof (wf_names _ _ _ W) as ND. pose proof (wf_fields _ _ _ W) as FO.
      assert (Hnames : map fst (e_fields J e) = map fst (s_fields sc)).
      { clear -FO. revert FO. generalize (s_fields sc). induction (e_fields J e) as [|[n v] fs IH]; intros [|[n' k] ks] H;
          cbn [fields_ok] in H; try discriminate; [reflexivity|].
        apply andb_true_iff in H as [H H2]. apply andb_true_iff in H as [H1 _]. apply bytes_eqb_eq in H1. subst.
        cbn [map fst]. f_equal. apply IH, H2. }
      inversion ND as [|? ? Hk ND1]; subst. inversion ND1 as [|? ? Hv ND2]; subst.
      rewrite mem_bytes_rev.
      destruct (mem_bytes (s_key sc) (field_dels (e_fields J e))) eqn:M.
      { apply mem_bytes_in, field_dels_subset in M. rewrite Hnames in M. exfalso. apply Hk. right. exact M. }
      unfold pairs_of_entity. cbn [pair_lookup].
      rewrite pair_lookup_field_pairs_notin by (rewrite Hnames; intros Hin; apply Hk; right; exact Hin).
      rewrite bytes_eqb_refl. reflexivity.
    Qed.

    Lemma fields_ok_names (fs : list (bytes * fval)) ks : fields_ok J fs ks = true -> map fst fs = map fst ks.
    Proof.
      revert ks. induction fs as [|[n v] fs IH]; intros [|[n' k] ks] H; cbn [fields_ok] in H; try discriminate; [reflexivity|].
      apply andb_true_iff in H as [H H2]. apply andb_true_iff in H as [H1 _]. apply bytes_eqb_eq in H1. subst.
      cbn [map fst]. f_equal. apply IH, H2.
    Qed.

    Lemma new_hash_ver e vv st : wf sc e ->
      hget (new_hash st (pairs_of_entity e vv) (rev (field_dels (e_fields J e)))) (ver_name sc) = Some vv.
    Proof.
      intros W. rewrite hget_new_hash by apply pairs_of_entity_even.
      pose proof (wf_names _ _ _ W) as ND.
      pose proof (fields_ok_names _ _ (wf_fields _ _ _ W)) as Hnames.
      inversion ND as [|? ? Hk ND1]; subst. inversion ND1 as [|? ? Hv ND2]; subst.
      rewrite mem_bytes_rev.
      destruct (mem_bytes (ver_name sc) (field_dels (e_fields J e))) eqn:M.
      { apply mem_bytes_in, field_dels_subset in M. rewrite Hnames in M. contradiction. }
      unfold pairs_of_entity. cbn [pair_lookup].
      rewrite pair_lookup_field_pairs_notin by (rewrite Hnames; exact Hv).
      destruct (bytes_eqb (s_key sc) (ver_name sc)) eqn:E.
      { apply bytes_eqb_eq in E. exfalso. apply Hk. left. symmetry. exact E. }
      rewrite bytes_eqb_refl. reflexivity.
    Qed.

    Lemma new_hash_field e vv st n v : wf sc e -> In (n, v) (e_fields J e) ->
      hget (new_hash st (pairs_of_entity e vv) (rev (field_dels (e_fields J e)))) n = to_string v.
    Proof.
      intros W HIn. rewrite hget_new_hash by apply pairs_of_entity_even.
      pose proof (wf_names _ _ _ W) as ND.
      pose proof (fields_ok_names _ _ (wf_fields _ _ _ W)) as Hnames.
      inversion ND as [|? ? Hk ND1]; subst. inversion ND1 as [|? ? Hv ND2]; subst.
      rewrite <- Hnames in ND2, Hv, Hk.
      rewrite mem_bytes_rev, (field_dels_spec _ ND2 n v HIn).
      destruct (to_string v) eqn:Ev; [|reflexivity].
      unfold pairs_of_entity. cbn [pair_lookup].
      rewrite (pair_lookup_field_pairs _ ND2 n v HIn), Ev. reflexivity.
    Qed.

    Lemma new_hash_nonempty e vv st : wf sc e ->
      new_hash st (pairs_of_entity e vv) (rev (field_dels (e_fields J e))) <> [].
    Proof.
      intros W E. pose proof (new_hash_key e vv st W) as H. rewrite E in H. discriminate.
    Qed.

    (** the state a successful script run leaves *)
    Definition saved_state (now : Z) (st : option hrec) (e : entity) (vv : bytes) : option hrec :=
      after_write now st (pairs_of_entity e vv) (rev (field_dels (e_fields J e))) (e_ext J e).

    Definition ver_pass (st : option hrec) (vn vv : bytes) : bool :=
      match hget (old_fields st) vn with None => true | Some s => bytes_eqb s vv end.

    Lemma script_dispatch now st0 e :
      hash_save_script now st0 (exec_args sc e) =
      let st := live now st0 in
      let vv := match s_ver sc with Some _ => print_Z (e_ver J e) | None => [] end in
      let argv := pairs_of_entity e vv ++ (if (e_ext J e =? 0)%Z then [] else [print_Z (e_ext J e)]) in
      let dels := rev (field_dels (e_fields J e)) in
      match ver_name sc with
      | [] => script_verless now st argv dels vv
      | _ => script_ver now st argv dels (ver_name sc) vv
      end.
    Proof.
      unfold hash_save_script. rewrite exec_args_shape, split_dels_app.
      unfold pairs_of_entity at 1. cbn [app]. reflexivity.
    Qed.

    (** hashSaveScript on toExec's arguments, versioned schema *)
    Lemma script_versioned now st0 e vn : s_ver sc = Some vn -> wf sc e -> lua_ver_ok (e_ver J e) = true ->
      hash_save_script now st0 (exec_args sc e) =
      let st := live now st0 in
      if ver_pass st vn (print_Z (e_ver J e))
      then (saved_state now st e (print_Z (e_ver J e + 1)), SStr (print_Z (e_ver J e + 1)))
      else (st, SNil).
    Proof.
      intros Hv W Hr. rewrite script_dispatch. cbv zeta.
      assert (Hvn : ver_name sc = vn) by (unfold ver_name; rewrite Hv; reflexivity).
      assert (Hne : vn <> []) by (intros ->; apply (wf_ver_name _ _ _ W); exact Hv).
      rewrite Hv, Hvn. destruct vn as [|c vn'] eqn:Evn; [congruence|]. rewrite <- Evn in *. clear Evn c vn'.
      unfold script_ver, ver_pass.
      replace (match live now st0 with Some r => hget (h_fields r) vn | None => None end)
        with (hget (old_fields (live now st0)) vn) by (destruct (live now st0); reflexivity).
      assert (Hset : set_second (pairs_of_entity e (print_Z (e_ver J e)) ++ (if (e_ext J e =? 0)%Z then [] else [print_Z (e_ext J e)]))
                       (print_Z (e_ver J e + 1)) =
                     pairs_of_entity e (print_Z (e_ver J e + 1)) ++ (if (e_ext J e =? 0)%Z then [] else [print_Z (e_ext J e)])).
      { unfold pairs_of_entity. reflexivity. }
      assert (Hgo : (let '(argv', e0) := split_exat (set_second (pairs_of_entity e (print_Z (e_ver J e)) ++
                        (if (e_ext J e =? 0)%Z then [] else [print_Z (e_ext J e)])) (print_Z (e_ver J e + 1))) in
                     match write_tail now (live now st0) argv' (rev (field_dels (e_fields J e))) e0 with
                     | Some st' => (st', SStr (print_Z (e_ver J e + 1)))
                     | None => (live now st0, SErr) end) =
                    (saved_state now (live now st0) e (print_Z (e_ver J e + 1)), SStr (print_Z (e_ver J e + 1)))).
      { rewrite Hset, split_exat_entity.
        rewrite write_tail_spec; [reflexivity|apply pairs_of_entity_even|discriminate|apply new_hash_nonempty, W|apply (wf_ext _ _ _ W)]. }
      rewrite (lua_incr_print _ Hr).
      destruct (hget (old_fields (live now st0)) vn) as [s|].
      - destruct (bytes_eqb s (print_Z (e_ver J e))); [exact Hgo|reflexivity].
      - exact Hgo.
    Qed.

    Lemma script_verless_spec now st0 e : s_ver sc = None -> wf sc e ->
      hash_save_script now st0 (exec_args sc e) = (saved_state now (live now st0) e [], SStr []).
    Proof.
      intros Hv W. rewrite script_dispatch. cbv zeta.
      assert (Hvn : ver_name sc = []) by (unfold ver_name; rewrite Hv; reflexivity).
      rewrite Hv, Hvn. unfold script_verless. rewrite split_exat_entity.
      rewrite write_tail_spec; [reflexivity|apply pairs_of_entity_even|discriminate|apply new_hash_nonempty, W|apply (wf_ext _ _ _ W)].
    Qed.

    (** HashRepository.Save, versioned schema *)
    Lemma save_versioned now st0 e vn : s_ver sc = Some vn -> wf sc e -> lua_ver_ok (e_ver J e) = true ->
      save sc now st0 e =
      if ver_pass (live now st0) vn (print_Z (e_ver J e))
      then (saved_state now (live now st0) e (print_Z (e_ver J e + 1)), SaveOk (e_ver J e + 1))
      else (live now st0, SaveMismatch).
    Proof.
      intros Hv W Hr. unfold Om.save. rewrite (script_versioned now st0 e vn Hv W Hr). cbv zeta.
      destruct (ver_pass (live now st0) vn (print_Z (e_ver J e))); [|reflexivity].
      rewrite Hv. rewrite parse_print_Z by (apply lua_ver_ok_int64, Hr). reflexivity.
    Qed.

    Lemma save_verless now st0 e : s_ver sc = None -> wf sc e ->
      save sc now st0 e = (saved_state now (live now st0) e [], SaveOk (e_ver J e)).
    Proof.
      intros Hv W. unfold Om.save. rewrite (script_verless_spec now st0 e Hv W), Hv. reflexivity.
    Qed.

    Lemma live_idem now st : live now (live now st) = live now st.
    Proof.
      destruct st as [r|]; cbn [live]; [|reflexivity].
      destruct ((h_pxat r =? 0) || (now <? h_pxat r))%Z eqn:E; cbn [live]; [rewrite E|]; reflexivity.
    Qed.

    Lemma saved_state_live now st e vv : ext_future J now e -> live now st = st ->
      exists r, saved_state now st e vv = Some r
        /\ h_fields r = new_hash st (pairs_of_entity e vv) (rev (field_dels (e_fields J e)))
        /\ live now (Some r) = Some r.
    Proof.
      intros F L. unfold saved_state, after_write.
      destruct (e_ext J e =? 0)%Z eqn:E0.
      - eexists; split; [reflexivity|]. split; [reflexivity|].
        cbn [live h_pxat]. destruct st as [r0|]; cbn [old_px].
        + cbn [live] in L. destruct ((h_pxat r0 =? 0) || (now <? h_pxat r0))%Z; [reflexivity|discriminate].
        + reflexivity.
      - assert (F' : (now < e_ext J e)%Z) by (destruct F; lia).
        destruct (e_ext J e <=? now)%Z eqn:E1; [lia|].
        eexists; split; [reflexivity|]. split; [reflexivity|].
        cbn [live h_pxat]. replace (now <? e_ext J e)%Z with true by lia. rewrite orb_true_r. reflexivity.
    Qed.

    Definition ver_in_range (e : entity) : Prop :=
      match s_ver sc with Some _ => lua_ver_ok (e_ver J e) = true | None => True end.

    (** the key is live right after the save *)
    Lemma save_ok_live now st0 e st' v' :
      wf sc e -> ver_in_range e -> ext_future J now e ->
      save sc now st0 e = (st', SaveOk v') -> live now st' = st' /\ st' <> None.
    Proof.
      intros W R F S. unfold ver_in_range in R.
      destruct (s_ver sc) as [vn|] eqn:Hv.
      - rewrite (save_versioned now st0 e vn Hv W R) in S.
        destruct (ver_pass (live now st0) vn (print_Z (e_ver J e))); [|discriminate].
        injection S as <- <-.
        destruct (saved_state_live now (live now st0) e (print_Z (e_ver J e + 1)) F (live_idem now st0))
          as (r & Hr & _ & Hl).
        rewrite Hr. split; [exact Hl|discriminate].
      - rewrite (save_verless now st0 e Hv W) in S. injection S as <- <-.
        destruct (saved_state_live now (live now st0) e [] F (live_idem now st0)) as (r & Hr & _ & Hl).
        rewrite Hr. split; [exact Hl|discriminate].
    Qed.

    (** a successful save reports and stores exactly version + 1 *)
    Theorem version_plus_one now st0 e st' v' vn :
      s_ver sc = Some vn -> wf sc e -> lua_ver_ok (e_ver J e) = true ->
      save sc now st0 e = (st', SaveOk v') ->
      v' = (e_ver J e + 1)%Z /\
      (ext_future J now e -> exists r, st' = Some r /\ hget (h_fields r) vn = Some (print_Z (e_ver J e + 1))).
    Proof.
      intros Hv W R S.
      rewrite (save_versioned now st0 e vn Hv W R) in S.
      destruct (ver_pass (live now st0) vn (print_Z (e_ver J e))); [|discriminate].
      injection S as <- <-. split; [reflexivity|]. intros F.
      destruct (saved_state_live now (live now st0) e (print_Z (e_ver J e + 1)) F (live_idem now st0))
        as (r & Hr & Hf & _).
      exists r. split; [exact Hr|]. rewrite Hf.
      assert (Hvn : ver_name sc = vn) by (unfold ver_name; rewrite Hv; reflexivity).
      rewrite <- Hvn. apply new_hash_ver, W.
    Qed.

    (** every save answers with the next version or ErrVersionMismatch, nothing else *)
    Theorem save_outcomes now st0 e vn :
      s_ver sc = Some vn -> wf sc e -> lua_ver_ok (e_ver J e) = true ->
      snd (save sc now st0 e) = SaveOk (e_ver J e + 1) \/ snd (save sc now st0 e) = SaveMismatch.
    Proof.
      intros Hv W R. rewrite (save_versioned now st0 e vn Hv W R).
      destruct (ver_pass (live now st0) vn (print_Z (e_ver J e))); [left|right]; reflexivity.
    Qed.

    Section WithParse.
      Variable jparse : bytes -> option J.
      Variable jzero : bytes -> J.
      Notation of_string := (of_string J jparse).
      Notation zero_of := (zero_of J jzero).
      Notation fetch := (fetch J jparse jzero).
      Notation from_fields := (from_fields J jparse jzero).

    (** ---- optimistic locking over histories ---- *)
    Notation quiet := (quiet J jprint).
    Notation wins := (wins J).
    Notation saves_wf := (saves_wf J).
    Notation run := (run J jprint jparse jzero).

    Definition stored_gt (vn : bytes) (st : option hrec) (v : Z) : Prop :=
      exists r n, st = Some r /\ hget (h_fields r) vn = Some (print_Z n) /\ (v < n)%Z /\ int64_ok n = true.

    Lemma run_save_cons st now e r :
      snd (run sc st (OSave J now e :: r)) =
      BSave J (snd (save sc now st e)) :: snd (run sc (fst (save sc now st e)) r).
    Proof.
      cbn [Om.run Om.step]. destruct (save sc now st e) as [st1 res]. cbn [fst snd].
      destruct (run sc st1 r). reflexivity.
    Qed.

    Lemma run_fetch_cons st now r :
      snd (run sc st (OFetch J now :: r)) = BFetch J (fetch sc now st) :: snd (run sc st r).
    Proof. cbn [Om.run Om.step]. destruct (run sc st r). reflexivity. Qed.

    Lemma no_win_after vn v : s_ver sc = Some vn -> forall ops st,
      stored_gt vn st v -> saves_wf sc ops -> quiet sc st ops -> wins v ops (snd (run sc st ops)) = O.
    Proof.
      intros Hv. induction ops as [|o ops IH]; intros st G W Q; [reflexivity|].
      inversion W as [|? ? Wo Wr]; subst.
      destruct o as [now e|now| |now f x]; cbn [Om.quiet] in Q; try contradiction.
      - destruct Wo as [We Re]. destruct Q as (L & F & Q).
        rewrite run_save_cons. rewrite (save_versioned now st e vn Hv We Re) in *. rewrite L in *.
        destruct G as (r & n & -> & Hg & Hlt & Hn).
        unfold ver_pass in *. cbn [old_fields] in *. rewrite Hg in *.
        destruct (bytes_eqb (print_Z n) (print_Z (e_ver J e))) eqn:E; cbn [fst snd] in *.
        + apply bytes_eqb_eq in E. apply print_Z_inj in E; [|exact Hn|apply lua_ver_ok_int64, Re]. subst n.
          cbn [Om.wins]. replace (e_ver J e =? v)%Z with false by lia. cbn [Nat.add].
          apply IH; [|exact Wr|exact Q].
          destruct (saved_state_live now (Some r) e (print_Z (e_ver J e + 1)) F L) as (r' & Hr' & Hf & _).
          exists r', (e_ver J e + 1)%Z. split; [exact Hr'|]. split; [|split; [lia|apply lua_ver_ok_int64, Re]].
          rewrite Hf. assert (Hvn : ver_name sc = vn) by (unfold ver_name; rewrite Hv; reflexivity).
          rewrite <- Hvn. apply new_hash_ver, We.
        + cbn [Om.wins]. apply IH; [|exact Wr|exact Q]. exists r, n. auto.
      - rewrite run_fetch_cons. cbn [Om.wins]. apply IH; assumption.
    Qed.

    (** among the saves of a history that carry the same version, at most one succeeds *)
    Theorem one_winner vn v : s_ver sc = Some vn -> forall ops st,
      saves_wf sc ops -> quiet sc st ops -> (wins v ops (snd (run sc st ops)) <= 1)%nat.
    Proof.
      intros Hv. induction ops as [|o ops IH]; intros st W Q; [cbn; lia|].
      inversion W as [|? ? Wo Wr]; subst.
      destruct o as [now e|now| |now f x]; cbn [Om.quiet] in Q; try contradiction.
      - destruct Wo as [We Re]. destruct Q as (L & F & Q).
        rewrite run_save_cons. rewrite (save_versioned now st e vn Hv We Re) in *. rewrite L in *.
        destruct (ver_pass st vn (print_Z (e_ver J e))); cbn [fst snd] in *.
        + cbn [Om.wins]. destruct (e_ver J e =? v)%Z eqn:E.
          * rewrite (no_win_after vn v Hv); [lia| |exact Wr|exact Q].
            destruct (saved_state_live now st e (print_Z (e_ver J e + 1)) F L) as (r' & Hr' & Hf & _).
            exists r', (e_ver J e + 1)%Z. split; [exact Hr'|]. split; [|split; [lia|apply lua_ver_ok_int64, Re]].
            rewrite Hf. assert (Hvn : ver_name sc = vn) by (unfold ver_name; rewrite Hv; reflexivity).
            rewrite <- Hvn. apply new_hash_ver, We.
          * cbn [Nat.add]. apply IH; assumption.
        + cbn [Om.wins]. apply IH; assumption.
      - rewrite run_fetch_cons. cbn [Om.wins]. apply IH; assumption.
    Qed.

    (** … and every save of such a history answers with its version + 1 or with ErrVersionMismatch *)
    Theorem history_outcomes vn : s_ver sc = Some vn -> forall ops st,
      saves_wf sc ops -> quiet sc st ops ->
      Forall2 (fun o b => match o with
                          | OSave _ _ e => b = BSave J (SaveOk (e_ver J e + 1)) \/ b = BSave J SaveMismatch
                          | _ => True end) ops (snd (run sc st ops)).
    Proof.
      intros Hv. induction ops as [|o ops IH]; intros st W Q; [constructor|].
      inversion W as [|? ? Wo Wr]; subst.
      destruct o as [now e|now| |now f x]; cbn [Om.quiet] in Q; try contradiction.
      - destruct Wo as [We Re]. destruct Q as (L & F & Q).
        rewrite run_save_cons. constructor; [|apply IH; assumption].
        destruct (save_outcomes now st e vn Hv We Re) as [H|H]; rewrite H; auto.
      - rewrite run_fetch_cons. constructor; [exact I|apply IH; assumption].
    Qed.

      Section WithLaw.
        Hypothesis jroundtrip : forall j, jparse (jprint j) = Some j.

  Lemma bool_str_roundtrip b : bytes_eqb (bool_str b) str_t = b.
  Proof. destruct b; reflexivity. Qed.

  (** per-value round trip of converter.ValueToString / StringToValue *)
  Lemma of_to_string v s : val_ok v -> to_string v = Some s -> of_string (kind_of J v) s = Ok v.
  Proof.
    destruct v as [z|x|b|[z|]|[x|]|[b|]|x|ws|ws|j]; cbn [Om.to_string kind_of Om.of_string Om.val_ok]; intros Hv E;
      try discriminate; injection E as <-.
    - rewrite (parse_print_Z z Hv). reflexivity.
    - reflexivity.
    - rewrite bool_str_roundtrip. reflexivity.
    - rewrite (parse_print_Z z Hv). reflexivity.
    - reflexivity.
    - rewrite bool_str_roundtrip. reflexivity.
    - reflexivity.
    - rewrite (to_vector_top_roundtrip 4 ws); [reflexivity|repeat constructor|exact Hv].
    - rewrite (to_vector_top_roundtrip 8 ws); [reflexivity|repeat constructor|exact Hv].
    - rewrite jroundtrip. reflexivity.
  Qed.

  (** a value without string form is the zero value of its kind (a nil pointer) *)
  Lemma zero_of_none n v : to_string v = None -> zero_of n (kind_of J v) = v.
  Proof.
    destruct v as [z|x|b|[z|]|[x|]|[b|]|x|ws|ws|j]; cbn [Om.to_string kind_of Om.zero_of]; intros E;
      try discriminate; reflexivity.
  Qed.

  (** FromHash returns the saved fields when every field reads back as its string form *)
  Lemma from_fields_roundtrip h : forall fs ks, fields_ok J fs ks = true ->
    Forall (fun p => val_ok (snd p)) fs ->
    (forall n v, In (n, v) fs -> hget h n = to_string v) ->
    from_fields h ks = Ok fs.
  Proof.
    induction fs as [|[n v] fs IH]; intros [|[n' k] ks] Hok Hv Hget; cbn [fields_ok] in Hok; try discriminate; [reflexivity|].
    apply andb_true_iff in Hok as [Hok Hrest]. apply andb_true_iff in Hok as [Hn Hk].
    apply bytes_eqb_eq in Hn. subst n'.
    assert (Ek : kind_of J v = k) by (destruct v, k; cbn in Hk |- *; first [reflexivity|discriminate]).
    inversion Hv as [|? ? Hv1 Hv2]; subst.
    cbn [Om.from_fields]. rewrite (Hget n v (or_introl eq_refl)).
    rewrite (IH ks Hrest Hv2 (fun n0 v0 H => Hget n0 v0 (or_intror H))).
    destruct (to_string v) eqn:Ev.
    - rewrite (of_to_string v b Hv1 Ev). reflexivity.
    - rewrite (zero_of_none n v Ev). reflexivity.
  Qed.

    (** ---- round trip ---- *)
    Lemma fetch_new_hash now' r e vv st : wf sc e ->
      h_fields r = new_hash st (pairs_of_entity e vv) (rev (field_dels (e_fields J e))) ->
      live now' (Some r) = Some r ->
      (match s_ver sc with Some _ => exists z, int64_ok z = true /\ vv = print_Z z | None => vv = [] end) ->
      exists e', fetch sc now' (Some r) = Ok e' /\ e_key J e' = e_key J e /\ e_fields J e' = e_fields J e
        /\ (match s_ver sc with Some _ => parse_int64 vv = Some (e_ver J e') | None => e_ver J e' = 0%Z end).
    Proof.
      intros W Hf L Hvv. unfold Om.fetch. rewrite L, Hf. clear Hf L.
      pose proof (new_hash_nonempty e vv st W) as NE.
      destruct (new_hash st (pairs_of_entity e vv) (rev (field_dels (e_fields J e)))) as [|p h] eqn:Hh; [congruence|].
      clear NE. rewrite <- Hh. clear Hh p h.
      rewrite (new_hash_key e vv st W).
      rewrite (from_fields_roundtrip _ _ _ (wf_fields _ _ _ W) (wf_vals _ _ _ W)
                 (fun n v H => new_hash_field e vv st n v W H)).
      destruct (s_ver sc) as [vn|] eqn:Hv.
      - assert (Hvn : ver_name sc = vn) by (unfold ver_name; rewrite Hv; reflexivity).
        rewrite <- Hvn, (new_hash_ver e vv st W).
        destruct Hvv as (z & Hz & ->). rewrite (parse_print_Z z Hz).
        eexists; repeat split; reflexivity.
      - eexists; repeat split; reflexivity.
    Qed.

    (** Save then Fetch (any later instant at which the key has not expired) returns the saved
        entity with the version the save reported *)
    Theorem roundtrip now now' st0 e st' v' :
      wf sc e -> ver_in_range e -> ext_future J now e ->
      save sc now st0 e = (st', SaveOk v') -> live now' st' = st' ->
      exists e', fetch sc now' st' = Ok e' /\ e_key J e' = e_key J e /\ e_fields J e' = e_fields J e
                 /\ e_ver J e' = match s_ver sc with Some _ => v' | None => 0%Z end.
    Proof.
      intros W R F S L. unfold ver_in_range in R.
      destruct (s_ver sc) as [vn|] eqn:Hv.
      - rewrite (save_versioned now st0 e vn Hv W R) in S.
        destruct (ver_pass (live now st0) vn (print_Z (e_ver J e))); [|discriminate].
        injection S as <- <-.
        destruct (saved_state_live now (live now st0) e (print_Z (e_ver J e + 1)) F (live_idem now st0))
          as (r & Hr & Hf & _).
        rewrite Hr in *.
        destruct (fetch_new_hash now' r e _ _ W Hf L) as (e' & He' & Hk & Hfs & Hver).
        { rewrite Hv. exists (e_ver J e + 1)%Z. split; [apply lua_ver_ok_int64, R|reflexivity]. }
        exists e'. repeat split; try assumption.
        rewrite Hv in Hver. rewrite parse_print_Z in Hver by (apply lua_ver_ok_int64, R). congruence.
      - rewrite (save_verless now st0 e Hv W) in S. injection S as <- <-.
        destruct (saved_state_live now (live now st0) e [] F (live_idem now st0)) as (r & Hr & Hf & _).
        rewrite Hr in *.
        destruct (fetch_new_hash now' r e _ _ W Hf L) as (e' & He' & Hk & Hfs & Hver).
        { rewrite Hv. reflexivity. }
        exists e'. repeat split; try assumption. rewrite Hv in Hver. exact Hver.
    Qed.

      End WithLaw.
    End WithParse.
  End OneSchema.
End ConvProofs.

(** ---- the JSON repository: same optimistic locking, the document store abstracted ---- *)
Section JsonProofs.
  Variable doc : Type.
  Variable jset : bytes -> option doc.
  Variable jget : doc -> bytes -> option bytes.
  Variable jincr : doc -> bytes -> option (doc * bytes).
  Variable jroot : doc -> bytes.
  Variable ent : Type.
  Variable jenc : ent -> bytes.
  Variable jdec : bytes -> option ent.
  Variable ent_ver : ent -> Z.
  Variable ent_set_ver : ent -> Z -> ent.
  Variable ent_ext : ent -> Z.
  Variable vn : bytes.                      (* name of the version field *)
  Hypothesis vn_nonempty : vn <> [].

  (** assumed of RedisJSON and encoding/json (exercised by the tie on a fake JSON store):
      storing an encoded entity yields a document whose version path prints the entity's version
      and whose root decodes to the entity; NUMINCRBY by 1 adds one to that number and to nothing else *)
  Hypothesis jset_enc : forall e, exists d, jset (jenc e) = Some d /\
      jget d vn = Some (print_Z (ent_ver e)) /\ jdec (jroot d) = Some e.
  Hypothesis jincr_spec : forall d z, jget d vn = Some (print_Z z) -> exists d',
      jincr d vn = Some (d', print_Z (z + 1)) /\ jget d' vn = Some (print_Z (z + 1)) /\
      (forall e, jdec (jroot d) = Some e -> jdec (jroot d') = Some (ent_set_ver e (z + 1))).

  Notation jrec := (jrec doc).
  Notation jsave := (jsave doc jset jget jincr ent jenc ent_ver ent_ext vn).
  Notation jfetch := (jfetch doc jroot ent jdec).
  Notation jlive := (jlive doc).

  Definition ent_ok (e : ent) : Prop := int64_ok (ent_ver e) = true /\ int64_ok (ent_ver e + 1) = true /\ int64_ok (ent_ext e) = true.
  Definition jext_future (now : Z) (e : ent) : Prop := (ent_ext e = 0 \/ now < ent_ext e)%Z.

  (** the stored document carries an integer version *)
  Definition doc_ok (st : option jrec) : Prop :=
    match st with
    | Some r => exists n, int64_ok n = true /\ jget (j_doc _ r) vn = Some (print_Z n)
    | None => True
    end.

  Definition jstored (st : option jrec) : option Z -> Prop :=
    fun o => match st, o with
             | Some r, Some n => int64_ok n = true /\ jget (j_doc _ r) vn = Some (print_Z n)
             | None, None => True
             | _, _ => False
             end.

  Definition jwritten (now : Z) (st : option jrec) (e : ent) (d' : doc) : option jrec :=
    let px := match st with Some r => j_pxat _ r | None => 0%Z end in
    if (ent_ext e =? 0)%Z then Some (Build_jrec d' px)
    else if (ent_ext e <=? now)%Z then None else Some (Build_jrec d' (ent_ext e)).

  Lemma jsave_unfold now st0 e :
    jsave now st0 e =
    let '(st', r) := jscript_ver doc jset jget jincr now (jlive now st0) vn (print_Z (ent_ver e)) (jenc e)
                       (if (ent_ext e =? 0)%Z then None else Some (print_Z (ent_ext e))) in
    match r with
    | SNil => (st', JSaveMismatch)
    | SErr | SOutOfRange => (st', JSaveErr)
    | SStr s => (st', JSaveOk (match parse_int64 s with Some z => z | None => 0%Z end))
    end.
  Proof.
    unfold Om.jsave, json_save_script.
    destruct vn as [|c vn'] eqn:Evn; [congruence|]. rewrite <- Evn.
    replace (match (if (ent_ext e =? 0)%Z then [] else [print_Z (ent_ext e)]) with [t] => Some t | _ => None end)
      with (if (ent_ext e =? 0)%Z then None else Some (print_Z (ent_ext e))) by (destruct (ent_ext e =? 0)%Z; reflexivity).
    destruct (jscript_ver _ _ _ _ _ _ _ _ _ _) as [st' r]. destruct r; reflexivity.
  Qed.

  Definition jpass (st : option jrec) (e : ent) : bool :=
    match st with
    | Some r => match jget (j_doc _ r) vn with Some s => bytes_eqb s (print_Z (ent_ver e)) | None => false end
    | None => true
    end.

  Lemma jsave_spec now st0 e : ent_ok e -> doc_ok (jlive now st0) ->
    if jpass (jlive now st0) e
    then exists d', jsave now st0 e = (jwritten now (jlive now st0) e d', JSaveOk (ent_ver e + 1)) /\
                    jget d' vn = Some (print_Z (ent_ver e + 1)) /\
                    jdec (jroot d') = Some (ent_set_ver e (ent_ver e + 1))
    else jsave now st0 e = (jlive now st0, JSaveMismatch).
  Proof.
    intros (Hv & Hv1 & Hx) D. rewrite jsave_unfold. set (st := jlive now st0) in *.
    destruct (jset_enc e) as (d & Hd & Hg & Hdec).
    destruct (jincr_spec d _ Hg) as (d' & Hi & Hg' & Hdec').
    assert (HW : forall px, jexpire doc now (Some (Build_jrec d' px))
                   (if (ent_ext e =? 0)%Z then None else Some (print_Z (ent_ext e))) =
                 Some (if (ent_ext e =? 0)%Z then Some (Build_jrec d' px)
                       else if (ent_ext e <=? now)%Z then None else Some (Build_jrec d' (ent_ext e)))).
    { intros px. unfold jexpire. destruct (ent_ext e =? 0)%Z; [reflexivity|].
      rewrite (parse_print_Z _ Hx). cbn [j_doc]. destruct (ent_ext e <=? now)%Z; reflexivity. }
    unfold jscript_ver, jpass, jwritten.
    destruct st as [r|].
    - destruct D as (n & Hn & Hgn). rewrite Hgn.
      destruct (bytes_eqb (print_Z n) (print_Z (ent_ver e))); [|reflexivity].
      exists d'. rewrite Hd, Hi, HW, (parse_print_Z _ Hv1). split; [reflexivity|split; [exact Hg'|apply Hdec', Hdec]].
    - exists d'. rewrite Hd, Hi, HW, (parse_print_Z _ Hv1). split; [reflexivity|split; [exact Hg'|apply Hdec', Hdec]].
  Qed.

  Lemma jlive_idem now st : jlive now (jlive now st) = jlive now st.
  Proof.
    destruct st as [r|]; cbn [Om.jlive]; [|reflexivity].
    destruct ((j_pxat _ r =? 0) || (now <? j_pxat _ r))%Z eqn:E; cbn [Om.jlive]; [rewrite E|]; reflexivity.
  Qed.

  Lemma jwritten_live now st e d' : jext_future now e -> jlive now st = st ->
    exists px, jwritten now st e d' = Some (Build_jrec d' px) /\ jlive now (Some (Build_jrec d' px)) = Some (Build_jrec d' px).
  Proof.
    intros F L. unfold jwritten. destruct (ent_ext e =? 0)%Z eqn:E0.
    - eexists; split; [reflexivity|]. cbn [Om.jlive j_pxat]. destruct st as [r|].
      + cbn [Om.jlive] in L. destruct ((j_pxat _ r =? 0) || (now <? j_pxat _ r))%Z; [reflexivity|discriminate].
      + reflexivity.
    - assert (F' : (now < ent_ext e)%Z) by (destruct F; lia).
      destruct (ent_ext e <=? now)%Z eqn:E1; [lia|].
      eexists; split; [reflexivity|]. cbn [Om.jlive j_pxat].
      replace (now <? ent_ext e)%Z with true by lia. rewrite orb_true_r. reflexivity.
  Qed.

  (** a successful save reports version + 1, and a fetch (while the key lives) decodes the saved
      entity with that version *)
  Theorem json_save_fetch now now' st0 e st' v' :
    ent_ok e -> doc_ok (jlive now st0) -> jext_future now e ->
    jsave now st0 e = (st', JSaveOk v') -> jlive now' st' = st' ->
    v' = (ent_ver e + 1)%Z /\ jfetch now' st' = Ok (ent_set_ver e (ent_ver e + 1)).
  Proof.
    intros He D F S L. pose proof (jsave_spec now st0 e He D) as H.
    destruct (jpass (jlive now st0) e).
    - destruct H as (d' & Hs & Hg & Hdec). rewrite Hs in S. injection S as <- <-. split; [reflexivity|].
      destruct (jwritten_live now (jlive now st0) e d' F (jlive_idem now st0)) as (px & Hw & _).
      rewrite Hw in *. unfold Om.jfetch. rewrite L. cbn [j_doc]. rewrite Hdec. reflexivity.
    - rewrite H in S. discriminate.
  Qed.

  Fixpoint jhist (st : option jrec) (ops : list (Z * ent)) : list jsave_res :=
    match ops with
    | [] => []
    | (now, e) :: r => snd (jsave now st e) :: jhist (fst (jsave now st e)) r
    end.

  (** the key neither expires nor is removed during the history; no save writes an expired object *)
  Fixpoint jquiet (st : option jrec) (ops : list (Z * ent)) : Prop :=
    match ops with
    | [] => True
    | (now, e) :: r => jlive now st = st /\ jext_future now e /\ ent_ok e /\ jquiet (fst (jsave now st e)) r
    end.

  Fixpoint jwins (v : Z) (ops : list (Z * ent)) (rs : list jsave_res) : nat :=
    match ops, rs with
    | (_, e) :: r, JSaveOk _ :: r' => (if (ent_ver e =? v)%Z then 1 else 0) + jwins v r r'
    | _ :: r, _ :: r' => jwins v r r'
    | _, _ => O
    end.

  Definition jstored_gt (st : option jrec) (v : Z) : Prop :=
    exists r n, st = Some r /\ jget (j_doc _ r) vn = Some (print_Z n) /\ (v < n)%Z /\ int64_ok n = true.

  Lemma jstored_gt_ok st v : jstored_gt st v -> doc_ok st.
  Proof. intros (r & n & -> & Hg & _ & Hn). exists n. auto. Qed.

  Lemma json_no_win_after v : forall ops st,
    jstored_gt st v -> jquiet st ops -> jwins v ops (jhist st ops) = O.
  Proof.
    induction ops as [|[now e] ops IH]; intros st G Q; [reflexivity|].
    cbn [jquiet] in Q. destruct Q as (L & F & He & Q). cbn [jhist].
    pose proof (jsave_spec now st e He) as H. rewrite L in H. specialize (H (jstored_gt_ok _ _ G)).
    destruct G as (r & n & -> & Hg & Hlt & Hn). unfold jpass in H. rewrite Hg in H.
    destruct (bytes_eqb (print_Z n) (print_Z (ent_ver e))) eqn:E.
    - apply bytes_eqb_eq in E. apply print_Z_inj in E; [|exact Hn|apply He]. subst n.
      destruct H as (d' & Hs & Hg' & _). rewrite Hs in *. cbn [fst snd jwins] in *.
      replace (ent_ver e =? v)%Z with false by lia. cbn [Nat.add].
      apply IH; [|exact Q].
      destruct (jwritten_live now (Some r) e d' F L) as (px & Hw & _). rewrite Hw.
      eexists; exists (ent_ver e + 1)%Z. split; [reflexivity|]. cbn [j_doc]. split; [exact Hg'|split; [lia|apply He]].
    - rewrite H in *. cbn [fst snd jwins] in *. apply IH; [|exact Q]. exists r, n. auto.
  Qed.

  Lemma jsave_keeps_ok now st e : ent_ok e -> jlive now st = st -> jext_future now e -> doc_ok st ->
    doc_ok (fst (jsave now st e)).
  Proof.
    intros He L F D. pose proof (jsave_spec now st e He) as H. rewrite L in H. specialize (H D).
    destruct (jpass st e).
    - destruct H as (d' & Hs & Hg' & _). rewrite Hs. cbn [fst].
      destruct (jwritten_live now st e d' F L) as (px & Hw & _). rewrite Hw.
      exists (ent_ver e + 1)%Z. cbn [j_doc]. split; [apply He|exact Hg'].
    - rewrite H. exact D.
  Qed.

  (** among the saves of a history that carry the same version at most one succeeds *)
  Theorem json_one_winner v : forall ops st,
    doc_ok st -> jquiet st ops -> (jwins v ops (jhist st ops) <= 1)%nat.
  Proof.
    induction ops as [|[now e] ops IH]; intros st D Q; [cbn; lia|].
    cbn [jquiet] in Q. destruct Q as (L & F & He & Q). cbn [jhist].
    pose proof (jsave_keeps_ok now st e He L F D) as D'.
    pose proof (jsave_spec now st e He) as H. rewrite L in H. specialize (H D).
    destruct (jpass st e).
    - destruct H as (d' & Hs & Hg' & _). rewrite Hs in *. cbn [fst snd jwins] in *.
      destruct (ent_ver e =? v)%Z eqn:E.
      + rewrite json_no_win_after; [lia| |exact Q].
        destruct (jwritten_live now st e d' F L) as (px & Hw & _). rewrite Hw.
        eexists; exists (ent_ver e + 1)%Z. split; [reflexivity|]. cbn [j_doc]. split; [exact Hg'|split; [lia|apply He]].
      + cbn [Nat.add]. apply IH; assumption.
    - rewrite H in *. cbn [fst snd jwins] in *. apply IH; assumption.
  Qed.

  (** … and every answer is the next version or ErrVersionMismatch *)
  Theorem json_history_outcomes : forall ops st, doc_ok st -> jquiet st ops ->
    Forall2 (fun o r => r = JSaveOk (ent_ver (snd o) + 1) \/ r = JSaveMismatch) ops (jhist st ops).
  Proof.
    induction ops as [|[now e] ops IH]; intros st D Q; [constructor|].
    cbn [jquiet] in Q. destruct Q as (L & F & He & Q). cbn [jhist].
    pose proof (jsave_keeps_ok now st e He L F D) as D'.
    constructor; [|apply IH; assumption].
    pose proof (jsave_spec now st e He) as H. rewrite L in H. specialize (H D).
    destruct (jpass st e).
    - destruct H as (d' & Hs & _). rewrite Hs. left. reflexivity.
    - rewrite H. right. reflexivity.
  Qed.
End JsonProofs.
