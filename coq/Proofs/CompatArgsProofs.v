(** C42: the adapter's argument construction (Model/CompatArgs.v) against the go-redis specification
    (Model/GoRedisSpec.v), method by method, for all arguments. *)
From Coq Require Import List NArith ZArith String Bool Lia DecimalN.
Require Import RV.Model.Base RV.Model.CompatBase RV.Model.GoRedisSpec RV.Model.CompatArgs.
Import ListNotations.
Local Open Scope Z_scope.

Arguments print_Z : simpl never.
Arguments print_N : simpl never.
Arguments upper : simpl never.
Arguments lower : simpl never.

(** ---------- norm_toks ---------- *)
Lemma norm_toks_app : forall a b, norm_toks (a ++ b) = norm_toks a ++ norm_toks b.
Proof. intros. unfold norm_toks. apply flat_map_app. Qed.

Lemma norm_toks_mapD : forall l, norm_toks (map D l) = map D l.
Proof. induction l as [|x l IH]; [reflexivity|]. cbn. f_equal. exact IH. Qed.

Lemma norm_toks_cons : forall t l, norm_toks (t :: l) = norm_tok t ++ norm_toks l.
Proof. reflexivity. Qed.

Lemma norm_toks_map_ext : forall A (f g : A -> tok) l,
  (forall x, norm_tok (f x) = norm_tok (g x)) -> norm_toks (map f l) = norm_toks (map g l).
Proof. intros A f g l H. induction l as [|x l IH]; [reflexivity|]. cbn. rewrite H. f_equal. exact IH. Qed.

Lemma norm_toks_flat_map_ext : forall A (f g : A -> list tok) l,
  (forall x, norm_toks (f x) = norm_toks (g x)) -> norm_toks (flat_map f l) = norm_toks (flat_map g l).
Proof.
  intros A f g l H. induction l as [|x l IH]; [reflexivity|].
  cbn [flat_map]. rewrite !norm_toks_app, H, IH. reflexivity.
Qed.

Lemma upper_idem : forall s, upper (upper s) = upper s.
Proof.
  unfold upper. intro s. rewrite map_map. apply map_ext. intro b. unfold up_byte.
  destruct ((97 <=? b)%N && (b <=? 122)%N) eqn:E; [|rewrite E; reflexivity].
  apply andb_prop in E. destruct E as [E1 E2]. apply N.leb_le in E1, E2.
  replace ((97 <=? b - 32)%N && (b - 32 <=? 122)%N) with false; [reflexivity|].
  symmetry. apply andb_false_iff. left. apply N.leb_gt. lia.
Qed.

Lemma upper_lower : forall s, upper (lower s) = upper s.
Proof.
  unfold upper, lower. intro s. rewrite map_map. apply map_ext. intro b. unfold up_byte, low_byte.
  destruct ((65 <=? b)%N && (b <=? 90)%N) eqn:E.
  - apply andb_prop in E. destruct E as [E1 E2]. apply N.leb_le in E1, E2.
    replace ((97 <=? b + 32)%N && (b + 32 <=? 122)%N) with true
      by (symmetry; apply andb_true_iff; split; apply N.leb_le; lia).
    replace ((97 <=? b)%N && (b <=? 122)%N) with false
      by (symmetry; apply andb_false_iff; left; apply N.leb_gt; lia).
    lia.
  - reflexivity.
Qed.

Lemma list_eqb_eq : forall (l1 l2 : bytes), bytes_eqb l1 l2 = true -> l1 = l2.
Proof.
  unfold bytes_eqb. induction l1 as [|x l1 IH]; intros [|y l2] H; cbn in H; try discriminate; [reflexivity|].
  apply andb_prop in H. destruct H as [H1 H2]. apply N.eqb_eq in H1. subst. f_equal. apply IH. exact H2.
Qed.

Lemma bytes_eqb_refl : forall l, bytes_eqb l l = true.
Proof. unfold bytes_eqb. induction l as [|x l IH]; [reflexivity|]. cbn. rewrite N.eqb_refl, IH. reflexivity. Qed.

(** a difference of two normal forms at a data token *)
Lemma wire_Ok_inj : forall a b, wire (Ok a) = wire (Ok b) -> norm a = norm b.
Proof. intros a b H. cbn in H. congruence. Qed.

(** [norm] is decided by [norm_toks] *)
Lemma norm_of_toks : forall a b, norm_toks a = norm_toks b -> wire (Ok a) = wire (Ok b).
Proof. intros a b H. cbn. unfold norm. rewrite H. reflexivity. Qed.

Ltac nt_simpl := repeat rewrite ?norm_toks_app, ?norm_toks_mapD.

(** destruct every boolean / list / option test of the goal *)
Ltac break_ifs :=
  repeat match goal with
  | |- context [0 <? 0] => change (0 <? 0) with false; cbv iota
  | |- context [negb true] => cbn [negb]
  | |- context [negb false] => cbn [negb]
  | |- context [match ?x with [] => _ | _ :: _ => _ end] => destruct x eqn:?
  | |- context [match ?x with Some _ => _ | None => _ end] => destruct x eqn:?
  | |- context [if ?c then _ else _] => destruct c eqn:?
  end.

Ltac unf :=
  unfold a_expiry, g_expiry, a_use_precise, g_use_precise, a_format_ms, g_format_ms, a_format_sec, g_format_sec,
         a_scan_tail, g_scan_tail, a_limit, g_limit, a_with, g_with, a_xtrim, nonempty, is_empty,
         KW, kw_, zi, zt, nt, leni, lent in *.

Ltac fin := first [ reflexivity | (apply norm_of_toks; nt_simpl; reflexivity) ].
Ltac avals := repeat match goal with v : aval |- _ => destruct v end.
Ltac go := intros; cbv beta iota zeta delta [GoRedisSpec.goredis CompatArgs.adapter]; unf; break_ifs; fin.
Ltac go_set := intros; avals; cbv beta iota zeta delta [GoRedisSpec.goredis CompatArgs.adapter]; unf; break_ifs; reflexivity.

(** ---------- decimal printing is injective ---------- *)
Lemma uint_bytes_inj : forall a b, uint_bytes a = uint_bytes b -> a = b.
Proof.
  induction a; destruct b; cbn; intro H; try discriminate; try reflexivity;
    injection H as H; f_equal; apply IHa; exact H.
Qed.

Lemma print_N_inj : forall a b, print_N a = print_N b -> a = b.
Proof.
  intros a b H. unfold print_N in H. apply uint_bytes_inj in H.
  rewrite <- (DecimalN.Unsigned.of_to a), <- (DecimalN.Unsigned.of_to b), H. reflexivity.
Qed.

Lemma uint_bytes_digit : forall u b r, uint_bytes u = b :: r -> (48 <= b <= 57)%N.
Proof. destruct u; cbn; intros b r H; inversion H; subst; lia. Qed.

Lemma print_N_pos_nonempty : forall p, print_N (Npos p) <> [].
Proof.
  intros p H. unfold print_N in H.
  assert (E : N.to_uint (Npos p) = Decimal.Nil) by (destruct (N.to_uint (Npos p)); cbn in H; try discriminate; reflexivity).
  pose proof (DecimalN.Unsigned.of_to (Npos p)) as X. rewrite E in X. cbn in X. discriminate.
Qed.

Lemma print_Z_inj : forall a b, print_Z a = print_Z b -> a = b.
Proof.
  intros a b H. unfold print_Z in H.
  destruct a as [|p|p]; destruct b as [|q|q]; try reflexivity.
  - exfalso. change [48%N] with (print_N 0) in H. apply print_N_inj in H. discriminate.
  - exfalso. inversion H.
  - exfalso. change [48%N] with (print_N 0) in H. apply print_N_inj in H. discriminate.
  - apply print_N_inj in H. congruence.
  - exfalso. destruct (print_N (N.pos p)) as [|c r] eqn:E; [exact (print_N_pos_nonempty p E)|].
    inversion H; subst. unfold print_N in E. apply uint_bytes_digit in E. lia.
  - exfalso. inversion H.
  - exfalso. destruct (print_N (N.pos q)) as [|c r] eqn:E; [exact (print_N_pos_nonempty q E)|].
    inversion H; subst. unfold print_N in E. apply uint_bytes_digit in E. lia.
  - injection H as H. apply print_N_inj in H. congruence.
Qed.

Section WithFloat.
Variable F : Type.
Variable ff : F -> bytes.
Variable fpos : F -> bool.

Notation adapter := (adapter F ff fpos).
Notation goredis := (goredis F ff fpos).
Notation call := (call F).

(** equal up to [norm] *)
Definition same (c : call) : Prop := wire (adapter c) = wire (goredis c).

(** ---------- strings and keys ---------- *)
Lemma Set_equiv : forall key v exp, same (MSet key v exp).
Proof. unfold same. go. Qed.

Lemma SetEX_equiv : forall key v exp, same (MSetEX key v exp).
Proof. unfold same. go. Qed.

Lemma SetNX_equiv : forall key v exp, same (MSetNX key v exp).
Proof. unfold same. go_set. Qed.

Lemma SetXX_equiv : forall key v exp, same (MSetXX key v exp).
Proof. unfold same. go_set. Qed.

(** GetEx: go-redis sends PERSIST for a zero expiration, the adapter a plain GETEX *)
Lemma GetEx_equiv : forall key exp, exp <> 0 -> same (MGetEx key exp).
Proof.
  unfold same. intros key exp H. cbv beta iota zeta delta [GoRedisSpec.goredis CompatArgs.adapter]. unf.
  replace (exp =? 0) with false by (symmetry; apply Z.eqb_neq; exact H).
  break_ifs; fin.
Qed.

Lemma GetEx_zero_differs : forall key, ~ same (MGetEx key 0).
Proof. unfold same. intros key H. vm_compute in H. discriminate. Qed.

Lemma GetEx_iff : forall key exp, same (MGetEx key exp) <-> exp <> 0.
Proof.
  intros key exp. split.
  - intros H E. subst. exact (GetEx_zero_differs key H).
  - apply GetEx_equiv.
Qed.

Lemma Expire_equiv : forall m key d, same (MExpire m key d).
Proof. unfold same. intros m. destruct m; go. Qed.

Lemma PExpire_equiv : forall key d, same (MPExpire key d).
Proof. unfold same. go. Qed.

Lemma ExpireAt_equiv : forall key t, same (MExpireAt key t).
Proof. unfold same. go. Qed.

Lemma PExpireAt_equiv : forall key t, same (MPExpireAt key t).
Proof. unfold same. go. Qed.

Lemma Copy_equiv : forall src dst db replace, same (MCopy src dst db replace).
Proof. unfold same. go. Qed.

Lemma Restore_equiv : forall replace key ttl v, same (MRestore replace key ttl v).
Proof. unfold same. go. Qed.

(** SetArgs: go-redis passes Mode through; the adapter panics unless it is "", NX or XX (any case) *)
Definition valid_mode (m : bytes) : Prop := m = [] \/ upper m = bs "NX" \/ upper m = bs "XX".

Lemma SetArgs_equiv : forall key v a, valid_mode (sa_mode a) -> same (MSetArgs key v a).
Proof.
  unfold same, valid_mode. intros key v a Hm. avals.
  all: cbv beta iota zeta delta [GoRedisSpec.goredis CompatArgs.adapter]; unf.
  all: destruct Hm as [Hm|[Hm|Hm]].
  all: try (rewrite Hm; change (upper []) with (@nil N);
            change (bytes_eqb [] (bs "XX") || bytes_eqb [] (bs "NX")) with false; cbv iota;
            break_ifs; reflexivity).
  all: rewrite Hm.
  all: try change (bytes_eqb (bs "NX") (bs "XX") || bytes_eqb (bs "NX") (bs "NX")) with true.
  all: try change (bytes_eqb (bs "XX") (bs "XX") || bytes_eqb (bs "XX") (bs "NX")) with true.
  all: cbv iota.
  all: destruct (sa_mode a) eqn:E; [discriminate Hm|]; rewrite <- E in *.
  all: break_ifs; unfold wire, norm; cbn [norm_toks flat_map norm_tok app]; rewrite ?Hm; reflexivity.
Qed.

Lemma SetArgs_invalid : forall key v a,
  ~ valid_mode (sa_mode a) -> adapter (MSetArgs key v a) = Panic /\ exists l, goredis (MSetArgs key v a) = Ok l.
Proof.
  intros key v a Hm. split; [|eexists; reflexivity].
  cbv beta iota zeta delta [CompatArgs.adapter].
  destruct (bytes_eqb (upper (sa_mode a)) (bs "XX")) eqn:E1.
  { exfalso. apply Hm. right. right. apply list_eqb_eq. exact E1. }
  destruct (bytes_eqb (upper (sa_mode a)) (bs "NX")) eqn:E2.
  { exfalso. apply Hm. right. left. apply list_eqb_eq. exact E2. }
  cbn [orb]. unfold nonempty. destruct (upper (sa_mode a)) eqn:E3; [|reflexivity].
  exfalso. apply Hm. left. unfold upper in E3. destruct (sa_mode a); [reflexivity|discriminate].
Qed.

(** Migrate: the adapter prints the timeout in seconds, go-redis in milliseconds *)
Lemma Migrate_iff : forall host port key db timeout,
  same (MMigrate host port key db timeout) <-> a_format_sec timeout = a_format_ms timeout.
Proof.
  intros. unfold same. cbv beta iota zeta delta [GoRedisSpec.goredis CompatArgs.adapter].
  change g_format_ms with a_format_ms. unfold KW, kw_, zi, zt. split.
  - intro H. cbn in H. injection H as H. apply print_Z_inj. exact H.
  - intro H. rewrite H. reflexivity.
Qed.

Lemma BitCount_equiv : forall key bc, same (MBitCount key bc).
Proof.
  unfold same. intros key [b|]; [|reflexivity].
  cbv beta iota zeta delta [GoRedisSpec.goredis CompatArgs.adapter]. unfold is_unit_ok. unf.
  destruct (bc_unit b) eqn:U; [reflexivity|]. rewrite <- U.
  destruct (bytes_eqb (bc_unit b) (bs "BYTE")) eqn:E1.
  { apply list_eqb_eq in E1. rewrite E1. reflexivity. }
  destruct (bytes_eqb (bc_unit b) (bs "BIT")) eqn:E2.
  { apply list_eqb_eq in E2. rewrite E2. reflexivity. }
  reflexivity.
Qed.

Lemma BitPos_equiv : forall key bit pos, same (MBitPos key bit pos).
Proof. unfold same. intros key bit [|a [|b [|c r]]]; reflexivity. Qed.

Definition valid_span (s : bytes) : Prop := lower s = bs "bit" \/ lower s = bs "byte".

Lemma BitPosSpan_equiv : forall key bit start stop span, valid_span span -> same (MBitPosSpan key bit start stop span).
Proof.
  unfold same, valid_span. intros key bit start stop span Hs.
  cbv beta iota zeta delta [GoRedisSpec.goredis CompatArgs.adapter]. unf.
  assert (Hu : upper span = upper (lower span)) by (symmetry; apply upper_lower).
  destruct Hs as [Hs|Hs]; rewrite Hs in *; cbn [bytes_eqb list_eqb bs]; cbn; rewrite Hu; reflexivity.
Qed.

Lemma a_str_g_arg : forall v, a_str v = g_arg v.
Proof. destruct v; reflexivity. Qed.

Lemma BitField_equiv : forall key args, same (MBitField key args).
Proof.
  unfold same. intros. cbv beta iota zeta delta [GoRedisSpec.goredis CompatArgs.adapter]. unf.
  apply norm_of_toks. nt_simpl. reflexivity.
Qed.

(** Sort: go-redis passes Order through; the adapter panics unless it is "", ASC or DESC (any case);
    go-redis leaves STORE out for an empty destination *)
Definition valid_order (o : bytes) : Prop := o = [] \/ upper o = bs "ASC" \/ upper o = bs "DESC".

Lemma a_sort_spec : forall cmd key s, valid_order (so_order s) ->
  exists l, a_sort cmd key s = Ok l /\ norm_toks l = norm_toks (g_sort_args cmd key s).
Proof.
  unfold valid_order. intros cmd key s Ho. unfold a_sort, g_sort_args. cbv zeta. unf.
  assert (G : norm_toks (flat_map (fun g => [K (bs "GET"); D g]) (so_gets s)) =
              norm_toks (flat_map (fun g => [K (bs "get"); D g]) (so_gets s)))
    by (apply norm_toks_flat_map_ext; reflexivity).
  destruct Ho as [Ho|[Ho|Ho]].
  - rewrite Ho. change (upper []) with (@nil N).
    change (bytes_eqb [] (bs "ASC") || bytes_eqb [] (bs "DESC")) with false. cbv iota.
    eexists. split; [reflexivity|]. break_ifs; nt_simpl; rewrite G; reflexivity.
  - rewrite Ho. change (bytes_eqb (bs "ASC") (bs "ASC") || bytes_eqb (bs "ASC") (bs "DESC")) with true. cbv iota.
    eexists. split; [reflexivity|].
    destruct (so_order s) eqn:E; [discriminate Ho|]. rewrite <- E in *.
    break_ifs; nt_simpl; rewrite G; cbn [norm_toks flat_map norm_tok app]; rewrite ?Ho; reflexivity.
  - rewrite Ho. change (bytes_eqb (bs "DESC") (bs "ASC") || bytes_eqb (bs "DESC") (bs "DESC")) with true. cbv iota.
    eexists. split; [reflexivity|].
    destruct (so_order s) eqn:E; [discriminate Ho|]. rewrite <- E in *.
    break_ifs; nt_simpl; rewrite G; cbn [norm_toks flat_map norm_tok app]; rewrite ?Ho; reflexivity.
Qed.

Definition valid_sortcmd (c : sortcmd) : Prop := match c with SortStore [] => False | _ => True end.

Lemma Sort_equiv : forall c key s, valid_order (so_order s) -> valid_sortcmd c -> same (MSort c key s).
Proof.
  unfold same. intros c key s Ho Hc.
  destruct c as [| |store]; cbv beta iota zeta delta [GoRedisSpec.goredis CompatArgs.adapter].
  - destruct (a_sort_spec "SORT" key s Ho) as [l [E1 E2]]. rewrite E1. apply norm_of_toks. exact E2.
  - destruct (a_sort_spec "SORT_RO" key s Ho) as [l [E1 E2]]. rewrite E1. apply norm_of_toks. exact E2.
  - destruct (a_sort_spec "SORT" key s Ho) as [l [E1 E2]]. rewrite E1.
    destruct store as [|b r]; [destruct Hc|]. unfold is_empty. apply norm_of_toks. nt_simpl. rewrite E2. reflexivity.
Qed.

Lemma Sort_invalid : forall c key s,
  ~ valid_order (so_order s) -> adapter (MSort c key s) = Panic /\ exists l, goredis (MSort c key s) = Ok l.
Proof.
  intros c key s Ho.
  assert (P : forall cmd, a_sort cmd key s = Panic).
  { intro cmd. unfold a_sort. cbv zeta.
    destruct (bytes_eqb (upper (so_order s)) (bs "ASC")) eqn:E1.
    { exfalso. apply Ho. right. left. apply list_eqb_eq. exact E1. }
    destruct (bytes_eqb (upper (so_order s)) (bs "DESC")) eqn:E2.
    { exfalso. apply Ho. right. right. apply list_eqb_eq. exact E2. }
    cbn [orb]. unfold nonempty. destruct (upper (so_order s)) eqn:E3; [|reflexivity].
    exfalso. apply Ho. left. unfold upper in E3. destruct (so_order s); [reflexivity|discriminate]. }
  split.
  - destruct c; cbv beta iota zeta delta [CompatArgs.adapter]; rewrite ?P; reflexivity.
  - destruct c; eexists; reflexivity.
Qed.

(** SCAN family: the adapter prints the cursor as int64, go-redis as uint64: the same digits below 2^63 *)
Lemma cursor_small : forall cursor, (cursor < 2 ^ 63)%N -> a_cursor cursor = D (print_N cursor).
Proof.
  intros cursor H. unfold a_cursor, int64_of_uint64.
  replace (cursor <? 2 ^ 63)%N with true by (symmetry; apply N.ltb_lt; exact H).
  destruct cursor; reflexivity.
Qed.

Lemma Scan_equiv : forall cursor mtch count, (cursor < 2 ^ 63)%N -> same (MScan cursor mtch count).
Proof.
  unfold same. intros cursor mtch count H. cbv beta iota zeta delta [GoRedisSpec.goredis CompatArgs.adapter].
  rewrite (cursor_small cursor H). unf. break_ifs; fin.
Qed.

Lemma ScanType_equiv : forall cursor mtch count typ, (cursor < 2 ^ 63)%N -> same (MScanType cursor mtch count typ).
Proof.
  unfold same. intros cursor mtch count typ H. cbv beta iota zeta delta [GoRedisSpec.goredis CompatArgs.adapter].
  rewrite (cursor_small cursor H). unf. break_ifs; fin.
Qed.

Lemma KScan_equiv : forall w key cursor mtch count, (cursor < 2 ^ 63)%N -> same (MKScan w key cursor mtch count).
Proof.
  unfold same. intros w key cursor mtch count H. destruct w;
    cbv beta iota zeta delta [GoRedisSpec.goredis CompatArgs.adapter]; rewrite (cursor_small cursor H); unf; break_ifs; fin.
Qed.

Lemma MemoryUsage_equiv : forall key samples, same (MMemoryUsage key samples).
Proof. unfold same. intros key [|a [|b r]]; reflexivity. Qed.

(** ---------- lists ---------- *)
Lemma LPos_equiv : forall key elem rank maxlen, same (MLPos key elem rank maxlen).
Proof. unfold same. go. Qed.

Lemma LPosCount_equiv : forall key elem count rank maxlen, same (MLPosCount key elem count rank maxlen).
Proof. unfold same. go. Qed.

Definition valid_op (o : bytes) : Prop := upper o = bs "BEFORE" \/ upper o = bs "AFTER".

Lemma LInsert_equiv : forall key op pivot elem, valid_op op -> same (MLInsert key op pivot elem).
Proof.
  unfold same, valid_op. intros key op pivot elem Ho.
  cbv beta iota zeta delta [GoRedisSpec.goredis CompatArgs.adapter]. unf.
  rewrite !a_str_g_arg.
  destruct Ho as [Ho|Ho]; rewrite Ho.
  - change (bytes_eqb (bs "BEFORE") (bs "BEFORE")) with true. cbv iota.
    unfold wire, norm. cbn [norm_toks flat_map norm_tok app]. rewrite Ho. reflexivity.
  - change (bytes_eqb (bs "AFTER") (bs "BEFORE")) with false. change (bytes_eqb (bs "AFTER") (bs "AFTER")) with true. cbv iota.
    unfold wire, norm. cbn [norm_toks flat_map norm_tok app]. rewrite Ho. reflexivity.
Qed.

Lemma LInsert_invalid : forall key op pivot elem,
  ~ valid_op op -> adapter (MLInsert key op pivot elem) = Panic /\ exists l, goredis (MLInsert key op pivot elem) = Ok l.
Proof.
  intros key op pivot elem Ho. split; [|eexists; reflexivity].
  cbv beta iota zeta delta [CompatArgs.adapter].
  destruct (bytes_eqb (upper op) (bs "BEFORE")) eqn:E1.
  { exfalso. apply Ho. left. apply list_eqb_eq. exact E1. }
  destruct (bytes_eqb (upper op) (bs "AFTER")) eqn:E2.
  { exfalso. apply Ho. right. apply list_eqb_eq. exact E2. }
  reflexivity.
Qed.

Lemma LInsertBA_equiv : forall before key pivot elem, same (MLInsertBA before key pivot elem).
Proof. unfold same. intros. avals; destruct before; reflexivity. Qed.

Lemma LMPop_equiv : forall dir count keys, 0 < count -> same (MLMPop dir count keys).
Proof.
  unfold same. intros dir count keys Hc. cbv beta iota zeta delta [GoRedisSpec.goredis CompatArgs.adapter]. unf.
  replace (0 <? count) with true by (symmetry; apply Z.ltb_lt; exact Hc).
  apply norm_of_toks. nt_simpl. cbn [norm_toks flat_map norm_tok app]. rewrite upper_lower. reflexivity.
Qed.

Lemma BLMPop_equiv : forall timeout dir count keys, 0 < count -> same (MBLMPop timeout dir count keys).
Proof.
  unfold same. intros timeout dir count keys Hc. cbv beta iota zeta delta [GoRedisSpec.goredis CompatArgs.adapter]. unf.
  replace (0 <? count) with true by (symmetry; apply Z.ltb_lt; exact Hc).
  break_ifs; apply norm_of_toks; nt_simpl; cbn [norm_toks flat_map norm_tok app]; rewrite upper_lower; reflexivity.
Qed.

(** ---------- sorted sets ---------- *)
Lemma zadd_same : forall key incr a members,
  norm_toks (a_zadd F ff key incr a members) = norm_toks (g_zadd F ff key a incr members).
Proof.
  intros. unfold a_zadd, g_zadd. unf. break_ifs; nt_simpl; reflexivity.
Qed.

Lemma ZAdd_equiv : forall fl key members, same (MZAdd fl key members).
Proof.
  unfold same. intros. cbv beta iota zeta delta [GoRedisSpec.goredis CompatArgs.adapter].
  apply norm_of_toks. destruct fl; apply zadd_same.
Qed.

Lemma ZAddArgs_equiv : forall incr key a members, same (MZAddArgs incr key a members).
Proof.
  unfold same. intros. cbv beta iota zeta delta [GoRedisSpec.goredis CompatArgs.adapter].
  apply norm_of_toks. apply zadd_same.
Qed.

(** ZRangeArgs / ZRangeStore: go-redis swaps Start and Stop when Rev is combined with ByScore/ByLex,
    the adapter does not *)
Definition zr_swapped (z : zrange_args) : bool := zr_rev z && (zr_byscore z || zr_bylex z).

Lemma zrange_tail_same : forall z, zr_swapped z = false ->
  norm_toks (D (zr_key z) :: a_zrange_tail z) = norm_toks (g_zrange_args z).
Proof.
  intros z H. unfold a_zrange_tail, g_zrange_args. unfold zr_swapped in H. rewrite H. unf.
  rewrite !a_str_g_arg. break_ifs; reflexivity.
Qed.

Lemma zrange_tail_eqargs : forall z, a_str (zr_start z) = a_str (zr_stop z) ->
  norm_toks (D (zr_key z) :: a_zrange_tail z) = norm_toks (g_zrange_args z).
Proof.
  intros z H. unfold a_zrange_tail, g_zrange_args. unf.
  rewrite <- (a_str_g_arg (zr_start z)), <- (a_str_g_arg (zr_stop z)), H. break_ifs; reflexivity.
Qed.

Definition zr_ok (z : zrange_args) : Prop := zr_swapped z = false \/ a_str (zr_start z) = a_str (zr_stop z).

Lemma zrange_tail_ok : forall z, zr_ok z -> norm_toks (D (zr_key z) :: a_zrange_tail z) = norm_toks (g_zrange_args z).
Proof. intros z [H|H]; [apply zrange_tail_same|apply zrange_tail_eqargs]; exact H. Qed.

Lemma ZRangeArgs_equiv : forall ws z, zr_ok z -> same (MZRangeArgs ws z).
Proof.
  unfold same. intros ws z H. cbv beta iota zeta delta [GoRedisSpec.goredis CompatArgs.adapter]. unf.
  apply norm_of_toks.
  change ([K (bs "ZRANGE"); D (zr_key z)] ++ a_zrange_tail z ++ (if ws then [K (bs "WITHSCORES")] else []))
    with ([K (bs "ZRANGE")] ++ (D (zr_key z) :: a_zrange_tail z) ++ (if ws then [K (bs "WITHSCORES")] else [])).
  nt_simpl. rewrite (zrange_tail_ok z H). destruct ws; reflexivity.
Qed.

Lemma ZRangeStore_equiv : forall dst z, zr_ok z -> same (MZRangeStore dst z).
Proof.
  unfold same. intros dst z H. cbv beta iota zeta delta [GoRedisSpec.goredis CompatArgs.adapter]. unf.
  apply norm_of_toks.
  change ([K (bs "ZRANGESTORE"); D dst; D (zr_key z)] ++ a_zrange_tail z)
    with ([K (bs "ZRANGESTORE"); D dst] ++ (D (zr_key z) :: a_zrange_tail z)).
  nt_simpl. rewrite (zrange_tail_ok z H). reflexivity.
Qed.

(** outside [zr_ok] the two commands differ: the second and third data tokens are exchanged *)
Lemma zrange_tail_differs : forall z, ~ zr_ok z ->
  exists r1 r2 x y, x <> y /\
    norm_toks (D (zr_key z) :: a_zrange_tail z) = D (zr_key z) :: D x :: D y :: r1 /\
    norm_toks (g_zrange_args z) = D (zr_key z) :: D y :: D x :: r2.
Proof.
  intros z H. unfold zr_ok in H.
  assert (Hs : zr_swapped z = true) by (destruct (zr_swapped z); [reflexivity|exfalso; apply H; left; reflexivity]).
  assert (Hne : a_str (zr_start z) <> a_str (zr_stop z)) by (intro E; apply H; right; exact E).
  unfold a_zrange_tail, g_zrange_args. unfold zr_swapped in Hs. rewrite Hs. rewrite <- (a_str_g_arg (zr_start z)), <- (a_str_g_arg (zr_stop z)).
  destruct (zr_start z) as [x| x| x|] eqn:E1; destruct (zr_stop z) as [y| y| y|] eqn:E2; cbn [a_str] in *;
    do 4 eexists; (split; [|split; reflexivity]); intro E; apply Hne; f_equal; exact E.
Qed.

Lemma ZRangeArgs_differs : forall ws z, ~ zr_ok z -> ~ same (MZRangeArgs ws z).
Proof.
  unfold same. intros ws z H Heq. cbv beta iota zeta delta [GoRedisSpec.goredis CompatArgs.adapter] in Heq.
  apply wire_Ok_inj in Heq. unfold norm in Heq. unf.
  change ([K (bs "ZRANGE"); D (zr_key z)] ++ a_zrange_tail z ++ (if ws then [K (bs "WITHSCORES")] else []))
    with ([K (bs "ZRANGE")] ++ (D (zr_key z) :: a_zrange_tail z) ++ (if ws then [K (bs "WITHSCORES")] else [])) in Heq.
  rewrite !norm_toks_app in Heq.
  destruct (zrange_tail_differs z H) as [r1 [r2 [x [y [Hxy [E1 E2]]]]]]. rewrite E1, E2 in Heq.
  cbn in Heq. injection Heq as _ Hx _. apply Hxy. congruence.
Qed.

Lemma ZRangeStore_differs : forall dst z, ~ zr_ok z -> ~ same (MZRangeStore dst z).
Proof.
  unfold same. intros dst z H Heq. cbv beta iota zeta delta [GoRedisSpec.goredis CompatArgs.adapter] in Heq.
  apply wire_Ok_inj in Heq. unfold norm in Heq. unf.
  change ([K (bs "ZRANGESTORE"); D dst; D (zr_key z)] ++ a_zrange_tail z)
    with ([K (bs "ZRANGESTORE"); D dst] ++ (D (zr_key z) :: a_zrange_tail z)) in Heq.
  rewrite !norm_toks_app in Heq.
  destruct (zrange_tail_differs z H) as [r1 [r2 [x [y [Hxy [E1 E2]]]]]]. rewrite E1, E2 in Heq.
  cbn in Heq. injection Heq as Hx _. apply Hxy. congruence.
Qed.

Lemma ZRangeBy_equiv : forall w key o, same (MZRangeBy w key o).
Proof. unfold same. intros w. destruct w; go. Qed.

Lemma zstore_same : forall s, norm_toks (a_zstore s) = norm_toks (lent (zs_keys s) :: g_zstore s).
Proof.
  intros s. unfold a_zstore, g_zstore. unf.
  rewrite norm_toks_cons, !norm_toks_app, norm_toks_mapD.
  destruct (zs_weights s); destruct (zs_aggregate s); reflexivity.
Qed.

Lemma ZStoreOp_equiv : forall w s, same (MZStoreOp w s).
Proof.
  unfold same. intros w s. cbv beta iota zeta delta [GoRedisSpec.goredis CompatArgs.adapter]. unf.
  apply norm_of_toks.
  destruct w; cbn [app]; rewrite ?norm_toks_cons, ?norm_toks_app, zstore_same; cbn [app];
    rewrite ?norm_toks_cons, ?norm_toks_app; reflexivity.
Qed.

Lemma ZStoreTo_equiv : forall w dst s, same (MZStoreTo w dst s).
Proof.
  unfold same. intros w dst s. cbv beta iota zeta delta [GoRedisSpec.goredis CompatArgs.adapter]. unf.
  apply norm_of_toks.
  destruct w; cbn [app]; rewrite ?norm_toks_cons, ?norm_toks_app, zstore_same; cbn [app];
    rewrite ?norm_toks_cons, ?norm_toks_app; reflexivity.
Qed.

Lemma ZDiff_equiv : forall ws keys, same (MZDiff ws keys).
Proof. unfold same. go. Qed.

Lemma ZDiffStore_equiv : forall dst keys, same (MZDiffStore dst keys).
Proof. unfold same. go. Qed.

(** ---------- streams ---------- *)
Lemma XAdd_equiv : forall a, same (MXAdd a).
Proof.
  unfold same. intros a. cbv beta iota zeta delta [GoRedisSpec.goredis CompatArgs.adapter]. unf.
  assert (V : norm_toks (map a_str (xa_values a)) = norm_toks (map g_arg (xa_values a))) by reflexivity.
  break_ifs; apply norm_of_toks; nt_simpl; rewrite V; reflexivity.
Qed.

(** a duration d with 0 < d < 1ms: formatMs rounds it up to 1, int64(d / time.Millisecond) gives 0 *)
Definition sub_ms (d : Z) : bool := (0 <? d) && (d <? 1000000).

Lemma format_ms_quot : forall d, sub_ms d = false -> a_format_ms d = Z.quot d 1000000.
Proof. intros d H. unfold a_format_ms. unfold sub_ms in H. rewrite H. reflexivity. Qed.

Lemma XRead_equiv : forall count block streams, sub_ms block = false -> same (MXRead count block streams).
Proof.
  unfold same. intros count block streams H. cbv beta iota zeta delta [GoRedisSpec.goredis CompatArgs.adapter].
  rewrite (format_ms_quot block H). unf. break_ifs; fin.
Qed.

Lemma XReadStreams_equiv : forall streams, same (MXReadStreams streams).
Proof. unfold same. go. Qed.

Lemma XReadGroup_equiv : forall group consumer count block noack streams,
  sub_ms block = false -> same (MXReadGroup group consumer count block noack streams).
Proof.
  unfold same. intros group consumer count block noack streams H.
  cbv beta iota zeta delta [GoRedisSpec.goredis CompatArgs.adapter].
  rewrite (format_ms_quot block H). unf. break_ifs; fin.
Qed.

Lemma XPendingExt_equiv : forall a, same (MXPendingExt a).
Proof. unfold same. go. Qed.

Lemma XClaim_equiv : forall justid a, sub_ms (xc_minidle a) = false -> same (MXClaim justid a).
Proof.
  unfold same. intros justid a H. cbv beta iota zeta delta [GoRedisSpec.goredis CompatArgs.adapter].
  rewrite (format_ms_quot _ H). unf. break_ifs; fin.
Qed.

(** inside the sub-millisecond class the commands differ (1 against 0) *)
Lemma sub_ms_differs : forall d, sub_ms d = true -> print_Z (a_format_ms d) <> print_Z (Z.quot d 1000000).
Proof.
  intros d H E. apply print_Z_inj in E. unfold a_format_ms in E. unfold sub_ms in H. rewrite H in E.
  apply andb_prop in H. destruct H as [H1 H2]. apply Z.ltb_lt in H1, H2.
  rewrite Z.quot_small in E by lia. discriminate.
Qed.

Lemma XClaim_differs : forall justid a, sub_ms (xc_minidle a) = true -> ~ same (MXClaim justid a).
Proof.
  unfold same. intros justid a H Heq. cbv beta iota zeta delta [GoRedisSpec.goredis CompatArgs.adapter] in Heq.
  apply wire_Ok_inj in Heq. unfold norm in Heq. unf. cbn [app] in Heq.
  rewrite !norm_toks_cons in Heq. cbn [norm_tok app] in Heq.
  unfold canon in Heq.
  change (is_kw (upper (bs "XCLAIM")) "SET") with false in Heq.
  change (is_kw (upper (bs "xclaim")) "SET") with false in Heq. cbv iota in Heq.
  apply (sub_ms_differs _ H). unfold a_format_ms. congruence.
Qed.

Lemma sub_ms_nonneg : forall d, sub_ms d = true -> (0 <=? d) = true.
Proof. intros d H. unfold sub_ms in H. apply andb_prop in H. destruct H as [H _]. apply Z.ltb_lt in H. apply Z.leb_le. lia. Qed.

Lemma XRead_differs : forall count block streams, sub_ms block = true -> ~ same (MXRead count block streams).
Proof.
  unfold same. intros count block streams H Heq. cbv beta iota zeta delta [GoRedisSpec.goredis CompatArgs.adapter] in Heq.
  apply wire_Ok_inj in Heq. unfold norm in Heq. rewrite (sub_ms_nonneg _ H) in Heq. unf.
  apply (sub_ms_differs _ H). unfold a_format_ms.
  destruct (0 <? count); cbn [app] in Heq; rewrite !norm_toks_cons in Heq; cbn [norm_tok app] in Heq;
    unfold canon in Heq; cbv iota in Heq; congruence.
Qed.

Lemma XReadGroup_differs : forall group consumer count block noack streams,
  sub_ms block = true -> ~ same (MXReadGroup group consumer count block noack streams).
Proof.
  unfold same. intros group consumer count block noack streams H Heq.
  cbv beta iota zeta delta [GoRedisSpec.goredis CompatArgs.adapter] in Heq.
  apply wire_Ok_inj in Heq. unfold norm in Heq. rewrite (sub_ms_nonneg _ H) in Heq. unf.
  apply (sub_ms_differs _ H). unfold a_format_ms.
  destruct (0 <? count); cbn [app] in Heq; rewrite !norm_toks_cons in Heq; cbn [norm_tok app] in Heq;
    unfold canon in Heq; cbv iota in Heq; congruence.
Qed.

Lemma XAutoClaim_equiv : forall justid a, same (MXAutoClaim justid a).
Proof. unfold same. go. Qed.

Lemma XTrim_equiv : forall key t, same (MXTrim key t).
Proof. unfold same. intros key t. destruct t; go. Qed.

Lemma XInfoStreamFull_equiv : forall key count, same (MXInfoStreamFull key count).
Proof. unfold same. go. Qed.

(** ---------- geo ---------- *)
Lemma GeoAdd_equiv : forall key locs, same (MGeoAdd key locs).
Proof. unfold same. go. Qed.

Lemma georadius_same : forall q, norm_toks (a_georadius F ff q) = norm_toks (g_georadius F ff q).
Proof.
  intros q. unfold a_georadius, g_georadius. unf. break_ifs; nt_simpl; reflexivity.
Qed.

Lemma GeoRadius_equiv : forall store key lon lat q, same (MGeoRadius store key lon lat q).
Proof.
  unfold same. intros. cbv beta iota zeta delta [GoRedisSpec.goredis CompatArgs.adapter]. unf.
  pose proof (georadius_same q) as G.
  destruct (gr_store q); destruct (gr_storedist q); destruct store; cbn [negb orb Bool.eqb];
    try reflexivity; apply norm_of_toks; nt_simpl; rewrite G; reflexivity.
Qed.

Lemma GeoRadiusByMember_equiv : forall store key member q, same (MGeoRadiusByMember store key member q).
Proof.
  unfold same. intros. cbv beta iota zeta delta [GoRedisSpec.goredis CompatArgs.adapter]. unf.
  pose proof (georadius_same q) as G.
  destruct (gr_store q); destruct (gr_storedist q); destruct store; cbn [negb orb Bool.eqb];
    try reflexivity; apply norm_of_toks; nt_simpl; rewrite G; reflexivity.
Qed.

Lemma geosearch_same : forall q, norm_toks (a_geosearch F ff fpos q) = norm_toks (g_geosearch F ff fpos q).
Proof.
  intros q. unfold a_geosearch, g_geosearch. unf. break_ifs; nt_simpl; reflexivity.
Qed.

Lemma GeoSearch_equiv : forall key q, same (MGeoSearch key q).
Proof.
  unfold same. intros. cbv beta iota zeta delta [GoRedisSpec.goredis CompatArgs.adapter]. unf.
  apply norm_of_toks. nt_simpl. rewrite geosearch_same. reflexivity.
Qed.

Lemma GeoSearchLocation_equiv : forall key q wc wd wh, same (MGeoSearchLocation key q wc wd wh).
Proof.
  unfold same. intros. cbv beta iota zeta delta [GoRedisSpec.goredis CompatArgs.adapter]. unf.
  apply norm_of_toks. nt_simpl. rewrite geosearch_same. destruct wc, wd, wh; reflexivity.
Qed.

Lemma GeoSearchStore_equiv : forall src dst q storedist, same (MGeoSearchStore src dst q storedist).
Proof.
  unfold same. intros. cbv beta iota zeta delta [GoRedisSpec.goredis CompatArgs.adapter]. unf.
  apply norm_of_toks. nt_simpl. rewrite geosearch_same. destruct storedist; reflexivity.
Qed.

(** ---------- server ---------- *)
Lemma FunctionLoad_equiv : forall replace code, same (MFunctionLoad replace code).
Proof. unfold same. go. Qed.

Lemma ClientKillByFilter_equiv : forall keys, same (MClientKillByFilter keys).
Proof. unfold same. go. Qed.

Lemma ACLLog_equiv : forall count, 0 < count -> same (MACLLog count).
Proof.
  unfold same. intros count H. cbv beta iota zeta delta [GoRedisSpec.goredis CompatArgs.adapter]. unf.
  replace (0 <? count) with true by (symmetry; apply Z.ltb_lt; exact H). reflexivity.
Qed.

(** ---------- second batch ---------- *)
Lemma ZPop_equiv : forall max key count, same (MZPop max key count).
Proof. unfold same. intros max key [|a [|b r]]; destruct max; reflexivity. Qed.

Lemma ZRangePlain_equiv : forall rev ws key start stop, same (MZRangePlain rev ws key start stop).
Proof. unfold same. intros rev ws. destruct rev, ws; reflexivity. Qed.

Lemma BPop_equiv : forall w timeout keys, same (MBPop w timeout keys).
Proof. unfold same. intros w. destruct w; go. Qed.

Lemma BRPopLPush_equiv : forall src dst timeout, same (MBRPopLPush src dst timeout).
Proof. unfold same. go. Qed.

Lemma LMove_equiv : forall src dst srcpos dstpos, same (MLMove src dst srcpos dstpos).
Proof. unfold same. go. Qed.

Lemma BLMove_equiv : forall src dst srcpos dstpos timeout, same (MBLMove src dst srcpos dstpos timeout).
Proof. unfold same. go. Qed.

Lemma XRangeCmd_equiv : forall rev stream a b count, same (MXRangeCmd rev stream a b count).
Proof. unfold same. intros rev stream a b [n|]; destruct rev; reflexivity. Qed.

Lemma XGroupCreate_equiv : forall mk stream group start, same (MXGroupCreate mk stream group start).
Proof. unfold same. intros mk. destruct mk; reflexivity. Qed.

Lemma XAck_equiv : forall stream group ids, same (MXAck stream group ids).
Proof. unfold same. go. Qed.

Lemma XDel_equiv : forall stream ids, same (MXDel stream ids).
Proof. unfold same. go. Qed.

Lemma Eval_equiv : forall w script keys args, same (MEval w script keys args).
Proof.
  unfold same. intros w script keys args. cbv beta iota zeta delta [GoRedisSpec.goredis CompatArgs.adapter]. unf.
  destruct (single_nil args); [reflexivity|].
  assert (V : norm_toks (map a_str args) = norm_toks (map g_arg args)) by reflexivity.
  destruct w; apply norm_of_toks; nt_simpl; rewrite V; reflexivity.
Qed.

Lemma PopCount_equiv : forall w key count, same (MPopCount w key count).
Proof. unfold same. intros w. destruct w; reflexivity. Qed.

Lemma ZRandMember_equiv : forall ws key count, same (MZRandMember ws key count).
Proof. unfold same. intros ws. destruct ws; reflexivity. Qed.

Lemma InterCard_equiv : forall zset limit keys, same (MInterCard zset limit keys).
Proof. unfold same. intros zset. destruct zset; go. Qed.

Lemma ZMPop_equiv : forall order count keys, 0 < count -> same (MZMPop order count keys).
Proof.
  unfold same. intros order count keys Hc. cbv beta iota zeta delta [GoRedisSpec.goredis CompatArgs.adapter]. unf.
  replace (0 <? count) with true by (symmetry; apply Z.ltb_lt; exact Hc).
  apply norm_of_toks. nt_simpl. cbn [norm_toks flat_map norm_tok app]. rewrite upper_lower. reflexivity.
Qed.

Lemma BZMPop_equiv : forall timeout order count keys, 0 < count -> same (MBZMPop timeout order count keys).
Proof.
  unfold same. intros timeout order count keys Hc. cbv beta iota zeta delta [GoRedisSpec.goredis CompatArgs.adapter]. unf.
  replace (0 <? count) with true by (symmetry; apply Z.ltb_lt; exact Hc).
  break_ifs; apply norm_of_toks; nt_simpl; cbn [norm_toks flat_map norm_tok app]; rewrite upper_lower; reflexivity.
Qed.

(** ClientPause: the adapter prints seconds, go-redis (and CLIENT PAUSE) milliseconds *)
Lemma ClientPause_iff : forall dur, same (MClientPause dur) <-> a_format_sec dur = a_format_ms dur.
Proof.
  intros. unfold same. cbv beta iota zeta delta [GoRedisSpec.goredis CompatArgs.adapter].
  change g_format_ms with a_format_ms. unfold KW, kw_, zi, zt. split.
  - intro H. cbn in H. injection H as H. apply print_Z_inj. exact H.
  - intro H. rewrite H. reflexivity.
Qed.

Lemma SlowLogGet_equiv : forall num, same (MSlowLogGet num).
Proof. unfold same. go. Qed.

(** GeoDist: go-redis passes the unit through ("" = km); the adapter panics unless it is m, km, mi, ft (any case) or "" *)
Definition valid_unit (u : bytes) : Prop :=
  u = [] \/ upper u = bs "M" \/ upper u = bs "KM" \/ upper u = bs "MI" \/ upper u = bs "FT".

Lemma GeoDist_equiv : forall key m1 m2 unit, valid_unit unit -> same (MGeoDist key m1 m2 unit).
Proof.
  unfold same, valid_unit. intros key m1 m2 unit Hu.
  cbv beta iota zeta delta [GoRedisSpec.goredis CompatArgs.adapter]. unf.
  destruct Hu as [Hu|[Hu|[Hu|[Hu|Hu]]]].
  - subst. reflexivity.
  - rewrite Hu. change (bytes_eqb (bs "M") (bs "M")) with true. cbv iota.
    destruct unit eqn:E; [discriminate Hu|]. rewrite <- E in *.
    unfold wire, norm. cbn [norm_toks flat_map norm_tok app]. rewrite Hu. reflexivity.
  - rewrite Hu. change (bytes_eqb (bs "KM") (bs "M")) with false. change (bytes_eqb (bs "KM") (bs "MI")) with false.
    change (bytes_eqb (bs "KM") (bs "FT")) with false. change (bytes_eqb (bs "KM") (bs "KM")) with true. cbv iota. cbn [orb]. cbv iota.
    destruct unit eqn:E; [discriminate Hu|]. rewrite <- E in *.
    unfold wire, norm. cbn [norm_toks flat_map norm_tok app]. rewrite Hu. reflexivity.
  - rewrite Hu. change (bytes_eqb (bs "MI") (bs "M")) with false. change (bytes_eqb (bs "MI") (bs "MI")) with true. cbv iota.
    destruct unit eqn:E; [discriminate Hu|]. rewrite <- E in *.
    unfold wire, norm. cbn [norm_toks flat_map norm_tok app]. rewrite Hu. reflexivity.
  - rewrite Hu. change (bytes_eqb (bs "FT") (bs "M")) with false. change (bytes_eqb (bs "FT") (bs "MI")) with false.
    change (bytes_eqb (bs "FT") (bs "FT")) with true. cbv iota.
    destruct unit eqn:E; [discriminate Hu|]. rewrite <- E in *.
    unfold wire, norm. cbn [norm_toks flat_map norm_tok app]. rewrite Hu. reflexivity.
Qed.

Lemma GeoDist_invalid : forall key m1 m2 unit,
  ~ valid_unit unit -> adapter (MGeoDist key m1 m2 unit) = Panic /\ exists l, goredis (MGeoDist key m1 m2 unit) = Ok l.
Proof.
  intros key m1 m2 unit Hu. split; [|eexists; reflexivity].
  cbv beta iota zeta delta [CompatArgs.adapter].
  destruct (bytes_eqb (upper unit) (bs "M")) eqn:E1.
  { exfalso. apply Hu. right. left. apply list_eqb_eq. exact E1. }
  destruct (bytes_eqb (upper unit) (bs "MI")) eqn:E2.
  { exfalso. apply Hu. right. right. right. left. apply list_eqb_eq. exact E2. }
  destruct (bytes_eqb (upper unit) (bs "FT")) eqn:E3.
  { exfalso. apply Hu. right. right. right. right. apply list_eqb_eq. exact E3. }
  destruct (bytes_eqb (upper unit) (bs "KM")) eqn:E4.
  { exfalso. apply Hu. right. right. left. apply list_eqb_eq. exact E4. }
  cbn [orb]. unfold nonempty. destruct (upper unit) eqn:E5; [|reflexivity].
  exfalso. apply Hu. left. unfold upper in E5. destruct unit; [reflexivity|discriminate].
Qed.

Lemma FunctionList_equiv : forall pattern withcode, same (MFunctionList pattern withcode).
Proof. unfold same. go. Qed.

(** ---------- all listed methods at once ---------- *)
(** the arguments on which the adapter and the go-redis specification are claimed to agree *)
Definition in_domain (c : call) : Prop :=
  match c with
  | MSetArgs _ _ a => valid_mode (sa_mode a)
  | MGetEx _ exp => exp <> 0
  | MScan cursor _ _ => (cursor < 2 ^ 63)%N
  | MScanType cursor _ _ _ => (cursor < 2 ^ 63)%N
  | MKScan _ _ cursor _ _ => (cursor < 2 ^ 63)%N
  | MACLLog count => 0 < count
  | MMigrate _ _ _ _ timeout => a_format_sec timeout = a_format_ms timeout
  | MBitPosSpan _ _ _ _ span => valid_span span
  | MSort c _ s => valid_order (so_order s) /\ valid_sortcmd c
  | MLInsert _ op _ _ => valid_op op
  | MLMPop _ count _ => 0 < count
  | MBLMPop _ _ count _ => 0 < count
  | MZRangeArgs _ z => zr_ok z
  | MZRangeStore _ z => zr_ok z
  | MXRead _ block _ => sub_ms block = false
  | MXReadGroup _ _ _ block _ _ => sub_ms block = false
  | MXClaim _ a => sub_ms (xc_minidle a) = false
  | MZMPop _ count _ => 0 < count
  | MBZMPop _ _ count _ => 0 < count
  | MClientPause dur => a_format_sec dur = a_format_ms dur
  | MGeoDist _ _ _ unit => valid_unit unit
  | _ => True
  end.

Theorem all_methods_equiv : forall c, in_domain c -> same c.
Proof.
  intros c H. destruct c; cbn [in_domain] in H.
  - apply Set_equiv.
  - apply SetArgs_equiv; exact H.
  - apply SetEX_equiv.
  - apply SetNX_equiv.
  - apply SetXX_equiv.
  - apply GetEx_equiv; exact H.
  - apply Expire_equiv.
  - apply PExpire_equiv.
  - apply ExpireAt_equiv.
  - apply PExpireAt_equiv.
  - apply Copy_equiv.
  - apply Restore_equiv.
  - apply Migrate_iff; exact H.
  - apply BitCount_equiv.
  - apply BitPos_equiv.
  - apply BitPosSpan_equiv; exact H.
  - apply BitField_equiv.
  - apply Sort_equiv; tauto.
  - apply Scan_equiv; exact H.
  - apply ScanType_equiv; exact H.
  - apply KScan_equiv; exact H.
  - apply MemoryUsage_equiv.
  - apply LPos_equiv.
  - apply LPosCount_equiv.
  - apply LInsert_equiv; exact H.
  - apply LInsertBA_equiv.
  - apply LMPop_equiv; exact H.
  - apply BLMPop_equiv; exact H.
  - apply ZAdd_equiv.
  - apply ZAddArgs_equiv.
  - apply ZRangeArgs_equiv; exact H.
  - apply ZRangeStore_equiv; exact H.
  - apply ZRangeBy_equiv.
  - apply ZStoreOp_equiv.
  - apply ZStoreTo_equiv.
  - apply ZDiff_equiv.
  - apply ZDiffStore_equiv.
  - apply XAdd_equiv.
  - apply XRead_equiv; exact H.
  - apply XReadStreams_equiv.
  - apply XReadGroup_equiv; exact H.
  - apply XPendingExt_equiv.
  - apply XClaim_equiv; exact H.
  - apply XAutoClaim_equiv.
  - apply XTrim_equiv.
  - apply XInfoStreamFull_equiv.
  - apply GeoAdd_equiv.
  - apply GeoRadius_equiv.
  - apply GeoRadiusByMember_equiv.
  - apply GeoSearch_equiv.
  - apply GeoSearchLocation_equiv.
  - apply GeoSearchStore_equiv.
  - apply FunctionLoad_equiv.
  - apply ClientKillByFilter_equiv.
  - apply ACLLog_equiv; exact H.
  - apply ZPop_equiv.
  - apply ZRangePlain_equiv.
  - apply BPop_equiv.
  - apply BRPopLPush_equiv.
  - apply LMove_equiv.
  - apply BLMove_equiv.
  - apply XRangeCmd_equiv.
  - apply XGroupCreate_equiv.
  - apply XAck_equiv.
  - apply XDel_equiv.
  - apply Eval_equiv.
  - apply PopCount_equiv.
  - apply ZRandMember_equiv.
  - apply InterCard_equiv.
  - apply ZMPop_equiv; exact H.
  - apply BZMPop_equiv; exact H.
  - apply ClientPause_iff; exact H.
  - apply SlowLogGet_equiv.
  - apply GeoDist_equiv; exact H.
  - apply FunctionList_equiv.
Qed.

End WithFloat.

(** ---------- exact characterisations of the known differences ---------- *)
Lemma tok_eq_dec : forall a b : tok, {a = b} + {a <> b}.
Proof. decide equality; apply (list_eq_dec N.eq_dec). Qed.

Section Characterised.
Variable F : Type.
Variable ff : F -> bytes.
Variable fpos : F -> bool.

Lemma zr_ok_dec : forall z, zr_ok z \/ ~ zr_ok z.
Proof.
  intros z. unfold zr_ok. destruct (zr_swapped z); [|left; left; reflexivity].
  destruct (tok_eq_dec (a_str (zr_start z)) (a_str (zr_stop z))) as [E|E]; [left; right; exact E|].
  right. intros [H|H]; [discriminate|contradiction].
Qed.

Lemma ZRangeArgs_iff : forall ws z, same F ff fpos (MZRangeArgs ws z) <-> zr_ok z.
Proof.
  intros ws z. split.
  - intro H. destruct (zr_ok_dec z) as [Y|N]; [exact Y|]. exfalso. exact (ZRangeArgs_differs F ff fpos ws z N H).
  - apply ZRangeArgs_equiv.
Qed.

Lemma ZRangeStore_iff : forall dst z, same F ff fpos (MZRangeStore dst z) <-> zr_ok z.
Proof.
  intros dst z. split.
  - intro H. destruct (zr_ok_dec z) as [Y|N]; [exact Y|]. exfalso. exact (ZRangeStore_differs F ff fpos dst z N H).
  - apply ZRangeStore_equiv.
Qed.

Lemma XRead_iff : forall count block streams, same F ff fpos (MXRead count block streams) <-> sub_ms block = false.
Proof.
  intros. split.
  - intro H. destruct (sub_ms block) eqn:E; [|reflexivity]. exfalso. exact (XRead_differs F ff fpos count block streams E H).
  - apply XRead_equiv.
Qed.

Lemma XReadGroup_iff : forall group consumer count block noack streams,
  same F ff fpos (MXReadGroup group consumer count block noack streams) <-> sub_ms block = false.
Proof.
  intros. split.
  - intro H. destruct (sub_ms block) eqn:E; [|reflexivity]. exfalso.
    exact (XReadGroup_differs F ff fpos group consumer count block noack streams E H).
  - apply XReadGroup_equiv.
Qed.

Lemma XClaim_iff : forall justid a, same F ff fpos (MXClaim justid a) <-> sub_ms (xc_minidle a) = false.
Proof.
  intros. split.
  - intro H. destruct (sub_ms (xc_minidle a)) eqn:E; [|reflexivity]. exfalso. exact (XClaim_differs F ff fpos justid a E H).
  - apply XClaim_equiv.
Qed.

(** a panic of the adapter against a command sent by go-redis is a difference *)
Lemma panic_vs_sent : forall c l, adapter F ff fpos c = Panic -> goredis F ff fpos c = Ok l -> ~ same F ff fpos c.
Proof. intros c l H1 H2 H. unfold same in H. rewrite H1, H2 in H. discriminate. Qed.

Lemma valid_mode_dec : forall m, valid_mode m \/ ~ valid_mode m.
Proof.
  intros m. unfold valid_mode. destruct m as [|b r]; [left; left; reflexivity|].
  destruct (list_eq_dec N.eq_dec (upper (b :: r)) (bs "NX")) as [E|E]; [left; right; left; exact E|].
  destruct (list_eq_dec N.eq_dec (upper (b :: r)) (bs "XX")) as [E2|E2]; [left; right; right; exact E2|].
  right. intros [H|[H|H]]; [discriminate|contradiction|contradiction].
Qed.

Lemma SetArgs_iff : forall key v a, same F ff fpos (MSetArgs key v a) <-> valid_mode (sa_mode a).
Proof.
  intros. split.
  - intro H. destruct (valid_mode_dec (sa_mode a)) as [Y|N]; [exact Y|]. exfalso.
    destruct (SetArgs_invalid F ff fpos key v a N) as [P [l G]]. exact (panic_vs_sent _ l P G H).
  - apply SetArgs_equiv.
Qed.

Lemma valid_op_dec : forall o, valid_op o \/ ~ valid_op o.
Proof.
  intros o. unfold valid_op.
  destruct (list_eq_dec N.eq_dec (upper o) (bs "BEFORE")) as [E|E]; [left; left; exact E|].
  destruct (list_eq_dec N.eq_dec (upper o) (bs "AFTER")) as [E2|E2]; [left; right; exact E2|].
  right. intros [H|H]; contradiction.
Qed.

Lemma LInsert_iff : forall key op pivot elem, same F ff fpos (MLInsert key op pivot elem) <-> valid_op op.
Proof.
  intros. split.
  - intro H. destruct (valid_op_dec op) as [Y|N]; [exact Y|]. exfalso.
    destruct (LInsert_invalid F ff fpos key op pivot elem N) as [P [l G]]. exact (panic_vs_sent _ l P G H).
  - apply LInsert_equiv.
Qed.

Lemma valid_order_dec : forall o, valid_order o \/ ~ valid_order o.
Proof.
  intros o. unfold valid_order. destruct o as [|b r]; [left; left; reflexivity|].
  destruct (list_eq_dec N.eq_dec (upper (b :: r)) (bs "ASC")) as [E|E]; [left; right; left; exact E|].
  destruct (list_eq_dec N.eq_dec (upper (b :: r)) (bs "DESC")) as [E2|E2]; [left; right; right; exact E2|].
  right. intros [H|[H|H]]; [discriminate|contradiction|contradiction].
Qed.

(** Sort: with a valid command form (not SortStore to the empty key) the two agree exactly when the
    order is valid *)
Lemma Sort_iff : forall c key s, valid_sortcmd c -> (same F ff fpos (MSort c key s) <-> valid_order (so_order s)).
Proof.
  intros c key s Hc. split.
  - intro H. destruct (valid_order_dec (so_order s)) as [Y|N]; [exact Y|]. exfalso.
    destruct (Sort_invalid F ff fpos c key s N) as [P [l G]]. exact (panic_vs_sent _ l P G H).
  - intro H. apply Sort_equiv; assumption.
Qed.

Lemma valid_unit_dec : forall u, valid_unit u \/ ~ valid_unit u.
Proof.
  intros u. unfold valid_unit. destruct u as [|b r]; [left; left; reflexivity|].
  destruct (list_eq_dec N.eq_dec (upper (b :: r)) (bs "M")) as [E|E]; [left; right; left; exact E|].
  destruct (list_eq_dec N.eq_dec (upper (b :: r)) (bs "KM")) as [E2|E2]; [left; right; right; left; exact E2|].
  destruct (list_eq_dec N.eq_dec (upper (b :: r)) (bs "MI")) as [E3|E3]; [left; right; right; right; left; exact E3|].
  destruct (list_eq_dec N.eq_dec (upper (b :: r)) (bs "FT")) as [E4|E4]; [left; right; right; right; right; exact E4|].
  right. intros [H|[H|[H|[H|H]]]]; [discriminate|contradiction|contradiction|contradiction|contradiction].
Qed.

Lemma GeoDist_iff : forall key m1 m2 unit, same F ff fpos (MGeoDist key m1 m2 unit) <-> valid_unit unit.
Proof.
  intros. split.
  - intro H. destruct (valid_unit_dec unit) as [Y|N]; [exact Y|]. exfalso.
    destruct (GeoDist_invalid F ff fpos key m1 m2 unit N) as [P [l G]]. exact (panic_vs_sent _ l P G H).
  - apply GeoDist_equiv.
Qed.

End Characterised.
