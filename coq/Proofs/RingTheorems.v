(** Ring LTS: the statements used by Props/C02.v. *)
From Coq Require Import List NArith ZArith Bool Arith Lia.
Require Import RV.Model.Base RV.Model.Ring RV.Proofs.RingBase RV.Proofs.RingInv RV.Proofs.RingInv2.
Import ListNotations.
Local Open Scope nat_scope.

Ltac rst := cbn [write read1 read2 slots wpc rpc nw n1 n2 wseq rseq recv
                 set_slots set_slot set_counts set_wpc set_rpc add_recv
                 mark payload pm c_one c_multi c_resps slept rlock tk parked1 woken1 bc wt wparked wwoken fillseq
                 sl_lists sl_fill sl_mark sl_clear sl_writer sl_rlock] in *.

Definition reachable (k : nat) (start : N) (st : state) : Prop := exists sch, run k sch (init start) = Some st.

Lemma run_app : forall k a b st, run k (a ++ b) st = match run k a st with Some st' => run k b st' | None => None end.
Proof.
  intros k a. induction a as [|l r IH]; intros b st; cbn [app run]; [reflexivity|].
  destruct (lstep k st l); [apply IH|reflexivity].
Qed.

Lemma reachable_ind : forall k start (P : state -> Prop),
  P (init start) -> (forall st l st', P st -> lstep k st l = Some st' -> P st') ->
  forall st, reachable k start st -> P st.
Proof.
  intros k start P H0 Hs st [sch Hr]. revert st Hr.
  induction sch as [|l r IH] using rev_ind; intros st Hr.
  - cbn [run] in Hr. inversion Hr; subst. exact H0.
  - rewrite run_app in Hr. destruct (run k r (init start)) as [s1|] eqn:E; [|discriminate].
    cbn [run] in Hr. destruct (lstep k s1 l) as [s2|] eqn:E2; [|discriminate].
    inversion Hr; subst. eapply Hs; [apply IH; reflexivity|exact E2].
Qed.

Record Inv (k : nat) (start : N) (st : state) : Prop := {
  inv_a : InvA k start st;
  inv_t : InvT k start st;
  inv_w : InvW st
}.

Theorem inv_reachable : forall k start st, reachable k start st -> Inv k start st.
Proof.
  intros k start st Hr. eapply reachable_ind; [| |exact Hr].
  - constructor; [apply inva_init|apply invt_init|apply invw_init].
  - intros s0 l s1 [A T W] Hl. constructor.
    + eapply inva_step; eassumption.
    + eapply invt_step; eassumption.
    + eapply invw_step; eassumption.
Qed.

Section Theorems.
Variable k : nat.
Variable start : N.
Notation sof := (sof k start).
Notation cntpos := (cntpos k start).
Notation item_at := (item_at k start).

(** ---- wrap ---- *)

Theorem ring_wrap : forall x, k <= 32 -> idx k (u32 x) = N.to_nat (x mod 2 ^ N.of_nat k)%N.
Proof. intros x Hk. apply idx_u32. exact Hk. Qed.

Theorem ring_slot_of_position : forall j, k <= 32 -> sof j = N.to_nat ((start + N.of_nat j) mod 2 ^ N.of_nat k)%N.
Proof. intros j Hk. unfold RingBase.sof. apply idx_u32. exact Hk. Qed.

(** ---- order and exactly-once ---- *)

(** the lap of position j: how many earlier positions use the same slot *)
Definition lap (j : nat) : nat := cntpos (j - 1) (sof j).

Theorem ring_writer_order : forall st, reachable k start st ->
  wseq st = map (item_at st) (seq 1 (n1 st)) /\ length (wseq st) = n1 st /\
  forall j, 1 <= j <= n1 st -> nth_error (fillseq (slots st (sof j))) (lap j) = Some (item_at st j).
Proof.
  intros st Hr. destruct (inv_reachable _ _ _ Hr) as [A _ _].
  split; [apply (a_ws _ _ _ A)|]. split; [rewrite (a_ws _ _ _ A), map_length, seq_length; reflexivity|].
  intros j Hj. unfold RingInv.item_at, lap. apply nth_error_nth'.
  assert (H : cntpos (j - 1) (sof j) < cntpos (n1 st) (sof j)) by (apply cntpos_lt_at; lia).
  pose proof (a_ci _ _ _ A (sof j)) as Hci. unfold CI in Hci. cbv zeta in Hci.
  destruct Hci as [(_ & _ & C3 & _)|[(_ & _ & C3 & _)|(_ & _ & C3 & _)]]; lia.
Qed.

Lemma firstn_map_seq : forall (f : nat -> nat) a n m, m <= n -> firstn m (map f (seq a n)) = map f (seq a m).
Proof.
  intros f a n m H. rewrite firstn_map. f_equal. revert a n H. induction m as [|m IH]; intros a n H; [reflexivity|].
  destruct n as [|n]; [lia|]. cbn [seq firstn]. f_equal. apply IH. lia.
Qed.

Theorem ring_reader_order : forall st, reachable k start st ->
  n2 st <= n1 st /\ rseq st = firstn (n2 st) (wseq st).
Proof.
  intros st Hr. destruct (inv_reachable _ _ _ Hr) as [A _ _].
  split; [apply (a_le _ _ _ A)|]. rewrite (a_rs _ _ _ A), (a_ws _ _ _ A). symmetry. apply firstn_map_seq. apply (a_le _ _ _ A).
Qed.

(** every item sits in the slot of its own ticket, at most once *)
Lemma fillseq_nodup : forall st s, InvT k start st -> NoDup (fillseq (slots st s)).
Proof.
  intros st s [T1 T2 T3]. apply (NoDup_count_occ Nat.eq_dec). intro p.
  destruct (count_occ Nat.eq_dec (fillseq (slots st s)) p) eqn:E; [lia|].
  destruct (T2 s p) as [Hs Hp]; [unfold occ; lia|]. specialize (T3 p Hp). rewrite Hs in T3. unfold occ in T3. lia.
Qed.

Lemma fillseq_slot : forall st s p, InvT k start st -> In p (fillseq (slots st s)) -> sof p = s /\ 1 <= p <= nw st.
Proof.
  intros st s p [T1 T2 T3] H. apply T2. apply In_cnt in H. unfold occ. lia.
Qed.

Theorem ring_exactly_once : forall st, reachable k start st -> NoDup (wseq st).
Proof.
  intros st Hr. destruct (inv_reachable _ _ _ Hr) as [A T _].
  destruct (ring_writer_order st Hr) as (Hw & Hlen & Hnth).
  apply NoDup_nth_error. intros i j Hi Hij. rewrite Hlen in Hi.
  assert (Hj : j < n1 st).
  { destruct (nth_error (wseq st) i) eqn:E; [|apply nth_error_None in E; lia].
    symmetry in Hij. assert (nth_error (wseq st) j <> None) by congruence. apply nth_error_Some in H. lia. }
  rewrite Hw in Hij.
  rewrite !nth_error_map in Hij. rewrite !nth_error_nth' with (d := 0) in Hij by (rewrite seq_length; lia).
  rewrite !seq_nth in Hij by lia. cbn [option_map Nat.add] in Hij. inversion Hij as [Hit]. clear Hij.
  (* both positions carry the same item: same slot (the item's own), same lap *)
  pose proof (Hnth (S i) ltac:(lia)) as Ni. pose proof (Hnth (S j) ltac:(lia)) as Nj.
  rewrite Hit in Ni.
  assert (Si : sof (item_at st (S j)) = sof (S i)).
  { apply (fillseq_slot st _ _ T). eapply nth_error_In. exact Ni. }
  assert (Sj : sof (item_at st (S j)) = sof (S j)).
  { apply (fillseq_slot st _ _ T). eapply nth_error_In. exact Nj. }
  assert (Hs : sof (S i) = sof (S j)) by congruence.
  rewrite Hs in Ni.
  assert (Hl : lap (S i) = lap (S j)).
  { pose proof (fillseq_nodup st (sof (S j)) T) as Hnd. rewrite NoDup_nth_error in Hnd. apply Hnd; [|congruence].
    apply nth_error_Some. congruence. }
  (* same slot and same lap => same position *)
  unfold lap in Hl. rewrite Hs in Hl. replace (S i - 1) with i in Hl by lia. replace (S j - 1) with j in Hl by lia.
  destruct (Nat.lt_trichotomy i j) as [L|[L|L]]; [|exact L|].
  - exfalso. pose proof (cntpos_mono k start (S i) j (sof (S j)) L) as Hm.
    rewrite <- Hs in Hm at 1. rewrite cntpos_succ_same in Hm. rewrite Hs in Hm. lia.
  - exfalso. pose proof (cntpos_mono k start (S j) i (sof (S j)) L) as Hm.
    rewrite cntpos_succ_same in Hm. lia.
Qed.

(** what is handed to the writer was put: every dequeued item is a ticket holder that filled the slot
    of its ticket, and a filled command that the writer has not taken sits in a slot with mark 1 *)
Theorem ring_dequeued_were_put : forall st p, reachable k start st -> In p (wseq st) ->
  1 <= p <= nw st /\ In p (fillseq (slots st (sof p))).
Proof.
  intros st p Hr Hin. destruct (inv_reachable _ _ _ Hr) as [A T _].
  destruct (ring_writer_order st Hr) as (Hw & Hlen & Hnth).
  rewrite Hw in Hin. apply in_map_iff in Hin. destruct Hin as (j & Hj & Hjs). apply in_seq in Hjs.
  pose proof (Hnth j ltac:(lia)) as N. rewrite Hj in N. apply nth_error_In in N.
  destruct (fillseq_slot st _ _ T N) as [S1 S2]. split; [exact S2|]. rewrite S1. exact N.
Qed.

(** ---- slot owner ---- *)

Theorem ring_own_result : forall st p st', reachable k start st -> lstep k st (RDeliver p) = Some st' ->
  exists s, rpc st = RHold s (Some p) /\ wt (slots st s) = [p] /\ bc (slots st s) = [] /\ recv st' = (p, p) :: recv st.
Proof.
  intros st p st' Hr Hl. destruct (inv_reachable _ _ _ Hr) as [A _ _].
  cbn [lstep] in Hl. destruct (rpc st) as [|s [i|]|] eqn:Hrp; try discriminate.
  destruct (memb p (wt (slots st s))) eqn:G; [|discriminate]. apply some_inj in Hl. subst st'.
  pose proof (a_hold _ _ _ A s i Hrp) as Hm.
  assert (Hu : und st s = Some i). { unfold und. rewrite Hm, Hrp. cbn [Nat.eqb]. rewrite Nat.eqb_refl. reflexivity. }
  destruct (so_single _ _ st s i A Hu) as [[B W]|[B W]].
  - rewrite W in G. discriminate.
  - rewrite W in G. apply memb_single in G. subst i. exists s. rst. auto.
Qed.

Theorem ring_all_own_results : forall st, reachable k start st -> own_results (recv st) = true.
Proof. intros st Hr. destruct (inv_reachable _ _ _ Hr) as [A _ _]. apply (a_recv _ _ _ A). Qed.

(** the reader holds the slot mutex from NextResultCh to FinishResult: no putter can touch the slot,
    and while a result is undelivered nobody else can occupy the slot *)
Theorem ring_lock_tenure : forall st s it, reachable k start st -> rpc st = RHold s it ->
  forall p m, lstep k st (PutLock p s m) = None.
Proof.
  intros st s it Hr Hrp p m. destruct (inv_reachable _ _ _ Hr) as [A _ _].
  assert (H : rlock (slots st s) = true) by (apply (a_lock _ _ _ A); eexists; exact Hrp).
  cbn [lstep]. rewrite H. reflexivity.
Qed.

Theorem ring_slot_owner : forall st s i p m st', reachable k start st -> und st s = Some i ->
  lstep k st (PutLock p s m) = Some st' -> fillseq (slots st' s) = fillseq (slots st s) /\ und st' s = Some i.
Proof.
  intros st s i p m st' Hr Hu Hl. destruct (inv_reachable _ _ _ Hr) as [A _ _].
  cbn [lstep] in Hl.
  destruct (negb (rlock (slots st s)) && (memb p (tk (slots st s)) || memb p (woken1 (slots st s)))) eqn:G; [|discriminate].
  apply andb_true_iff in G. destruct G as [G1 _]. apply negb_true_iff in G1.
  set (x := slots st s) in *.
  set (x1 := if memb p (tk x) then sl_lists x (remove1 p (tk x)) (parked1 x) (woken1 x) (bc x) (wt x)
             else sl_lists x (tk x) (parked1 x) (remove1 p (woken1 x)) (bc x) (wt x)) in *.
  assert (M1 : mark x1 = mark x) by (subst x1; destruct (memb p (tk x)); reflexivity).
  destruct (Nat.eqb (mark x1) 0) eqn:Hm.
  - exfalso. apply Nat.eqb_eq in Hm. rewrite M1 in Hm. rewrite (und_mark0_free _ _ st s A Hm G1) in Hu. discriminate.
  - apply some_inj in Hl. subst st'. rst. rewrite upd_same. rst.
    assert (F : fillseq x1 = fillseq x /\ payload x1 = payload x) by (subst x1; destruct (memb p (tk x)); split; reflexivity).
    destruct F as [F1 F2]. split; [exact F1|]. unfold und in *. rst. rewrite upd_same. rst. rewrite M1, F2. exact Hu.
Qed.

(** ---- no lost wake-up ---- *)

Theorem ring_no_lost_wakeup : forall st, reachable k start st ->
  (forall s, parked1 (slots st s) <> [] ->
      mark (slots st s) <> 0 \/ rlock (slots st s) = true \/ rpc st = RSig s \/ woken1 (slots st s) <> []) /\
  (forall s, wparked (slots st s) = true ->
      slept (slots st s) = true /\ wpc st = WWait s /\ (mark (slots st s) <> 1 \/ bc (slots st s) <> [])).
Proof.
  intros st Hr. destruct (inv_reachable _ _ _ Hr) as [_ _ [W1 W2 W3 W4]]. split; [exact W1|].
  intros s Hp. destruct (W2 s Hp) as [A B]. split; [exact A|]. split; [apply W3; left; exact Hp|exact B].
Qed.

End Theorems.
