(** The finite obligation over the delegation table regenerated from rueidishook/hook.go (every run). *)
From Coq Require Import List NArith Bool.
Require Import RV.Model.Base RV.Model.Hook RV.Gen.HookDeleg.
Lemma gen_table_ok : table_ok hook_table = true.
Proof. vm_compute. reflexivity. Qed.
