(** pipe.DoMultiCache: the batch result is, slot by slot, what each command alone would get. *)
From Coq Require Import String Ascii.
From Coq Require Import List Arith NArith ZArith Bool Lia.
Require Import RV.Model.Base RV.Model.CacheBatch RV.Proofs.CacheBatchBase.
Import ListNotations.
Open Scope nat_scope.

(** commands that may legitimately be cached are not MULTI / EXEC themselves *)
Definition not_tx (a : argv) : Prop := is_cmd "MULTI" a = false /\ is_cmd "EXEC" a = false.

Lemma flat_map_map {A B C} (f : B -> list C) (g : A -> B) l :
  flat_map f (map g l) = flat_map (fun x => f (g x)) l.
Proof. induction l as [|x l IH]; cbn; [reflexivity|now rewrite IH]. Qed.

Lemma map_flat_map {A B C} (f : B -> C) (g : A -> list B) l :
  map f (flat_map g l) = flat_map (fun x => map f (g x)) l.
Proof. induction l as [|x l IH]; cbn; [reflexivity|now rewrite map_app, IH]. Qed.

Lemma Forall2_imp {A B} (P Q : A -> B -> Prop) l1 l2 :
  (forall a b, P a b -> Q a b) -> Forall2 P l1 l2 -> Forall2 Q l1 l2.
Proof. intros H; induction 1; constructor; auto. Qed.

Lemma Forall2_combine_in {A B} (P : A -> B -> Prop) l1 l2 a b :
  Forall2 P l1 l2 -> In (a, b) (combine l1 l2) -> P a b.
Proof.
  induction 1 as [|x y l1 l2 Hxy _ IH]; cbn [combine]; [intros []|].
  intros [E|H]; [inversion E; subst; exact Hxy|now apply IH].
Qed.

Lemma match_nonempty {A B} (l : list A) (p x : B) :
  l <> [] -> match l with [] => p | _ :: _ => x end = x.
Proof. destruct l; [contradiction|reflexivity]. Qed.

Lemma map_combine_fst {A B C} (f : A -> C) (l1 : list A) (l2 : list B) :
  length l1 = length l2 -> map (fun p => f (fst p)) (combine l1 l2) = map f l1.
Proof. revert l2; induction l1; intros [|] H; try discriminate; cbn; [reflexivity|]. f_equal. auto. Qed.

Lemma rnth_app_r pre k t : rnth (length pre + k) (pre ++ t) = rnth k t.
Proof. unfold rnth. rewrite app_nth2 by lia. f_equal. lia. Qed.

Lemma nth_app_r {A} (pre : list A) k t d : nth (length pre + k) (pre ++ t) d = nth k t d.
Proof. rewrite app_nth2 by lia. f_equal. lia. Qed.

Section Multi.
  Variable lookup : key -> bytes -> lk.
  Variable srv : argv -> msg.
  Variable qerr : argv -> option msg.
  Variable optin : bool.

  (** ** classification of the batch: a structurally recursive description of Flights *)

  Inductive kind := KHit (v : msg) | KWait (r : rres) | KSelf (ck : key * bytes) | KMiss.

  Fixpoint klist (cr : list (key * bytes)) (l : list item) : list kind :=
    match l with
    | [] => []
    | it :: r =>
      let ck := cache_key (it_argv it) in
      if ck_mem ck cr then KSelf ck :: klist cr r
      else match lookup (fst ck) (snd ck) with
           | LHit v => KHit v :: klist cr r
           | LWait x => KWait x :: klist cr r
           | LMiss => KMiss :: klist (cr ++ [ck]) r
           end
    end.

  Definition k_res (k : kind) : rres := match k with KHit v => new_result v | _ => zero_res end.
  Definition k_entry (k : kind) : option entry :=
    match k with KWait r => Some (EForeign r) | KSelf ck => Some (ESelf ck) | _ => None end.
  Definition k_is_miss (k : kind) : bool := match k with KMiss => true | _ => false end.

  Fixpoint k_missed (off : nat) (ks : list kind) : list nat :=
    match ks with
    | [] => []
    | KMiss :: r => off :: k_missed (S off) r
    | _ :: r => k_missed (S off) r
    end.

  (** the items at the miss positions *)
  Fixpoint k_items (ks : list kind) (l : list item) : list item :=
    match ks, l with
    | KMiss :: r, it :: lr => it :: k_items r lr
    | _ :: r, _ :: lr => k_items r lr
    | _, _ => []
    end.

  Definition k_created (ks : list kind) (l : list item) : list (key * bytes) :=
    map (fun it => cache_key (it_argv it)) (k_items ks l).

  Lemma klist_length cr l : length (klist cr l) = length l.
  Proof.
    revert cr; induction l as [|it l IH]; intro cr; cbn [klist length]; [reflexivity|].
    destruct (ck_mem _ cr); [cbn; now rewrite IH|].
    destruct (lookup _ _); cbn [length]; now rewrite IH.
  Qed.

  Ltac snoc_pre :=
    repeat match goal with
    | |- context [?p ++ ?x :: ?t] =>
      lazymatch t with [] => fail | _ => change (p ++ x :: t) with (p ++ [x] ++ t); rewrite (app_assoc p [x] t) end
    end.

  (** flights_seq computes exactly [klist] *)
  Lemma flights_seq_gen l : forall pre_r pre_e ms cr,
    length pre_r = length pre_e ->
    fold_left (fun st (ic : nat * item) =>
      let (i, it) := ic in
      let ck := cache_key (it_argv it) in
      if ck_mem ck (f_created st)
      then mkF (f_results st) (upd i (Some (ESelf ck)) (f_entries st)) (f_missed st) (f_created st)
      else match lookup (fst ck) (snd ck) with
           | LHit v => mkF (upd i (new_result v) (f_results st)) (f_entries st) (f_missed st) (f_created st)
           | LWait r => mkF (f_results st) (upd i (Some (EForeign r)) (f_entries st)) (f_missed st) (f_created st)
           | LMiss => mkF (f_results st) (f_entries st) (f_missed st ++ [i]) (f_created st ++ [ck])
           end)
      (combine (seq (length pre_r) (length l)) l)
      (mkF (pre_r ++ repeat_n zero_res (length l)) (pre_e ++ repeat_n None (length l)) ms cr)
    = mkF (pre_r ++ map k_res (klist cr l)) (pre_e ++ map k_entry (klist cr l))
          (ms ++ k_missed (length pre_r) (klist cr l)) (cr ++ k_created (klist cr l) l).
  Proof.
    induction l as [|it l IH]; intros pre_r pre_e ms cr Hlen.
    - cbn. now rewrite !app_nil_r.
    - cbn [length seq combine fold_left repeat_n klist]. cbn [f_created f_results f_entries f_missed].
      assert (E1 : forall (x : rres), S (length pre_r) = length (pre_r ++ [x])) by (intro; rewrite app_length; cbn; lia).
      destruct (ck_mem (cache_key (it_argv it)) cr) eqn:Emem.
      + rewrite Hlen, upd_app_here, <- Hlen.
        rewrite (E1 zero_res).
        change (pre_r ++ zero_res :: repeat_n zero_res (length l)) with (pre_r ++ [zero_res] ++ repeat_n zero_res (length l)).
        change (pre_e ++ Some (ESelf (cache_key (it_argv it))) :: repeat_n None (length l))
          with (pre_e ++ [Some (ESelf (cache_key (it_argv it)))] ++ repeat_n None (length l)).
        rewrite !app_assoc. rewrite IH by (rewrite !app_length; cbn; lia).
        cbn [map k_res k_entry k_missed]. unfold k_created. cbn [k_items].
        rewrite <- !app_assoc. cbn [app]. rewrite <- (E1 zero_res). reflexivity.
      + destruct (lookup (fst (cache_key (it_argv it))) (snd (cache_key (it_argv it)))) as [v|r|] eqn:Elk.
        * rewrite upd_app_here. rewrite (E1 (new_result v)).
          change (pre_r ++ new_result v :: repeat_n zero_res (length l)) with (pre_r ++ [new_result v] ++ repeat_n zero_res (length l)).
          change (pre_e ++ None :: repeat_n None (length l)) with (pre_e ++ [None] ++ repeat_n (@None entry) (length l)).
          rewrite !app_assoc. rewrite IH by (rewrite !app_length; cbn; lia).
          cbn [map k_res k_entry k_missed]. unfold k_created. cbn [k_items].
          rewrite <- !app_assoc. cbn [app]. rewrite <- (E1 (new_result v)). reflexivity.
        * rewrite Hlen, upd_app_here, <- Hlen. rewrite (E1 zero_res).
          change (pre_r ++ zero_res :: repeat_n zero_res (length l)) with (pre_r ++ [zero_res] ++ repeat_n zero_res (length l)).
          change (pre_e ++ Some (EForeign r) :: repeat_n None (length l)) with (pre_e ++ [Some (EForeign r)] ++ repeat_n None (length l)).
          rewrite !app_assoc. rewrite IH by (rewrite !app_length; cbn; lia).
          cbn [map k_res k_entry k_missed]. unfold k_created. cbn [k_items].
          rewrite <- !app_assoc. cbn [app]. rewrite <- (E1 zero_res). reflexivity.
        * rewrite (E1 zero_res).
          change (pre_r ++ zero_res :: repeat_n zero_res (length l)) with (pre_r ++ [zero_res] ++ repeat_n zero_res (length l)).
          change (pre_e ++ None :: repeat_n None (length l)) with (pre_e ++ [None] ++ repeat_n (@None entry) (length l)).
          rewrite !app_assoc. rewrite IH by (rewrite !app_length; cbn; lia).
          cbn [map k_res k_entry k_missed]. unfold k_created. cbn [k_items map].
          rewrite <- !app_assoc. cbn [app]. rewrite <- (E1 zero_res). reflexivity.
  Qed.

  Definition spec_state (batch : list item) : fstate :=
    let ks := klist [] batch in
    mkF (map k_res ks) (map k_entry ks) (k_missed 0 ks) (k_created ks batch).

  Lemma flights_seq_spec batch : flights_seq lookup batch = spec_state batch.
  Proof.
    unfold flights_seq, indexed, spec_state.
    pose proof (flights_seq_gen batch [] [] [] [] eq_refl) as H. cbn [app length] in H. exact H.
  Qed.

  (** *** lru.Flights: the two passes compute the same classification *)

  Definition l_res (it : item) : rres :=
    let ck := cache_key (it_argv it) in
    match lookup (fst ck) (snd ck) with LHit v => new_result v | _ => zero_res end.
  Definition l_entry (it : item) : option entry :=
    let ck := cache_key (it_argv it) in
    match lookup (fst ck) (snd ck) with LWait r => Some (EForeign r) | _ => None end.
  Fixpoint l_missed (off : nat) (l : list item) : list nat :=
    match l with
    | [] => []
    | it :: r =>
      let ck := cache_key (it_argv it) in
      match lookup (fst ck) (snd ck) with
      | LMiss => off :: l_missed (S off) r
      | _ => l_missed (S off) r
      end
    end.

  Lemma flights_pass1_gen l : forall pre_r pre_e ms cr,
    length pre_r = length pre_e ->
    fold_left (fun st (ic : nat * item) =>
      let (i, it) := ic in
      let (k, c) := cache_key (it_argv it) in
      match lookup k c with
      | LHit v => mkF (upd i (new_result v) (f_results st)) (f_entries st) (f_missed st) (f_created st)
      | LWait r => mkF (f_results st) (upd i (Some (EForeign r)) (f_entries st)) (f_missed st) (f_created st)
      | LMiss => mkF (f_results st) (f_entries st) (f_missed st ++ [i]) (f_created st)
      end)
      (combine (seq (length pre_r) (length l)) l)
      (mkF (pre_r ++ repeat_n zero_res (length l)) (pre_e ++ repeat_n None (length l)) ms cr)
    = mkF (pre_r ++ map l_res l) (pre_e ++ map l_entry l) (ms ++ l_missed (length pre_r) l) cr.
  Proof.
    induction l as [|it l IH]; intros pre_r pre_e ms cr Hlen.
    - cbn. now rewrite !app_nil_r.
    - cbn [length seq combine fold_left repeat_n l_missed map]. cbn [f_created f_results f_entries f_missed].
      assert (E1 : forall (x : rres), S (length pre_r) = length (pre_r ++ [x])) by (intro; rewrite app_length; cbn; lia).
      unfold l_res at 1, l_entry at 1.
      destruct (cache_key (it_argv it)) as [k c] eqn:Eck. cbn [fst snd].
      destruct (lookup k c) as [v|r|] eqn:Elk.
      + rewrite upd_app_here. rewrite (E1 (new_result v)).
        change (pre_r ++ new_result v :: repeat_n zero_res (length l)) with (pre_r ++ [new_result v] ++ repeat_n zero_res (length l)).
        change (pre_e ++ None :: repeat_n None (length l)) with (pre_e ++ [None] ++ repeat_n (@None entry) (length l)).
        rewrite !app_assoc. rewrite IH by (rewrite !app_length; cbn; lia).
        rewrite <- !app_assoc. cbn [app]. rewrite <- (E1 (new_result v)). reflexivity.
      + rewrite Hlen, upd_app_here, <- Hlen. rewrite (E1 zero_res).
        change (pre_r ++ zero_res :: repeat_n zero_res (length l)) with (pre_r ++ [zero_res] ++ repeat_n zero_res (length l)).
        change (pre_e ++ Some (EForeign r) :: repeat_n None (length l)) with (pre_e ++ [Some (EForeign r)] ++ repeat_n None (length l)).
        rewrite !app_assoc. rewrite IH by (rewrite !app_length; cbn; lia).
        rewrite <- !app_assoc. cbn [app]. rewrite <- (E1 zero_res). reflexivity.
      + rewrite (E1 zero_res).
        change (pre_r ++ zero_res :: repeat_n zero_res (length l)) with (pre_r ++ [zero_res] ++ repeat_n zero_res (length l)).
        change (pre_e ++ None :: repeat_n None (length l)) with (pre_e ++ [None] ++ repeat_n (@None entry) (length l)).
        rewrite !app_assoc. rewrite IH by (rewrite !app_length; cbn; lia).
        rewrite <- !app_assoc. cbn [app]. rewrite <- (E1 zero_res). reflexivity.
  Qed.

  (** every cache key made pending by this call was a miss of the store *)
  Definition cr_inv (cr : list (key * bytes)) : Prop :=
    forall ck, In ck cr -> lookup (fst ck) (snd ck) = LMiss.

  Lemma cr_inv_snoc cr ck : cr_inv cr -> lookup (fst ck) (snd ck) = LMiss -> cr_inv (cr ++ [ck]).
  Proof. intros H Hck x Hx. apply in_app_or in Hx as [Hx|[<-|[]]]; auto. Qed.

  Lemma l_res_klist l : forall cr, cr_inv cr -> map l_res l = map k_res (klist cr l).
  Proof.
    induction l as [|it l IH]; intros cr Hinv; [reflexivity|].
    cbn [map klist]. unfold l_res at 1.
    destruct (ck_mem (cache_key (it_argv it)) cr) eqn:Emem.
    - apply ck_mem_In, Hinv in Emem. rewrite Emem. cbn [map k_res]. f_equal. now apply IH.
    - destruct (lookup _ _) eqn:Elk; cbn [map k_res]; f_equal; try now apply IH.
      apply IH. now apply cr_inv_snoc.
  Qed.

  Lemma flights_pass2_gen res l : forall pre_b pre_e ms cr,
    length pre_b = length pre_e -> cr_inv cr ->
    fold_left (fun st (i : nat) =>
      let ck := cache_key (it_argv (nth i (pre_b ++ l) (mkItem [] false false))) in
      if ck_mem ck (f_created st)
      then mkF (f_results st) (upd i (Some (ESelf ck)) (f_entries st)) (f_missed st) (f_created st)
      else mkF (f_results st) (f_entries st) (f_missed st ++ [i]) (f_created st ++ [ck]))
      (l_missed (length pre_b) l)
      (mkF res (pre_e ++ map l_entry l) ms cr)
    = mkF res (pre_e ++ map k_entry (klist cr l)) (ms ++ k_missed (length pre_b) (klist cr l))
          (cr ++ k_created (klist cr l) l).
  Proof.
    induction l as [|it l IH]; intros pre_b pre_e ms cr Hlen Hinv.
    - cbn. now rewrite !app_nil_r.
    - assert (E1 : S (length pre_b) = length (pre_b ++ [it])) by (rewrite app_length; cbn; lia).
      assert (E2 : pre_b ++ it :: l = (pre_b ++ [it]) ++ l) by now rewrite <- app_assoc.
      cbn [l_missed klist map]. unfold l_entry at 1.
      destruct (ck_mem (cache_key (it_argv it)) cr) eqn:Emem.
      + pose proof Emem as Hm. apply ck_mem_In, Hinv in Hm. rewrite Hm.
        cbn [fold_left f_created f_results f_entries f_missed].
        replace (nth (length pre_b) (pre_b ++ it :: l) (mkItem [] false false)) with it
          by (rewrite app_nth2, Nat.sub_diag by lia; reflexivity).
        rewrite Emem. rewrite Hlen, upd_app_here, <- Hlen.
        change (pre_e ++ Some (ESelf (cache_key (it_argv it))) :: map l_entry l)
          with (pre_e ++ [Some (ESelf (cache_key (it_argv it)))] ++ map l_entry l).
        rewrite app_assoc, E1, E2. rewrite IH by (try rewrite !app_length; cbn; auto; lia).
        cbn [map k_entry k_missed]. unfold k_created. cbn [k_items].
        rewrite <- !app_assoc. cbn [app]. rewrite <- E1. reflexivity.
      + destruct (lookup _ _) as [v|r|] eqn:Elk.
        * change (pre_e ++ None :: map l_entry l) with (pre_e ++ [None] ++ map l_entry l).
          rewrite app_assoc, E1, E2. rewrite IH by (try rewrite !app_length; cbn; auto; lia).
          cbn [map k_entry k_missed]. unfold k_created. cbn [k_items].
          rewrite <- !app_assoc. cbn [app]. rewrite <- E1. reflexivity.
        * change (pre_e ++ Some (EForeign r) :: map l_entry l) with (pre_e ++ [Some (EForeign r)] ++ map l_entry l).
          rewrite app_assoc, E1, E2. rewrite IH by (try rewrite !app_length; cbn; auto; lia).
          cbn [map k_entry k_missed]. unfold k_created. cbn [k_items].
          rewrite <- !app_assoc. cbn [app]. rewrite <- E1. reflexivity.
        * cbn [fold_left f_created f_results f_entries f_missed].
          replace (nth (length pre_b) (pre_b ++ it :: l) (mkItem [] false false)) with it
            by (rewrite app_nth2, Nat.sub_diag by lia; reflexivity).
          rewrite Emem.
          change (pre_e ++ None :: map l_entry l) with (pre_e ++ [None] ++ map l_entry l).
          rewrite app_assoc, E1, E2.
          rewrite IH by (try rewrite !app_length; cbn; auto using cr_inv_snoc; lia).
          cbn [map k_entry k_missed]. unfold k_created. cbn [k_items map].
          rewrite <- !app_assoc. cbn [app]. rewrite <- E1. reflexivity.
  Qed.

  Lemma flights_lru_spec batch : flights_lru lookup batch = spec_state batch.
  Proof.
    unfold flights_lru, flights_pass1, indexed.
    pose proof (flights_pass1_gen batch [] [] [] [] eq_refl) as H1. cbn [app length] in H1. rewrite H1.
    unfold flights_pass2. cbn [f_results f_entries f_missed].
    assert (Hinv : cr_inv []) by (intros ? []).
    pose proof (flights_pass2_gen (map l_res batch) batch [] [] [] [] eq_refl Hinv) as H2.
    cbn [app length] in H2. unfold no_item in *. rewrite H2.
    unfold spec_state. f_equal. now apply l_res_klist.
  Qed.

  (** the cache keys handled by [klist] *)
  Lemma k_missed_items l : forall pre cr d,
    map (fun i => nth i (pre ++ l) d) (k_missed (length pre) (klist cr l)) = k_items (klist cr l) l.
  Proof.
    induction l as [|it l IH]; intros pre cr d; [reflexivity|].
    assert (E1 : S (length pre) = length (pre ++ [it])) by (rewrite app_length; cbn; lia).
    assert (E2 : pre ++ it :: l = (pre ++ [it]) ++ l) by now rewrite <- app_assoc.
    cbn [klist]. destruct (ck_mem _ cr).
    - cbn [k_missed k_items]. rewrite E1, E2. apply IH.
    - destruct (lookup _ _); cbn [k_missed k_items map]; try (rewrite E1, E2; apply IH).
      f_equal; [rewrite app_nth2, Nat.sub_diag by lia; reflexivity|]. rewrite E1, E2. apply IH.
  Qed.

  (** soundness of the classification w.r.t. the store *)
  Inductive kind_ok (cr : list (key * bytes)) (misses : list item) : kind -> item -> Prop :=
  | ok_hit v it : lookup (fst (cache_key (it_argv it))) (snd (cache_key (it_argv it))) = LHit v -> kind_ok cr misses (KHit v) it
  | ok_wait r it : lookup (fst (cache_key (it_argv it))) (snd (cache_key (it_argv it))) = LWait r -> kind_ok cr misses (KWait r) it
  | ok_miss it : lookup (fst (cache_key (it_argv it))) (snd (cache_key (it_argv it))) = LMiss -> In it misses -> kind_ok cr misses KMiss it
  | ok_self it :
      lookup (fst (cache_key (it_argv it))) (snd (cache_key (it_argv it))) = LMiss ->
      (In (cache_key (it_argv it)) cr \/ exists it', In it' misses /\ cache_key (it_argv it') = cache_key (it_argv it)) ->
      kind_ok cr misses (KSelf (cache_key (it_argv it))) it.

  Lemma kind_ok_weaken cr cr' ms ms' k it :
    (forall x, In x cr -> In x cr' \/ exists it', In it' ms' /\ cache_key (it_argv it') = x) ->
    (forall x, In x ms -> In x ms') ->
    kind_ok cr ms k it -> kind_ok cr' ms' k it.
  Proof.
    intros Hcr Hms H. destruct H.
    - now constructor.
    - now constructor.
    - constructor; auto.
    - constructor; auto. destruct H0 as [H0|[it' [Hi He]]].
      + destruct (Hcr _ H0) as [?|[it' [Hi He]]]; [now left|right; eauto].
      + right; eauto.
  Qed.

  Lemma klist_sound l : forall cr, cr_inv cr ->
    Forall2 (kind_ok cr (k_items (klist cr l) l)) (klist cr l) l.
  Proof.
    induction l as [|it l IH]; intros cr Hinv; [constructor|].
    cbn [klist]. destruct (ck_mem (cache_key (it_argv it)) cr) eqn:Emem.
    - cbn [k_items]. constructor; [|now apply IH].
      apply ck_mem_In in Emem. constructor; [now apply Hinv|now left].
    - destruct (lookup _ _) as [v|r|] eqn:Elk; cbn [k_items].
      + constructor; [now constructor|now apply IH].
      + constructor; [now constructor|now apply IH].
      + constructor; [constructor; [assumption|now left]|].
        specialize (IH (cr ++ [cache_key (it_argv it)]) (cr_inv_snoc _ _ Hinv Elk)).
        eapply Forall2_imp; [|exact IH].
        intros k x Hk. eapply kind_ok_weaken; [| |exact Hk].
        * intros y Hy. apply in_app_or in Hy as [Hy|[<-|[]]]; [now left|right].
          exists it. split; [now left|reflexivity].
        * intros y Hy. now right.
  Qed.

  (** ** the wire on a concatenation of strides *)

  Definition q_or (a : argv) (dflt : msg) : msg := match qerr a with Some e => e | None => dflt end.
  Definition rejected (a : argv) : bool := match qerr a with Some _ => true | None => false end.
  Definition pttl_cmd (a : argv) : argv := [bs "PTTL"; fst (cache_key a)].
  Definition optin_reply : msg := q_or (optin_cmd optin) (srv (optin_cmd optin)).

  Definition stride_msgs (skip : bool) (a : argv) : list msg :=
    if skip then [optin_reply; q_or a (srv a)]
    else [optin_reply; ok_msg; q_or (pttl_cmd a) queued_msg; q_or a queued_msg;
          if rejected (pttl_cmd a) || rejected a then execabort_msg else arr [srv (pttl_cmd a); srv a]].

  Lemma optin_not_multi : is_cmd "MULTI" (optin_cmd optin) = false /\ is_cmd "EXEC" (optin_cmd optin) = false.
  Proof. destruct optin; split; reflexivity. Qed.

  Lemma wire_go_stride skip a rest :
    not_tx a ->
    wire_go srv qerr false [] false (stride_cmds optin skip a ++ rest)
    = stride_msgs skip a ++ wire_go srv qerr false [] false rest.
  Proof.
    intros [Hm He]. destruct optin_not_multi as [Om Oe].
    unfold stride_cmds, stride_msgs, optin_reply, q_or, rejected, pttl_cmd.
    destruct skip.
    - cbn [app wire_go]. rewrite Om, Oe.
      destruct (qerr (optin_cmd optin)); cbn [orb]; rewrite Hm, He; destruct (qerr a); reflexivity.
    - cbn [app wire_go]. rewrite Om, Oe.
      assert (Pm : forall k, is_cmd "MULTI" [bs "PTTL"; k] = false) by reflexivity.
      assert (Pe : forall k, is_cmd "EXEC" [bs "PTTL"; k] = false) by reflexivity.
      assert (Mm : is_cmd "MULTI" [bs "MULTI"] = true) by reflexivity.
      assert (Ee : is_cmd "EXEC" [bs "EXEC"] = true) by reflexivity.
      assert (Em : is_cmd "MULTI" [bs "EXEC"] = false) by reflexivity.
      destruct (qerr (optin_cmd optin)); cbn [orb]; rewrite Mm, Pm, Pe;
        destruct (qerr [bs "PTTL"; fst (cache_key a)]); cbn [orb]; rewrite Hm, He;
        destruct (qerr a); cbn [orb]; rewrite Em, Ee; reflexivity.
  Qed.

  Lemma wire_go_strides skip l :
    Forall not_tx l ->
    wire_go srv qerr false [] false (flat_map (stride_cmds optin skip) l) = flat_map (stride_msgs skip) l.
  Proof.
    induction 1 as [|a l Ha _ IH]; [reflexivity|].
    cbn [flat_map]. rewrite wire_go_stride by assumption. now rewrite IH.
  Qed.

  Definition stride_res (skip : bool) (a : argv) : list rres := map new_result (stride_msgs skip a).

  Lemma redis_wire_strides skip l :
    Forall not_tx l ->
    redis_wire srv qerr (flat_map (stride_cmds optin skip) l) = flat_map (stride_res skip) l.
  Proof.
    intro H. unfold redis_wire. rewrite wire_go_strides by assumption. apply map_flat_map.
  Qed.

  (** ** one command alone *)

  Definition aborted (a : argv) : bool := rejected (pttl_cmd a) || rejected a.

  Definition dec5 (a : argv) : rres :=
    if aborted a
    then new_error (abort_err (ERedis (trim_err (m_str execabort_msg))) (new_result (q_or a queued_msg)))
    else new_result (srv a).

  Lemma decode_exec_stride a :
    decode_exec (new_result (q_or a queued_msg))
                (new_result (if aborted a then execabort_msg else arr [srv (pttl_cmd a); srv a]))
    = Ok (dec5 a).
  Proof. unfold dec5. destruct (aborted a); reflexivity. Qed.

  Lemma single_miss5 a : not_tx a -> single_miss srv qerr optin false a = Ok (dec5 a).
  Proof.
    intro Ha. unfold single_miss.
    replace (stride_cmds optin false a) with (stride_cmds optin false a ++ []) by apply app_nil_r.
    unfold redis_wire. rewrite wire_go_stride by assumption. cbn [wire_go app_nil_r].
    unfold stride_msgs. cbn [app map rnth nth]. apply decode_exec_stride.
  Qed.

  Definition dec2 (a : argv) : rres := new_result (q_or a (srv a)).

  Lemma single_miss2 a : not_tx a -> single_miss srv qerr optin true a = Ok (dec2 a).
  Proof.
    intro Ha. unfold single_miss.
    replace (stride_cmds optin true a) with (stride_cmds optin true a ++ []) by apply app_nil_r.
    unfold redis_wire. rewrite wire_go_stride by assumption. reflexivity.
  Qed.

  (** ** the stride walks over [pre ++ strides] *)

  Lemma stride_res5_length a : length (stride_res false a) = 5.
  Proof. reflexivity. Qed.
  Lemma stride_res2_length a : length (stride_res true a) = 2.
  Proof. reflexivity. Qed.
  Lemma stride_cmds5_length a : length (stride_cmds optin false a) = 5.
  Proof. reflexivity. Qed.
  Lemma stride_cmds2_length a : length (stride_cmds optin true a) = 2.
  Proof. reflexivity. Qed.

  Lemma refill5_strides rest : forall pre j rs fuel,
    length rest < fuel ->
    refill5 fuel (pre ++ flat_map (stride_res false) rest) (length pre + 4) j rs
    = Ok (fill_seq (map dec5 rest) j rs).
  Proof.
    induction rest as [|a rest IH]; intros pre j rs fuel Hf.
    - destruct fuel; [cbn in Hf; lia|]. cbn [flat_map refill5 map fill_seq]. rewrite app_nil_r.
      destruct (Nat.ltb_spec (length pre + 4) (length pre)); [lia|reflexivity].
    - destruct fuel as [|fuel]; [cbn in Hf; lia|]. cbn [length] in Hf.
      cbn [flat_map refill5 map fill_seq].
      assert (Hlt : (length pre + 4 <? length (pre ++ stride_res false a ++ flat_map (stride_res false) rest)) = true).
      { apply Nat.ltb_lt. rewrite !app_length, stride_res5_length. lia. }
      rewrite Hlt.
      replace (length pre + 4 - 1) with (length pre + 3) by lia.
      rewrite !rnth_app_r.
      assert (E3 : rnth 3 (stride_res false a ++ flat_map (stride_res false) rest) = new_result (q_or a queued_msg)) by reflexivity.
      assert (E4 : rnth 4 (stride_res false a ++ flat_map (stride_res false) rest)
                   = new_result (if aborted a then execabort_msg else arr [srv (pttl_cmd a); srv a])) by reflexivity.
      rewrite E3, E4, decode_exec_stride.
      assert (Ei : length pre + 4 + 5 = length (pre ++ stride_res false a) + 4)
        by (rewrite app_length, stride_res5_length; lia).
      rewrite app_assoc, Ei.
      destruct (scan j rs) as [j'|]; apply IH; lia.
  Qed.

  Lemma refill2_strides rest : forall pre j rs fuel,
    length rest < fuel ->
    refill2 fuel (pre ++ flat_map (stride_res true) rest) (length pre + 1) j rs
    = Ok (fill_seq (map dec2 rest) j rs).
  Proof.
    induction rest as [|a rest IH]; intros pre j rs fuel Hf.
    - destruct fuel; [cbn in Hf; lia|]. cbn [flat_map refill2 map fill_seq]. rewrite app_nil_r.
      destruct (Nat.ltb_spec (length pre + 1) (length pre)); [lia|reflexivity].
    - destruct fuel as [|fuel]; [cbn in Hf; lia|]. cbn [length] in Hf.
      cbn [flat_map refill2 map fill_seq].
      assert (Hlt : (length pre + 1 <? length (pre ++ stride_res true a ++ flat_map (stride_res true) rest)) = true).
      { apply Nat.ltb_lt. rewrite !app_length, stride_res2_length. lia. }
      rewrite Hlt. rewrite !rnth_app_r.
      assert (E1 : rnth 1 (stride_res true a ++ flat_map (stride_res true) rest) = dec2 a) by reflexivity.
      rewrite E1.
      assert (Ei : length pre + 1 + 2 = length (pre ++ stride_res true a) + 1)
        by (rewrite app_length, stride_res2_length; lia).
      rewrite app_assoc, Ei.
      destruct (scan j rs) as [j'|]; apply IH; lia.
  Qed.

  Lemma strides_fuel skip l : length l < S (length (flat_map (stride_res skip) l)).
  Proof.
    induction l as [|a l IH]; cbn [flat_map length]; [lia|].
    rewrite app_length. destruct skip; rewrite ?stride_res5_length, ?stride_res2_length; lia.
  Qed.

  (** what the reader commits and what the caller cancels, per miss *)
  Definition cancel5_of (a : argv) : list ((key * bytes) * err) :=
    if aborted a
    then [(cache_key a, abort_err (ERedis (trim_err (m_str execabort_msg))) (new_result (q_or a queued_msg)))]
    else [].
  Definition commit5_of (a : argv) : list ((key * bytes) * msg) :=
    if aborted a then [] else [(cache_key a, srv a)].

  Lemma cancels5_strides rest : forall prem pre fuel,
    length prem = length pre -> length rest < fuel ->
    cancels5 fuel (prem ++ flat_map (stride_cmds optin false) rest) (pre ++ flat_map (stride_res false) rest) (length pre + 4)
    = flat_map cancel5_of rest.
  Proof.
    induction rest as [|a rest IH]; intros prem pre fuel Hl Hf.
    - destruct fuel; [reflexivity|]. cbn [flat_map cancels5]. rewrite app_nil_r.
      destruct (Nat.ltb_spec (length pre + 4) (length pre)); [lia|reflexivity].
    - destruct fuel as [|fuel]; [cbn in Hf; lia|]. cbn [length] in Hf.
      cbn [flat_map cancels5].
      assert (Hlt : (length pre + 4 <? length (pre ++ stride_res false a ++ flat_map (stride_res false) rest)) = true).
      { apply Nat.ltb_lt. rewrite !app_length, stride_res5_length. lia. }
      rewrite Hlt.
      replace (length pre + 4 - 1) with (length pre + 3) by lia.
      rewrite !rnth_app_r.
      assert (E3 : rnth 3 (stride_res false a ++ flat_map (stride_res false) rest) = new_result (q_or a queued_msg)) by reflexivity.
      assert (E4 : rnth 4 (stride_res false a ++ flat_map (stride_res false) rest)
                   = new_result (if aborted a then execabort_msg else arr [srv (pttl_cmd a); srv a])) by reflexivity.
      assert (Ea : nth (length pre + 3) (prem ++ stride_cmds optin false a ++ flat_map (stride_cmds optin false) rest) [] = a)
        by (rewrite <- Hl, nth_app_r; reflexivity).
      rewrite E3, E4, Ea.
      assert (Ei : length pre + 4 + 5 = length (pre ++ stride_res false a) + 4)
        by (rewrite app_length, stride_res5_length; lia).
      rewrite !app_assoc, Ei.
      rewrite IH by (rewrite ?app_length, ?stride_res5_length, ?stride_cmds5_length; lia).
      unfold cancel5_of. destruct (aborted a); reflexivity.
  Qed.

  Lemma commits5_strides rest : forall prem pre fuel,
    length prem = length pre -> length rest < fuel ->
    reader_commits5 fuel (prem ++ flat_map (stride_cmds optin false) rest) (pre ++ flat_map (stride_res false) rest) (length pre + 4)
    = flat_map commit5_of rest.
  Proof.
    induction rest as [|a rest IH]; intros prem pre fuel Hl Hf.
    - destruct fuel; [reflexivity|]. cbn [flat_map reader_commits5]. rewrite app_nil_r.
      destruct (Nat.ltb_spec (length pre + 4) (length pre)); [lia|reflexivity].
    - destruct fuel as [|fuel]; [cbn in Hf; lia|]. cbn [length] in Hf.
      cbn [flat_map reader_commits5].
      assert (Hlt : (length pre + 4 <? length (pre ++ stride_res false a ++ flat_map (stride_res false) rest)) = true).
      { apply Nat.ltb_lt. rewrite !app_length, stride_res5_length. lia. }
      rewrite Hlt.
      replace (length pre + 4 - 1) with (length pre + 3) by lia.
      rewrite !rnth_app_r.
      assert (E4 : rnth 4 (stride_res false a ++ flat_map (stride_res false) rest)
                   = new_result (if aborted a then execabort_msg else arr [srv (pttl_cmd a); srv a])) by reflexivity.
      assert (Ea : nth (length pre + 3) (prem ++ stride_cmds optin false a ++ flat_map (stride_cmds optin false) rest) [] = a)
        by (rewrite <- Hl, nth_app_r; reflexivity).
      rewrite E4, Ea.
      assert (Ei : length pre + 4 + 5 = length (pre ++ stride_res false a) + 4)
        by (rewrite app_length, stride_res5_length; lia).
      rewrite !app_assoc, Ei.
      rewrite IH by (rewrite ?app_length, ?stride_res5_length, ?stride_cmds5_length; lia).
      unfold commit5_of. destruct (aborted a); reflexivity.
  Qed.

  Definition static_of (a : argv) : list ((key * bytes) * msg) * list ((key * bytes) * err) :=
    match msg_error (q_or a (srv a)) with
    | Some ENil | None => ([(cache_key a, q_or a (srv a))], [])
    | Some e => ([], [(cache_key a, e)])
    end.

  Lemma reader_static_strides rest : forall prem pre fuel,
    length prem = length pre -> length rest < fuel ->
    reader_static fuel (prem ++ flat_map (stride_cmds optin true) rest) (pre ++ flat_map (stride_res true) rest) (length pre + 1)
    = (flat_map (fun a => fst (static_of a)) rest, flat_map (fun a => snd (static_of a)) rest).
  Proof.
    induction rest as [|a rest IH]; intros prem pre fuel Hl Hf.
    - destruct fuel; [reflexivity|]. cbn [flat_map reader_static]. rewrite app_nil_r.
      destruct (Nat.ltb_spec (length pre + 1) (length pre)); [lia|reflexivity].
    - destruct fuel as [|fuel]; [cbn in Hf; lia|]. cbn [length] in Hf.
      cbn [flat_map reader_static].
      assert (Hlt : (length pre + 1 <? length (pre ++ stride_res true a ++ flat_map (stride_res true) rest)) = true).
      { apply Nat.ltb_lt. rewrite !app_length, stride_res2_length. lia. }
      rewrite Hlt.
      rewrite !rnth_app_r.
      assert (E1 : rnth 1 (stride_res true a ++ flat_map (stride_res true) rest) = dec2 a) by reflexivity.
      assert (Ea : nth (length pre + 1) (prem ++ stride_cmds optin true a ++ flat_map (stride_cmds optin true) rest) [] = a)
        by (rewrite <- Hl, nth_app_r; reflexivity).
      rewrite E1, Ea.
      assert (Ei : length pre + 1 + 2 = length (pre ++ stride_res true a) + 1)
        by (rewrite app_length, stride_res2_length; lia).
      rewrite !app_assoc, Ei.
      rewrite IH by (rewrite ?app_length, ?stride_res2_length, ?stride_cmds2_length; lia).
      unfold static_of, dec2. cbn [r_val new_result].
      destruct (msg_error (q_or a (srv a))) as [[]|]; reflexivity.
  Qed.

  Lemma refill5_strides0 rest j rs fuel :
    length rest < fuel ->
    refill5 fuel (flat_map (stride_res false) rest) 4 j rs = Ok (fill_seq (map dec5 rest) j rs).
  Proof. intro H. exact (refill5_strides rest [] j rs fuel H). Qed.

  Lemma refill2_strides0 rest j rs fuel :
    length rest < fuel ->
    refill2 fuel (flat_map (stride_res true) rest) 1 j rs = Ok (fill_seq (map dec2 rest) j rs).
  Proof. intro H. exact (refill2_strides rest [] j rs fuel H). Qed.

  Lemma cancels5_strides0 rest fuel :
    length rest < fuel ->
    cancels5 fuel (flat_map (stride_cmds optin false) rest) (flat_map (stride_res false) rest) 4 = flat_map cancel5_of rest.
  Proof. intro H. exact (cancels5_strides rest [] [] fuel eq_refl H). Qed.

  Lemma commits5_strides0 rest fuel :
    length rest < fuel ->
    reader_commits5 fuel (flat_map (stride_cmds optin false) rest) (flat_map (stride_res false) rest) 4 = flat_map commit5_of rest.
  Proof. intro H. exact (commits5_strides rest [] [] fuel eq_refl H). Qed.

  Lemma reader_static_strides0 rest fuel :
    length rest < fuel ->
    reader_static fuel (flat_map (stride_cmds optin true) rest) (flat_map (stride_res true) rest) 1
    = (flat_map (fun a => fst (static_of a)) rest, flat_map (fun a => snd (static_of a)) rest).
  Proof. intro H. exact (reader_static_strides rest [] [] fuel eq_refl H). Qed.

  (** ** waiters of flights created by this call *)

  (** among the missed commands, the cache key determines the command (the C08 identity) *)
  Definition ck_inj (l : list argv) : Prop :=
    forall a b, In a l -> In b l -> cache_key a = cache_key b -> a = b.

  Lemma assoc_ck_flat_none {B} (f : argv -> list ((key * bytes) * B)) l ck :
    (forall a, In a l -> cache_key a = ck -> f a = []) ->
    (forall a, In a l -> f a = [] \/ exists b, f a = [(cache_key a, b)]) ->
    assoc_ck ck (flat_map f l) = None.
  Proof.
    induction l as [|a l IH]; intros Hn Hshape; [reflexivity|].
    cbn [flat_map]. rewrite assoc_ck_app.
    destruct (Hshape a (or_introl eq_refl)) as [E|[b E]]; rewrite E; cbn [assoc_ck].
    - apply IH; intros; [apply Hn|apply Hshape]; auto using in_cons.
    - destruct (ck_eqb ck (cache_key a)) eqn:Eq.
      + apply ck_eqb_eq in Eq. rewrite (Hn a (or_introl eq_refl) (eq_sym Eq)) in E. discriminate.
      + apply IH; intros; [apply Hn|apply Hshape]; auto using in_cons.
  Qed.

  Lemma assoc_ck_flat_some {B} (f : argv -> list ((key * bytes) * B)) l a b :
    ck_inj l -> In a l -> f a = [(cache_key a, b)] ->
    (forall x, In x l -> f x = [] \/ exists y, f x = [(cache_key x, y)]) ->
    assoc_ck (cache_key a) (flat_map f l) = Some b.
  Proof.
    induction l as [|x l IH]; intros Hinj Hin Hfa Hshape; [destruct Hin|].
    cbn [flat_map]. rewrite assoc_ck_app.
    destruct (Hshape x (or_introl eq_refl)) as [E|[y E]]; rewrite E; cbn [assoc_ck].
    - destruct Hin as [->|Hin]; [congruence|].
      apply IH; auto using in_cons.
      intros p q Hp Hq. apply Hinj; now right.
    - destruct (ck_eqb (cache_key a) (cache_key x)) eqn:Eq.
      + apply ck_eqb_eq in Eq. assert (a = x) by (apply Hinj; auto using in_eq). subst x.
        rewrite Hfa in E. now inversion E.
      + destruct Hin as [->|Hin]; [rewrite ck_eqb_refl in Eq; discriminate|].
        apply IH; auto using in_cons.
        intros p q Hp Hq. apply Hinj; now right.
  Qed.

  Lemma wait_self5 l a :
    ck_inj l -> In a l ->
    wait_self (flat_map commit5_of l) (flat_map cancel5_of l) (cache_key a) = Some (dec5 a).
  Proof.
    intros Hinj Hin. unfold wait_self, dec5.
    assert (Sc : forall x, In x l -> cancel5_of x = [] \/ exists y, cancel5_of x = [(cache_key x, y)])
      by (intros x _; unfold cancel5_of; destruct (aborted x); eauto).
    assert (Sm : forall x, In x l -> commit5_of x = [] \/ exists y, commit5_of x = [(cache_key x, y)])
      by (intros x _; unfold commit5_of; destruct (aborted x); eauto).
    destruct (aborted a) eqn:Ea.
    - erewrite assoc_ck_flat_some; eauto. unfold cancel5_of. now rewrite Ea.
    - rewrite assoc_ck_flat_none; auto.
      + erewrite assoc_ck_flat_some; eauto. unfold commit5_of. now rewrite Ea.
      + intros x Hx Hk. assert (x = a) by (apply Hinj; auto). subst x. unfold cancel5_of. now rewrite Ea.
  Qed.

  (** the waiter's view of a static-TTL flight *)
  Definition wdec2 (a : argv) : rres :=
    match msg_error (q_or a (srv a)) with
    | Some ENil | None => new_result (q_or a (srv a))
    | Some e => new_error e
    end.

  Lemma wait_self2 l a :
    ck_inj l -> In a l ->
    wait_self (flat_map (fun a => fst (static_of a)) l) (flat_map (fun a => snd (static_of a)) l) (cache_key a)
    = Some (wdec2 a).
  Proof.
    intros Hinj Hin. unfold wait_self, wdec2.
    assert (Sc : forall x, In x l -> snd (static_of x) = [] \/ exists y, snd (static_of x) = [(cache_key x, y)])
      by (intros x _; unfold static_of; destruct (msg_error _) as [[]|]; cbn; eauto).
    assert (Sm : forall x, In x l -> fst (static_of x) = [] \/ exists y, fst (static_of x) = [(cache_key x, y)])
      by (intros x _; unfold static_of; destruct (msg_error _) as [[]|]; cbn; eauto).
    assert (Hcase : (snd (static_of a) = [] /\ fst (static_of a) = [(cache_key a, q_or a (srv a))]
                     /\ (msg_error (q_or a (srv a)) = None \/ msg_error (q_or a (srv a)) = Some ENil))
                    \/ (exists e, snd (static_of a) = [(cache_key a, e)] /\ msg_error (q_or a (srv a)) = Some e /\ e <> ENil)).
    { unfold static_of. destruct (msg_error (q_or a (srv a))) as [[]|]; cbn; eauto 8; right; eexists; repeat split; discriminate. }
    destruct Hcase as [(Hs & Hf & Hm)|(e & Hs & Hm & Hne)].
    - rewrite assoc_ck_flat_none; auto.
      + erewrite assoc_ck_flat_some; eauto. destruct Hm as [-> | ->]; reflexivity.
      + intros x Hx Hk. assert (x = a) by (apply Hinj; auto). now subst x.
    - erewrite assoc_ck_flat_some; eauto. rewrite Hm. destruct e; congruence.
  Qed.

  Lemma view_wdec2 a : view (wdec2 a) = view (dec2 a).
  Proof.
    unfold wdec2, dec2, view, res_error. cbn [r_err new_result r_val].
    destruct (msg_error (q_or a (srv a))) as [e|] eqn:E.
    - destruct e; cbn [new_error new_result r_err r_val]; rewrite ?E; reflexivity.
    - cbn [new_result r_err r_val]. now rewrite E.
  Qed.

  (** ** the waits *)

  Definition after_wait (w : item -> rres) (ki : kind * item) : rres :=
    match fst ki with
    | KHit v => new_result v
    | KWait r => r
    | KSelf _ => w (snd ki)
    | KMiss => zero_res
    end.

  Lemma do_waits_spec cm cn w (kis : list (kind * item)) : forall pre,
    (forall ck it, In (KSelf ck, it) kis -> wait_self cm cn ck = Some (w it)) ->
    do_waits cm cn (map (fun ki => k_entry (fst ki)) kis) (length pre) (pre ++ map (fun ki => k_res (fst ki)) kis)
    = Ok (pre ++ map (after_wait w) kis).
  Proof.
    induction kis as [|[k it] kis IH]; intros pre Hw; [reflexivity|].
    cbn [map fst k_entry k_res do_waits].
    assert (E1 : forall x : rres, S (length pre) = length (pre ++ [x])) by (intro; rewrite app_length; cbn; lia).
    assert (Hw' : forall ck it, In (KSelf ck, it) kis -> wait_self cm cn ck = Some (w it)) by (intros; apply Hw; now right).
    destruct k as [v|r|ck|]; cbn [k_entry k_res do_waits].
    - rewrite (E1 (new_result v)).
      change (pre ++ new_result v :: map (fun ki => k_res (fst ki)) kis) with (pre ++ [new_result v] ++ map (fun ki => k_res (fst ki)) kis).
      rewrite app_assoc, IH by assumption. now rewrite <- app_assoc.
    - rewrite upd_app_here, (E1 r).
      change (pre ++ r :: map (fun ki => k_res (fst ki)) kis) with (pre ++ [r] ++ map (fun ki => k_res (fst ki)) kis).
      rewrite app_assoc, IH by assumption. now rewrite <- app_assoc.
    - rewrite (Hw ck it (or_introl eq_refl)). rewrite upd_app_here, (E1 (w it)).
      change (pre ++ w it :: map (fun ki => k_res (fst ki)) kis) with (pre ++ [w it] ++ map (fun ki => k_res (fst ki)) kis).
      rewrite app_assoc, IH by assumption. now rewrite <- app_assoc.
    - rewrite (E1 zero_res).
      change (pre ++ zero_res :: map (fun ki => k_res (fst ki)) kis) with (pre ++ [zero_res] ++ map (fun ki => k_res (fst ki)) kis).
      rewrite app_assoc, IH by assumption. now rewrite <- app_assoc.
  Qed.

  Lemma do_waits_spec0 cm cn w (kis : list (kind * item)) :
    (forall ck it, In (KSelf ck, it) kis -> wait_self cm cn ck = Some (w it)) ->
    do_waits cm cn (map (fun ki => k_entry (fst ki)) kis) 0 (map (fun ki => k_res (fst ki)) kis)
    = Ok (map (after_wait w) kis).
  Proof. intro H. exact (do_waits_spec cm cn w kis [] H). Qed.

  (** ** assembling DoMultiCache *)

  Definition final (w dec : item -> rres) (ki : kind * item) : rres * bool :=
    match fst ki with
    | KMiss => (dec (snd ki), true)
    | _ => (after_wait w ki, false)
    end.

  Lemma blanked_final w dec kis : blanked (map (final w dec) kis) = map (after_wait w) kis.
  Proof.
    unfold blanked. rewrite map_map. apply map_ext. intros [k it]. destruct k; reflexivity.
  Qed.

  Lemma fills_final w dec : forall ks l, length ks = length l ->
    fills_of (map (final w dec) (combine ks l)) = map dec (k_items ks l).
  Proof.
    induction ks as [|k ks IH]; intros [|it l] Hl; try discriminate; [reflexivity|].
    injection Hl as Hl. unfold fills_of in *. cbn [combine map filter].
    destruct k; cbn [final fst snd filter map k_items]; try now apply IH.
    f_equal. now apply IH.
  Qed.

  Lemma strides_nil skip l : flat_map (stride_cmds optin skip) l = [] -> l = [].
  Proof. destruct l as [|a l]; [reflexivity|]. unfold stride_cmds. destruct skip; discriminate. Qed.

  Lemma no_miss_kis : forall ks l k it, k_items ks l = [] -> In (k, it) (combine ks l) -> k <> KMiss.
  Proof.
    induction ks as [|k0 ks IH]; intros [|x l] k it Hn Hin; cbn [combine] in Hin; try contradiction.
    destruct Hin as [E|Hin].
    - inversion E; subst. intros ->. discriminate.
    - destruct k0; cbn [k_items] in Hn; try discriminate; eapply IH; eauto.
  Qed.

  Lemma map_fst_combine {A B} (l1 : list A) (l2 : list B) : length l1 = length l2 -> map fst (combine l1 l2) = l1.
  Proof. revert l2; induction l1; intros [|] H; try discriminate; cbn; [reflexivity|]. f_equal. auto. Qed.

  Lemma positional_aux skip ms : forall kl l,
    Forall2 (kind_ok [] ms) kl l -> Forall (fun it => not_tx (it_argv it)) l ->
    Forall2 (fun r it => exists r', expected lookup srv qerr optin skip it = Ok r' /\ view r = view r')
      (map (fun ki => fst (final (fun it => if skip then wdec2 (it_argv it) else dec5 (it_argv it))
                                 (fun it => if skip then dec2 (it_argv it) else dec5 (it_argv it)) ki)) (combine kl l)) l.
  Proof.
    induction 1 as [|k it kl l Hk _ IH]; intro Htx; cbn [combine map]; [constructor|].
    inversion Htx as [|? ? Hit Htx']; subst.
    constructor; [|now apply IH].
    unfold expected. destruct (cache_key (it_argv it)) as [kk cc] eqn:Eck. cbn [fst snd] in *.
    destruct Hk as [v it Hl|r it Hl|it Hl _|it Hl _]; rewrite Eck in Hl; cbn [fst snd] in Hl; rewrite Hl;
      cbn [final fst snd after_wait].
    - eauto.
    - eauto.
    - destruct skip; [rewrite single_miss2 by assumption|rewrite single_miss5 by assumption]; eauto.
    - destruct skip; [rewrite single_miss2 by assumption; eexists; split; [reflexivity|apply view_wdec2]
                     |rewrite single_miss5 by assumption; eauto].
  Qed.

  Lemma positional_exact_aux ms : forall kl l,
    Forall2 (kind_ok [] ms) kl l -> Forall (fun it => not_tx (it_argv it)) l ->
    Forall2 (fun r it => expected lookup srv qerr optin false it = Ok r)
      (map (fun ki => fst (final (fun it => dec5 (it_argv it)) (fun it => dec5 (it_argv it)) ki)) (combine kl l)) l.
  Proof.
    induction 1 as [|k it kl l Hk _ IH]; intro Htx; cbn [combine map]; [constructor|].
    inversion Htx as [|? ? Hit Htx']; subst.
    constructor; [|now apply IH].
    unfold expected. destruct (cache_key (it_argv it)) as [kk cc] eqn:Eck. cbn [fst snd] in *.
    destruct Hk as [v it Hl|r it Hl|it Hl _|it Hl _]; rewrite Eck in Hl; cbn [fst snd] in Hl; rewrite Hl;
      cbn [final fst snd after_wait]; try reflexivity; now rewrite single_miss5.
  Qed.

  Section Assemble.
    Variable use_lru : bool.
    Variable batch : list item.
    Hypothesis Hne : batch <> [].
    Hypothesis Hmget : existsb it_mget batch = false.
    Hypothesis Htx : Forall (fun it => not_tx (it_argv it)) batch.
    (** equal cache keys within the batch mean equal commands (the C08 identity) *)
    Hypothesis Hinj : ck_inj (map it_argv batch).
    (** replies that the decoder can produce carry a type byte; a woken waiter has a value or an error *)
    Hypothesis Hhit : forall k c v, lookup k c = LHit v -> m_typ v <> 0%N.
    Hypothesis Hwait : forall k c r, lookup k c = LWait r -> filled r.
    Hypothesis Hsrv : forall a, m_typ (srv a) <> 0%N.
    Hypothesis Hqerr : forall a e, qerr a = Some e -> m_typ e <> 0%N.

    Let ks := klist [] batch.
    Let kis := combine ks batch.
    Let skip := forallb it_static batch.
    Let margs := map it_argv (k_items ks batch).

    Lemma ks_len : length ks = length batch.
    Proof. apply klist_length. Qed.

    Lemma k_items_incl : forall ks0 l x, In x (k_items ks0 l) -> In x l.
    Proof.
      induction ks0 as [|k ks0 IH]; intros [|it l] x H; cbn in H; try contradiction.
      - destruct k; contradiction.
      - destruct k; try (right; now apply IH). destruct H as [<-|H]; [now left|right; now apply IH].
    Qed.

    Lemma margs_tx : Forall not_tx margs.
    Proof.
      unfold margs. apply Forall_forall. intros a Ha. apply in_map_iff in Ha as [it [<- Hit]].
      apply k_items_incl in Hit. rewrite Forall_forall in Htx. now apply Htx.
    Qed.

    Lemma margs_inj : ck_inj margs.
    Proof.
      intros a b Ha Hb. apply Hinj; unfold margs in *;
        [apply in_map_iff in Ha as [it [<- Hit]]|apply in_map_iff in Hb as [it [<- Hit]]];
        apply in_map, (k_items_incl _ _ _ Hit).
    Qed.

    Lemma missing_eq :
      flat_map (fun i => stride_cmds optin skip (it_argv (nth i batch no_item))) (k_missed 0 ks)
      = flat_map (stride_cmds optin skip) margs.
    Proof.
      unfold margs, ks.
      pose proof (k_missed_items batch [] [] no_item) as H. cbn [app length] in H. rewrite <- H.
      now rewrite !flat_map_map.
    Qed.

    Lemma dec_filled5 a : filled (dec5 a).
    Proof. unfold dec5. destruct (aborted a); [apply filled_new_error|apply filled_new_result, Hsrv]. Qed.

    Lemma q_or_typ a d : m_typ d <> 0%N -> m_typ (q_or a d) <> 0%N.
    Proof. unfold q_or. destruct (qerr a) eqn:E; [intros _; eapply Hqerr; eauto|auto]. Qed.

    Lemma dec_filled2 a : filled (dec2 a).
    Proof. apply filled_new_result, q_or_typ, Hsrv. Qed.

    Lemma wdec_filled2 a : filled (wdec2 a).
    Proof.
      unfold wdec2. destruct (msg_error _) as [[]|]; try apply filled_new_error; apply filled_new_result, q_or_typ, Hsrv.
    Qed.

    (** a waiter of this call's own flight finds its command among the misses *)
    Lemma self_in_margs ck it : In (KSelf ck, it) kis -> ck = cache_key (it_argv it) /\ In (it_argv it) margs.
    Proof.
      intro Hin. pose proof (klist_sound batch [] (fun _ H => match H with end)) as Hs.
      fold ks in Hs.
      assert (Hk : kind_ok [] (k_items ks batch) (KSelf ck) it) by (eapply Forall2_combine_in; eauto).
      inversion Hk as [| | |it0 Hl Hor]; subst. split; [reflexivity|].
      destruct Hor as [[]|[it' [Hi He]]].
      assert (Hin' : In (it_argv it') margs) by (unfold margs; now apply in_map).
      assert (In it batch).
      { clear -Hin. unfold kis in Hin. apply in_combine_r in Hin. exact Hin. }
      replace (it_argv it) with (it_argv it'); [assumption|].
      apply Hinj; [apply in_map, (k_items_incl _ _ _ Hi)|now apply in_map|assumption].
    Qed.

    Lemma all_filled (w dec : item -> rres) :
      (forall it, filled (w it)) -> (forall it, filled (dec it)) ->
      Forall (fun xb : rres * bool => filled (fst xb)) (map (final w dec) kis).
    Proof.
      intros Hw Hd. apply Forall_forall. intros xb Hxb. apply in_map_iff in Hxb as [[k it] [<- Hin]].
      pose proof (klist_sound batch [] (fun _ H => match H with end)) as Hs. fold ks in Hs.
      assert (Hk : kind_ok [] (k_items ks batch) k it) by (eapply Forall2_combine_in; eauto).
      destruct Hk; cbn [final fst snd after_wait].
      - apply filled_new_result. eapply Hhit; eauto.
      - eapply Hwait; eauto.
      - apply Hd.
      - apply Hw.
    Qed.

    Theorem do_multi_cache_spec :
      do_multi_cache lookup srv qerr optin use_lru batch
      = Ok (map (fun ki => fst (final (fun it => if skip then wdec2 (it_argv it) else dec5 (it_argv it))
                                      (fun it => if skip then dec2 (it_argv it) else dec5 (it_argv it)) ki)) kis).
    Proof.
      unfold do_multi_cache. rewrite match_nonempty by assumption.
      rewrite Hmget.
      assert (Est : (if use_lru then flights_lru lookup batch else flights_seq lookup batch) = spec_state batch)
        by (destruct use_lru; [apply flights_lru_spec|apply flights_seq_spec]).
      rewrite Est. unfold spec_state. fold ks. cbn [f_missed f_entries f_results].
      fold skip. rewrite missing_eq.
      rewrite redis_wire_strides by apply margs_tx.
      assert (Hfuel : forall sk, length margs < S (length (flat_map (stride_res sk) margs))) by (intro; apply strides_fuel).
      assert (Ere : map k_res ks = map (fun ki : kind * item => k_res (fst ki)) kis).
      { unfold kis. symmetry. apply map_combine_fst, ks_len. }
      assert (Een : map k_entry ks = map (fun ki : kind * item => k_entry (fst ki)) kis).
      { unfold kis. symmetry. apply map_combine_fst, ks_len. }
      rewrite Ere, Een.
      destruct skip eqn:Eskip.
      - (* static TTL: stride 2 *)
        rewrite (reader_static_strides0 margs _ (Hfuel true)). cbn [fst snd].
        rewrite (do_waits_spec0 _ _ (fun it => wdec2 (it_argv it)) kis).
        2:{ intros ck it Hin. destruct (self_in_margs ck it Hin) as [-> Hm]. apply wait_self2; [apply margs_inj|assumption]. }
        cbn [app].
        destruct (flat_map (stride_cmds optin true) margs) eqn:Emiss.
        + (* nothing missed *)
          assert (Hm : margs = []) by (eapply strides_nil; eauto).
          unfold margs in Hm. apply map_eq_nil in Hm.
          f_equal. apply map_ext_in. intros [k it] Hin. pose proof (no_miss_kis _ _ _ _ Hm Hin).
          destruct k; try reflexivity; congruence.
        + idtac.
          rewrite (refill2_strides0 margs 0 _ _ (Hfuel true)).
          rewrite <- (blanked_final (fun it => wdec2 (it_argv it)) (fun it => dec2 (it_argv it)) kis).
          replace (map dec2 margs) with (fills_of (map (final (fun it => wdec2 (it_argv it)) (fun it => dec2 (it_argv it))) kis)).
          2:{ unfold kis. rewrite fills_final by apply ks_len. unfold margs. now rewrite map_map. }
          rewrite fill_seq_blanked0.
          2:{ apply all_filled; intros; [apply wdec_filled2|apply dec_filled2]. }
          now rewrite map_map.
      - (* MULTI / PTTL / cmd / EXEC: stride 5 *)
        cbn [fst snd].
        rewrite (commits5_strides0 margs _ (Hfuel false)).
        rewrite (cancels5_strides0 margs _ (Hfuel false)).
        rewrite (do_waits_spec0 _ _ (fun it => dec5 (it_argv it)) kis).
        2:{ intros ck it Hin. destruct (self_in_margs ck it Hin) as [-> Hm]. apply wait_self5; [apply margs_inj|assumption]. }
        cbn [app].
        destruct (flat_map (stride_cmds optin false) margs) eqn:Emiss.
        + assert (Hm : margs = []) by (eapply strides_nil; eauto).
          unfold margs in Hm. apply map_eq_nil in Hm.
          f_equal. apply map_ext_in. intros [k it] Hin. pose proof (no_miss_kis _ _ _ _ Hm Hin).
          destruct k; try reflexivity; congruence.
        + idtac.
          rewrite (refill5_strides0 margs 0 _ _ (Hfuel false)).
          rewrite <- (blanked_final (fun it => dec5 (it_argv it)) (fun it => dec5 (it_argv it)) kis).
          replace (map dec5 margs) with (fills_of (map (final (fun it => dec5 (it_argv it)) (fun it => dec5 (it_argv it))) kis)).
          2:{ unfold kis. rewrite fills_final by apply ks_len. unfold margs. now rewrite map_map. }
          rewrite fill_seq_blanked0.
          2:{ apply all_filled; intros; apply dec_filled5. }
          now rewrite map_map.
    Qed.

    (** position by position, the batch returns what each command alone would be answered *)
    Theorem do_multi_cache_positional :
      exists rs, do_multi_cache lookup srv qerr optin use_lru batch = Ok rs /\
        Forall2 (fun r it => exists r', expected lookup srv qerr optin skip it = Ok r' /\ view r = view r') rs batch.
    Proof.
      eexists. split; [apply do_multi_cache_spec|].
      pose proof (klist_sound batch [] (fun _ H => match H with end)) as Hs. fold ks in Hs.
      unfold kis. eapply positional_aux; eauto.
    Qed.

    (** without static TTLs the results are literally those values *)
    Theorem do_multi_cache_positional_exact :
      skip = false ->
      exists rs, do_multi_cache lookup srv qerr optin use_lru batch = Ok rs /\
        Forall2 (fun r it => expected lookup srv qerr optin false it = Ok r) rs batch.
    Proof.
      intro Hskip. eexists. split; [apply do_multi_cache_spec|].
      pose proof (klist_sound batch [] (fun _ H => match H with end)) as Hs. fold ks in Hs.
      unfold kis. rewrite Hskip. eapply positional_exact_aux; eauto.
    Qed.
  End Assemble.
End Multi.
