(** Top-level lemmas behind Props/C11.v: index form, per-connection instantiation of the regrouping theorems. *)
From Coq Require Import String Ascii.
From Coq Require Import List Arith NArith ZArith Bool Lia.
Require Import RV.Model.Base RV.Model.CacheBatch.
Require Import RV.Proofs.CacheBatchBase RV.Proofs.CacheBatchMulti RV.Proofs.CacheBatchMGet
               RV.Proofs.CacheBatchRoute RV.Proofs.CacheBatchHelper RV.Proofs.CacheBatchAsk.
Import ListNotations.
Open Scope nat_scope.

Lemma Forall2_len {A B} (R : A -> B -> Prop) l1 l2 : Forall2 R l1 l2 -> length l1 = length l2.
Proof. induction 1; cbn; auto. Qed.

Lemma Forall2_nth {A B} (R : A -> B -> Prop) l1 l2 d1 d2 :
  Forall2 R l1 l2 -> forall i, i < length l2 -> R (nth i l1 d1) (nth i l2 d2).
Proof.
  induction 1 as [|a b l1 l2 Hab _ IH]; intros i Hi; [cbn in Hi; lia|].
  destruct i as [|i]; [exact Hab|]. cbn [nth]. apply IH. cbn in Hi. lia.
Qed.

(** the same by index *)
Lemma positional_nth :
  forall lookup srv qerr optin use_lru batch,
    batch <> [] -> existsb it_mget batch = false ->
    Forall (fun it => not_tx (it_argv it)) batch -> ck_inj (map it_argv batch) ->
    (forall k c v, lookup k c = LHit v -> m_typ v <> 0%N) ->
    (forall k c r, lookup k c = LWait r -> filled r) ->
    (forall a, m_typ (srv a) <> 0%N) ->
    (forall a e, qerr a = Some e -> m_typ e <> 0%N) ->
    exists rs, do_multi_cache lookup srv qerr optin use_lru batch = Ok rs /\ length rs = length batch /\
      forall i, i < length batch -> exists r',
        expected lookup srv qerr optin (forallb it_static batch) (nth i batch no_item) = Ok r' /\
        view (nth i rs zero_res) = view r'.
Proof.
  intros lookup srv qerr optin use_lru batch H1 H2 H3 H4 H5 H6 H7 H8.
  destruct (do_multi_cache_positional lookup srv qerr optin use_lru batch H1 H2 H3 H4 H5 H6 H7 H8) as (rs & Hr & Hf).
  exists rs. split; [assumption|]. split; [eapply Forall2_len; eauto|].
  intros i Hi. exact (Forall2_nth _ _ _ zero_res no_item Hf i Hi).
Qed.

(** two-word commands (GET k, the only shape MGetCache sends) have injective cache keys *)
Lemma ck_inj_two_words : forall l : list argv, Forall (fun a => length a = 2) l -> ck_inj l.
Proof.
  intros l Hl a b Ha Hb E. rewrite Forall_forall in Hl.
  pose proof (Hl a Ha) as La. pose proof (Hl b Hb) as Lb.
  destruct a as [|a1 [|a2 [|]]]; try discriminate. destruct b as [|b1 [|b2 [|]]]; try discriminate.
  cbn in E. now inversion E.
Qed.

(** the identity behind mux / cluster batching, for any grouping function, any number of groups and any
    processing order that covers them: if every group is answered elementwise by [f], so is the batch *)
Lemma scatter_gather :
  forall (group_of : item -> N) (f : item -> rres) (batch : list item) (order : list N),
    (forall g, In g (distinct_groups (map group_of batch) []) -> In g order) ->
    match fill_buckets group_of batch with
    | Ok bks => run_buckets (fun _ cmds => Ok (map f cmds)) order bks (repeat_n zero_res (length batch))
    | _ => Panic
    end = Ok (map f batch).
Proof.
  intros group_of f batch order Hcover. rewrite fill_buckets_spec.
  destruct (run_buckets_positional (fun _ cmds => Ok (map f cmds)) group_of batch (fun _ r it => r = f it)) with (order := order)
    as (rs & Hr & Hf); [|assumption|].
  - intros g cmds _ _. eexists. split; [reflexivity|]. induction cmds; constructor; auto.
  - rewrite Hr. f_equal. clear -Hf. induction Hf as [|r it rs l -> _ IH]; cbn; congruence.
Qed.

Lemma flights_agree : forall lookup batch, flights_lru lookup batch = flights_seq lookup batch.
Proof. intros. now rewrite flights_lru_spec, flights_seq_spec. Qed.

Lemma helper_keys :
  forall (f : key -> msg) (keys : list key) (resps : list rres),
    Forall2 (fun k r => r_err r = None /\ r_val r = f k) keys resps ->
    exists m, helper_do_multi_cache keys resps [] = Ok (inl m) /\
      (forall k, In k keys -> kv_get k m = Some (f k)) /\
      (forall k, ~ In k keys -> kv_get k m = None).
Proof. intros f keys resps H. exact (helper_do_multi_cache_spec f keys resps [] H). Qed.

Section PerConn.
  (** one cache store per wire / connection *)
  Variable lookup_of : N -> key -> bytes -> lk.
  Variable srv_of : N -> argv -> msg.
  Variable qerr_of : N -> argv -> option msg.
  Variable optin use_lru : bool.
  Variable batch : list item.

  Hypothesis Hne : batch <> [].
  Hypothesis Hmget : existsb it_mget batch = false.
  Hypothesis Htx : Forall (fun it => not_tx (it_argv it)) batch.
  Hypothesis Hinj : ck_inj (map it_argv batch).
  Hypothesis Hhit : forall w k c v, lookup_of w k c = LHit v -> m_typ v <> 0%N.
  Hypothesis Hwait : forall w k c r, lookup_of w k c = LWait r -> filled r.
  Hypothesis Hsrv : forall w a, m_typ (srv_of w a) <> 0%N.
  Hypothesis Hqerr : forall w a e, qerr_of w a = Some e -> m_typ e <> 0%N.

  Definition conn_do (w : N) (items : list item) : result (list rres) :=
    do_multi_cache (lookup_of w) (srv_of w) (qerr_of w) optin use_lru items.

  (** [r] is what connection [w] alone answers to [it] (in one of the two wire shapes) *)
  Definition answers (w : N) (r : rres) (it : item) : Prop :=
    exists sk r', expected (lookup_of w) (srv_of w) (qerr_of w) optin sk it = Ok r' /\ view r = view r'.

  Lemma conn_do_sub w cmds :
    cmds <> [] -> (forall it, In it cmds -> In it batch) ->
    exists resp, conn_do w cmds = Ok resp /\ Forall2 (answers w) resp cmds.
  Proof.
    intros Hc Hsub. unfold conn_do.
    assert (A2 : existsb it_mget cmds = false).
    { apply not_true_is_false. intro Hex. apply existsb_exists in Hex as [it [Hit Hm]].
      assert (existsb it_mget batch = true) by (apply existsb_exists; exists it; auto). congruence. }
    assert (A3 : Forall (fun it => not_tx (it_argv it)) cmds).
    { apply Forall_forall. intros it Hit. rewrite Forall_forall in Htx. auto. }
    assert (A4 : ck_inj (map it_argv cmds)).
    { intros a b Ha Hb. apply Hinj; [apply in_map_iff in Ha as [x [<- Hx]]|apply in_map_iff in Hb as [x [<- Hx]]]; apply in_map; auto. }
    destruct (do_multi_cache_positional (lookup_of w) (srv_of w) (qerr_of w) optin use_lru cmds Hc A2 A3 A4
                (Hhit w) (Hwait w) (Hsrv w) (Hqerr w)) as (rs & Hr & Hf).
    exists rs. split; [assumption|]. eapply Forall2_imp; [|exact Hf].
    intros r it (r' & He & Hv). exists (forallb it_static cmds), r'. auto.
  Qed.

  (** mux.DoMultiCache (PipelineMultiplex): any number of wires, any slot assignment, any order in which
      the per-wire batches complete *)
  Theorem mux_positional :
    forall (nwires : N) (slot_of : item -> N) (order : list N),
      let g := fun it => N.land (slot_of it) (nwires - 1) in
      (forall w, In w (distinct_groups (map g batch) []) -> In w order) ->
      exists rs, mux_do_multi_cache conn_do nwires slot_of order batch = Ok rs /\
        Forall2 (fun r it => answers (g it) r it) rs batch.
  Proof.
    intros nwires slot_of order g Hcover.
    apply mux_do_multi_cache_positional with (P := answers); auto.
    intros w cmds Hc Hsub. apply conn_do_sub; [assumption|]. intros it Hit. now apply Hsub.
  Qed.

  (** the ASK path on connection [c] *)
  Definition asking_do (c : N) (items : list item) : result (list rres) :=
    asking_multi_cache (srv_of c) (qerr_of c) optin items.

  (** [r] is what connection [c] answers to [it], directly (through its cache) or after ASKING *)
  Definition answers_or_asked (c : N) (r : rres) (it : item) : Prop :=
    answers c r it \/ exists sk, r = ask_one (srv_of c) (qerr_of c) sk (it_argv it).

  Lemma asking_do_sub c cmds :
    (forall it, In it cmds -> In it batch) ->
    exists resp, asking_do c cmds = Ok resp /\ Forall2 (answers_or_asked c) resp cmds.
  Proof.
    intro Hsub. unfold asking_do.
    assert (A3 : Forall (fun it => not_tx (it_argv it)) cmds).
    { apply Forall_forall. intros it Hit. rewrite Forall_forall in Htx. auto. }
    rewrite asking_multi_cache_spec by assumption. eexists. split; [reflexivity|].
    generalize (forallb it_static cmds) as sk. intro sk. clear. induction cmds as [|it l IH]; cbn [map]; constructor; [|exact IH].
    right. exists sk. reflexivity.
  Qed.

  (** cluster.DoMultiCache: any slot -> connection map, any MOVED / ASK redirections, any map iteration
      orders: a call that returns has at every position an answer to that position's command. *)
  Theorem cluster_positional :
    forall (conn_of : item -> option N) (redirect_of : rres -> redirect) (fuel : nat) (orders : list (list N))
           (maxredir : nat) (rs : list rres),
      (forall g, In g (distinct_groups (map (cl_group conn_of) batch) []) ->
                 In g (match orders with o :: _ => o | [] => distinct_groups (map (cl_group conn_of) batch) [] end)) ->
      cluster_do_multi_cache conn_of conn_do asking_do redirect_of fuel orders maxredir batch = Ok (inl rs) ->
      Forall2 (fun r it => exists c, answers_or_asked c r it) rs batch.
  Proof.
    intros conn_of redirect_of fuel orders maxredir rs Hcover Hrun.
    eapply cluster_do_multi_cache_positional with (R := answers_or_asked) (conn_do := conn_do) (asking_do := asking_do);
      [| |exact Hcover|exact Hrun].
    - intros c cmds Hc Hsub. destruct (conn_do_sub c cmds Hc Hsub) as (resp & Hd & Hf). exists resp. split; [assumption|].
      eapply Forall2_imp; [|exact Hf]. intros r it H. now left.
    - intros c cmds _ Hsub. now apply asking_do_sub.
  Qed.
End PerConn.

(** what [expected] is when the server accepts the command: literally the server's reply to it *)
Lemma expected_miss_is_server_reply lookup srv qerr optin skip it :
  not_tx (it_argv it) ->
  lookup (fst (cache_key (it_argv it))) (snd (cache_key (it_argv it))) = LMiss ->
  qerr (it_argv it) = None -> qerr (pttl_cmd (it_argv it)) = None ->
  expected lookup srv qerr optin skip it = Ok (new_result (srv (it_argv it))).
Proof.
  intros Htx Hl Hq Hp. unfold expected. destruct (cache_key (it_argv it)) as [k c] eqn:E. cbn [fst snd] in Hl. rewrite Hl.
  destruct skip.
  - rewrite single_miss2 by assumption. unfold dec2, q_or. now rewrite Hq.
  - rewrite single_miss5 by assumption. unfold dec5, aborted, rejected. now rewrite Hp, Hq.
Qed.

(** MGetCache end to end: DoMultiCache over [GET k] commands followed by helper doMultiCache *)
Definition get_item (k : key) : item := mkItem [bs "GET"; k] false false.

Lemma Forall2_map_l {A B C} (R : A -> B -> Prop) (f : C -> A) l1 l2 :
  Forall2 (fun c b => R (f c) b) l1 l2 -> Forall2 R (map f l1) l2.
Proof. induction 1; cbn; constructor; auto. Qed.

Lemma Forall2_map_r_inv {A B C} (R : A -> B -> Prop) (f : C -> B) l1 l2 :
  Forall2 R l1 (map f l2) -> Forall2 (fun a c => R a (f c)) l1 l2.
Proof. revert l1; induction l2 as [|c l2 IH]; intros l1 H; inversion H; subst; constructor; auto. Qed.

Lemma Forall2_swap {A B} (R : A -> B -> Prop) l1 l2 : Forall2 R l1 l2 -> Forall2 (fun b a => R a b) l2 l1.
Proof. induction 1; constructor; auto. Qed.

Theorem mget_cache_end_to_end lookup srv qerr optin use_lru (keys : list key) :
  keys <> [] ->
  (forall k c v, lookup k c = LHit v -> m_typ v <> 0%N) ->
  (forall k c r, lookup k c = LWait r -> filled r) ->
  (forall a, m_typ (srv a) <> 0%N) ->
  (forall a e, qerr a = Some e -> m_typ e <> 0%N) ->
  (* no position fails at the transport / abort level *)
  (forall k, In k keys -> exists r, expected lookup srv qerr optin false (get_item k) = Ok r /\ r_err r = None) ->
  exists rs m,
    do_multi_cache lookup srv qerr optin use_lru (map get_item keys) = Ok rs /\
    helper_do_multi_cache keys rs [] = Ok (inl m) /\
    (forall k, In k keys -> exists r, expected lookup srv qerr optin false (get_item k) = Ok r /\ kv_get k m = Some (r_val r)) /\
    (forall k, ~ In k keys -> kv_get k m = None).
Proof.
  intros Hne Hhit Hwait Hsrv Hqerr Hok.
  set (batch := map get_item keys).
  assert (Bne : batch <> []) by (unfold batch; destruct keys; [contradiction|discriminate]).
  assert (Bm : existsb it_mget batch = false).
  { unfold batch. clear. induction keys; cbn; auto. }
  assert (Btx : Forall (fun it => not_tx (it_argv it)) batch).
  { unfold batch. apply Forall_forall. intros it Hit. apply in_map_iff in Hit as [k [<- _]]. split; reflexivity. }
  assert (Binj : ck_inj (map it_argv batch)).
  { apply ck_inj_two_words. unfold batch. rewrite map_map. apply Forall_forall. intros a Ha. apply in_map_iff in Ha as [k [<- _]]. reflexivity. }
  assert (Bst : forallb it_static batch = false).
  { unfold batch. destruct keys; [contradiction|reflexivity]. }
  destruct (do_multi_cache_positional_exact lookup srv qerr optin use_lru batch Bne Bm Btx Binj Hhit Hwait Hsrv Hqerr Bst)
    as (rs & Hrs & Hf).
  set (f := fun k => match expected lookup srv qerr optin false (get_item k) with Ok r => r_val r | _ => zero_msg end).
  assert (Hf2 : Forall2 (fun k r => r_err r = None /\ r_val r = f k) keys rs).
  { apply Forall2_swap. unfold batch in Hf. apply Forall2_map_r_inv in Hf. apply Forall2_with_in in Hf.
    eapply Forall2_imp; [|exact Hf]. intros r k [Hin Hr]. cbn beta in Hr.
    destruct (Hok k Hin) as (r' & He & Hn). rewrite He in Hr. injection Hr as <-.
    split; [assumption|]. unfold f. now rewrite He. }
  destruct (helper_do_multi_cache_spec f keys rs [] Hf2) as (m & Hm & H1 & H2).
  exists rs, m. split; [assumption|]. split; [assumption|]. split; [|assumption].
  intros k Hk. destruct (Hok k Hk) as (r & He & Hn). exists r. split; [assumption|]. rewrite H1 by assumption. unfold f. now rewrite He.
Qed.
