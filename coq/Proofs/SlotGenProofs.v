(** The finite obligation over the table regenerated from internal/cmds/slot.go (re-proved by the
    kernel on every run): each of the 256 entries is the bitwise CRC16-XMODEM of its index. *)
From Coq Require Import List NArith Bool.
Require Import RV.Model.Base RV.Model.Slot RV.Gen.Crc16Tab RV.Proofs.SlotProofs.
Open Scope N_scope.

Lemma gen_table_okb : table_okb crc16tab = true.
Proof. vm_compute. reflexivity. Qed.

Lemma gen_table_ok : table_ok crc16tab.
Proof. apply table_okb_ok, gen_table_okb. Qed.
