(** The reader abstraction: programs compose ([run_bind]); the chunked reader computes what the flat
    reader computes on the concatenation of the chunks, for every operation and hence for every
    program (this is what makes decoding independent of how the stream is split across reads). *)
From Coq Require Import List Arith NArith ZArith Bool Lia ZifyN ZifyNat ZifyBool.
Require Import RV.Model.Base RV.Model.RespIO.
Import ListNotations.
Open Scope N_scope.

(** * programs compose *)

Lemma run_bind {A C} B (p : prog A) (f : A -> prog C) : forall s al,
  run B (bind p f) s al = let '(a, s', al') := run B p s al in run B (f a) s' al'.
Proof.
  induction p as [a|o k IH]; intros s al; cbn [bind run]; [reflexivity|].
  destruct (flat_step B o s) as [r s']. apply IH.
Qed.

Lemma run_chunked_bind {A C} B (p : prog A) (f : A -> prog C) : forall st al,
  run_chunked B (bind p f) st al = let '(a, st', al') := run_chunked B p st al in run_chunked B (f a) st' al'.
Proof.
  induction p as [a|o k IH]; intros st al; cbn [bind run_chunked]; [reflexivity|].
  destruct (chunk_step B o st) as [r st']. apply IH.
Qed.

Lemma run_bindr_ok {A C} B (p : prog (result A)) (f : A -> prog (result C)) s al a s' al' :
  run B p s al = (Ok a, s', al') -> run B (bindr p f) s al = run B (f a) s' al'.
Proof. intros H. unfold bindr. rewrite run_bind, H. reflexivity. Qed.

Lemma run_bindr_err {A C} B (p : prog (result A)) (f : A -> prog (result C)) s al e s' al' :
  run B p s al = (Err e, s', al') -> run B (bindr p f) s al = (Err e, s', al').
Proof. intros H. unfold bindr. rewrite run_bind, H. reflexivity. Qed.

Lemma run_bindr_panic {A C} B (p : prog (result A)) (f : A -> prog (result C)) s al s' al' :
  run B p s al = (Panic, s', al') -> run B (bindr p f) s al = (Panic, s', al').
Proof. intros H. unfold bindr. rewrite run_bind, H. reflexivity. Qed.

Lemma run_do_op B o s al : run B (do_op o) s al = (fst (flat_step B o s), snd (flat_step B o s), meter o al).
Proof. unfold do_op. cbn [run]. destruct (flat_step B o s); reflexivity. Qed.

Lemma run_alloc B n s al : run B (alloc n) s al = (tt, s, al + n).
Proof. reflexivity. Qed.

(** * the chunked reader refines the flat reader *)

Lemma blen_app (a b : bytes) : blen (a ++ b) = blen a + blen b.
Proof. unfold blen. rewrite app_length. lia. Qed.

Lemma flat_cons buf c cs : flat (buf ++ c, cs) = flat (buf, c :: cs).
Proof. unfold flat. cbn [fst snd concat]. now rewrite app_assoc. Qed.

Lemma ensure_flat n : forall chunks buf, flat (ensure n buf chunks) = flat (buf, chunks).
Proof.
  induction chunks as [|c cs IH]; intros buf; cbn [ensure].
  - destruct (n <=? blen buf); reflexivity.
  - destruct (n <=? blen buf); [reflexivity|]. rewrite IH. apply flat_cons.
Qed.

(** after [ensure n]: n bytes are buffered, or nothing more will arrive *)
Lemma ensure_spec n : forall chunks buf,
  let st := ensure n buf chunks in n <= blen (fst st) \/ snd st = [].
Proof.
  induction chunks as [|c cs IH]; intros buf; cbn [ensure].
  - destruct (N.leb_spec n (blen buf)); cbn; auto.
  - destruct (N.leb_spec n (blen buf)); cbn [fst snd]; [auto|]. apply IH.
Qed.

Lemma ensure_lf_flat limit : forall chunks buf, flat (ensure_lf limit buf chunks) = flat (buf, chunks).
Proof.
  induction chunks as [|c cs IH]; intros buf; cbn [ensure_lf].
  - destruct (find_lf _); [reflexivity|]. destruct (match limit with Some B => _ | None => false end); reflexivity.
  - destruct (find_lf _); [reflexivity|]. destruct (match limit with Some B => _ | None => false end); [reflexivity|].
    rewrite IH. apply flat_cons.
Qed.

Definition lim (limit : option nat) (buf : bytes) : bytes :=
  match limit with Some B => firstn B buf | None => buf end.

Lemma ensure_lf_spec limit : forall chunks buf,
  let st := ensure_lf limit buf chunks in
  (exists i, find_lf (lim limit (fst st)) = Some i) \/
  (find_lf (lim limit (fst st)) = None /\
   (match limit with Some B => (B <= length (fst st))%nat | None => False end \/ snd st = [])).
Proof.
  induction chunks as [|c cs IH]; intros buf; cbn [ensure_lf]; fold (lim limit buf).
  - destruct (find_lf (lim limit buf)) eqn:E; cbn [fst snd]; [left; rewrite E; eauto|].
    destruct limit as [B|]; [destruct (Nat.leb_spec B (length buf))|]; cbn [fst snd]; right; rewrite E; auto.
  - destruct (find_lf (lim limit buf)) eqn:E; cbn [fst snd]; [left; rewrite E; eauto|].
    destruct limit as [B|].
    + destruct (Nat.leb_spec B (length buf)); cbn [fst snd]; [right; rewrite E; auto|]. apply IH.
    + apply IH.
Qed.

Lemma find_lf_app_some a b i : find_lf a = Some i -> find_lf (a ++ b) = Some i.
Proof.
  revert i; induction a as [|x a IH]; intros i H; cbn in *; [discriminate|].
  destruct (x =? LFb); [exact H|]. destruct (find_lf a) as [j|]; [|discriminate].
  now rewrite (IH j eq_refl).
Qed.

Lemma find_lf_lt a i : find_lf a = Some i -> (i < length a)%nat.
Proof.
  revert i; induction a as [|x a IH]; intros i H; cbn in *; [discriminate|].
  destruct (x =? LFb); [inversion H; lia|]. destruct (find_lf a) as [j|]; [|discriminate].
  inversion H. specialize (IH j eq_refl). lia.
Qed.

Lemma firstn_app_short {A} n (a b : list A) : (n <= length a)%nat -> firstn n (a ++ b) = firstn n a.
Proof. intros H. rewrite firstn_app. replace (n - length a)%nat with O by lia. cbn. apply app_nil_r. Qed.

Lemma skipn_app_short {A} n (a b : list A) : (n <= length a)%nat -> skipn n (a ++ b) = skipn n a ++ b.
Proof. intros H. rewrite skipn_app. replace (n - length a)%nat with O by lia. reflexivity. Qed.

Lemma find_lf_firstn_app B a b i : find_lf (firstn B a) = Some i -> find_lf (firstn B (a ++ b)) = Some i.
Proof.
  intros H. rewrite firstn_app. now apply find_lf_app_some.
Qed.

Lemma firstn_full_app {A} B (a b : list A) : (B <= length a)%nat -> firstn B (a ++ b) = firstn B a.
Proof. apply firstn_app_short. Qed.

(** one operation *)
Lemma chunk_step_flat B o st :
  flat_step B o (flat st) = (fst (chunk_step B o st), flat (snd (chunk_step B o st))).
Proof.
  destruct st as [buf chunks]. destruct o; cbn [chunk_step].
  - (* ReadByte *)
    pose proof (ensure_flat 1 chunks buf) as Hf. pose proof (ensure_spec 1 chunks buf) as Hs.
    destruct (ensure 1 buf chunks) as [b' c']. cbn [fst snd] in *. rewrite <- Hf.
    destruct b' as [|x r]; cbn [flat_step fst snd].
    + destruct Hs as [Hs|Hs]; [unfold blen in Hs; cbn in Hs; lia|]. subst c'. reflexivity.
    + unfold flat. cbn. reflexivity.
  - (* Peek *)
    pose proof (ensure_flat (N.of_nat n) chunks buf) as Hf. pose proof (ensure_spec (N.of_nat n) chunks buf) as Hs.
    destruct (ensure (N.of_nat n) buf chunks) as [b' c']. cbn [fst snd flat_step] in *. rewrite <- Hf.
    f_equal. f_equal. unfold flat. cbn [fst snd].
    destruct Hs as [Hs|Hs].
    + apply firstn_app_short. unfold blen in Hs. lia.
    + subst c'. cbn. now rewrite app_nil_r.
  - (* Discard *)
    cbn [flat_step]. destruct (n <? 0)%Z; [reflexivity|].
    pose proof (ensure_flat (Z.to_N n) chunks buf) as Hf. pose proof (ensure_spec (Z.to_N n) chunks buf) as Hs.
    destruct (ensure (Z.to_N n) buf chunks) as [b' c']. cbn [fst snd] in *. rewrite <- Hf.
    unfold flat. cbn [fst snd]. rewrite blen_app.
    destruct (N.leb_spec (Z.to_N n) (blen b')) as [H1|H1].
    + destruct (N.leb_spec (Z.to_N n) (blen b' + blen (concat c'))) as [_|H2]; [|lia].
      cbn [fst snd]. f_equal. apply skipn_app_short. unfold blen in H1. lia.
    + destruct Hs as [Hs|Hs]; [lia|]. subst c'. cbn [concat]. unfold blen at 2. cbn [length].
      destruct (N.leb_spec (Z.to_N n) (blen b' + N.of_nat 0)) as [H2|_]; [lia|]. reflexivity.
  - (* ReadSlice *)
    pose proof (ensure_lf_flat (Some B) chunks buf) as Hf. pose proof (ensure_lf_spec (Some B) chunks buf) as Hs.
    destruct (ensure_lf (Some B) buf chunks) as [b' c']. cbn [fst snd lim flat_step] in *. rewrite <- Hf.
    unfold flat. cbn [fst snd].
    destruct Hs as [[i Hi]|[Hn Hs]].
    + rewrite Hi. rewrite (find_lf_firstn_app _ _ _ _ Hi). cbn [fst snd].
      pose proof (find_lf_lt _ _ Hi) as Hlt. rewrite firstn_length in Hlt.
      f_equal; [f_equal; apply firstn_app_short; lia|apply skipn_app_short; lia].
    + rewrite Hn. destruct Hs as [Hs|Hs].
      * rewrite firstn_full_app by assumption. rewrite Hn.
        destruct (Nat.leb_spec B (length b')) as [_|Hx]; [|lia].
        destruct (Nat.leb_spec B (length (b' ++ concat c'))) as [_|Hx]; [|rewrite app_length in Hx; lia].
        cbn [fst snd]. f_equal. now apply skipn_app_short.
      * subst c'. cbn [concat]. rewrite app_nil_r. rewrite Hn.
        destruct (B <=? length b')%nat; cbn [fst snd concat]; rewrite ?app_nil_r; reflexivity.
  - (* ReadBytes *)
    pose proof (ensure_lf_flat None chunks buf) as Hf. pose proof (ensure_lf_spec None chunks buf) as Hs.
    destruct (ensure_lf None buf chunks) as [b' c']. cbn [fst snd lim flat_step] in *. rewrite <- Hf.
    unfold flat. cbn [fst snd].
    destruct Hs as [[i Hi]|[Hn Hs]].
    + rewrite Hi. rewrite (find_lf_app_some _ _ _ Hi). cbn [fst snd].
      pose proof (find_lf_lt _ _ Hi) as Hlt.
      f_equal; [f_equal; apply firstn_app_short; lia|apply skipn_app_short; lia].
    + destruct Hs as [[]|Hs]. subst c'. cbn [concat]. rewrite app_nil_r, Hn. reflexivity.
  - (* ReadFull *)
    cbn [flat_step]. destruct (n =? 0); [reflexivity|].
    pose proof (ensure_flat n chunks buf) as Hf. pose proof (ensure_spec n chunks buf) as Hs.
    destruct (ensure n buf chunks) as [b' c']. cbn [fst snd] in *. rewrite <- Hf.
    unfold flat. cbn [fst snd]. rewrite blen_app.
    destruct (N.leb_spec n (blen b')) as [H1|H1].
    + destruct (N.leb_spec n (blen b' + blen (concat c'))) as [_|H2]; [|lia].
      cbn [fst snd]. unfold blen in H1.
      f_equal; [f_equal; apply firstn_app_short; lia|apply skipn_app_short; lia].
    + destruct Hs as [Hs|Hs]; [lia|]. subst c'. cbn [concat]. unfold blen at 2. cbn [length].
      destruct (N.leb_spec n (blen b' + N.of_nat 0)) as [H2|_]; [lia|]. rewrite app_nil_r.
      destruct b'; reflexivity.
  - (* CopyN *)
    cbn [flat_step].
    pose proof (ensure_flat n chunks buf) as Hf. pose proof (ensure_spec n chunks buf) as Hs.
    destruct (ensure n buf chunks) as [b' c']. cbn [fst snd] in *. rewrite <- Hf.
    unfold flat. cbn [fst snd]. rewrite blen_app.
    destruct (N.leb_spec n (blen b')) as [H1|H1].
    + destruct (N.leb_spec n (blen b' + blen (concat c'))) as [_|H2]; [|lia].
      cbn [fst snd]. unfold blen in H1.
      f_equal; [f_equal; apply firstn_app_short; lia|apply skipn_app_short; lia].
    + destruct Hs as [Hs|Hs]; [lia|]. subst c'. cbn [concat]. unfold blen at 2. cbn [length].
      destruct (N.leb_spec n (blen b' + N.of_nat 0)) as [H2|_]; [lia|]. reflexivity.
  - (* Alloc *) reflexivity.
  - (* CopyOut *)
    cbn [flat_step].
    pose proof (ensure_flat n chunks buf) as Hf. pose proof (ensure_spec n chunks buf) as Hs.
    destruct (ensure n buf chunks) as [b' c']. cbn [fst snd] in *. rewrite <- Hf.
    unfold flat. cbn [fst snd]. rewrite blen_app.
    destruct (N.leb_spec n (blen b')) as [H1|H1].
    + destruct (N.leb_spec n (blen b' + blen (concat c'))) as [_|H2]; [|lia].
      cbn [fst snd]. unfold blen in H1.
      f_equal; [f_equal; apply firstn_app_short; lia|apply skipn_app_short; lia].
    + destruct Hs as [Hs|Hs]; [lia|]. subst c'. cbn [concat]. unfold blen at 2. cbn [length].
      destruct (N.leb_spec n (blen b' + N.of_nat 0)) as [H2|_]; [lia|]. rewrite app_nil_r. reflexivity.
  - (* Write *) reflexivity.
  - (* WriterErr *) reflexivity.
Qed.

(** every program *)
Theorem run_chunked_flat {A} B (p : prog A) : forall st al,
  run B p (flat st) al =
  (fst (fst (run_chunked B p st al)), flat (snd (fst (run_chunked B p st al))), snd (run_chunked B p st al)).
Proof.
  induction p as [a|o k IH]; intros st al; cbn [run run_chunked]; [reflexivity|].
  rewrite chunk_step_flat. destruct (chunk_step B o st) as [r st']. cbn [fst snd]. apply IH.
Qed.
