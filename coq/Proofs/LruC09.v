(** C09: single flight per command, waiters get the result, nothing cached after a cancel. *)
From Coq Require Import List NArith ZArith Bool Lia Permutation.
Require Import RV.Model.Base RV.Model.Lru RV.Proofs.LruBase RV.Proofs.LruSteps RV.Proofs.LruAnswers RV.Proofs.LruHist.
Import ListNotations.
Open Scope Z_scope.

(** ** lookups of a command in flight wait on that flight *)

Definition wait_res (e : entry) (it : fitem) (r : fres) : Prop :=
  (fi_key it, fi_cmd it) = kc e -> r = FWait (eid e).

Lemma unique_entry s e e' : inv s -> In e (order s) -> In e' (order s) -> kc e' = kc e -> e' = e.
Proof.
  intros Hi He He' Hk.
  pose proof (lookup_unique (fst (kc e)) (snd (kc e)) _ e (inv_kc s Hi) He) as H1.
  pose proof (lookup_unique (fst (kc e)) (snd (kc e)) _ e' (inv_kc s Hi) He') as H2.
  rewrite <- surjective_pairing in H1, H2. rewrite H1 in H2 by reflexivity. specialize (H2 Hk). congruence.
Qed.

Lemma wait_res_fast s e now it :
  inv s -> In e (order s) -> pending e = true ->
  match lookup (fi_key it) (fi_cmd it) (order s) with
  | Some e' => if live (eval e') now then wait_res e it (if pending e' then FWait (eid e') else FHit (eval e')) else wait_res e it FMiss
  | None => wait_res e it FMiss
  end.
Proof.
  intros Hi He Hp. destruct (lookup (fi_key it) (fi_cmd it) (order s)) as [e'|] eqn:El.
  - apply lookup_some in El. destruct El as [A B].
    destruct (live (eval e') now) eqn:Elive; [destruct (pending e') eqn:Ep'|]; intro Hk;
      assert (e' = e) by (apply (unique_entry s); try assumption; congruence); subst e'.
    + reflexivity.
    + congruence.
    + rewrite (live_pending e now Hp) in Elive. discriminate.
  - intro Hk. exfalso. apply (lookup_none _ _ _ El e He). congruence.
Qed.

Lemma wait_res_slow s' e now it :
  inv s' -> In e (order s') -> pending e = true ->
  wait_res e it (fres_of_sres (snd (slow_one s' (fi_key it) (fi_cmd it) (fi_ttl it) now))).
Proof.
  intros Hi He Hp Hk. pose proof (slow_one_res s' (fi_key it) (fi_cmd it) (fi_ttl it) now Hi) as H.
  destruct (snd (slow_one s' (fi_key it) (fi_cmd it) (fi_ttl it) now)); cbn [fres_of_sres].
  - destruct H as [e' [A [B [C [D [E F]]]]]].
    assert (e' = e) by (apply (unique_entry s'); try assumption; congruence). subst e'. congruence.
  - destruct H as [e' [A [B [C [D E]]]]].
    assert (e' = e) by (apply (unique_entry s'); try assumption; congruence). subst e'. congruence.
  - destruct H as [_ [H _]]. specialize (H e He (eq_sym Hk)). rewrite (live_pending e now Hp) in H. discriminate.
  - contradiction.
Qed.

Lemma in_slow_one s' e k c t now : inv s' -> In e (order s') -> pending e = true -> In e (order (fst (slow_one s' k c t now))).
Proof.
  intros Hi He Hp. destruct (slow_one_surv s' k c t now e Hi He) as [H|[_ H]]; [exact H|].
  rewrite (live_pending e now Hp) in H. discriminate.
Qed.

Lemma flight_result_wait s k c ttl now e :
  inv s -> In e (order s) -> pending e = true -> kc e = (k, c) ->
  flight_result s k c ttl now = OFlight (eval e) (Some (eid e)).
Proof.
  intros Hi He Hp Hk. unfold flight_result. rewrite (lookup_unique k c _ e (inv_kc s Hi) He Hk).
  rewrite (live_pending e now Hp). reflexivity.
Qed.

Lemma ans_of_flight_pending e : pending e = true -> ans_of_flight (eval e) (Some (eid e)) = AWait (eid e).
Proof. unfold pending, ans_of_flight. intros ->. reflexivity. Qed.

Lemma forall2_answers (P : fitem -> fres -> Prop) k c a items rs :
  Forall2 P items rs -> In a (answers_items k c items rs) ->
  exists it r, P it r /\ (fi_key it, fi_cmd it) = (k, c) /\ a = ans_of_fres r.
Proof.
  intros Hf H. apply answers_items_in in H. destruct H as [it [r [A [B C]]]].
  exists it, r. split; [eapply forall2_combine; eassumption|]. split; assumption.
Qed.

Theorem step_wait g s o e a :
  inv s -> In e (order s) -> pending e = true ->
  In a (answers (ekey e) (ecmd e) o (snd (step g s o))) -> a = AWait (eid e).
Proof.
  intros Hi He Hp H.
  assert (Hforall : forall items rs, Forall2 (wait_res e) items rs ->
             forall a, In a (answers_items (ekey e) (ecmd e) items rs) -> a = AWait (eid e)).
  { intros items rs Hf a0 Ha. destruct (forall2_answers _ _ _ _ _ _ Hf Ha) as [it [r [A [B ->]]]].
    rewrite (A B). reflexivity. }
  destruct o as [k0 c0 ttl now|now items|k0 c0 v0|k0 c0 err|keys|err|k0 c0 now|k0 c0 now|ids|k0 c0 ttl now|now items|now items];
    cbn [step snd answers] in *; try contradiction.
  - rewrite (flight_out s k0 c0 ttl now Hi) in H.
    destruct (bytes_eqb (ekey e) k0 && bytes_eqb (ecmd e) c0) eqn:Ek.
    + pose proof Ek as Ek'. apply kc_eqb_iff in Ek'. injection Ek' as -> ->.
      rewrite (flight_result_wait s _ _ ttl now e Hi He Hp eq_refl) in H. cbn iota beta in H. try rewrite Ek in H.
      destruct H as [<-|[]]. apply ans_of_flight_pending. exact Hp.
    + destruct (flight_result s k0 c0 ttl now); try contradiction; try (rewrite Ek in H; contradiction).
  - assert (Hf : match snd (flights s now items) with OFlights rs => Forall2 (wait_res e) items rs | _ => False end).
    { apply (flights_forall2 (wait_res e) (fun s' => In e (order s'))); try assumption.
      - intros it _. apply wait_res_fast; assumption.
      - intros Hc. rewrite (inv_closed s Hi Hc) in He. contradiction.
      - intros s' k c t A B C. apply in_slow_one; assumption.
      - intros s' it A B C _. apply wait_res_slow; assumption.
      - intros s2 Hperm _ _. eapply Permutation_in; [apply Permutation_sym; exact Hperm|exact He]. }
    destruct (snd (flights s now items)); try contradiction. eapply Hforall; eassumption.
  - rewrite flight_fast_out in H.
    destruct (bytes_eqb (ekey e) k0 && bytes_eqb (ecmd e) c0) eqn:Ek.
    + pose proof Ek as Ek'. apply kc_eqb_iff in Ek'. injection Ek' as -> ->.
      rewrite (lookup_unique _ _ _ e (inv_kc s Hi) He eq_refl), (live_pending e now Hp) in H. cbn iota beta in H. try rewrite Ek in H.
      destruct H as [<-|[]]. apply ans_of_flight_pending. exact Hp.
    + destruct (lookup k0 c0 (order s)) as [e'|]; [destruct (live (eval e') now)|]; try contradiction;
        try (rewrite Ek in H; contradiction).
  - rewrite (flight_slow_out s k0 c0 ttl now Hi) in H.
    destruct (bytes_eqb (ekey e) k0 && bytes_eqb (ecmd e) c0) eqn:Ek.
    + pose proof Ek as Ek'. apply kc_eqb_iff in Ek'. injection Ek' as -> ->.
      rewrite (flight_result_wait s _ _ ttl now e Hi He Hp eq_refl) in H. cbn iota beta in H. try rewrite Ek in H.
      destruct H as [<-|[]]. apply ans_of_flight_pending. exact Hp.
    + destruct (flight_result s k0 c0 ttl now); try contradiction; try (rewrite Ek in H; contradiction).
  - assert (Hf : Forall2 (wait_res e) items (snd (fst (flights_fast s now items)))).
    { apply (flights_fast_forall2 _ (order s)); [reflexivity|]. intros it _. apply wait_res_fast; assumption. }
    destruct (flights_fast s now items) as [[s1 rs] mv]. cbn [fst snd answers] in *.
    apply filter_In in H. destruct H as [H _]. eapply Hforall; eassumption.
  - assert (Hf : Forall2 (wait_res e) items (snd (flights_slow s now items))).
    { unfold flights_slow. destruct (closed s) eqn:Hc; [rewrite (inv_closed s Hi Hc) in He; contradiction|].
      apply (flights_slow_open_forall2 (wait_res e) (fun s' => In e (order s'))); try assumption.
      - intros s' k c t A B C. apply in_slow_one; assumption.
      - intros s' it A B C _. apply wait_res_slow; assumption. }
    destruct (flights_slow s now items) as [s1 rs]. cbn [fst snd answers] in *. eapply Hforall; eassumption.
Qed.

(** ** a miss on an open store starts a flight *)

Lemma flight_miss_creates s k c ttl now v :
  inv s -> closed s = false -> snd (flight s k c ttl now) = OFlight v None ->
  exists e', In e' (order (fst (flight s k c ttl now))) /\ kc e' = (k, c) /\ pending e' = true /\
             eval e' = pending_msg ttl now /\ eid e' = next_id s /\ v = pending_msg ttl now.
Proof.
  intros Hi Hc Ho. unfold flight in *.
  pose proof (flight_fast_out s k c now) as Hfo. pose proof (flight_fast_core s k c now) as [A [B [C D]]].
  pose proof (inv_flight_fast s k c now Hi) as Hi1.
  destruct (flight_fast s k c now) as [s1 x]. cbn [fst snd] in *. subst x.
  assert (Hslow : snd (flight_slow s1 k c ttl now) = OFlight v None ->
     exists e', In e' (order (fst (flight_slow s1 k c ttl now))) /\ kc e' = (k, c) /\ pending e' = true /\
             eval e' = pending_msg ttl now /\ eid e' = next_id s /\ v = pending_msg ttl now).
  { unfold flight_slow. rewrite C, Hc. pose proof (slow_one_res s1 k c ttl now Hi1) as Hr.
    destruct (slow_one s1 k c ttl now) as [s2 r]. cbn [fst snd] in *. intro Hv.
    destruct r; try discriminate; [|contradiction]. injection Hv as <-.
    destruct Hr as [-> [_ [e' [E1 [E2 E3]]]]]. exists e'. destruct E2 as [F1 [F2 [F3 F4]]].
    repeat split; try assumption; try congruence. unfold pending. rewrite F2. reflexivity. }
  destruct (lookup k c (order s)) as [e|]; [destruct (live (eval e) now)|]; cbn [fst snd] in *;
    try (apply Hslow; exact Ho).
  destruct (negb (is_last e (order s)) && threshold _); discriminate.
Qed.

(** ** resolution *)

Lemma cancel_releases s k c e :
  inv s -> In e (order s) -> kc e = (k, c) -> pending e = true ->
  snd (cancel s k c) = OCancel (Some (Rel (eid e) (eval e))) /\ lookup k c (order (fst (cancel s k c))) = None.
Proof.
  intros Hi He Hk Hp. rewrite cancel_spec, (lookup_unique k c _ e (inv_kc s Hi) He Hk), Hp. cbn [fst snd order].
  split; [reflexivity|apply remove_kc_lookup].
Qed.

Lemma close_releases s e : In e (order s) -> pending e = true -> In (eid e) (released (snd (close s))).
Proof. intros He Hp. cbn. apply in_map. apply filter_In. split; assumption. Qed.

Lemma flight_after_cancel s k c ttl now :
  inv s -> closed s = false -> lookup k c (order s) = None ->
  snd (flight s k c ttl now) = OFlight (pending_msg ttl now) None.
Proof. intros Hi Hc Hl. rewrite (flight_out s k c ttl now Hi). unfold flight_result. rewrite Hl, Hc. reflexivity. Qed.

(** ** every entry is released at most once *)

Definition rel_inv (R : list N) (s : state) : Prop :=
  NoDup R /\ (forall id, In id R -> (id < next_id s)%N) /\ (forall e, In e (order s) -> pending e = true -> ~ In (eid e) R).

Lemma next_id_mono g s o : inv s -> (next_id s <= next_id (fst (step g s o)))%N.
Proof.
  intro Hi.
  assert (Hfs : forall s0 k c t now, (next_id s0 <= next_id (fst (flight_slow s0 k c t now)))%N).
  { intros. unfold flight_slow. destruct (closed s0); [cbn; lia|]. pose proof (slow_one_next s0 k c t now).
    destruct (slow_one s0 k c t now). assumption. }
  assert (Hfss : forall s0 now items, (next_id s0 <= next_id (fst (flights_slow s0 now items)))%N).
  { intros. unfold flights_slow. destruct (closed s0); [cbn; lia|]. apply flights_slow_open_next. }
  destruct o; cbn [step fst].
  - unfold flight. pose proof (flight_fast_core s k c now) as [_ [_ [_ D]]].
    destruct (flight_fast s k c now) as [s1 x]. cbn [fst] in *. rewrite <- D.
    destruct x as [| [[id v]|] mv | | | | | | |]; try apply Hfs.
    destruct mv; cbn [fst]; [|lia]. pose proof (touch_core s1 [id]) as [_ [_ T]]. lia.
  - rewrite flights_unfold. cbv zeta. pose proof (flights_mid_spec s now items Hi) as [_ [_ [_ [Hn _]]]].
    destruct (missed_items items _); cbn [fst]; [lia|].
    pose proof (Hfss (flights_mid s now items) now (f :: l)).
    destruct (flights_slow (flights_mid s now items) now (f :: l)). cbn [fst] in *. lia.
  - unfold update. destruct (lookup k c (order s)) as [e|]; [|cbn; lia].
    destruct (pending e); cbn [size order next_id closed hits];
      destruct (evict _ _ _) as [[z keep] ev]; cbn; lia.
  - rewrite cancel_spec. destruct (lookup k c (order s)) as [e|]; [destruct (pending e)|]; cbn; lia.
  - unfold delete. destruct keys; cbn; lia.
  - cbn. lia.
  - lia.
  - pose proof (flight_fast_core s k c now) as [_ [_ [_ D]]]. lia.
  - pose proof (touch_core s ids) as [_ [_ T]]. lia.
  - apply Hfs.
  - pose proof (flights_fast_core now items s) as [_ [_ [_ D]]].
    destruct (flights_fast s now items) as [[s1 rs] mv]. cbn [fst] in *. lia.
  - pose proof (Hfss s now items). destruct (flights_slow s now items). assumption.
Qed.

(** what a step releases: in-flight entries of the state it ran on, each once, none of which is in flight afterwards *)
Ltac norel := split; [constructor|split; [intros ? []|intros ? ? ? []]].

Lemma step_released g s o :
  wf_op o -> inv s ->
  let x := snd (step g s o) in
  NoDup (released x) /\
  (forall id, In id (released x) -> exists e, In e (order s) /\ pending e = true /\ eid e = id) /\
  (forall e', In e' (order (fst (step g s o))) -> pending e' = true -> ~ In (eid e') (released x)).
Proof.
  intros Hw Hi x. subst x.
  assert (Htriv : released (snd (step g s o)) = [] -> 
     NoDup (released (snd (step g s o))) /\
     (forall id, In id (released (snd (step g s o))) -> exists e, In e (order s) /\ pending e = true /\ eid e = id) /\
     (forall e', In e' (order (fst (step g s o))) -> pending e' = true -> ~ In (eid e') (released (snd (step g s o))))).
  { intros ->. norel. }
  destruct o as [k0 c0 ttl now|now items|k0 c0 v0|k0 c0 err|keys|err|k0 c0 now|k0 c0 now|ids|k0 c0 ttl now|now items|now items];
    try (apply Htriv; cbn [step snd]; reflexivity).
  - apply Htriv. cbn [step]. rewrite (flight_out s k0 c0 ttl now Hi). unfold flight_result.
    destruct (lookup k0 c0 (order s)) as [e|]; [destruct (live (eval e) now)|destruct (closed s)]; reflexivity.
  - apply Htriv. cbn [step]. rewrite flights_unfold. cbv zeta. destruct (missed_items items _); [reflexivity|].
    destruct (flights_slow _ _ _). reflexivity.
  - (* Update *)
    cbn [step]. destruct (lookup k0 c0 (order s)) as [e|] eqn:El.
    + pose proof (lookup_some _ _ _ _ El) as [He Hk].
      rewrite (update_some g s k0 c0 v0 e El). destruct (pending e) eqn:Ep; cbn [fst snd released].
      * split; [repeat constructor; intros []|]. split.
        -- intros id [<-|[]]. exists e. repeat split; assumption.
        -- intros e' He' Hp' [Hid|[]]. apply after_evict_in in He'.
           apply (commit_in g s k0 c0 v0 e e' Hi El) in He'. destruct He' as [[A B]| ->].
           ++ apply B. rewrite <- Hk. f_equal.
              pose proof (inv_idnd s Hi) as Hnd.
              assert (filter (has_id (eid e)) (order s) = [e]) as Hf.
              { apply (filter_unique eid); [exact Hnd| |exact He|apply N.eqb_refl].
                intros a b Ha Hb. apply has_id_iff in Ha, Hb. congruence. }
              assert (In e' (filter (has_id (eid e)) (order s))) as Hin by (apply filter_In; split; [exact A|apply has_id_iff; congruence]).
              rewrite Hf in Hin. destruct Hin as [<-|[]]. reflexivity.
           ++ unfold pending, completed, is_pending_msg in Hp'. cbn [eval] in Hp'. cbn in Hw. destruct v0. cbn in Hp'.
              apply N.eqb_eq in Hp'. contradiction.
      * norel.
    + rewrite (update_none g s k0 c0 v0 El). cbn. norel.
  - (* Cancel *)
    cbn [step]. rewrite cancel_spec. destruct (lookup k0 c0 (order s)) as [e|] eqn:El; [|cbn; norel].
    pose proof (lookup_some _ _ _ _ El) as [He Hk].
    destruct (pending e) eqn:Ep; cbn [fst snd released order]; [|norel].
    split; [repeat constructor; intros []|]. split.
    + intros id [<-|[]]. exists e. repeat split; assumption.
    + intros e' He' Hp' [Hid|[]]. apply remove_kc_in in He'. destruct He' as [A B]. apply B. rewrite <- Hk. f_equal.
      pose proof (inv_idnd s Hi) as Hnd.
      assert (filter (has_id (eid e)) (order s) = [e]) as Hf.
      { apply (filter_unique eid); [exact Hnd| |exact He|apply N.eqb_refl].
        intros a b Ha Hb. apply has_id_iff in Ha, Hb. congruence. }
      assert (In e' (filter (has_id (eid e)) (order s))) as Hin by (apply filter_In; split; [exact A|apply has_id_iff; congruence]).
      rewrite Hf in Hin. destruct Hin as [<-|[]]. reflexivity.
  - (* Close *)
    cbn [step close fst snd released order]. split; [|split].
    + pose proof (inv_idnd s Hi) as Hnd. apply NoDup_map_filter. exact Hnd.
    + intros id Hid. apply in_map_iff in Hid. destruct Hid as [e [<- He]]. apply filter_In in He. exists e. tauto.
    + intros e' [].
  - apply Htriv. cbn [step]. rewrite flight_fast_out.
    destruct (lookup k0 c0 (order s)) as [e|]; [destruct (live (eval e) now)|]; reflexivity.
  - apply Htriv. cbn [step]. rewrite (flight_slow_out s k0 c0 ttl now Hi). unfold flight_result.
    destruct (lookup k0 c0 (order s)) as [e|]; [destruct (live (eval e) now)|destruct (closed s)]; reflexivity.
  - apply Htriv. cbn [step]. destruct (flights_fast s now items) as [[s1 rs] mv]. reflexivity.
  - apply Htriv. cbn [step]. destruct (flights_slow s now items) as [s1 rs]. reflexivity.
Qed.

Lemma trace_app g ops1 ops2 s : trace g (ops1 ++ ops2) s = trace g ops1 s ++ trace g ops2 (run g ops1 s).
Proof.
  revert s. induction ops1 as [|o r IH]; intro s; [reflexivity|].
  cbn [app trace]. rewrite run_cons. destruct (step g s o) as [s1 x] eqn:E. cbn [fst]. rewrite IH. reflexivity.
Qed.

Lemma rel_inv_run g ops : forall s R,
  Forall wf_op ops -> inv s -> rel_inv R s ->
  rel_inv (R ++ flat_map released (trace g ops s)) (run g ops s).
Proof.
  induction ops as [|o r IH]; intros s R Hw Hi Hr; [cbn [trace flat_map]; rewrite app_nil_r; exact Hr|].
  inversion Hw as [|? ? Hwo Hwr]; subst. rewrite run_cons. cbn [trace].
  pose proof (step_released g s o Hwo Hi) as [S1 [S2 S3]]. pose proof (inv_step g s o Hwo Hi) as Hi1.
  pose proof (next_id_mono g s o Hi) as Hmono. pose proof (step_prov g s o) as Hprov.
  destruct (step g s o) as [s1 x] eqn:E. cbn [fst snd flat_map] in *.
  rewrite app_assoc. apply IH; [exact Hwr|exact Hi1|].
  destruct Hr as [R1 [R2 R3]]. split; [|split].
  - (* NoDup *)
    clear IH. induction R as [|a R IHR]; cbn [app]; [exact S1|].
    inversion R1; subst. constructor.
    + intro Hin. apply in_app_or in Hin. destruct Hin as [Hin|Hin]; [contradiction|].
      destruct (S2 a Hin) as [e [He [Hp <-]]]. apply (R3 e He Hp). left. reflexivity.
    + apply IHR; try assumption.
      * intros id Hid. apply R2. right. exact Hid.
      * intros e He Hp Hin. apply (R3 e He Hp). right. exact Hin.
  - intros id Hid. apply in_app_or in Hid. destruct Hid as [Hid|Hid].
    + specialize (R2 id Hid). lia.
    + destruct (S2 id Hid) as [e [He [_ <-]]]. pose proof (inv_ids s Hi e He). lia.
  - intros e' He' Hp' Hin. apply in_app_or in Hin. destruct Hin as [Hin|Hin]; [|exact (S3 e' He' Hp' Hin)].
    destruct (Hprov e' Hi He') as [Hold|[Hnew|[e0 [v [Ho [_ [_ Heq]]]]]]].
    + exact (R3 e' Hold Hp' Hin).
    + specialize (R2 _ Hin).
      assert ((next_id s <= eid e')%N); [|lia].
      destruct o; cbn [creates] in Hnew; try contradiction.
      * apply Hnew. * destruct Hnew as [it [_ Hn]]. apply Hn. * apply Hnew. * destruct Hnew as [it [_ Hn]]. apply Hn.
    + subst e' o. cbn in Hwo. unfold pending, completed, is_pending_msg in Hp'. cbn [eval] in Hp'.
      destruct v. cbn in Hp', Hwo. apply N.eqb_eq in Hp'. contradiction.
Qed.

(** ** every wait / miss answer corresponds to an in-flight entry of the resulting store *)

Definition flying (s' : state) (k c : bytes) (a : ans) : Prop :=
  exists e, In e (order s') /\ kc e = (k, c) /\ pending e = true /\ (forall id, a = AWait id -> eid e = id).

Lemma slow_open_keeps now items : forall s e,
  inv s -> closed s = false -> In e (order s) -> pending e = true -> In e (order (fst (flights_slow_open s now items))).
Proof.
  intros s e Hi Hc He Hp. destruct (flights_slow_open_surv now items s e Hi Hc He) as [H|[it [_ [_ H]]]]; [exact H|].
  rewrite (live_pending e now Hp) in H. discriminate.
Qed.

Lemma flights_slow_open_flying now items : forall s,
  inv s -> closed s = false ->
  forall it r, In (it, r) (combine items (snd (flights_slow_open s now items))) ->
  (forall v, r <> FHit v) -> flying (fst (flights_slow_open s now items)) (fi_key it) (fi_cmd it) (ans_of_fres r).
Proof.
  induction items as [|[k c t] items IH]; intros s Hi Hc it r Hin Hr; [contradiction|].
  cbn [flights_slow_open] in *.
  pose proof (inv_slow_one s k c t now Hi Hc) as [Hi1 Hc1].
  pose proof (slow_one_res s k c t now Hi) as Hres.
  pose proof (in_slow_one s) as Hkeep.
  destruct (slow_one s k c t now) as [s1 x] eqn:Es. cbn [fst snd] in *.
  pose proof (slow_open_keeps now items s1) as Hk2. specialize (IH s1 Hi1 Hc1).
  destruct (flights_slow_open s1 now items) as [s2 rs]. cbn [fst snd combine] in *.
  destruct Hin as [Hin|Hin]; [|apply IH; assumption].
  injection Hin as <- <-. cbn [fi_key fi_cmd].
  destruct x; cbn [fres_of_sres ans_of_fres] in *.
  - exfalso. eapply Hr. reflexivity.
  - destruct Hres as [e [A [B [C [D E]]]]]. exists e. split; [|split; [exact B|split; [exact E|intros ? [= <-]; exact D]]].
    apply Hk2; try assumption. specialize (Hkeep e k c t now Hi A E). rewrite Es in Hkeep. exact Hkeep.
  - destruct Hres as [_ [_ [e' [A [B _]]]]]. exists e'. destruct B as [B1 [B2 _]].
    assert (Hp : pending e' = true) by (unfold pending; rewrite B2; reflexivity).
    split; [apply Hk2; assumption|]. split; [exact B1|]. split; [exact Hp|intros ? [=]].
  - contradiction.
Qed.

Lemma merge_in items : forall rs rs2 it r,
  length (missed_items items rs) = length rs2 ->
  In (it, r) (combine items (merge_res rs rs2)) ->
  (In (it, r) (combine items rs) /\ r <> FMiss) \/ In (it, r) (combine (missed_items items rs) rs2).
Proof.
  induction items as [|x items IH]; intros [|y rs] rs2 it r Hl H; cbn [merge_res combine] in H; try contradiction.
  destruct y; cbn [merge_res combine missed_items] in *.
  - destruct H as [H|H]; [left; split; [left; exact H|injection H as _ <-; discriminate]|].
    destruct (IH rs rs2 it r Hl H) as [[A B]|A]; [left; split; [right; exact A|exact B]|right; exact A].
  - destruct H as [H|H]; [left; split; [left; exact H|injection H as _ <-; discriminate]|].
    destruct (IH rs rs2 it r Hl H) as [[A B]|A]; [left; split; [right; exact A|exact B]|right; exact A].
  - destruct rs2 as [|z rs2]; [discriminate|]. cbn [combine length] in *.
    destruct H as [H|H]; [right; left; exact H|].
    destruct (IH rs rs2 it r ltac:(lia) H) as [[A B]|A]; [left; split; [right; exact A|exact B]|right; right; exact A].
Qed.

Lemma in_combine_missed items : forall rs it, In (it, FMiss) (combine items rs) -> In it (missed_items items rs).
Proof.
  induction items as [|x items IH]; intros [|y rs] it A; cbn [combine] in A; try contradiction.
  cbn [missed_items]. destruct A as [A|A]; [injection A as -> ->; left; reflexivity|].
  destruct y; try (right; apply IH; exact A); apply IH; exact A.
Qed.

Lemma fast_wait_flying s now items it id :
  inv s -> In (it, FWait id) (combine items (snd (fst (flights_fast s now items)))) ->
  exists e, In e (order s) /\ kc e = (fi_key it, fi_cmd it) /\ pending e = true /\ eid e = id.
Proof.
  intros Hi Hin.
  assert (Hf : Forall2 (fun it r => forall id, r = FWait id ->
             exists e, In e (order s) /\ kc e = (fi_key it, fi_cmd it) /\ pending e = true /\ eid e = id)
            items (snd (fst (flights_fast s now items)))).
  { apply (flights_fast_forall2 _ (order s)); [reflexivity|]. intros it0 _.
    destruct (lookup (fi_key it0) (fi_cmd it0) (order s)) as [e|] eqn:El; [|intros ? [=]].
    destruct (live (eval e) now); [|intros ? [=]]. destruct (pending e) eqn:Ep; [|intros ? [=]].
    intros id0 [= <-]. apply lookup_some in El. exists e. tauto. }
  exact (forall2_combine _ _ _ Hf it (FWait id) Hin id eq_refl).
Qed.

Lemma flights_slow_length s now items : length (snd (flights_slow s now items)) = length items.
Proof. unfold flights_slow. destruct (closed s); [cbn; apply map_length|apply flights_slow_open_length]. Qed.

Theorem step_flying g s o k c a :
  inv s -> closed s = false -> In a (answers k c o (snd (step g s o))) -> (forall v, a <> AHit v) ->
  flying (fst (step g s o)) k c a.
Proof.
  intros Hi Hc H Ha.
  assert (Hsingle : forall ttl now, 
     In a [ans_of_flight (match flight_result s k c ttl now with OFlight v _ => v | _ => empty_msg end)
                         (match flight_result s k c ttl now with OFlight _ ce => ce | _ => None end)] ->
     forall s', inv s' -> (forall e, In e (order s) -> pending e = true -> In e (order s')) ->
       (lookup k c (order s) = None \/ (exists e, lookup k c (order s) = Some e /\ live (eval e) now = false) ->
          exists e', In e' (order s') /\ kc e' = (k, c) /\ pending e' = true) ->
     flying s' k c a).
  { intros ttl now [<-|[]] s' Hi' Hkeep Hnew. unfold flight_result in *.
    destruct (lookup k c (order s)) as [e|] eqn:El.
    - destruct (live (eval e) now) eqn:Elive.
      + apply lookup_some in El. destruct El as [A B]. unfold ans_of_flight in *.
        destruct (is_pending_msg (eval e)) eqn:Ep; [|exfalso; eapply Ha; reflexivity].
        exists e. split; [apply Hkeep; assumption|]. split; [exact B|]. split; [exact Ep|intros ? [= <-]; reflexivity].
      + destruct Hnew as [e' [A [B C]]]; [right; exists e; tauto|]. exists e'. unfold ans_of_flight. cbn.
        split; [exact A|]. split; [exact B|]. split; [exact C|intros ? [=]].
    - rewrite Hc. destruct Hnew as [e' [A [B C]]]; [left; reflexivity|]. exists e'. unfold ans_of_flight. cbn.
      split; [exact A|]. split; [exact B|]. split; [exact C|intros ? [=]]. }
  destruct o as [k0 c0 ttl now|now items|k0 c0 v0|k0 c0 err|keys|err|k0 c0 now|k0 c0 now|ids|k0 c0 ttl now|now items|now items];
    cbn [step snd fst answers] in *; try contradiction.
  - (* Flight *)
    rewrite (flight_out s k0 c0 ttl now Hi) in H.
    destruct (bytes_eqb k k0 && bytes_eqb c c0) eqn:Ek;
      [|destruct (flight_result s k0 c0 ttl now); try contradiction; try (rewrite Ek in H; contradiction)].
    pose proof Ek as Ek'. apply kc_eqb_iff in Ek'. injection Ek' as -> ->.
    apply (Hsingle ttl now).
    + destruct (flight_result s k c ttl now) eqn:Er; try contradiction. try rewrite Ek in H. exact H.
    + apply inv_flight. exact Hi.
    + intros e He Hp. apply (pending_survives g s (Flight k c ttl now) e Hi He Hp). intros [].
    + intro Hcase. pose proof (flight_out s k c ttl now Hi) as Ho. unfold flight_result in Ho.
      assert (Hm : snd (flight s k c ttl now) = OFlight (pending_msg ttl now) None).
      { destruct Hcase as [Hn|[e [Hl He]]]; [rewrite Hn, Hc in Ho|rewrite Hl, He in Ho]; exact Ho. }
      destruct (flight_miss_creates s k c ttl now _ Hi Hc Hm) as [e' [A [B [C _]]]]. exists e'. tauto.
  - (* Flights *)
    pose proof (flights_unfold s now items) as Hu. cbv zeta in Hu.
    pose proof (flights_mid_spec s now items Hi) as [Hi2 [Hperm [Hc2 _]]].
    assert (Hkeep : forall e, In e (order s) -> pending e = true -> In e (order (fst (flights s now items)))).
    { intros e He Hp. apply (pending_survives g s (Flights now items) e Hi He Hp). intros []. }
    set (rs := snd (fst (flights_fast s now items))) in *.
    assert (Hfastcase : forall it r, In (it, r) (combine items rs) -> r <> FMiss -> (forall v, r <> FHit v) ->
              flying (fst (flights s now items)) (fi_key it) (fi_cmd it) (ans_of_fres r)).
    { intros it r Hin Hnm Hnh. destruct r; [exfalso; eapply Hnh; reflexivity| |contradiction].
      destruct (fast_wait_flying s now items it id Hi Hin) as [e [A [B [C D]]]].
      exists e. split; [apply Hkeep; assumption|]. split; [exact B|]. split; [exact C|intros ? [= <-]; exact D]. }
    destruct (missed_items items rs) as [|m mi] eqn:Em.
    + assert (Hsnd : snd (flights s now items) = OFlights rs) by (rewrite Hu; reflexivity).
      rewrite Hsnd in H. apply answers_items_in in H. destruct H as [it [r [A [B ->]]]].
      injection B as <- <-. apply Hfastcase; [exact A| |intros v Hv; subst r; eapply Ha; reflexivity].
      intro Hr. subst r. apply in_combine_missed in A. rewrite Em in A. contradiction.
    + assert (Hc2' : closed (flights_mid s now items) = false) by congruence.
      pose proof (flights_slow_open_flying now (m :: mi) (flights_mid s now items) Hi2 Hc2') as Hslow.
      pose proof (flights_slow_open_length now (m :: mi) (flights_mid s now items)) as Hlen.
      unfold flights_slow in Hu. rewrite Hc2' in Hu.
      destruct (flights_slow_open (flights_mid s now items) now (m :: mi)) as [s3 rs2] eqn:Eslow.
      cbn [fst snd] in Hslow, Hlen.
      assert (Hsnd : snd (flights s now items) = OFlights (merge_res rs rs2)) by (rewrite Hu; reflexivity).
      assert (Hfst : fst (flights s now items) = s3) by (rewrite Hu; reflexivity).
      rewrite Hsnd in H. apply answers_items_in in H. destruct H as [it [r [A [B ->]]]]. injection B as <- <-.
      assert (Hnh : forall v, r <> FHit v) by (intros v Hv; subst r; eapply Ha; reflexivity).
      destruct (merge_in items rs rs2 it r ltac:(rewrite Em; symmetry; exact Hlen) A) as [[A1 A2]|A1].
      * apply Hfastcase; assumption.
      * rewrite Em in A1. rewrite Hfst. apply Hslow; assumption.
  - (* FlightFast *)
    rewrite flight_fast_out in H. destruct (lookup k0 c0 (order s)) as [e|] eqn:El; [|contradiction].
    destruct (live (eval e) now) eqn:Elive; [|contradiction].
    destruct (bytes_eqb k k0 && bytes_eqb c c0) eqn:Ek; [|try (rewrite Ek in H); contradiction].
    pose proof Ek as Ek'. apply kc_eqb_iff in Ek'. injection Ek' as -> ->. try rewrite Ek in H.
    destruct H as [<-|[]]. apply lookup_some in El. destruct El as [A B].
    unfold ans_of_flight in *. destruct (is_pending_msg (eval e)) eqn:Ep; [|exfalso; eapply Ha; reflexivity].
    exists e. split; [|split; [exact B|split; [exact Ep|intros ? [= <-]; reflexivity]]].
    destruct (flight_fast_core s k c now) as [Ho _]. rewrite Ho. exact A.
  - (* FlightSlow *)
    rewrite (flight_slow_out s k0 c0 ttl now Hi) in H.
    destruct (bytes_eqb k k0 && bytes_eqb c c0) eqn:Ek;
      [|destruct (flight_result s k0 c0 ttl now); try contradiction; try (rewrite Ek in H; contradiction)].
    pose proof Ek as Ek'. apply kc_eqb_iff in Ek'. injection Ek' as -> ->.
    apply (Hsingle ttl now).
    + destruct (flight_result s k c ttl now) eqn:Er; try contradiction. try rewrite Ek in H. exact H.
    + apply inv_flight_slow. exact Hi.
    + intros e He Hp. apply (pending_survives g s (FlightSlow k c ttl now) e Hi He Hp). intros [].
    + intro Hcase. unfold flight_slow. rewrite Hc. pose proof (slow_one_res s k c ttl now Hi) as Hr.
      unfold slow_one in *. destruct Hcase as [Hn|[e [Hl He]]].
      * rewrite Hn in *. cbn [snd fst] in *. destruct Hr as [_ [_ [e' [A [B _]]]]]. exists e'.
        destruct B as [B1 [B2 _]]. split; [exact A|]. split; [exact B1|]. unfold pending. rewrite B2. reflexivity.
      * rewrite Hl, He in *. cbn [snd fst] in *. destruct Hr as [_ [_ [e' [A [B _]]]]]. exists e'.
        destruct B as [B1 [B2 _]]. split; [exact A|]. split; [exact B1|]. unfold pending. rewrite B2. reflexivity.
  - (* FlightsFast *)
    pose proof (flights_fast_core now items s) as [Ho _].
    destruct (flights_fast s now items) as [[s1 rs] mv] eqn:Ef. cbn [fst snd answers] in *.
    apply filter_In in H. destruct H as [H Hnm]. apply answers_items_in in H. destruct H as [it [r [A [B ->]]]].
    injection B as <- <-. destruct r; [exfalso; eapply Ha; reflexivity| |discriminate].
    assert (A' : In (it, FWait id) (combine items (snd (fst (flights_fast s now items))))) by (rewrite Ef; exact A).
    destruct (fast_wait_flying s now items it id Hi A') as [e [E1 [E2 [E3 E4]]]].
    exists e. rewrite Ho. split; [exact E1|]. split; [exact E2|]. split; [exact E3|intros ? [= <-]; exact E4].
  - (* FlightsSlow *)
    pose proof (flights_slow_open_flying now items s Hi Hc) as Hslow.
    unfold flights_slow in *. rewrite Hc in *.
    destruct (flights_slow_open s now items) as [s1 rs]. cbn [fst snd answers] in *.
    apply answers_items_in in H. destruct H as [it [r [A [B ->]]]]. injection B as <- <-.
    apply Hslow; [exact A|]. intros v Hv. subst r. eapply Ha. reflexivity.
Qed.
