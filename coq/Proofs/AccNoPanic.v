(** C15: no accessor panics, on any reply tree. *)
From Coq Require Import String List NArith ZArith Bool Lia Arith.
Require Import RV.Model.Base RV.Model.AccBase RV.Model.Accessors.
Import ListNotations.
Open Scope N_scope.

Definition np {A} (r : res A) : Prop := r <> RPanic.

Lemma np_ok {A} (a : A) : np (ROk a). Proof. discriminate. Qed.
Lemma np_err {A} (e : aerr) : np (@RErr A e). Proof. discriminate. Qed.
#[export] Hint Resolve np_ok np_err : np.

Lemma np_bind {A B} (r : res A) (f : A -> res B) : np r -> (forall a, r = ROk a -> np (f a)) -> np (rbind r f).
Proof. unfold np. destruct r; cbn; intros H1 H2; [now apply H2|discriminate|contradiction]. Qed.

Lemma np_mapM {A B} (f : A -> res B) (l : list A) : (forall x, In x l -> np (f x)) -> np (mapM f l).
Proof.
  induction l as [|x r IH]; intro H; cbn [mapM]; [apply np_ok|].
  apply np_bind; [apply H; now left|]. intros y _. apply np_bind; [apply IH; intros; apply H; now right|].
  intros; apply np_ok.
Qed.

Lemma np_idx {A} (l : list A) i : (i < length l)%nat -> np (idx l i).
Proof. intro H. unfold idx. destruct (nth_error l i) eqn:E; [apply np_ok|]. apply nth_error_None in E. lia. Qed.

Lemma np_rmap {A B} (f : A -> B) (r : res A) : np r -> np (rmap f r).
Proof. unfold np. destruct r; cbn; auto; discriminate. Qed.

Lemma even_len_cons2 {A} (a c : A) l : even_len (a :: c :: l) = even_len l.
Proof. reflexivity. Qed.

Lemma np_pair_loop {S} (body : msg -> msg -> S -> res S) : (forall k v s, np (body k v s)) ->
  forall vs st, even_len vs = true -> np (pair_loop body vs st).
Proof.
  intros Hb. fix F 1. intros [|k [|v r]] st He; cbn [pair_loop].
  - apply np_ok.
  - discriminate.
  - apply np_bind; [apply Hb|]. intros st' _. apply F. exact He.
Qed.

Lemma np_pair_loop_guarded {S} (body : msg -> msg -> S -> res S) : (forall k v s, np (body k v s)) ->
  forall vs st, np (pair_loop_guarded body vs st).
Proof.
  intros Hb. fix F 1. intros [|k [|v r]] st; cbn [pair_loop_guarded]; try apply np_ok.
  apply np_bind; [apply Hb|]. intros st' _. apply F.
Qed.

Ltac split_if := match goal with
  | |- np (if ?c then _ else _) => destruct c eqn:?
  | |- np (match ?x with Some _ => _ | None => _ end) => destruct x eqn:?
  end.

(** ---- scalars ---- *)
Lemma np_to_string m : np (to_string m).
Proof. unfold to_string. repeat split_if; auto with np. Qed.

Lemma np_error_or_parse {A} m : np (@error_or_parse A m).
Proof. unfold error_or_parse. destruct (msg_error m); auto with np. Qed.

Lemma np_decode_json e m : np (decode_json e m).
Proof. unfold decode_json. apply np_bind; [apply np_to_string|]. intros; split_if; auto with np. Qed.

Lemma np_as_int64 m : np (as_int64 m).
Proof. unfold as_int64. split_if; auto with np. apply np_bind; [apply np_to_string|]. intros; split_if; auto with np. Qed.

Lemma np_as_uint64 m : np (as_uint64 m).
Proof. unfold as_uint64. split_if; auto with np. apply np_bind; [apply np_to_string|]. intros; split_if; auto with np. Qed.

Lemma np_as_bool m : np (as_bool m).
Proof. unfold as_bool. repeat split_if; auto with np. Qed.

Lemma np_of_raw {A} (r : A * option aerr) : np (of_raw r).
Proof. destruct r as [v [e|]]; cbn; auto with np. Qed.

Lemma np_as_float64 e m : np (as_float64 e m).
Proof. apply np_of_raw. Qed.

Lemma np_to_int64 m : np (to_int64 m).
Proof. unfold to_int64. split_if; auto with np. apply np_error_or_parse. Qed.
Lemma np_to_bool m : np (to_bool m).
Proof. unfold to_bool. split_if; auto with np. apply np_error_or_parse. Qed.
Lemma np_to_float64 e m : np (to_float64 e m).
Proof. unfold to_float64. split_if; [apply np_of_raw|apply np_error_or_parse]. Qed.
Lemma np_to_array m : np (to_array m).
Proof. unfold to_array. split_if; auto with np. apply np_error_or_parse. Qed.

#[export] Hint Resolve np_to_string np_error_or_parse np_decode_json np_as_int64 np_as_uint64 np_as_bool np_as_float64
  np_to_int64 np_to_bool np_to_float64 np_to_array np_of_raw : np.

(** ---- slices ---- *)
Lemma np_as_str_slice m : np (as_str_slice m).
Proof. unfold as_str_slice. apply np_bind; auto with np. Qed.

Lemma np_as_int_slice m : np (as_int_slice m).
Proof.
  unfold as_int_slice. apply np_bind; auto with np. intros vs _. apply np_mapM. intros v _.
  destruct (mstr v); auto with np. destruct (parse_int10 _); auto with np.
Qed.

Lemma np_as_float_slice e m : np (as_float_slice e m).
Proof.
  unfold as_float_slice. apply np_bind; auto with np. intros vs _. apply np_mapM. intros v _.
  destruct (mstr v); auto with np. destruct (to_float64_s e _) as [x [|]]; auto with np.
Qed.

Lemma np_as_bool_slice m : np (as_bool_slice m).
Proof. unfold as_bool_slice. apply np_bind; auto with np. Qed.

#[export] Hint Resolve np_as_str_slice np_as_int_slice np_as_float_slice np_as_bool_slice : np.

(** ---- maps ---- *)
Lemma np_to_map_vals : forall vs acc, even_len vs = true -> np (to_map_vals vs acc).
Proof.
  fix F 1. intros [|k [|v r]] acc He; cbn [to_map_vals].
  - apply np_ok.
  - discriminate.
  - destruct (is_str_typ k); [|apply np_err]. apply F. exact He.
Qed.

Lemma np_as_map m : np (as_map m).
Proof.
  unfold as_map. destruct (msg_error m); auto with np.
  destruct (map_or_array m && even_len (mvals m)) eqn:E; auto with np.
  apply andb_true_iff in E. apply np_to_map_vals. apply E.
Qed.

Lemma np_to_map m : np (to_map m).
Proof.
  unfold to_map. destruct (is_map m); auto with np. destruct (even_len (mvals m)) eqn:E; auto with np.
  now apply np_to_map_vals.
Qed.

Lemma np_as_str_map m : np (as_str_map m).
Proof.
  unfold as_str_map. destruct (msg_error m); auto with np.
  destruct (map_or_array m && even_len (mvals m)) eqn:E; auto with np.
  apply andb_true_iff in E. apply np_pair_loop; [intros; apply np_ok|apply E].
Qed.

Lemma np_as_int_map m : np (as_int_map m).
Proof.
  unfold as_int_map, as_int_map_with. destruct (msg_error m); auto with np.
  destruct (map_or_array m && even_len (mvals m)) eqn:E; auto with np.
  apply andb_true_iff in E. apply np_pair_loop; [|apply E].
  intros k v s. destruct (is_str_typ k); auto with np. destruct (mstr v).
  - destruct ((mtyp v =? tInteger) || (mtyp v =? tNull)); auto with np.
  - destruct (parse_int10 _); auto with np.
Qed.

#[export] Hint Resolve np_as_map np_to_map np_as_str_map np_as_int_map : np.

(** ---- streams ---- *)
Lemma np_as_xrange_entry m : np (as_xrange_entry m).
Proof.
  unfold as_xrange_entry. apply np_bind; auto with np. intros vs _.
  destruct vs as [|v0 [|v1 [|v2 r]]]; cbn [length Nat.eqb negb]; auto with np.
  cbn [idx nth_error rbind]. apply np_bind; auto with np. intros id _.
  pose proof (np_as_str_map v1) as H. destruct (as_str_map v1) as [fv|[]|]; auto with np. now elim H.
Qed.

Lemma np_as_xrange m : np (as_xrange m).
Proof. unfold as_xrange. apply np_bind; auto with np. intros. apply np_mapM. intros. apply np_as_xrange_entry. Qed.

Lemma np_xread_generic {E} (conv : msg -> res (list E)) : (forall v, np (conv v)) -> forall m, np (xread_generic conv m).
Proof.
  intros Hc m. unfold xread_generic. destruct (msg_error m); auto with np.
  destruct (is_map m).
  - destruct (even_len (mvals m)) eqn:E0; auto with np. apply np_pair_loop; [|exact E0].
    intros k v s. apply np_bind; [apply Hc|]. intros; apply np_ok.
  - destruct (is_array m); auto with np.
    generalize (@nil (bytes * list E)). induction (mvals m) as [|v rest IH]; intro acc; auto with np.
    destruct (negb (is_array v) || negb (length (mvals v) =? 2)%nat) eqn:E1; auto with np.
    apply orb_false_iff in E1. destruct E1 as [_ E1]. apply negb_false_iff in E1. apply Nat.eqb_eq in E1.
    apply np_bind; [apply np_idx; lia|]. intros k _. apply np_bind; [apply np_idx; lia|]. intros es _.
    apply np_bind; [apply Hc|]. intros x _. apply IH.
Qed.

Lemma np_as_xread m : np (as_xread m).
Proof. apply np_xread_generic. apply np_as_xrange. Qed.

Lemma div2_bound n : (2 * Nat.div2 n <= n)%nat.
Proof. pose proof (Nat.div2_odd n). destruct (Nat.odd n); cbn [Nat.b2n] in *; lia. Qed.

Lemma np_slice_pairs fa : forall n i, (2 * (i + n) <= length fa)%nat -> np (slice_pairs fa n i).
Proof.
  induction n as [|n IH]; intros i H; cbn [slice_pairs]; auto with np.
  apply np_bind; [apply np_idx; lia|]. intros f _. apply np_bind; [apply np_idx; lia|]. intros v _.
  apply np_bind; [apply IH; lia|]. intros; apply np_ok.
Qed.

Lemma np_as_xrange_slice m : np (as_xrange_slice m).
Proof.
  unfold as_xrange_slice. apply np_bind; auto with np. intros vs _.
  destruct vs as [|v0 [|v1 [|v2 r]]]; cbn [length Nat.eqb negb]; auto with np.
  cbn [idx nth_error rbind]. apply np_bind; auto with np. intros id _.
  pose proof (np_to_array v1) as H. destruct (to_array v1) as [fa|[]|]; auto with np; [|now elim H].
  apply np_bind; [|intros; apply np_ok]. apply np_slice_pairs. pose proof (div2_bound (length fa)). lia.
Qed.

Lemma np_as_xrange_slices m : np (as_xrange_slices m).
Proof. unfold as_xrange_slices. apply np_bind; auto with np. intros. apply np_mapM. intros. apply np_as_xrange_slice. Qed.

Lemma np_as_xread_slices m : np (as_xread_slices m).
Proof. apply np_xread_generic. apply np_as_xrange_slices. Qed.

#[export] Hint Resolve np_as_xrange_entry np_as_xrange np_as_xread np_as_xrange_slice np_as_xrange_slices np_as_xread_slices : np.

(** ---- sorted sets, scan, pops ---- *)
Lemma np_to_zscore e vs : np (to_zscore e vs).
Proof.
  unfold to_zscore. destruct vs as [|v0 [|v1 [|v2 r]]]; cbn [length Nat.eqb]; auto with np.
  cbn [idx nth_error rbind]. apply np_bind; auto with np. intros. apply np_bind; auto with np.
Qed.

Lemma np_as_zscore e m : np (as_zscore e m).
Proof. unfold as_zscore. apply np_bind; auto with np. intros. apply np_to_zscore. Qed.

Lemma np_zscore_chunks e arr : forall n i, (2 * (i + n) <= length arr)%nat -> np (zscore_chunks e arr n i).
Proof.
  induction n as [|n IH]; intros i H; cbn [zscore_chunks]; auto with np.
  destruct (Nat.ltb_spec (length arr) (i * 2 + 2)); [lia|].
  apply np_bind; [apply np_to_zscore|]. intros. apply np_bind; [apply IH; lia|]. intros; apply np_ok.
Qed.

Lemma np_as_zscores e m : np (as_zscores e m).
Proof.
  unfold as_zscores. apply np_bind; auto with np. intros arr _.
  destruct (match arr with a0 :: _ => is_array a0 | [] => false end).
  - apply np_mapM. intros. apply np_to_zscore.
  - apply np_zscore_chunks. pose proof (div2_bound (length arr)). lia.
Qed.

Lemma np_as_scan_entry m : np (as_scan_entry m).
Proof.
  unfold as_scan_entry. apply np_bind; auto with np. intros msgs _.
  destruct (Nat.leb_spec 2 (length msgs)); auto with np.
  apply np_bind; [apply np_idx; lia|]. intros. apply np_bind; auto with np. intros.
  apply np_bind; [apply np_idx; lia|]. intros. apply np_bind; auto with np.
Qed.

Lemma np_as_lmpop m : np (as_lmpop m).
Proof.
  unfold as_lmpop. destruct (msg_error m); auto with np.
  destruct (Nat.leb_spec 2 (length (mvals m))); auto with np.
  apply np_bind; [apply np_idx; lia|]. intros. apply np_bind; [apply np_idx; lia|]. intros.
  apply np_bind; auto with np.
Qed.

Lemma np_as_zmpop e m : np (as_zmpop e m).
Proof.
  unfold as_zmpop. destruct (msg_error m); auto with np.
  destruct (Nat.leb_spec 2 (length (mvals m))); auto with np.
  apply np_bind; [apply np_idx; lia|]. intros. apply np_bind; [apply np_idx; lia|]. intros.
  apply np_bind; [apply np_as_zscores|]. intros; apply np_ok.
Qed.

#[export] Hint Resolve np_to_zscore np_as_zscore np_as_zscores np_as_scan_entry np_as_lmpop np_as_zmpop : np.

(** ---- search ---- *)
Lemma np_fts_record e r : np (fts_record e r).
Proof.
  unfold fts_record. apply np_pair_loop_guarded. intros k v d.
  repeat split_if; apply np_ok.
Qed.

Lemma np_first_as_error {A} v (k : res A) : np k -> np (first_as_error v k).
Proof. unfold first_as_error. destruct (mvals v); auto with np. Qed.

Lemma np_as_ft_search e m : np (as_ft_search e m).
Proof.
  unfold as_ft_search. destruct (msg_error m); auto with np. destruct (is_map m).
  - apply np_pair_loop_guarded. intros k v st. repeat split_if; auto with np.
    + apply np_bind; [apply np_mapM; intros; apply np_fts_record|]. intros; apply np_ok.
    + apply np_first_as_error. apply np_ok.
  - destruct (mvals m) as [|v0 rest] eqn:Ev; auto with np.
    apply np_bind.
    + destruct (Nat.ltb_spec 2 (length (v0 :: rest))); auto with np.
      apply np_bind; [apply np_idx; lia|]. intros v2 _. destruct (mstr v2); auto with np.
      apply np_bind; [apply np_idx; lia|]. intros; apply np_ok.
    + intros [wscore wattrs0] _. apply np_bind.
      * destruct (Nat.ltb_spec 3 (length (v0 :: rest))); auto with np.
        apply np_bind; [apply np_idx; lia|]. intros; apply np_ok.
      * intros; apply np_ok.
Qed.

Lemma np_fta_record r : np (fta_record r).
Proof. unfold fta_record. apply np_pair_loop_guarded. intros k v d. split_if; apply np_ok. Qed.

Lemma np_as_ft_aggregate m : np (as_ft_aggregate m).
Proof.
  unfold as_ft_aggregate. destruct (msg_error m); auto with np. destruct (is_map m).
  - apply np_pair_loop_guarded. intros k v st. repeat split_if; auto with np.
    + apply np_bind; [apply np_mapM; intros; apply np_fta_record|]. intros; apply np_ok.
    + apply np_first_as_error. apply np_ok.
  - destruct (mvals m); auto with np.
Qed.

Lemma np_as_ft_aggregate_cursor m : np (as_ft_aggregate_cursor m).
Proof.
  unfold as_ft_aggregate_cursor.
  destruct (is_array m && (length (mvals m) =? 2)%nat && match mvals m with v0 :: _ => is_array v0 || is_map v0 | [] => false end) eqn:E.
  - apply andb_true_iff in E. destruct E as [E _]. apply andb_true_iff in E. destruct E as [_ E]. apply Nat.eqb_eq in E.
    apply np_bind; [apply np_idx; lia|]. intros. apply np_bind; [apply np_as_ft_aggregate|]. intros.
    apply np_bind; [apply np_idx; lia|]. intros; apply np_ok.
  - apply np_bind; [apply np_as_ft_aggregate|]. intros; apply np_ok.
Qed.

(** ---- geo ---- *)
Lemma np_geo_one e v : np (geo_one e v).
Proof.
  unfold geo_one. destruct (is_string v); auto with np.
  destruct (mvals v) as [|i0 info] eqn:Ev; auto with np.
  cbn [idx nth_error rbind].
  apply np_bind.
  - destruct info as [|x1 info']; auto with np. destruct (mstr x1); auto with np.
    match goal with |- context [to_float64_s e ?s] => destruct (to_float64_s e s) as [d [|]] end; auto with np.
  - intros [dist i] _.
    destruct (match nth_error (i0 :: info) i with Some x => if is_int64 x then (mintlen x, S i) else (0%Z, i) | None => (0%Z, i) end) as [hash i'].
    destruct (nth_error (i0 :: info) i') as [x|]; auto with np.
    destruct (has_arr x); auto with np.
    destruct (Nat.ltb_spec (length (mvals x)) 2); auto with np.
    apply np_bind; [apply np_idx; lia|]. intros. apply np_bind; [apply np_idx; lia|]. intros; apply np_ok.
Qed.

Lemma np_as_geosearch e m : np (as_geosearch e m).
Proof. unfold as_geosearch. apply np_bind; auto with np. intros. apply np_mapM. intros. apply np_geo_one. Qed.

#[export] Hint Resolve np_as_ft_search np_as_ft_aggregate np_as_ft_aggregate_cursor np_as_geosearch : np.

(** ---- ToAny: induction over the whole tree ---- *)
Section MsgInd.
  Variable P : msg -> Prop.
  Hypothesis HInt : forall t i a, P (MInt t i a).
  Hypothesis HStr : forall t s a, P (MStr t s a).
  Hypothesis HArr : forall t l a, Forall P l -> P (MArr t l a).
  Fixpoint msg_ind' (m : msg) : P m :=
    match m with
    | MInt t i a => HInt t i a
    | MStr t s a => HStr t s a
    | MArr t l a =>
      HArr t l a ((fix go (l : list msg) : Forall P l :=
                     match l with
                     | [] => Forall_nil P
                     | x :: r => Forall_cons x (msg_ind' x) (go r)
                     end) l)
    end.
End MsgInd.

Lemma np_any_elem r : np r -> np (any_elem r).
Proof. unfold np. destruct r as [v|[]|]; cbn; try discriminate. auto. Qed.

Lemma np_to_any e : forall m, np (to_any e m).
Proof.
  induction m as [t i a|t s a|t l a IH] using msg_ind'.
  - cbn [to_any]. destruct (msg_error _); auto with np. cbv zeta.
    repeat split_if; auto with np. destruct (to_float64_s e _) as [v [|]]; auto with np.
  - cbn [to_any]. destruct (msg_error _); auto with np. cbv zeta.
    repeat split_if; auto with np. destruct (to_float64_s e _) as [v [|]]; auto with np.
  - cbn [to_any]. destruct (msg_error _); auto with np. cbv zeta.
    repeat split_if; auto with np.
    + destruct (to_float64_s e _) as [v [|]]; auto with np.
    + apply np_bind; [|intros; apply np_ok].
      match goal with H : even_len l = true |- _ => revert H end. generalize (@nil (bytes * any)).
      revert IH. clear. revert l. fix F 1. intros [|k [|v r]] IH acc He.
      * apply np_ok.
      * discriminate.
      * inversion IH as [|? ? _ IH1]; subst. inversion IH1 as [|? ? Hv IH2]; subst.
        apply np_bind; [apply np_any_elem; exact Hv|]. intros x _. apply F; [exact IH2|exact He].
    + apply np_bind; [|intros; apply np_ok].
      clear - IH. induction IH as [|v r Hv _ IHr]; [apply np_ok|].
      apply np_bind; [apply np_any_elem; exact Hv|]. intros x _. apply np_bind; [exact IHr|]. intros; apply np_ok.
Qed.

Lemma np_decode_slice_of_json e m : np (decode_slice_of_json e m).
Proof.
  unfold decode_slice_of_json. apply np_bind; auto with np. intros vs _. apply np_bind; [|intros; apply np_ok].
  apply np_mapM. intros v _. pose proof (np_decode_json e v) as H.
  destruct (decode_json e v) as [u|[]|]; auto with np.
Qed.

(** ---- all accessors ---- *)
Theorem run_no_panic e a m : run e a m <> RPanic.
Proof.
  change (np (run e a m)).
  destruct a; cbn [run]; try apply np_rmap; unfold as_reader, as_bytes; auto with np;
    try apply np_to_any; try apply np_decode_slice_of_json; try (destruct (msg_error m); auto with np).
Qed.

Theorem run_result_no_panic e a rerr m : run_result e a rerr m <> RPanic.
Proof. destruct rerr; cbn [run_result]; [discriminate|apply run_no_panic]. Qed.

(** ---- classifiers ---- *)
Lemma np_redirect_addr prefix field text : np (redirect_addr prefix field text).
Proof.
  unfold redirect_addr. destruct (has_prefix text prefix); auto with np.
  destruct (Nat.ltb_spec field (length (split_byte 32 text))); auto with np.
  apply np_bind; [now apply np_idx|]. intros; apply np_ok.
Qed.

Theorem classify_no_panic k text : classify k text <> RPanic.
Proof. destruct k; cbn [classify]; try discriminate; apply np_rmap; apply np_redirect_addr. Qed.

(** what the original classifiers did: a panic exactly when the prefix matches and the field is missing *)
Theorem redirect_before_fix_characterised prefix field text :
  redirect_addr_before_fix prefix field text = RPanic <->
  has_prefix text prefix = true /\ (length (split_byte 32 text) <= field)%nat.
Proof.
  unfold redirect_addr_before_fix. destruct (has_prefix text prefix).
  - unfold idx. destruct (nth_error (split_byte 32 text) field) eqn:E; cbn [rbind].
    + split; [discriminate|]. intros [_ H]. apply nth_error_None in H. congruence.
    + split; auto. intros _. split; [reflexivity|]. now apply nth_error_None.
  - split; [discriminate|]. intros [H _]. discriminate.
Qed.

Lemma redirect_fix_agrees prefix field text :
  redirect_addr_before_fix prefix field text <> RPanic ->
  redirect_addr prefix field text = redirect_addr_before_fix prefix field text.
Proof.
  intro H. unfold redirect_addr, redirect_addr_before_fix in *. destruct (has_prefix text prefix); [|reflexivity].
  destruct (Nat.ltb_spec field (length (split_byte 32 text))) as [Hl|Hl]; [reflexivity|].
  exfalso. apply H. unfold idx. apply nth_error_None in Hl. now rewrite Hl.
Qed.
