(** C43: from the finite check of the delegation table to statements about every wrapper value,
    hence about every client derived through Dedicated / Dedicate / Nodes, at any depth. *)
From Coq Require Import List NArith Bool.
Require Import RV.Model.Base RV.Model.Hook.
Import ListNotations.
Open Scope N_scope.

Section Table.
Variable tbl : list entry.
Hypothesis Hok : table_ok tbl = true.

Lemma ok_parts :
  forallb (via_hook_ok tbl WHookclient) client_requests = true /\
  forallb (via_hook_ok tbl WDedicated) dedicated_requests = true /\
  forallb (passthrough_ok tbl WHookclient) client_passthrough = true /\
  forallb (passthrough_ok tbl WDedicated) dedicated_passthrough = true /\
  (match lookup tbl WHookclient mDedicated with Some (BWrapCallback c WDedicated true true true) => c =? mDedicated | _ => false end) = true /\
  (match lookup tbl WHookclient mDedicate with Some (BWrapResult c WDedicated true true true) => c =? mDedicate | _ => false end) = true /\
  (match lookup tbl WHookclient mNodes with Some (BWrapMap c WHookclient true true) => c =? mNodes | _ => false end) = true.
Proof.
  pose proof Hok as H. unfold table_ok in H.
  apply andb_prop in H. destruct H as [H _].
  apply andb_prop in H. destruct H as [H _].
  apply andb_prop in H. destruct H as [H H7].
  apply andb_prop in H. destruct H as [H H6].
  apply andb_prop in H. destruct H as [H H5].
  apply andb_prop in H. destruct H as [H H4].
  apply andb_prop in H. destruct H as [H H3].
  apply andb_prop in H. destruct H as [H1 H2].
  repeat split; assumption.
Qed.

Lemma via_hook_call en v m :
  via_hook_ok tbl (wtype_of v) m = true -> call tbl en v m = Some ([EvHook m (inner_of v)], [], true).
Proof.
  unfold via_hook_ok, call. destruct (lookup tbl (wtype_of v) m) as [b|]; [|discriminate].
  destruct b as [[|] c [|] [|] [|]| | | |]; try discriminate. intros H. apply N.eqb_eq in H. now subst.
Qed.

(** every request entry point of every wrapper value goes through the hook exactly once, the hook is handed
    the underlying (un-hooked) client, and the caller receives the hook's result *)
Theorem request_once en v m :
  In m (requests_of v) -> call tbl en v m = Some ([EvHook m (inner_of v)], [], true).
Proof.
  intros Hin. apply via_hook_call.
  destruct ok_parts as (A & B & _).
  destruct v as [i|i]; cbn [requests_of wtype_of] in *.
  - rewrite forallb_forall in A. now apply A.
  - rewrite forallb_forall in B. now apply B.
Qed.

Theorem dedicated_wrapped en i :
  call tbl en (HC i) mDedicated = Some ([EvInner mDedicated i], [HD (env_dedicate en i)], true) /\
  call tbl en (HC i) mDedicate = Some ([EvInner mDedicate i], [HD (env_dedicate en i)], true).
Proof.
  destruct ok_parts as (_ & _ & _ & _ & C & D & _). unfold call. cbn [wtype_of inner_of]. split.
  - destruct (lookup tbl WHookclient mDedicated) as [b|]; [|discriminate].
    destruct b as [| c [| |] [|] [|] [|] | | |]; try discriminate. apply N.eqb_eq in C. now subst.
  - destruct (lookup tbl WHookclient mDedicate) as [b|]; [|discriminate].
    destruct b as [| | c [| |] [|] [|] [|] | |]; try discriminate. apply N.eqb_eq in D. now subst.
Qed.

Lemma all_some_wrap_HC l : all_some_w (map (wrap WHookclient) l) = Some (map HC l).
Proof. induction l as [|x l IH]; cbn; [reflexivity|]. now rewrite IH. Qed.

Theorem nodes_wrapped en i :
  call tbl en (HC i) mNodes = Some ([EvInner mNodes i], map HC (env_nodes en i), true).
Proof.
  destruct ok_parts as (_ & _ & _ & _ & _ & _ & E). unfold call. cbn [wtype_of inner_of].
  destruct (lookup tbl WHookclient mNodes) as [b|]; [|discriminate].
  destruct b as [| | | c [| |] [|] [|] |]; try discriminate. apply N.eqb_eq in E. subst.
  now rewrite all_some_wrap_HC.
Qed.

(** clients derived at any depth are wrapper values again, so [request_once] applies to them *)
Theorem derived_request_once en : forall p v v' m,
  derive tbl en v p = Some v' -> In m (requests_of v') ->
  call tbl en v' m = Some ([EvHook m (inner_of v')], [], true).
Proof. intros p v v' m _ Hin. now apply request_once. Qed.

(** and the derivations never fail on a hooked client: Dedicated / Dedicate give a hooked dedicated client,
    Nodes gives hooked clients for every node *)
Theorem derive_defined en i :
  derive1 tbl en (HC i) DDedicated = Some (HD (env_dedicate en i)) /\
  derive1 tbl en (HC i) DDedicate = Some (HD (env_dedicate en i)) /\
  forall k, derive1 tbl en (HC i) (DNode k) = nth_error (map HC (env_nodes en i)) k.
Proof.
  destruct (dedicated_wrapped en i) as [A B]. unfold derive1. rewrite A, B, (nodes_wrapped en i). repeat split.
Qed.

(** pass-through methods reach the underlying client directly, with no hook event *)
Theorem passthrough_direct en v m :
  In m (match v with HC _ => client_passthrough | HD _ => dedicated_passthrough end) ->
  exists a, call tbl en v m = Some ([EvInner m (inner_of v)], [], true) \/ call tbl en v m = Some ([EvInner m (inner_of v)], [], a).
Proof.
  intros Hin. exists true. left.
  destruct ok_parts as (_ & _ & P & Q & _).
  assert (Hp : passthrough_ok tbl (wtype_of v) m = true).
  { destruct v; cbn [wtype_of]; [rewrite forallb_forall in P; now apply P|rewrite forallb_forall in Q; now apply Q]. }
  unfold passthrough_ok in Hp. unfold call. destruct (lookup tbl (wtype_of v) m) as [b|]; [|discriminate].
  destruct b as [[|] c f [|] [|]| | | |]; try discriminate. apply N.eqb_eq in Hp. now subst.
Qed.

(** * Stacked hooks *)

Lemma lookup_request t m : via_hook_ok tbl t m = true -> exists f r, lookup tbl t m = Some (BDeleg OHook m true f r).
Proof.
  unfold via_hook_ok. destruct (lookup tbl t m) as [b|]; [|discriminate].
  destruct b as [[|] c [|] [|] [|]| | | |]; try discriminate. intros H. apply N.eqb_eq in H. subst. eauto.
Qed.

(** every hook of the stack sees the request exactly once, outermost first, then the underlying client *)
Theorem stack_once : forall ls i m, In m client_requests ->
  scall tbl (stack ls i) m = Some (map (fun l => SHook l m) ls ++ [SInner m i]).
Proof.
  intros ls i m Hin. destruct ok_parts as (A & _). rewrite forallb_forall in A.
  destruct (lookup_request _ _ (A m Hin)) as (f & r & Hl).
  induction ls as [|l ls IH]; [reflexivity|].
  cbn [stack fold_right scall]. fold (stack ls i). rewrite Hl, IH. reflexivity.
Qed.

Theorem dstack_once : forall ls j m, In m dedicated_requests ->
  sdcall tbl (dstack ls j) m = Some (map (fun l => SHook l m) ls ++ [SInner m j]).
Proof.
  intros ls j m Hin. destruct ok_parts as (_ & B & _). rewrite forallb_forall in B.
  destruct (lookup_request _ _ (B m Hin)) as (f & r & Hl).
  induction ls as [|l ls IH]; [reflexivity|].
  cbn [dstack fold_right sdcall]. fold (dstack ls j). rewrite Hl, IH. reflexivity.
Qed.

(** the derived clients of a stack are stacks of the same hooks over the derived underlying clients *)
Theorem stack_dedicate en : forall ls i,
  sdedicate tbl en mDedicate (stack ls i) = Some (dstack ls (env_dedicate en i)) /\
  sdedicate tbl en mDedicated (stack ls i) = Some (dstack ls (env_dedicate en i)).
Proof.
  destruct ok_parts as (_ & _ & _ & _ & C & D & _).
  induction ls as [|l ls IH]; intros i; [split; reflexivity|].
  destruct (IH i) as [I1 I2]. cbn [stack fold_right sdedicate dstack]. fold (stack ls i). fold (dstack ls (env_dedicate en i)). split.
  - destruct (lookup tbl WHookclient mDedicate) as [b|]; [|discriminate].
    destruct b as [| | c [| |] [|] [|] [|] | |]; try discriminate. rewrite D, I1. reflexivity.
  - destruct (lookup tbl WHookclient mDedicated) as [b|]; [|discriminate].
    destruct b as [| c [| |] [|] [|] [|] | | |]; try discriminate. rewrite C, I2. reflexivity.
Qed.

Theorem stack_nodes en : forall ls i,
  snodes tbl en (stack ls i) = Some (map (stack ls) (env_nodes en i)).
Proof.
  destruct ok_parts as (_ & _ & _ & _ & _ & _ & E).
  induction ls as [|l ls IH]; intros i; [reflexivity|].
  cbn [stack fold_right snodes]. fold (stack ls i).
  destruct (lookup tbl WHookclient mNodes) as [b|]; [|discriminate].
  destruct b as [| | | c [| |] [|] [|] |]; try discriminate. rewrite E, IH. cbn [option_map]. now rewrite map_map.
Qed.

(** any chain of derivations from a stack ends in a stack of the same hooks (over the derived underlying client) *)
Theorem stack_derive en : forall p ls i x,
  sderive tbl en (stack ls i) p = Some x ->
  (exists j, x = inl (stack ls j)) \/ (exists j, x = inr (dstack ls j)).
Proof.
  induction p as [|d p IH]; intros ls i x H; cbn [sderive] in H.
  - inversion H; subst. left. eauto.
  - destruct d as [| |k].
    + destruct (stack_dedicate en ls i) as [_ E]. rewrite E in H. inversion H; subst. right. eauto.
    + destruct (stack_dedicate en ls i) as [E _]. rewrite E in H. inversion H; subst. right. eauto.
    + rewrite stack_nodes in H.
      destruct (nth_error (map (stack ls) (env_nodes en i)) k) as [c'|] eqn:En; [|discriminate].
      apply nth_error_In in En. apply in_map_iff in En. destruct En as (j & <- & _).
      exact (IH ls j x H).
Qed.

End Table.
