(** C43: from the finite check of the delegation table to statements about every wrapper value,
    hence about every client derived through Dedicated / Dedicate / Nodes, at any depth. *)
From Coq Require Import List NArith Bool.
Require Import RV.Model.Base RV.Model.Hook.
Import ListNotations.
Open Scope N_scope.

Section Table.
Variable tbl : list entry.
Hypothesis Hok : table_ok tbl = true.

Lemma ok_parts :
  forallb (via_hook_ok tbl WHookclient) client_requests = true /\
  forallb (via_hook_ok tbl WDedicated) dedicated_requests = true /\
  forallb (passthrough_ok tbl WHookclient) client_passthrough = true /\
  forallb (passthrough_ok tbl WDedicated) dedicated_passthrough = true /\
  (match lookup tbl WHookclient mDedicated with Some (BWrapCallback c WDedicated true true true) => c =? mDedicated | _ => false end) = true /\
  (match lookup tbl WHookclient mDedicate with Some (BWrapResult c WDedicated true true true) => c =? mDedicate | _ => false end) = true /\
  (match lookup tbl WHookclient mNodes with Some (BWrapMap c WHookclient true true) => c =? mNodes | _ => false end) = true.
Proof.
  pose proof Hok as H. unfold table_ok in H.
  apply andb_prop in H. destruct H as [H _].
  apply andb_prop in H. destruct H as [H _].
  apply andb_prop in H. destruct H as [H H7].
  apply andb_prop in H. destruct H as [H H6].
  apply andb_prop in H. destruct H as [H H5].
  apply andb_prop in H. destruct H as [H H4].
  apply andb_prop in H. destruct H as [H H3].
  apply andb_prop in H. destruct H as [H1 H2].
  repeat split; assumption.
Qed.

Lemma via_hook_call en v m :
  via_hook_ok tbl (wtype_of v) m = true -> call tbl en v m = Some ([EvHook m (inner_of v)], [], true).
Proof.
  unfold via_hook_ok, call. destruct (lookup tbl (wtype_of v) m) as [b|]; [|discriminate].
  destruct b as [[|] c [|] [|] [|]| | | |]; try discriminate. intros H. apply N.eqb_eq in H. now subst.
Qed.

(** every request entry point of every wrapper value goes through the hook exactly once, the hook is handed
    the underlying (un-hooked) client, and the caller receives the hook's result *)
Theorem request_once en v m :
  In m (requests_of v) -> call tbl en v m = Some ([EvHook m (inner_of v)], [], true).
Proof.
  intros Hin. apply via_hook_call.
  destruct ok_parts as (A & B & _).
  destruct v as [i|i]; cbn [requests_of wtype_of] in *.
  - rewrite forallb_forall in A. now apply A.
  - rewrite forallb_forall in B. now apply B.
Qed.

Theorem dedicated_wrapped en i :
  call tbl en (HC i) mDedicated = Some ([EvInner mDedicated i], [HD (env_dedicate en i)], true) /\
  call tbl en (HC i) mDedicate = Some ([EvInner mDedicate i], [HD (env_dedicate en i)], true).
Proof.
  destruct ok_parts as (_ & _ & _ & _ & C & D & _). unfold call. cbn [wtype_of inner_of]. split.
  - destruct (lookup tbl WHookclient mDedicated) as [b|]; [|discriminate].
    destruct b as [| c [| |] [|] [|] [|] | | |]; try discriminate. apply N.eqb_eq in C. now subst.
  - destruct (lookup tbl WHookclient mDedicate) as [b|]; [|discriminate].
    destruct b as [| | c [| |] [|] [|] [|] | |]; try discriminate. apply N.eqb_eq in D. now subst.
Qed.

Lemma all_some_wrap_HC l : all_some_w (map (wrap WHookclient) l) = Some (map HC l).
Proof. induction l as [|x l IH]; cbn; [reflexivity|]. now rewrite IH. Qed.

Theorem nodes_wrapped en i :
  call tbl en (HC i) mNodes = Some ([EvInner mNodes i], map HC (env_nodes en i), true).
Proof.
  destruct ok_parts as (_ & _ & _ & _ & _ & _ & E). unfold call. cbn [wtype_of inner_of].
  destruct (lookup tbl WHookclient mNodes) as [b|]; [|discriminate].
  destruct b as [| | | c [| |] [|] [|] |]; try discriminate. apply N.eqb_eq in E. subst.
  now rewrite all_some_wrap_HC.
Qed.

(** clients derived at any depth are wrapper values again, so [request_once] applies to them *)
Theorem derived_request_once en : forall p v v' m,
  derive tbl en v p = Some v' -> In m (requests_of v') ->
  call tbl en v' m = Some ([EvHook m (inner_of v')], [], true).
Proof. intros p v v' m _ Hin. now apply request_once. Qed.

(** and the derivations never fail on a hooked client: Dedicated / Dedicate give a hooked dedicated client,
    Nodes gives hooked clients for every node *)
Theorem derive_defined en i :
  derive1 tbl en (HC i) DDedicated = Some (HD (env_dedicate en i)) /\
  derive1 tbl en (HC i) DDedicate = Some (HD (env_dedicate en i)) /\
  forall k, derive1 tbl en (HC i) (DNode k) = nth_error (map HC (env_nodes en i)) k.
Proof.
  destruct (dedicated_wrapped en i) as [A B]. unfold derive1. rewrite A, B, (nodes_wrapped en i). repeat split.
Qed.

(** pass-through methods reach the underlying client directly, with no hook event *)
Theorem passthrough_direct en v m :
  In m (match v with HC _ => client_passthrough | HD _ => dedicated_passthrough end) ->
  exists a, call tbl en v m = Some ([EvInner m (inner_of v)], [], true) \/ call tbl en v m = Some ([EvInner m (inner_of v)], [], a).
Proof.
  intros Hin. exists true. left.
  destruct ok_parts as (_ & _ & P & Q & _).
  assert (Hp : passthrough_ok tbl (wtype_of v) m = true).
  { destruct v; cbn [wtype_of]; [rewrite forallb_forall in P; now apply P|rewrite forallb_forall in Q; now apply Q]. }
  unfold passthrough_ok in Hp. unfold call. destruct (lookup tbl (wtype_of v) m) as [b|]; [|discriminate].
  destruct b as [[|] c f [|] [|]| | | |]; try discriminate. apply N.eqb_eq in Hp. now subst.
Qed.

End Table.
