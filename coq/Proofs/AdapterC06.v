(** C06 for NewSimpleCacheAdapter: where every value of the SimpleCache comes from, and why a hit is
    never a reply from before an invalidation (for callers that read the clock after it). *)
From Coq Require Import List NArith ZArith Bool Lia Permutation.
Require Import RV.Model.Base RV.Model.Lru RV.Model.Adapter RV.Proofs.LruBase RV.Proofs.AdapterProofs.
Import ListNotations.
Open Scope Z_scope.

Definition a_lookup_at (o : aop) : option Z :=
  match o with AFlight _ _ _ now | AFlightFast _ _ now | AFlightSlow _ _ _ now => Some now | _ => None end.

(** the value [v] stored under [sk] was committed by the Update at position [u] for command (k, c)
    with k ++ c = sk, and either (A) the command still carries the nil marker and its key was not
    invalidated since, or (B) some later lookup already found the value expired, and the key was not
    invalidated between the commit and that lookup *)
Definition sorigin (ops : list aop) (s : astate) (sk : bytes) (v : msg) : Prop :=
  exists u k c v0,
    nth_error ops u = Some (AUpdate k c v0) /\ sk = k ++ c /\ (exists x, v = set_xat v0 x) /\
    ( ((exists fl, aflights s = Some fl /\ flookup k c fl = Some None) /\
       forall j o, (u < j)%nat -> nth_error ops j = Some o -> ~ a_invalidates k o)
      \/
      (exists q oq now, (u < q)%nat /\ nth_error ops q = Some oq /\ a_lookup_at oq = Some now /\
         m_xat v <= unix_milli now /\
         forall j o, (u < j < q)%nat -> nth_error ops j = Some o -> ~ a_invalidates k o) ).

Lemma set_xat_self v : v = set_xat v (m_xat v).
Proof. destruct v. reflexivity. Qed.
Lemma set_xat_set v x y : set_xat (set_xat v x) y = set_xat v y.
Proof. destruct v. reflexivity. Qed.

Lemma nth_snoc_old {A : Type} (l : list A) x j y : (j < length l)%nat -> nth_error (l ++ [x]) j = Some y -> nth_error l j = Some y.
Proof. intros H. rewrite nth_error_app1 by exact H. tauto. Qed.

Lemma nth_snoc_cases {A : Type} (l : list A) x j y :
  nth_error (l ++ [x]) j = Some y -> ((j < length l)%nat /\ nth_error l j = Some y) \/ (j = length l /\ y = x).
Proof.
  intro H. destruct (Nat.lt_ge_cases j (length l)) as [Hl|Hl].
  - left. split; [exact Hl|]. rewrite nth_error_app1 in H by exact Hl. exact H.
  - right. rewrite nth_error_app2 in H by exact Hl.
    destruct (j - length l)%nat as [|m] eqn:E; [|destruct m; discriminate]. injection H as <-. split; [lia|reflexivity].
Qed.

(** a row untouched by the new operation keeps its origin provided case (A) can be re-established *)
Lemma sorigin_extend ops o s s' sk v :
  sorigin ops s sk v ->
  (forall k c, sk = k ++ c ->
     (exists fl, aflights s = Some fl /\ flookup k c fl = Some None) ->
     ((exists fl', aflights s' = Some fl' /\ flookup k c fl' = Some None) /\ ~ a_invalidates k o)
     \/ (exists now, a_lookup_at o = Some now /\ m_xat v <= unix_milli now)) ->
  sorigin (ops ++ [o]) s' sk v.
Proof.
  intros [u [k [c [v0 [Hu [Hsk [Hx Hcase]]]]]]] Hstep.
  assert (Hul : (u < length ops)%nat) by (apply nth_error_Some; congruence).
  exists u, k, c, v0. split; [rewrite nth_error_app1; assumption|]. split; [exact Hsk|]. split; [exact Hx|].
  destruct Hcase as [[HA Hinv]|[q [oq [now [Hq [Hoq [Hat [Hexp Hinv]]]]]]]].
  - destruct (Hstep k c Hsk HA) as [[HA' Hno]|[now [Hat Hexp]]].
    + left. split; [exact HA'|]. intros j o' Hj Hn. apply nth_snoc_cases in Hn.
      destruct Hn as [[Hjl Hn]|[_ ->]]; [eapply Hinv; eassumption|exact Hno].
    + right. exists (length ops), o, now. split; [exact Hul|]. split; [rewrite nth_error_app2, Nat.sub_diag by lia; reflexivity|].
      split; [exact Hat|]. split; [exact Hexp|]. intros j o' Hj Hn. apply nth_snoc_cases in Hn.
      destruct Hn as [[Hjl Hn]|[Hje _]]; [eapply Hinv; [|exact Hn]; lia|lia].
  - right. assert (Hql : (q < length ops)%nat) by (apply nth_error_Some; congruence).
    exists q, oq, now. split; [exact Hq|]. split; [rewrite nth_error_app1; assumption|]. split; [exact Hat|]. split; [exact Hexp|].
    intros j o' Hj Hn. apply nth_snoc_cases in Hn. destruct Hn as [[Hjl Hn]|[Hje _]]; [eapply Hinv; eassumption|lia].
Qed.

Lemma aslow_cases s k c ttl now :
  fst (aslow s k c ttl now) = s \/
  (a_live (sget (k ++ c) (astore s)) now = false /\
   exists fl x, aflights s = Some fl /\ fst (aslow s k c ttl now) = mkA (Some (fset k c (Some x) fl)) (astore s) (N.succ (anext s))).
Proof.
  unfold aslow. destruct (a_live (sget (k ++ c) (astore s)) now) eqn:El; [left; reflexivity|].
  destruct (aflights s) as [fl|] eqn:Ef; [|left; reflexivity].
  destruct (flookup k c fl) as [[ae|]|]; [left; reflexivity| |]; right; (split; [reflexivity|]); eexists _, _; (split; [reflexivity|reflexivity]).
Qed.

Lemma aflight_cases s k c ttl now :
  fst (aflight s k c ttl now) = s \/ fst (aflight s k c ttl now) = fst (aslow s k c ttl now).
Proof. unfold aflight. destruct (afast s k c now); auto. Qed.

Lemma app_pair_neq (k c k1 c1 : bytes) : k ++ c <> k1 ++ c1 -> (k1, c1) <> (k, c).
Proof. intros H E. injection E as -> ->. apply H. reflexivity. Qed.

Theorem sorigin_run ops :
  let s := arun ops ainit in
  forall sk v, In (SR sk v) (astore s) -> is_pending_msg v = false -> sorigin ops s sk v.
Proof.
  induction ops as [|o ops IH] using rev_ind; cbv zeta in *; [intros sk v []|].
  rewrite arun_snoc. pose proof (ainv_run ops) as Hi. set (s := arun ops ainit) in *.
  (* the lookups that may start a flight *)
  assert (Hlook : forall k1 c1 ttl now, a_lookup_at o = Some now ->
            forall sk v, In (SR sk v) (astore (fst (aslow s k1 c1 ttl now))) -> is_pending_msg v = false ->
            sorigin (ops ++ [o]) (fst (aslow s k1 c1 ttl now)) sk v).
  { intros k1 c1 ttl now Hat sk v Hin Hv.
    destruct (aslow_cases s k1 c1 ttl now) as [Hs|[Hl [fl [x [Hf Hs]]]]]; rewrite Hs in *.
    - apply (sorigin_extend ops o s s sk v (IH sk v Hin Hv)). intros k c _ HA. left. split; [exact HA|].
      destruct o; try discriminate; intros [].
    - cbn [astore] in Hin. apply (sorigin_extend ops o s _ sk v (IH sk v Hin Hv)). intros k c Hsk [fl0 [Hf0 HA]].
      rewrite Hf in Hf0. injection Hf0 as <-.
      destruct (list_eq_dec N.eq_dec k1 k) as [->|Hk]; [destruct (list_eq_dec N.eq_dec c1 c) as [->|Hc]|].
      + right. exists now. split; [exact Hat|]. subst sk.
        rewrite (sget_unique _ _ v (ai_store s Hi) Hin) in Hl.
        destruct (a_live v now) eqn:E; [discriminate|]. unfold a_live, rel_pttl in E. rewrite Hv in E. cbn in E.
        apply Z.ltb_ge in E. lia.
      + left. split; [|destruct o; try discriminate; intros []]. eexists. split; [reflexivity|].
        rewrite flookup_fset_other; [exact HA|congruence].
      + left. split; [|destruct o; try discriminate; intros []]. eexists. split; [reflexivity|].
        rewrite flookup_fset_other; [exact HA|congruence]. }
  assert (Hsame : forall sk v, In (SR sk v) (astore s) -> is_pending_msg v = false -> (forall k, ~ a_invalidates k o) ->
             sorigin (ops ++ [o]) s sk v).
  { intros sk v Hin Hv Hno. apply (sorigin_extend ops o s s sk v (IH sk v Hin Hv)). intros k c _ HA. left. split; [exact HA|apply Hno]. }
  intros sk v Hin Hv.
  destruct o as [k1 c1 ttl now|k1 c1 v1|k1 c1 err|keys|err|sk1|k1 c1 now|k1 c1 ttl now]; cbn [astep fst] in *.
  - (* AFlight *)
    destruct (aflight_cases s k1 c1 ttl now) as [Hs|Hs]; rewrite Hs in *.
    + apply Hsame; try assumption. intros k [].
    + apply (Hlook k1 c1 ttl now eq_refl); assumption.
  - (* AUpdate *)
    unfold aupdate in *. destruct (aflights s) as [fl|] eqn:Hf; [|apply Hsame; try assumption; intros k []].
    destruct (flookup k1 c1 fl) as [[ae|]|] eqn:Hl; try (apply Hsame; try assumption; intros k []).
    cbn [fst astore] in *. unfold sset in Hin. destruct Hin as [Hin|Hin].
    + (* the value just committed *)
      injection Hin as <- <-. exists (length ops), k1, c1, v1.
      split; [rewrite nth_error_app2, Nat.sub_diag by lia; reflexivity|]. split; [reflexivity|].
      split; [destruct ((axat ae <? m_xat v1) || (m_xat v1 =? 0)); [eexists; reflexivity|exists (m_xat v1); apply set_xat_self]|].
      left. split; [eexists; split; [reflexivity|apply flookup_fset_same]|].
      intros j o' Hj Hn. assert (nth_error (ops ++ [AUpdate k1 c1 v1]) j = None); [|congruence].
      apply nth_error_None. rewrite app_length. cbn. lia.
    + apply sdel_in in Hin. destruct Hin as [Hin Hne]. cbn [sr_key] in Hne.
      apply (sorigin_extend ops _ s _ sk v (IH sk v Hin Hv)). intros k c Hsk [fl0 [Hf0 HA]].
      rewrite Hf in Hf0. injection Hf0 as <-. left. split; [|intros []].
      eexists. split; [reflexivity|]. rewrite flookup_fset_other; [exact HA|]. apply app_pair_neq. congruence.
  - (* ACancel *)
    unfold acancel in *. destruct (aflights s) as [fl|] eqn:Hf; [|apply Hsame; try assumption; intros k []].
    destruct (flookup k1 c1 fl) as [[ae|]|] eqn:Hl; try (apply Hsame; try assumption; intros k []).
    cbn [fst astore] in *. apply (sorigin_extend ops _ s _ sk v (IH sk v Hin Hv)). intros k c Hsk [fl0 [Hf0 HA]].
    rewrite Hf in Hf0. injection Hf0 as <-. left. split; [|intros []].
    eexists. split; [reflexivity|]. rewrite flookup_fset_other; [exact HA|]. intro E. injection E as -> ->. congruence.
  - (* ADelete *)
    assert (Hp : forall p, (forall k, p k = false -> ~ a_invalidates k (ADelete keys)) ->
               In (SR sk v) (astore (adel_if p s)) -> sorigin (ops ++ [ADelete keys]) (adel_if p s) sk v).
    { intros p Hpk Hin'. unfold adel_if in *. destruct (aflights s) as [fl|] eqn:Hf.
      - cbn [astore] in Hin'. apply fold_sdel_in in Hin'. destruct Hin' as [Hin0 Hgone]. cbn [sr_key] in Hgone.
        apply (sorigin_extend ops _ s _ sk v (IH sk v Hin0 Hv)). intros k c Hsk [fl0 [Hf0 HA]].
        rewrite Hf in Hf0. injection Hf0 as <-. left.
        assert (Hrow : In (FR k c None) fl) by (apply flookup_some; exact HA).
        assert (Hpf : p k = false).
        { destruct (p k) eqn:E; [|reflexivity]. exfalso. apply (Hgone (FR k c None)); [|exact Hsk].
          apply filter_In. split; [exact Hrow|]. cbn. rewrite E. reflexivity. }
        split; [|apply Hpk; exact Hpf]. eexists. split; [reflexivity|].
        apply flookup_unique; [apply NoDup_map_filter; apply (ai_fl s Hi); exact Hf|].
        apply filter_In. split; [exact Hrow|]. cbn. rewrite Hpf. reflexivity.
      - rewrite (ai_closed s Hi Hf) in Hin'. contradiction. }
    unfold adelete in *. destruct keys as [ks|].
    + apply Hp; [|exact Hin]. intros k Hk Hinv. cbn in Hinv.
      assert (existsb (bytes_eqb k) ks = true); [|congruence].
      apply existsb_exists. exists k. split; [exact Hinv|apply bytes_eqb_refl].
    + apply Hp; [|exact Hin]. intros k Hk. discriminate.
  - (* AClose *) contradiction.
  - (* AStoreDrop *)
    cbn [astore] in Hin. apply sdel_in in Hin. destruct Hin as [Hin _].
    apply (sorigin_extend ops _ s _ sk v (IH sk v Hin Hv)). intros k c _ HA. left. split; [exact HA|intros []].
  - (* AFlightFast *) apply Hsame; try assumption. intros k [].
  - (* AFlightSlow *) apply (Hlook k1 c1 ttl now eq_refl); assumption.
Qed.

(** A hit for (k1, c1) is a reply committed by an Update of a command (k, c) stored under the same
    identity k ++ c = k1 ++ c1, still unexpired; and whenever the key k was invalidated (or the cache
    flushed / the connection lost) after that commit, some lookup that preceded the invalidation had
    read a later clock than the hit's caller — i.e. that caller did not start after the invalidation. *)
Theorem a_no_stale_hit ops o k1 c1 v :
  In (AHit v) (a_answers k1 c1 o (snd (astep (arun ops ainit) o))) ->
  exists u k c v0 x,
    nth_error ops u = Some (AUpdate k c v0) /\ k ++ c = k1 ++ c1 /\ v = set_xat v0 x /\
    unix_milli (a_now_of o) < m_xat v /\
    forall j oj, (u < j)%nat -> nth_error ops j = Some oj -> a_invalidates k oj ->
      exists q oq nowq, (q < j)%nat /\ nth_error ops q = Some oq /\ a_lookup_at oq = Some nowq /\
                        unix_milli (a_now_of o) < unix_milli nowq.
Proof.
  intro H. apply astep_hit in H. destruct H as [Hin [Hv Hlt]].
  destruct (sorigin_run ops _ v Hin Hv) as [u [k [c [v0 [Hu [Hsk [[x Hx] Hcase]]]]]]].
  exists u, k, c, v0, x. split; [exact Hu|]. split; [symmetry; exact Hsk|]. split; [exact Hx|]. split; [exact Hlt|].
  intros j oj Hj Hn Hinv. destruct Hcase as [[_ Hno]|[q [oq [nowq [Hq [Hoq [Hat [Hexp Hno]]]]]]]].
  - exfalso. eapply Hno; eassumption.
  - exists q, oq, nowq. destruct (Nat.lt_ge_cases q j) as [Hqj|Hqj].
    + split; [exact Hqj|]. split; [exact Hoq|]. split; [exact Hat|]. lia.
    + exfalso. destruct (Nat.eq_dec j q) as [->|Hne].
      * rewrite Hoq in Hn. injection Hn as <-. destruct oq; try discriminate; exact Hinv.
      * eapply (Hno j oj); [lia|exact Hn|exact Hinv].
Qed.
