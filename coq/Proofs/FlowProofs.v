(** Flow-buffer LTS: token conservation, FIFO order, exactly-once, own results, no blocked send,
    no stuck state - for every number of tokens, every number of putters, every schedule. *)
From Coq Require Import List NArith ZArith Bool Arith Lia.
Require Import RV.Model.Base RV.Model.Flow.
Import ListNotations.
Local Open Scope nat_scope.

Notation cnt := (count_occ Nat.eq_dec).

Definition optl {A} (o : option A) : list A := match o with Some x => [x] | None => [] end.
Definition rh_tok (st : state) : list nat := match rh st with Some (t, _, _) => [t] | None => [] end.
Definition rh_infl (st : state) : list (nat * nat) := match rh st with Some (t, i, false) => [(t, i)] | _ => [] end.
Definition toks (st : state) : list nat :=
  f st ++ map snd (ph st) ++ map fst (w st) ++ map fst (optl (wh st)) ++ map fst (r st) ++ rh_tok st.
(** commands on their way, oldest first *)
Definition inflight (st : state) : list (nat * nat) := rh_infl st ++ r st ++ optl (wh st) ++ w st.
Definition swap (x : nat * nat) : nat * nat := (snd x, fst x).

Record InvF (n : nat) (st : state) : Prop := {
  f_len : length (toks st) = n;
  f_dup : forall x, cnt (toks st) x <= 1;
  f_wt : map swap (wt st) = inflight st;
  f_sent : sent st = wseq st ++ map snd (w st);
  f_wseq : wseq st = rseq st ++ map snd (r st) ++ map snd (optl (wh st));
  f_ids : forall p, cnt (map fst (ph st)) p + cnt (sent st) p <= 1 /\
                    (1 <= cnt (map fst (ph st)) p + cnt (sent st) p -> 1 <= p <= nt st);
  f_recv : own_results (recv st) = true
}.

Definition reachable (n : nat) (st : state) : Prop := exists sch, run n sch (init n) = Some st.

Lemma run_app : forall n a b st, run n (a ++ b) st = match run n a st with Some st' => run n b st' | None => None end.
Proof.
  intros n a. induction a as [|l rest IH]; intros b st; cbn [app run]; [reflexivity|].
  destruct (lstep n st l); [apply IH|reflexivity].
Qed.

Lemma reachable_ind : forall n (P : state -> Prop),
  P (init n) -> (forall st l st', P st -> lstep n st l = Some st' -> P st') ->
  forall st, reachable n st -> P st.
Proof.
  intros n P H0 Hs st [sch Hr]. revert st Hr.
  induction sch as [|l rest IH] using rev_ind; intros st Hr.
  - cbn [run] in Hr. inversion Hr; subst. exact H0.
  - rewrite run_app in Hr. destruct (run n rest (init n)) as [s1|] eqn:E; [|discriminate].
    cbn [run] in Hr. destruct (lstep n s1 l) as [s2|] eqn:E2; [|discriminate].
    inversion Hr; subst. eapply Hs; [apply IH; reflexivity|exact E2].
Qed.

Lemma cnt_seq_le : forall a n x, cnt (seq a n) x <= 1.
Proof. intros a n x. apply (NoDup_count_occ Nat.eq_dec). apply seq_NoDup. Qed.

Lemma invf_init : forall n, InvF n (init n).
Proof.
  intro n. constructor; cbn [init toks inflight rh_tok rh_infl optl f w r ph wh rh wt nt sent wseq rseq recv map app].
  - rewrite app_nil_r. apply seq_length.
  - intro x. rewrite app_nil_r. apply cnt_seq_le.
  - reflexivity.
  - reflexivity.
  - reflexivity.
  - intro p. cbn. split; lia.
  - reflexivity.
Qed.

Lemma find_tok_split : forall p l t, find_tok p l = Some t ->
  exists a b, l = a ++ (p, t) :: b /\ remove_key p l = a ++ b /\ cnt (map fst a) p = 0.
Proof.
  intros p l. induction l as [|[q u] rest IH]; intros t H; cbn [find_tok remove_key] in *; [discriminate|].
  destruct (Nat.eqb p q) eqn:E.
  - apply Nat.eqb_eq in E. subst q. inversion H; subst. exists [], rest. cbn. auto.
  - apply Nat.eqb_neq in E. destruct (IH t H) as (a & b & A1 & A2 & A3). exists ((q, u) :: a), b.
    cbn [app map fst count_occ]. rewrite A2, A1. split; [reflexivity|]. split; [reflexivity|].
    destruct (Nat.eq_dec q p); [congruence|exact A3].
Qed.

Ltac lens := repeat (progress (rewrite ?app_length, ?map_app in *; cbn [length map] in *)).
Ltac cnts := repeat (progress (rewrite ?count_occ_app, ?map_app in *; cbn [count_occ map fst snd] in *)).
Ltac fst_ := cbn [f w r ph wh rh wt nt sent wseq rseq recv] in *.

Lemma some_inj : forall (A : Type) (a b : A), Some a = Some b -> a = b.
Proof. intros A a b H. inversion H. reflexivity. Qed.

Theorem invf_step : forall n st l st', InvF n st -> lstep n st l = Some st' -> InvF n st'.
Proof.
  intros n st l st' I Hl. destruct I as [I1 I2 I3 I4 I5 I6 I7]. unfold toks, inflight, rh_tok, rh_infl in *.
  destruct l; cbn [lstep] in Hl.
  - (* FTake *)
    destruct (f st) as [|t rest] eqn:Hf; [discriminate|]. apply some_inj in Hl. subst st'.
    constructor; unfold toks, inflight, rh_tok, rh_infl; fst_.
    + lens. lia.
    + intro x. specialize (I2 x). cnts. destruct (Nat.eq_dec t x); lia.
    + exact I3.
    + exact I4.
    + exact I5.
    + intro p. destruct (I6 p) as [A B]. rewrite map_app, count_occ_app. cbn [map fst count_occ].
      destruct (Nat.eq_dec (S (nt st)) p) as [E|E].
      * subst p. assert (Z : cnt (map fst (ph st)) (S (nt st)) + cnt (sent st) (S (nt st)) = 0).
        { destruct (cnt (map fst (ph st)) (S (nt st)) + cnt (sent st) (S (nt st))) eqn:Q; [reflexivity|]. assert (1 <= S (nt st) <= nt st) by (apply B; lia). lia. }
        split; lia.
      * split; [lia|]. intro H. assert (1 <= p <= nt st) by (apply B; lia). lia.
    + exact I7.
  - (* FPutW *)
    destruct (find_tok p (ph st)) as [t|] eqn:Hp; [|discriminate].
    destruct (length (w st) <? n); [|discriminate]. apply some_inj in Hl. subst st'.
    destruct (find_tok_split _ _ _ Hp) as (a & b & A1 & A2 & A3).
    constructor; unfold toks, inflight, rh_tok, rh_infl; fst_.
    + rewrite A2. rewrite A1 in I1. lens. lia.
    + intro x. specialize (I2 x). rewrite A2. rewrite A1 in I2. cnts. destruct (Nat.eq_dec t x); lia.
    + rewrite map_app, I3. cbn [map swap fst snd]. rewrite !app_assoc. reflexivity.
    + rewrite I4, map_app. cbn [map snd]. rewrite app_assoc. reflexivity.
    + exact I5.
    + intro q. destruct (I6 q) as [A B]. rewrite A2. rewrite A1 in A, B. rewrite !map_app, !count_occ_app in *. cbn [map fst count_occ] in *.
      destruct (Nat.eq_dec p q); split; try lia; intro H; apply B; lia.
    + exact I7.
  - (* FWTake *)
    destruct (w st) as [|c rest] eqn:Hw; [discriminate|]. destruct (wh st) eqn:Hwh; [discriminate|]. apply some_inj in Hl. subst st'.
    constructor; unfold toks, inflight, rh_tok, rh_infl; fst_; cbn [optl map app] in *.
    + lens. lia.
    + intro x. specialize (I2 x). cnts. destruct (Nat.eq_dec (fst c) x); lia.
    + rewrite I3. reflexivity.
    + rewrite I4. cbn [map]. rewrite <- app_assoc. reflexivity.
    + rewrite I5. rewrite app_nil_r. rewrite <- app_assoc. reflexivity.
    + exact I6.
    + exact I7.
  - (* FPutR *)
    destruct (wh st) as [c|] eqn:Hwh; [|discriminate]. destruct (length (r st) <? n); [|discriminate]. apply some_inj in Hl. subst st'.
    constructor; unfold toks, inflight, rh_tok, rh_infl; fst_; cbn [optl map app] in *.
    + lens. lia.
    + intro x. specialize (I2 x). cnts. destruct (Nat.eq_dec (fst c) x); lia.
    + rewrite I3. rewrite <- !app_assoc. reflexivity.
    + exact I4.
    + rewrite I5, map_app. cbn [map]. rewrite app_nil_r. reflexivity.
    + exact I6.
    + exact I7.
  - (* FRTake *)
    destruct (r st) as [|[t i] rest] eqn:Hr; [discriminate|]. destruct (rh st) eqn:Hrh; [discriminate|]. apply some_inj in Hl. subst st'.
    constructor; unfold toks, inflight, rh_tok, rh_infl; fst_; cbn [optl map app fst snd] in *.
    + lens. lia.
    + intro x. specialize (I2 x). cnts. destruct (Nat.eq_dec t x); lia.
    + rewrite I3. reflexivity.
    + exact I4.
    + rewrite I5. rewrite <- app_assoc. reflexivity.
    + exact I6.
    + exact I7.
  - (* FDeliver *)
    destruct (rh st) as [[[t i] [|]]|] eqn:Hrh; try discriminate.
    destruct (find_tok p (wt st)) as [t'|] eqn:Hp; [|discriminate].
    destruct (Nat.eqb t t') eqn:Et; [|discriminate]. apply Nat.eqb_eq in Et. subst t'. apply some_inj in Hl. subst st'.
    (* the waiter found is the oldest one: its token is the reader's *)
    assert (Hhead : exists rest, wt st = (i, t) :: rest /\ p = i).
    { destruct (wt st) as [|[q u] rest] eqn:Hwt; [discriminate|]. cbn [map swap fst snd app] in I3. inversion I3 as [[Hu Hq Hrest]]. subst u q.
      exists rest. split; [reflexivity|]. cbn [find_tok] in Hp. destruct (Nat.eqb p i) eqn:E; [apply Nat.eqb_eq in E; exact E|].
      exfalso. (* another waiter with the same token: the token would be twice in the system *)
      destruct (find_tok_split _ _ _ Hp) as (a & b & A1 & _ & _).
      assert (Hin : In (t, p) (r st ++ optl (wh st) ++ w st)).
      { rewrite <- Hrest, A1, map_app. apply in_or_app. right. left. reflexivity. }
      specialize (I2 t). cbn [map app] in I2. rewrite !count_occ_app in I2. cbn [count_occ] in I2.
      destruct (Nat.eq_dec t t) as [_|N]; [|congruence].
      assert (H1 : 1 <= cnt (map fst (w st)) t + cnt (map fst (optl (wh st))) t + cnt (map fst (r st)) t).
      { apply in_app_or in Hin. destruct Hin as [H|H]; [|apply in_app_or in H; destruct H as [H|H]].
        - assert (In t (map fst (r st))) by (apply in_map_iff; exists (t, p); auto). apply (count_occ_In Nat.eq_dec) in H0. lia.
        - assert (In t (map fst (optl (wh st)))) by (apply in_map_iff; exists (t, p); auto). apply (count_occ_In Nat.eq_dec) in H0. lia.
        - assert (In t (map fst (w st))) by (apply in_map_iff; exists (t, p); auto). apply (count_occ_In Nat.eq_dec) in H0. lia. }
      lia. }
    destruct Hhead as (rest & Hwt & Hpi). subst p.
    constructor; unfold toks, inflight, rh_tok, rh_infl; fst_; cbn [optl map app fst snd] in *.
    + exact I1.
    + exact I2.
    + rewrite Hwt in *. cbn [remove_key map swap fst snd] in *. rewrite Nat.eqb_refl. inversion I3. reflexivity.
    + exact I4.
    + exact I5.
    + exact I6.
    + cbn [own_results]. rewrite Nat.eqb_refl. exact I7.
  - (* FPutF *)
    destruct (rh st) as [[[t i] [|]]|] eqn:Hrh; try discriminate.
    destruct (length (f st) <? n); [|discriminate]. apply some_inj in Hl. subst st'.
    constructor; unfold toks, inflight, rh_tok, rh_infl; fst_; cbn [optl map app fst snd] in *.
    + lens. lia.
    + intro x. specialize (I2 x). cnts. destruct (Nat.eq_dec t x); lia.
    + exact I3.
    + exact I4.
    + exact I5.
    + exact I6.
    + exact I7.
Qed.

Theorem invf_reachable : forall n st, reachable n st -> InvF n st.
Proof.
  intros n st Hr. eapply reachable_ind; [apply invf_init| |exact Hr].
  intros s0 l s1 I Hl. eapply invf_step; eassumption.
Qed.

(** ---- the statements ---- *)

Lemma toks_length : forall st, length (toks st) = tokens st.
Proof.
  intro st. unfold toks, tokens, rh_tok, opt_len. rewrite !app_length, !map_length.
  destruct (wh st); destruct (rh st) as [[[? ?] ?]|]; cbn [optl length map]; lia.
Qed.

Theorem flow_conservation : forall n st, reachable n st -> tokens st = n /\ NoDup (toks st).
Proof.
  intros n st Hr. destruct (invf_reachable n st Hr) as [I1 I2 _ _ _ _ _]. split.
  - rewrite <- toks_length. exact I1.
  - apply (NoDup_count_occ Nat.eq_dec). exact I2.
Qed.

(** a send never blocks: whenever a thread is about to send, the channel has room *)
Theorem flow_sends_never_block : forall n st, reachable n st ->
  (forall p t, find_tok p (ph st) = Some t -> length (w st) < n) /\
  (forall c, wh st = Some c -> length (r st) < n) /\
  (forall t i b, rh st = Some (t, i, b) -> length (f st) < n).
Proof.
  intros n st Hr. destruct (flow_conservation n st Hr) as [Hc _]. unfold tokens, opt_len in Hc. split; [|split].
  - intros p t Hp. destruct (ph st); [discriminate|]. cbn [length] in Hc. lia.
  - intros c Hw. rewrite Hw in Hc. lia.
  - intros t i b Hh. rewrite Hh in Hc. lia.
Qed.

(** FIFO: the writer dequeues in the order of the sends, the reader completes in the writer's order,
    nothing is dequeued twice *)
Theorem flow_order : forall n st, reachable n st ->
  sent st = wseq st ++ map snd (w st) /\
  wseq st = rseq st ++ map snd (r st) ++ map snd (optl (wh st)) /\
  NoDup (sent st).
Proof.
  intros n st Hr. destruct (invf_reachable n st Hr) as [_ _ _ I4 I5 I6 _]. split; [exact I4|]. split; [exact I5|].
  apply (NoDup_count_occ Nat.eq_dec). intro p. destruct (I6 p) as [A _]. lia.
Qed.

Theorem flow_own_result : forall n st p st', reachable n st -> lstep n st (FDeliver p) = Some st' ->
  exists t, rh st = Some (t, p, false) /\ recv st' = (p, p) :: recv st /\ exists rest, wt st = (p, t) :: rest.
Proof.
  intros n st p st' Hr Hl. pose proof (invf_step n st _ st' (invf_reachable n st Hr) Hl) as I'.
  cbn [lstep] in Hl. destruct (rh st) as [[[t i] [|]]|] eqn:Hrh; try discriminate.
  destruct (find_tok p (wt st)) as [t'|] eqn:Hp; [|discriminate].
  destruct (Nat.eqb t t') eqn:Et; [|discriminate]. apply some_inj in Hl. subst st'.
  pose proof (f_recv _ _ I') as Hrecv. cbn [recv own_results] in Hrecv. apply andb_true_iff in Hrecv. destruct Hrecv as [E _].
  apply Nat.eqb_eq in E. subst i. exists t. split; [reflexivity|]. split; [reflexivity|].
  destruct (invf_reachable n st Hr) as [_ _ I3 _ _ _ _]. unfold inflight, rh_infl in I3. rewrite Hrh in I3.
  destruct (wt st) as [|[q u] rest]; [discriminate|]. cbn [map swap fst snd app] in I3. inversion I3. subst. exists rest. reflexivity.
Qed.

Theorem flow_all_own_results : forall n st, reachable n st -> own_results (recv st) = true.
Proof. intros n st Hr. apply (f_recv _ _ (invf_reachable n st Hr)). Qed.

(** no stuck state: while a putter holds a token or waits for its result, some step is enabled *)
Theorem flow_not_stuck : forall n st, reachable n st -> (ph st <> [] \/ wt st <> []) ->
  exists l st', lstep n st l = Some st'.
Proof.
  intros n st Hr Hwork. pose proof (invf_reachable n st Hr) as I. destruct (flow_sends_never_block n st Hr) as (S1 & S2 & S3).
  destruct (ph st) as [|[p t] rest] eqn:Hph.
  2:{ exists (FPutW p). cbn [lstep]. rewrite ?Hph. cbn [find_tok]. rewrite Nat.eqb_refl.
      assert (H : length (w st) < n) by (apply (S1 p t); rewrite ?Hph; cbn [find_tok]; rewrite Nat.eqb_refl; reflexivity).
      apply Nat.ltb_lt in H. rewrite H. eexists. reflexivity. }
  destruct Hwork as [H|Hwt]; [congruence|].
  pose proof (f_wt _ _ I) as I3. unfold inflight, rh_infl in I3.
  destruct (rh st) as [[[t i] [|]]|] eqn:Hrh.
  - exists FPutF. cbn [lstep]. rewrite ?Hrh. pose proof (S3 _ _ _ eq_refl) as H.
    apply Nat.ltb_lt in H. rewrite H. eexists. reflexivity.
  - exists (FDeliver i). cbn [lstep]. rewrite ?Hrh.
    destruct (wt st) as [|[q u] rest]; [discriminate|]. cbn [map swap fst snd app] in I3. inversion I3. subst.
    cbn [find_tok]. rewrite !Nat.eqb_refl. eexists. reflexivity.
  - destruct (r st) as [|[t i] rest] eqn:Hr2.
    + destruct (wh st) as [c|] eqn:Hwh.
      * exists FPutR. cbn [lstep]. rewrite ?Hwh. pose proof (S2 _ eq_refl) as H. rewrite ?Hr2.
        apply Nat.ltb_lt in H. rewrite H. eexists. reflexivity.
      * destruct (w st) as [|c rest] eqn:Hw.
        -- exfalso. cbn [optl app] in I3. destruct (wt st); [congruence|discriminate].
        -- exists FWTake. cbn [lstep]. rewrite ?Hw, ?Hwh. eexists. reflexivity.
    + exists FRTake. cbn [lstep]. rewrite ?Hr2, ?Hrh. eexists. reflexivity.
Qed.
