(** The finite obligations over the builder graph regenerated from internal/cmds/gen_*.go, cmds.go and
    hack/cmds/*.json — re-proved by the kernel (vm_compute) on every run. *)
From Coq Require Import List NArith Bool.
Require Import RV.Model.Base RV.Model.BuilderGraph RV.Model.BuilderSem RV.Model.BuilderChecks RV.Model.BuilderTags RV.Model.BuilderKnown.
Require Import RV.Gen.Builders.
Import ListNotations.
Open Scope N_scope.

(** C33: every method appends each parameter exactly once, in parameter order, with an item kind that fits its type *)
Lemma gen_graph_wf : graph_wf builders = true.
Proof. vm_compute. reflexivity. Qed.

(** C33: base 10, ('f', -1, 64), EX/PX/EXAT/PXAT units *)
Lemma gen_graph_fmt_ok : graph_fmt_ok builders = true.
Proof. vm_compute. reflexivity. Qed.

(** C18: every parameter that the Redis command tables type as a key has a key-slot statement *)
Lemma gen_graph_keys_ok : graph_keys_ok builders = true.
Proof. vm_compute. reflexivity. Qed.

(** C32: reachable (command, type, flags, BLOCK) combinations *)
Definition gen_closure : aset := Eval vm_compute in closure builders.

Lemma gen_closed : closedb builders gen_closure = true.
Proof. vm_compute. reflexivity. Qed.

Lemma gen_tags_ok : tags_ok tags = true.
Proof. vm_compute. reflexivity. Qed.

Lemma gen_predef_ok : forallb (predef_ok tags) predefined = true.
Proof. vm_compute. reflexivity. Qed.

Lemma gen_rule_readonly : rule_holds_except tags builders RReadonly known_readonly_mistags gen_closure = true.
Proof. vm_compute. reflexivity. Qed.

(** exactly the known commands offend (a new mis-tag, or the repair of a known one, breaks this) *)
Lemma gen_offenders_readonly : offenders tags builders RReadonly gen_closure = known_readonly_mistags.
Proof. vm_compute. reflexivity. Qed.

Lemma gen_rule_cache : rule_holds_except tags builders RCache [] gen_closure = true.
Proof. vm_compute. reflexivity. Qed.

Lemma gen_rule_blocking : rule_holds_except tags builders RBlocking [] gen_closure = true.
Proof. vm_compute. reflexivity. Qed.

Lemma gen_rule_subscribe : rule_holds_except tags builders RSubscribe [] gen_closure = true.
Proof. vm_compute. reflexivity. Qed.

Lemma gen_rule_unsubscribe : rule_holds_except tags builders RUnsubscribe [] gen_closure = true.
Proof. vm_compute. reflexivity. Qed.
