(** Proofs for Model/CmdOwnership.v *)
From Coq Require Import List Arith Bool Lia.
Require Import RV.Model.CmdOwnership.
Import ListNotations.

Lemma goes_again_not_in_flight k e : goes_again k e = true -> leaves_in_flight (outcome_of e) = false.
Proof. destruct k; destruct e as [o|o]; destruct o; cbn; intros H; try reflexivity; try discriminate. Qed.

Lemma recyclable_not_in_flight o : recyclable_result o = true -> leaves_in_flight o = false.
Proof. destruct o; cbn; intros H; try reflexivity; discriminate. Qed.

Lemma recycles_recyclable k o : recycles k o = true -> recyclable_result o = true.
Proof. destruct k, o; cbn; intros H; try reflexivity; discriminate. Qed.

Lemma life_aux_no_early k pinned : forall evs tr,
  run_life_aux k pinned evs = Some tr -> forall last, no_early_recycle_aux false last tr = true.
Proof.
  induction evs as [|e evs IH]; intros tr H last; cbn [run_life_aux] in H; [discriminate|].
  destruct (goes_again k e) eqn:Eg.
  - destruct (run_life_aux k pinned evs) as [tr'|] eqn:Er; [|discriminate].
    inversion H; subst. cbn [no_early_recycle_aux].
    rewrite (goes_again_not_in_flight _ _ Eg). cbn [orb]. now apply IH.
  - destruct evs as [|e2 evs2]; [|discriminate].
    destruct (recycles k (outcome_of e)) eqn:Erec0; cbn [andb] in H.
    + pose proof (recycles_recyclable _ _ Erec0) as Erec.
      destruct pinned; cbn [negb] in H; inversion H; subst; cbn [no_early_recycle_aux];
        rewrite ?(recyclable_not_in_flight _ Erec); cbn; rewrite ?Erec; reflexivity.
    + inversion H; subst. cbn. reflexivity.
Qed.

Theorem life_no_early_recycle k pinned evs tr :
  run_life k pinned evs = Some tr -> no_early_recycle tr = true.
Proof. intros H. exact (life_aux_no_early k pinned evs tr H None). Qed.

Theorem pinned_never_recycled k : forall evs tr, run_life k true evs = Some tr -> recycled tr = false.
Proof.
  unfold run_life. induction evs as [|e evs IH]; intros tr H; cbn [run_life_aux] in H; [discriminate|].
  destruct (goes_again k e).
  - destruct (run_life_aux k true evs) as [tr'|] eqn:Er; [|discriminate].
    inversion H; subst. cbn. now apply IH.
  - destruct evs; [|discriminate]. rewrite andb_false_r in H. inversion H; subst. reflexivity.
Qed.

Theorem recycled_at_most_once k pinned : forall evs tr,
  run_life k pinned evs = Some tr -> count_recycles tr <= 1.
Proof.
  unfold run_life, count_recycles. induction evs as [|e evs IH]; intros tr H; cbn [run_life_aux] in H; [discriminate|].
  destruct (goes_again k e).
  - destruct (run_life_aux k pinned evs) as [tr'|] eqn:Er; [|discriminate].
    inversion H; subst. cbn. now apply IH.
  - destruct evs; [|discriminate].
    destruct (recycles k (outcome_of e) && negb pinned); inversion H; subst; cbn; lia.
Qed.

(** recycled exactly when the final attempt produced a recyclable result and the command is not pinned *)
Theorem recycled_iff k pinned : forall evs tr,
  run_life k pinned evs = Some tr ->
  recycled tr = match last evs (EvAttempt OutAbandoned) with e => recycles k (outcome_of e) && negb pinned end.
Proof.
  unfold run_life. induction evs as [|e evs IH]; intros tr H; cbn [run_life_aux] in H; [discriminate|].
  destruct (goes_again k e) eqn:Eg.
  - destruct (run_life_aux k pinned evs) as [tr'|] eqn:Er; [|discriminate].
    inversion H; subst. cbn [recycled existsb orb]. fold (recycled tr').
    destruct evs as [|e2 evs2]; [discriminate|]. rewrite (IH tr' eq_refl). reflexivity.
  - destruct evs; [|discriminate]. cbn [last].
    destruct (recycles k (outcome_of e) && negb pinned); inversion H; subst; reflexivity.
Qed.
