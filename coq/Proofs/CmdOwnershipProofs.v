(** Proofs for Model/CmdOwnership.v *)
From Coq Require Import List Arith Bool Lia.
Require Import RV.Model.CmdOwnership.
Import ListNotations.

Lemma goes_again_not_in_flight k e : goes_again k e = true -> leaves_in_flight (outcome_of e) = false.
Proof. destruct k; destruct e as [o|o]; destruct o; cbn; intros H; try reflexivity; try discriminate. Qed.

Lemma recyclable_not_in_flight o : recyclable_result o = true -> leaves_in_flight o = false.
Proof. destruct o; cbn; intros H; try reflexivity; discriminate. Qed.

Lemma recycles_recyclable k o : recycles k o = true -> recyclable_result o = true.
Proof. destruct k, o; cbn; intros H; try reflexivity; discriminate. Qed.

Lemma life_aux_no_early k pinned : forall evs tr,
  run_life_aux k pinned evs = Some tr -> forall last, no_early_recycle_aux false last tr = true.
Proof.
  induction evs as [|e evs IH]; intros tr H last; cbn [run_life_aux] in H; [discriminate|].
  destruct (goes_again k e) eqn:Eg.
  - destruct (run_life_aux k pinned evs) as [tr'|] eqn:Er; [|discriminate].
    inversion H; subst. cbn [no_early_recycle_aux].
    rewrite (goes_again_not_in_flight _ _ Eg). cbn [orb]. now apply IH.
  - destruct evs as [|e2 evs2]; [|discriminate].
    destruct (recycles k (outcome_of e)) eqn:Erec0; cbn [andb] in H.
    + pose proof (recycles_recyclable _ _ Erec0) as Erec.
      destruct pinned; cbn [negb] in H; inversion H; subst; cbn [no_early_recycle_aux];
        rewrite ?(recyclable_not_in_flight _ Erec); cbn; rewrite ?Erec; reflexivity.
    + inversion H; subst. cbn. reflexivity.
Qed.

Theorem life_no_early_recycle k pinned evs tr :
  run_life k pinned evs = Some tr -> no_early_recycle tr = true.
Proof. intros H. exact (life_aux_no_early k pinned evs tr H None). Qed.

Theorem pinned_never_recycled k : forall evs tr, run_life k true evs = Some tr -> recycled tr = false.
Proof.
  unfold run_life. induction evs as [|e evs IH]; intros tr H; cbn [run_life_aux] in H; [discriminate|].
  destruct (goes_again k e).
  - destruct (run_life_aux k true evs) as [tr'|] eqn:Er; [|discriminate].
    inversion H; subst. cbn. now apply IH.
  - destruct evs; [|discriminate]. rewrite andb_false_r in H. inversion H; subst. reflexivity.
Qed.

Theorem recycled_at_most_once k pinned : forall evs tr,
  run_life k pinned evs = Some tr -> count_recycles tr <= 1.
Proof.
  unfold run_life, count_recycles. induction evs as [|e evs IH]; intros tr H; cbn [run_life_aux] in H; [discriminate|].
  destruct (goes_again k e).
  - destruct (run_life_aux k pinned evs) as [tr'|] eqn:Er; [|discriminate].
    inversion H; subst. cbn. now apply IH.
  - destruct evs; [|discriminate].
    destruct (recycles k (outcome_of e) && negb pinned); inversion H; subst; cbn; lia.
Qed.

(** recycled exactly when the final attempt produced a recyclable result and the command is not pinned *)
Theorem recycled_iff k pinned : forall evs tr,
  run_life k pinned evs = Some tr ->
  recycled tr = match last evs (EvAttempt OutAbandoned) with e => recycles k (outcome_of e) && negb pinned end.
Proof.
  unfold run_life. induction evs as [|e evs IH]; intros tr H; cbn [run_life_aux] in H; [discriminate|].
  destruct (goes_again k e) eqn:Eg.
  - destruct (run_life_aux k pinned evs) as [tr'|] eqn:Er; [|discriminate].
    inversion H; subst. cbn [recycled existsb orb]. fold (recycled tr').
    destruct evs as [|e2 evs2]; [discriminate|]. rewrite (IH tr' eq_refl). reflexivity.
  - destruct evs; [|discriminate]. cbn [last].
    destruct (recycles k (outcome_of e) && negb pinned); inversion H; subst; reflexivity.
Qed.

(** * Cluster batch buffers *)

Lemma member_replied_not_in_flight o : member_replied o = true -> leaves_in_flight o = false.
Proof. destruct o; cbn; intros H; try reflexivity; discriminate. Qed.

Lemma batch_aux_attempts : forall members fl ar rest,
  batch_no_early_aux fl ar (map LAttempt members ++ rest) =
  batch_no_early_aux (fl || existsb leaves_in_flight members) (ar && forallb member_replied members) rest.
Proof.
  induction members as [|o ms IH]; intros fl ar rest; cbn [map app batch_no_early_aux existsb forallb].
  - now rewrite orb_false_r, andb_true_r.
  - rewrite IH. now rewrite orb_assoc, andb_assoc.
Qed.

Lemma clean_not_in_flight : forall members, batch_clean members = true -> existsb leaves_in_flight members = false.
Proof.
  unfold batch_clean. induction members as [|o ms IH]; intros H; cbn in *; [reflexivity|].
  apply andb_prop in H. destruct H as [Ho Hm]. now rewrite (member_replied_not_in_flight _ Ho), IH.
Qed.

Theorem batch_no_early members : batch_no_early_recycle (run_batch members) = true.
Proof.
  unfold batch_no_early_recycle, run_batch. rewrite batch_aux_attempts. cbn [orb andb].
  destruct (batch_clean members) eqn:E.
  - rewrite (clean_not_in_flight _ E). unfold batch_clean in E. rewrite E. reflexivity.
  - reflexivity.
Qed.

Theorem batch_recycled_iff members : recycled (run_batch members) = batch_clean members.
Proof.
  unfold run_batch, recycled. rewrite existsb_app.
  assert (H : existsb (fun e => match e with LRecycle => true | _ => false end) (map LAttempt members) = false).
  { induction members as [|o ms IH]; cbn; [reflexivity|exact IH]. }
  rewrite H. destruct (batch_clean members); reflexivity.
Qed.
