(** C16: the accessors return exactly what a well-formed reply encodes.
    Spec side: data-level encoders of the reply shapes the server uses (RESP2 and RESP3). *)
From Coq Require Import String List NArith ZArith Bool Lia Arith.
Require Import RV.Model.Base RV.Model.AccBase RV.Model.Accessors RV.Proofs.SelectorProofs RV.Proofs.DecimalProofs.
Import ListNotations.
Open Scope N_scope.

(** ---- reply constructors ---- *)
Definition blob (s : bytes) : msg := MStr tBlobString s None.
Definition simple (s : bytes) : msg := MStr tSimpleString s None.
Definition int (z : Z) : msg := MInt tInteger z None.
Definition boolean (x : bool) : msg := MInt tBool (if x then 1 else 0)%Z None.
Definition null : msg := MInt tNull 0 None.
Definition arr (l : list msg) : msg := MArr tArray l None.
Definition set (l : list msg) : msg := MArr tSet l None.
Definition mapm (l : list msg) : msg := MArr tMap l None.

(** ---- generic lemmas ---- *)
Lemma mapM_map {A B C} (f : B -> res C) (g : A -> B) (h : A -> C) (l : list A) :
  (forall x, In x l -> f (g x) = ROk (h x)) -> mapM f (map g l) = ROk (map h l).
Proof.
  induction l as [|x r IH]; intro H; cbn [map mapM]; [reflexivity|].
  rewrite (H x) by now left. cbn [rbind]. rewrite IH by (intros; apply H; now right). reflexivity.
Qed.

Lemma map_mstr_blob ss : map mstr (map blob ss) = ss.
Proof. rewrite map_map. cbn. apply map_id. Qed.

Lemma bytes_eqb_refl s : bytes_eqb s s = true.
Proof. now apply list_eqb_N_eq. Qed.

Lemma bytes_eqb_sym s t : bytes_eqb s t = bytes_eqb t s.
Proof.
  destruct (bytes_eqb s t) eqn:E.
  - apply list_eqb_N_eq in E. subst. symmetry. apply bytes_eqb_refl.
  - destruct (bytes_eqb t s) eqn:E'; [|reflexivity]. apply list_eqb_N_eq in E'. subst. now rewrite bytes_eqb_refl in E.
Qed.

(** ---- maps: assignment semantics ---- *)
Lemma mget_mset_same {V} k (v : V) m : mget k (mset k v m) = Some v.
Proof.
  unfold mget. induction m as [|[k' v'] r IH]; cbn [mset assoc].
  - now rewrite bytes_eqb_refl.
  - destruct (bytes_eqb k k') eqn:E; cbn [assoc].
    + now rewrite bytes_eqb_refl.
    + destruct (bytes_ltb k k'); cbn [assoc]; [now rewrite bytes_eqb_refl|]. rewrite E. exact IH.
Qed.

Lemma mget_mset_other {V} k k' (v : V) m : bytes_eqb k k' = false -> mget k (mset k' v m) = mget k m.
Proof.
  intro Hne. unfold mget. induction m as [|[k2 v2] r IH]; cbn [mset assoc].
  - now rewrite Hne.
  - destruct (bytes_eqb k' k2) eqn:E.
    + apply list_eqb_N_eq in E. subst k2. cbn [assoc]. now rewrite Hne.
    + destruct (bytes_ltb k' k2); cbn [assoc]; [now rewrite Hne|]. destruct (bytes_eqb k k2); [reflexivity|exact IH].
Qed.

(** the value of the last pair with key [k] *)
Definition assoc_last {V} (k : bytes) (ps : list (bytes * V)) : option V := assoc k (rev ps).

Definition set_all {V} (ps : list (bytes * V)) (m : smap V) : smap V :=
  fold_left (fun m kv => mset (fst kv) (snd kv) m) ps m.

Lemma mget_set_all {V} k (ps : list (bytes * V)) : forall m,
  mget k (set_all ps m) = match assoc_last k ps with Some v => Some v | None => mget k m end.
Proof.
  unfold assoc_last, set_all. induction ps as [|[k' v'] r IH]; intro m; cbn [fold_left rev]; [reflexivity|].
  rewrite IH. cbn [fst snd].
  assert (A : forall (l : list (bytes * V)), assoc k (l ++ [(k', v')]) =
              match assoc k l with Some v => Some v | None => if bytes_eqb k k' then Some v' else None end).
  { induction l as [|[k2 v2] l IHl]; cbn [app assoc]; [reflexivity|]. destruct (bytes_eqb k k2); [reflexivity|exact IHl]. }
  rewrite A. destruct (assoc k (rev r)); [reflexivity|].
  destruct (bytes_eqb k k') eqn:E.
  - apply list_eqb_N_eq in E. subst. apply mget_mset_same.
  - now apply mget_mset_other.
Qed.

(** a flat reply of alternating keys and values *)
Definition flat {K V} (ek : K -> msg) (ev : V -> msg) (ps : list (K * V)) : list msg :=
  flat_map (fun kv => [ek (fst kv); ev (snd kv)]) ps.

Lemma even_len_flat {K V} (ek : K -> msg) (ev : V -> msg) ps : even_len (flat ek ev ps) = true.
Proof. unfold even_len, flat. induction ps as [|p r IH]; [reflexivity|]. cbn [flat_map app length]. exact IH. Qed.

Lemma pair_loop_flat {S K V} (body : msg -> msg -> S -> res S) (step : S -> K * V -> S)
      (ek : K -> msg) (ev : V -> msg) (ps : list (K * V)) :
  (forall kv st, In kv ps -> body (ek (fst kv)) (ev (snd kv)) st = ROk (step st kv)) ->
  forall st, pair_loop body (flat ek ev ps) st = ROk (fold_left step ps st).
Proof.
  unfold flat. induction ps as [|p r IH]; intros H st; cbn [flat_map app pair_loop fold_left]; [reflexivity|].
  rewrite H by now left. cbn [rbind]. apply IH. intros; apply H; now right.
Qed.

Lemma pair_loop_guarded_flat {S K V} (body : msg -> msg -> S -> res S) (step : S -> K * V -> S)
      (ek : K -> msg) (ev : V -> msg) (ps : list (K * V)) :
  (forall kv st, In kv ps -> body (ek (fst kv)) (ev (snd kv)) st = ROk (step st kv)) ->
  forall st, pair_loop_guarded body (flat ek ev ps) st = ROk (fold_left step ps st).
Proof.
  unfold flat. induction ps as [|p r IH]; intros H st; cbn [flat_map app pair_loop_guarded fold_left]; [reflexivity|].
  rewrite H by now left. cbn [rbind]. apply IH. intros; apply H; now right.
Qed.

(** ---- scalars ---- *)
Theorem int_faithful z :
  to_int64 (int z) = ROk z /\ as_int64 (int z) = ROk z /\ as_bool (int z) = ROk (negb (z =? 0)%Z) /\
  as_uint64 (int z) = ROk (Z.to_N (z mod two64)).
Proof. repeat split; reflexivity. Qed.

Lemma as_int64_str t s : (t = tBlobString \/ t = tSimpleString) ->
  as_int64 (MStr t s None) = match parse_int10 s with Some z => ROk z | None => RErr ENum end.
Proof. intros [-> | ->]; reflexivity. Qed.

Lemma as_uint64_str t s : (t = tBlobString \/ t = tSimpleString) ->
  as_uint64 (MStr t s None) = match parse_uint10 s with Some n => ROk n | None => RErr ENum end.
Proof. intros [-> | ->]; reflexivity. Qed.

Theorem int_string_faithful z t : (t = tBlobString \/ t = tSimpleString) -> (int64_min <= z <= int64_max)%Z ->
  as_int64 (MStr t (print_Z z) None) = ROk z.
Proof. intros Ht H. rewrite as_int64_str by exact Ht. now rewrite parse_print_int. Qed.

Theorem uint_string_faithful n t : (t = tBlobString \/ t = tSimpleString) -> n <= uint64_max ->
  as_uint64 (MStr t (print_N n) None) = ROk n.
Proof. intros Ht H. rewrite as_uint64_str by exact Ht. now rewrite parse_print_uint. Qed.

Theorem string_faithful s t : (t = tBlobString \/ t = tSimpleString) ->
  to_string (MStr t s None) = ROk s /\ as_bytes (MStr t s None) = ROk s /\ as_reader (MStr t s None) = ROk s /\
  as_bool (MStr t s None) = ROk (bytes_eqb s (b "OK")).
Proof. intros [-> | ->]; repeat split; reflexivity. Qed.

Theorem bool_faithful x : to_bool (boolean x) = ROk x /\ as_bool (boolean x) = ROk x.
Proof. destruct x; split; reflexivity. Qed.

(** ---- slices ---- *)
Theorem str_slice_faithful ss t : (t = tArray \/ t = tSet) ->
  as_str_slice (MArr t (map blob ss) None) = ROk ss.
Proof. intros [-> | ->]; unfold as_str_slice; cbn; now rewrite map_mstr_blob. Qed.

(** integers arrive as RESP3 integers or as decimal strings *)
Definition enc_int (as_string : bool) (z : Z) : msg := if as_string then blob (print_Z z) else int z.

Theorem int_slice_faithful (zs : list (bool * Z)) :
  Forall (fun bz => (int64_min <= snd bz <= int64_max)%Z) zs ->
  as_int_slice (arr (map (fun bz => enc_int (fst bz) (snd bz)) zs)) = ROk (map snd zs).
Proof.
  intro H. unfold as_int_slice. cbn [to_array arr is_array mtyp mvals rbind]. cbn.
  apply mapM_map. intros [s z] Hin. rewrite Forall_forall in H. specialize (H _ Hin). cbn [fst snd] in *.
  destruct s; cbn [enc_int blob int mstr mintlen]; [|reflexivity].
  destruct (print_Z z) eqn:E; [now apply print_Z_nonempty in E|]. rewrite <- E. now rewrite parse_print_int.
Qed.

Theorem bool_slice_faithful xs : as_bool_slice (arr (map boolean xs)) = ROk xs.
Proof.
  unfold as_bool_slice. cbn. f_equal. rewrite map_map. rewrite <- (map_id xs) at 2. apply map_ext. now intros [|].
Qed.

(** ---- string maps, in array and map shape; the last value of a repeated field wins ---- *)
Theorem str_map_faithful (ps : list (bytes * bytes)) t : (t = tArray \/ t = tSet \/ t = tMap) ->
  as_str_map (MArr t (flat blob blob ps) None) = ROk (set_all ps []).
Proof.
  intro Ht. unfold as_str_map.
  assert (E : msg_error (MArr t (flat blob blob ps) None) = None) by (destruct Ht as [-> |[-> | ->]]; reflexivity).
  assert (M : map_or_array (MArr t (flat blob blob ps) None) = true) by (destruct Ht as [-> |[-> | ->]]; reflexivity).
  rewrite E, M. cbn [mvals]. rewrite even_len_flat. cbn [andb].
  apply (pair_loop_flat _ (fun m kv => mset (fst kv) (snd kv) m)). reflexivity.
Qed.

Theorem str_map_last_wins (ps : list (bytes * bytes)) k :
  mget k (set_all ps []) = assoc_last k ps.
Proof. rewrite mget_set_all. now destruct (assoc_last k ps). Qed.

(** AsMap / ToMap keep the value messages themselves *)
Lemma to_map_vals_flat (ps : list (bytes * msg)) : forall acc,
  to_map_vals (flat blob (fun v => v) ps) acc = ROk (set_all ps acc).
Proof.
  unfold flat. induction ps as [|[k v] r IH]; intro acc; cbn [flat_map app to_map_vals set_all fold_left]; [reflexivity|].
  cbn [fst snd]. change (is_str_typ (blob k)) with true. cbn iota. apply IH.
Qed.

Theorem as_map_faithful (ps : list (bytes * msg)) t : (t = tArray \/ t = tSet \/ t = tMap) ->
  as_map (MArr t (flat blob (fun v => v) ps) None) = ROk (set_all ps []).
Proof.
  intro Ht. unfold as_map.
  assert (E : msg_error (MArr t (flat blob (fun v => v) ps) None) = None) by (destruct Ht as [-> |[-> | ->]]; reflexivity).
  assert (M : map_or_array (MArr t (flat blob (fun v => v) ps) None) = true) by (destruct Ht as [-> |[-> | ->]]; reflexivity).
  rewrite E, M. cbn [mvals]. rewrite even_len_flat. cbn [andb]. apply to_map_vals_flat.
Qed.

Theorem to_map_faithful (ps : list (bytes * msg)) :
  to_map (mapm (flat blob (fun v => v) ps)) = ROk (set_all ps []).
Proof. unfold to_map, mapm. cbn [is_map mtyp mvals]. cbn. rewrite even_len_flat. apply to_map_vals_flat. Qed.

(** ---- string-encoded integers are read in base ten, whatever their spelling ----
    optional sign, at least one digit, digits only: leading zeros are just zeros (no octal), no 0x / 0b / 0o
    prefixes, no '_' separators, no blanks *)
Definition dec_value (ds : bytes) : N := fold_left (fun a c => a * 10 + (c - 48)) ds 0.

Lemma digits_val_all : forall ds a, Forall (fun c => is_digit c = true) ds ->
  digits_val a ds = Some (fold_left (fun a c => a * 10 + (c - 48)) ds a).
Proof.
  induction ds as [|c r IH]; intros a H; cbn [digits_val fold_left]; [reflexivity|].
  inversion H as [|? ? Hc Hr]; subst. rewrite Hc. now apply IH.
Qed.

Lemma digits_val_bad : forall ds a c, In c ds -> is_digit c = false -> digits_val a ds = None.
Proof.
  induction ds as [|d r IH]; intros a c Hin Hc; [contradiction|]. cbn [digits_val].
  destruct (is_digit d) eqn:Ed; [|reflexivity]. destruct Hin as [->|Hin]; [congruence|]. now apply (IH _ c).
Qed.

Definition in_int64 (z : Z) : bool := (int64_min <=? z)%Z && (z <=? int64_max)%Z.

(** sign: None, Some false = '+', Some true = '-' *)
Definition sign_bytes (sg : option bool) : bytes := match sg with None => [] | Some false => [43] | Some true => [45] end.
Definition signed (sg : option bool) (n : N) : Z := match sg with Some true => (- Z.of_N n)%Z | _ => Z.of_N n end.

Theorem parse_int10_decimal sg ds : ds <> [] -> Forall (fun c => is_digit c = true) ds ->
  parse_int10 (sign_bytes sg ++ ds) = if in_int64 (signed sg (dec_value ds)) then Some (signed sg (dec_value ds)) else None.
Proof.
  intros Hne Hd. unfold parse_int10, dec_value, in_int64.
  destruct sg as [[|]|]; cbn [sign_bytes app signed].
  - cbn [N.eqb Pos.eqb]. destruct ds as [|c r]; [contradiction|]. rewrite digits_val_all by exact Hd. reflexivity.
  - cbn [N.eqb Pos.eqb]. destruct ds as [|c r]; [contradiction|]. rewrite digits_val_all by exact Hd. reflexivity.
  - destruct ds as [|c r]; [contradiction|]. inversion Hd as [|? ? Hc _]; subst.
    destruct (digit_not_sign c Hc) as [-> ->]. rewrite digits_val_all by exact Hd. reflexivity.
Qed.

(** anything else is rejected: nothing after the sign, or a byte that is not a digit *)
Theorem parse_int10_rejects sg body :
  (body = [] \/ exists c, In c body /\ is_digit c = false) ->
  (sg = None -> match body with c :: _ => (c =? 45) = false /\ (c =? 43) = false | [] => True end) ->
  parse_int10 (sign_bytes sg ++ body) = None.
Proof.
  intros Hb Hs. unfold parse_int10.
  assert (G : match body with [] => @None Z | _ :: _ => match digits_val 0 body with Some n => None | None => None end end = None
              \/ True) by now right. clear G.
  destruct sg as [[|]|]; cbn [sign_bytes app].
  - cbn [N.eqb Pos.eqb]. destruct Hb as [->|(c & Hin & Hc)]; [reflexivity|].
    destruct body as [|x r]; [contradiction|]. now rewrite (digits_val_bad _ 0 c Hin Hc).
  - cbn [N.eqb Pos.eqb]. destruct Hb as [->|(c & Hin & Hc)]; [reflexivity|].
    destruct body as [|x r]; [contradiction|]. now rewrite (digits_val_bad _ 0 c Hin Hc).
  - destruct Hb as [->|(c & Hin & Hc)]; [reflexivity|].
    destruct body as [|x r]; [contradiction|]. destruct (Hs eq_refl) as [-> ->].
    now rewrite (digits_val_bad _ 0 c Hin Hc).
Qed.

(** the integer-reading accessors on strings with a known decimal reading (any spelling) … *)
Theorem int_slice_spelled (xs : list (bytes * Z)) :
  Forall (fun sz => fst sz <> [] /\ parse_int10 (fst sz) = Some (snd sz)) xs ->
  as_int_slice (arr (map (fun sz => blob (fst sz)) xs)) = ROk (map snd xs).
Proof.
  intro H. unfold as_int_slice. cbn [to_array arr is_array mtyp mvals rbind]. cbn.
  apply mapM_map. intros [s z] Hin. rewrite Forall_forall in H. destruct (H _ Hin) as [Hne Hp]. cbn [fst snd blob mstr] in *.
  destruct s; [contradiction|]. now rewrite Hp.
Qed.

Theorem int_map_spelled (ps : list (bytes * (bytes * Z))) t : (t = tArray \/ t = tSet \/ t = tMap) ->
  Forall (fun kv => fst (snd kv) <> [] /\ parse_int10 (fst (snd kv)) = Some (snd (snd kv))) ps ->
  as_int_map (MArr t (flat blob (fun sz => blob (fst sz)) ps) None) = ROk (set_all (map (fun kv => (fst kv, snd (snd kv))) ps) []).
Proof.
  intros Ht Hr. unfold as_int_map, as_int_map_with.
  set (vs := flat blob (fun sz : bytes * Z => blob (fst sz)) ps).
  assert (E : msg_error (MArr t vs None) = None) by (destruct Ht as [-> |[-> | ->]]; reflexivity).
  assert (M : map_or_array (MArr t vs None) = true) by (destruct Ht as [-> |[-> | ->]]; reflexivity).
  rewrite E, M. cbn [mvals]. subst vs. rewrite even_len_flat. cbn [andb].
  rewrite (pair_loop_flat _ (fun m (kv : bytes * (bytes * Z)) => mset (fst kv) (snd (snd kv)) m)).
  - f_equal. unfold set_all. generalize (@nil (bytes * Z)). induction ps as [|p r IH]; intro acc; [reflexivity|].
    cbn [map fold_left fst snd]. inversion Hr; subst. now apply IH.
  - intros [k [s z]] st Hin. rewrite Forall_forall in Hr. destruct (Hr _ Hin) as [Hne Hp]. cbn [fst snd] in *.
    change (is_str_typ (blob k)) with true. cbn iota. cbn [blob mstr]. destruct s; [contradiction|]. now rewrite Hp.
Qed.

(** … and on a string that is not a decimal integer: a number error, never a value *)
Theorem int_accessors_reject s k t : s <> [] -> parse_int10 s = None -> (t = tArray \/ t = tSet \/ t = tMap) ->
  as_int64 (blob s) = RErr ENum /\ as_int_slice (arr [blob s]) = RErr ENum /\
  as_int_map (MArr t [blob k; blob s] None) = RErr ENum.
Proof.
  intros Hne Hp Ht. repeat split.
  - unfold blob. rewrite as_int64_str by now left. now rewrite Hp.
  - unfold as_int_slice. cbn. destruct s; [contradiction|]. now rewrite Hp.
  - destruct Ht as [-> |[-> | ->]]; unfold as_int_map, as_int_map_with; cbn; destruct s; try contradiction; now rewrite Hp.
Qed.

(** the code before the repair read AsIntMap values with base-prefix detection: "0100" was 64 *)
Lemma int_map_before_fix_octal (pi0 : bytes -> option Z) : pi0 (b "0100") = Some 64%Z ->
  as_int_map_before_fix pi0 (arr [blob (b "mode"); blob (b "0100")]) = ROk [(b "mode", 64%Z)] /\
  as_int_map (arr [blob (b "mode"); blob (b "0100")]) = ROk [(b "mode", 100%Z)].
Proof. intro H. unfold as_int_map_before_fix, as_int_map, as_int_map_with. cbn in H |- *. rewrite H. split; reflexivity. Qed.

(** ---- everything that involves floats or the base-0 integer parser: for any environment in which the
    server's number formatting is read back by the library parser ---- *)
Section WithEnv.
Variable e : env.
Variable fmt : N -> bytes.                                     (* how the server prints a double *)
Hypothesis fmt_parse : forall f, pf e (fmt f) = (f, true).     (* strconv.ParseFloat reads it back *)
Hypothesis fmt_nonempty : forall f, fmt f <> [].

Definition dbl (f : N) : msg := MStr tFloat (fmt f) None.
(** a double: RESP3 double or RESP2 bulk string *)
Definition num (resp3 : bool) (f : N) : msg := if resp3 then dbl f else blob (fmt f).

Lemma to_float64_s_fmt f : to_float64_s e (fmt f) = (f, true).
Proof. unfold to_float64_s. now rewrite fmt_parse. Qed.

Lemma as_float64_num r f : as_float64 e (num r f) = ROk f /\ as_float64_raw e (num r f) = (f, None).
Proof. destruct r; unfold as_float64, as_float64_raw; cbn; rewrite to_float64_s_fmt; split; reflexivity. Qed.

Theorem float_faithful f :
  to_float64 e (dbl f) = ROk f /\ as_float64 e (dbl f) = ROk f /\ as_float64 e (blob (fmt f)) = ROk f /\ as_float64 e (simple (fmt f)) = ROk f.
Proof. unfold to_float64, as_float64, as_float64_raw. cbn. rewrite !to_float64_s_fmt. repeat split; reflexivity. Qed.

Theorem float_slice_faithful (fs : list (bool * N)) :
  as_float_slice e (arr (map (fun rf => num (fst rf) (snd rf)) fs)) = ROk (map snd fs).
Proof.
  unfold as_float_slice. cbn. apply mapM_map. intros [r f] _. cbn [fst snd].
  assert (E : mstr (num r f) = fmt f) by now destruct r. rewrite E.
  destruct (fmt f) eqn:F; [now apply fmt_nonempty in F|]. rewrite <- F. now rewrite to_float64_s_fmt.
Qed.

(** int maps: values as RESP3 integers or decimal strings *)
Theorem int_map_faithful (ps : list (bytes * (bool * Z))) t : (t = tArray \/ t = tSet \/ t = tMap) ->
  Forall (fun kv => (int64_min <= snd (snd kv) <= int64_max)%Z) ps ->
  as_int_map (MArr t (flat blob (fun bz => enc_int (fst bz) (snd bz)) ps) None) =
  ROk (set_all (map (fun kv => (fst kv, snd (snd kv))) ps) []).
Proof.
  intros Ht Hr. unfold as_int_map, as_int_map_with.
  set (vs := flat blob (fun bz => enc_int (fst bz) (snd bz)) ps).
  assert (E : msg_error (MArr t vs None) = None) by (destruct Ht as [-> |[-> | ->]]; reflexivity).
  assert (M : map_or_array (MArr t vs None) = true) by (destruct Ht as [-> |[-> | ->]]; reflexivity).
  rewrite E, M. cbn [mvals]. subst vs. rewrite even_len_flat. cbn [andb].
  rewrite (pair_loop_flat _ (fun m (kv : bytes * (bool * Z)) => mset (fst kv) (snd (snd kv)) m)).
  - f_equal. unfold set_all. generalize (@nil (bytes * Z)). induction ps as [|p r IH]; intro acc; [reflexivity|].
    cbn [map fold_left fst snd]. inversion Hr; subst. now apply IH.
  - intros [k [s z]] st Hin. rewrite Forall_forall in Hr. specialize (Hr _ Hin). cbn [fst snd] in *.
    change (is_str_typ (blob k)) with true. cbn iota.
    destruct s; cbn [enc_int].
    + cbn [blob mstr]. destruct (print_Z z) eqn:P; [now apply print_Z_nonempty in P|]. rewrite <- P.
      now rewrite parse_print_int.
    + reflexivity.
Qed.

(** ---- sorted sets ---- *)
Definition enc_zscore (resp3 : bool) (z : bytes * N) : list msg := [blob (fst z); num resp3 (snd z)].

Lemma to_zscore_enc r z : to_zscore e (enc_zscore r z) = ROk z.
Proof.
  destruct z as [m s]. unfold to_zscore, enc_zscore. cbn [length Nat.eqb idx nth_error rbind fst snd].
  change (to_string (blob m)) with (ROk (A:=bytes) m). cbn [rbind].
  destruct (as_float64_num r s) as [-> _]. reflexivity.
Qed.

Theorem zscore_faithful r z : as_zscore e (arr (enc_zscore r z)) = ROk z.
Proof. unfold as_zscore. cbn [to_array arr is_array mtyp mvals]. cbn. apply to_zscore_enc. Qed.

(** RESP3 / ZRANGE ... WITHSCORES in RESP3: array of [member, score] pairs *)
Theorem zscores_nested_faithful r zs :
  as_zscores e (arr (map (fun z => arr (enc_zscore r z)) zs)) = ROk zs.
Proof.
  unfold as_zscores.
  change (to_array (arr (map (fun z => arr (enc_zscore r z)) zs))) with (ROk (A:=list msg) (map (fun z => arr (enc_zscore r z)) zs)).
  cbn [rbind]. destruct zs as [|z0 zr]; [reflexivity|].
  change (match map (fun z => arr (enc_zscore r z)) (z0 :: zr) with a0 :: _ => is_array a0 | [] => false end) with true.
  cbn iota. transitivity (ROk (A:=list (bytes * N)) (map (fun z => z) (z0 :: zr))); [|now rewrite map_id].
  apply mapM_map. intros z _. cbn [mvals arr]. apply to_zscore_enc.
Qed.

(** RESP2: flat array member, score, member, score … *)
Lemma div2_double_plus n k : Nat.div2 (2 * n + k) = (n + Nat.div2 k)%nat.
Proof. induction n as [|n IH]; [reflexivity|]. replace (2 * S n + k)%nat with (S (S (2 * n + k))) by lia. cbn [Nat.div2]. rewrite IH. lia. Qed.

Lemma zscore_chunks_spec r zs : forall (done : list (bytes * N)),
  zscore_chunks e (flat_map (enc_zscore r) (done ++ zs)) (length zs) (length done) = ROk zs.
Proof.
  assert (L : forall l : list (bytes * N), length (flat_map (enc_zscore r) l) = (2 * length l)%nat).
  { induction l as [|x l IHl]; [reflexivity|]. cbn [flat_map enc_zscore app length]. rewrite IHl. lia. }
  induction zs as [|z rest IH]; intro done; cbn [length zscore_chunks]; [reflexivity|].
  assert (C : firstn 2 (skipn (length done * 2) (flat_map (enc_zscore r) (done ++ z :: rest))) = enc_zscore r z).
  { rewrite flat_map_app, skipn_app, L.
    replace (length done * 2 - 2 * length done)%nat with O by lia.
    rewrite skipn_all2 by (rewrite L; lia). reflexivity. }
  rewrite C. rewrite L, app_length. cbn [length].
  destruct (Nat.ltb_spec (2 * (length done + S (length rest))) (length done * 2 + 2)); [lia|].
  rewrite to_zscore_enc. cbn [rbind].
  specialize (IH (done ++ [z])). rewrite <- app_assoc in IH. cbn [app] in IH.
  rewrite app_length in IH. cbn [length] in IH.
  replace (length done + 1)%nat with (S (length done)) in IH by lia.
  rewrite IH. reflexivity.
Qed.

Theorem zscores_flat_faithful zs :
  as_zscores e (arr (flat_map (enc_zscore false) zs)) = ROk zs.
Proof.
  unfold as_zscores.
  change (to_array (arr (flat_map (enc_zscore false) zs))) with (ROk (A:=list msg) (flat_map (enc_zscore false) zs)).
  cbn [rbind].
  assert (L : forall l : list (bytes * N), length (flat_map (enc_zscore false) l) = (2 * length l)%nat).
  { induction l as [|x l IHl]; [reflexivity|]. cbn [flat_map enc_zscore app length]. rewrite IHl. lia. }
  assert (H0 : match flat_map (enc_zscore false) zs with a0 :: _ => is_array a0 | [] => false end = false).
  { destruct zs as [|z r]; reflexivity. }
  rewrite H0. rewrite L.
  replace (Nat.div2 (2 * length zs)) with (length zs) by (rewrite <- (Nat.add_0_r (2 * length zs)), div2_double_plus; cbn; lia).
  apply (zscore_chunks_spec false zs []).
Qed.

(** ---- streams ---- *)
Definition entry := (bytes * option (list (bytes * bytes)))%type.   (* id, field/value pairs (None = nil entry) *)

Definition enc_entry (x : entry) : msg :=
  arr [blob (fst x); match snd x with Some fv => arr (flat blob blob fv) | None => null end].

Theorem xrange_entry_faithful x :
  as_xrange_entry (enc_entry x) = ROk (mkXEntry (fst x) (option_map (fun fv => set_all fv []) (snd x))).
Proof.
  destruct x as [id [fv|]]; unfold as_xrange_entry, enc_entry; cbn [fst snd].
  - change (to_array (arr [blob id; arr (flat blob blob fv)])) with (ROk (A:=list msg) [blob id; arr (flat blob blob fv)]).
    cbn [rbind length Nat.eqb negb idx nth_error]. change (to_string (blob id)) with (ROk (A:=bytes) id). cbn [rbind].
    unfold arr. rewrite str_map_faithful by now left. reflexivity.
  - reflexivity.
Qed.

Theorem xrange_faithful xs :
  as_xrange (arr (map enc_entry xs)) = ROk (map (fun x => mkXEntry (fst x) (option_map (fun fv => set_all fv []) (snd x))) xs).
Proof.
  unfold as_xrange. change (to_array (arr (map enc_entry xs))) with (ROk (A:=list msg) (map enc_entry xs)). cbn [rbind].
  apply mapM_map. intros; apply xrange_entry_faithful.
Qed.

Lemma slice_pairs_spec (fv : list (bytes * bytes)) : forall done,
  slice_pairs (flat blob blob (done ++ fv)) (length fv) (length done) = ROk fv.
Proof.
  assert (L : forall l : list (bytes * bytes), length (flat blob blob l) = (2 * length l)%nat).
  { induction l as [|x l IHl]; [reflexivity|]. unfold flat in *. cbn [flat_map app length]. rewrite IHl. lia. }
  assert (N1 : forall (done : list (bytes * bytes)) p rest, nth_error (flat blob blob (done ++ p :: rest)) (length done * 2) = Some (blob (fst p)) /\
               nth_error (flat blob blob (done ++ p :: rest)) (length done * 2 + 1) = Some (blob (snd p))).
  { induction done as [|d done IHd]; intros p rest; [split; reflexivity|].
    cbn [app length]. unfold flat in *. cbn [flat_map app]. replace (S (length done) * 2)%nat with (S (S (length done * 2))) by lia.
    cbn [nth_error Nat.add]. apply IHd. }
  induction fv as [|p rest IH]; intro done; cbn [length slice_pairs]; [reflexivity|].
  destruct (N1 done p rest) as [E1 E2]. unfold idx. rewrite E1, E2. cbn [rbind mstr blob].
  specialize (IH (done ++ [p])). rewrite <- app_assoc in IH. cbn [app] in IH. rewrite app_length in IH. cbn [length] in IH.
  replace (length done + 1)%nat with (S (length done)) in IH by lia. rewrite IH. cbn [rbind]. now destruct p.
Qed.

Theorem xrange_slice_faithful x :
  as_xrange_slice (enc_entry x) = ROk (mkXSlice (fst x) (snd x)).
Proof.
  destruct x as [id [fv|]]; unfold as_xrange_slice, enc_entry; cbn [fst snd].
  - change (to_array (arr [blob id; arr (flat blob blob fv)])) with (ROk (A:=list msg) [blob id; arr (flat blob blob fv)]).
    cbn [rbind length Nat.eqb negb idx nth_error]. change (to_string (blob id)) with (ROk (A:=bytes) id). cbn [rbind].
    change (to_array (arr (flat blob blob fv))) with (ROk (A:=list msg) (flat blob blob fv)).
    assert (L : length (flat blob blob fv) = (2 * length fv)%nat).
    { induction fv as [|p l IHl]; [reflexivity|]. unfold flat in *. cbn [flat_map app length]. rewrite IHl. lia. }
    cbv beta iota. rewrite L. replace (Nat.div2 (2 * length fv)) with (length fv) by (rewrite <- (Nat.add_0_r (2 * length fv)), div2_double_plus; cbn; lia).
    pose proof (slice_pairs_spec fv []) as SP. cbn [app length] in SP. rewrite SP. reflexivity.
  - reflexivity.
Qed.

Theorem xrange_slices_faithful xs :
  as_xrange_slices (arr (map enc_entry xs)) = ROk (map (fun x => mkXSlice (fst x) (snd x)) xs).
Proof.
  unfold as_xrange_slices. change (to_array (arr (map enc_entry xs))) with (ROk (A:=list msg) (map enc_entry xs)). cbn [rbind].
  apply mapM_map. intros; apply xrange_slice_faithful.
Qed.

(** XREAD: RESP3 map stream -> entries, RESP2 array of [stream, entries] *)
Theorem xread_generic_faithful {D E} (conv : msg -> res (list E)) (enc : D -> msg) (dec : D -> list E)
        (streams : list (bytes * D)) :
  (forall d, conv (enc d) = ROk (dec d)) ->
  xread_generic conv (mapm (flat blob enc streams)) = ROk (set_all (map (fun kd => (fst kd, dec (snd kd))) streams) []) /\
  xread_generic conv (arr (map (fun kd => arr [blob (fst kd); enc (snd kd)]) streams)) =
    ROk (set_all (map (fun kd => (fst kd, dec (snd kd))) streams) []).
Proof.
  intro Hc. split; unfold xread_generic.
  - change (msg_error (mapm (flat blob enc streams))) with (@None aerr). change (is_map (mapm (flat blob enc streams))) with true.
    cbn iota. cbn [mvals mapm]. rewrite even_len_flat.
    rewrite (pair_loop_flat _ (fun m (kd : bytes * D) => mset (fst kd) (dec (snd kd)) m)).
    + f_equal. unfold set_all. generalize (@nil (bytes * list E)). induction streams as [|p r IH]; intro acc; [reflexivity|].
      cbn [map fold_left fst snd]. apply IH.
    + intros kd st _. rewrite Hc. reflexivity.
  - change (msg_error (arr _)) with (@None aerr). change (is_map (arr _)) with false. change (is_array (arr _)) with true.
    cbn iota. cbn [mvals arr]. unfold set_all. generalize (@nil (bytes * list E)).
    induction streams as [|p r IH]; intro acc; [reflexivity|].
    cbn [map fold_left fst snd]. change (is_array (arr [blob (fst p); enc (snd p)])) with true.
    cbn [negb orb mvals arr length Nat.eqb idx nth_error rbind]. rewrite Hc. cbn [rbind mstr blob]. apply IH.
Qed.

(** ---- scan, pops ---- *)
Theorem scan_faithful c els : c <= uint64_max ->
  as_scan_entry (arr [blob (print_N c); arr (map blob els)]) = ROk (c, els).
Proof.
  intro H. unfold as_scan_entry.
  change (to_array (arr [blob (print_N c); arr (map blob els)])) with (ROk (A:=list msg) [blob (print_N c); arr (map blob els)]).
  cbn [rbind length Nat.leb idx nth_error]. unfold blob at 1. rewrite uint_string_faithful by (auto || exact H). cbn [rbind].
  unfold arr. rewrite str_slice_faithful by now left. reflexivity.
Qed.

Theorem lmpop_faithful k vs : as_lmpop (arr [blob k; arr (map blob vs)]) = ROk (k, vs).
Proof.
  unfold as_lmpop. change (msg_error (arr _)) with (@None aerr). cbn iota. cbn [mvals arr length Nat.leb idx nth_error rbind].
  fold (arr (map blob vs)). unfold arr. rewrite str_slice_faithful by now left. reflexivity.
Qed.

Theorem zmpop_faithful r k zs :
  as_zmpop e (arr [blob k; arr (map (fun z => arr (enc_zscore r z)) zs)]) = ROk (k, zs).
Proof.
  unfold as_zmpop. change (msg_error (arr _)) with (@None aerr). cbn iota. cbn [mvals arr length Nat.leb idx nth_error rbind].
  fold (arr (map (fun z => MArr tArray (enc_zscore r z) None) zs)).
  change (map (fun z => MArr tArray (enc_zscore r z) None) zs) with (map (fun z => arr (enc_zscore r z)) zs).
  rewrite zscores_nested_faithful. reflexivity.
Qed.

(** ---- FT.AGGREGATE ---- *)
Definition row := list (bytes * bytes).

Lemma str_map_opt_flat (r : row) t : (t = tArray \/ t = tSet \/ t = tMap) ->
  str_map_opt (MArr t (flat blob blob r) None) = Some (set_all r []).
Proof. intro H. unfold str_map_opt. now rewrite str_map_faithful. Qed.

(** evaluate the key comparisons of the RESP3 loops on literal keys *)
Ltac eval_keys :=
  repeat match goal with
  | |- context [bytes_eqb (mstr (blob ?x)) ?y] =>
    let v := eval vm_compute in (bytes_eqb x y) in
    change (bytes_eqb (mstr (blob x)) y) with v; cbv beta iota
  end.

Definition enc_agg2 (total : Z) (rows : list row) : msg :=
  arr (int total :: map (fun r => arr (flat blob blob r)) rows).

Theorem ft_aggregate2_faithful total rows :
  as_ft_aggregate (enc_agg2 total rows) = ROk (total, map (fun r => Some (set_all r [])) rows).
Proof.
  unfold as_ft_aggregate, enc_agg2. change (msg_error (arr _)) with (@None aerr). change (is_map (arr _)) with false.
  cbn iota. cbn [mvals arr mintlen int]. f_equal. f_equal. rewrite map_map. apply map_ext. intro r.
  apply str_map_opt_flat. now left.
Qed.

Definition rec_agg3 (r : row) : msg := mapm [blob (b "extra_attributes"); mapm (flat blob blob r); blob (b "values"); arr []].

Definition enc_agg3 (total : Z) (rows : list row) : msg :=
  mapm [blob (b "attributes"); arr []; blob (b "format"); blob (b "STRING"); blob (b "results"); arr (map rec_agg3 rows);
        blob (b "total_results"); int total; blob (b "warning"); arr []].

Lemma fta_record_rec r : fta_record (rec_agg3 r) = ROk (Some (set_all r [])).
Proof.
  unfold fta_record, rec_agg3. cbn [mvals mapm pair_loop_guarded rbind]. eval_keys. cbn [rbind].
  unfold mapm. rewrite str_map_opt_flat by auto. reflexivity.
Qed.

Theorem ft_aggregate3_faithful total rows :
  as_ft_aggregate (enc_agg3 total rows) = ROk (total, map (fun r => Some (set_all r [])) rows).
Proof.
  unfold as_ft_aggregate, enc_agg3. change (msg_error (mapm _)) with (@None aerr). change (is_map (mapm _)) with true.
  cbn iota. cbn [mvals mapm pair_loop_guarded rbind]. eval_keys. cbn [rbind].
  change (mvals (arr (map rec_agg3 rows))) with (map rec_agg3 rows).
  rewrite (mapM_map fta_record rec_agg3 (fun r => Some (set_all r [])) rows) by (intros; apply fta_record_rec).
  cbn [rbind fst snd]. eval_keys. reflexivity.
Qed.

Theorem ft_aggregate_cursor_faithful body total rows cur :
  (is_array body || is_map body = true) -> as_ft_aggregate body = ROk (total, rows) ->
  as_ft_aggregate_cursor (arr [body; int cur]) = ROk (cur, total, rows) /\
  (is_array body = false \/ length (mvals body) <> 2%nat \/ (match mvals body with v0 :: _ => is_array v0 || is_map v0 | [] => false end) = false ->
   as_ft_aggregate_cursor body = ROk (0%Z, total, rows)).
Proof.
  intros Hb Ha. split.
  - unfold as_ft_aggregate_cursor. change (is_array (arr [body; int cur])) with true.
    cbn [mvals arr length Nat.eqb andb]. rewrite Hb. cbn [idx nth_error rbind]. rewrite Ha. reflexivity.
  - intro Hn. unfold as_ft_aggregate_cursor.
    replace (is_array body && (length (mvals body) =? 2)%nat && match mvals body with v0 :: _ => is_array v0 || is_map v0 | [] => false end) with false.
    + rewrite Ha. reflexivity.
    + symmetry. destruct Hn as [H|[H|H]].
      * now rewrite H.
      * apply Nat.eqb_neq in H. rewrite H. now rewrite andb_false_r.
      * rewrite H. now rewrite andb_false_r.
Qed.

(** ---- FT.SEARCH ---- *)
(** RESP3: one record per document; attributes and score are present or not, per record *)
Definition doc3 := (bytes * option row * option N)%type.

Definition rec_search3 (d : doc3) : msg :=
  mapm ([blob (b "id"); blob (fst (fst d))]
        ++ match snd (fst d) with Some r => [blob (b "extra_attributes"); mapm (flat blob blob r)] | None => [] end
        ++ match snd d with Some s => [blob (b "score"); dbl s] | None => [] end
        ++ [blob (b "values"); arr []]).

Definition dec_doc3 (d : doc3) : ftdoc :=
  mkDoc (fst (fst d)) (option_map (fun r => set_all r []) (snd (fst d))) (match snd d with Some s => s | None => 0 end).

Lemma fts_record_rec d : fts_record e (rec_search3 d) = ROk (dec_doc3 d).
Proof.
  destruct d as [[k [r|]] [s|]]; unfold fts_record, rec_search3, dec_doc3; cbn [fst snd app mvals mapm pair_loop_guarded rbind];
    eval_keys; cbn [rbind d_key d_doc d_score option_map]; eval_keys; cbn [rbind d_key d_doc d_score];
    eval_keys; cbn [rbind d_key d_doc d_score]; eval_keys; cbn [rbind d_key d_doc d_score mstr blob dbl];
    try (unfold mapm; rewrite str_map_opt_flat by auto); try rewrite fmt_parse; reflexivity.
Qed.

Definition enc_search3 (total : Z) (docs : list doc3) : msg :=
  mapm [blob (b "attributes"); arr []; blob (b "format"); blob (b "STRING"); blob (b "results"); arr (map rec_search3 docs);
        blob (b "total_results"); int total; blob (b "warning"); arr []].

Theorem ft_search3_faithful total docs :
  as_ft_search e (enc_search3 total docs) = ROk (total, map dec_doc3 docs).
Proof.
  unfold as_ft_search, enc_search3. change (msg_error (mapm _)) with (@None aerr). change (is_map (mapm _)) with true.
  cbn iota. cbn [mvals mapm pair_loop_guarded rbind]. eval_keys. cbn [rbind].
  change (mvals (arr (map rec_search3 docs))) with (map rec_search3 docs).
  rewrite (mapM_map (fts_record e) rec_search3 dec_doc3 docs) by (intros; apply fts_record_rec).
  cbn [rbind fst snd]. eval_keys. reflexivity.
Qed.

(** RESP2: [total, key, (score)?, (attributes)?, key, …]; the reply does not say which optional parts are
    present: the accessor guesses from the elements at index 2 and 3, which is right when keys are non-empty
    and do not parse as floats *)
Definition doc2 := (bytes * N * row)%type.   (* key, score, attributes *)

Definition enc_doc2 (ws wa : bool) (d : doc2) : list msg :=
  [blob (fst (fst d))] ++ (if ws then [blob (fmt (snd (fst d)))] else []) ++ (if wa then [arr (flat blob blob (snd d))] else []).

Definition dec_doc2 (ws wa : bool) (d : doc2) : ftdoc :=
  mkDoc (fst (fst d)) (if wa then Some (set_all (snd d) []) else None) (if ws then snd (fst d) else 0).

Lemma fts_docs_spec ws wa docs :
  fts_docs e ws wa (flat_map (enc_doc2 ws wa) docs) = map (dec_doc2 ws wa) docs.
Proof.
  induction docs as [|[[k s] r] rest IH]; [reflexivity|].
  destruct ws, wa; cbn [flat_map enc_doc2 app fst snd fts_docs map dec_doc2] in *; rewrite IH;
    cbn [mstr blob]; try rewrite fmt_parse; try (unfold arr; rewrite str_map_opt_flat by auto); reflexivity.
Qed.

Definition key_ok (k : bytes) : Prop := k <> [] /\ snd (pf e k) = false.

Theorem ft_search2_faithful ws wa total docs :
  Forall (fun d => key_ok (fst (fst d))) docs ->
  as_ft_search e (arr (int total :: flat_map (enc_doc2 ws wa) docs)) = ROk (total, map (dec_doc2 ws wa) docs).
Proof.
  intro Hk. unfold as_ft_search. change (msg_error (arr _)) with (@None aerr). change (is_map (arr _)) with false.
  cbn iota. cbn [mvals arr]. cbv zeta.
  assert (Hflags : forall (f2 : res (bool * bool)) (k : bool * bool -> res (Z * list ftdoc)),
            f2 = ROk (match docs with [] => (false, false) | _ => (ws, wa && negb ws) end) -> True) by auto.
  clear Hflags.
  destruct docs as [|[[k1 s1] r1] rest].
  - reflexivity.
  - inversion Hk as [|? ? [Hne1 Hnf1] Hk']; subst. cbn [fst snd] in *.
    assert (Hs : forall s, mstr (blob (fmt s)) <> []) by (intros s; apply fmt_nonempty).
    rewrite <- (fts_docs_spec ws wa ((k1, s1, r1) :: rest)).
    set (body := flat_map (enc_doc2 ws wa) ((k1, s1, r1) :: rest)).
    assert (Flags :
      (if (2 <? length (int total :: body))%nat then
         v2 <- idx (int total :: body) 2 ;;
         match mstr v2 with
         | [] => ROk (false, true)
         | _ => v1 <- idx (int total :: body) 1 ;; ROk (negb (snd (pf e (mstr v1))) && snd (pf e (mstr v2)), false)
         end
       else ROk (false, false)) = ROk (match rest, ws, wa with
                                       | [], false, false => (false, false)
                                       | _, true, _ => (true, false)
                                       | _, false, true => (false, true)
                                       | _, false, false => (false, false)
                                       end)).
    { subst body. destruct ws, wa; destruct rest as [|[[k2 s2] r2] rest2]; cbn [flat_map enc_doc2 app fst snd length Nat.ltb Nat.leb idx nth_error rbind mstr blob arr];
        try reflexivity;
        try (destruct (fmt s1) eqn:F; [now apply fmt_nonempty in F|]; rewrite <- F; rewrite Hnf1, fmt_parse; reflexivity).
      - (* no score, no attributes, at least two keys *)
        inversion Hk' as [|? ? [Hne2 Hnf2] _]; subst. cbn [fst snd] in *.
        destruct k2; [contradiction|]. cbn [mstr blob]. rewrite Hnf1. cbn. now rewrite andb_false_r || (rewrite Hnf2; reflexivity). }
    rewrite Flags. clear Flags.
    destruct ws, wa; destruct rest as [|[[k2 s2] r2] rest2]; subst body;
      cbn [rbind flat_map enc_doc2 app fst snd length Nat.ltb Nat.leb idx nth_error mstr blob arr mintlen int];
      try reflexivity;
      try (inversion Hk' as [|? ? [Hne2 Hnf2] _]; subst; cbn [fst snd] in *; destruct k2; [contradiction|]; reflexivity).
  destruct rest2 as [|[[k3 s3] r3] rest3]; [reflexivity|].
  inversion Hk' as [|? ? _ Hk'']; subst. inversion Hk'' as [|? ? [Hne3 _] _]; subst. cbn [fst snd] in *.
  cbn [flat_map enc_doc2 app fst snd length idx nth_error rbind mstr blob].
  destruct k3; [contradiction|]. reflexivity.
Qed.

(** ---- GEOSEARCH with every WITHDIST / WITHHASH / WITHCOORD combination ---- *)
Definition loc := (bytes * option N * option Z * option (N * N))%type.   (* name, dist, hash, (longitude, latitude) *)

Definition enc_loc (r : bool) (l : loc) : msg :=
  let '(name, dist, hash, coord) := l in
  match dist, hash, coord with
  | None, None, None => blob name
  | _, _, _ =>
    arr ([blob name]
         ++ match dist with Some d => [num r d] | None => [] end
         ++ match hash with Some h => [int h] | None => [] end
         ++ match coord with Some (lo, la) => [arr [num r lo; num r la]] | None => [] end)
  end.

Definition dec_loc (l : loc) : geoloc :=
  let '(name, dist, hash, coord) := l in
  mkGeo name (match coord with Some (lo, _) => lo | None => 0 end) (match coord with Some (_, la) => la | None => 0 end)
        (match dist with Some d => d | None => 0 end) (match hash with Some h => h | None => 0%Z end).

Lemma mstr_num r f : mstr (num r f) = fmt f.
Proof. now destruct r. Qed.

Lemma geo_one_enc r l : geo_one e (enc_loc r l) = ROk (dec_loc l).
Proof.
  destruct l as [[[name [d|]] [h|]] [[lo la]|]]; unfold geo_one, enc_loc, dec_loc;
    try reflexivity;
    change (is_string (arr _)) with false; cbn iota; cbn [mvals arr app idx nth_error rbind mstr blob];
    try rewrite mstr_num;
    try (destruct (fmt d) eqn:F; [now apply fmt_nonempty in F|]; rewrite <- F; rewrite to_float64_s_fmt);
    cbv -[as_float64_raw num];
    repeat match goal with |- context [as_float64_raw e (num r ?f)] => rewrite (proj2 (as_float64_num r f)) end;
    reflexivity.
Qed.

Theorem geosearch_faithful r ls :
  as_geosearch e (arr (map (enc_loc r) ls)) = ROk (map dec_loc ls).
Proof.
  unfold as_geosearch. change (to_array (arr (map (enc_loc r) ls))) with (ROk (A:=list msg) (map (enc_loc r) ls)). cbn [rbind].
  apply mapM_map. intros; apply geo_one_enc.
Qed.

End WithEnv.

(** ---- arrays of messages are handed over unchanged ---- *)
Theorem to_array_faithful l t : (t = tArray \/ t = tSet) -> to_array (MArr t l None) = ROk l.
Proof. intros [-> | ->]; reflexivity. Qed.

Theorem decode_slice_of_json_faithful e (docs : list bytes) :
  Forall (fun d => json_ok e d = true) docs ->
  decode_slice_of_json e (arr (map blob docs)) = ROk (length docs).
Proof.
  intro H. unfold decode_slice_of_json. change (to_array (arr (map blob docs))) with (ROk (A:=list msg) (map blob docs)). cbn [rbind].
  rewrite (mapM_map _ blob (fun _ => tt) docs).
  - cbn [rbind]. now rewrite map_length.
  - intros d Hin. rewrite Forall_forall in H. unfold decode_json. change (to_string (blob d)) with (ROk (A:=bytes) d). cbn [rbind].
    now rewrite (H d Hin).
Qed.
