(** Proofs about the pipeline model (Model/CompatPipe.v). *)
From Coq Require Import List Arith NArith ZArith Bool Lia.
Require Import RV.Model.Base RV.Model.CompatPipe.
Import ListNotations.
Local Open Scope nat_scope.

(** ---------- set_nth ---------- *)
Lemma set_nth_length : forall A n (x : A) l, length (set_nth n x l) = length l.
Proof. intros A n x l. revert n. induction l as [|y l IH]; intros [|n]; simpl; auto. Qed.

Lemma nth_error_set_nth_eq : forall A n (x : A) l, n < length l -> nth_error (set_nth n x l) n = Some x.
Proof.
  intros A n x l. revert n. induction l as [|y l IH]; intros [|n] H; simpl in *; try lia; auto.
  apply IH. lia.
Qed.

Lemma nth_error_set_nth_neq : forall A n m (x : A) l, n <> m -> nth_error (set_nth n x l) m = nth_error l m.
Proof.
  intros A n m x l. revert n m. induction l as [|y l IH]; intros [|n] [|m] H; simpl; auto; try congruence.
Qed.

(** ---------- first error ---------- *)
(** the first error in a list of Cmd errors, or ENone *)
Fixpoint first_err (l : list cerr) : cerr :=
  match l with
  | [] => ENone
  | ENone :: r => first_err r
  | e :: _ => e
  end.

Definition or_err (acc e : cerr) : cerr := match acc with ENone => e | _ => acc end.

Lemma or_err_first : forall acc l, or_err acc (first_err l) = first_err (acc :: l).
Proof. intros [] l; reflexivity. Qed.

(** ---------- invariant ---------- *)
Definition inv (s : pstate) : Prop :=
  length (rets s) = length (queue s) /\ NoDup (rets s) /\ Forall (fun id => id < length (store s)) (rets s).

Lemma inv_init : inv pinit.
Proof. repeat split; simpl; constructor. Qed.

(** the errors held by the Cmds a list of ids points to *)
Definition err_at (st : list cmdobj) (id : nat) : cerr :=
  match nth_error st id with Some c => cerror c | None => ENone end.
Definition errs_at (st : list cmdobj) (ids : list nat) : list cerr := map (err_at st) ids.

Lemma first_err_or : forall a b l, first_err (or_err a b :: l) = first_err (a :: b :: l).
Proof. intros [] [] l; reflexivity. Qed.

Lemma errs_at_ext : forall st st' ids, (forall id, In id ids -> nth_error st' id = nth_error st id) ->
  errs_at st' ids = errs_at st ids.
Proof.
  intros st st' ids H. unfold errs_at. apply map_ext_in. intros id Hin. unfold err_at. rewrite H by exact Hin. reflexivity.
Qed.

(** ---------- the assignment loops ---------- *)
(** [assigned st rs rl st'] : st' is st where the Cmd of the i-th id received the i-th result *)
Definition assigned (st : list cmdobj) (rs : list nat) (rl : list res) (st' : list cmdobj) : Prop :=
  length st' = length st /\
  (forall i id r c, nth_error rs i = Some id -> nth_error rl i = Some r -> nth_error st id = Some c ->
                    nth_error st' id = Some (apply_from c r)) /\
  (forall id, ~ In id rs -> nth_error st' id = nth_error st id).

Lemma assign_ok : forall resp rs st err,
  NoDup rs -> Forall (fun id => id < length st) rs -> length resp = length rs ->
  exists st', assign st rs resp err = (st', Some (first_err (err :: errs_at st' rs))) /\ assigned st rs resp st'.
Proof.
  induction resp as [|r resp IH]; intros rs st err Hnd Hlt Hlen.
  - destruct rs; simpl in Hlen; try lia. exists st. simpl. split.
    + destruct err; reflexivity.
    + split; [reflexivity|]. split; [intros i id r c H; destruct i; discriminate|auto].
  - destruct rs as [|id rs]; simpl in Hlen; try lia.
    inversion Hnd as [|? ? Hnotin Hnd']; subst. inversion Hlt as [|? ? Hid Hlt']; subst.
    destruct (nth_error st id) as [c|] eqn:Hc; [|apply nth_error_None in Hc; lia].
    set (c' := apply_from c r). set (st1 := set_nth id c' st).
    assert (Hlen1 : length st1 = length st) by apply set_nth_length.
    assert (Hlt1 : Forall (fun i => i < length st1) rs) by (rewrite Hlen1; exact Hlt').
    destruct (IH rs st1 (or_err err (cerror c')) Hnd' Hlt1 ltac:(lia)) as [st' [Heq [Hl [Hass Hrest]]]].
    assert (Hid' : nth_error st' id = Some c').
    { rewrite (Hrest id Hnotin). unfold st1. apply nth_error_set_nth_eq. exact Hid. }
    exists st'. split.
    + cbn [assign]. rewrite Hc. fold c'. fold st1.
      replace (match err with ENone => cerror c' | _ => err end) with (or_err err (cerror c')) by reflexivity.
      rewrite Heq. f_equal. f_equal. rewrite first_err_or.
      unfold errs_at. cbn [map]. f_equal. f_equal. unfold err_at. rewrite Hid'. reflexivity.
    + split; [lia|]. split.
      * intros i j r0 c0 Hi Hr Hc0. destruct i as [|i]; simpl in Hi, Hr.
        -- inversion Hi; inversion Hr; subst. rewrite Hc in Hc0. inversion Hc0; subst. exact Hid'.
        -- assert (j <> id) by (intro E; subst; apply Hnotin; eapply nth_error_In; eauto).
           apply (Hass i j r0 c0 Hi Hr). unfold st1. rewrite nth_error_set_nth_neq by auto. exact Hc0.
      * intros j Hj. rewrite Hrest by (intro E; apply Hj; right; auto).
        unfold st1. apply nth_error_set_nth_neq. intro E; apply Hj; left; auto.
Qed.

(** the assignment loop never shortens or lengthens the store, whatever the replies *)
Lemma assign_length : forall resp rs st err, length (fst (assign st rs resp err)) = length st.
Proof.
  induction resp as [|r resp IH]; intros rs st err; [reflexivity|].
  cbn [assign]. destruct rs as [|id rs]; [reflexivity|].
  destruct (nth_error st id); [|reflexivity]. rewrite IH. apply set_nth_length.
Qed.

(** TxPipeline: the i-th element of the EXEC array, paired with the i-th QUEUED result *)
Lemma tx_assign_as_assign : forall results rs st qs err,
  length qs = length results ->
  tx_assign st rs results qs err = assign st rs (map (fun p => tx_result (fst p) (snd p)) (combine results qs)) err.
Proof.
  induction results as [|r results IH]; intros rs st qs err Hlen.
  - reflexivity.
  - destruct qs as [|q qs]; simpl in Hlen; try lia.
    cbn [tx_assign combine map assign fst snd]. destruct rs as [|id rs]; [reflexivity|].
    destruct (nth_error st id); [|reflexivity]. apply IH. lia.
Qed.

Lemma tx_assign_length : forall results rs st qs err, length (fst (tx_assign st rs results qs err)) = length st.
Proof.
  induction results as [|r results IH]; intros rs st qs err; [reflexivity|].
  cbn [tx_assign]. destruct rs as [|id rs]; [reflexivity|]. destruct qs as [|q qs]; [reflexivity|].
  destruct (nth_error st id); [|reflexivity]. rewrite IH. apply set_nth_length.
Qed.

Lemma tx_assign_app : forall results rs st qs extra err,
  length qs = length results ->
  tx_assign st rs results (qs ++ extra) err =
  assign st rs (map (fun p => tx_result (fst p) (snd p)) (combine results qs)) err.
Proof.
  induction results as [|r results IH]; intros rs st qs extra err Hlen.
  - destruct qs; simpl in Hlen; try lia. reflexivity.
  - destruct qs as [|q qs]; simpl in Hlen; try lia.
    cbn [app tx_assign combine map assign fst snd]. destruct rs as [|id rs]; [reflexivity|].
    destruct (nth_error st id); [|reflexivity]. apply IH. lia.
Qed.

(** ---------- one step ---------- *)
Lemma inv_empty : forall st, inv (mkP st [] []).
Proof. intro st. repeat split; simpl; constructor. Qed.

Lemma NoDup_snoc : forall A (l : list A) x, NoDup l -> ~ In x l -> NoDup (l ++ [x]).
Proof.
  intros A l x Hnd Hx. induction Hnd as [|y l Hy Hnd IH]; simpl.
  - constructor; [intros []|constructor].
  - constructor.
    + intro Hin. apply in_app_or in Hin. destruct Hin as [Hin|[Hin|[]]]; [auto|].
      subst. apply Hx. left. reflexivity.
    + apply IH. intro Hin. apply Hx. right. exact Hin.
Qed.

Lemma inv_push : forall s c a, inv s -> inv (mkP (store s ++ [c]) (queue s ++ [a]) (rets s ++ [length (store s)])).
Proof.
  intros s c a [Hl [Hnd Hlt]]. repeat split; cbn [rets queue store].
  - rewrite !app_length. simpl. lia.
  - apply NoDup_snoc; [exact Hnd|].
    intro Hin. rewrite Forall_forall in Hlt. specialize (Hlt _ Hin). lia.
  - apply Forall_app. split.
    + eapply Forall_impl; [|exact Hlt]. intros x Hx. cbn beta in *. rewrite app_length. simpl. lia.
    + constructor; [|constructor]. rewrite app_length. simpl. lia.
Qed.

Lemma inv_step : forall tx s o, inv s -> inv (fst (step tx s o)).
Proof.
  intros tx s o Hinv. destruct o as [k a|a|k e| | |resp]; cbn [step fst].
  - apply inv_push. exact Hinv.
  - apply inv_push. exact Hinv.
  - destruct Hinv as [Hl [Hnd Hlt]]. repeat split; cbn [rets queue store]; auto.
    eapply Forall_impl; [|exact Hlt]. intros x Hx. cbn beta in *. rewrite app_length. simpl. lia.
  - exact Hinv.
  - apply inv_empty.
  - destruct (queue s) eqn:Hq; [exact Hinv|].
    destruct tx.
    + destruct (exec_array _) as [[results err]|]; [|apply inv_empty].
      destruct (tx_assign _ _ _ _ _) as [st' [e|]]; apply inv_empty.
    + destruct (assign _ _ _ _) as [st' [e|]]; apply inv_empty.
Qed.

(** Exec on an empty pipeline: nothing is sent, (nil, nil) is returned, nothing changes *)
Lemma exec_empty : forall tx s resp, queue s = [] -> step tx s (OExec resp) = (s, [EvRet None ENone]).
Proof. intros tx s resp H. cbn [step]. rewrite H. reflexivity. Qed.

(** Pipeline.Exec *)
Lemma pipe_exec_spec : forall s resp,
  inv s -> queue s <> [] -> length resp = length (queue s) ->
  exists st',
    step false s (OExec resp) =
      (mkP st' [] [], [EvSent (queue s); EvRet (Some (rets s)) (first_err (errs_at st' (rets s)))])
    /\ assigned (store s) (rets s) resp st'.
Proof.
  intros s resp [Hl [Hnd Hlt]] Hq Hlen.
  destruct (assign_ok resp (rets s) (store s) ENone Hnd Hlt ltac:(lia)) as [st' [Heq Hass]].
  exists st'. split; [|exact Hass].
  cbn [step]. destruct (queue s) eqn:E; [congruence|]. rewrite Heq. reflexivity.
Qed.

Lemma last_nth : forall A (l : list A) x, nth_error (l ++ [x]) (length (l ++ [x]) - 1) = Some x.
Proof.
  intros A l x. rewrite app_length. simpl. replace (length l + 1 - 1) with (length l) by lia.
  rewrite nth_error_app2 by lia. rewrite Nat.sub_diag. reflexivity.
Qed.

(** TxPipeline.Exec when EXEC returned an array of the right length *)
Lemma tx_exec_spec : forall s r0 qs results,
  inv s -> queue s <> [] -> length qs = length (queue s) -> length results = length (queue s) ->
  exists st',
    step true s (OExec (r0 :: qs ++ [RMsg (RArr results)])) =
      (mkP st' [] [], [EvSent (s_MULTI :: queue s ++ [s_EXEC]);
                       EvRet (Some (rets s)) (first_err (errs_at st' (rets s)))])
    /\ assigned (store s) (rets s) (map (fun p => tx_result (fst p) (snd p)) (combine results qs)) st'.
Proof.
  intros s r0 qs results [Hl [Hnd Hlt]] Hq Hqs Hres.
  set (rl := map (fun p => tx_result (fst p) (snd p)) (combine results qs)).
  assert (Hrl : length rl = length (rets s)).
  { unfold rl. rewrite map_length, combine_length. lia. }
  destruct (assign_ok rl (rets s) (store s) ENone Hnd Hlt Hrl) as [st' [Heq Hass]].
  exists st'. split; [|exact Hass].
  cbn [step]. destruct (queue s) eqn:E; [congruence|].
  change (r0 :: qs ++ [RMsg (RArr results)]) with ((r0 :: qs) ++ [RMsg (RArr results)]).
  rewrite last_nth. cbn [exec_array app tl].
  rewrite tx_assign_app by lia. fold rl. rewrite Heq. reflexivity.
Qed.

(** TxPipeline.Exec when EXEC did not return an array: nil (WATCH abort) => TxFailedErr, an error reply
    (EXECABORT …) or a connection error => that error; no Cmd is touched *)
Lemma tx_exec_abort : forall s r0 qs last e,
  queue s <> [] -> exec_array (Some last) = Some ([], e) ->
  step true s (OExec (r0 :: qs ++ [last])) =
    (mkP (store s) [] [], [EvSent (s_MULTI :: queue s ++ [s_EXEC]); EvRet (Some (rets s)) e]).
Proof.
  intros s r0 qs last e Hq He. cbn [step]. destruct (queue s) eqn:E; [congruence|].
  change (r0 :: qs ++ [last]) with ((r0 :: qs) ++ [last]). rewrite last_nth. rewrite He.
  reflexivity.
Qed.

(** what an Exec sends does not depend on the replies at all *)
Definition sent_of (evs : list ev) : list (list argv) :=
  flat_map (fun e => match e with EvSent b => [b] | _ => [] end) evs.

Definition wrap (tx : bool) (q : list argv) : list argv := if tx then s_MULTI :: q ++ [s_EXEC] else q.

Lemma exec_sent : forall tx s resp, queue s <> [] -> sent_of (snd (step tx s (OExec resp))) = [wrap tx (queue s)].
Proof.
  intros tx s resp Hq. cbn [step]. destruct (queue s) eqn:E; [congruence|].
  destruct tx; cbn [wrap].
  - destruct (exec_array _) as [[results err]|]; [|reflexivity].
    destruct (tx_assign _ _ _ _ _) as [st' [e|]]; reflexivity.
  - destruct (assign _ _ _ _) as [st' [e|]]; reflexivity.
Qed.

Lemma exec_clears : forall tx s resp, queue s <> [] ->
  queue (fst (step tx s (OExec resp))) = [] /\ rets (fst (step tx s (OExec resp))) = [] /\
  length (store (fst (step tx s (OExec resp)))) = length (store s).
Proof.
  intros tx s resp Hq. cbn [step]. destruct (queue s) eqn:E; [congruence|].
  destruct tx.
  - destruct (exec_array _) as [[results err]|]; [|auto].
    pose proof (tx_assign_length results (rets s) (store s) (tl resp) err) as HL.
    destruct (tx_assign _ _ _ _ _) as [st' [e|]]; cbn [fst] in HL; auto.
  - pose proof (assign_length resp (rets s) (store s) ENone) as HL.
    destruct (assign _ _ _ _) as [st' [e|]]; cbn [fst] in HL; auto.
Qed.

(** ---------- histories: the abstract queue ---------- *)
Record astate := mkA { a_next : nat; a_q : list argv; a_ids : list nat }.

Definition astep (a : astate) (o : op) : astate * list (list argv) :=
  match o with
  | OQueue _ c | ODo c => (mkA (S (a_next a)) (a_q a ++ [c]) (a_ids a ++ [a_next a]), [])
  | OReject _ _ => (mkA (S (a_next a)) (a_q a) (a_ids a), [])
  | OLen => (a, [])
  | ODiscard => (mkA (a_next a) [] [], [])
  | OExec _ => match a_q a with [] => (a, []) | q => (mkA (a_next a) [] [], [q]) end
  end.

Fixpoint arun (a : astate) (ops : list op) : astate * list (list argv) :=
  match ops with
  | [] => (a, [])
  | o :: r => let (a1, b1) := astep a o in let (a2, b2) := arun a1 r in (a2, b1 ++ b2)
  end.

Definition absrel (s : pstate) (a : astate) : Prop :=
  queue s = a_q a /\ rets s = a_ids a /\ length (store s) = a_next a.

Lemma absrel_step : forall tx s a o, absrel s a ->
  absrel (fst (step tx s o)) (fst (astep a o)) /\
  sent_of (snd (step tx s o)) = map (wrap tx) (snd (astep a o)).
Proof.
  intros tx s a o [Hq [Hr Hn]].
  destruct o as [k c|c|k e| | |resp].
  - cbn [step astep fst snd sent_of flat_map map app]. split; [|reflexivity].
    repeat split; cbn [queue rets store a_q a_ids a_next]; try congruence. rewrite app_length. simpl. lia.
  - cbn [step astep fst snd sent_of flat_map map app]. split; [|reflexivity].
    repeat split; cbn [queue rets store a_q a_ids a_next]; try congruence. rewrite app_length. simpl. lia.
  - cbn [step astep fst snd sent_of flat_map map app]. split; [|reflexivity].
    repeat split; cbn [queue rets store a_q a_ids a_next]; try congruence. rewrite app_length. simpl. lia.
  - cbn [step astep fst snd]. split; [repeat split; auto|reflexivity].
  - cbn [step astep fst snd]. split; [repeat split; auto|reflexivity].
  - destruct (queue s) as [|c0 q0] eqn:E.
    + rewrite exec_empty by exact E. cbn [astep]. rewrite <- Hq. cbn [fst snd]. split; [repeat split; auto; congruence|reflexivity].
    + assert (Hne : queue s <> []) by congruence.
      destruct (exec_clears tx s resp Hne) as [H1 [H2 H3]].
      rewrite (exec_sent tx s resp Hne). rewrite E.
      cbn [astep]. rewrite <- Hq. cbn [fst snd map]. split; [|reflexivity].
      repeat split; cbn [a_q a_ids a_next]; auto. lia.
Qed.

Lemma sent_of_app : forall a b, sent_of (a ++ b) = sent_of a ++ sent_of b.
Proof. intros a b. unfold sent_of. apply flat_map_app. Qed.

Lemma absrel_run : forall tx ops s a, absrel s a ->
  absrel (fst (run tx s ops)) (fst (arun a ops)) /\
  sent_of (snd (run tx s ops)) = map (wrap tx) (snd (arun a ops)).
Proof.
  induction ops as [|o ops IH]; intros s a Hrel.
  - split; [exact Hrel|reflexivity].
  - cbn [run arun]. destruct (absrel_step tx s a o Hrel) as [H1 H2].
    destruct (step tx s o) as [s1 e1]. destruct (astep a o) as [a1 b1]. cbn [fst snd] in *.
    destruct (IH s1 a1 H1) as [H3 H4].
    destruct (run tx s1 ops) as [s2 e2]. destruct (arun a1 ops) as [a2 b2]. cbn [fst snd] in *.
    split; [exact H3|]. rewrite sent_of_app, map_app, H2, H4. reflexivity.
Qed.

Lemma inv_run : forall tx ops s, inv s -> inv (fst (run tx s ops)).
Proof.
  induction ops as [|o ops IH]; intros s Hinv; [exact Hinv|].
  cbn [run]. pose proof (inv_step tx s o Hinv) as H1.
  destruct (step tx s o) as [s1 e1]. cbn [fst] in H1. specialize (IH s1 H1).
  destruct (run tx s1 ops) as [s2 e2]. exact IH.
Qed.

(** ---------- no panic against a well-formed server ---------- *)
Definition wf_resp (tx : bool) (n : nat) (resp : list res) : Prop :=
  if tx then
    exists r0 qs last, resp = r0 :: qs ++ [last] /\ length qs = n /\
                       (forall l, last = RMsg (RArr l) -> length l = n)
  else length resp = n.

Definition wf_op (tx : bool) (s : pstate) (o : op) : Prop :=
  match o with OExec resp => queue s <> [] -> wf_resp tx (length (queue s)) resp | _ => True end.

Fixpoint wf_run (tx : bool) (s : pstate) (ops : list op) : Prop :=
  match ops with
  | [] => True
  | o :: r => wf_op tx s o /\ wf_run tx (fst (step tx s o)) r
  end.

Lemma step_no_panic : forall tx s o, inv s -> wf_op tx s o -> ~ In EvPanic (snd (step tx s o)).
Proof.
  intros tx s o Hinv Hwf. destruct o as [k c|c|k e| | |resp]; cbn [step snd]; try (intros [H|[]]; discriminate); try (intros []).
  destruct (queue s) as [|c0 q0] eqn:E.
  - intros [H|[]]; discriminate.
  - assert (Hne : queue s <> []) by congruence. cbn [wf_op] in Hwf. specialize (Hwf Hne).
    destruct tx; cbn [wf_resp] in Hwf.
    + destruct Hwf as [r0 [qs [last [Hresp [Hqs Harr]]]]]. subst resp.
      destruct last as [[| | | |l]|].
      * pose proof (tx_exec_abort s r0 qs (RMsg RNil) ETxFailed Hne eq_refl) as H.
        cbn [step] in H. rewrite E in H. rewrite H. cbn [snd]. intros [X|[X|[]]]; discriminate.
      * pose proof (tx_exec_abort s r0 qs (RMsg (RStr s0)) EParse Hne eq_refl) as H.
        cbn [step] in H. rewrite E in H. rewrite H. cbn [snd]. intros [X|[X|[]]]; discriminate.
      * pose proof (tx_exec_abort s r0 qs (RMsg (RInt z)) EParse Hne eq_refl) as H.
        cbn [step] in H. rewrite E in H. rewrite H. cbn [snd]. intros [X|[X|[]]]; discriminate.
      * pose proof (tx_exec_abort s r0 qs (RMsg (RErr m)) (ERedis (trim_err m)) Hne eq_refl) as H.
        cbn [step] in H. rewrite E in H. rewrite H. cbn [snd]. intros [X|[X|[]]]; discriminate.
      * destruct (tx_exec_spec s r0 qs l Hinv Hne ltac:(exact Hqs) ltac:(apply Harr; reflexivity)) as [st' [H _]].
        cbn [step] in H. rewrite E in H. rewrite H. cbn [snd]. intros [X|[X|[]]]; discriminate.
      * pose proof (tx_exec_abort s r0 qs RNet ENet Hne eq_refl) as H.
        cbn [step] in H. rewrite E in H. rewrite H. cbn [snd]. intros [X|[X|[]]]; discriminate.
    + destruct (pipe_exec_spec s resp Hinv Hne ltac:(exact Hwf)) as [st' [H _]].
      cbn [step] in H. rewrite E in H. rewrite H. cbn [snd]. intros [X|[X|[]]]; discriminate.
Qed.

Lemma run_no_panic : forall tx ops s, inv s -> wf_run tx s ops -> ~ In EvPanic (snd (run tx s ops)).
Proof.
  induction ops as [|o ops IH]; intros s Hinv Hwf; [intros []|].
  cbn [run]. destruct Hwf as [Hw1 Hw2].
  pose proof (step_no_panic tx s o Hinv Hw1) as Hp. pose proof (inv_step tx s o Hinv) as Hi.
  destruct (step tx s o) as [s1 e1]. cbn [fst snd] in *.
  specialize (IH s1 Hi Hw2). destruct (run tx s1 ops) as [s2 e2]. cbn [snd] in *.
  intro Hin. apply in_app_or in Hin. tauto.
Qed.
