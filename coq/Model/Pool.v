(** Blocking pool ([pool.go]) as a labelled transition system.  Definitions only.

    Every critical section of [Acquire] / [Store] / [Close] / [removeIdleConns] (code that runs
    under [p.cond.L] and contains no blocking call) is ONE atomic step.  What is not atomic in
    the code is not atomic here:
      - the evaluation of the wait condition and [cond.Wait] are two steps ([AcqEnter]/[AcqWake]
        leave the thread in the mutex, [AcqPark] enqueues it and releases the mutex atomically,
        which is Go's [sync.Cond.Wait]); a step that needs the mutex is disabled in between;
      - [make] runs without the mutex ([MakeOk] needs no mutex, [MakeBad] re-locks);
      - [cond.Signal] after [Store] and [cond.Broadcast] after [Close] happen after the unlock
        ([Signal], [CloseBcast] are separate steps);
      - a context is cancelled by its owner without any lock ([CtxCancel]); the cancellation
        goroutine started by [Acquire] then broadcasts ([Bcast]) - without the mutex in the
        original code, under the mutex in the repaired code ([locked_bcast]).
    [sync.Cond]: [Wait] enqueues and unlocks atomically, [Signal] wakes any one parked thread,
    [Broadcast] all, no spurious wake-ups.  A woken thread must re-acquire the mutex ([AcqWake]).

    A thread identifier names one call of [Acquire].  Wires: [Real id] is a connection made by
    the pool's [make]; [DeadMade] is the shared dead wire returned by a failed dial (it took a
    slot: [size] was incremented); [DeadDown] is the same shared dead wire handed out after
    [Close] (no slot); [CtxDead] is the dead pipe made for a done context (no slot).  The
    distinction DeadMade / DeadDown is ghost (same Go object). *)
From Coq Require Import List NArith ZArith Bool Arith.
Require Import RV.Model.Base.
Import ListNotations.
Open Scope Z_scope.

Notation tid := nat (only parsing).

Inductive wire := Real (id : nat) | DeadMade | DeadDown | CtxDead.

Definition wire_eqb (a b : wire) : bool :=
  match a, b with
  | Real x, Real y => Nat.eqb x y
  | DeadMade, DeadMade | DeadDown, DeadDown | CtxDead, CtxDead => true
  | _, _ => false
  end.

(** Which code is modelled.  [orig_cfg] is pool.go as found; [fixed_cfg] follows the three
    repairs: the cancellation goroutine broadcasts under the mutex (D8) and [Store] does not give
    back a slot for the dead pipe of a done context, which never took one (D6). *)
Record config := {
  cap : Z;
  min_idle : nat;
  cleanup_on : bool;
  locked_bcast : bool;
  skip_uncounted : bool }.

Definition fixed_cfg (c : Z) (m : nat) (cl : bool) : config :=
  {| cap := c; min_idle := m; cleanup_on := cl; locked_bcast := true; skip_uncounted := true |}.
Definition orig_cfg (c : Z) (m : nat) (cl : bool) : config :=
  {| cap := c; min_idle := m; cleanup_on := cl; locked_bcast := false; skip_uncounted := false |}.

Record state := {
  size : Z;                 (* p.size *)
  idle : list nat;          (* p.list, top of the stack first (Go appends at the end and pops the end) *)
  down : bool;
  timer_on : bool;          (* p.timerOn *)
  tarmed : bool;            (* the runtime timer is pending or its function has not run yet *)
  mutex : option tid;       (* Some t: t holds p.cond.L between its wait-condition check and cond.Wait *)
  parked : list tid;        (* cond queue *)
  woken : list tid;         (* signalled, have not re-acquired the mutex yet *)
  making : list tid;        (* inside p.make, mutex released *)
  exiting : list tid;       (* left the last critical section, deferred cancel not yet run *)
  entered : list tid;
  cancellable : list tid;   (* ctx.Done() != nil *)
  armed : list tid;         (* cancellation goroutine started and poolCtx not yet cancelled by the defer *)
  ctxdone : list tid;
  bpend : list tid;         (* cancellation goroutines that will broadcast *)
  held : list wire;         (* handed out and not yet stored; most recent first (ghost) *)
  broken : list nat;        (* wires whose Error() is non-nil *)
  nostop : list nat;        (* wires whose StopTimer() answers false *)
  used : list nat;          (* wire ids ever made *)
  sigs : nat;               (* critical sections whose cond.Signal has not happened yet *)
  cbc : nat;                (* Close calls whose cond.Broadcast has not happened yet *)
  dstores : nat             (* ghost: stores of the shared dead wire handed out after Close *)
}.

Definition init : state :=
  {| size := 0; idle := []; down := false; timer_on := false; tarmed := false; mutex := None;
     parked := []; woken := []; making := []; exiting := []; entered := []; cancellable := [];
     armed := []; ctxdone := []; bpend := []; held := []; broken := []; nostop := []; used := [];
     sigs := 0; cbc := 0; dstores := 0 |}.

Inductive label :=
| AcqEnter (t : tid) (c : bool)       (* Lock; arm the cancellation goroutine; evaluate *)
| AcqPark (t : tid)                   (* cond.Wait: enqueue and unlock *)
| AcqWake (t : tid)                   (* woken: re-lock and evaluate *)
| MakeOk (t : tid) (id : option nat) (brk : bool) (* make returned: a new wire (possibly with an error) or the shared dead wire *)
| MakeBad (t : tid) (id : nat)        (* make returned a wire whose timer could not be stopped: Lock; size--; Close; retry *)
| AcqReturn (t : tid)                 (* deferred cancel(errAcquireComplete) *)
| CtxCancel (t : tid)
| Bcast (t : tid)                     (* cancellation goroutine of t *)
| Store (w : wire)                    (* the critical section of Store *)
| Signal (o : option tid)             (* cond.Signal after Store: wakes any one parked thread *)
| CloseCS (stopped : bool)
| CloseBcast
| IdleCleanup
| WBreak (id : nat)                   (* environment: the connection fails / is closed by its holder *)
| WExpire (id : nat).                 (* environment: the lifetime timer fires *)

Fixpoint memb (x : nat) (l : list nat) : bool :=
  match l with [] => false | y :: r => Nat.eqb x y || memb x r end.

Fixpoint remove1 (x : nat) (l : list nat) : list nat :=
  match l with [] => [] | y :: r => if Nat.eqb x y then r else y :: remove1 x r end.

Fixpoint wmemb (x : wire) (l : list wire) : bool :=
  match l with [] => false | y :: r => wire_eqb x y || wmemb x r end.

Fixpoint wremove1 (x : wire) (l : list wire) : list wire :=
  match l with [] => [] | y :: r => if wire_eqb x y then r else y :: wremove1 x r end.

Definition is_nil {A} (l : list A) : bool := match l with [] => true | _ => false end.

(** the wait condition of [Acquire] without the context part *)
Definition full (cfg : config) (s : state) : bool := is_nil (idle s) && (size s =? cap cfg).

Inductive outcome := OPark | OCtxDead | ODown | OMake | OGot (id : nat).

(** From label [retry:] to the end of the critical section, with the mutex held.  [l] is the idle
    stack, [sz] the size; returns the outcome, the remaining stack, the new size and the wires
    that were closed and dropped.  [cd] = ctx.Err() != nil, [dn] = p.down. *)
Fixpoint eval (cfg : config) (dn cd : bool) (brk ns : list nat) (l : list nat) (sz : Z)
  : outcome * list nat * Z * list nat :=
  match l with
  | [] =>
      if (sz =? cap cfg) && negb dn && negb cd then (OPark, [], sz, [])
      else if cd then (OCtxDead, [], sz, [])
      else if dn then (ODown, [], sz, [])
      else (OMake, [], sz + 1, [])
  | w :: r =>
      if cd then (OCtxDead, l, sz, [])
      else if dn then (ODown, l, sz, [])
      else if memb w ns || memb w brk then
        match eval cfg dn cd brk ns r (sz - 1) with
        | (o, l', sz', cl) => (o, l', sz', w :: cl)
        end
      else (OGot w, r, sz, [])
  end.

Definition set_eval (s : state) (l : list nat) (sz : Z) (cl : list nat) : state :=
  {| size := sz; idle := l; down := down s; timer_on := timer_on s; tarmed := tarmed s; mutex := mutex s;
     parked := parked s; woken := woken s; making := making s; exiting := exiting s; entered := entered s;
     cancellable := cancellable s; armed := armed s; ctxdone := ctxdone s; bpend := bpend s; held := held s;
     broken := cl ++ broken s; nostop := nostop s; used := used s; sigs := sigs s; cbc := cbc s; dstores := dstores s |}.

Definition hand_out (t : tid) (w : wire) (s : state) : state :=
  {| size := size s; idle := idle s; down := down s; timer_on := timer_on s; tarmed := tarmed s; mutex := None;
     parked := parked s; woken := woken s; making := making s; exiting := t :: exiting s; entered := entered s;
     cancellable := cancellable s; armed := armed s; ctxdone := ctxdone s; bpend := bpend s; held := w :: held s;
     broken := broken s; nostop := nostop s; used := used s; sigs := sigs s; cbc := cbc s; dstores := dstores s |}.

Definition set_mutex (o : option tid) (s : state) : state :=
  {| size := size s; idle := idle s; down := down s; timer_on := timer_on s; tarmed := tarmed s; mutex := o;
     parked := parked s; woken := woken s; making := making s; exiting := exiting s; entered := entered s;
     cancellable := cancellable s; armed := armed s; ctxdone := ctxdone s; bpend := bpend s; held := held s;
     broken := broken s; nostop := nostop s; used := used s; sigs := sigs s; cbc := cbc s; dstores := dstores s |}.

Definition add_making (t : tid) (s : state) : state :=
  {| size := size s; idle := idle s; down := down s; timer_on := timer_on s; tarmed := tarmed s; mutex := None;
     parked := parked s; woken := woken s; making := t :: making s; exiting := exiting s; entered := entered s;
     cancellable := cancellable s; armed := armed s; ctxdone := ctxdone s; bpend := bpend s; held := held s;
     broken := broken s; nostop := nostop s; used := used s; sigs := sigs s; cbc := cbc s; dstores := dstores s |}.

(** thread [t] holds the mutex and is at label [retry:] *)
Definition acquire_eval (cfg : config) (t : tid) (s : state) : state :=
  match eval cfg (down s) (memb t (ctxdone s)) (broken s) (nostop s) (idle s) (size s) with
  | (o, l, sz, cl) =>
      let s1 := set_eval s l sz cl in
      match o with
      | OPark => set_mutex (Some t) s1
      | OCtxDead => hand_out t CtxDead s1
      | ODown => hand_out t DeadDown s1
      | OMake => add_making t s1
      | OGot id => hand_out t (Real id) s1
      end
  end.

Definition mutex_free (s : state) : bool := match mutex s with None => true | Some _ => false end.

Definition upd_threads (s : state) (pk wk mk ex en cn ar cd bp : list tid) : state :=
  {| size := size s; idle := idle s; down := down s; timer_on := timer_on s; tarmed := tarmed s; mutex := mutex s;
     parked := pk; woken := wk; making := mk; exiting := ex; entered := en;
     cancellable := cn; armed := ar; ctxdone := cd; bpend := bp; held := held s;
     broken := broken s; nostop := nostop s; used := used s; sigs := sigs s; cbc := cbc s; dstores := dstores s |}.

Definition upd_wires (s : state) (sz : Z) (il : list nat) (hl : list wire) (bk ns us : list nat) : state :=
  {| size := sz; idle := il; down := down s; timer_on := timer_on s; tarmed := tarmed s; mutex := mutex s;
     parked := parked s; woken := woken s; making := making s; exiting := exiting s; entered := entered s;
     cancellable := cancellable s; armed := armed s; ctxdone := ctxdone s; bpend := bpend s; held := hl;
     broken := bk; nostop := ns; used := us; sigs := sigs s; cbc := cbc s; dstores := dstores s |}.

Definition upd_misc (s : state) (dn tn ta : bool) (sg cb ds : nat) : state :=
  {| size := size s; idle := idle s; down := dn; timer_on := tn; tarmed := ta; mutex := mutex s;
     parked := parked s; woken := woken s; making := making s; exiting := exiting s; entered := entered s;
     cancellable := cancellable s; armed := armed s; ctxdone := ctxdone s; bpend := bpend s; held := held s;
     broken := broken s; nostop := nostop s; used := used s; sigs := sg; cbc := cb; dstores := ds |}.

Definition is_real_ok (s : state) (w : wire) : option nat :=
  match w with
  | Real id => if memb id (broken s) then None else Some id
  | _ => None
  end.

Definition lstep (cfg : config) (s : state) (l : label) : option state :=
  match l with
  | AcqEnter t c =>
      if mutex_free s && negb (memb t (entered s)) && (c || negb (memb t (ctxdone s))) then
        let arm := full cfg s && negb (down s) && negb (memb t (ctxdone s)) && c in
        let s1 := upd_threads s (parked s) (woken s) (making s) (exiting s) (t :: entered s)
                    (if c then t :: cancellable s else cancellable s)
                    (if arm then t :: armed s else armed s) (ctxdone s) (bpend s) in
        Some (acquire_eval cfg t s1)
      else None
  | AcqPark t =>
      match mutex s with
      | Some u => if Nat.eqb t u then
                    Some (set_mutex None (upd_threads s (parked s ++ [t]) (woken s) (making s) (exiting s) (entered s)
                                             (cancellable s) (armed s) (ctxdone s) (bpend s)))
                  else None
      | None => None
      end
  | AcqWake t =>
      if mutex_free s && memb t (woken s) then
        Some (acquire_eval cfg t (upd_threads s (parked s) (remove1 t (woken s)) (making s) (exiting s) (entered s)
                                    (cancellable s) (armed s) (ctxdone s) (bpend s)))
      else None
  | MakeOk t oid brk =>
      if memb t (making s) then
        let s1 := upd_threads s (parked s) (woken s) (remove1 t (making s)) (t :: exiting s) (entered s)
                    (cancellable s) (armed s) (ctxdone s) (bpend s) in
        match oid with
        | None => Some (upd_wires s1 (size s1) (idle s1) (DeadMade :: held s1) (broken s1) (nostop s1) (used s1))
        | Some id =>
            if memb id (used s) then None
            else Some (upd_wires s1 (size s1) (idle s1) (Real id :: held s1)
                         (if brk then id :: broken s1 else broken s1) (nostop s1) (id :: used s1))
        end
      else None
  | MakeBad t id =>
      if mutex_free s && memb t (making s) && negb (memb id (used s)) then
        let s1 := upd_threads s (parked s) (woken s) (remove1 t (making s)) (exiting s) (entered s)
                    (cancellable s) (armed s) (ctxdone s) (bpend s) in
        let s2 := upd_wires s1 (size s1 - 1) (idle s1) (held s1) (id :: broken s1) (id :: nostop s1) (id :: used s1) in
        Some (acquire_eval cfg t s2)
      else None
  | AcqReturn t =>
      if memb t (exiting s) then
        Some (upd_threads s (parked s) (woken s) (making s) (remove1 t (exiting s)) (entered s)
                (cancellable s) (remove1 t (armed s)) (ctxdone s) (bpend s))
      else None
  | CtxCancel t =>
      if negb (memb t (ctxdone s)) && (negb (memb t (entered s)) || memb t (cancellable s)) then
        Some (upd_threads s (parked s) (woken s) (making s) (exiting s) (entered s) (cancellable s) (armed s)
                (t :: ctxdone s) (if memb t (armed s) then t :: bpend s else bpend s))
      else None
  | Bcast t =>
      if memb t (bpend s) && (negb (locked_bcast cfg) || mutex_free s) then
        Some (upd_threads s [] (woken s ++ parked s) (making s) (exiting s) (entered s) (cancellable s) (armed s)
                (ctxdone s) (remove1 t (bpend s)))
      else None
  | Store w =>
      if wmemb w (held s) && mutex_free s then
          let hl := wremove1 w (held s) in
          match (if down s then None else is_real_ok s w) with
          | Some id =>
              let s1 := upd_wires s (size s) (id :: idle s) hl (broken s) (nostop s) (used s) in
              let start := cleanup_on cfg && negb (timer_on s) && (min_idle cfg <? length (id :: idle s))%nat in
              Some (upd_misc s1 (down s1) (timer_on s1 || start) (tarmed s1 || start) (S (sigs s1)) (cbc s1) (dstores s1))
          | None =>
              let bk := match w with Real id => id :: broken s | _ => broken s end in
              let sz := if skip_uncounted cfg && wire_eqb w CtxDead then size s else size s - 1 in
              let s1 := upd_wires s sz (idle s) hl bk (nostop s) (used s) in
              Some (upd_misc s1 (down s1) (timer_on s1) (tarmed s1) (S (sigs s1)) (cbc s1)
                      (match w with DeadDown => S (dstores s1) | _ => dstores s1 end))
          end
      else None
  | Signal o =>
      match sigs s with
      | O => None
      | S k =>
          match o with
          | None => if is_nil (parked s) then Some (upd_misc s (down s) (timer_on s) (tarmed s) k (cbc s) (dstores s)) else None
          | Some t =>
              if memb t (parked s) then
                let s1 := upd_threads s (remove1 t (parked s)) (woken s ++ [t]) (making s) (exiting s) (entered s)
                            (cancellable s) (armed s) (ctxdone s) (bpend s) in
                Some (upd_misc s1 (down s1) (timer_on s1) (tarmed s1) k (cbc s1) (dstores s1))
              else None
          end
      end
  | CloseCS stopped =>
      if mutex_free s then
        let s1 := upd_wires s (size s) (idle s) (held s) (idle s ++ broken s) (nostop s) (used s) in
        Some (upd_misc s1 true false (tarmed s1 && negb stopped) (sigs s1) (S (cbc s1)) (dstores s1))
      else None
  | CloseBcast =>
      match cbc s with
      | O => None
      | S k =>
          let s1 := upd_threads s [] (woken s ++ parked s) (making s) (exiting s) (entered s) (cancellable s) (armed s)
                      (ctxdone s) (bpend s) in
          Some (upd_misc s1 (down s1) (timer_on s1) (tarmed s1) (sigs s1) k (dstores s1))
      end
  | IdleCleanup =>
      if mutex_free s && tarmed s then
        let n := (length (idle s) - Nat.min (min_idle cfg) (length (idle s)))%nat in
        let gone := firstn n (idle s) in
        let s1 := upd_wires s (size s - Z.of_nat n) (skipn n (idle s)) (held s) (gone ++ broken s) (nostop s) (used s) in
        Some (upd_misc s1 (down s1) false false (sigs s1) (cbc s1) (dstores s1))
      else None
  | WBreak id =>
      if memb id (used s) then Some (upd_wires s (size s) (idle s) (held s) (id :: broken s) (nostop s) (used s)) else None
  | WExpire id =>
      if memb id (used s) then Some (upd_wires s (size s) (idle s) (held s) (id :: broken s) (id :: nostop s) (used s)) else None
  end.

Fixpoint run (cfg : config) (ls : list label) (s : state) : option state :=
  match ls with
  | [] => Some s
  | l :: r => match lstep cfg s l with Some s' => run cfg r s' | None => None end
  end.

(** ---- measures used by the theorems ---- *)

Definition counted (w : wire) : bool := match w with Real _ | DeadMade => true | _ => false end.

Fixpoint count_counted (l : list wire) : nat :=
  match l with [] => O | w :: r => ((if counted w then 1 else 0) + count_counted r)%nat end.

(** connections that occupy a slot: handed out (counted), idle, or being made *)
Definition live (s : state) : nat := (count_counted (held s) + length (idle s) + length (making s))%nat.

(** free capacity as the waiters see it *)
Definition free (cfg : config) (s : state) : Z := Z.of_nat (length (idle s)) + (cap cfg - size s).

Fixpoint real_ids (l : list wire) : list nat :=
  match l with [] => [] | Real id :: r => id :: real_ids r | _ :: r => real_ids r end.

Definition wire_dead (s : state) (w : wire) : bool :=
  match w with Real id => memb id (broken s) | _ => true end.

(** ---- trace validation ---- *)

(** One recorded step: the label, the value of [p.size] the hook read at the end of the critical
    section (when there is one) and the wire the call returned (when it returned one). *)
Record tstep := { t_label : label; t_size : option Z; t_got : option wire }.

Definition Z_opt_ok (o : option Z) (z : Z) : bool := match o with None => true | Some x => x =? z end.
Definition got_ok (o : option wire) (s : state) : bool :=
  match o with None => true | Some w => match held s with x :: _ => wire_eqb w x | [] => false end end.

Fixpoint replay (cfg : config) (ts : list tstep) (s : state) : option state :=
  match ts with
  | [] => Some s
  | x :: r =>
      match lstep cfg s (t_label x) with
      | Some s' => if Z_opt_ok (t_size x) (size s') && got_ok (t_got x) s' then replay cfg r s' else None
      | None => None
      end
  end.

(** index of the first step that is not an enabled transition or whose observation differs *)
Fixpoint first_bad (cfg : config) (ts : list tstep) (s : state) (i : nat) : option nat :=
  match ts with
  | [] => None
  | x :: r =>
      match lstep cfg s (t_label x) with
      | Some s' => if Z_opt_ok (t_size x) (size s') && got_ok (t_got x) s' then first_bad cfg r s' (S i) else Some i
      | None => Some i
      end
  end.

Fixpoint nat_list_eqb (a b : list nat) : bool :=
  match a, b with
  | [], [] => true
  | x :: r, y :: q => Nat.eqb x y && nat_list_eqb r q
  | _, _ => false
  end.

(** A recorded execution of the real pool: configuration, steps, and the final snapshot
    (size, idle ids top first, down).  The execution ran to quiescence: nobody is left inside
    Acquire. *)
Inductive case :=
| PoolTrace (c : Z) (m : nat) (cl : bool) (ts : list tstep) (fsize : Z) (fidle : list nat) (fdown : bool)
| PoolEnc (c : Z) (m : nat) (cl : bool) (ds : list N) (fsize : Z) (fidle : list nat) (fdown : bool).

(** compact encoding of a step as one number (cheap to parse): kind (4 bits), a (12), b (10), flag (1),
    size + 33 or 0 (7), returned wire (10); wires: 0 none, 1 DeadMade, 2 DeadDown, 3 CtxDead, 4 + id Real id *)
Definition dec_wire (x : N) : option wire :=
  match x with
  | 0%N => None | 1%N => Some DeadMade | 2%N => Some DeadDown | 3%N => Some CtxDead
  | _ => Some (Real (N.to_nat (x - 4)))
  end.

Definition dec_label (kind a b : nat) (flag : bool) : label :=
  match kind with
  | 0 => AcqEnter a flag | 1 => AcqPark a | 2 => AcqWake a
  | 3 => MakeOk a (match b with O => None | S i => Some i end) flag
  | 4 => MakeBad a (Nat.pred b) | 5 => AcqReturn a | 6 => CtxCancel a | 7 => Bcast a
  | 8 => Store (match dec_wire (N.of_nat b) with Some w => w | None => CtxDead end)
  | 9 => Signal (match a with O => None | _ => Some a end)
  | 10 => CloseCS flag | 11 => CloseBcast | 12 => IdleCleanup
  | 13 => WBreak (Nat.pred b) | _ => WExpire (Nat.pred b)
  end%nat.

Definition dec_step (x : N) : tstep :=
  let sz := ((x / 134217728) mod 128)%N in
  {| t_label := dec_label (N.to_nat (x mod 16)) (N.to_nat ((x / 16) mod 4096)) (N.to_nat ((x / 65536) mod 1024))
                  (N.eqb ((x / 67108864) mod 2) 1);
     t_size := if N.eqb sz 0 then None else Some (Z.of_N sz - 33);
     t_got := dec_wire ((x / 17179869184) mod 1024) |}.

Definition quiescent (s : state) : bool :=
  is_nil (parked s) && is_nil (woken s) && is_nil (making s) && mutex_free s.

Definition check_case (c : case) : bool :=
  match c with
  | PoolEnc cp m cl ds fsize fidle fdown =>
      match replay (fixed_cfg cp m cl) (map dec_step ds) init with
      | Some s => (size s =? fsize) && nat_list_eqb (idle s) fidle && Bool.eqb (down s) fdown && quiescent s
      | None => false
      end
  | PoolTrace cp m cl ts fsize fidle fdown =>
      match replay (fixed_cfg cp m cl) ts init with
      | Some s => (size s =? fsize) && nat_list_eqb (idle s) fidle && Bool.eqb (down s) fdown && quiescent s
      | None => false
      end
  end.

Definition mk (l : label) : tstep := {| t_label := l; t_size := None; t_got := None |}.
Definition mks (l : label) (z : Z) : tstep := {| t_label := l; t_size := Some z; t_got := None |}.
Definition mkg (l : label) (z : Z) (w : wire) : tstep := {| t_label := l; t_size := Some z; t_got := Some w |}.
