(** The Slot model instantiated with the CRC table regenerated from internal/cmds/slot.go. *)
From Coq Require Import List NArith Bool.
Require Import RV.Model.Base RV.Model.Slot RV.Gen.Crc16Tab.
Open Scope N_scope.

Definition tab : list N := crc16tab.
Definition slot_impl (k : bytes) : N := slot crc16tab k.
Definition check_case (c : case) : bool := check_case_with crc16tab c.
