(** Exceptions to C32 that are recorded as known findings (known_findings.d/bld.json).  Hand-written;
    the kernel re-proves on every run that the regenerated graph has exactly these offenders. *)
From Coq Require Import List NArith.
Require Import RV.Model.Base.
Import ListNotations.
Open Scope N_scope.

(** "AI.MODELEXECUTE": stores its output tensors under the OUTPUTS keys, yet hack/cmds/gen.go lists it in
    readOnlyCMDs and cacheableCMDs (gen_inference_test.go pins Cache() on it). *)
Definition AI_MODELEXECUTE : bytes := [65; 73; 46; 77; 79; 68; 69; 76; 69; 88; 69; 67; 85; 84; 69].

Definition known_readonly_mistags : list bytes := [AI_MODELEXECUTE].
