(** Specification-side definitions over builder graphs and the boolean checkers that are evaluated by
    the kernel on the regenerated graph (Gen/Builders.v) on every run.  Definitions only. *)
From Coq Require Import List NArith ZArith Bool.
Require Import RV.Model.Base RV.Model.Slot RV.Model.Format RV.Model.BuilderGraph RV.Model.BuilderSem.
Import ListNotations.
Open Scope N_scope.

(** * C33: the caller's arguments in call order *)

Definition is_arg_item (it : item) : bool := match it with IT _ => false | _ => true end.
Definition arg_items (e : edge) : list item := filter is_arg_item (e_items e).
Definition tok_items (its : list item) : list N :=
  flat_map (fun it => match it with IT t => [t] | _ => [] end) its.
Definition item_index (it : item) : N :=
  match it with IT _ => 0 | IP i _ | IA i _ | IQ i _ _ _ _ => i end.

(** rendering of one caller argument [a] by the formatting the argument item [it] applies
    (independent of the index stored in [it]) *)
Definition render (fe : fenv) (it : item) (a : arg) : option (list bytes) :=
  match it with
  | IT _ => Some []
  | IP _ f => match arg_scalar a with
              | Some v => match fmt_sval fe f v with Some b => Some [b] | None => None end
              | None => None
              end
  | IA _ f => match arg_elems a with
              | Some vs => all_some (map (fmt_sval fe f) vs)
              | None => None
              end
  | IQ _ c1 f1 c2 f2 =>
    match arg_pairs a with
    | Some ps =>
      match all_some (map (fun p => match fmt_sval fe f1 (comp c1 p), fmt_sval fe f2 (comp c2 p) with
                                    | Some x, Some y => Some [x; y]
                                    | _, _ => None
                                    end) ps) with
      | Some bss => Some (concat bss)
      | None => None
      end
    | None => None
    end
  end.

Fixpoint render_all (fe : fenv) (its : list item) (args : list arg) : option (list bytes) :=
  match its, args with
  | [], [] => Some []
  | it :: ir, a :: ar =>
    match render fe it a, render_all fe ir ar with
    | Some x, Some y => Some (x ++ y)
    | _, _ => None
    end
  | _, _ => None
  end.

(** the caller's arguments of one call, rendered, in parameter order *)
Definition call_args_text (fe : fenv) (e : edge) (args : list arg) : option (list bytes) :=
  render_all fe (arg_items e) args.

Definition Nseq (n : nat) : list N := map N.of_nat (seq 0 n).

(** every parameter is appended exactly once, in parameter order *)
Definition edge_args_in_order (e : edge) : bool :=
  list_eqb N.eqb (map item_index (arg_items e)) (Nseq (length (e_params e))).

(** the kind of an argument item fits the parameter type *)
Definition scalar_ty (p : pty) : bool :=
  match p with PStr | PInt | PUint | PF64 | PF32 | PDur | PTime => true | _ => false end.
Definition list_ty (p : pty) : bool :=
  match p with PStrs | PInts | PUints | PF64s | PF32s => true | _ => false end.
Definition seq_ty (p : pty) : bool := match p with PSeqSS | PSeqSF => true | _ => false end.

Definition item_kind_ok (ps : list pty) (it : item) : bool :=
  match it with
  | IT _ => true
  | IP i _ => match nth_error ps (N.to_nat i) with Some p => scalar_ty p | None => false end
  | IA i _ => match nth_error ps (N.to_nat i) with Some p => list_ty p | None => false end
  | IQ i _ _ _ _ => match nth_error ps (N.to_nat i) with Some p => seq_ty p | None => false end
  end.

(** key-slot statements refer to string parameters of the right shape *)
Definition ksop_ok (ps : list pty) (o : ksop) : bool :=
  match o with
  | KO i => match nth_error ps (N.to_nat i) with Some PStr => true | _ => false end
  | KM i => match nth_error ps (N.to_nat i) with Some PStrs => true | _ => false end
  end.

Definition edge_wf (e : edge) : bool :=
  edge_args_in_order e && forallb (item_kind_ok (e_params e)) (e_items e) && forallb (ksop_ok (e_params e)) (e_ks e)
  && (e_cf e <? 32768).

Definition node_wf (nd : node) : bool := forallb edge_wf (n_edges nd).

Definition root_wf (r : root) : bool := r_cf r <? 32768.

Definition graph_wf (g : graph) : bool := forallb node_wf (g_nodes g) && forallb root_wf (g_roots g).

(** * C33: formats *)

Definition EX : N := 0x014558.
Definition PX : N := 0x015058.
Definition EXAT : N := 0x0145584154.
Definition PXAT : N := 0x0150584154.

(** element type of a parameter *)
Definition elem_ty (p : pty) : pty :=
  match p with PStrs => PStr | PInts => PInt | PUints => PUint | PF64s => PF64 | PF32s => PF32 | _ => p end.

(** [prev] is the item appended just before (None at the start of the method) *)
Definition fmt_ok (prev : option item) (p : pty) (f : fmt) : bool :=
  match elem_ty p, f with
  | PStr, FS => true
  | PInt, FI 10 => true
  | PUint, FU 10 => true
  | PF64, FF 102 (-1)%Z 64 => true                (* 'f', -1, 64 *)
  | PF32, FF32 102 (-1)%Z 64 => true
  | PDur, FD 10 unit =>
    match prev with
    | Some (IT t) => ((t =? EX) && (unit =? 1000000000)) || ((t =? PX) && (unit =? 1000000))
    | _ => false
    end
  | PTime, FTs 10 => match prev with Some (IT t) => t =? EXAT | _ => false end
  | PTime, FTms 10 => match prev with Some (IT t) => t =? PXAT | _ => false end
  | _, _ => false
  end.

Definition item_fmt_ok (ps : list pty) (prev : option item) (it : item) : bool :=
  match it with
  | IT _ => true
  | IP i f | IA i f => match nth_error ps (N.to_nat i) with Some p => fmt_ok prev p f | None => false end
  | IQ i c1 f1 c2 f2 =>
    match nth_error ps (N.to_nat i) with
    | Some PSeqSS => (match f1, f2 with FS, FS => true | _, _ => false end)
                     && (((c1 =? 0) && (c2 =? 1)) || ((c1 =? 1) && (c2 =? 0)))
    | Some PSeqSF =>
      (* each pair (member, score) contributes both components exactly once *)
      ((c1 =? 0) && (c2 =? 1) && (match f1, f2 with FS, FF 102 (-1)%Z 64 => true | _, _ => false end))
      || ((c1 =? 1) && (c2 =? 0) && (match f1, f2 with FF 102 (-1)%Z 64, FS => true | _, _ => false end))
    | _ => false
    end
  end.

Fixpoint items_fmt_ok (ps : list pty) (prev : option item) (its : list item) : bool :=
  match its with
  | [] => true
  | it :: r => item_fmt_ok ps prev it && items_fmt_ok ps (Some it) r
  end.

Definition edge_fmt_ok (e : edge) : bool := items_fmt_ok (e_params e) None (e_items e).
Definition graph_fmt_ok (g : graph) : bool := forallb (fun nd => forallb edge_fmt_ok (n_edges nd)) (g_nodes g).

(** edges violating a check, for the violation search: (type-name hash, method name) *)
Definition bad_edges (chk : edge -> bool) (g : graph) : list (N * N) :=
  flat_map (fun nd => map (fun e => (n_name nd, e_name e)) (filter (fun e => negb (chk e)) (n_edges nd))) (g_nodes g).

(** * C18: key-typed parameters update the slot *)

Definition ks_param (o : ksop) : N := match o with KO i | KM i => i end.
Definition edge_keys_ok (e : edge) : bool :=
  forallb (fun i => existsb (fun o => ks_param o =? i) (e_ks e)) (e_keydecl e).
Definition graph_keys_ok (g : graph) : bool := forallb (fun nd => forallb edge_keys_ok (n_edges nd)) (g_nodes g).

(** * Paths: resolution of method names, independent of argument values *)

Fixpoint resolve (g : graph) (nd : N) (ss : list step) : option (list (edge * list arg)) :=
  match ss with
  | [] => Some []
  | Call name args :: r =>
    match get_node g nd with
    | None => None
    | Some n =>
      match find_edge name (n_edges n) with
      | None => None
      | Some e => match resolve g (e_tgt e) r with
                  | Some tr => Some ((e, args) :: tr)
                  | None => None
                  end
      end
    end
  end.

Definition args_of (o : out) : list bytes := map snd (filter fst o).
Definition toks_of (o : out) : list bytes := map snd (filter (fun x => negb (fst x)) o).

Definition opt_list {A : Type} (o : option (list A)) : list A := match o with Some l => l | None => [] end.
