(** Model of url.go: ParseURL (C44), after the repair of the write_timeout mapping.

    Input is the URL as parsed by net/url (the fields ParseURL reads): [url.Parse], and the library
    functions [net.SplitHostPort], [time.ParseDuration], [strings.TrimSpace] are parameters of the
    model ([env]); the observer passes their values on the strings at hand and the theorems hold for
    every such environment.  [strconv.Atoi], [strconv.ParseBool], [net.JoinHostPort] and
    [strings.Split] are modelled concretely. *)
From Coq Require Import List NArith ZArith Bool String.
Require Import RV.Model.Base RV.Model.AccBase.
Import ListNotations.
Open Scope N_scope.

Record purl := mkUrl {
  scheme : bytes;                               (* u.Scheme *)
  user : option (bytes * option bytes);         (* u.User: username, password if set *)
  host : bytes;                                 (* u.Host (host or host:port) *)
  hostname : bytes;                             (* u.Hostname(): the host without port and without brackets *)
  path : bytes;                                 (* u.Path *)
  query : list (bytes * bytes)                  (* u.Query() as key/value pairs in order of appearance *)
}.

Record env := mkEnv {
  split_host_port : bytes -> bytes * bytes;     (* net.SplitHostPort; ("", "") on error (the error is dropped by the code) *)
  parse_duration : bytes -> option Z;           (* time.ParseDuration, nanoseconds *)
  trim_space : bytes -> bytes                   (* strings.TrimSpace *)
}.

Record tls_cfg := mkTls { server_name : bytes; skip_verify : bool }.   (* MinVersion is the constant TLS 1.2 *)

Record opts := mkOpts {
  init_address : list bytes;
  tls : option tls_cfg;
  unix_dial : bool;               (* DialCtxFn set (unix scheme) *)
  username : bytes;
  password : bytes;
  select_db : Z;
  dial_timeout : Z;               (* Dialer.Timeout *)
  conn_write_timeout : Z;         (* ConnWriteTimeout *)
  always_resp2 : bool;
  disable_cache : bool;
  disable_retry : bool;
  client_name : bytes;
  master_set : bytes
}.

(** error kinds *)
Definition EScheme : N := 1.
Definition EDb : N := 2.
Definition EPath : N := 3.
Definition EDial : N := 4.
Definition EWrite : N := 5.
Definition ESkipVerify : N := 6.

(** url.Values *)
Definition q_all (q : list (bytes * bytes)) (k : bytes) : list bytes :=
  map snd (filter (fun kv => bytes_eqb (fst kv) k) q).
Definition q_has (q : list (bytes * bytes)) (k : bytes) : bool :=
  match q_all q k with [] => false | _ => true end.
Definition q_get (q : list (bytes * bytes)) (k : bytes) : bytes :=
  match q_all q k with [] => [] | v :: _ => v end.

(** net.JoinHostPort *)
Definition join_host_port (h p : bytes) : bytes :=
  if contains_byte 58 h then (91 :: h) ++ (93 :: 58 :: p) else h ++ (58 :: p).

(** the closure parseAddr of ParseURL; [uhost] is the default host: u.Hostname() after the repair (the original code
    used u.Host, i.e. the host with the URL's own port and brackets) *)
Definition parse_addr (e : env) (uhost hostport : bytes) : bytes * bytes :=
  let '(h, p) := split_host_port e hostport in
  let h := match h with [] => uhost | _ => h end in
  let h := match h with [] => b "localhost" | _ => h end in
  let p := match p with [] => b "6379" | _ => p end in
  (h, join_host_port h p).

Definition is_tls_scheme (s : bytes) : bool := bytes_eqb s (b "rediss") || bytes_eqb s (b "valkeys").
Definition is_plain_scheme (s : bytes) : bool := bytes_eqb s (b "redis") || bytes_eqb s (b "valkey").
Definition is_unix_scheme (s : bytes) : bool := bytes_eqb s (b "unix").

(** database number from the path (non-unix schemes) *)
Definition path_db (p : bytes) : result (option Z) :=
  match split_byte 47 p with
  | [_; d] => match parse_int10 d with Some z => Ok (Some z) | None => Err EDb end
  | _ :: _ :: _ :: _ => Err EPath
  | _ => Ok None
  end.

(** the stages of ParseURL that can fail, in the order of the code *)

(** [if u.Scheme != "unix" { … strings.Split(u.Path, "/") … }] *)
Definition stage_path (u : purl) : result (option Z) :=
  if is_unix_scheme (scheme u) then Ok None else path_db (path u).

(** [if q.Has("db") { opt.SelectDB, err = strconv.Atoi(q.Get("db")) … }] *)
Definition stage_db (u : purl) (db_path : option Z) : result (option Z) :=
  if q_has (query u) (b "db") then
    match parse_int10 (q_get (query u) (b "db")) with Some z => Ok (Some z) | None => Err EDb end
  else Ok db_path.

(** [if q.Has(k) { …, err = time.ParseDuration(q.Get(k)) … }] *)
Definition stage_dur (e : env) (u : purl) (k : bytes) (ek : N) : result Z :=
  if q_has (query u) k then
    match parse_duration e (q_get (query u) k) with Some d => Ok d | None => Err ek end
  else Ok 0%Z.

(** [if opt.TLSConfig != nil && q.Has("skip_verify") { … }] *)
Definition stage_skip (u : purl) (tls0 : option tls_cfg) : result (option tls_cfg) :=
  match tls0 with
  | Some t =>
    if q_has (query u) (b "skip_verify") then
      match q_get (query u) (b "skip_verify") with
      | [] => Ok (Some (mkTls (server_name t) true))
      | v => match parse_bool v with
             | Some sv => Ok (Some (mkTls (server_name t) sv))
             | None => Err ESkipVerify
             end
      end
    else Ok tls0
  | None => Ok None
  end.

Definition parse_url (e : env) (u : purl) : result opts :=
  let q := query u in
  if negb (is_unix_scheme (scheme u) || is_tls_scheme (scheme u) || is_plain_scheme (scheme u)) then Err EScheme
  else
  let unix := is_unix_scheme (scheme u) in
  let ha := parse_addr e (hostname u) (host u) in
  let addr0 := if unix then [trim_space e (path u)] else [snd ha] in
  let tls0 := if is_tls_scheme (scheme u) then Some (mkTls (fst ha) false) else None in
  let un := match user u with Some (n, _) => n | None => [] end in
  let pw := match user u with Some (_, Some p) => p | _ => [] end in
  bind (stage_path u) (fun db_path =>
  bind (stage_db u db_path) (fun db =>
  bind (stage_dur e u (b "dial_timeout") EDial) (fun dial =>
  bind (stage_dur e u (b "write_timeout") EWrite) (fun wr =>
  let addrs := addr0 ++ map (fun a => snd (parse_addr e (hostname u) a)) (q_all q (b "addr")) in
  bind (stage_skip u tls0) (fun tls1 =>
    Ok (mkOpts addrs tls1 unix un pw
               (match db with Some z => z | None => 0%Z end)
               dial wr
               (bytes_eqb (q_get q (b "protocol")) (b "2"))
               (bytes_eqb (q_get q (b "client_cache")) (b "0"))
               (bytes_eqb (q_get q (b "max_retries")) (b "0"))
               (q_get q (b "client_name"))
               (q_get q (b "master_set")))))))).

(** the code before the repair stored write_timeout into Dialer.Timeout (overwriting dial_timeout) and never
    set ConnWriteTimeout: the two timeouts as the original code computed them *)
Definition timeouts_before_fix (e : env) (q : list (bytes * bytes)) : result (Z * Z) :=
  match (if q_has q (b "dial_timeout") then
           match parse_duration e (q_get q (b "dial_timeout")) with Some d => Ok d | None => Err EDial end
         else Ok 0%Z) with
  | Ok dial =>
    if q_has q (b "write_timeout") then
      match parse_duration e (q_get q (b "write_timeout")) with Some d => Ok (d, 0%Z) | None => Err EWrite end
    else Ok (dial, 0%Z)
  | Err k => Err k
  | Panic => Panic
  end.

(** ---- correspondence cases (printed by harness/cmd/obs_url) ---- *)

(** the implementation's observation: error kind or the options *)
Inductive case :=
| CUrl (u : purl)
       (split_tbl : list (bytes * (bytes * bytes)))   (* net.SplitHostPort on u.Host and on every addr value *)
       (dur_tbl : list (bytes * option Z))            (* time.ParseDuration on the timeout values *)
       (trim_tbl : list (bytes * bytes))              (* strings.TrimSpace on u.Path *)
       (impl : result opts).

Definition env_of (st : list (bytes * (bytes * bytes))) (dt : list (bytes * option Z)) (trt : list (bytes * bytes)) : env :=
  mkEnv (fun s => match assoc s st with Some r => r | None => ([], []) end)
        (fun s => match assoc s dt with Some r => r | None => None end)
        (fun s => match assoc s trt with Some r => r | None => s end).

Definition covered {V} (t : list (bytes * V)) (k : bytes) : bool :=
  match assoc k t with Some _ => true | None => false end.

Definition tls_eqb (a c : tls_cfg) : bool := bytes_eqb (server_name a) (server_name c) && Bool.eqb (skip_verify a) (skip_verify c).

Definition opts_eqb (a c : opts) : bool :=
  list_eqb bytes_eqb (init_address a) (init_address c) && option_eqb tls_eqb (tls a) (tls c) &&
  Bool.eqb (unix_dial a) (unix_dial c) && bytes_eqb (username a) (username c) && bytes_eqb (password a) (password c) &&
  Z.eqb (select_db a) (select_db c) && Z.eqb (dial_timeout a) (dial_timeout c) &&
  Z.eqb (conn_write_timeout a) (conn_write_timeout c) && Bool.eqb (always_resp2 a) (always_resp2 c) &&
  Bool.eqb (disable_cache a) (disable_cache c) && Bool.eqb (disable_retry a) (disable_retry c) &&
  bytes_eqb (client_name a) (client_name c) && bytes_eqb (master_set a) (master_set c).

Definition check_case (c : case) : bool :=
  match c with
  | CUrl u st dt trt impl =>
    (* the tables must cover every string the model asks the environment about (fail closed) *)
    covered st (host u) && forallb (covered st) (q_all (query u) (b "addr")) &&
    covered dt (q_get (query u) (b "dial_timeout")) && covered dt (q_get (query u) (b "write_timeout")) &&
    covered trt (path u) &&
    result_eqb opts_eqb (parse_url (env_of st dt trt) u) impl
  end.
