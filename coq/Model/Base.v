(** Shared executable definitions: bytes, hex literals used by generated case files,
    outcome type with an explicit [Panic], list helpers.  No proofs here. *)
From Coq Require Import List NArith ZArith String Ascii Bool.
Import ListNotations.
Open Scope N_scope.

Definition bytes := list N.

(** Outcome of a modelled Go function: a value, an error (small enum), or a Go panic. *)
Inductive result (A : Type) : Type :=
| Ok (a : A)
| Err (e : N)
| Panic.
Arguments Ok {A} a.
Arguments Err {A} e.
Arguments Panic {A}.

Definition hexval (a : ascii) : N :=
  let n := N_of_ascii a in
  if (48 <=? n) && (n <=? 57) then n - 48
  else if (97 <=? n) && (n <=? 102) then n - 87
  else if (65 <=? n) && (n <=? 70) then n - 55
  else 0.

(** [h "48656c6c6f"] is the byte string "Hello"; observers print byte strings this way. *)
Fixpoint h (s : string) : bytes :=
  match s with
  | String a (String b r) => (hexval a * 16 + hexval b) :: h r
  | _ => []
  end.

Fixpoint list_eqb {A : Type} (eqb : A -> A -> bool) (l1 l2 : list A) : bool :=
  match l1, l2 with
  | [], [] => true
  | x :: r1, y :: r2 => eqb x y && list_eqb eqb r1 r2
  | _, _ => false
  end.

Definition bytes_eqb : bytes -> bytes -> bool := list_eqb N.eqb.

Definition option_eqb {A : Type} (eqb : A -> A -> bool) (a b : option A) : bool :=
  match a, b with
  | Some x, Some y => eqb x y
  | None, None => true
  | _, _ => false
  end.

Definition result_eqb {A : Type} (eqb : A -> A -> bool) (a b : result A) : bool :=
  match a, b with
  | Ok x, Ok y => eqb x y
  | Err e, Err f => N.eqb e f
  | Panic, Panic => true
  | _, _ => false
  end.

(** indices of the cases on which [chk] answers false *)
Fixpoint bad_indices {A : Type} (chk : A -> bool) (l : list (N * A)) : list N :=
  match l with
  | [] => []
  | (i, c) :: r => if chk c then bad_indices chk r else i :: bad_indices chk r
  end.

Fixpoint repeat_n {A : Type} (x : A) (n : nat) : list A :=
  match n with O => [] | S k => x :: repeat_n x k end.
