(** Model of the topology part of cluster.go: reply trees, [parseEndpoint], [parseSlots],
    [parseShards], the slot-table rebuild of [_refresh] (four configurations) and [_pick].

    Addresses are pairs (host, port): [net.JoinHostPort] is injective on such pairs, the observer
    splits the implementation's strings back with [net.SplitHostPort] (trusted canonicaliser).
    Go map iteration order is an input: a parsed topology is an association list in first-insertion
    order and every theorem about [rebuild] quantifies over the order of the groups.
    Definitions only; proofs are in Proofs/ClusterTopoProofs.v. *)
From Coq Require Import List Arith NArith ZArith Bool.
Require Import RV.Model.Base.
Import ListNotations.
Open Scope Z_scope.

(** ---- reply trees (RedisMessage) ---- *)
Inductive msg :=
| MStr (t : N) (s : bytes)        (* + $ - ! , ( = : the message carries bytes *)
| MInt (t : N) (i : Z)            (* ':' (58) integer, '#' (35) boolean: intlen only *)
| MAgg (t : N) (vs : list msg)    (* '*' (42) '~' (126) '%' (37) '>' (62): the message carries values *)
| MNil.                           (* '_' and the zero RedisMessage of a missing map key *)

Definition values (m : msg) : list msg := match m with MAgg _ vs => vs | _ => [] end.
Definition mstring (m : msg) : bytes := match m with MStr _ s => s | _ => [] end.
Definition intlen (m : msg) : Z :=
  match m with
  | MStr _ s => Z.of_nat (length s)
  | MInt _ i => i
  | MAgg _ vs => Z.of_nat (length vs)
  | MNil => 0
  end.
Definition mtyp (m : msg) : N :=
  match m with MStr t _ => t | MInt t _ => t | MAgg t _ => t | MNil => 95%N end.

Definition is_strtyp (t : N) : bool := (t =? 36)%N || (t =? 43)%N.          (* '$' '+' *)
Definition is_errtyp (t : N) : bool := (t =? 45)%N || (t =? 33)%N.          (* '-' '!' *)
Definition is_arrtyp (t : N) : bool := (t =? 42)%N || (t =? 126)%N.         (* '*' '~' *)
Definition is_maptyp (t : N) : bool := (t =? 37)%N.                         (* '%' *)

(** [m.Error() != nil]: null or error reply *)
Definition msg_is_error (m : msg) : bool :=
  match m with
  | MNil => true
  | MStr t _ => is_errtyp t
  | _ => false
  end.

(** ---- addresses ---- *)
Definition addr := (bytes * Z)%type.
Definition addr_eqb (a b : addr) : bool := bytes_eqb (fst a) (fst b) && (snd a =? snd b).

Fixpoint mem_addr (a : addr) (l : list addr) : bool :=
  match l with [] => false | x :: r => addr_eqb a x || mem_addr a r end.

(** parseEndpoint: [""] takes the host of the fallback address, ["?"] means unknown (skipped) *)
Definition parse_endpoint (default_host endpoint : bytes) (port : Z) : option addr :=
  match endpoint with
  | [] => Some (default_host, port)
  | [63%N] => None
  | _ => Some (endpoint, port)
  end.

Record group := mkGroup { g_nodes : list addr; g_slots : list (Z * Z) }.

Definition groups := list (addr * group).

Fixpoint assoc_get (a : addr) (gs : groups) : option group :=
  match gs with
  | [] => None
  | (k, g) :: r => if addr_eqb a k then Some g else assoc_get a r
  end.

(** [groups[k] = g]: replace in place, else append (first-insertion order) *)
Fixpoint assoc_set (a : addr) (g : group) (gs : groups) : groups :=
  match gs with
  | [] => [(a, g)]
  | (k, g0) :: r => if addr_eqb a k then (k, g) :: r else (k, g0) :: assoc_set a g r
  end.

(** Go indexing [xs[i]]: out of range panics *)
Definition idx {A} (l : list A) (i : nat) : result A :=
  match nth_error l i with Some x => Ok x | None => Panic end.

Definition bind {A B} (r : result A) (f : A -> result B) : result B :=
  match r with Ok a => f a | Err e => Err e | Panic => Panic end.
Notation "'do' x <- r ; k" := (bind r (fun x => k)) (at level 200, x ident, r at level 100, k at level 200).

(** ---- parseSlots ---- *)
(** the node list of a fresh group: entries 2.. with at least two fields and a known endpoint *)
Fixpoint slot_nodes (dh : bytes) (entries : list msg) : result (list addr) :=
  match entries with
  | [] => Ok []
  | e :: r =>
    let nv := values e in
    if (length nv <? 2)%nat then slot_nodes dh r
    else
      do h <- idx nv 0;
      do p <- idx nv 1;
      do rest <- slot_nodes dh r;
      match parse_endpoint dh (mstring h) (intlen p) with
      | Some a => Ok (a :: rest)
      | None => Ok rest
      end
  end.

Definition parse_slots_entry (dh : bytes) (v : msg) (acc : groups) : result groups :=
  let vs := values v in
  if (length vs <? 3)%nat then Ok acc
  else
    do m2 <- idx vs 2;
    let mv := values m2 in
    if (length mv <? 2)%nat then Ok acc
    else
      do h <- idx mv 0;
      do p <- idx mv 1;
      match parse_endpoint dh (mstring h) (intlen p) with
      | None => Ok acc
      | Some master =>
        do lo <- idx vs 0;
        do hi <- idx vs 1;
        match assoc_get master acc with
        | Some g => Ok (assoc_set master (mkGroup (g_nodes g) (g_slots g ++ [(intlen lo, intlen hi)])) acc)
        | None =>
          do ns <- slot_nodes dh (skipn 2 vs);
          Ok (assoc_set master (mkGroup ns [(intlen lo, intlen hi)]) acc)
        end
      end.

Fixpoint parse_slots_loop (dh : bytes) (vs : list msg) (acc : groups) : result groups :=
  match vs with
  | [] => Ok acc
  | v :: r => do acc' <- parse_slots_entry dh v acc; parse_slots_loop dh r acc'
  end.

Definition parse_slots (dh : bytes) (m : msg) : result groups := parse_slots_loop dh (values m) [].

(** ---- parseShards ---- *)
(** toMap / AsMap: [None] is the nil map (every lookup yields the zero message) *)
Fixpoint to_map (vs : list msg) : option (list (bytes * msg)) :=
  match vs with
  | k :: v :: r =>
    if is_strtyp (mtyp k) then
      match k, to_map r with
      | MStr _ s, Some m => Some ((s, v) :: m)
      | _, _ => None
      end
    else None
  | _ => Some []        (* [] ; an odd tail cannot occur: the caller checks the parity *)
  end.

Definition as_map (m : msg) : option (list (bytes * msg)) :=
  if msg_is_error m then None
  else match m with
       | MAgg t vs =>
         if (is_maptyp t || is_arrtyp t) && Nat.even (length vs) then to_map vs else None
       | _ => None
       end.

(** Go map lookup after inserting the pairs in order: the last binding wins *)
Fixpoint map_get (k : bytes) (m : list (bytes * msg)) : option msg :=
  match m with
  | [] => None
  | (k', v) :: r => match map_get k r with
                    | Some x => Some x
                    | None => if bytes_eqb k k' then Some v else None
                    end
  end.

(** a missing key (and every key of the nil map) yields the zero message *)
Definition omap_get (k : bytes) (m : option (list (bytes * msg))) : msg :=
  match m with
  | Some l => match map_get k l with Some v => v | None => MNil end
  | None => MNil
  end.

(** strconv.ParseInt(s, 10, 64) as used by AsInt64, value part only (the error is dropped by the
    caller): syntax error gives 0, range error gives the nearest int64 *)
Definition is_digit (b : N) : bool := (48 <=? b)%N && (b <=? 57)%N.
Fixpoint digits_val (bs : bytes) (acc : Z) : option Z :=
  match bs with
  | [] => Some acc
  | b :: r => if is_digit b then digits_val r (acc * 10 + Z.of_N (b - 48)%N) else None
  end.
Definition clamp64 (z : Z) : Z :=
  if z <? - 9223372036854775808 then - 9223372036854775808
  else if 9223372036854775807 <? z then 9223372036854775807 else z.
Definition parse_digits (bs : bytes) (neg : bool) : Z :=
  match bs with
  | [] => 0
  | _ => match digits_val bs 0 with
         | Some v => clamp64 (if neg then - v else v)
         | None => 0
         end
  end.
Definition parse_int (bs : bytes) : Z :=
  match bs with
  | [] => 0
  | b :: r =>
    if (b =? 45)%N then parse_digits r true
    else if (b =? 43)%N then parse_digits r false
    else parse_digits bs false
  end.

(** AsInt64 with the error dropped *)
Definition as_int64 (m : msg) : Z :=
  match m with
  | MInt t i => if (t =? 58)%N then i else 0
  | MStr t s => if is_strtyp t then parse_int s else 0
  | _ => 0
  end.

Fixpoint shard_slots (fuel : nat) (sl : list msg) : result (list (Z * Z)) :=
  match fuel with
  | O => Ok []
  | S f =>
    match sl with
    | a :: b :: r => do rest <- shard_slots f r; Ok ((as_int64 a, as_int64 b) :: rest)
    | _ => Panic   (* unreachable: fuel = len/2 *)
    end
  end.

Definition online : bytes := [111; 110; 108; 105; 110; 101]%N.
Definition s_master : bytes := [109; 97; 115; 116; 101; 114]%N.
Definition k_slots : bytes := [115; 108; 111; 116; 115]%N.
Definition k_nodes : bytes := [110; 111; 100; 101; 115]%N.
Definition k_health : bytes := [104; 101; 97; 108; 116; 104]%N.
Definition k_port : bytes := [112; 111; 114; 116]%N.
Definition k_tlsport : bytes := [116; 108; 115; 45; 112; 111; 114; 116]%N.
Definition k_endpoint : bytes := [101; 110; 100; 112; 111; 105; 110; 116]%N.
Definition k_role : bytes := [114; 111; 108; 101]%N.

(** node loop of parseShards: returns the kept addresses and the index of the last master among them *)
Fixpoint shard_nodes (dh : bytes) (tls : bool) (ns : list msg) (acc : list addr) (m : option nat)
  : list addr * option nat :=
  match ns with
  | [] => (acc, m)
  | n :: r =>
    let d := as_map n in
    if negb (bytes_eqb (mstring (omap_get k_health d)) online) then shard_nodes dh tls r acc m
    else
      let port0 := intlen (omap_get k_port d) in
      let port := if tls && (0 <? intlen (omap_get k_tlsport d)) then intlen (omap_get k_tlsport d) else port0 in
      match parse_endpoint dh (mstring (omap_get k_endpoint d)) port with
      | None => shard_nodes dh tls r acc m
      | Some a =>
        let m' := if bytes_eqb (mstring (omap_get k_role d)) s_master then Some (length acc) else m in
        shard_nodes dh tls r (acc ++ [a]) m'
      end
  end.

(** g.nodes[0], g.nodes[m] = g.nodes[m], g.nodes[0] *)
Definition swap0 (l : list addr) (m : nat) : result (list addr) :=
  do x0 <- idx l 0;
  do xm <- idx l m;
  Ok (match m with
      | O => l
      | S k => xm :: firstn k (tl l) ++ x0 :: skipn (S k) (tl l)
      end).

Definition parse_shards_entry (dh : bytes) (tls : bool) (v : msg) (acc : groups) : result groups :=
  let shard := as_map v in
  let sl := values (omap_get k_slots shard) in
  let ns := values (omap_get k_nodes shard) in
  do slots <- shard_slots (Nat.div2 (length sl)) sl;
  match shard_nodes dh tls ns [] None with
  | (_, None) => Ok acc
  | (nodes, Some m) =>
    do nodes' <- swap0 nodes m;
    do first <- idx nodes' 0;
    Ok (assoc_set first (mkGroup nodes' slots) acc)
  end.

Fixpoint parse_shards_loop (dh : bytes) (tls : bool) (vs : list msg) (acc : groups) : result groups :=
  match vs with
  | [] => Ok acc
  | v :: r => do acc' <- parse_shards_entry dh tls v acc; parse_shards_loop dh tls r acc'
  end.

Definition parse_shards (dh : bytes) (tls : bool) (m : msg) : result groups :=
  parse_shards_loop dh tls (values m) [].

(** ---- slot table ([_refresh]) ---- *)
(** [for i := lo; i <= hi && i >= 0 && i < 16384; i++]: the slots the loop assigns *)
Definition covers (r : Z * Z) (s : Z) : bool :=
  (0 <=? fst r) && (fst r <=? s) && (s <=? snd r) && (s <? 16384).
Definition lists (g : group) (s : Z) : bool := existsb (fun r => covers r s) (g_slots g).

(** the group whose loop wrote slot [s] last: the last one in iteration order listing it *)
Fixpoint last_owner (gs : list group) (s : Z) : option group :=
  match gs with
  | [] => None
  | g :: r => match last_owner r s with
              | Some g' => Some g'
              | None => if lists g s then Some g else None
              end
  end.

Inductive cfgkind :=
| CfgDefault
| CfgReplicaOnly                       (* opt.ReplicaOnly *)
| CfgReplicaSelector                   (* SendToReplicas + ReplicaSelector (also the built-in random one) *)
| CfgReadNodeSelector.                 (* SendToReplicas + ReadNodeSelector *)

(** selector results are inputs: [rsel slot replicas] is what ReplicaSelector returned when the table
    was built, [choice slot] the FastRand draw of the ReplicaOnly branch *)
Record tcfg := mkTcfg {
  t_kind : cfgkind;
  t_rsel : Z -> list addr -> Z;
  t_choice : Z -> nat;
}.

(** every group needs a primary: [g.nodes[1:]] / [g.nodes[0]] panic otherwise *)
Definition groups_ok (gs : list group) : bool :=
  forallb (fun g => match g_nodes g with [] => false | _ => true end) gs.

Definition primary (g : group) : option addr := hd_error (g_nodes g).

(** wslots[s] after the rebuild *)
Definition wslot (c : tcfg) (gs : list group) (s : Z) : option addr :=
  match last_owner gs s with
  | None => None
  | Some g =>
    match g_nodes g with
    | [] => None
    | p :: reps =>
      match t_kind c, reps with
      | CfgReplicaOnly, _ :: _ => nth_error reps (t_choice c s mod length reps)%nat
      | _, _ => Some p
      end
    end
  end.

(** rslots[s] after the rebuild ([[]] when rslots is nil or the entry is empty) *)
Definition rslot (c : tcfg) (gs : list group) (s : Z) : list addr :=
  match t_kind c with
  | CfgDefault | CfgReplicaOnly => []
  | CfgReadNodeSelector =>
    match last_owner gs s with Some g => g_nodes g | None => [] end
  | CfgReplicaSelector =>
    match last_owner gs s with
    | None => []
    | Some g =>
      match g_nodes g with
      | [] => []
      | [p] => [p]
      | p :: reps =>
        let r := t_rsel c s reps in
        if (0 <=? r) && (r <? Z.of_nat (length reps)) then
          match nth_error reps (Z.to_nat r) with Some a => [a] | None => [p] end
        else [p]
      end
    end
  end.

(** rslots is allocated lazily: only when some group reaches the [c.rOpt != nil] case *)
Definition rslots_init (c : tcfg) (gs : list group) : bool :=
  match t_kind c with
  | CfgReplicaSelector | CfgReadNodeSelector => negb (match gs with [] => true | _ => false end)
  | _ => false
  end.

Record table := mkTable {
  tb_w : Z -> option addr;
  tb_r : Z -> list addr;
  tb_rinit : bool;
  tb_readsel : bool;       (* opt.ReadNodeSelector != nil *)
}.

Definition rebuild (c : tcfg) (gs : list group) : result table :=
  if groups_ok gs then
    Ok (mkTable (wslot c gs) (rslot c gs) (rslots_init c gs)
                (match t_kind c with CfgReadNodeSelector => true | _ => false end))
  else Panic.

(** _pick for a keyed command: [nsel] is what ReadNodeSelector returns for this call *)
Definition pick_slot (t : table) (s : Z) (to_replica : bool) (nsel : Z) : option addr :=
  if to_replica && tb_rinit t then
    match tb_r t s with
    | [] => None
    | ns =>
      let i := if tb_readsel t then
                 (if (nsel <? 0) || (Z.of_nat (length ns) <=? nsel) then 0 else nsel)
               else 0 in
      nth_error ns (Z.to_nat i)
    end
  else tb_w t s.

(** the node is a replica of its shard in the topology the table was built from *)
Definition is_replica_of (gs : list group) (s : Z) (a : addr) : bool :=
  match last_owner gs s with
  | Some g => mem_addr a (tl (g_nodes g))
  | None => false
  end.
