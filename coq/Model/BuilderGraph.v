(** Data types of the command-builder graph that harness/cmd/tr_builders regenerates from
    internal/cmds/gen_*.go, builder.go and cmds.go on every run (Gen/Builders.v).

    Strings (method names, literal tokens) are *packed*: the number whose base-256 digits are a
    sentinel byte 1 followed by the bytes of the string, written as one hex literal
    (["KEY"] = 0x014b4559).  [unpack] gives the byte string back.  This keeps the generated file small
    enough for coqc (a Coq [string] costs ten kernel nodes per character).  Numbers are hex literals.

    Definitions only. *)
From Coq Require Import List NArith ZArith Bool.
Require Import RV.Model.Base.
Import ListNotations.
Open Scope N_scope.

(** packed strings *)
Fixpoint unpack_aux (fuel : nat) (n : N) (acc : bytes) : bytes :=
  match fuel with
  | O => acc
  | S f => if n <=? 1 then acc else unpack_aux f (n / 256) (n mod 256 :: acc)
  end.
Definition unpack (n : N) : bytes := unpack_aux (N.size_nat n) n [].

Fixpoint pack_aux (bs : bytes) (acc : N) : N :=
  match bs with
  | [] => acc
  | b :: r => pack_aux r (acc * 256 + b)
  end.
Definition pack (bs : bytes) : N := pack_aux bs 1.

(** Go parameter types of builder methods *)
Inductive pty :=
| PStr     (* string *)
| PInt     (* int64 *)
| PUint    (* uint64 *)
| PF64     (* float64 *)
| PF32     (* float32 *)
| PDur     (* time.Duration *)
| PTime    (* time.Time *)
| PStrs    (* ...string or []string *)
| PInts    (* ...int64 *)
| PUints   (* ...uint64 *)
| PF64s    (* ...float64 *)
| PF32s    (* ...float32 *)
| PSeqSS   (* iter.Seq2[string, string]  (hand-written internal/cmds/iter.go) *)
| PSeqSF.  (* iter.Seq2[string, float64] (hand-written internal/cmds/iter.go) *)

(** the formatting expression applied to a parameter (or to each element of a variadic parameter);
    literal arguments of the strconv calls are transcribed, not assumed *)
Inductive fmt :=
| FS                                   (* the string itself *)
| FI (base : N)                        (* strconv.FormatInt(x, base) *)
| FU (base : N)                        (* strconv.FormatUint(x, base) *)
| FF (f : N) (prec : Z) (bits : N)     (* strconv.FormatFloat(x, f, prec, bits) *)
| FF32 (f : N) (prec : Z) (bits : N)   (* strconv.FormatFloat(float64(x), f, prec, bits) *)
| FD (base : N) (unit_ns : N)          (* strconv.FormatInt(int64(d/unit), base), unit in nanoseconds *)
| FTs (base : N)                       (* strconv.FormatInt(t.Unix(), base) *)
| FTms (base : N).                     (* strconv.FormatInt(t.UnixMilli(), base) *)

(** one appended element (or run of elements) of [c.cs.s = append(c.cs.s, …)], in source order *)
Inductive item :=
| IT (tok : N)               (* literal token (packed) *)
| IP (i : N) (f : fmt)       (* parameter i, formatted *)
| IA (i : N) (f : fmt)       (* every element of the list parameter i, formatted ([x...] or a for-range append) *)
| IQ (i : N) (c1 : N) (f1 : fmt) (c2 : N) (f2 : fmt).
      (* for every pair yielded by the iterator parameter i: component c1 (0 = first, 1 = second) formatted
         with f1, then component c2 formatted with f2 *)

(** key-slot statements of a method, in source order *)
Inductive ksop :=
| KO (i : N)    (* single key parameter i: if c.ks&NoSlot == NoSlot { c.ks = NoSlot | slot(p) } else { c.ks = check(c.ks, slot(p)) } *)
| KM (i : N).   (* variadic key parameter i: the two for-range loops *)

Record edge := E {
  e_name : N;            (* method name (packed) *)
  e_tgt : N;             (* index of the returned builder type *)
  e_params : list pty;
  e_items : list item;
  e_cf : N;              (* mask OR'ed into c.cf ([c.cf |= int16(mask)]), 0 when the method does not touch cf *)
  e_ks : list ksop;
  e_keydecl : list N     (* parameters that hack/cmds/*.json (the Redis command tables) type as keys *)
}.

Record node := Nd {
  n_name : N;            (* 32-bit FNV-1a of the Go type name (the name itself is in a comment) *)
  n_edges : list edge;
  n_build : bool;        (* has Build() Completed *)
  n_cache : bool         (* has Cache() Cacheable *)
}.

Record root := R {
  r_name : N;            (* Builder method name (packed) *)
  r_node : N;
  r_toks : list N;       (* command tokens appended by the constructor *)
  r_cf : N               (* initial cf (0 when the literal has no cf field) *)
}.

(** tag constants of cmds.go, evaluated by the translator from the constant declarations *)
Record tagset := Tags {
  t_optIn : N; t_block : N; t_readonly : N; t_noRet : N; t_mtGet : N; t_scrRo : N; t_unsub : N;
  t_pipe : N; t_retryable : N; t_staticTTL : N; t_InitSlot : N; t_NoSlot : N
}.

(** predefined commands of cmds.go: name, tokens, cf *)
Record predef := Pre { p_name : N; p_toks : list N; p_cf : N }.

Record graph := G {
  g_nodes : list node;
  g_roots : list root
}.

Definition get_node (g : graph) (i : N) : option node := nth_error (g_nodes g) (N.to_nat i).

Fixpoint find_edge (name : N) (es : list edge) : option edge :=
  match es with
  | [] => None
  | e :: r => if e_name e =? name then Some e else find_edge name r
  end.

Fixpoint find_root (name : N) (rs : list root) : option root :=
  match rs with
  | [] => None
  | r :: rest => if r_name r =? name then Some r else find_root name rest
  end.
