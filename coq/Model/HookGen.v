(** The hook model instantiated with the table regenerated from rueidishook/hook.go. *)
From Coq Require Import List NArith Bool.
Require Import RV.Model.Base RV.Model.Hook RV.Gen.HookDeleg.
Definition check_case (c : case) : bool := check_case_with hook_table c.
