(** Abstract FIFO used by the pipe model (C01 / C04 / C05).

    This is the interface [pipe.go] programs against ([queue] in ring.go): PutOne / PutMulti,
    NextWriteCmd / WaitForWrite, NextResultCh, FinishResult.  It is the *specification* the ring and the
    flow buffer are proved to refine by the queue builder (C02, [QueueSpec]); the pipe model assumes
    nothing else about the queue:

    - a queue holds at most [cap] slots (2^RingScaleEachConn);
    - [q_pend]: slots put by callers and not yet handed to the writer, in position order;
    - [q_wr]  : slots handed to the writer (NextWriteCmd / WaitForWrite) and not yet handed to the reader;
    - the reader holds at most one slot between NextResultCh and FinishResult (kept in the reader's own
      state, it still occupies its position: the ring keeps the slot lock, the flow buffer keeps the token);
    - hand-off order to the writer = put order, hand-off order to the reader = writer order.

    Definitions only. *)
From Coq Require Import List NArith ZArith Bool.
Require Import RV.Model.Base.
Import ListNotations.
Open Scope N_scope.

Section Queue.
  Context {item : Type}.

  Record queue := mkQueue {
    q_cap  : nat;            (* number of positions, > 0 *)
    q_pend : list item;      (* mark = 1 *)
    q_wr   : list item;      (* mark = 2 *)
    q_held : bool            (* the reader is between NextResultCh (non-nil) and FinishResult *)
  }.

  Definition q_empty (cap : nat) : queue := mkQueue cap [] [] false.

  Definition q_used (q : queue) : nat :=
    length (q_pend q) + length (q_wr q) + (if q_held q then 1 else 0).

  (** PutOne / PutMulti: enabled only when a position is free (the ring parks the caller on the slot's
      condition variable, the flow buffer blocks on the free-token channel). *)
  Definition q_can_put (q : queue) : bool := Nat.ltb (q_used q) (q_cap q).

  Definition q_put (q : queue) (x : item) : option queue :=
    if q_can_put q then Some (mkQueue (q_cap q) (q_pend q ++ [x]) (q_wr q) (q_held q)) else None.

  (** NextWriteCmd (non-blocking) and WaitForWrite (blocking) both hand over the oldest pending slot;
      NextWriteCmd returns nothing when there is none, WaitForWrite is then simply not enabled. *)
  Definition q_next_write (q : queue) : option (item * queue) :=
    match q_pend q with
    | [] => None
    | x :: r => Some (x, mkQueue (q_cap q) r (q_wr q ++ [x]) (q_held q))
    end.

  (** NextResultCh: the oldest written slot, if any; the reader then holds it until FinishResult. *)
  Definition q_next_result (q : queue) : option (item * queue) :=
    match q_wr q with
    | [] => None
    | x :: r => Some (x, mkQueue (q_cap q) (q_pend q) r true)
    end.

  (** FinishResult: releases the held position (no-op when nothing is held). *)
  Definition q_finish (q : queue) : queue := mkQueue (q_cap q) (q_pend q) (q_wr q) false.
End Queue.
Arguments queue : clear implicits.
